import Driver.Common
import LinkVerif.Model.Mempool

namespace Driver.C15
open Go.Proto Model.Ledger Model.Mempool Driver

structure D where
  p : Pool
  reg : List TxRec := []
  sink : Bool := false
  replica : Bool := false
deriving Inhabited

def argI (toks : List String) (k : String) (d : Int) : Int := (argInt? toks k).getD d

def showI (xs : List Int) : String := ",".intercalate (xs.map toString)
def showN (xs : List Nat) : String := ",".intercalate (xs.map toString)
def showIds (xs : List Nat) : String := if xs.isEmpty then "-" else showN xs

def insertNat (x : Nat) : List Nat → List Nat
  | [] => [x]
  | y :: ys => if x ≤ y then x :: y :: ys else y :: insertNat x ys
def sortNat (xs : List Nat) : List Nat := xs.foldr insertNat []

def clsStr : Cls → String
  | .ok => "ok" | .nonceLow => "nonce-low" | .nonceHigh => "nonce-high" | .funds => "funds" | .feeLow => "fee-low"
  | .doubleSpend => "double-spend" | .dup => "dup" | .full => "full" | .oversized => "oversized" | .negative => "negative"

/-- class of a transaction altered after construction (what the basic check answers) -/
def brokenOf (toks : List String) : Option String :=
  match arg? toks "tamper" with
  | some "outpk" | some "pseudo" | some "fee" => some "commit"
  | some "proof" | some "sig" => some "proof"
  | _ => none

def clsOf (cls : Cls) (t : TxRec) : String :=
  if cls == .oversized then
    match t.broken with
    | some b => if b.startsWith "pad" then "oversized" else b
    | none => "oversized"
  else clsStr cls

def committedLine (p : Pool) : String := s!"cn={showN p.c.nonce} cb={showI p.c.bal} ct={showI p.c.tok}"

def dump (p : Pool) : String :=
  s!"g={showIds (p.good.map (·.id))} u={showIds (p.utxo.map (·.id))} q={showIds (sortNat (p.fut.map (·.id)))} qn={p.fut.length} sn={showN p.acc.nonce} sb={showI p.acc.bal} st={showI p.acc.tok}"

/-- account transactions are signed deterministically: equal content = equal hash = the same transaction -/
def sameAcct (a b : TxRec) : Bool :=
  (a.kind == .xfer || a.kind == .xfertok) && a.kind == b.kind && a.from_ == b.from_ && a.to == b.to && a.amount == b.amount &&
  a.nonce == b.nonce && a.gas == b.gas && a.broken == b.broken

def register (reg : List TxRec) (t : TxRec) : List TxRec × Nat :=
  match reg.findIdx? (sameAcct t) with
  | some i => (reg, i)
  | none => (reg ++ [t], reg.length)

def imgClass (reg : List TxRec) (t : TxRec) : Int :=
  if t.kind == .uin then
    match reg.findIdx? (fun x => x.kind == .uin && x.spends == t.spends) with
    | some i => i
    | none => -1
  else -1

def submit (d : D) (toks : List String) (t : TxRec) : D × String :=
  let (reg, id) := register d.reg t
  let d := { d with reg := reg }
  let img := imgClass reg t
  if argI toks "sub" 1 == 0 then (d, s!"id={id} img={img} built")
  else
    let (cls, p') := addTx d.p { id := id, t := (reg[id]?).getD t }
    ({ d with p := p' }, s!"id={id} img={img} add={clsOf cls ((reg[id]?).getD t)} {dump p'}")

def dedup (xs : List Nat) : List Nat := xs.foldl (fun acc x => if acc.contains x then acc else acc ++ [x]) []

/-- senders whose queue was touched by the promotion over all accounts (which ranges over a Go map) -/
def touched (before after : Pool) : List Nat :=
  let gAfter := after.good.map (·.id)
  let qAfter := after.fut.map (·.id)
  let a := (before.fut.filter (fun e => gAfter.contains e.id)).map (·.t.from_)
  let b := (before.fut.filter (fun e => !gAfter.contains e.id && !qAfter.contains e.id)).map (·.t.from_)
  let c := (after.fut.filter (fun e => e.t.nonce == getn after.acc.nonce e.t.from_)).map (·.t.from_)
  dedup (a ++ b ++ c)

def commitWith (d : D) (es : List E) : D × String :=
  match forceEntries d.p es with
  | none =>
    -- the proposer path does not verify proofs: a block that executes but holds a tampered confidential transaction is
    -- built (PreRunBlock) and then refused by CheckBlock on every node
    if execOk d.p.c es then (d, "validate=false") else (d, "propose=panic")
  | some p' =>
    if (touched d.p p').length ≥ 2 then ({ d with p := p', sink := true }, "nondet")
    else ({ d with p := p' }, s!"h={p'.c.height} txs={showIds (es.map (·.id))} {committedLine p'} {dump p'}")

def step (s : Option D) (toks : List String) : Option D × String :=
  match toks with
  | "case" :: _ => (none, "ok")
  | "pool" :: _ =>
    let cfg : Cfg := { size := (argI toks "size" 3000).toNat, future := (argI toks "future" 100000).toNat,
                       utxoSize := (argI toks "utxosize" 1000).toNat, maxReap := (argI toks "maxreap" 10000).toNat,
                       accts := (argI toks "accts" 3).toNat }
    let p := Model.Mempool.init cfg (argI toks "wallets" 2).toNat (argI toks "bal" 1000000000) (argI toks "tbal" 1000)
    (some { p := p, replica := argI toks "replica" 0 == 1 }, "ok " ++ committedLine p)
  | op :: _ =>
    match s with
    | none => (none, "nopool")
    | some d =>
      if d.sink then (some d, "skip") else
      match op with
      | "xfer" =>
        let amount := argI toks "amount" 1
        let pad := argI toks "pad" 0
        let (d, a) := submit d toks { kind := .xfer, from_ := (argI toks "from" 0).toNat, to := (argI toks "to" 1).toNat, amount := amount,
                                      nonce := (argI toks "nonce" 0).toNat, gas := calGas amount,
                                      broken := if pad > 0 then some s!"pad{pad}" else none }
        (some d, a)
      | "xfertok" =>
        let (d, a) := submit d toks { kind := .xfertok, from_ := (argI toks "from" 0).toNat, to := (argI toks "to" 1).toNat,
                                      amount := argI toks "amount" 1, nonce := (argI toks "nonce" 0).toNat, gas := calGas 0 }
        (some d, a)
      | "ain" =>
        let amount := argI toks "amount" 1
        let gas := match argInt? toks "feeu" with | some f => if f ≥ 0 then f / 10 else calGas amount | none => calGas amount
        let (d, a) := submit d toks { kind := .ain, from_ := (argI toks "from" 0).toNat, to := (argI toks "w" 0).toNat, amount := amount,
                                      nonce := (argI toks "nonce" 0).toNat, gas := gas }
        (some d, a)
      | "uu" | "ua" =>
        let w := (argI toks "w" 0).toNat
        let k := (argI toks "in" 0).toNat
        if argI toks "in" 0 < 0 then (some d, "noinput") else
        match (d.p.c.wallets.getD w [])[k]? with
        | none => (some d, "noinput")
        | some o =>
          let amount := argI toks "amount" 1
          let ufee := feeOfGas utxoGas
          if op == "uu" then
            let change := o.amount - amount - ufee
            if change < 0 then (some d, "build=funds") else
            let to := (argI toks "to" 1).toNat
            let outs := (to, amount) :: (if change > 0 then [(w, change)] else [])
            let (d, a) := submit d toks { kind := .uin, spends := o.id, outs := outs, gas := utxoGas, broken := brokenOf toks }
            (some d, a)
          else
            let afee := feeOfGas (calGas amount)
            let change := o.amount - amount - afee
            if change < 0 then (some d, "build=funds") else
            let to := (argI toks "to" 0).toNat
            if change > 0 then
              let change := change - ufee
              if change ≤ 0 then (some d, "build=funds") else
              let (d, a) := submit d toks { kind := .uin, spends := o.id, outs := [(w, change)], aout := some (to, amount),
                                            gas := calGas amount + utxoGas, broken := brokenOf toks }
              (some d, a)
            else
              let (d, a) := submit d toks { kind := .uin, spends := o.id, outs := [], aout := some (to, amount), gas := calGas amount, broken := brokenOf toks }
              (some d, a)
      | "resub" =>
        let id := (argI toks "id" 0).toNat
        if argI toks "id" 0 < 0 then (some d, "notx") else
        match d.reg[id]? with
        | none => (some d, "notx")
        | some t =>
          let (cls, p') := addTx d.p { id := id, t := t }
          (some { d with p := p' }, s!"add={clsOf cls t} {dump p'}")
      | "reap" =>
        let es := reap d.p (argI toks "max" 1000).toNat
        let ex := match execBlock d.p.c [] (es.map (·.t)) with | some _ => "ok" | none => "panic"
        (some d, s!"txs={showIds (es.map (·.id))} exec={ex} {committedLine d.p}")
      | "commit" =>
        let (d, a) := commitWith d (reap d.p (argI toks "max" 1000).toNat)
        (some d, a)
      | "force" =>
        let ids := ((arg? toks "ids").getD "").splitOn "," |>.filterMap String.toNat?
        let (d, a) := commitWith d (entries d.reg ids)
        (some d, a)
      | "conc" => (some { d with sink := true }, "conc viol=none")
      | "window" =>
        let id := (argI toks "id" 0).toNat
        if argI toks "id" 0 < 0 then (some d, "notx") else
        match d.reg[id]? with
        | none => (some d, "notx")
        | some t =>
          let e : E := { id := id, t := t }
          -- first half of AddTx, the verdicts of a block holding exactly this transaction inside the window, second half
          let pc := putC { p := d.p } e
          let ex := execOk pc.p.c [e]
          let during := if !ex then "propose-panic" else toString (verdict pc [e])
          let cold := if !ex || !d.replica then "-" else toString (verdictCold pc.p.c [e])
          let (cls, pc') := finishC pc e
          (some { d with p := pc'.p }, s!"during={during} cold={cold} add={clsOf cls t} {dump pc'.p}")
      | _ => (some d, "bad-op")
  | [] => (s, "bad-op")

def machine : Machine := { σ := Option D, init := none, step := step }

end Driver.C15
