import Driver.Common
import LinkVerif.Model.Wal
import LinkVerif.Go.Crc32c
import LinkVerif.Gen.WalFacts
import Driver.C01

namespace Driver.C14
open Go.Proto Model.Wal Driver

structure St where
  g : Group := {}
  /-- declared payloads (valid for ser.DecodeBytes) with their end-height attribute -/
  table : List (Bytes × Option Nat) := []
  snap : Option (List Bytes × Option Bytes) := none
  /-- the `gone` oldest rotated files have been deleted by checkTotalSizeLimit -/
  gone : Nat := 0
  /-- the group's `minIndex` field (recomputed only by OpenGroup) -/
  minIdx : Nat := 0
  headLimit : Nat := 10485760
  totalLimit : Nat := 1073741824
  started : Bool := false
  /-- resume family: the node model of C01 (Model.Node), stepped by the `ns` ops over the inputs the original node handled -/
  ns : Driver.C01.NS := Driver.C01.NS.init
  /-- the node-model state line after trace step k (k = number of inputs handled) -/
  nsLines : List (Nat × String) := []

def codecOf (table : List (Bytes × Option Nat)) : Codec :=
  { crc := Go.Crc32c.checksumNat
    ok := fun d => table.any (fun e => e.1 == d)
    eh := fun d => match table.find? (fun e => e.1 == d) with | some e => e.2 | none => none
    maxMsg := Gen.WalFacts.maxMsgSizeBytes }

def B : Nat := Gen.WalFacts.headBufSize
/-- the CURRENT behaviour of Group.RotateFile (fix ed188e7): flush the buffered writer, then rename.  Deliberately a
constant and not the regenerated fact: `Props.C14.rotate_flushes_before_rename` ties the fact to `true`, so reverting
the fix breaks that obligation AND the correspondence (the model keeps flushing, the code no longer does). -/
def flushFirst : Bool := true

def crcHex (bs : Bytes) : String := natToHexPad (Go.Crc32c.checksumNat bs) 8

def showRes (table : List (Bytes × Option Nat)) : Res → String
  | .msg p => match table.findIdx? (fun e => e.1 == p) with | some k => s!"m{k}" | none => "x"
  | .eof => "eof"
  | .corrupt => "corrupt"
  | .errCrc => "e:crc"
  | .errLen => "e:len"
  | .errBig => "e:big"
  | .errData => "e:data"

def showTrace (table : List (Bytes × Option Nat)) (rs : List Res) : String :=
  let n := rs.length
  ",".intercalate ((rs.zipIdx).map (fun (r, i) => if r == Res.corrupt && i + 1 < n then "C" else showRes table r))

def declare (s : St) (p : Bytes) (eh : Option Nat) : St :=
  if s.table.any (fun e => e.1 == p) then s else { s with table := s.table ++ [(p, eh)] }

/-- run-length hex: segments separated by ',', each `hex` or `hex*count` -/
def rleDecode? (s : String) : Option Bytes :=
  if s == "-" || s.isEmpty then some [] else
  (s.splitOn ",").foldlM (fun (acc : Bytes) seg =>
    match seg.splitOn "*" with
    | [h] => (hexDecode? h).map (acc ++ ·)
    | [h, n] => do
      let b ← hexDecode? h
      let k ← n.toNat?
      pure (acc ++ (List.replicate k b).flatten)
    | _ => none) []

def argRle? (toks : List String) (key : String) : Option Bytes := (arg? toks key).bind rleDecode?

def argEh (toks : List String) : Option Nat := (arg? toks "eh").bind String.toNat?

def showEh : Option Nat → String
  | some h => toString h
  | none => "-"

/-- file `f` of the group (`f = files.length` is the head) -/
def getFile (g : Group) (f : Nat) : Option Bytes :=
  if f < g.files.length then g.files[f]? else if f == g.files.length then g.head else none

def setFile (g : Group) (f : Nat) (bs : Bytes) : Group :=
  if f < g.files.length then { g with files := g.files.set f bs } else { g with head := some bs }

def step (s : St) (toks : List String) : St × String :=
  let c := codecOf s.table
  match toks with
  | "case" :: _ => ({}, "ok")
  | "write" :: _ =>
    match argRle? toks "p" with
    | none => (s, "bad-op")
    | some p =>
      let eh := argEh toks
      let s := declare s p eh
      let c := codecOf s.table
      match s.g.encodeWrite B c p with
      | none => (s, "err-toobig")          -- the real Encode returns "msg is too big"; nothing is written
      | some g => ({ s with g := g }, s!"ok eh={showEh (c.eh p)}")
  | "decl" :: _ =>
    match argRle? toks "p" with
    | none => (s, "bad-op")
    | some p => (declare s p (argEh toks), "ok")
  | "raw" :: _ =>
    match argRle? toks "b" with
    | none => (s, "bad-op")
    | some b => ({ s with g := s.g.write B b }, "ok")
  | "sync" :: _ => ({ s with g := s.g.flush }, "ok")
  | "rotate" :: _ =>
    match s.g.rotate flushFirst with
    | none => (s, "panic")
    | some g => ({ s with g := g }, "ok")
  | "tick" :: _ =>
    match argNat? toks "limit" with
    | none => (s, "bad-op")
    | some l =>
      match s.g.tick flushFirst l with
      | none => (s, "panic")
      | some g => ({ s with g := g }, s!"rotated={decide (g.files.length > s.g.files.length)}")
  | "crash" :: _ =>
    -- the harness stops a started group first (OnStop flushes); OpenGroup rebuilds min/max from the directory listing
    let g := (if s.started then s.g.flush else s.g).crash
    if s.gone == g.files.length then ({ s with g := { g with files := [] }, gone := 0, minIdx := 0, started := false }, "ok")
    else ({ s with g := g, minIdx := s.gone, started := false }, "ok")
  | "walsvc" :: _ =>
    -- baseWAL as a service on a log of its own; records are named by their EndHeight height (see harness/c14/svc.go)
    match arg? toks "seq" with
    | none => (s, "bad-op")
    | some seq =>
      let showL (xs : List Nat) : String := if xs.isEmpty then "-" else ",".intercalate (xs.map toString)
      let r := seq.toList.foldl (fun (acc : List Nat × List Nat × Nat × List String) ch =>
        let (disk, buf, next, out) := acc
        if ch == 'S' then (if disk.isEmpty then (disk ++ buf ++ [0], [], next, out) else acc)   -- OnStart: head size 0 ⇒ WriteSync(EndHeight{0})
        else if ch == 'w' then (disk, buf ++ [next], next + 1, out)
        else if ch == 'W' then (disk ++ buf ++ [next], [], next + 1, out)
        else if ch == 'X' then (disk ++ buf, [], next, out)
        else if ch == 'D' then (disk, buf, next, out ++ ["D=" ++ showL disk])
        else acc) (([] : List Nat), ([] : List Nat), 1, ([] : List String))
      (s, " ".intercalate r.2.2.2)
  | "gstart" :: _ => ({ s with started := true }, "ok")
  | "gstop" :: _ => ({ s with g := s.g.flush, started := false }, "ok")
  | "limits" :: _ =>
    match argNat? toks "head", argNat? toks "total" with
    | some h, some t => ({ s with headLimit := h, totalLimit := t }, s!"head={h} total={t}")
    | _, _ => (s, "bad-op")
  | "waittick" :: _ =>
    if !s.started then (s, "ok") else
    -- processTicks: checkHeadSizeLimit, then checkTotalSizeLimit
    match s.g.tick flushFirst s.headLimit with
    | none => (s, "panic")
    | some g =>
      let sizes := (g.files.drop s.gone).map List.length
      let n := pruneCount s.totalLimit sizes (g.head.getD []).length
      ({ s with g := g, gone := s.gone + n }, "ok")
  | "ginfo" :: _ =>
    let g := s.g
    let none' := s.gone == g.files.length
    let total := ((g.files.drop s.gone).map List.length).sum + (g.head.getD []).length
    (s, s!"dirmin={if none' then 0 else s.gone} dirmax={if none' then 0 else g.files.length} total={total} head={(g.head.getD []).length} gmin={s.minIdx} gmax={g.files.length}")
  | "disk" :: _ =>
    let fs := if s.gone == s.g.files.length then [] else s.g.files   -- the directory listing: highest numeric suffix + 1
    let sizes := if fs.isEmpty then "-" else ",".intercalate (fs.zipIdx.map (fun (f, i) => if i < s.gone then "missing" else toString f.length))
    let crcs := if fs.isEmpty then "-" else ",".intercalate (fs.zipIdx.map (fun (f, i) => if i < s.gone then "missing" else crcHex f))
    let head := match s.g.head with | none => "none" | some h => s!"{h.length}:{crcHex h}"
    (s, s!"n={fs.length} sizes={sizes} crcs={crcs} head={head}")
  | "cut" :: _ =>
    match argNat? toks "f", argNat? toks "n" with
    | some f, some n =>
      match getFile s.g f with
      | some bs => if n ≤ bs.length then ({ s with g := setFile s.g f (bs.take n) }, "ok") else (s, "bad-op")
      | none => (s, "bad-op")
    | _, _ => (s, "bad-op")
  | "flip" :: _ =>
    match argNat? toks "f", argNat? toks "off", argNat? toks "x" with
    | some f, some off, some x =>
      match getFile s.g f with
      | some bs =>
        if off < bs.length then
          ({ s with g := setFile s.g f (bs.set off (bs[off]! ^^^ UInt8.ofNat x)) }, "ok")
        else (s, "bad-op")
      | none => (s, "bad-op")
    | _, _, _ => (s, "bad-op")
  | "snap" :: _ => ({ s with snap := some (s.g.files, s.g.head) }, "ok")
  | "restore" :: _ =>
    match s.snap with
    | some (fs, h) => if fs.length == s.g.files.length then ({ s with g := { s.g with files := fs, head := h } }, "ok") else (s, "bad-op")
    | none => (s, "bad-op")
  | "read" :: _ =>
    match argNat? toks "idx", argNat? toks "skip" with
    | some i, some sk =>
      if s.g.canOpenP s.gone i then (s, "r=" ++ showTrace s.table (trace c s.g.tail (sk != 0) (s.g.stream i)))
      else (s, "r=e:open")
    | _, _ => (s, "bad-op")
  | "simk" :: _ => ({ s with ns := { Driver.C01.NS.init with sim := true }, nsLines := [] }, "ok")
  | "ns" :: _ =>
    let (ns', ans) := Driver.C01.nsStep s.ns toks
    let line := ((ans.splitOn " msgs=").headD "")
    match argNat? toks "k" with
    | some k => ({ s with ns := ns', nsLines := if ans.startsWith "h=" then s.nsLines ++ [(k, line)] else s.nsLines }, ans)
    | none => ({ s with ns := ns' }, ans)
  | "restart" :: _ =>
    -- catchupReplay(k+1) of a fresh state over EndHeight{k} ++ the first `cut` records of the height ++ `torn` bytes of the
    -- next one: the log is record-aligned, so (Props.C14.catchup_replays_after_marker / catchup_torn_gives_up) either all
    -- `cut` records are replayed — the state is the fold of Model.Node.step over that prefix, which is the line recorded
    -- after trace step base+cut — or, with 4 or more torn bytes, the read error and nothing is replayed
    match argNat? toks "cut", argNat? toks "torn", argNat? toks "base" with
    | some j, some t, some b =>
      let lineAt (k : Nat) : String := match s.nsLines.find? (fun e => e.1 == k) with | some e => e.2 | none => "h=?"
      if t < 4 then (s, s!"outcome=done replayed={j} votes=same {lineAt (b + j)}")
      else (s, s!"outcome=err:{if t < 8 then "e:len" else "e:data"} replayed=0 votes=same {lineAt b}")
    | _, _, _ => (s, "bad-op")
  | "catchup" :: _ =>
    -- the start-up path of a real ConsensusState at its genesis height 1 on a copy of the files
    let auto0 : Bytes := [0x41, 0x55, 0x54, 0x4F]   -- stand-in for the EndHeight{0} record that OnStart writes into an empty head
    let tbl := s.table ++ [(auto0, some 0)]
    let c' := codecOf tbl
    let g' := s.g.startWal c' auto0
    let (ms, o) := catchup c' g' 1
    let toks' := ms.map (fun p => showRes tbl (Res.msg p))
    let os := match o with
      | .done => "done"
      | .hasMarker => "err:has-marker"
      | .noMarker => "err:no-marker"
      | .err r => "err:" ++ showRes tbl r
      | .openFailed => "err:e:open"
      | .panicCorrupt => "panic-corrupt"
    (s, s!"replay={if toks'.isEmpty then "-" else ",".intercalate toks'} outcome={os}")
  | "search" :: _ =>
    match argNat? toks "h", argNat? toks "ign" with
    | some h, some ign =>
      match searchP c s.g h (ign != 0) s.gone s.minIdx with
      | .found _ rest => (s, "found then=" ++ showTrace s.table (trace c s.g.tail false rest))
      | .notFound => (s, "notfound")
      | .err r => (s, "err=" ++ showRes s.table r)
      | .openFailed => (s, "err=e:open")
    | _, _ => (s, "bad-op")
  | _ => (s, "bad-op")

def machine : Machine := { σ := St, init := {}, step := step }

end Driver.C14
