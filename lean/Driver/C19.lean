import Driver.Common
import LinkVerif.Model.KV

namespace Driver.C19
open Go.Proto Model.KV Driver

/-- one backend instance: its model state and its open batches -/
inductive BSt where
  | mem (db : MemDB)
  | ldb (m : Ref)
  | ref (m : Ref)     -- bolt
  | bdg (m : Ref)

structure Inst where
  name : String
  st : BSt
  batches : List (Nat × List BOp) := []
  /-- step-wise iterators: what is still to be delivered.  Under the interface's contract (no write within the domain while
  the iterator exists) every engine delivers the content as of creation. -/
  iters : List (Nat × Cursor) := []
  bsizes : List (Nat × Nat) := []

structure St where
  insts : List Inst := []
  pfx : Option Bytes := none
  sharded : Bool := false

def BSt.lift (b : BSt) (f : ∀ {σ : Type}, DBI σ → σ → σ) : BSt :=
  match b with
  | .mem db => .mem (f memI db)
  | .ldb m => .ldb (f ldbI m)
  | .ref m => .ref (f refI m)
  | .bdg m => .bdg (f bdgI m)

def BSt.read {α : Type} (b : BSt) (f : ∀ {σ : Type}, DBI σ → σ → α) : α :=
  match b with
  | .mem db => f memI db
  | .ldb m => f ldbI m
  | .ref m => f refI m
  | .bdg m => f bdgI m

def bound? (s : String) : Option Bound :=
  if s == "nil" then some none else (hexDecode? s).map some

def argBound (toks : List String) (key : String) : Bound :=
  match (arg? toks key).bind bound? with
  | some b => b
  | none => none

def argBytes (toks : List String) (key : String) : Bytes := bval (argBound toks key)

def showBound : Bound → String
  | none => "nil"
  | some b => hexEncode b

def showKVs (kvs : List KV) : String :=
  if kvs.isEmpty then "kv=-" else "kv=" ++ ",".intercalate (kvs.map (fun kv => hexEncode kv.1 ++ ":" ++ hexEncode kv.2))

def showFound : Option Bytes → String
  | none => "none"
  | some v => "v=" ++ hexEncode v

def insertKV (x : KV) : List KV → List KV
  | [] => [x]
  | y :: rest => if blt y.1 x.1 then y :: insertKV x rest else if blt x.1 y.1 then x :: y :: rest else y :: rest  -- dedup

def sortKVs : List KV → List KV
  | [] => []
  | x :: rest => insertKV x (sortKVs rest)

def showIter (sharded : Bool) : Option (List KV) → String
  | none => "panic"
  | some kvs => showKVs (if sharded then sortKVs kvs else kvs)

/-- the DB the op addresses: the store itself (`under`, or no prefix) or the PrefixDB view -/
def vI {σ : Type} (I : DBI σ) (pfx : Option Bytes) (under : Bool) : DBI σ :=
  match pfx, under with
  | some p, false => pfxI I p
  | _, _ => I

def vIter {σ : Type} (I : DBI σ) (db : σ) (pfx : Option Bytes) (under : Bool) (s e : Bound) : Option (List KV) :=
  match pfx, under with
  | some p, false => some (pfxIter I db p s e)
  | _, _ => some (I.iter db s e)

def vRIter {σ : Type} (I : DBI σ) (db : σ) (pfx : Option Bytes) (under : Bool) (s e : Bound) : Option (List KV) :=
  match pfx, under with
  | some p, false => pfxRIter I db p s e
  | _, _ => some (I.riter db s e)

def vPIter {σ : Type} (I : DBI σ) (db : σ) (pfx : Option Bytes) (q : Bound) : Option (List KV) :=
  match pfx with
  | some p => some (pfxPrefixIter I db p q)
  | none => some (prefixIter I db q)

/-- `IteratePrefix(view, q)` -/
def vIterPrefix {σ : Type} (I : DBI σ) (db : σ) (pfx : Option Bytes) (q : Bytes) : Option (List KV) :=
  if q.isEmpty then vIter I db pfx false none none else vIter I db pfx false (some q) (prefixToEnd q)

/-- child-process probes (operations on a closed store, double Close, overwritten files, another shard count): the answers of
the adapters as they are today, observed and pinned; `exit=crashed` = the process died (a panic inside a goroutine spawned by
Batch.Write), `exit=hang` = it blocked for good -/
def childProbeTable : List (String × String × String) :=
  [ ("closed-reads", "mem", "v=01,v=01,true,kv=01:01,exit=ok"),
    ("closed-reads", "ldb", "panic,none,false,kv=-,exit=ok"),
    ("closed-reads", "bolt", "none,none,false,panic,exit=ok"),
    ("closed-reads", "bdg", "panic,panic,panic,panic,exit=ok"),
    ("closed-writes", "mem", "ok,ok,ok,ok,ok,ok,exit=ok"),
    ("closed-writes", "ldb", "err,err,ok,ok,err,panic,exit=ok"),
    ("closed-writes", "bolt", "err,err,ok,ok,err,ok,exit=ok"),
    ("closed-writes", "bdg", "err,exit=hang"),
    ("closed-batch-write", "mem", "exit=ok"),
    ("closed-batch-write", "ldb", "exit=crashed"),
    ("closed-batch-write", "bolt", "exit=ok"),
    ("closed-batch-write", "bdg", "exit=crashed"),
    ("double-close-reopen", "mem", "ok,ok,kv=-,exit=ok"),
    ("double-close-reopen", "ldb", "ok,ok,kv=01:01,exit=ok"),
    ("double-close-reopen", "bolt", "ok,ok,kv=01:01,exit=ok"),
    ("double-close-reopen", "bdg", "ok,ok,kv=01:01,exit=ok"),
    ("corrupt-open", "mem", "n/a,ok,none,exit=ok"),
    ("corrupt-open", "ldb", "ok,ok,none,exit=ok"),
    ("corrupt-open", "bolt", "ok,ok,v=01,exit=ok"),
    ("corrupt-open", "bdg", "ok,panic,panic,exit=ok"),
    ("reshard", "mem", "ok,none,none,none,none,kv=-,ok,ok,kv=-,exit=ok"),
    ("reshard", "ldb", "ok,none,v=02,none,none,kv=01:01,02:02,03:03,04:04,ok,ok,kv=01:01,02:02,03:03,04:04,exit=ok"),
    ("reshard", "bolt", "ok,none,v=02,none,none,kv=01:01,02:02,03:03,04:04,ok,ok,kv=01:01,02:02,03:03,04:04,exit=ok"),
    ("reshard", "bdg", "ok,none,v=02,none,none,kv=01:01,02:02,03:03,04:04,ok,ok,kv=01:01,02:02,03:03,04:04,exit=ok") ]

def childProbeAns (kind b : String) : String :=
  match childProbeTable.find? (fun t => t.1 == kind && t.2.1 == b) with
  | some t => t.2.2
  | none => "bad-op"

def underOp (op : String) : Option String :=
  if op == "uset" || op == "udel" || op == "uget" || op == "uiter" || op == "uriter" then some ((op.drop 1).toString) else none

/-- memBatch and goleveldb keep the recorded ops after Write/Commit; bolt (Reset) and badger (renew) end empty -/
def afterWrite : BSt → AfterWrite
  | .mem _ => .keeps
  | .ldb _ => .keeps
  | .ref _ => .empty
  | .bdg _ => .empty

def engineOf : BSt → Engine
  | .mem _ => .mem
  | .ldb _ => .ldb
  | .ref _ => .bolt
  | .bdg _ => .bdg

def batchOf (i : Inst) (id : Nat) : List BOp := (i.batches.lookup id).getD []

def setIt (i : Inst) (id : Nat) (c : Cursor) : Inst :=
  { i with iters := (id, c) :: i.iters.filter (fun b => b.1 != id) }

def bumpSize (i : Inst) (eng : Engine) (id : Nat) (ev : BEvent) : Inst :=
  { i with bsizes := (id, eng.valueSize ((i.bsizes.lookup id).getD 0) ev) :: i.bsizes.filter (fun b => b.1 != id) }

def setBatch (i : Inst) (id : Nat) (ops : List BOp) : Inst :=
  { i with batches := (id, ops) :: i.batches.filter (fun b => b.1 != id) }

/-- one op on one instance -/
def stepInst (s : St) (i : Inst) (toks : List String) : Inst × String :=
  let op0 := toks.headD ""
  let (op, under) := match underOp op0 with | some o => (o, true) | none => (op0, false)
  let k := argBytes toks "k"
  let v := argBytes toks "v"
  let id := (argNat? toks "id").getD 0
  let pk := fun (key : Bytes) => match s.pfx with | some p => p ++ key | none => key   -- batches address the view
  let eng := engineOf i.st
  let sk := if under then k else pk k   -- the key as the store sees it
  if (op == "set" || op == "setsync") && !eng.stores sk then (i, "ok")                 -- empty key: dropped
  else if op == "put" && !eng.stores sk then (i, if eng.putErr sk then "err" else "ok")
  else if (op == "del" || op == "delsync") && eng.panicsOnDelete sk then (i, "panic")
  else if op == "delerr" && eng.delErr sk then (i, "err")
  else if (op == "get" || op == "has") && eng.panicsOnRead sk then (i, "panic")
  else if op == "set" || op == "setsync" || op == "put" then
    ({ i with st := i.st.lift (fun I db => (vI I s.pfx under).set db k v) }, "ok")
  else if op == "del" || op == "delsync" || op == "delerr" then
    ({ i with st := i.st.lift (fun I db => (vI I s.pfx under).del db k) }, "ok")
  else if op == "get" then (i, showFound (i.st.read (fun I db => (vI I s.pfx under).get db k)))
  else if op == "load" then (i, showFound (i.st.read (fun I db => (vI I s.pfx under).load db k)))
  else if op == "has" then (i, toString (i.st.read (fun I db => ((vI I s.pfx under).get db k).isSome)))
  else if op == "exist" then (i, toString (i.st.read (fun I db => (vI I s.pfx under).exist db k)))
  else if op == "iter" then
    (i, showIter s.sharded (i.st.read (fun I db => vIter I db s.pfx under (argBound toks "s") (argBound toks "e"))))
  else if op == "riter" then
    (i, showIter s.sharded (i.st.read (fun I db => vRIter I db s.pfx under (argBound toks "s") (argBound toks "e"))))
  else if op == "piter" then
    (i, showIter s.sharded (i.st.read (fun I db => vPIter I db s.pfx (argBound toks "p"))))
  else if op == "iterprefix" then
    (i, showIter s.sharded (i.st.read (fun I db => vIterPrefix I db s.pfx (argBytes toks "p"))))
  else if (op == "bset" || op == "bdel" || op == "bwrite" || op == "bwritesync" || op == "bcommit" || op == "breset")
      && (i.batches.lookup id).isNone then (i, "nobatch")
  else if op == "bnew" then (bumpSize (setBatch i id []) eng id .reset, "ok")
  else if op == "bset" then (bumpSize (setBatch i id (batchOf i id ++ [BOp.set (pk k) v])) eng id (.set v.length), "ok")
  else if op == "bdel" then (bumpSize (setBatch i id (batchOf i id ++ [BOp.del (pk k)])) eng id .del, "ok")
  else if op == "bwrite" || op == "bwritesync" || op == "bcommit" then
    let i' := { i with st := i.st.lift (fun I db => writeBatch I db (eng.batchOps (batchOf i id))) }
    (bumpSize (setBatch i' id (batchAfterWrite (afterWrite i.st) (batchOf i id))) eng id .write, "ok")
  else if op == "breset" then (bumpSize (setBatch i id []) eng id .reset, "ok")
  else if op == "bdrop" then ({ i with batches := i.batches.filter (fun b => b.1 != id) }, "ok")
  else if op == "reopen" then ({ i with st := i.st.lift (fun I db => I.reopen db), batches := [], iters := [], bsizes := [] }, "ok")
  else if op == "iopen" then
    let rev := (arg? toks "rev") == some "1"
    let sb := argBound toks "s"
    let eb := argBound toks "e"
    let r := if rev then i.st.read (fun I db => vRIter I db s.pfx under sb eb)
             else i.st.read (fun I db => vIter I db s.pfx under sb eb)
    match r with
    | none => (i, "panic")
    | some kvs => (setIt i id { rest := kvs, s := sb, e := eb, rev := rev, born := !kvs.isEmpty }, "ok")
  else if op == "istep" then
    match i.iters.lookup id with
    | none => (i, "noiter")
    | some c =>
      match c.rest with
      | [] => (i, "end")
      | kv :: rest => (setIt i id { c with rest := rest }, hexEncode kv.1 ++ ":" ++ hexEncode kv.2)
  else if op == "iseek" then
    match i.iters.lookup id with
    | none => (i, "noiter")
    | some c =>
      let kb := argBound toks "k"
      let (c', a) := match s.pfx, under with
        | some p, false => i.st.read (fun I db => seekView I db p c kb)
        | _, _ => i.st.read (fun I db => seekStore I db c kb)
      (setIt i id c', toString a)
  else if op == "idomain" then
    match i.iters.lookup id with
    | none => (i, "noiter")
    | some c => (i, s!"s={showBound c.s} e={showBound c.e}")
  else if op == "ivalid" then
    match i.iters.lookup id with
    | none => (i, "noiter")
    | some c => (i, toString (!c.rest.isEmpty))
  else if op == "ikey" || op == "ivalue" then
    match i.iters.lookup id with
    | none => (i, "noiter")
    | some c =>
      match c.rest with
      | [] => (i, "panic")
      | kv :: _ => (i, hexEncode (if op == "ikey" then kv.1 else kv.2))
  else if op == "inext" then
    match i.iters.lookup id with
    | none => (i, "noiter")
    | some c =>
      match c.rest with
      | [] => (i, if eng.nextOnInvalidPanics (s.pfx.isSome && !under) then "panic" else "ok")
      | _ :: rest => (setIt i id { c with rest := rest }, "ok")
  else if op == "iclose" then ({ i with iters := i.iters.filter (fun b => b.1 != id) }, "ok")
  else if op == "bsize" then
    if (i.batches.lookup id).isNone then (i, "nobatch") else (i, toString ((i.bsizes.lookup id).getD 0))
  else if op == "bigbatch" then
    let n := (argNat? toks "n").getD 0
    (i, s!"visible-before-write={bigBatchEarly eng n}/3 after={n}")
  else if op == "memkeys" then
    match i.st with
    | .mem db => let ks := sortKeys (db.m.map (·.1)); (i, s!"len={ks.length} keys={",".intercalate (ks.map hexEncode)}")
    | _ => (i, "n/a")
  else if op == "dir" then (i, if eng == .mem || (s.pfx.isSome && !under) then "empty" else "match")
  else (i, "bad-op")

def newInst (name : String) : Option Inst :=
  if name == "mem" then some { name, st := .mem ⟨[]⟩ }
  else if name == "ldb" then some { name, st := .ldb [] }
  else if name == "bolt" then some { name, st := .ref [] }
  else if name == "bdg" then some { name, st := .bdg [] }
  else none

def showPair (p : Option (Bound × Bound)) : String :=
  match p with
  | none => "panic"
  | some (a, b) => s!"s={showBound a} e={showBound b}"

def leaf (toks : List String) : Option String :=
  match toks with
  | "indomain" :: _ =>
    some (toString (isKeyInDomain (argBytes toks "k") (argBound toks "s") (argBound toks "e") ((arg? toks "rev") == some "1")))
  | "ptoend" :: _ => some (showBound (prefixToEnd (argBytes toks "p")))
  | "ipbounds" :: _ =>   -- the bounds `IteratePrefix` hands to `Iterator`
    let b := argBytes toks "b"
    some (if b.isEmpty then "s=nil e=nil" else s!"s={showBound (some b)} e={showBound (prefixToEnd b)}")
  | "cpdecr" :: _ => some (showPair (pfxBoundsRev (argBytes toks "b") none none))
  | "ptrans" :: _ =>
    let p := argBytes toks "p"
    some (showPair (if (arg? toks "rev") == some "1" then pfxBoundsRev p (argBound toks "s") (argBound toks "e")
                    else some (pfxBoundsFwd p (argBound toks "s") (argBound toks "e"))))
  | "childprobe" :: _ => some (childProbeAns ((arg? toks "kind").getD "") ((arg? toks "b").getD ""))
  | "crashprobe" :: _ =>   -- badger batch reuse after Reset / Write in a child process (regression guard for 201fd44)
    some (if (arg? toks "mode") == some "reset-write" then "survived kv=02:02"
          else if (arg? toks "mode") == some "write-reset-write" then "survived kv=01:01,02:02"
          else if (arg? toks "mode") == some "write-write" then "survived kv=02:02"
          else "bad-op")
  | _ => none

def step (s : St) (toks : List String) : St × String :=
  match toks with
  | "case" :: _ =>
    let names := splitComma ((arg? toks "backends").getD "-")
    match names.mapM newInst with
    | none => ({}, "bad-op")
    | some insts =>
      let pfx := match arg? toks "prefix" with
        | none => none
        | some p => if p == "none" then none else hexDecode? p
      let sharded := match argNat? toks "counts" with | some n => n > 1 | none => false
      ({ insts, pfx, sharded }, "ok")
  | [] => (s, "bad-op")
  | _ =>
    match leaf toks with
    | some a => (s, a)
    | none =>
      if s.insts.isEmpty then (s, "dead") else
      let only := (arg? toks "only").map splitComma
      let res := s.insts.map (fun i =>
        if (match only with | some ns => ns.contains i.name | none => true) then
          let (i', a) := stepInst s i toks
          (i', some a)
        else (i, none))
      let answers := res.filterMap (fun (i, a) => a.map (fun a => (i.name, a)))
      let s' := { s with insts := res.map (·.1) }
      match answers with
      | [] => (s', "all:skip")
      | (_, a0) :: _ =>
        if answers.all (fun (_, a) => a == a0) then (s', "all:" ++ a0)
        else (s', "|".intercalate (answers.map (fun (n, a) => n ++ ":" ++ a)))

def machine : Machine := { σ := St, init := {}, step := step }

end Driver.C19
