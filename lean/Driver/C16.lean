import Driver.Common
import LinkVerif.Model.PeerBits
import LinkVerif.Model.PeerState

namespace Driver.C16
open Driver Go.Proto Model.PeerInput Model.PeerBits Model.PeerState

/-! ### text format of bit arrays: `nil` | `<bits>:<hex>,<hex>…` | `<bits>:-` -/

def hexNat? (s : String) : Option Nat :=
  s.toList.foldlM (fun acc c => (hexDigit? c).map (fun d => acc * 16 + d)) 0

def natHex (n : Nat) : String :=
  if n = 0 then "0" else
  let rec go (fuel n : Nat) (acc : List Char) : List Char :=
    match fuel with
    | 0 => acc
    | fuel + 1 => if n = 0 then acc else go fuel (n / 16) (hexChar (n % 16) :: acc)
  String.ofList (go 17 n [])

def parseBA? (s : String) : Option (Option BA) :=
  if s == "nil" then some none else
  match s.splitOn ":" with
  | [b, es] => do
    let bits ← b.toInt?
    let ws ← (splitComma es).mapM hexNat?
    some (some ⟨bits, ws.map (BitVec.ofNat 64)⟩)
  | _ => none

def showBA : Option BA → String
  | none => "nil"
  | some b => toString b.bits ++ ":" ++ (if b.elems.isEmpty then "-" else ",".intercalate (b.elems.map (fun w => natHex w.toNat)))

def argBA (toks : List String) (k : String) : Option BA := ((arg? toks k).bind parseBA?).getD none
def argI (toks : List String) (k : String) : Int := (argInt? toks k).getD 0
def argN (toks : List String) (k : String) : Nat := (argNat? toks k).getD 0

def showFault {α : Type} (f : α → String) : Except Fault α → String
  | .ok x => f x
  | .error (.panic _) => "panic"
  | .error (.oom n) => "oom " ++ toString n

def b01 (b : Bool) : String := if b then "1" else "0"

/-- unit-level bit array ops (the real `cmn.BitArray` answers the same lines) -/
def baOp (fn : String) (toks : List String) : String :=
  let a := argBA toks "a"
  let b := argBA toks "b"
  let i := argI toks "i"
  let v := argI toks "v" != 0
  match fn with
  | "new" => showFault showBA (newBitArray i)
  | "size" => toString (size a)
  | "get" => showFault b01 (getIndex a i)
  | "set" => showFault (fun (r : Bool × Option BA) => b01 r.1 ++ " " ++ showBA r.2) (setIndex a i v)
  | "copy" => showBA a
  | "or" => showFault showBA (or a b)
  | "and" => showFault showBA (and a b)
  | "not" => showBA (not a)
  | "sub" => showFault showBA (sub a b)
  | "update" => showBA (update a b)
  | "pick" => showFault (fun (c : List Int) => if c.isEmpty then "none" else "some") (pick a)
  | _ => "bad-op"

/-! ### peer state -/

def showRef (ps : PS) (seen : List Nat) (r : Ref) : String × List Nat :=
  match r with
  | none => ("nil", seen)
  | some k =>
    let (cls, seen) := match seen.idxOf? k with
      | some c => (c, seen)
      | none => (seen.length, seen ++ [k])
    ("#" ++ toString cls ++ ":" ++ showBA (ps.get (some k)), seen)

def dump (ps : PS) : String :=
  let p := ps.prs
  let (parts, s) := showRef ps [] p.parts
  let (pol, s) := showRef ps s p.pol
  let (pv, s) := showRef ps s p.prevotes
  let (pc, s) := showRef ps s p.precommits
  let (lc, s) := showRef ps s p.lastCommit
  let (cc, _) := showRef ps s p.catchup
  s!"h={p.height} r={p.round} s={p.step} p={b01 p.proposal} pt={p.partsTotal} pbp={parts} polr={p.polRound} pol={pol} pv={pv} pc={pc} lcr={p.lastCommitRound} lc={lc} ccr={p.catchupRound} cc={cc}"

def psOp (ps : PS) (fn : String) (toks : List String) : PS × String :=
  let h := argN toks "h"
  let r := argI toks "r"
  let t := argN toks "t"
  let i := argI toks "i"
  let fin (x : Except Fault PS) : PS × String :=
    match x with
    | .ok ps' => (ps', dump ps')
    | .error (.panic _) => (ps, "panic")
    | .error (.oom n) => (ps, "oom " ++ toString n)
  match fn with
  | "nrs" => fin (.ok (applyNewRoundStep ps h r (argN toks "s") (argI toks "lcr")))
  | "commitstep" => fin (.ok (applyCommitStep ps h (argI toks "total") (argN toks "hash") (argBA toks "b")))
  | "pol" => fin (.ok (applyProposalPOL ps h r (argBA toks "b")))
  | "hasvote" => fin (applyHasVote ps h r t i)
  | "vsb" => fin (applyVoteSetBits ps h r t (argBA toks "b") (argBA toks "ours"))
  | "proposal" => fin (setHasProposal ps h r (argI toks "total") (argN toks "hash") (argI toks "polr"))
  | "part" => fin (setHasProposalBlockPart ps h r i)
  | "ensure" => fin (ensureVoteBitArrays ps h (argI toks "n"))
  | "sethasvote" => fin (setHasVote ps h r t i)
  | "onvote" => fin (onVote ps (argN toks "nh") (argI toks "vs") (argI toks "lcs") h r t i)
  | "initparts" => fin (initProposalBlockParts ps (argI toks "total") (argN toks "hash"))
  | "pick" =>
    let v : Votes := { height := h, round := r, type := t, size := argI toks "size", isCommit := argI toks "commit" != 0, bits := argBA toks "b" }
    let choice := (arg? toks "choice").bind String.toInt?
    match pickVoteToSend ps v choice with
    | .ok (ps', picked, possible) =>
      if !possible then (ps', "badchoice")
      else (ps', (match picked with | .nothing => "none" | .vote k => "vote:" ++ toString k) ++ " | " ++ dump ps')
    | .error (.panic _) => (ps, "panic")
    | .error (.oom n) => (ps, "oom " ++ toString n)
  | _ => (ps, "bad-op")


/-! ### recover proposals: `recover seed= phase= prop= sr= vars=<v>,<v>…`, v = sh<min>.dr<d>.dh<d>.t<R|N|7>.s<sig>.v<via> -/

structure RVar where
  shift : Nat := 0
  dr : Int := 0
  dh : Int := 0
  typ : PType := .other
deriving Inhabited

def parseRVar (s : String) : RVar :=
  (s.splitOn ".").foldl (fun v f =>
    if f.startsWith "sh" then { v with shift := ((f.drop 2).toString.toNat?).getD 0 }
    else if f.startsWith "dr" then { v with dr := ((f.drop 2).toString.toInt?).getD 0 }
    else if f.startsWith "dh" then { v with dh := ((f.drop 2).toString.toInt?).getD 0 }
    else if f == "tR" then { v with typ := .recover }
    else if f == "tN" then { v with typ := .normal }
    else v) {}

/-- every variant carries a signature that verifies against no validator: sigOk = false.  The node of the op is abstracted
to height 10, round 3 (the proposal's height and round are deltas), flags from the op line; the model's own state is
threaded through the variants. -/
def recoverOp (toks : List String) : String :=
  let prop := argI toks "prop" != 0
  let sr := argI toks "sr" != 0
  let vars := (splitComma ((arg? toks "vars").getD "")).map parseRVar
  let st0 : ConsView := { height := 10, round := 3, hasProposal := prop, commitStep := false, stepRecover := sr,
                          recoverCount := 0, recoverSet := false, votesHeld := 1 }
  let (_, outs) := vars.foldl (fun (acc : ConsView × List String) v =>
    let st := acc.1
    let p : ProposalIn := { type := v.typ, height := ((st.height : Int) + v.dh).toNat, round := st.round + v.dr, polRound := -1,
                            total := 1, sigOk := false }
    let st' := (setProposalFull st p v.shift 673).1
    -- votesHeld is reset to a positive number so that a later replacement of the vote set would show again
    ({ st' with votesHeld := 1 }, acc.2 ++ [b01 st.hasProposal ++ b01 st.stepRecover ++ ":" ++ b01 (decide (st' ≠ st))])) (st0, [])
  "prop=" ++ b01 prop ++ " sr=" ++ b01 sr ++ " | " ++ " ".intercalate outs

/-- `rounds seed= phase= k= sig= via=`: k votes of one fresh peer for k distinct unknown rounds; only a valid vote of the
attacker's validator is acceptable; the answer is the number of rounds the stream opened -/
def roundsOp (toks : List String) : String :=
  let k := argN toks "k"
  let ok := (arg? toks "sig") == some "val"
  let h0 : Hvs := { rounds := [0, 1], charges := [] }
  let vs : List VoteIn := (List.range k).map (fun (i : Nat) => { round := 10 + 7 * (i : Int), typeValid := true, acceptable := ok })
  let h := h0.addVotes vs "hostile"
  "opened=" ++ toString (h.rounds.length - h0.rounds.length)

/-- the claim itself for the simulation ops (Props.C16 for the modelled handlers; the fuzz searches the rest): whatever was
injected, the consensus routine is alive, unsigned input changed nothing, no single message caused a large allocation;
one iteration of every per-peer gossip routine on the peer state the hostile messages built neither panics nor hangs and
sends only what the node has -/
def step (s : PS) (toks : List String) : PS × String :=
  match toks with
  | "case" :: _ => ({}, "ok")
  | "fuzz" :: _ => (s, "ok")
  | "inject" :: _ => (s, "ok")
  | "gossip" :: _ => (s, "ok")
  | "gscen" :: _ => (s, "ok")
  | "diag" :: _ => (s, "dead=0 statechanged=0 bigalloc=0")
  | "gdiag" :: _ => (s, "dead=0 hung=0 badsend=0 bigalloc=0")
  | "bacheck" :: _ => (s, "badpick=0")
  | "recover" :: rest => (s, recoverOp rest)
  | "rounds" :: rest => (s, roundsOp rest)
  | "ba" :: fn :: rest => (s, baOp fn rest)
  | "ps" :: fn :: rest => psOp s fn rest
  | _ => (s, "bad-op")

def machine : Machine := { σ := PS, init := {}, step := step }

end Driver.C16
