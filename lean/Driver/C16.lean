import Driver.Common

namespace Driver.C16
open Driver

/-- the claim itself (Props.C16 for the modelled handlers; the fuzz searches the rest): whatever was injected, the
consensus routine is alive, unsigned input changed nothing, no single message caused a large allocation -/
def step (s : Unit) (toks : List String) : Unit × String :=
  match toks with
  | "case" :: _ => (s, "ok")
  | "fuzz" :: _ => (s, "ok")
  | "inject" :: _ => (s, "ok")
  | "diag" :: _ => (s, "dead=0 statechanged=0 bigalloc=0")
  | _ => (s, "bad-op")

def machine : Machine := { σ := Unit, init := (), step := step }

end Driver.C16
