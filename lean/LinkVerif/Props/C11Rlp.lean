/-
C11, layer 1 theorems: the RLP framing is a bijection between sized items and canonical byte strings.
-/
import LinkVerif.Model.Rlp

namespace Props.C11
open Model.Rlp

/-! ### big-endian integers -/

theorem beVal_append_single (xs : Bytes) (b : UInt8) : beVal (xs ++ [b]) = beVal xs * 256 + b.toNat := by
  simp [beVal, List.foldl_append]

theorem beVal_nil : beVal [] = 0 := rfl

theorem beVal_beBytesF : ∀ (f n : Nat), n < 256 ^ f → beVal (beBytesF f n) = n
  | 0, n, h => by
    have : n = 0 := by simpa using h
    subst this; rfl
  | f + 1, n, h => by
    unfold beBytesF
    split
    · next h0 => subst h0; rfl
    · have hlt : n / 256 < 256 ^ f := by
        rw [Nat.div_lt_iff_lt_mul (by decide)]; rw [Nat.pow_succ] at h; exact h
      rw [beVal_append_single, beVal_beBytesF f (n / 256) hlt]
      simp
      omega

theorem beBytesF_length : ∀ (f n : Nat), (beBytesF f n).length ≤ f
  | 0, _ => by simp [beBytesF]
  | f + 1, n => by
    unfold beBytesF
    split
    · simp
    · have := beBytesF_length f (n / 256); simp; omega

theorem beBytesF_ne_nil : ∀ (f n : Nat), n ≠ 0 → beBytesF (f + 1) n ≠ []
  | f, n, h => by unfold beBytesF; simp [h]

/-- the most significant byte of a non-zero number is non-zero -/
theorem beBytesF_head : ∀ (f n : Nat), n ≠ 0 → n < 256 ^ f → (beBytesF f n).head? ≠ some 0 ∧ (beBytesF f n).head? ≠ none
  | 0, n, h0, h => by
    have : n = 0 := by simpa using h
    exact absurd this h0
  | f + 1, n, h0, h => by
    unfold beBytesF
    simp only [h0, if_false]
    by_cases hq : n / 256 = 0
    · have hn : n < 256 := by omega
      rw [hq]
      have : beBytesF f 0 = [] := by cases f <;> simp [beBytesF]
      rw [this]
      simp only [List.nil_append, List.head?_cons]
      constructor
      · intro hc
        have h1 : (UInt8.ofNat (n % 256)).toNat = (0 : UInt8).toNat := by
          rw [Option.some.inj hc]
        simp [UInt8.toNat_ofNat] at h1
        omega
      · simp
    · have hlt : n / 256 < 256 ^ f := by
        rw [Nat.div_lt_iff_lt_mul (by decide)]; rw [Nat.pow_succ] at h; exact h
      have ih := beBytesF_head f (n / 256) hq hlt
      cases hx : beBytesF f (n / 256) with
      | nil => rw [hx] at ih; simp at ih
      | cons a as => rw [hx] at ih; simpa using ih

theorem beVal_cons (a : UInt8) (xs : Bytes) : beVal (a :: xs) = a.toNat * 256 ^ xs.length + beVal xs := by
  have gen : ∀ (xs : Bytes) (acc : Nat), xs.foldl (fun a b => a * 256 + b.toNat) acc = acc * 256 ^ xs.length + xs.foldl (fun a b => a * 256 + b.toNat) 0 := by
    intro xs
    induction xs with
    | nil => intro acc; simp
    | cons x xs ih =>
      intro acc
      simp only [List.foldl_cons, List.length_cons]
      rw [ih (acc * 256 + x.toNat), ih (0 * 256 + x.toNat)]
      rw [Nat.pow_succ]
      grind
  unfold beVal
  simp only [List.foldl_cons]
  rw [gen xs (0 * 256 + a.toNat)]
  simp

theorem beVal_lt (xs : Bytes) : beVal xs < 256 ^ xs.length := by
  induction xs with
  | nil => simp [beVal]
  | cons a xs ih =>
    rw [beVal_cons, List.length_cons, Nat.pow_succ]
    have := a.toNat_lt
    have h2 : a.toNat * 256 ^ xs.length ≤ 255 * 256 ^ xs.length := Nat.mul_le_mul_right _ (by omega)
    omega

theorem beVal_pos (a : UInt8) (xs : Bytes) (h : a ≠ 0) : 256 ^ xs.length ≤ beVal (a :: xs) := by
  rw [beVal_cons]
  have : 1 ≤ a.toNat := by
    rcases Nat.eq_zero_or_pos a.toNat with h0 | h0
    · exact absurd (UInt8.toNat_inj.mp (by simpa using h0)) h
    · exact h0
  have := Nat.mul_le_mul_right (256 ^ xs.length) this
  omega

theorem beBytesF_zero (f : Nat) : beBytesF f 0 = [] := by cases f <;> simp [beBytesF]

/-- canonical digit strings are exactly the images of `beBytesF` -/
theorem beBytesF_beVal : ∀ (f : Nat) (bs : Bytes), bs.length ≤ f → bs.head? ≠ some 0 → beBytesF f (beVal bs) = bs
  | 0, bs, hl, _ => by
    have : bs = [] := List.eq_nil_of_length_eq_zero (by omega)
    subst this; rfl
  | f + 1, bs, hl, hh => by
    rcases List.eq_nil_or_concat bs with rfl | ⟨xs, b, rfl⟩
    · simp [beVal_nil, beBytesF]
    · rw [List.concat_eq_append] at *
      rw [beVal_append_single]
      have hb := b.toNat_lt
      have hxs : xs.head? ≠ some 0 := by
        cases xs with
        | nil => simp
        | cons a as => simpa using hh
      have hlen : xs.length ≤ f := by simp at hl; omega
      have hv : beVal xs * 256 + b.toNat ≠ 0 := by
        intro h0
        cases xs with
        | nil =>
          have : b.toNat = 0 := by simp [beVal_nil] at h0; exact h0
          have : b = 0 := UInt8.toNat_inj.mp (by simpa using this)
          subst this; simp at hh
        | cons a as =>
          have ha : a ≠ 0 := by intro h; subst h; simp at hh
          have := beVal_pos a as ha
          have hp : 0 < 256 ^ as.length := Nat.pow_pos (by decide)
          omega
      unfold beBytesF
      simp only [hv, if_false]
      have h1 : (beVal xs * 256 + b.toNat) / 256 = beVal xs := by omega
      have h2 : (beVal xs * 256 + b.toNat) % 256 = b.toNat := by omega
      rw [h1, h2, beBytesF_beVal f xs hlen hxs]
      simp

/-! ### size headers -/

theorem beBytes_val (n : Nat) (h : n < 2 ^ 64) : beVal (beBytes n) = n :=
  beVal_beBytesF 8 n (by simpa using h)

theorem beBytes_length_le (n : Nat) : (beBytes n).length ≤ 8 := beBytesF_length 8 n

theorem beBytes_length_pos (n : Nat) (h : n ≠ 0) : 1 ≤ (beBytes n).length := by
  have := beBytesF_ne_nil 7 n h
  unfold beBytes
  cases hx : beBytesF 8 n with
  | nil => exact absurd hx this
  | cons a as => simp

theorem readSize_enc (n : Nat) (r : Bytes) (h56 : 56 ≤ n) (h : n < 2 ^ 64) :
    readSize (beBytes n).length (beBytes n ++ r) = .ok (n, r) := by
  have hn0 : n ≠ 0 := by omega
  have hhead := beBytesF_head 8 n hn0 (by simpa using h)
  unfold readSize
  simp only [List.length_append, List.take_left', List.drop_left']
  have h1 : ¬ ((beBytes n).length + r.length < (beBytes n).length) := by omega
  simp only [h1, if_false]
  have h2 : ¬ ((beBytes n).length > 1 ∧ (beBytes n).head? = some 0) := fun hc => hhead.1 hc.2
  simp only [h2, if_false]
  rw [beBytes_val n h]
  have h3 : ¬ (n < 56) := by omega
  simp [h3]

theorem readSize_canon (ll : Nat) (r r' : Bytes) (sz : Nat) (hll : ll ≤ 8)
    (h : readSize ll r = .ok (sz, r')) :
    r = beBytes sz ++ r' ∧ (beBytes sz).length = ll ∧ 56 ≤ sz ∧ sz < 2 ^ 64 := by
  unfold readSize at h
  split at h
  · cases h
  · next hlen =>
    simp only at h
    split at h
    · cases h
    · next hz =>
      split at h
      · cases h
      · next h56 =>
        injection h with h
        injection h with h1 h2
        subst h1
        have hl : (r.take ll).length = ll := by simp; omega
        have hhead : (r.take ll).head? ≠ some 0 := by
          intro hc
          by_cases h1 : ll > 1
          · exact hz ⟨h1, hc⟩
          · cases hx : r.take ll with
            | nil => rw [hx] at hc; simp at hc
            | cons a as =>
              rw [hx] at hc hl h56
              have : as = [] := List.eq_nil_of_length_eq_zero (by simp at hl; omega)
              subst this
              simp at hc; subst hc
              simp [beVal] at h56
        have hcan : beBytes (beVal (r.take ll)) = r.take ll :=
          beBytesF_beVal 8 _ (by omega) hhead
        refine ⟨?_, ?_, by omega, ?_⟩
        · rw [hcan, ← h2]; exact (List.take_append_drop ll r).symm
        · rw [hcan]; exact hl
        · have := beVal_lt (r.take ll)
          rw [hl] at this
          have : 256 ^ ll ≤ 256 ^ 8 := Nat.pow_le_pow_right (by decide) hll
          omega

theorem readHead_byte (b : UInt8) (r : Bytes) (h : b < 0x80) : readHead (b :: r) = .ok (.byte, 0, b, r) := by
  simp [readHead, h]

theorem readHead_enc_str (n : Nat) (r : Bytes) (h : n < 2 ^ 64) :
    readHead (encHead 0x80 0xB7 n ++ r) = .ok (.string, n, 0, r) := by
  unfold encHead
  split
  · next hs =>
    have ht : (UInt8.ofNat (0x80 + n)).toNat = 0x80 + n := by simp [UInt8.toNat_ofNat]; omega
    simp only [List.cons_append, List.nil_append, readHead, UInt8.lt_iff_toNat_lt, ht]
    have e1 : (0x80 : UInt8).toNat = 128 := rfl
    have e2 : (0xB8 : UInt8).toNat = 184 := rfl
    simp only [e1, e2]
    have h1 : ¬ (0x80 + n < 128) := by omega
    have h2 : 0x80 + n < 184 := by omega
    simp [h1, h2]
  · next hs =>
    have hl := beBytes_length_le n
    have hp := beBytes_length_pos n (by omega)
    have ht : (UInt8.ofNat (0xB7 + (beBytes n).length)).toNat = 0xB7 + (beBytes n).length := by
      simp [UInt8.toNat_ofNat]; omega
    simp only [List.cons_append, readHead, UInt8.lt_iff_toNat_lt, ht]
    have e1 : (0x80 : UInt8).toNat = 128 := rfl
    have e2 : (0xB8 : UInt8).toNat = 184 := rfl
    have e3 : (0xC0 : UInt8).toNat = 192 := rfl
    simp only [e1, e2, e3]
    have h1 : ¬ (0xB7 + (beBytes n).length < 128) := by omega
    have h2 : ¬ (0xB7 + (beBytes n).length < 184) := by omega
    have h3 : 0xB7 + (beBytes n).length < 192 := by omega
    simp only [h1, h2, h3, if_false, if_true]
    have h4 : 0xB7 + (beBytes n).length - 0xB7 = (beBytes n).length := by omega
    rw [h4, readSize_enc n r (by omega) h]

theorem readHead_enc_list (n : Nat) (r : Bytes) (h : n < 2 ^ 64) :
    readHead (encHead 0xC0 0xF7 n ++ r) = .ok (.list, n, 0, r) := by
  unfold encHead
  split
  · next hs =>
    have ht : (UInt8.ofNat (0xC0 + n)).toNat = 0xC0 + n := by simp [UInt8.toNat_ofNat]; omega
    simp only [List.cons_append, List.nil_append, readHead, UInt8.lt_iff_toNat_lt, ht]
    have e1 : (0x80 : UInt8).toNat = 128 := rfl
    have e2 : (0xB8 : UInt8).toNat = 184 := rfl
    have e3 : (0xC0 : UInt8).toNat = 192 := rfl
    have e4 : (0xF8 : UInt8).toNat = 248 := rfl
    simp only [e1, e2, e3, e4]
    have h1 : ¬ (0xC0 + n < 128) := by omega
    have h2 : ¬ (0xC0 + n < 184) := by omega
    have h3 : ¬ (0xC0 + n < 192) := by omega
    have h4 : 0xC0 + n < 248 := by omega
    simp [h1, h2, h3, h4]
  · next hs =>
    have hl := beBytes_length_le n
    have hp := beBytes_length_pos n (by omega)
    have ht : (UInt8.ofNat (0xF7 + (beBytes n).length)).toNat = 0xF7 + (beBytes n).length := by
      simp [UInt8.toNat_ofNat]; omega
    simp only [List.cons_append, readHead, UInt8.lt_iff_toNat_lt, ht]
    have e1 : (0x80 : UInt8).toNat = 128 := rfl
    have e2 : (0xB8 : UInt8).toNat = 184 := rfl
    have e3 : (0xC0 : UInt8).toNat = 192 := rfl
    have e4 : (0xF8 : UInt8).toNat = 248 := rfl
    simp only [e1, e2, e3, e4]
    have h1 : ¬ (0xF7 + (beBytes n).length < 128) := by omega
    have h2 : ¬ (0xF7 + (beBytes n).length < 184) := by omega
    have h3 : ¬ (0xF7 + (beBytes n).length < 192) := by omega
    have h5 : ¬ (0xF7 + (beBytes n).length < 248) := by omega
    simp only [h1, h2, h3, h5, if_false]
    have h4 : 0xF7 + (beBytes n).length - 0xF7 = (beBytes n).length := by omega
    rw [h4, readSize_enc n r (by omega) h]

/-- what an accepted header looks like: it is the canonical header of its size -/
def HeadCanon (b : Bytes) (k : Kind) (sz : Nat) (bv : UInt8) (r : Bytes) : Prop :=
  match k with
  | .byte => b = bv :: r ∧ bv < 0x80 ∧ sz = 0
  | .string => b = encHead 0x80 0xB7 sz ++ r ∧ sz < 2 ^ 64
  | .list => b = encHead 0xC0 0xF7 sz ++ r ∧ sz < 2 ^ 64

theorem readHead_canon (b r : Bytes) (k : Kind) (sz : Nat) (bv : UInt8)
    (h : readHead b = .ok (k, sz, bv, r)) : HeadCanon b k sz bv r := by
  cases b with
  | nil => simp [readHead] at h
  | cons t r0 =>
    have e1 : (0x80 : UInt8).toNat = 128 := rfl
    have e2 : (0xB8 : UInt8).toNat = 184 := rfl
    have e3 : (0xC0 : UInt8).toNat = 192 := rfl
    have e4 : (0xF8 : UInt8).toNat = 248 := rfl
    have htl := t.toNat_lt
    simp only [readHead] at h
    split at h
    · next h1 =>
      injection h with h; injection h with hk h; injection h with hs h; injection h with hb hr
      subst hk hs hb hr
      exact ⟨rfl, h1, rfl⟩
    · next h1 =>
      rw [UInt8.lt_iff_toNat_lt, e1] at h1
      split at h
      · next h2 =>
        rw [UInt8.lt_iff_toNat_lt, e2] at h2
        injection h with h; injection h with hk h; injection h with hs h; injection h with hb hr
        subst hk hs hb hr
        refine ⟨?_, by omega⟩
        unfold encHead
        have : t.toNat - 0x80 < 56 := by omega
        simp only [this, if_true]
        have : 0x80 + (t.toNat - 0x80) = t.toNat := by omega
        rw [this]; simp
      · next h2 =>
        rw [UInt8.lt_iff_toNat_lt, e2] at h2
        split at h
        · next h3 =>
          rw [UInt8.lt_iff_toNat_lt, e3] at h3
          cases hrs : readSize (t.toNat - 0xB7) r0 with
          | error e => rw [hrs] at h; cases h
          | ok v =>
            obtain ⟨sz', r'⟩ := v
            rw [hrs] at h
            injection h with h; injection h with hk h; injection h with hs h; injection h with hb hr
            subst hk hs hb hr
            obtain ⟨c1, c2, c3, c4⟩ := readSize_canon _ _ _ _ (by omega) hrs
            refine ⟨?_, c4⟩
            unfold encHead
            have : ¬ (sz' < 56) := by omega
            simp only [this, if_false, c2]
            have : 0xB7 + (t.toNat - 0xB7) = t.toNat := by omega
            rw [this, c1]; simp
        · next h3 =>
          rw [UInt8.lt_iff_toNat_lt, e3] at h3
          split at h
          · next h4 =>
            rw [UInt8.lt_iff_toNat_lt, e4] at h4
            injection h with h; injection h with hk h; injection h with hs h; injection h with hb hr
            subst hk hs hb hr
            refine ⟨?_, by omega⟩
            unfold encHead
            have : t.toNat - 0xC0 < 56 := by omega
            simp only [this, if_true]
            have : 0xC0 + (t.toNat - 0xC0) = t.toNat := by omega
            rw [this]; simp
          · next h4 =>
            rw [UInt8.lt_iff_toNat_lt, e4] at h4
            cases hrs : readSize (t.toNat - 0xF7) r0 with
            | error e => rw [hrs] at h; cases h
            | ok v =>
              obtain ⟨sz', r'⟩ := v
              rw [hrs] at h
              injection h with h; injection h with hk h; injection h with hs h; injection h with hb hr
              subst hk hs hb hr
              obtain ⟨c1, c2, c3, c4⟩ := readSize_canon _ _ _ _ (by omega) hrs
              refine ⟨?_, c4⟩
              unfold encHead
              have : ¬ (sz' < 56) := by omega
              simp only [this, if_false, c2]
              have : 0xF7 + (t.toNat - 0xF7) = t.toNat := by omega
              rw [this, c1]; simp

/-! ### strings -/

theorem encHead_ne_nil (a b n : Nat) : encHead a b n ≠ [] := by
  unfold encHead; split <;> simp

theorem encHead_length_pos (a b n : Nat) : 1 ≤ (encHead a b n).length := by
  unfold encHead; split <;> simp

theorem encStr_general (p : Bytes) (h : single7 p = false) : encStr p = encHead 0x80 0xB7 p.length ++ p := by
  match p with
  | [] => rfl
  | [x] =>
    have : ¬ (x < 0x80) := by simpa [single7] using h
    simp [encStr, this]
  | _ :: _ :: _ => rfl

theorem encStr_single (x : UInt8) (h : x < 0x80) : encStr [x] = [x] := by simp [encStr, h]

theorem single7_iff (p : Bytes) : single7 p = true ↔ ∃ x, p = [x] ∧ x < 0x80 := by
  match p with
  | [] => simp [single7]
  | [x] => simp [single7]
  | _ :: _ :: _ => simp [single7]

theorem encStr_length (p : Bytes) : 1 ≤ (encStr p).length ∧ p.length ≤ (encStr p).length := by
  cases h : single7 p with
  | true =>
    obtain ⟨x, rfl, hx⟩ := (single7_iff p).mp h
    rw [encStr_single x hx]; simp
  | false =>
    rw [encStr_general p h]
    have := encHead_length_pos 0x80 0xB7 p.length
    simp; omega

theorem enc_ne_nil (i : Item) : enc i ≠ [] := by
  cases i with
  | str bs =>
    have := (encStr_length bs).1
    intro h
    rw [enc] at h
    rw [h] at this
    simp at this
  | list is =>
    simp [enc, encHead_ne_nil]

theorem enc_length_pos (i : Item) : 1 ≤ (enc i).length := by
  have := enc_ne_nil i
  cases h : enc i with
  | nil => exact absurd h this
  | cons a as => simp

/-! ### C11 clause "re-encoding returns the same bytes": whatever the strict decoder accepts is the canonical encoding -/

theorem dec_canon_aux : ∀ (f : Nat),
    (∀ (b : Bytes) (i : Item) (rest : Bytes), decF f b = .ok (i, rest) → b = enc i ++ rest) ∧
    (∀ (b : Bytes) (is : List Item), decListF f b = .ok is → b = encList is)
  | 0 => by
    constructor
    · intro b i rest h; simp [decF] at h
    · intro b is h; simp [decListF] at h
  | f + 1 => by
    obtain ⟨ihP, ihQ⟩ := dec_canon_aux f
    constructor
    · intro b i rest h
      simp only [decF] at h
      cases hh : readHead b with
      | error e => rw [hh] at h; cases h
      | ok v =>
        obtain ⟨k, sz, bv, r⟩ := v
        rw [hh] at h
        have hc := readHead_canon b r k sz bv hh
        cases k with
        | byte =>
          simp only at h
          injection h with h; injection h with h1 h2
          subst h1 h2
          obtain ⟨c1, c2, _⟩ := hc
          rw [c1]; simp [enc, encStr, c2]
        | string =>
          simp only at h
          split at h
          · cases h
          · next hlen =>
            split at h
            · cases h
            · next hs7 =>
              injection h with h; injection h with h1 h2
              subst h1 h2
              obtain ⟨c1, _⟩ := hc
              have hl : (r.take sz).length = sz := by simp; omega
              have : single7 (r.take sz) = false := by simpa using hs7
              rw [c1]
              simp only [enc]
              rw [encStr_general _ this, hl, List.append_assoc, List.take_append_drop]
        | list =>
          simp only at h
          split at h
          · cases h
          · next hlen =>
            cases hd : decListF f (r.take sz) with
            | error e => rw [hd] at h; cases h
            | ok is =>
              rw [hd] at h
              injection h with h; injection h with h1 h2
              subst h1 h2
              obtain ⟨c1, _⟩ := hc
              have hp := ihQ _ _ hd
              have hl : (r.take sz).length = sz := by simp; omega
              rw [c1]
              simp only [enc]
              rw [← hp, hl, List.append_assoc, List.take_append_drop]
    · intro b is h
      cases b with
      | nil =>
        simp only [decListF] at h
        injection h with h; subst h; rfl
      | cons x xs =>
        simp only [decListF] at h
        cases hd : decF f (x :: xs) with
        | error e => rw [hd] at h; cases h
        | ok v =>
          obtain ⟨i, r⟩ := v
          rw [hd] at h
          simp only at h
          cases hl : decListF f r with
          | error e => rw [hl] at h; cases h
          | ok is' =>
            rw [hl] at h
            injection h with h; subst h
            rw [ihP _ _ _ hd, ihQ _ _ hl]; rfl

/-! ### C11 clause "decoding an encoding returns an equal value" -/

mutual
  theorem decF_enc : ∀ (i : Item), i.Sized → ∀ (f : Nat) (rest : Bytes), i.fuel ≤ f →
      decF f (enc i ++ rest) = .ok (i, rest)
    | .str bs, hs, f, rest, hf => by
      simp only [Item.Sized] at hs
      simp only [Item.fuel] at hf
      obtain ⟨f', rfl⟩ : ∃ f', f = f' + 1 := ⟨f - 1, by omega⟩
      simp only [enc]
      cases h7 : single7 bs with
      | true =>
        obtain ⟨x, rfl, hx⟩ := (single7_iff bs).mp h7
        rw [encStr_single x hx]
        simp only [decF, List.cons_append, List.nil_append, readHead_byte x rest hx]
      | false =>
        rw [encStr_general bs h7, List.append_assoc]
        simp only [decF, readHead_enc_str bs.length (bs ++ rest) hs]
        have h1 : ¬ ((bs ++ rest).length < bs.length) := by simp
        simp only [h1, if_false, List.take_left', List.drop_left', h7]
        simp
    | .list is, hs, f, rest, hf => by
      simp only [Item.Sized] at hs
      simp only [Item.fuel] at hf
      obtain ⟨f', rfl⟩ : ∃ f', f = f' + 1 := ⟨f - 1, by omega⟩
      simp only [enc, List.append_assoc]
      simp only [decF, readHead_enc_list (encList is).length (encList is ++ rest) hs.1]
      have h1 : ¬ ((encList is ++ rest).length < (encList is).length) := by simp
      simp only [h1, if_false, List.take_left', List.drop_left']
      rw [decListF_enc is hs.2 f' (by omega)]
  theorem decListF_enc : ∀ (is : List Item), SizedList is → ∀ (f : Nat), fuelList is ≤ f →
      decListF f (encList is) = .ok is
    | [], _, f, hf => by
      simp only [fuelList] at hf
      obtain ⟨f', rfl⟩ : ∃ f', f = f' + 1 := ⟨f - 1, by omega⟩
      simp [encList, decListF]
    | i :: is, hs, f, hf => by
      simp only [SizedList] at hs
      simp only [fuelList] at hf
      obtain ⟨f', rfl⟩ : ∃ f', f = f' + 1 := ⟨f - 1, by omega⟩
      simp only [encList]
      have hne : enc i ++ encList is ≠ [] := by simp [enc_ne_nil]
      obtain ⟨x, xs, hx⟩ : ∃ x xs, enc i ++ encList is = x :: xs := by
        cases h : enc i ++ encList is with
        | nil => exact absurd h hne
        | cons x xs => exact ⟨x, xs, rfl⟩
      rw [hx]
      simp only [decListF]
      rw [← hx, decF_enc i hs.1 f' (encList is) (by omega)]
      simp only
      rw [decListF_enc is hs.2 f' (by omega)]
end

/-! ### fuel and allocation measures against the encoded length -/

mutual
  theorem fuel_le : ∀ (i : Item), i.fuel ≤ 2 * (enc i).length
    | .str bs => by
      have := enc_length_pos (.str bs)
      simp only [Item.fuel]; omega
    | .list is => by
      have := fuelList_le is
      have := encHead_length_pos 0xC0 0xF7 (encList is).length
      simp only [Item.fuel, enc, List.length_append]; omega
  theorem fuelList_le : ∀ (is : List Item), fuelList is ≤ 2 * (encList is).length + 1
    | [] => by simp [fuelList, encList]
    | i :: is => by
      have := fuel_le i
      have := fuelList_le is
      have := enc_length_pos i
      simp only [fuelList, encList, List.length_append]; omega
end

mutual
  theorem weight_le : ∀ (i : Item), i.weight ≤ 2 * (enc i).length
    | .str bs => by
      have := encStr_length bs
      simp only [Item.weight, enc]; omega
    | .list is => by
      have := weightList_le is
      have := encHead_length_pos 0xC0 0xF7 (encList is).length
      simp only [Item.weight, enc, List.length_append]; omega
  theorem weightList_le : ∀ (is : List Item), weightList is ≤ 2 * (encList is).length
    | [] => by simp [weightList, encList]
    | i :: is => by
      have := weight_le i
      have := weightList_le is
      simp only [weightList, encList, List.length_append]; omega
end

/-! ### headline statements of layer 1 -/

/-- lossless: decoding an encoding (followed by anything) returns the item and exactly the rest -/
theorem dec_enc (i : Item) (hs : i.Sized) (rest : Bytes) : dec (enc i ++ rest) = .ok (i, rest) := by
  unfold dec
  apply decF_enc i hs
  have := fuel_le i
  simp only [List.length_append]; omega

/-- canonical: the only byte string the strict decoder accepts for an item is its encoding -/
theorem enc_dec_canonical (b : Bytes) (i : Item) (rest : Bytes) (h : dec b = .ok (i, rest)) : b = enc i ++ rest :=
  (dec_canon_aux _).1 b i rest h

theorem decExact_enc (i : Item) (hs : i.Sized) : decExact (enc i) = .ok i := by
  have := dec_enc i hs []
  simp only [List.append_nil] at this
  simp [decExact, this]

/-- `DecodeBytes` then `EncodeToBytes` gives back the input bytes -/
theorem decExact_canonical (b : Bytes) (i : Item) (h : decExact b = .ok i) : enc i = b := by
  unfold decExact at h
  cases hd : dec b with
  | error e => rw [hd] at h; cases h
  | ok v =>
    obtain ⟨j, r⟩ := v
    rw [hd] at h
    cases r with
    | nil =>
      simp only at h
      injection h with h; subst h
      have := enc_dec_canonical b j [] hd
      simpa using this.symm
    | cons x xs => simp at h

/-- equal bytes ⇒ equal values: the encoding is injective, even as a prefix code -/
theorem enc_prefix_free (i j : Item) (hi : i.Sized) (r r' : Bytes) (h : enc i ++ r = enc j ++ r') (hj : j.Sized) :
    i = j ∧ r = r' := by
  have h1 := dec_enc i hi r
  have h2 := dec_enc j hj r'
  rw [h] at h1
  rw [h1] at h2
  injection h2 with h2
  injection h2 with a b
  exact ⟨a, b⟩

theorem enc_injective (i j : Item) (hi : i.Sized) (hj : j.Sized) (h : enc i = enc j) : i = j :=
  (enc_prefix_free i j hi [] [] (by simpa using h) hj).1

/-- safe on arbitrary input: `dec` is a total function into value-or-error (there is no third outcome), and -/
theorem dec_total (b : Bytes) : (∃ i rest, dec b = .ok (i, rest)) ∨ (∃ e, dec b = .error e) := by
  cases h : dec b with
  | error e => exact Or.inr ⟨e, rfl⟩
  | ok v => exact Or.inl ⟨v.1, v.2, rfl⟩

/-- bounded allocation: what a successful decode builds is at most twice the input length (nodes + bytes),
    and the unread rest is a suffix of the input -/
theorem alloc_bound (b : Bytes) (i : Item) (rest : Bytes) (h : dec b = .ok (i, rest)) :
    i.weight + 2 * rest.length ≤ 2 * b.length := by
  have hb := enc_dec_canonical b i rest h
  have := weight_le i
  rw [hb, List.length_append]; omega

/-- every size the decoder accepts fits a uint64 (so `Sized` is not a restriction on decoded values) -/
theorem dec_progress (b : Bytes) (i : Item) (rest : Bytes) (h : dec b = .ok (i, rest)) : rest.length < b.length := by
  have hb := enc_dec_canonical b i rest h
  have := enc_length_pos i
  rw [hb, List.length_append]; omega

/-! non-vacuity: concrete encodings, checked by evaluation -/
example : enc (.list [.str [0x01], .str [0x80], .str [], .list []]) = [0xC5, 0x01, 0x81, 0x80, 0x80, 0xC0] := by decide
set_option maxRecDepth 10000 in
example : dec [0xC5, 0x01, 0x81, 0x80, 0x80, 0xC0, 0xFF] = .ok (.list [.str [0x01], .str [0x80], .str [], .list []], [0xFF]) := by rfl
/-! non-canonical inputs are rejected: single byte wrapped, long form for a short size, leading zero in the size -/
set_option maxRecDepth 10000 in
example : dec [0x81, 0x05] = .error .canonSize := by rfl
set_option maxRecDepth 10000 in
example : dec [0xB8, 0x05, 1, 2, 3, 4, 5] = .error .canonSize := by rfl
set_option maxRecDepth 10000 in
example : dec [0xB9, 0x00, 0x40] = .error .canonSize := by rfl
set_option maxRecDepth 10000 in
example : dec [0xC5, 0x83, 1, 2] = .error .valueTooLarge := by rfl
example : (Item.list [.str [0x01], .str [0x80]]).Sized := by simp [Item.Sized, SizedList, enc, encList, encStr, encHead]

end Props.C11
