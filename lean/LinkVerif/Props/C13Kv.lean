/-
C13, kv-mode world state: whatever durable write of a block commit a crash cuts, the startup rule of
NewKeyValueDBWithCache brings the flat state back to exactly the state of the block store's height.
Theorems over Model.Stores Part 5; order facts from Gen.C13Facts.
-/
import LinkVerif.Model.Stores
import LinkVerif.Gen.C13Facts

namespace Props.C13Kv
open Model.Stores

/-! ## T2: the order the code writes in, and the startup cases -/

theorem kv_order_fact :
    Gen.C13Facts.saveWALCalls = ["Truncate", "saveHeight"] ∧
    Gen.C13Facts.kvTrieCommitCalls = ["saveWAL", "Commit"] ∧
    Gen.C13Facts.kvStartupCases = ["height", "height + 1", "0", "default"] := by decide

/-! ## update lists -/

def keys (us : Updates) : List Nat := us.map (·.1)

theorem applyUpd_cons (kv : KV) (p : Nat × Nat) (us : Updates) :
    applyUpd kv (p :: us) = applyUpd (fun x => if x = p.1 then p.2 else kv x) us := rfl

theorem applyUpd_append (kv : KV) (a b : Updates) : applyUpd kv (a ++ b) = applyUpd (applyUpd kv a) b := by
  unfold applyUpd; rw [List.foldl_append]

/-- the value at x depends on the base function only through its value at x -/
theorem applyUpd_congr_at (us : Updates) (g g' : KV) (x : Nat) (h : g x = g' x) : applyUpd g us x = applyUpd g' us x := by
  induction us generalizing g g' with
  | nil => exact h
  | cons p rest ih =>
    rw [applyUpd_cons, applyUpd_cons]
    apply ih
    by_cases hx : x = p.1 <;> simp [hx, h]

theorem applyUpd_notin (us : Updates) (g : KV) (x : Nat) (h : x ∉ keys us) : applyUpd g us x = g x := by
  induction us generalizing g with
  | nil => rfl
  | cons p rest ih =>
    rw [applyUpd_cons]
    simp only [keys, List.map_cons, List.mem_cons, not_or] at h
    rw [ih _ (by simpa [keys] using h.2)]
    simp [h.1]

/-- writing pre-images taken from `f`: every key of `us` ends at `f`'s value, everything else is untouched -/
theorem applyUpd_pre (us : Updates) (f g : KV) (x : Nat) :
    applyUpd g (us.map (fun p => (p.1, f p.1))) x = if x ∈ keys us then f x else g x := by
  induction us generalizing g with
  | nil => simp [applyUpd, keys]
  | cons p rest ih =>
    simp only [List.map_cons]
    rw [applyUpd_cons, ih]
    simp only [keys, List.map_cons, List.mem_cons]
    by_cases h1 : x ∈ rest.map (·.1)
    · simp [h1, keys]
    · by_cases h2 : x = p.1
      · subst h2; simp [h1, keys]
      · simp [h1, h2, keys]

/-! ## the invariant along a cut commit -/

/-- while block H+1 is being written: the undo log brings the flat state back to `kv0`, its keys are among `seen`, and the
flat state still equals `kv0` outside `seen` -/
structure Mid (kv0 : KV) (H : Nat) (seen : List Nat) (d : KvDisk) : Prop where
  kvh : d.kvh = H + 1
  undo : ∀ x, applyUpd d.kv d.wal x = kv0 x
  walKeys : ∀ k ∈ keys d.wal, k ∈ seen
  fresh : ∀ x, x ∉ seen → d.kv x = kv0 x

def trieWrites (tries : List Updates) : List KvWrite := tries.flatMap (fun us => [.walAppend us, .batch us])

theorem mid_walAppend {kv0 : KV} {H : Nat} {seen : List Nat} {d : KvDisk} (hm : Mid kv0 H seen d) (us : Updates)
    (hdis : ∀ k ∈ keys us, k ∉ seen) :
    (applyWrite d (.walAppend us)).kvh = H + 1 ∧ ∀ x, applyUpd (applyWrite d (.walAppend us)).kv (applyWrite d (.walAppend us)).wal x = kv0 x := by
  refine ⟨hm.kvh, ?_⟩
  intro x
  show applyUpd d.kv (d.wal ++ us.map (fun p => (p.1, d.kv p.1))) x = kv0 x
  rw [applyUpd_append, applyUpd_pre]
  by_cases hx : x ∈ keys us
  · simp only [hx, if_true]; exact hm.fresh x (hdis x hx)
  · simp only [hx, if_false]; exact hm.undo x

theorem mid_trie {kv0 : KV} {H : Nat} {seen : List Nat} {d : KvDisk} (hm : Mid kv0 H seen d) (us : Updates)
    (hdis : ∀ k ∈ keys us, k ∉ seen) :
    Mid kv0 H (keys us ++ seen) (applyWrite (applyWrite d (.walAppend us)) (.batch us)) := by
  have happ := mid_walAppend hm us hdis
  constructor
  · exact hm.kvh
  · intro x
    show applyUpd (applyUpd d.kv us) (d.wal ++ us.map (fun p => (p.1, d.kv p.1))) x = kv0 x
    rw [applyUpd_append, applyUpd_pre]
    by_cases hx : x ∈ keys us
    · simp only [hx, if_true]; exact hm.fresh x (hdis x hx)
    · simp only [hx, if_false]
      rw [applyUpd_congr_at d.wal (applyUpd d.kv us) d.kv x (applyUpd_notin us d.kv x hx)]
      exact hm.undo x
  · intro k hk
    have : k ∈ keys d.wal ∨ k ∈ keys us := by
      simp only [applyWrite, keys, List.map_append, List.map_map, List.mem_append] at hk
      rcases hk with hk | hk
      · left; exact hk
      · right
        simp only [List.mem_map, Function.comp] at hk
        obtain ⟨p, hp, rfl⟩ := hk
        exact List.mem_map_of_mem (f := (·.1)) hp
    rcases this with h | h
    · exact List.mem_append_right _ (hm.walKeys k h)
    · exact List.mem_append_left _ h
  · intro x hx
    simp only [List.mem_append, not_or] at hx
    show applyUpd d.kv us x = kv0 x
    rw [applyUpd_notin us d.kv x hx.1]
    exact hm.fresh x hx.2

/-- all keys the block writes are pairwise distinct (one trie's map keys are unique; different tries have disjoint key spaces) -/
def DistinctKeys (tries : List Updates) : Prop := (tries.flatMap keys).Nodup

instance (tries : List Updates) : Decidable (DistinctKeys tries) := inferInstanceAs (Decidable (List.Nodup _))

theorem cut_tries {kv0 : KV} {H : Nat} (tries : List Updates) (seen : List Nat) (d : KvDisk) (hm : Mid kv0 H seen d)
    (hnd : DistinctKeys tries) (hdis : ∀ k ∈ tries.flatMap keys, k ∉ seen) (k : Nat) :
    (kvCrashAt d (trieWrites tries) k).kvh = H + 1 ∧
    ∀ x, applyUpd (kvCrashAt d (trieWrites tries) k).kv (kvCrashAt d (trieWrites tries) k).wal x = kv0 x := by
  induction tries generalizing seen d k with
  | nil => simp only [trieWrites, List.flatMap_nil, kvCrashAt, List.take_nil, List.foldl_nil]; exact ⟨hm.kvh, hm.undo⟩
  | cons us rest ih =>
    have hus : ∀ k ∈ keys us, k ∉ seen := fun k hk => hdis k (by simp [List.flatMap_cons, hk])
    have hw : trieWrites (us :: rest) = .walAppend us :: .batch us :: trieWrites rest := by
      simp [trieWrites, List.flatMap_cons]
    rw [hw]
    match k with
    | 0 => simp only [kvCrashAt, List.take_zero, List.foldl_nil]; exact ⟨hm.kvh, hm.undo⟩
    | 1 =>
      simp only [kvCrashAt, List.take_succ_cons, List.take_zero, List.foldl_cons, List.foldl_nil]
      exact mid_walAppend hm us hus
    | k + 2 =>
      simp only [kvCrashAt, List.take_succ_cons, List.foldl_cons]
      have hnd' : DistinctKeys rest := by
        unfold DistinctKeys at *; rw [List.flatMap_cons] at hnd; exact (List.nodup_append.mp hnd).2.1
      have hdis' : ∀ k ∈ rest.flatMap keys, k ∉ keys us ++ seen := by
        intro k hk
        simp only [List.mem_append, not_or]
        constructor
        · intro hku
          unfold DistinctKeys at hnd; rw [List.flatMap_cons] at hnd
          exact (List.nodup_append.mp hnd).2.2 k hku k hk rfl
        · exact hdis k (by simp [List.flatMap_cons, hk])
      exact ih (keys us ++ seen) _ (mid_trie hm us hus) hnd' hdis' k

/-! ## the theorem -/

/-- **C13, kv-mode world state.**  The flat state is at block H (kvHeight = H, any undo log left over).  Block H+1 with any
tries of pairwise distinct keys is committed and a crash lets exactly the first k durable writes through, for ANY k (the block
store's height descriptor is written after all of them, so the block store still says H).  Then startup does not panic and the
recovered flat state is exactly the state of block H. -/
theorem kv_recover_exact (d0 : KvDisk) (H : Nat) (h0 : d0.kvh = H) (tries : List Updates) (hnd : DistinctKeys tries) (k : Nat) :
    ∃ d, kvRecover (kvCrashAt d0 (kvCommitWrites (H + 1) tries) k) H = some d ∧ ∀ x, d.kv x = d0.kv x := by
  have hw : kvCommitWrites (H + 1) tries = .truncate :: .setHeight (H + 1) :: trieWrites tries := rfl
  rw [hw]
  match k with
  | 0 =>
    refine ⟨d0, ?_, fun _ => rfl⟩
    simp [kvCrashAt, kvRecover, h0]
  | 1 =>
    refine ⟨{ d0 with wal := [] }, ?_, fun _ => rfl⟩
    simp [kvCrashAt, kvRecover, applyWrite, h0]
  | k + 2 =>
    have hc : kvCrashAt d0 (.truncate :: .setHeight (H + 1) :: trieWrites tries) (k + 2)
        = kvCrashAt (applyWrite (applyWrite d0 .truncate) (.setHeight (H + 1))) (trieWrites tries) k := by
      simp only [kvCrashAt, List.take_succ_cons, List.foldl_cons]
    rw [hc]
    have hm : Mid d0.kv H [] (applyWrite (applyWrite d0 .truncate) (.setHeight (H + 1))) :=
      ⟨rfl, fun _ => rfl, fun k hk => by simp [applyWrite, keys] at hk, fun _ _ => rfl⟩
    obtain ⟨hk1, hk2⟩ := cut_tries tries [] _ hm hnd (fun _ _ => by simp) k
    generalize kvCrashAt (applyWrite (applyWrite d0 .truncate) (.setHeight (H + 1))) (trieWrites tries) k = dk at hk1 hk2
    have hne : ¬ dk.kvh = H := by rw [hk1]; omega
    refine ⟨{ dk with kv := applyUpd dk.kv dk.wal }, ?_, hk2⟩
    show kvRecover dk H = _
    unfold kvRecover
    rw [if_neg hne, if_pos hk1]

/-- restarting twice is the same as restarting once: the second startup applies the same undo log to a state it already fixed -/
theorem kv_recover_idempotent (d : KvDisk) (H : Nat) (d1 : KvDisk) (h : kvRecover d H = some d1) (hk : d.kvh = H + 1)
    (hnd : (keys d.wal).Nodup) : ∃ d2, kvRecover d1 H = some d2 ∧ ∀ x, d2.kv x = d1.kv x := by
  have hne : ¬ d.kvh = H := by omega
  unfold kvRecover at h
  rw [if_neg hne, if_pos hk] at h
  simp only [Option.some.injEq] at h
  subst h
  refine ⟨{ d with kv := applyUpd (applyUpd d.kv d.wal) d.wal }, ?_, ?_⟩
  · show kvRecover { d with kv := applyUpd d.kv d.wal } H = _
    unfold kvRecover
    rw [if_neg (show ¬ ({ d with kv := applyUpd d.kv d.wal } : KvDisk).kvh = H from hne),
        if_pos (show ({ d with kv := applyUpd d.kv d.wal } : KvDisk).kvh = H + 1 from hk)]
  · intro x
    show applyUpd (applyUpd d.kv d.wal) d.wal x = applyUpd d.kv d.wal x
    -- applying the same list of writes twice: last write wins both times
    have key : ∀ (w : Updates) (g g' : KV), (∀ y, y ∉ keys w → g y = g' y) → ∀ y, applyUpd g w y = applyUpd g' w y := by
      intro w
      induction w with
      | nil => intro g g' h y; exact h y (by simp [keys])
      | cons p rest ih =>
        intro g g' h y
        rw [applyUpd_cons, applyUpd_cons]
        apply ih
        intro z hz
        by_cases hzp : z = p.1
        · simp [hzp]
        · simp only [hzp, if_false]
          exact h z (by simp only [keys, List.map_cons, List.mem_cons, not_or]; exact ⟨hzp, hz⟩)
    exact key d.wal (applyUpd d.kv d.wal) d.kv (fun y hy => applyUpd_notin d.wal d.kv y hy) x

/-- non-vacuity: two tries (keys 1,2 and 7), cut after the first batch (k = 4): the flat state holds the new values of
keys 1 and 2, the undo log restores them -/
def nv0 : KvDisk := { kv := fun x => if x = 1 then 10 else if x = 7 then 70 else 0, wal := [(9, 9)], kvh := 5 }
def nvTries : List Updates := [[(1, 11), (2, 22)], [(7, 0)]]
example : DistinctKeys nvTries := by decide
example : ((kvCrashAt nv0 (kvCommitWrites 6 nvTries) 4).kv 1, (kvCrashAt nv0 (kvCommitWrites 6 nvTries) 4).kv 2,
           (kvCrashAt nv0 (kvCommitWrites 6 nvTries) 4).wal) = (11, 22, [(1, 10), (2, 0)]) := by decide
example : ((kvRecover (kvCrashAt nv0 (kvCommitWrites 6 nvTries) 4) 5).map (fun d => (d.kv 1, d.kv 2, d.kv 7))) = some (10, 0, 70) := by decide
example : ((kvRecover (kvCrashAt nv0 (kvCommitWrites 6 nvTries) 6) 5).map (fun d => (d.kv 1, d.kv 2, d.kv 7))) = some (10, 0, 70) := by decide

end Props.C13Kv
