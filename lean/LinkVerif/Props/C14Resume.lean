import LinkVerif.Props.C14Prune
import LinkVerif.Model.Node

/-!
# C14 — what the node IS after a restart: the replay restores the state (and the lock)

`catchupReplay` hands every record after the marker of the previous height to the handlers the running node uses
(`readReplayMessage` → `handleMsg` / `handleTimeout`).  With the node model of C01 (`Model.Node.step`, tied to the real
`ConsensusState` step by step) the state after a restart is therefore a fold of `step` over the decoded records; the
theorems of `Props/C14Search`/`C14Prune` say WHICH records those are.
-/
namespace Props.C14
open Model.Wal

/-- one logged input of the node: the event and the two attributes the node model takes as given with it -/
structure LoggedIn where
  i : Model.Node.In
  nv : Nat
  nvt : Nat

/-- handling one input (what the running node does after logging it, and what the replay does with the record) -/
def handle (s : Model.Node.St) (x : LoggedIn) : Model.Node.St :=
  Model.Node.step (Model.Node.learn { s with fresh := x.nv } x.nv x.nvt) x.i

/-- the state of the ORIGINAL node after handling these inputs from `s0` (the state the commit of the previous height left) -/
def stateAfter (s0 : Model.Node.St) (xs : List LoggedIn) : Model.Node.St := xs.foldl handle s0

/-- the state a restarted node has when `catchupReplay(csHeight)` ends with "Replay: Done" (`inOf` = the payload codec,
abstract); `none`: the replay reports an error or panics on corruption (the node refuses, or starts from `s0` without
replay — OnStart's policy, finding wal-search-torn-tail) -/
def restartState (c : Codec) (inOf : Bytes → LoggedIn) (s0 : Model.Node.St) (g : Group) (csHeight : Nat) :
    Option Model.Node.St :=
  match catchup c g csHeight with
  | (ms, Outcome.done) => some (stateAfter s0 (ms.map inOf))
  | _ => none

/-- **replay_is_fold**: on a record-aligned log that ends cleanly, without the marker of the current height and with
the marker of the previous one, the restarted node's state is the fold of the node's step function over exactly the
non-marker records written after that marker, in order — i.e. the state the original node had after handling them. -/
theorem replay_is_fold (c : Codec) (hb : Bounded c) (inOf : Bytes → LoggedIn) (s0 : Model.Node.St) (g : Group)
    (csHeight : Nat) (pss : List (List Bytes)) (hd : List Bytes) (rem rest' : Bytes)
    (hD : OnDisk c g pss hd rem) (hrem : decode1 c Tail.eof rem = (Res.eof, rest'))
    (hv : ∀ p ∈ pss.flatten ++ hd, Valid c p)
    (hmono : ((pss.flatten ++ hd).filterMap c.eh).Pairwise (· ≤ ·))
    (hno : ∀ p ∈ pss.flatten ++ hd, c.eh p ≠ some csHeight)
    (hyes : ∃ p ∈ pss.flatten ++ hd, c.eh p = some (csHeight - 1)) :
    ∃ pre m post, pss.flatten ++ hd = pre ++ m :: post ∧ c.eh m = some (csHeight - 1) ∧
      restartState c inOf s0 g csHeight =
        some (stateAfter s0 ((post.filter (fun p => (c.eh p).isNone)).map inOf)) := by
  obtain ⟨pre, m, post, e, hm, hc⟩ :=
    catchup_replays_after_marker c hb g csHeight pss hd rem rest' hD hrem hv hmono hno hyes
  exact ⟨pre, m, post, e, hm, by simp [restartState, hc]⟩

/-- **lock_survives_replay**: if the original node, after handling the inputs logged after the marker, was locked on
`(r, b)`, the restarted node is locked on `(r, b)` (and has the same valid round/value, round and step): the WAL is
what makes the voting discipline of C01 survive a crash. -/
theorem lock_survives_replay (c : Codec) (hb : Bounded c) (inOf : Bytes → LoggedIn) (s0 : Model.Node.St) (g : Group)
    (csHeight : Nat) (pss : List (List Bytes)) (hd : List Bytes) (rem rest' : Bytes)
    (hD : OnDisk c g pss hd rem) (hrem : decode1 c Tail.eof rem = (Res.eof, rest'))
    (hv : ∀ p ∈ pss.flatten ++ hd, Valid c p)
    (hmono : ((pss.flatten ++ hd).filterMap c.eh).Pairwise (· ≤ ·))
    (hno : ∀ p ∈ pss.flatten ++ hd, c.eh p ≠ some csHeight)
    (hyes : ∃ p ∈ pss.flatten ++ hd, c.eh p = some (csHeight - 1)) :
    ∃ pre m post s, pss.flatten ++ hd = pre ++ m :: post ∧ c.eh m = some (csHeight - 1) ∧
      restartState c inOf s0 g csHeight = some s ∧
      let orig := stateAfter s0 ((post.filter (fun p => (c.eh p).isNone)).map inOf)
      s.lockedRound = orig.lockedRound ∧ s.lockedValue = orig.lockedValue ∧
      s.validRound = orig.validRound ∧ s.validValue = orig.validValue ∧
      s.round = orig.round ∧ s.step = orig.step ∧ s.height = orig.height := by
  obtain ⟨pre, m, post, e, hm, hr⟩ :=
    replay_is_fold c hb inOf s0 g csHeight pss hd rem rest' hD hrem hv hmono hno hyes
  exact ⟨pre, m, post, _, e, hm, hr, rfl, rfl, rfl, rfl, rfl, rfl, rfl⟩

/-- **restart_torn_no_replay**: a head that ends inside the length or data field of a record (and does not hold the
marker of the current height): no state is restored — never the state of a log with a record skipped in the middle;
what the node does instead (start from `s0`) is the recorded finding wal-search-torn-tail. -/
theorem restart_torn_no_replay (c : Codec) (hb : Bounded c) (inOf : Bytes → LoggedIn) (s0 : Model.Node.St) (g : Group)
    (csHeight : Nat) (pss : List (List Bytes)) (hd : List Bytes) (rem rest' : Bytes) (r : Res)
    (hD : OnDisk c g pss hd rem) (hrem : decode1 c Tail.eof rem = (r, rest')) (hr : isStop r = true)
    (hne : r ≠ Res.eof) (hv : ∀ p ∈ hd, Valid c p) (hno : ∀ p ∈ hd, c.eh p ≠ some csHeight) :
    restartState c inOf s0 g csHeight = none := by
  have := catchup_torn_gives_up c hb g csHeight pss hd rem rest' r hD hrem hr hne hv hno
  simp [restartState, this]

/-- the fold is over a PREFIX: replaying the first `j` inputs gives the state the original node had after `j` inputs,
and the remaining inputs, handled afterwards, lead to the original node's final state -/
theorem stateAfter_append (s0 : Model.Node.St) (xs ys : List LoggedIn) :
    stateAfter s0 (xs ++ ys) = stateAfter (stateAfter s0 xs) ys := by
  simp [stateAfter, List.foldl_append]

end Props.C14
