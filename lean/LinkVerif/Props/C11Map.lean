/-
C11, layer 2: map order freedom.  `sortKV` (the model of sort.Sort(mapKeys) in makeMapWriter) is an insertion sort by key
under bytes.Compare; on lists with distinct keys it is invariant under every permutation, hence so is the encoding.
-/
import LinkVerif.Model.Ser

namespace Props.C11
open Model.Rlp Model.Ser

/-! ### bytes.Compare < 0 is a strict total order -/

theorem bytesLt_irrefl : ∀ (a : Bytes), bytesLt a a = false
  | [] => rfl
  | x :: xs => by
    have := bytesLt_irrefl xs
    simp [bytesLt, this]

theorem u8_lt_trans {a b c : UInt8} (h1 : a < b) (h2 : b < c) : a < c := by
  rw [UInt8.lt_iff_toNat_lt] at *; omega

theorem u8_lt_asymm {a b : UInt8} (h1 : a < b) : ¬ b < a := by
  rw [UInt8.lt_iff_toNat_lt] at *; omega

theorem u8_eq_of_not_lt {a b : UInt8} (h1 : ¬ a < b) (h2 : ¬ b < a) : a = b := by
  rw [UInt8.lt_iff_toNat_lt] at *
  exact UInt8.toNat_inj.mp (by omega)

theorem bytesLt_trans : ∀ (a b c : Bytes), bytesLt a b = true → bytesLt b c = true → bytesLt a c = true
  | [], [], _, h1, _ => by simp [bytesLt] at h1
  | [], _ :: _, [], _, h2 => by simp [bytesLt] at h2
  | [], _ :: _, _ :: _, _, _ => by simp [bytesLt]
  | _ :: _, [], _, h1, _ => by simp [bytesLt] at h1
  | _ :: _, _ :: _, [], _, h2 => by simp [bytesLt] at h2
  | x :: xs, y :: ys, z :: zs, h1, h2 => by
    have ih := bytesLt_trans xs ys zs
    simp only [bytesLt] at h1 h2 ⊢
    by_cases hxy : x < y
    · by_cases hyz : y < z
      · simp [u8_lt_trans hxy hyz]
      · simp only [hyz, if_false] at h2
        by_cases hzy : z < y
        · simp [hzy] at h2
        · have : y = z := u8_eq_of_not_lt hyz hzy
          subst this; simp [hxy]
    · simp only [hxy, if_false] at h1
      by_cases hyx : y < x
      · simp [hyx] at h1
      · have : x = y := u8_eq_of_not_lt hxy hyx
        subst this
        simp only [hyx, if_false] at h1
        by_cases hyz : x < z
        · simp [hyz]
        · simp only [hyz, if_false] at h2 ⊢
          by_cases hzy : z < x
          · simp [hzy] at h2
          · simp only [hzy, if_false] at h2 ⊢
            exact ih h1 h2

theorem bytesLt_asymm (a b : Bytes) (h : bytesLt a b = true) : bytesLt b a = false := by
  cases hb : bytesLt b a with
  | false => rfl
  | true =>
    have := bytesLt_trans a b a h hb
    rw [bytesLt_irrefl] at this
    cases this

theorem bytesLt_total : ∀ (a b : Bytes), a ≠ b → bytesLt a b = true ∨ bytesLt b a = true
  | [], [], h => absurd rfl h
  | [], _ :: _, _ => by simp [bytesLt]
  | _ :: _, [], _ => by simp [bytesLt]
  | x :: xs, y :: ys, h => by
    simp only [bytesLt]
    by_cases hxy : x < y
    · simp [hxy]
    · by_cases hyx : y < x
      · simp [hyx]
      · have : x = y := u8_eq_of_not_lt hxy hyx
        subst this
        simp only [hxy, if_false]
        exact bytesLt_total xs ys (fun hc => h (by rw [hc]))

/-! ### insertion commutes for distinct keys, on any list -/

theorem insertKV_comm (a b : Bytes) (va vb : Val) (hab : a ≠ b) :
    ∀ (l : List (Bytes × Val)), insertKV a va (insertKV b vb l) = insertKV b vb (insertKV a va l)
  | [] => by
    rcases bytesLt_total a b hab with h | h
    · have h' := bytesLt_asymm a b h
      simp [insertKV, h, h']
    · have h' := bytesLt_asymm b a h
      simp [insertKV, h, h']
  | (c, vc) :: r => by
    have ih := insertKV_comm a b va vb hab r
    by_cases hac : bytesLt a c = true
    · by_cases hbc : bytesLt b c = true
      · rcases bytesLt_total a b hab with h | h
        · have h' := bytesLt_asymm a b h
          simp [insertKV, hac, hbc, h, h']
        · have h' := bytesLt_asymm b a h
          simp [insertKV, hac, hbc, h, h']
      · have hba : bytesLt b a = false := by
          cases hx : bytesLt b a with
          | false => rfl
          | true => exact absurd (bytesLt_trans b a c hx hac) hbc
        simp [insertKV, hac, hbc, hba]
    · by_cases hbc : bytesLt b c = true
      · have hab' : bytesLt a b = false := by
          cases hx : bytesLt a b with
          | false => rfl
          | true => exact absurd (bytesLt_trans a b c hx hbc) hac
        simp [insertKV, hac, hbc, hab']
      · simp [insertKV, hac, hbc, ih]

/-- C11 clause "equal values encode to the same bytes regardless of map order", model side:
    the sorted entry list does not depend on the order in which the entries are presented -/
theorem sortKV_perm {l₁ l₂ : List (Bytes × Val)} (hp : l₁.Perm l₂) (hd : (l₁.map (·.1)).Nodup) :
    sortKV l₁ = sortKV l₂ := by
  induction hp with
  | nil => rfl
  | cons x _ ih =>
    obtain ⟨k, v⟩ := x
    simp only [List.map_cons, List.nodup_cons] at hd
    simp only [sortKV, ih hd.2]
  | swap x y l =>
    obtain ⟨kx, vx⟩ := x
    obtain ⟨ky, vy⟩ := y
    simp only [List.map_cons, List.nodup_cons, List.mem_cons, not_or] at hd
    simp only [sortKV]
    exact insertKV_comm ky kx vy vx hd.1.1 _
  | trans h1 _ ih1 ih2 =>
    have hd2 := (List.Perm.nodup_iff (h1.map (·.1))).mp hd
    rw [ih1 hd, ih2 hd2]

/-- byte-level: the map encoding of the model is invariant under every permutation of the (distinct-key) entries -/
theorem map_order_free (env : Env) (f : Nat) (ks ks' : List Bytes) (vs vs' : List Val)
    (hl : ks.length = vs.length) (hl' : ks'.length = vs'.length)
    (hp : (ks.zip vs).Perm (ks'.zip vs')) (hd : ks.Nodup) :
    encV env f .map20 (.map ks vs) = encV env f .map20 (.map ks' vs') := by
  have hlen : ks.length = ks'.length := by
    have := hp.length_eq
    simp [List.length_zip, hl, hl'] at this
    omega
  have hd' : ((ks.zip vs).map (·.1)).Nodup := by
    rw [List.map_fst_zip (by omega)]; exact hd
  cases f with
  | zero => rfl
  | succ f =>
    simp only [encV, hl, hl', ne_eq, not_true_eq_false, if_false, sortKV_perm hp hd']
    have : vs.length = vs'.length := by omega
    rw [this]

theorem encSeq_congr_mid (g : Ty → Val → Except Err Bytes) (t : Ty) (v v' : Val) (h : g t v = g t v') (ts2 : List Ty) (vs2 : List Val) :
    ∀ (ts1 : List Ty) (vs1 : List Val), vs1.length = ts1.length →
      encSeq g (ts1 ++ t :: ts2) (vs1 ++ v :: vs2) = encSeq g (ts1 ++ t :: ts2) (vs1 ++ v' :: vs2)
  | [], [], _ => by simp [encSeq, h]
  | [], _ :: _, hl => by simp at hl
  | _ :: _, [], hl => by simp at hl
  | t1 :: ts1, v1 :: vs1, hl => by
    have ih := encSeq_congr_mid g t v v' h ts2 vs2 ts1 vs1 (by simpa using hl)
    simp only [List.cons_append, encSeq, ih]

/-- lifted to Account-like types: a struct with a token map among its fields (state.Account = {Nonce, Credits, Balance,
    Tokens, Root, CodeHash}) encodes to the same bytes whatever the order of the map's entries -/
theorem struct_map_order_free (env : Env) (f : Nat) (ts1 ts2 : List Ty) (vs1 vs2 : List Val) (hlen : vs1.length = ts1.length)
    (ks ks' : List Bytes) (vs vs' : List Val) (hl : ks.length = vs.length) (hl' : ks'.length = vs'.length)
    (hp : (ks.zip vs).Perm (ks'.zip vs')) (hd : ks.Nodup) :
    encV env f (.struct (ts1 ++ .map20 :: ts2)) (.list (vs1 ++ .map ks vs :: vs2))
      = encV env f (.struct (ts1 ++ .map20 :: ts2)) (.list (vs1 ++ .map ks' vs' :: vs2)) := by
  cases f with
  | zero => rfl
  | succ f =>
    simp only [encV]
    rw [encSeq_congr_mid (encV env f) .map20 _ _ (map_order_free env f ks ks' vs vs' hl hl' hp hd) ts2 vs2 ts1 vs1 hlen]

/-! non-vacuity: two insertion orders of a two-entry token map, and the bytes they both encode to -/
example : encV {} 5 .map20 (.map [[2], [1]] [.ptr (.big false 7), .ptr (.big false 9)])
        = encV {} 5 .map20 (.map [[1], [2]] [.ptr (.big false 9), .ptr (.big false 7)]) :=
  map_order_free {} 5 _ _ _ _ rfl rfl (List.Perm.swap _ _ _) (by decide)
example : encV {} 5 .map20 (.map [[2], [1]] [.ptr (.big false 7), .ptr (.big false 9)])
        = .ok [0xC5, 0x32, 0x01, 0x09, 0x02, 0x07] := by rfl
/-- distinct keys are needed: with a repeated key the model's sort keeps the presentation order of the duplicates
    (a Go map cannot hold duplicates, so the hypothesis costs nothing on the code side) -/
example : sortKV [([1], .u 1), ([1], .u 2)] ≠ sortKV [([1], .u 2), ([1], .u 1)] := by
  simp [sortKV, insertKV, bytesLt]

end Props.C11
