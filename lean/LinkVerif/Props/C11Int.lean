/-
C11, layer 2: the hex-ASCII integers of libs/ser.  ParseInt(FormatInt(z,16),16,64) = z for every int64 —
the identity behind int/int64 fields, map counts and time.Time.
-/
import LinkVerif.Model.Ser

namespace Props.C11
open Model.Rlp Model.Ser

/-- every digit character is one of 0-9a-f, as a number -/
theorem hexDigitChar_toNat (d : Nat) (h : d < 16) :
    (hexDigitChar d).toNat = if d < 10 then 48 + d else 87 + d := by
  unfold hexDigitChar
  split <;> simp [UInt8.toNat_ofNat] <;> omega

theorem hexVal_hexDigitChar (d : Nat) (h : d < 16) : hexVal? (hexDigitChar d) = some d := by
  have hv := hexDigitChar_toNat d h
  unfold hexVal?
  simp only [UInt8.le_iff_toNat_le]
  have e1 : (48 : UInt8).toNat = 48 := rfl
  have e2 : (57 : UInt8).toNat = 57 := rfl
  have e3 : (97 : UInt8).toNat = 97 := rfl
  have e4 : (102 : UInt8).toNat = 102 := rfl
  simp only [e1, e2, e3, e4, hv]
  by_cases h10 : d < 10
  · have : 48 ≤ 48 + d ∧ 48 + d ≤ 57 := by omega
    simp [h10, this]
  · have h1 : ¬ (48 ≤ 87 + d ∧ 87 + d ≤ 57) := by omega
    have h2 : 97 ≤ 87 + d ∧ 87 + d ≤ 102 := by omega
    simp [h10, h1, h2]

/-- a digit character is neither '+' nor '-' -/
theorem hexDigitChar_not_sign (d : Nat) (h : d < 16) : hexDigitChar d ≠ 43 ∧ hexDigitChar d ≠ 45 := by
  have hv := hexDigitChar_toNat d h
  constructor <;> intro hc <;> rw [hc] at hv <;> (split at hv <;> simp at hv <;> omega)

theorem parseHexDigits_append (xs : Bytes) (c : UInt8) : ∀ (acc : Nat),
    parseHexDigits (xs ++ [c]) acc = (parseHexDigits xs acc).bind (fun a => (hexVal? c).map (fun d => a * 16 + d)) := by
  induction xs with
  | nil =>
    intro acc
    simp only [List.nil_append, parseHexDigits]
    cases hexVal? c <;> simp [parseHexDigits]
  | cons x xs ih =>
    intro acc
    simp only [List.cons_append, parseHexDigits]
    cases hexVal? x with
    | none => simp
    | some d => simp only; exact ih _

theorem parse_hexDigitsF : ∀ (f n : Nat), n < 16 ^ f → parseHexDigits (hexDigitsF f n) 0 = some n
  | 0, n, h => by
    have : n = 0 := by simpa using h
    subst this; rfl
  | f + 1, n, h => by
    unfold hexDigitsF
    split
    · next h0 => subst h0; rfl
    · have hlt : n / 16 < 16 ^ f := by
        rw [Nat.div_lt_iff_lt_mul (by decide)]; rw [Nat.pow_succ] at h; exact h
      rw [parseHexDigits_append, parse_hexDigitsF f (n / 16) hlt, hexVal_hexDigitChar _ (Nat.mod_lt _ (by decide))]
      simp
      omega

theorem hexDigitsF_ne_nil (f n : Nat) (hn : n ≠ 0) : hexDigitsF (f + 1) n ≠ [] := by
  unfold hexDigitsF; simp [hn]

/-- the first character of a rendered number is a digit -/
theorem hexDigitsF_head : ∀ (f n : Nat) (c : UInt8) (r : Bytes), hexDigitsF f n = c :: r → c ≠ 43 ∧ c ≠ 45
  | 0, n, c, r, h => by simp [hexDigitsF] at h
  | f + 1, n, c, r, h => by
    unfold hexDigitsF at h
    split at h
    · cases h
    · cases hx : hexDigitsF f (n / 16) with
      | nil =>
        rw [hx] at h
        simp only [List.nil_append, List.cons.injEq] at h
        rw [← h.1]
        exact hexDigitChar_not_sign _ (Nat.mod_lt _ (by decide))
      | cons a as =>
        rw [hx] at h
        simp only [List.cons_append, List.cons.injEq] at h
        rw [← h.1]
        exact hexDigitsF_head f (n / 16) a as hx

theorem hexNat_spec (n : Nat) : ∃ c r, hexNat n = c :: r ∧ c ≠ 43 ∧ c ≠ 45 ∧ parseHexDigits (c :: r) 0 = some n := by
  unfold hexNat
  split
  · next h0 => subst h0; exact ⟨48, [], rfl, by decide, by decide, by decide⟩
  · next hn =>
    have hp := parse_hexDigitsF n n (Nat.lt_pow_self (by decide))
    cases hx : hexDigitsF n n with
    | nil =>
      obtain ⟨m, rfl⟩ : ∃ m, n = m + 1 := ⟨n - 1, by omega⟩
      exact absurd hx (hexDigitsF_ne_nil m (m + 1) hn)
    | cons c r =>
      obtain ⟨h1, h2⟩ := hexDigitsF_head n n c r hx
      exact ⟨c, r, rfl, h1, h2, by rw [← hx]; exact hp⟩

/-- ParseInt ∘ FormatInt = id on int64 -/
theorem parseInt_formatInt (z : Int) (hlo : -(2 ^ 63 : Int) ≤ z) (hhi : z < 2 ^ 63) : parseInt16 (formatInt16 z) = some z := by
  obtain ⟨c, r, hx, h1, h2, hp⟩ := hexNat_spec z.natAbs
  unfold formatInt16
  by_cases hneg : z < 0
  · simp only [hneg, if_true, hx]
    unfold parseInt16
    simp only [List.isEmpty_cons, Bool.false_eq_true, if_false, hp, if_true]
    have : z.natAbs ≤ 2 ^ 63 := by omega
    simp only [this, if_true]
    congr 1; omega
  · simp only [hneg, if_false, hx]
    unfold parseInt16
    have : z.natAbs < 2 ^ 63 := by omega
    split
    next neg ds heq =>
    split at heq
    · next heq2 => simp only [List.cons.injEq] at heq2; exact absurd heq2.1 h1
    · next heq2 => simp only [List.cons.injEq] at heq2; exact absurd heq2.1 h2
    · simp only [Prod.mk.injEq] at heq
      obtain ⟨hn, hd⟩ := heq
      subst hn; subst hd
      simp only [List.isEmpty_cons, Bool.false_eq_true, if_false, hp, this, if_true]
      congr 1; omega

/-- SetInt does not truncate a value that fits the kind -/
theorem wrapInt_id (bits : Nat) (z : Int) (hb : 1 ≤ bits) (hlo : -(2 ^ (bits - 1) : Int) ≤ z) (hhi : z < 2 ^ (bits - 1)) :
    wrapInt bits z = z := by
  obtain ⟨k, rfl⟩ : ∃ k, bits = k + 1 := ⟨bits - 1, by omega⟩
  simp only [Nat.add_sub_cancel] at hlo hhi
  unfold wrapInt
  simp only
  have hp : (2 : Int) ^ (k + 1) = 2 * 2 ^ k := by rw [Int.pow_succ]; omega
  have hpos : (0 : Int) < 2 ^ k := Int.pow_pos (by decide)
  rw [hp]
  have hdiv : (2 * (2 : Int) ^ k) / 2 = 2 ^ k := by omega
  rw [hdiv]
  by_cases hz : 0 ≤ z
  · have : z % (2 * 2 ^ k) = z := Int.emod_eq_of_lt hz (by omega)
    rw [this]
    have : ¬ (z ≥ 2 ^ k) := by omega
    simp [this]
  · have : z % (2 * 2 ^ k) = z + 2 * 2 ^ k := by
      have := Int.add_mul_emod_self_left z (2 * 2 ^ k) 1
      rw [Int.mul_one] at this
      rw [← this]
      exact Int.emod_eq_of_lt (by omega) (by omega)
    rw [this]
    have : z + 2 * 2 ^ k ≥ 2 ^ k := by omega
    simp [this]

end Props.C11
