import LinkVerif.Model.LedgerX
import LinkVerif.Props.C06Lemmas

/-!
# C06 — token confidential transactions (Model.LedgerX `tokIn`, `tokSpend`)

The token total is measured in BASE units, without any division: `tokenTotalBase = tokenTotal · 10^10 + tokPool · tunit`
(account side kept in 10^10 base units, the pool in hidden units of the TOKEN's own commitment unit `tunit`).
* `tokIn_conserves`: account → token pool conserves it when the debit is exact (`tok10 units · 10^10 = units · tunit`);
* `tokSpend_conserves`: a spend of the unique unspent output with that id whose hidden amount equals the new outputs plus the
  account output, and whose account CREDIT is the hidden units at the TOKEN's unit (`credit · 10^10 = units · tunit`), conserves it;
* `tokSpend_native_unit_inflates`: the statement without the unit condition is FALSE — a withdrawal credited at the NATIVE unit
  from a token whose unit is 1 multiplies the value by 10^10 (kernel-checked): what `checkCommitEqual` prevents by taking the
  unit of account outputs from `tx.TokenID`.
Core Lean only.
-/
namespace Props.C06Tok
open Model.Ledger
open Props.C06 (sum_addAt length_addAt usum usum_append usum_cons usum_nil usum_perm usum_mark markSpent_flatten contrib)

def tokenTotalBase (s : St) (x : XS) : Int := tokenTotal s x * 10000000000 + tokPool x * x.tunit

theorem wsum_eq_usum (ws : List (List Out)) :
    (ws.map (fun outs => ((outs.filter (!·.spent)).map (·.amount)).sum)).sum = usum ws.flatten := by
  induction ws with
  | nil => rfl
  | cons outs ws ih =>
    simp only [List.map_cons, List.sum_cons, List.flatten_cons, usum_append, ih]
    rfl

theorem tokPool_eq (x : XS) : tokPool x = usum x.tw.flatten := wsum_eq_usum x.tw

/-- appending an unspent output to wallet `w` raises the unspent total by its amount -/
theorem usum_modify_append (ws : List (List Out)) (w : Nat) (o : Out) (hw : w < ws.length) (ho : o.spent = false) :
    usum (ws.modify w (· ++ [o])).flatten = usum ws.flatten + o.amount := by
  induction ws generalizing w with
  | nil => simp at hw
  | cons outs ws ih =>
    cases w with
    | zero =>
      simp only [List.modify_zero_cons, List.flatten_cons, usum_append, usum_cons, usum_nil]
      unfold contrib; simp only [ho, Bool.false_eq_true, if_false]; omega
    | succ w =>
      simp only [List.modify_succ_cons, List.flatten_cons, usum_append, ih w (by simpa using hw)]
      omega

theorem addTokOuts_tw_length (x : XS) (outs : List (Nat × Int)) : (addTokOuts x outs).tw.length = x.tw.length := by
  unfold addTokOuts
  induction outs generalizing x with
  | nil => rfl
  | cons o os ih => simp only [List.foldl_cons]; rw [ih]; simp

theorem addTokOuts_frame (x : XS) (outs : List (Nat × Int)) :
    (addTokOuts x outs).xt = x.xt ∧ (addTokOuts x outs).tunit = x.tunit := by
  unfold addTokOuts
  induction outs generalizing x with
  | nil => exact ⟨rfl, rfl⟩
  | cons o os ih => simp only [List.foldl_cons]; exact ih _

/-- creating token outputs raises the pool by the sum of their amounts when every wallet exists -/
theorem tokPool_addTokOuts (x : XS) (outs : List (Nat × Int)) (h : ∀ p ∈ outs, p.1 < x.tw.length) :
    tokPool (addTokOuts x outs) = tokPool x + (outs.map (·.2)).sum := by
  unfold addTokOuts
  induction outs generalizing x with
  | nil => simp
  | cons o os ih =>
    simp only [List.foldl_cons, List.map_cons, List.sum_cons]
    have hw := h o (by simp)
    rw [ih _ (fun p hp => by simp only [List.length_modify]; exact h p (by simp [hp]))]
    rw [tokPool_eq, tokPool_eq]
    simp only []
    rw [usum_modify_append _ _ _ hw rfl]
    simp only []
    omega

/-- account → token pool -/
theorem tokIn_conserves (s : St) (x : XS) (i w : Nat) (units : Int) (hi : i < s.tok.length) (hw : w < x.tw.length)
    (hex : tok10 x units * 10000000000 = units * x.tunit) :
    tokenTotalBase (applyPrim (s, x) (.tokIn i w units)).1 (applyPrim (s, x) (.tokIn i w units)).2 = tokenTotalBase s x := by
  simp only [applyPrim, tokenTotalBase, tokenTotal, tokSupply]
  rw [sum_addAt _ _ _ hi, (addTokOuts_frame x _).1, (addTokOuts_frame x _).2,
    tokPool_addTokOuts x [(w, units)] (by intro p hp; simp only [List.mem_singleton] at hp; rw [hp]; exact hw)]
  simp only [List.map_cons, List.map_nil, List.sum_cons, List.sum_nil]
  have : (tokPool x + (units + 0)) * x.tunit = tokPool x * x.tunit + units * x.tunit := by
    rw [Int.add_zero, Int.add_mul]
  rw [this]
  omega

/-- what an honest spend of a token output satisfies where it executes -/
structure TokHonest (s : St) (x : XS) (oid : Nat) (outs : List (Nat × Int)) (aout : Option (Nat × Int × Int)) : Prop where
  ids : (x.tw.flatten.map (·.id)).Nodup
  outs_lt : ∀ p ∈ outs, p.1 < x.tw.length
  acct_lt : ∀ a ∈ aout, a.1 < s.tok.length
  /-- the amount equation: the hidden units spent = the new outputs + the account output -/
  spend : ∃ o ∈ x.tw.flatten, o.id = oid ∧ o.spent = false ∧
    o.amount = (outs.map (·.2)).sum + (match aout with | some (_, u, _) => u | none => 0)
  /-- the account is credited the hidden units at the TOKEN's unit -/
  unit : ∀ a ∈ aout, a.2.2 * 10000000000 = a.2.1 * x.tunit

theorem tokSpend_conserves (s : St) (x : XS) (oid : Nat) (outs : List (Nat × Int)) (aout : Option (Nat × Int × Int))
    (h : TokHonest s x oid outs aout) :
    tokenTotalBase (applyPrim (s, x) (.tokSpend oid outs aout)).1 (applyPrim (s, x) (.tokSpend oid outs aout)).2 =
      tokenTotalBase s x := by
  obtain ⟨o, ho, hid, hsp, hamt⟩ := h.spend
  have hpool : tokPool (addTokOuts { x with tw := markSpent x.tw oid } outs) = tokPool x - o.amount + (outs.map (·.2)).sum := by
    rw [tokPool_addTokOuts _ _ (by intro p hp; simp only [Props.C06.length_markSpent]; exact h.outs_lt p hp), tokPool_eq, tokPool_eq]
    simp only [markSpent_flatten]
    rw [usum_mark _ oid o h.ids ho hid hsp]
  cases aout with
  | none =>
    simp only [applyPrim, tokenTotalBase, tokenTotal, tokSupply]
    rw [(addTokOuts_frame _ _).1, (addTokOuts_frame _ _).2, hpool]
    simp only [] at hamt ⊢
    have : tokPool x - o.amount + (outs.map (·.2)).sum = tokPool x := by omega
    rw [this]
  | some a =>
    obtain ⟨a, u, c⟩ := a
    have ha := h.acct_lt (a, u, c) rfl
    have hu := h.unit (a, u, c) rfl
    simp only [applyPrim, tokenTotalBase, tokenTotal, tokSupply]
    rw [sum_addAt _ _ _ ha, (addTokOuts_frame _ _).1, (addTokOuts_frame _ _).2, hpool]
    simp only [] at hamt hu ⊢
    have e : tokPool x - o.amount + (outs.map (·.2)).sum = tokPool x - u := by omega
    rw [e, Int.sub_mul]
    omega

/-! ## without the unit condition the statement is false -/

/-- a token whose unit is 1; wallet 0 holds one unspent output of 7 hidden units (= 7 base units) -/
def tk_s : St := { bal := [0], tok := [0], nonce := [0], sbal := [0], stok := [0], snonce := [0] }
def tk_x : XS := { tw := [[{ id := tokBase, amount := 7, spent := false }]], tnext := 1, tunit := 1 }

/-- the withdrawal of the 7 hidden units credited at the NATIVE unit: the account's balance grows by 7 · 10^10 base units -/
theorem tokSpend_native_unit_inflates :
    ¬ (∀ (s : St) (x : XS) (oid : Nat) (outs : List (Nat × Int)) (aout : Option (Nat × Int × Int)),
        (x.tw.flatten.map (·.id)).Nodup → (∀ p ∈ outs, p.1 < x.tw.length) → (∀ a ∈ aout, a.1 < s.tok.length) →
        (∃ o ∈ x.tw.flatten, o.id = oid ∧ o.spent = false ∧
          o.amount = (outs.map (·.2)).sum + (match aout with | some (_, u, _) => u | none => 0)) →
        tokenTotalBase (applyPrim (s, x) (.tokSpend oid outs aout)).1 (applyPrim (s, x) (.tokSpend oid outs aout)).2 =
          tokenTotalBase s x) := by
  intro h
  have := h tk_s tk_x tokBase [] (some (0, 7, 7)) (by decide) (by decide) (by decide) (by decide)
  revert this; decide

/-- non-vacuity: the honest withdrawal (credit 7 base units = 7 · 10^-10 of the printed unit: here the exact case with unit 10^10) -/
def tk_x10 : XS := { tk_x with tunit := 10000000000 }
example : TokHonest tk_s tk_x10 tokBase [(0, 3)] (some (0, 4, 4)) :=
  ⟨by decide, by decide, by decide, ⟨{ id := tokBase, amount := 7, spent := false }, by decide, by decide, by decide, by decide⟩, by decide⟩
example : tokenTotalBase (applyPrim (tk_s, tk_x10) (.tokSpend tokBase [(0, 3)] (some (0, 4, 4)))).1
    (applyPrim (tk_s, tk_x10) (.tokSpend tokBase [(0, 3)] (some (0, 4, 4)))).2 = tokenTotalBase tk_s tk_x10 := by decide
example : tokenTotalBase (applyPrim (tk_s, tk_x10) (.tokIn 0 0 5)).1 (applyPrim (tk_s, tk_x10) (.tokIn 0 0 5)).2 = tokenTotalBase tk_s tk_x10 := by decide

end Props.C06Tok
