/-
C10, iterator family and regenerated facts: what the seek / difference / union iterators deliver, at content level, and the
constants of the code the model and the harness rely on.
-/
import LinkVerif.Model.TrieIter
import LinkVerif.Gen.TrieFacts
import LinkVerif.Props.C10Reload

namespace Props.C10
open Model.Trie

/-! ## seek -/

/-- `NodeIterator(start)` delivers exactly the stored pairs whose path is not below the start key -/
theorem iterFrom_mem (n : Node) (start : Bytes) (kv : List Nib × Bytes) :
    kv ∈ iterFrom n start ↔ kv ∈ toMap n ∧ nibLt kv.1 (seekKey start) = false := by
  simp [iterFrom, List.mem_filter]

/-- … in path order, each once -/
theorem iterFrom_sorted (n : Node) (start : Bytes) : (iterFrom n start).Pairwise (fun a b => pathLt a.1 b.1) :=
  List.Pairwise.filter _ (toMap_sorted n)

theorem nibLt_nil_right : ∀ (a : List Nib), nibLt a [] = false
  | [] => rfl
  | _ :: _ => rfl

/-- the empty start key delivers everything -/
theorem iterFrom_empty_start (n : Node) : iterFrom n [] = toMap n := by
  have : seekKey [] = [] := by decide
  simp [iterFrom, this, nibLt_nil_right]

/-- nothing that is delivered lies before the start, nothing at or after it is skipped (HEX-key form) -/
theorem iterFrom_complete (n : Node) (hn : Pos false n) (start : Bytes) (key : List Nib) (x : Bytes) (hk : KeyAt false key) :
    (key, x) ∈ iterFrom n start ↔ Model.Trie.get n key = some x ∧ nibLt key (seekKey start) = false := by
  rw [iterFrom_mem, toMap_mem_iff n false hn key x hk]

/-! ## difference -/

theorem diffLeaves_mem (a b : Node) (kv : List Nib × Bytes) :
    kv ∈ diffLeaves a b ↔ kv ∈ toMap b ∧ Model.Trie.get a kv.1 ≠ some kv.2 := by
  simp [diffLeaves, List.mem_filter]

/-- the difference iterator delivers exactly the pairs of `b` that `a` does not hold -/
theorem diffLeaves_complete (a b : Node) (hb : Pos false b) (key : List Nib) (x : Bytes) (hk : KeyAt false key) :
    (key, x) ∈ diffLeaves a b ↔ Model.Trie.get b key = some x ∧ Model.Trie.get a key ≠ some x := by
  rw [diffLeaves_mem, toMap_mem_iff b false hb key x hk]

/-- a trie differs from itself nowhere -/
theorem diffLeaves_self (n : Node) (hn : Pos false n) : diffLeaves n n = [] := by
  apply List.eq_nil_iff_forall_not_mem.mpr
  intro kv hkv
  rw [diffLeaves_mem] at hkv
  have hk := toMap_keys n false hn kv hkv.1
  exact hkv.2 ((toMap_mem_iff n false hn kv.1 kv.2 hk).mp hkv.1)

theorem diffLeaves_sorted (a b : Node) : (diffLeaves a b).Pairwise (fun x y => pathLt x.1 y.1) :=
  List.Pairwise.filter _ (toMap_sorted b)

/-! ## union -/

theorem nibLt_tri : ∀ (a b : List Nib), nibLt a b = false → nibLt b a = false → a = b
  | [], [], _, _ => rfl
  | [], _ :: _, h, _ => by simp [nibLt] at h
  | _ :: _, [], _, h => by simp [nibLt] at h
  | x :: a, y :: b, h1, h2 => by
    simp only [nibLt, Bool.or_eq_false_iff, Bool.and_eq_false_iff, decide_eq_false_iff_not, beq_eq_false_iff_ne] at h1 h2
    have hxy : x = y := Fin.ext (by omega)
    subst hxy
    have e1 : nibLt a b = false := by rcases h1.2 with h | h; exact absurd rfl h; exact h
    have e2 : nibLt b a = false := by rcases h2.2 with h | h; exact absurd rfl h; exact h
    rw [nibLt_tri a b e1 e2]

theorem bytesLtB_tri : ∀ (a b : Bytes), bytesLtB a b = false → bytesLtB b a = false → a = b
  | [], [], _, _ => rfl
  | [], _ :: _, h, _ => by simp [bytesLtB] at h
  | _ :: _, [], _, h => by simp [bytesLtB] at h
  | x :: a, y :: b, h1, h2 => by
    simp only [bytesLtB, Bool.or_eq_false_iff, Bool.and_eq_false_iff, decide_eq_false_iff_not, beq_eq_false_iff_ne] at h1 h2
    have hxy : x = y := by
      have a1 := h1.1
      have a2 := h2.1
      rw [UInt8.lt_iff_toNat_lt] at a1 a2
      exact UInt8.toNat_inj.mp (by omega)
    subst hxy
    have e1 : bytesLtB a b = false := by rcases h1.2 with h | h; exact absurd rfl h; exact h
    have e2 : bytesLtB b a = false := by rcases h2.2 with h | h; exact absurd rfl h; exact h
    rw [bytesLtB_tri a b e1 e2]

theorem kvLt_tri (x y : List Nib × Bytes) (h1 : kvLt x y = false) (h2 : kvLt y x = false) : x = y := by
  simp only [kvLt, Bool.or_eq_false_iff, Bool.and_eq_false_iff, beq_eq_false_iff_ne] at h1 h2
  have hk : x.1 = y.1 := nibLt_tri _ _ h1.1 h2.1
  have e1 : bytesLtB x.2 y.2 = false := by rcases h1.2 with h | h; exact absurd hk h; exact h
  have e2 : bytesLtB y.2 x.2 = false := by rcases h2.2 with h | h; exact absurd hk.symm h; exact h
  exact Prod.ext hk (bytesLtB_tri _ _ e1 e2)

theorem mem_mergeKV : ∀ (f : Nat) (xs ys : List (List Nib × Bytes)) (z : List Nib × Bytes),
    xs.length + ys.length ≤ f → (z ∈ mergeKV f xs ys ↔ z ∈ xs ∨ z ∈ ys)
  | 0, xs, ys, z, _ => by simp [mergeKV]
  | f + 1, [], ys, z, _ => by simp [mergeKV]
  | f + 1, x :: xs, [], z, _ => by simp [mergeKV]
  | f + 1, x :: xs, y :: ys, z, h => by
    simp only [mergeKV]
    by_cases h1 : kvLt x y = true
    · simp only [h1, if_true, List.mem_cons]
      rw [mem_mergeKV f xs (y :: ys) z (by simp at h ⊢; omega)]
      simp only [List.mem_cons]; grind
    · by_cases h2 : kvLt y x = true
      · simp only [h1, h2, if_true, List.mem_cons, Bool.false_eq_true, if_false]
        rw [mem_mergeKV f (x :: xs) ys z (by simp at h ⊢; omega)]
        simp only [List.mem_cons]; grind
      · have e : x = y := kvLt_tri x y (by simpa using h1) (by simpa using h2)
        subst e
        simp only [h1, Bool.false_eq_true, if_false, List.mem_cons]
        rw [mem_mergeKV f xs ys z (by simp at h ⊢; omega)]
        grind

/-- the union iterator delivers exactly the pairs of either trie (a pair held by both once: see the merge) -/
theorem unionLeaves_mem (a b : Node) (kv : List Nib × Bytes) :
    kv ∈ unionLeaves a b ↔ kv ∈ toMap a ∨ kv ∈ toMap b :=
  mem_mergeKV _ _ _ kv (Nat.le_refl _)

theorem unionLeaves_complete (a b : Node) (ha : Pos false a) (hb : Pos false b) (key : List Nib) (x : Bytes)
    (hk : KeyAt false key) :
    (key, x) ∈ unionLeaves a b ↔ Model.Trie.get a key = some x ∨ Model.Trie.get b key = some x := by
  rw [unionLeaves_mem, toMap_mem_iff a false ha key x hk, toMap_mem_iff b false hb key x hk]

/-- non-vacuity: two one-leaf tries -/
example : unionLeaves (.short (keybytesToHex [1]) (.value [7])) (.short (keybytesToHex [2]) (.value [9])) =
    [(keybytesToHex [1], [7]), (keybytesToHex [2], [9])] ∧
    diffLeaves (.short (keybytesToHex [1]) (.value [7])) (.short (keybytesToHex [1]) (.value [8])) = [(keybytesToHex [1], [8])] ∧
    iterFrom (.short (keybytesToHex [1]) (.value [7])) [2] = [] := by decide

/-! ## regenerated facts (extract/jobs_c10.go -> Gen.TrieFacts) -/

/-- the model's embedding rule uses the threshold the code has now -/
theorem embed_threshold_matches (H : Bytes → Bytes) (e : Bytes) :
    embed H e = if e.length < Gen.TrieFacts.embedThreshold then e else rlpStr (H e) := rfl

/-- a hash reference is a 32-byte string in the decoder (`H32` of the proof theorems is about this constant) -/
theorem hash_ref_length_matches : Gen.TrieFacts.hashRefLength = 32 ∧ Gen.TrieFacts.embedThreshold = Gen.TrieFacts.hashRefLength := by
  decide

/-- the flush threshold the large-commit stream of the harness is tuned to (to the byte) -/
theorem ideal_batch_size_matches : Gen.TrieFacts.idealBatchSize = 100 * 1024 := by decide

/-- reach: the difference / union iterators and VerifyProof have no call site outside libs/trie (severity of the findings
recorded for them), the preimage lookup and the node iterator are reached from the state dumps -/
theorem iterator_family_reach :
    Gen.TrieFacts.newDifferenceIteratorCallerFiles = [] ∧ Gen.TrieFacts.newUnionIteratorCallerFiles = [] ∧
    Gen.TrieFacts.verifyProofCallerFiles = [] ∧
    "state/dump.go" ∈ Gen.TrieFacts.getKeyCallerFiles ∧ "state/dump.go" ∈ Gen.TrieFacts.nodeIteratorCallerFiles := by
  decide

end Props.C10
