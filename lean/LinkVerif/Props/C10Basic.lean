/-
C10 helper lemmas: terminator keys, `strip`, the normal form `WF`, existence of a stored key.
-/
import LinkVerif.Model.Trie

namespace Props.C10
open Model.Trie

/-- a suffix of a HEX key: the terminator occurs exactly at the last position (`[]` = just past the terminator) -/
def Suf : List Nib → Prop
  | [] => True
  | x :: r => (x = term ↔ r = []) ∧ Suf r

/-- the key of a short node: non-empty, no terminator before the last position, and the last nibble is the
terminator iff the child is a value (`v`) -/
def KeyOK (v : Bool) : List Nib → Prop
  | [] => False
  | [x] => (x = term ↔ v = true)
  | x :: y :: r => x ≠ term ∧ KeyOK v (y :: r)

/-- the normal form kept by `insert`/`delete` (for non-nil nodes): no short under short, no empty short key, every full
node has at least two children, values exactly where the path has just consumed the terminator -/
def WF : Node → Prop
  | .nil => False
  | .value _ => True
  | .short k c => KeyOK c.isValue k ∧ c.isShort = false ∧ WF c
  | .full c => (∀ i, (c i).isNil = true ∨ (WF (c i) ∧ ((c i).isValue = true ↔ i = term))) ∧
               (∃ i j, i ≠ j ∧ (c i).isNil = false ∧ (c j).isNil = false)

/-- keys addressed to a position: `v = true` just past the terminator (only `[]`), else non-empty terminator keys -/
def KeyAt (v : Bool) (key : List Nib) : Prop := Suf key ∧ (key = [] ↔ v = true)

theorem strip_eq_some {k key r : List Nib} : strip k key = some r ↔ key = k ++ r := by
  induction k generalizing key with
  | nil => simp [strip, eq_comm]
  | cons a k ih =>
    cases key with
    | nil => simp [strip]
    | cons b key =>
      simp only [strip]
      split
      · next h => subst h; simp [ih]
      · next h =>
        constructor
        · intro h'; cases h'
        · intro h'; simp at h'; exact absurd h'.1.symm h

theorem strip_append (k r : List Nib) : strip k (k ++ r) = some r := strip_eq_some.mpr rfl

theorem get_short_append (k : List Nib) (c : Node) (r : List Nib) : get (.short k c) (k ++ r) = get c r := by
  simp [Model.Trie.get, strip_append]

theorem get_short_of_strip_none {k key : List Nib} (c : Node) (h : strip k key = none) : get (.short k c) key = none := by
  simp [Model.Trie.get, h]

theorem strip_diverge (p : List Nib) {x y : Nib} (h : x ≠ y) (r1 r2 : List Nib) :
    strip (p ++ x :: r1) (p ++ y :: r2) = none := by
  induction p with
  | nil => simp [strip, h]
  | cons a p ih => simpa [strip] using ih

theorem keyOK_ne_nil {v : Bool} {k : List Nib} (h : KeyOK v k) : k ≠ [] := by
  intro e; subst e; exact h

/-- descending through a short key -/
theorem suf_append {v : Bool} {k key : List Nib} (hk : KeyOK v k) (h : KeyAt v key) : KeyAt false (k ++ key) := by
  induction k with
  | nil => exact absurd hk (by simp [KeyOK])
  | cons x k ih =>
    cases k with
    | nil =>
      refine ⟨⟨?_, h.1⟩, by simp⟩
      simp only [KeyOK] at hk
      show (x = term ↔ key = [])
      rw [hk, ← h.2]
    | cons y r =>
      simp only [KeyOK] at hk
      have := ih hk.2
      refine ⟨⟨?_, this.1⟩, by simp⟩
      simp [hk.1]

theorem suf_of_append {v : Bool} {k key : List Nib} (hk : KeyOK v k) (h : Suf (k ++ key)) : KeyAt v key := by
  induction k with
  | nil => exact absurd hk (by simp [KeyOK])
  | cons x k ih =>
    cases k with
    | nil =>
      simp only [KeyOK] at hk
      simp only [List.cons_append, List.nil_append, Suf] at h
      exact ⟨h.2, by rw [← hk, h.1]⟩
    | cons y r =>
      simp only [KeyOK] at hk
      simp only [List.cons_append, Suf] at h
      exact ih hk.2 h.2

theorem keyOK_unique {v w : Bool} {k : List Nib} (h1 : KeyOK v k) (h2 : KeyOK w k) : v = w := by
  induction k with
  | nil => exact absurd h1 (by simp [KeyOK])
  | cons x k ih =>
    cases k with
    | nil =>
      simp only [KeyOK] at h1 h2
      cases v <;> cases w <;> simp_all
    | cons y r =>
      simp only [KeyOK] at h1 h2
      exact ih h1.2 h2.2

/-- a short key that ends at a value cannot be properly extended -/
theorem keyOK_true_no_ext {w : Bool} {k : List Nib} (y : Nib) (r : List Nib) (h1 : KeyOK true k) : ¬ KeyOK w (k ++ y :: r) := by
  induction k with
  | nil => exact absurd h1 (by simp [KeyOK])
  | cons x k ih =>
    cases k with
    | nil =>
      simp only [KeyOK] at h1
      simp only [List.cons_append, List.nil_append, KeyOK]
      intro h; exact h.1 (by simpa using h1)
    | cons z s =>
      simp only [KeyOK] at h1
      simp only [List.cons_append, KeyOK]
      intro h; exact ih h1.2 h.2

theorem keyAt_cons {i : Nib} {key : List Nib} {v : Bool} (hv : v = true ↔ i = term) (h : KeyAt v key) : KeyAt false (i :: key) := by
  refine ⟨⟨?_, h.1⟩, by simp⟩
  rw [← hv, h.2]

theorem keyAt_of_cons {i : Nib} {key : List Nib} (h : KeyAt false (i :: key)) : KeyAt (decide (i = term)) key := by
  refine ⟨h.1.2, ?_⟩
  rw [← h.1.1]; simp

/-- every normal-form node stores at least one key, addressed to its position -/
theorem exists_key : ∀ (n : Node), WF n → ∃ key, KeyAt n.isValue key ∧ (get n key).isSome
  | .nil, h => absurd h (by simp [WF])
  | .value v, _ => ⟨[], ⟨trivial, by simp [Node.isValue]⟩, by simp [Model.Trie.get]⟩
  | .short k c, h => by
    obtain ⟨hk, _, hc⟩ := h
    obtain ⟨key, hka, hg⟩ := exists_key c hc
    exact ⟨k ++ key, suf_append hk hka, by rw [get_short_append]; exact hg⟩
  | .full c, h => by
    obtain ⟨hall, i, _, _, hi, _⟩ := h
    rcases hall i with h0 | ⟨hw, hv⟩
    · rw [h0] at hi; exact absurd hi (by simp)
    · obtain ⟨key, hka, hg⟩ := exists_key (c i) hw
      exact ⟨i :: key, keyAt_cons hv hka, by simpa [Model.Trie.get] using hg⟩

end Props.C10
