/-
C20 — the precompiled contracts are metered exactly: what `RunPrecompiledContract` charges is `RequiredGas(input)`, a pure
function of the input that the model transcribes (`Model.Evm.Pre`), and a call that cannot pay runs nothing and charges
nothing at this level (the call wrapper then fails the frame: `Props.C20.frame_atomic`).  The Go bodies of the eight
`RequiredGas` methods are pinned by hash (regenerated on every check), the prices and the two exported sets are regenerated.
-/
import LinkVerif.Model.Evm

namespace Props.C20Pre
open Model.Evm.Pre Gen.EvmTable

/-- **charged = required**: a precompile that runs leaves exactly `gas − RequiredGas(input)` -/
theorem pre_charged_exact (gas req left : Nat) (h : runPre gas req = some left) : left + req = gas := by
  unfold runPre at h
  split at h
  · cases h
  · cases h; omega

/-- **out of gas runs nothing**: the contract is not run iff the gas is below the price, and then nothing is deducted -/
theorem pre_oog_iff (gas req : Nat) : runPre gas req = none ↔ gas < req := by
  unfold runPre
  split <;> simp_all

theorem pre_never_gains (gas req left : Nat) (h : runPre gas req = some left) : left ≤ gas := by
  have := pre_charged_exact gas req left h; omega

/-- the word-priced contracts (sha256, ripemd160, identity) cost more for longer input, and at least the base price -/
theorem wordGas_mono (base perWord a b : Nat) (h : a ≤ b) : wordGas base perWord a ≤ wordGas base perWord b := by
  unfold wordGas
  have : (a + 31) / 32 ≤ (b + 31) / 32 := Nat.div_le_div_right (by omega)
  have := Nat.mul_le_mul_right perWord this
  omega

theorem wordGas_ge_base (base perWord len : Nat) : base ≤ wordGas base perWord len := by
  unfold wordGas; omega

/-- modexp's price never exceeds MaxUint64 (the cap `if gas.BitLen() > 64 { return math.MaxUint64 }`), whatever the headers -/
theorem modexpGas_le_cap (input : List UInt8) : modexpGas input ≤ 2 ^ 64 - 1 := by
  unfold modexpGas
  simp only []
  generalize multComplexity _ * _ / _ = g
  unfold capU64
  split <;> omega

/-- a price of MaxUint64 cannot be paid by any uint64 gas below it: such a call runs nothing -/
theorem modexp_cap_unpayable (gas : Nat) (input : List UInt8) (h : modexpGas input = 2 ^ 64 - 1) (hg : gas < 2 ^ 64 - 1) :
    runPre gas (modexpGas input) = none := by
  rw [pre_oog_iff, h]; exact hg

/-- pairing: base + per-point price, monotone in the input length -/
theorem pairing_price (len : Nat) :
    requiredGas "bn256Pairing" (List.replicate len 0) = some (bn256PairingBaseGas + len / 192 * bn256PairingPerPointGas) := by
  simp [requiredGas]

/-! ## regenerated facts -/

/-- evm.go (run, Call, UTXOCall) consults only the Homestead set -/
theorem set_in_use : precompileSetInUse = "PrecompiledContractsHomestead" := by decide

/-- that set is exactly ecrecover, sha256, ripemd160, identity at addresses 1..4: modexp and the bn256 contracts (5..8 of the
    Byzantium set) are NOT reachable from contract code in this tree (the harness drives them through the exported map) -/
theorem homestead_addresses : precompiledContractsHomestead.map (·.1) = [1, 2, 3, 4] := by decide
theorem byzantium_addresses : precompiledContractsByzantium.map (·.1) = [1, 2, 3, 4, 5, 6, 7, 8] := by decide

/-- every contract type of both sets has a transcribed price -/
theorem every_type_priced :
    (precompiledContractsHomestead ++ precompiledContractsByzantium).all (fun p => (requiredGas p.2 []).isSome) = true := by decide

/-- the Go bodies the transcription was made from (a change of any `RequiredGas` breaks these and is reviewed) -/
theorem body_ecrecover : requiredGasBody_ecrecover = "f763715f36860f1fa6dc40815293819764a5119d1554ec2f91430f0bdbdc2492" := by decide
theorem body_sha256 : requiredGasBody_sha256hash = "bfa23f79fbfb33e33e46d005c27e967466bd77189c3041457dae31dbf598d638" := by decide
theorem body_ripemd160 : requiredGasBody_ripemd160hash = "8fa3f121ee5f880f2dac4258d6d6e6c52bd3ec3134a1f0ee7ffd1e87d20678dc" := by decide
theorem body_dataCopy : requiredGasBody_dataCopy = "8cd69b6cd781bf88f68497d751afee78fecc124bbaa9f2b70861c2d3a8212ac5" := by decide
theorem body_bigModExp : requiredGasBody_bigModExp = "30ea6157171174144e9375975dab5cc79d6f5873265a4e8c9bf0180340450840" := by decide
theorem body_bn256Add : requiredGasBody_bn256Add = "1f2fab588c4e6968dd4b4551431159990299c97b2f0f97cf683f8a17eae4b238" := by decide
theorem body_bn256ScalarMul : requiredGasBody_bn256ScalarMul = "9048db10854a1cff1b3207b4bf592d5a282d8cc0e50135312fd029e29c5850e0" := by decide
theorem body_bn256Pairing : requiredGasBody_bn256Pairing = "716ce77f387784199cceae460f2e7c11d50fd48e29494fbf472a8ab3b0efa11e" := by decide

/-! ## non-vacuity -/
example : runPre 3000 ecrecoverGas = some 0 := by decide
example : runPre 2999 ecrecoverGas = none := by decide
example : wordGas sha256BaseGas sha256PerWordGas 33 = 84 := by decide
example : multComplexity 64 = 4096 ∧ multComplexity 65 = 4224 ∧ multComplexity 1025 = 357984 := by decide

end Props.C20Pre
