/-
C10: iteration (`toMap`, the order of iterator.go) enumerates exactly the content, in path order.
-/
import LinkVerif.Props.C10Delete

namespace Props.C10
open Model.Trie

/-- lexicographic order on nibble paths (the terminator 16 is the greatest nibble) -/
def pathLt : List Nib → List Nib → Prop
  | [], [] => False
  | [], _ :: _ => True
  | _ :: _, [] => False
  | a :: as, b :: bs => a < b ∨ (a = b ∧ pathLt as bs)

theorem pathLt_append_left (k : List Nib) {a b : List Nib} (h : pathLt a b) : pathLt (k ++ a) (k ++ b) := by
  induction k with
  | nil => exact h
  | cons x k ih => exact Or.inr ⟨rfl, ih⟩

/-- the enumeration is strictly increasing in path order (for every node, no invariant needed): no key twice -/
theorem toMap_sorted : ∀ (n : Node), (toMap n).Pairwise (fun a b => pathLt a.1 b.1)
  | .nil => by simp [toMap]
  | .value _ => by simp [toMap]
  | .short k c => by
    simp only [toMap, List.pairwise_map]
    exact (toMap_sorted c).imp (pathLt_append_left k)
  | .full c => by
    simp only [toMap, List.pairwise_flatMap, List.pairwise_map]
    refine ⟨fun i _ => (toMap_sorted (c i)).imp (fun h => Or.inr ⟨rfl, h⟩), ?_⟩
    refine (List.pairwise_lt_finRange 17).imp ?_
    intro i j hij x hx y hy
    simp only [List.mem_map] at hx hy
    obtain ⟨x', _, rfl⟩ := hx
    obtain ⟨y', _, rfl⟩ := hy
    exact Or.inl hij

/-- the enumeration contains exactly the stored pairs -/
theorem toMap_mem_iff : ∀ (n : Node) (v : Bool), Pos v n → ∀ (key : List Nib) (x : Bytes), KeyAt v key →
    ((key, x) ∈ toMap n ↔ Model.Trie.get n key = some x)
  | .nil, _, _, key, x, _ => by simp [toMap, Model.Trie.get]
  | .value w, v, hp, key, x, hk => by
    rcases hp with h | ⟨_, hv⟩
    · simp [Node.isNil] at h
    · have hv' : v = true := by rw [← hv]; rfl
      subst hv'
      have e : key = [] := hk.2.mpr rfl
      subst e
      simp [toMap, Model.Trie.get, eq_comm]
  | .short k c, v, hp, key, x, hk => by
    rcases hp with h | ⟨hw, _⟩
    · simp [Node.isNil] at h
    · obtain ⟨hkk, _, hwc⟩ := hw
      rw [get_short_bind]
      simp only [toMap, List.mem_map, Prod.mk.injEq]
      constructor
      · rintro ⟨⟨r, x'⟩, hm, e1, e2⟩
        simp only at e1 e2
        subst e1; subst e2
        have hr : KeyAt c.isValue r := suf_of_append hkk hk.1
        rw [strip_append]
        exact (toMap_mem_iff c c.isValue (Or.inr ⟨hwc, rfl⟩) r x' hr).mp hm
      · intro hg
        cases hst : strip k key with
        | none => rw [hst] at hg; cases hg
        | some r =>
          rw [hst] at hg
          have e := strip_eq_some.mp hst
          have hr : KeyAt c.isValue r := suf_of_append hkk (by rw [← e]; exact hk.1)
          exact ⟨(r, x), (toMap_mem_iff c c.isValue (Or.inr ⟨hwc, rfl⟩) r x hr).mpr hg, e.symm, rfl⟩
  | .full c, v, hp, key, x, hk => by
    cases key with
    | nil =>
      exfalso
      have hv : v = true := hk.2.mp rfl
      rcases hp with h | ⟨_, h⟩
      · simp [Node.isNil] at h
      · rw [hv] at h; simp [Node.isValue] at h
    | cons i r =>
      have hv := false_of_keyAt_cons hk
      subst hv
      rcases hp with h | ⟨hw, _⟩
      · simp [Node.isNil] at h
      · obtain ⟨hall, _⟩ := hw
        have hpos : Pos (decide (i = term)) (c i) := by
          rcases hall i with h0 | ⟨hw', hv'⟩
          · exact Or.inl h0
          · exact Or.inr ⟨hw', isValue_eq_decide hv'⟩
        have ih := toMap_mem_iff (c i) _ hpos r x (keyAt_of_cons hk)
        rw [get_full_cons, ← ih]
        simp only [toMap, List.mem_flatMap, List.mem_map, Prod.mk.injEq, List.cons.injEq]
        constructor
        · rintro ⟨j, _, ⟨r', x'⟩, hm, ⟨e1, e2⟩, e3⟩
          simp only at e2 e3
          subst e1; subst e2; subst e3
          exact hm
        · intro hm
          exact ⟨i, List.mem_finRange i, (r, x), hm, ⟨rfl, rfl⟩, rfl⟩

/-- every enumerated key is addressed to the position (at the root: a HEX key) -/
theorem toMap_keys : ∀ (n : Node) (v : Bool), Pos v n → ∀ kv ∈ toMap n, KeyAt v kv.1
  | .nil, _, _, kv, h => by simp [toMap] at h
  | .value w, v, hp, kv, h => by
    rcases hp with h0 | ⟨_, hv⟩
    · simp [Node.isNil] at h0
    · have hv' : v = true := by rw [← hv]; rfl
      subst hv'
      simp only [toMap, List.mem_singleton] at h
      subst h
      exact ⟨trivial, by simp⟩
  | .short k c, v, hp, kv, h => by
    rcases hp with h0 | ⟨hw, hvn⟩
    · simp [Node.isNil] at h0
    · have hv : v = false := by rw [← hvn]; rfl
      subst hv
      obtain ⟨hkk, _, hwc⟩ := hw
      simp only [toMap, List.mem_map] at h
      obtain ⟨kv', hm, rfl⟩ := h
      exact suf_append hkk (toMap_keys c c.isValue (Or.inr ⟨hwc, rfl⟩) kv' hm)
  | .full c, v, hp, kv, h => by
    rcases hp with h0 | ⟨hw, hvn⟩
    · simp [Node.isNil] at h0
    · have hv : v = false := by rw [← hvn]; rfl
      subst hv
      obtain ⟨hall, _⟩ := hw
      simp only [toMap, List.mem_flatMap, List.mem_map] at h
      obtain ⟨i, _, kv', hm, rfl⟩ := h
      rcases hall i with h0 | ⟨hw', hv'⟩
      · rw [isNil_eq h0] at hm; simp [toMap] at hm
      · exact keyAt_cons hv' (toMap_keys (c i) _ (Or.inr ⟨hw', rfl⟩) kv' hm)

end Props.C10
