/-
C10: the executable decoder inverts the honest node encoder: `decodeNode (enc H s ++ rest) = collapse H s`.
-/
import LinkVerif.Props.C10Compact

namespace Props.C10
open Model.Trie

/-- the hash has 32-byte outputs (what `decodeRef` recognises as a hash reference) -/
def H32 (H : Bytes → Bytes) : Prop := ∀ b, (H b).length = 32

/-- data precondition: every node encoding has a length `putint` can write (< 2^64) and no stored value is empty
(`Update` with an empty value deletes) -/
def Sane (H : Bytes → Bytes) : Node → Prop
  | .nil => True
  | .value v => v ≠ [] ∧ Sz v.length
  | .short k c => Sz (enc H (.short k c)).length ∧ Sane H c
  | .full c => Sz (enc H (.full c)).length ∧ ∀ i, Sane H (c i)

theorem sz_le {a b : Nat} (h : Sz b) (hab : a ≤ b) : Sz a := by unfold Sz at *; omega

/-- what `decodeRef` makes of the reference to child `c` -/
def refOf (H : Bytes → Bytes) (c : Node) : CNode :=
  if (enc H c).length < 32 then collapse H c else .hash (H (enc H c))

theorem rlpList_length (p : Bytes) : (rlpList p).length = (rlpHead 192 p.length).length + p.length := by
  simp [rlpList]

theorem enc_list (H : Bytes → Bytes) : ∀ (c : Node), WF c → c.isValue = false → ∃ p, enc H c = rlpList p
  | .nil, h, _ => absurd h (by simp [WF])
  | .value _, _, h => by simp [Node.isValue] at h
  | .short _ _, _, _ => ⟨_, by simp only [enc]; rfl⟩
  | .full _, _, _ => ⟨_, by simp only [enc]; rfl⟩

theorem sane_sz (H : Bytes → Bytes) : ∀ (c : Node), WF c → c.isValue = false → Sane H c → Sz (enc H c).length
  | .nil, h, _, _ => absurd h (by simp [WF])
  | .value _, _, h, _ => by simp [Node.isValue] at h
  | .short _ _, _, _, hs => hs.1
  | .full _, _, _, hs => hs.1

theorem rlpStr_nil : rlpStr [] = [0x80] := by decide

theorem embed_nil (H : Bytes → Bytes) : embed H (enc H .nil) = rlpStr [] := by
  simp [embed, enc, rlpStr_nil]

theorem refOf_nil (H : Bytes → Bytes) : refOf H .nil = .nil := by
  simp [refOf, enc, collapse]

/-- a child in reference position: empty, or a normal-form short/full node -/
def RefChild (c : Node) : Prop := c = .nil ∨ (WF c ∧ c.isValue = false)

theorem item_embed (H : Bytes → Bytes) (h32 : H32 H) (c : Node) (hc : RefChild c) (hs : Sane H c) :
    Item (embed H (enc H c)) := by
  rcases hc with rfl | ⟨hw, hv⟩
  · rw [embed_nil]; exact item_str (by simp [Sz])
  · obtain ⟨p, hp⟩ := enc_list H c hw hv
    have hsz := sane_sz H c hw hv hs
    unfold embed
    split
    · rw [hp]; exact item_list (sz_le hsz (by rw [hp, rlpList_length]; omega))
    · exact item_str (by rw [h32]; simp [Sz])

theorem decodeRef_embed (H : Bytes → Bytes) (h32 : H32 H) (rec : Bytes → Dec CNode) (c : Node) (hc : RefChild c)
    (hs : Sane H c)
    (hrec : c ≠ .nil → (enc H c).length < 32 → ∀ rest, rec (enc H c ++ rest) = .ok (collapse H c)) (rest : Bytes) :
    decodeRefWith rec (embed H (enc H c) ++ rest) = .ok (refOf H c, rest) := by
  rcases hc with rfl | ⟨hw, hv⟩
  · rw [embed_nil, refOf_nil]
    obtain ⟨k, hk, h⟩ := rsplit_str (b := []) (by simp [Sz]) rest
    unfold decodeRefWith
    rw [h]
    cases k <;> simp_all
  · obtain ⟨p, hp⟩ := enc_list H c hw hv
    have hsz := sane_sz H c hw hv hs
    have hne : c ≠ .nil := by intro e; rw [e] at hw; simp [WF] at hw
    unfold embed refOf
    by_cases hsmall : (enc H c).length < 32
    · simp only [hsmall, if_true]
      unfold decodeRefWith
      have hr := hrec hne hsmall rest
      rw [hp] at hr hsmall ⊢
      rw [rsplit_list (sz_le hsz (by rw [hp, rlpList_length]; omega)) rest]
      have : ¬ ((rlpList p ++ rest).length - rest.length > 32) := by simp; omega
      simp only [dec_ok_bind, this, if_false, hr]
      simp
    · simp only [hsmall, if_false]
      obtain ⟨k, hk, h⟩ := rsplit_str (b := H (enc H c)) (by rw [h32]; simp [Sz]) rest
      unfold decodeRefWith
      rw [h]
      have h32' := h32 (enc H c)
      have hne' : H (enc H c) ≠ [] := by intro e; rw [e] at h32'; simp at h32'
      cases k <;> simp_all

theorem decodeRefs_children (H : Bytes → Bytes) (h32 : H32 H) (rec : Bytes → Dec CNode) :
    ∀ (cs : List Node), (∀ c ∈ cs, RefChild c ∧ Sane H c ∧
        (c ≠ .nil → (enc H c).length < 32 → ∀ rest, rec (enc H c ++ rest) = .ok (collapse H c))) →
      ∀ rest, decodeRefsWith rec cs.length ((cs.map fun c => embed H (enc H c)).flatten ++ rest) =
        .ok (cs.map (refOf H), rest)
  | [], _, rest => by simp [decodeRefsWith]
  | c :: cs, h, rest => by
    obtain ⟨h1, h2, h3⟩ := h c (by simp)
    have ih := decodeRefs_children H h32 rec cs (fun c' hc' => h c' (by simp [hc'])) rest
    simp only [List.map_cons, List.flatten_cons, List.length_cons, decodeRefsWith, List.append_assoc]
    rw [decodeRef_embed H h32 rec c h1 h2 h3]
    simp only [dec_ok_bind, ih, dec_pure]

theorem length_le_flatMap {α : Type} (l : List α) (F : α → Bytes) (i : α) (hi : i ∈ l) :
    (F i).length ≤ (l.flatMap F).length := by
  induction l with
  | nil => cases hi
  | cons a l ih =>
    simp only [List.flatMap_cons, List.length_append]
    rcases List.mem_cons.mp hi with rfl | h
    · omega
    · have := ih h; omega

theorem rlpStr_length_ge (b : Bytes) : b.length ≤ (rlpStr b).length := by
  unfold rlpStr
  split
  · split <;> simp
  · simp

theorem isEmpty_rlpList (p rest : Bytes) : (rlpList p ++ rest).isEmpty = false := by
  have := rlpHead_length_pos 192 p.length
  cases h : rlpList p ++ rest with
  | nil =>
    have h' := congrArg List.length h
    simp only [rlpList, List.length_append, List.length_nil] at h'; omega
  | cons a l => rfl

theorem decodeNode_list (f : Nat) (p rest : Bytes) (hp : Sz p.length) (n : Nat) (hc : countValues p = .ok n) :
    decodeNode (f + 1) (rlpList p ++ rest) =
      (if n == 2 then decodeShortWith (decodeNode f) p
       else if n == 17 then decodeFullWith (decodeNode f) p else .err) := by
  simp only [decodeNode, isEmpty_rlpList, Bool.false_eq_true, if_false, splitList_list hp rest, dec_ok_bind, hc]

theorem decodeShort_value (rec : Bytes → Dec CNode) (k : List Nib) (v : Bytes) (hk : KeyOK true k)
    (hck : Sz (hexToCompact k).length) (hv : Sz v.length) :
    decodeShortWith rec (rlpStr (hexToCompact k) ++ rlpStr v) = .ok (.short k (.value v)) := by
  obtain ⟨h1, h2⟩ := compact_roundtrip hk
  unfold decodeShortWith
  rw [splitString_str hck]
  simp only [dec_ok_bind, h1, h2, if_true]
  have := splitString_str hv []
  rw [List.append_nil] at this
  rw [this]
  rfl

theorem decodeShort_ref (H : Bytes → Bytes) (h32 : H32 H) (rec : Bytes → Dec CNode) (k : List Nib) (c : Node)
    (hk : KeyOK false k) (hck : Sz (hexToCompact k).length) (hc : RefChild c) (hs : Sane H c)
    (hrec : c ≠ .nil → (enc H c).length < 32 → ∀ rest, rec (enc H c ++ rest) = .ok (collapse H c)) :
    decodeShortWith rec (rlpStr (hexToCompact k) ++ embed H (enc H c)) = .ok (.short k (refOf H c)) := by
  obtain ⟨h1, h2⟩ := compact_roundtrip hk
  unfold decodeShortWith
  rw [splitString_str hck]
  simp only [dec_ok_bind, h1, h2, Bool.false_eq_true, if_false]
  have := decodeRef_embed H h32 rec c hc hs hrec []
  rw [List.append_nil] at this
  rw [this]
  rfl

theorem castSucc_ne_term (j : Fin 16) : (j.castSucc : Nib) ≠ term := by
  intro e
  have := congrArg Fin.val e
  simp [term] at this
  omega

theorem full_payload (H : Bytes → Bytes) (c : Nib → Node) :
    (List.finRange 17).flatMap (fun i => if i = term then enc H (c i) else embed H (enc H (c i))) =
      (((List.finRange 16).map (fun j => c j.castSucc)).map (fun n => embed H (enc H n))).flatten ++ enc H (c term) := by
  rw [List.finRange_succ_last, List.flatMap_append, List.flatMap_singleton]
  have hl : (Fin.last 16 : Nib) = term := rfl
  simp only [hl, if_true]
  congr 1 <;> simp [List.flatMap_def, List.map_map, Function.comp_def, castSucc_ne_term]

theorem getD_map_finRange (Y : Nib → CNode) (i : Nib) : ((List.finRange 17).map Y).getD i.val .nil = Y i := by
  simp [List.getD_eq_getElem?_getD]

/-- the collapsed child function of a full node -/
def fullFn (H : Bytes → Bytes) (c : Nib → Node) : Nib → CNode :=
  fun i => if i = term then collapse H (c i) else refOf H (c i)

theorem collapse_full (H : Bytes → Bytes) (c : Nib → Node) : collapse H (.full c) = .full (fullFn H c) := by
  simp only [collapse, fullFn, refOf]
  congr 1
  funext i
  by_cases hi : i = term
  · simp [hi, fullFn]
  · simp [hi, fullFn, refOf]

theorem collapse_short_ref (H : Bytes → Bytes) (k : List Nib) (c : Node) (hv : c.isValue = false) :
    collapse H (.short k c) = .short k (refOf H c) := by
  simp [collapse, refOf, hv]

theorem decodeFull_children (H : Bytes → Bytes) (h32 : H32 H) (rec : Bytes → Dec CNode) (c : Nib → Node)
    (hall : ∀ j : Fin 16, RefChild (c j.castSucc) ∧ Sane H (c j.castSucc) ∧
      (c j.castSucc ≠ .nil → (enc H (c j.castSucc)).length < 32 →
        ∀ rest, rec (enc H (c j.castSucc) ++ rest) = .ok (collapse H (c j.castSucc))))
    (h16 : c term = .nil ∨ ∃ v, c term = .value v ∧ v ≠ [] ∧ Sz v.length) :
    decodeFullWith rec ((List.finRange 17).flatMap
      (fun i => if i = term then enc H (c i) else embed H (enc H (c i)))) = .ok (collapse H (.full c)) := by
  rw [full_payload, collapse_full]
  have hcs := decodeRefs_children H h32 rec ((List.finRange 16).map (fun j => c j.castSucc)) (by
    intro n hn
    simp only [List.mem_map] at hn
    obtain ⟨j, _, rfl⟩ := hn
    exact hall j) (enc H (c term))
  simp only [List.length_map, List.length_finRange] at hcs
  unfold decodeFullWith
  rw [hcs]
  simp only [dec_ok_bind]
  have hget : ∀ (last : CNode), last = collapse H (c term) → ∀ i : Nib,
      (List.map (refOf H) (List.map (fun j => c j.castSucc) (List.finRange 16)) ++ [last]).getD i.val .nil =
        fullFn H c i := by
    intro last hl i
    have : (List.map (refOf H) (List.map (fun j => c j.castSucc) (List.finRange 16)) ++ [last]) =
        (List.finRange 17).map (fullFn H c) := by
      conv => rhs; rw [List.finRange_succ_last]
      rw [List.map_append, List.map_map, List.map_map]
      have hlast : (Fin.last 16 : Nib) = term := rfl
      congr 1 <;> first
        | (apply List.map_congr_left; intro j _; simp [fullFn, castSucc_ne_term j])
        | simp [fullFn, hlast, hl]
    rw [this]; exact getD_map_finRange _ i
  rcases h16 with h0 | ⟨v, hv, hne, hsz⟩
  · rw [h0]
    have hs := splitString_str (b := []) (by simp [Sz]) []
    rw [List.append_nil, rlpStr_nil] at hs
    simp only [enc, hs, dec_ok_bind, dec_pure]
    congr 2
    funext i
    refine hget _ ?_ i
    rw [h0]; simp [collapse]
  · rw [hv]
    have hs := splitString_str hsz []
    rw [List.append_nil] at hs
    simp only [enc, hs, dec_ok_bind, dec_pure]
    have hve : v.isEmpty = false := by cases v <;> simp_all
    simp only [hve, Bool.false_eq_true, if_false]
    congr 2
    funext i
    refine hget _ ?_ i
    rw [hv]; simp [collapse]

theorem lt_of_head {a b f : Nat} (hpos : 0 < a) (h : a + b < f + 1) : b < f := by omega

theorem refChild_of_wf {c : Node} {i : Nib} (h : (c.isNil = true) ∨ (WF c ∧ (c.isValue = true ↔ i = term)))
    (hi : i ≠ term) : RefChild c := by
  rcases h with h0 | ⟨hw, hv⟩
  · exact Or.inl (isNil_eq h0)
  · right
    refine ⟨hw, ?_⟩
    cases hc : c.isValue
    · rfl
    · exact absurd (hv.mp hc) hi

/-- ROUND TRIP: the executable decoder inverts the honest encoder on normal-form short/full nodes
(whatever follows the node in the buffer, with fuel above the encoding length) -/
theorem decode_enc (H : Bytes → Bytes) (h32 : H32 H) : ∀ (s : Node), WF s → s.isValue = false → Sane H s →
    ∀ (fuel : Nat) (rest : Bytes), (enc H s).length < fuel → decodeNode fuel (enc H s ++ rest) = .ok (collapse H s)
  | .nil, hw, _, _, _, _, _ => absurd hw (by simp [WF])
  | .value _, _, hv, _, _, _, _ => by simp [Node.isValue] at hv
  | .short k c, hw, _, hs, fuel, rest, hf => by
    obtain ⟨hkk, hcs, hwc⟩ := hw
    obtain ⟨hsz, hsc⟩ := hs
    cases fuel with
    | zero => omega
    | succ f =>
      have henc : enc H (.short k c) =
          rlpList (rlpStr (hexToCompact k) ++ (if c.isValue then enc H c else embed H (enc H c))) := by
        simp only [enc]
      rw [henc] at hf hsz ⊢
      have hP : Sz (rlpStr (hexToCompact k) ++ (if c.isValue then enc H c else embed H (enc H c))).length :=
        sz_le hsz (by rw [rlpList_length]; omega)
      have hck : Sz (hexToCompact k).length :=
        sz_le hP (by have := rlpStr_length_ge (hexToCompact k); simp only [List.length_append]; omega)
      cases c with
      | nil => exact absurd hwc (by simp [WF])
      | short _ _ => simp [Node.isShort] at hcs
      | value v =>
        simp only [Node.isValue, if_true, enc] at hf hP ⊢
        have hcount : countValues (rlpStr (hexToCompact k) ++ rlpStr v) = .ok 2 := by
          have := countValues_items [rlpStr (hexToCompact k), rlpStr v] (by
            intro it hit
            simp at hit
            rcases hit with rfl | rfl
            · exact item_str hck
            · exact item_str hsc.2)
          simpa using this
        rw [decodeNode_list f _ rest hP 2 hcount]
        simp only [beq_self_eq_true, if_true]
        rw [decodeShort_value _ k v hkk hck hsc.2]
        simp [collapse, Node.isValue]
      | full d =>
        have hcv : (Node.full d).isValue = false := rfl
        simp only [hcv, Bool.false_eq_true, if_false] at hf hP ⊢
        have hrc : RefChild (.full d) := Or.inr ⟨hwc, rfl⟩
        have hcount : countValues (rlpStr (hexToCompact k) ++ embed H (enc H (.full d))) = .ok 2 := by
          have := countValues_items [rlpStr (hexToCompact k), embed H (enc H (.full d))] (by
            intro it hit
            simp at hit
            rcases hit with rfl | rfl
            · exact item_str hck
            · exact item_embed H h32 _ hrc hsc)
          simpa using this
        rw [decodeNode_list f _ rest hP 2 hcount]
        simp only [beq_self_eq_true, if_true]
        rw [decodeShort_ref H h32 _ k (.full d) hkk hck hrc hsc (by
          intro _ hsmall rest'
          apply decode_enc H h32 (.full d) hwc rfl hsc f rest'
          have : embed H (enc H (.full d)) = enc H (.full d) := by simp [embed, hsmall]
          rw [this, rlpList_length] at hf
          simp only [List.length_append] at hf
          have := rlpHead_length_pos 192
            (rlpStr (hexToCompact k) ++ enc H (Node.full d)).length
          simp only [List.length_append] at this
          omega)]
        rw [collapse_short_ref H k (.full d) rfl]
  | .full c, hw, _, hs, fuel, rest, hf => by
    obtain ⟨hall, _⟩ := hw
    obtain ⟨hsz, hsc⟩ := hs
    cases fuel with
    | zero => omega
    | succ f =>
      have henc : enc H (.full c) = rlpList ((List.finRange 17).flatMap
          (fun i => if i = term then enc H (c i) else embed H (enc H (c i)))) := by
        simp only [enc]
      rw [henc] at hf hsz ⊢
      have hP : Sz ((List.finRange 17).flatMap
          (fun i => if i = term then enc H (c i) else embed H (enc H (c i)))).length :=
        sz_le hsz (by rw [rlpList_length]; omega)
      have hchild : ∀ j : Fin 16, RefChild (c j.castSucc) ∧ Sane H (c j.castSucc) ∧
          (c j.castSucc ≠ .nil → (enc H (c j.castSucc)).length < 32 →
            ∀ rest, decodeNode f (enc H (c j.castSucc) ++ rest) = .ok (collapse H (c j.castSucc))) := by
        intro j
        have hrc := refChild_of_wf (hall j.castSucc) (castSucc_ne_term j)
        refine ⟨hrc, hsc _, ?_⟩
        intro hne hsmall rest'
        rcases hrc with h0 | ⟨hwj, hvj⟩
        · exact absurd h0 hne
        · apply decode_enc H h32 (c j.castSucc) hwj hvj (hsc _) f rest'
          have hle := length_le_flatMap (List.finRange 17)
            (fun i => if i = term then enc H (c i) else embed H (enc H (c i))) j.castSucc (List.mem_finRange _)
          have he : embed H (enc H (c j.castSucc)) = enc H (c j.castSucc) := by simp [embed, hsmall]
          simp only [castSucc_ne_term j, if_false] at hle
          rw [he] at hle
          rw [rlpList_length] at hf
          exact Nat.lt_of_le_of_lt hle (lt_of_head (rlpHead_length_pos 192 _) hf)
      have h16 : c term = .nil ∨ ∃ v, c term = .value v ∧ v ≠ [] ∧ Sz v.length := by
        rcases hall term with h0 | ⟨hwt, hvt⟩
        · exact Or.inl (isNil_eq h0)
        · right
          have hv := hvt.mpr rfl
          have hst := hsc term
          cases hct : c term with
          | value v => rw [hct] at hst; exact ⟨v, rfl, hst.1, hst.2⟩
          | nil => rw [hct] at hv; simp [Node.isValue] at hv
          | short _ _ => rw [hct] at hv; simp [Node.isValue] at hv
          | full _ => rw [hct] at hv; simp [Node.isValue] at hv
      have hcount : countValues ((List.finRange 17).flatMap
          (fun i => if i = term then enc H (c i) else embed H (enc H (c i)))) = .ok 17 := by
        rw [full_payload]
        have := countValues_items
          (((List.finRange 16).map (fun j => c j.castSucc)).map (fun n => embed H (enc H n)) ++ [enc H (c term)]) (by
            intro it hit
            simp only [List.mem_append, List.mem_map, List.mem_singleton] at hit
            rcases hit with ⟨n, ⟨j, _, rfl⟩, rfl⟩ | rfl
            · exact item_embed H h32 _ (hchild j).1 (hchild j).2.1
            · rcases h16 with h0 | ⟨v, hv, _, hsz⟩
              · rw [h0]; simp only [enc]; rw [← rlpStr_nil]; exact item_str (by simp [Sz])
              · rw [hv]; simp only [enc]; exact item_str hsz)
        simpa using this
      rw [decodeNode_list f _ rest hP 17 hcount]
      simp only [show ((17 : Nat) == 2) = false from rfl, Bool.false_eq_true, if_false, beq_self_eq_true, if_true]
      exact decodeFull_children H h32 (decodeNode f) c hchild h16

end Props.C10
