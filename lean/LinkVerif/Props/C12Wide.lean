/-
C12 (part 6, coverage round): the API around identity and reassembly that the widened streams drive.
 * every leaf the reflection sweep visits in `types.Header` is classified (regenerated field lists),
 * `Commit.ValidateBasic` accepts only homogeneous precommit sets,
 * a valid `TxProof` pins the transaction hash at its index (from `verify_sound`),
 * the `PartSetReader` never invents, reorders or skips bytes (`readCall_prefix`),
 * the reassembly sites of fast sync, consensus and the block store are the vetted ones (T2),
 * why the part key needs its separator (kernel-checked collision of the separator-free format).
-/
import LinkVerif.Model.BlockApi
import LinkVerif.Props.C12Merkle

namespace Props.C12
open Model.Merkle Model.PartSet Model.BlockId Model.BlockApi

/-! ## the reflection sweep -/

/-- every leaf of `types.Header` (nested `LastBlockID` fields included) is hashed, or vetted parts-only, or
vetted local-only; a new or renamed field makes the expected effect `"??"` and breaks this -/
theorem header_leaves_classified :
    ∀ l ∈ headerLeaves, leafEffect l.1 = "11" ∨ (leafEffect l.1 = "01" ∧ l = ("Recover", [])) ∨ (leafEffect l.1 = "00" ∧ l = ("bloom", [])) := by decide

/-- the sweep visits 21 leaves today: 17 hashed fields (LastBlockID counted through its 3 leaves), Recover, bloom -/
example : headerLeaves.length = 21 ∧ (headerLeaves.filter (fun l => leafEffect l.1 == "11")).length = 19 := by decide

/-! ## Commit.ValidateBasic -/

theorem commitValid_go_ok (h r : Nat) : ∀ (vs : List (Option SVote)), commitValid.go h r vs = "ok" →
    ∀ sv, some sv ∈ vs → sv.isPrecommit = true ∧ sv.height = h ∧ sv.round = r := by
  intro vs
  induction vs with
  | nil => intro _ sv hm; cases hm
  | cons v rest ih =>
    intro hok sv hm
    cases v with
    | none =>
      simp only [commitValid.go] at hok
      rcases List.mem_cons.mp hm with h1 | h1
      · cases h1
      · exact ih hok sv h1
    | some w =>
      simp only [commitValid.go] at hok
      split at hok
      · exact absurd hok (by decide)
      · split at hok
        · exact absurd hok (by decide)
        · split at hok
          · exact absurd hok (by decide)
          · rename_i h1 h2 h3
            rcases List.mem_cons.mp hm with e | e
            · simp only [Option.some.injEq] at e
              subst e
              exact ⟨by simpa using h1, by simpa using h2, by simpa using h3⟩
            · exact ih hok sv e

/-- a commit that `ValidateBasic` accepts is for a block, is not empty, and all its present votes are
precommits of ONE height and ONE round (those of the first present vote) -/
theorem commitValid_ok (zero : Bool) (vs : List (Option SVote)) (h : commitValid zero vs = "ok") :
    zero = false ∧ vs ≠ [] ∧ ∀ sv, some sv ∈ vs → sv.isPrecommit = true ∧ sv.height = commitHeight vs ∧ sv.round = commitRound vs := by
  unfold commitValid at h
  split at h
  · exact absurd h (by decide)
  · rename_i hz
    split at h
    · exact absurd h (by decide)
    · rename_i he
      refine ⟨by simpa using hz, ?_, commitValid_go_ok _ _ vs h⟩
      intro hnil
      rw [hnil] at he
      exact he rfl

example : commitValid false [none, some ⟨true, 4, 0⟩, some ⟨true, 4, 0⟩] = "ok" ∧
    commitValid false [some ⟨true, 4, 0⟩, some ⟨false, 4, 0⟩] = "type" ∧
    commitValid false [some ⟨true, 4, 0⟩, some ⟨true, 5, 0⟩] = "height" ∧
    commitValid false [none, some ⟨true, 4, 1⟩, some ⟨true, 4, 0⟩] = "round" ∧
    commitValid true [some ⟨true, 4, 0⟩] = "nilblock" ∧ commitValid false [] = "noprecommits" ∧
    commitValid false [none, none] = "ok" := by decide

/-! ## TxProof.Validate -/

/-- a proof that `TxProof.Validate(dataHash)` accepts, whose claimed total is the real number of
transactions, pins the transaction hash at the claimed index of the list `dataHash` is the root of.
(For a claimed total different from the real one the statement is outside `verify_sound`; such proofs are
compared with the model only.) -/
theorem txproof_sound (hinj : Inj2 h2K) (txHashes : List Bytes) (index : Int) (leafHash : Bytes) (aunts : List Bytes)
    (h : txProofValid (root h2K txHashes) (root h2K txHashes) index txHashes.length leafHash aunts = "ok") :
    0 ≤ index ∧ txHashes[index.toNat]? = some leafHash := by
  unfold txProofValid at h
  rw [if_neg (by simp)] at h
  split at h
  · exact absurd h (by decide)
  · split at h
    · exact absurd h (by decide)
    · split at h
      · rename_i hv
        exact verify_sound h2K hinj txHashes index leafHash aunts hv
      · exact absurd h (by decide)

/-! ## the reassembly sites (T2) -/

/-- fast sync rebuilds the part set of the downloaded block itself and checks the NEXT block's `LastCommit`
against `BlockID{first.Hash(), firstParts.Header()}`; consensus decodes the proposal block only from a part set
that just became complete; the store keys a part by height AND index with a separator, loads exactly
`PartsHeader.Total` parts and saves only complete sets. -/
theorem reassembly_sites_vetted :
    Gen.BlockId.reassemblySites =
      [("fastsync.firstParts", "firstParts := first.MakePartSet(status.ConsensusParams.BlockPartSizeBytes)"),
       ("fastsync.firstPartsHeader", "firstPartsHeader := firstParts.Header()"),
       ("fastsync.firstID", "firstID := types.BlockID{first.Hash(), firstPartsHeader}"),
       ("fastsync.VerifyCommit", "status.Validators.VerifyCommit(chainID, firstID, first.Height, second.LastCommit)"),
       ("consensus.decodeWhen", "added && cs.ProposalBlockParts.IsComplete()"),
       ("consensus.decodeFrom", "ser.DecodeReader(cs.ProposalBlockParts.GetReader(), &cs.ProposalBlock, int64(cs.status.ConsensusParams.BlockSize.MaxBytes))"),
       ("store.partKey", "fmt.Sprintf(\"BP:%v:%v\", height, partIndex)"),
       ("store.loadBlockLoop", "i < blockMeta.BlockID.PartsHeader.Total"),
       ("store.saveLoop", "i < blockParts.Total()"),
       ("store.saveComplete", "!blockParts.IsComplete()")] := by decide +kernel

/-- decimal rendering, as `%v` of an integer -/
def dec (n : Nat) : List Char := (Nat.toDigits 10 n)

/-- the part key without its separator is NOT injective: (height 1, part 11) and (height 11, part 1) collide;
this is the seeded defect `blockpart-key-no-separator` that the store stream (heights 1..13+, 13+ parts each)
exists for -/
theorem partkey_without_separator_collides : dec 1 ++ dec 11 = dec 11 ++ dec 1 ∧ (1, 11) ≠ (11, 1) := by decide

example : dec 1 ++ [':'] ++ dec 11 ≠ dec 11 ++ [':'] ++ dec 1 := by decide

end Props.C12
