/-
C08, binding at full strength on top of `Props/C08Inj.lean`: with the digest instantiated as `H ∘ rlpList` (what the driver
runs, H = Keccak-256), the theorems need only `Function.Injective H`:
  `hash_binds_fields`   equal Hash() ⇒ equal payload fields and equal signatures, for every modelled kind
  `prefix_binds`        equal PrefixHash() (the RingCT message) ⇒ equal payload fields and equal account signature
  `sender_bound_to_chain`, `v_encodes_chain`   protected signatures are bound to their sign parameter
  `tamper_any_field_changes_sender_or_rejects` any change of signed fields and/or of the sign parameter
-/
import LinkVerif.Props.C08
import LinkVerif.Props.C08Inj

namespace Props.C08
open Model.SigHash Gen.SigFacts

/-! ## well-formed transactions (sizes Go can represent; fields present as frames; wire-encodable signature values) -/

def SigOK (s : Sig) : Prop :=
  0 ≤ s.v ∧ 0 ≤ s.r ∧ 0 ≤ s.s ∧ Small (beBytes s.v.toNat) ∧ Small (beBytes s.r.toNat) ∧ Small (beBytes s.s.toNat) ∧
  Small ([encInt s.v, encInt s.r, encInt s.s].flatten)

/-- the payload fields of a kind, by Go field name (the wire fields that are not the signature) -/
def payloadNames : Kind → List String
  | .tx => txSignFields
  | .tok => tokSignFields
  | .cut => serNames cutMainInfoFields
  | .utxo => utxoSignFields ++ ["RCTSig"]

/-- the names whose item is computed from the signature(s) / the embedded main info -/
def specialNames : List String :=
  ["V", "Sigs.V", "R", "Sigs.R", "S", "Sigs.S", "Signdata", "Sigs", "Signatures", "ContractUpgradeMainInfo"]

structure TxOK (t : TxV) : Prop where
  fields : ∀ n ∈ payloadNames t.kind, Framed (lookupField t n)
  sigs : ∀ s ∈ t.sigs, SigOK s
  one : t.kind ≠ .cut → ∃ s, t.sigs = [s]
  small : Small (hashItems t).flatten
  smallSigs : Small (t.sigs.map (sigItem (serNames signdataFields))).flatten
  smallMain : Small ((serNames cutMainInfoFields).map (lookupField t)).flatten

theorem sigItem_vrs (s : Sig) :
    sigItem (serNames signdataFields) s = rlpList [encInt s.v, encInt s.r, encInt s.s] := by rfl

theorem framed_encInt {v : Int} (h : Small (beBytes v.toNat)) : Framed (encInt v) := framed_rlpStr _ h

theorem itemsOK_vrs {s : Sig} (hs : SigOK s) : ItemsOK [encInt s.v, encInt s.r, encInt s.s] := by
  obtain ⟨_, _, _, sv, sr, ss, sm⟩ := hs
  refine ⟨?_, sm⟩
  intro b hb
  simp only [List.mem_cons, List.not_mem_nil, or_false] at hb
  rcases hb with rfl | rfl | rfl
  · exact framed_encInt sv
  · exact framed_encInt sr
  · exact framed_encInt ss

theorem framed_sigItem {s : Sig} (hs : SigOK s) : Framed (sigItem (serNames signdataFields) s) := by
  rw [sigItem_vrs]; exact framed_rlpList _ hs.2.2.2.2.2.2

theorem sigItem_inj {s s' : Sig} (hs : SigOK s) (hs' : SigOK s')
    (h : sigItem (serNames signdataFields) s = sigItem (serNames signdataFields) s') : s = s' := by
  rw [sigItem_vrs, sigItem_vrs] at h
  have h3 := rlpList_inj (itemsOK_vrs hs) (itemsOK_vrs hs') h
  simp only [List.cons.injEq, and_true] at h3
  obtain ⟨v0, r0, s0, sv, sr, ss, _⟩ := hs
  obtain ⟨v0', r0', s0', sv', sr', ss', _⟩ := hs'
  have hv := encInt_inj v0 v0' sv sv' h3.1
  have hr := encInt_inj r0 r0' sr sr' h3.2.1
  have hs := encInt_inj s0 s0' ss ss' h3.2.2
  cases s; cases s'; simp_all

theorem sigOK_zero : SigOK ⟨0, 0, 0⟩ := by
  refine ⟨by decide, by decide, by decide, ?_, ?_, ?_, ?_⟩ <;> simp [Small, beBytes, Model.Rlp.beBytesF] <;> decide

theorem sigOK_sig0 {t : TxV} (ok : TxOK t) : SigOK (sig0 t) := by
  unfold sig0
  cases h : t.sigs with
  | nil => exact sigOK_zero
  | cons s ss => exact ok.sigs s (by simp [h])

theorem item_plain (t : TxV) {n : String} (h : n ∉ specialNames) : item t n = lookupField t n := by
  simp only [specialNames, List.mem_cons, List.not_mem_nil, or_false, not_or] at h
  simp [item, h]

theorem payload_plain : ∀ k, ∀ n ∈ payloadNames k, n ∉ specialNames := by
  intro k; cases k <;> decide

/-- every item the model hashes is a frame -/
theorem framed_item {t : TxV} (ok : TxOK t) {n : String} (hn : n ∈ payloadNames t.kind ∨ n ∈ specialNames) :
    Framed (item t n) := by
  rcases hn with hn | hn
  · rw [item_plain t (payload_plain _ n hn)]; exact ok.fields n hn
  · have h0 := sigOK_sig0 ok
    simp only [specialNames, List.mem_cons, List.not_mem_nil, or_false] at hn
    rcases hn with rfl | rfl | rfl | rfl | rfl | rfl | rfl | rfl | rfl | rfl
    · exact framed_encInt h0.2.2.2.1
    · exact framed_encInt h0.2.2.2.1
    · exact framed_encInt h0.2.2.2.2.1
    · exact framed_encInt h0.2.2.2.2.1
    · exact framed_encInt h0.2.2.2.2.2.1
    · exact framed_encInt h0.2.2.2.2.2.1
    · exact framed_sigItem h0
    · exact framed_sigItem h0
    · exact framed_rlpList _ ok.smallSigs
    · exact framed_rlpList _ ok.smallMain

/-! ## what the hashes are computed from -/

def hashNames : Kind → List String
  | .tx => serNames txdataFields
  | .tok => tokSignFields ++ ["Signdata"]
  | .cut => serNames cutTxFields
  | .utxo => serNames utxoTxFields

theorem hashItems_eq (t : TxV) : hashItems t = (hashNames t.kind).map (item t) := by
  obtain ⟨k, f, s⟩ := t
  cases k <;> simp [hashItems, hashNames, signItems, signFieldNames]

theorem hashNames_known : ∀ k, ∀ n ∈ hashNames k, n ∈ payloadNames k ∨ n ∈ specialNames := by
  intro k; cases k <;> decide
theorem prefixNames_known : ∀ n ∈ utxoPrefixHashFields, n ∈ payloadNames .utxo ∨ n ∈ specialNames := by decide
theorem signNames_known : ∀ k, ∀ n ∈ signFieldNames k, n ∈ payloadNames k ∨ n ∈ specialNames := by
  intro k; cases k <;> decide

theorem itemsOK_hashItems {t : TxV} (ok : TxOK t) : ItemsOK (hashItems t) := by
  refine ⟨?_, ok.small⟩
  intro b hb
  rw [hashItems_eq] at hb
  obtain ⟨n, hn, rfl⟩ := List.mem_map.1 hb
  exact framed_item ok (hashNames_known _ n hn)

theorem map_inj_on {α β : Type} (f : α → β) : ∀ (xs ys : List α),
    (∀ a ∈ xs, ∀ b ∈ ys, f a = f b → a = b) → xs.map f = ys.map f → xs = ys
  | [], [], _, _ => rfl
  | [], _ :: _, _, h => by simp at h
  | _ :: _, [], _, h => by simp at h
  | x :: xs, y :: ys, hi, h => by
    simp only [List.map_cons, List.cons.injEq] at h
    rw [hi x (by simp) y (by simp) h.1,
      map_inj_on f xs ys (fun a ha b hb => hi a (by simp [ha]) b (by simp [hb])) h.2]

section
variable {δ : Type} (H : Bytes → δ)

/-- equal transaction hashes ⇒ equal items, name by name (only hash injectivity is assumed) -/
theorem hash_binds_items (hH : Function.Injective H) (t t' : TxV) (hk : t'.kind = t.kind) (ok : TxOK t) (ok' : TxOK t')
    (h : H (rlpList (hashItems t')) = H (rlpList (hashItems t))) : ∀ n ∈ hashNames t.kind, item t' n = item t n := by
  have he := rlpList_inj (itemsOK_hashItems ok') (itemsOK_hashItems ok) (hH h)
  rw [hashItems_eq, hashItems_eq, hk] at he
  exact List.map_inj_left.1 he

theorem sigs_of_sig0 {t t' : TxV} (ok : TxOK t) (ok' : TxOK t') (hk : t'.kind = t.kind) (hc : t.kind ≠ .cut)
    (h : sig0 t' = sig0 t) : t'.sigs = t.sigs := by
  obtain ⟨s, hs⟩ := ok.one hc
  obtain ⟨s', hs'⟩ := ok'.one (by rw [hk]; exact hc)
  simp only [sig0, hs, hs', List.headD_cons] at h
  rw [hs, hs', h]

theorem sig0_of_vrs {t t' : TxV} (ok : TxOK t) (ok' : TxOK t')
    (hv : encInt (sig0 t').v = encInt (sig0 t).v) (hr : encInt (sig0 t').r = encInt (sig0 t).r)
    (hs : encInt (sig0 t').s = encInt (sig0 t).s) : sig0 t' = sig0 t := by
  obtain ⟨v0, r0, s0, sv, sr, ss, _⟩ := sigOK_sig0 ok
  obtain ⟨v0', r0', s0', sv', sr', ss', _⟩ := sigOK_sig0 ok'
  have a := encInt_inj v0' v0 sv' sv hv
  have b := encInt_inj r0' r0 sr' sr hr
  have c := encInt_inj s0' s0 ss' ss hs
  cases h1 : sig0 t; cases h2 : sig0 t'; simp_all

/-- **`hash_binds_fields`** (equal Hash() ⇒ equal content), for every modelled kind — Transaction, TokenTransaction,
    ContractUpgradeTx (any number of signatures), UTXOTransaction: every payload field and every signature is determined
    by the transaction hash.  Hypotheses: hash injectivity; sizes Go can represent (`TxOK`). -/
theorem hash_binds_fields (hH : Function.Injective H) (t t' : TxV) (hk : t'.kind = t.kind) (ok : TxOK t) (ok' : TxOK t')
    (h : H (rlpList (hashItems t')) = H (rlpList (hashItems t))) :
    (∀ n ∈ payloadNames t.kind, lookupField t' n = lookupField t n) ∧ t'.sigs = t.sigs := by
  have hi := hash_binds_items H hH t t' hk ok ok' h
  have hp : ∀ n ∈ payloadNames t.kind, n ∈ hashNames t.kind → lookupField t' n = lookupField t n := by
    intro n hn hm
    have := hi n hm
    rwa [item_plain t' (payload_plain _ n hn), item_plain t (payload_plain _ n hn)] at this
  cases hkind : t.kind with
  | tx =>
    rw [hkind] at hi hp
    refine ⟨fun n hn => hp n hn ((by decide : ∀ n ∈ payloadNames .tx, n ∈ hashNames .tx) n hn), ?_⟩
    refine sigs_of_sig0 ok ok' hk (by rw [hkind]; decide) (sig0_of_vrs ok ok' ?_ ?_ ?_)
    · simpa [item] using hi "V" (by decide)
    · simpa [item] using hi "R" (by decide)
    · simpa [item] using hi "S" (by decide)
  | tok =>
    rw [hkind] at hi hp
    refine ⟨fun n hn => hp n hn ((by decide : ∀ n ∈ payloadNames .tok, n ∈ hashNames .tok) n hn), ?_⟩
    refine sigs_of_sig0 ok ok' hk (by rw [hkind]; decide) ?_
    have := hi "Signdata" (by decide)
    simp only [item, String.reduceEq, or_self, ↓reduceIte, or_true, true_or] at this
    exact sigItem_inj (sigOK_sig0 ok') (sigOK_sig0 ok) this
  | utxo =>
    rw [hkind] at hi hp
    refine ⟨fun n hn => hp n hn ((by decide : ∀ n ∈ payloadNames .utxo, n ∈ hashNames .utxo) n hn), ?_⟩
    refine sigs_of_sig0 ok ok' hk (by rw [hkind]; decide) ?_
    have := hi "Sigs" (by decide)
    simp only [item, String.reduceEq, or_self, ↓reduceIte, or_true, true_or] at this
    exact sigItem_inj (sigOK_sig0 ok') (sigOK_sig0 ok) this
  | cut =>
    rw [hkind] at hi hp
    have hm := hi "ContractUpgradeMainInfo" (by decide)
    have hs := hi "Signatures" (by decide)
    simp only [item, String.reduceEq, or_self, ↓reduceIte] at hm hs
    have okm : ∀ u : TxV, TxOK u → u.kind = .cut → ItemsOK ((serNames cutMainInfoFields).map (lookupField u)) := by
      intro u oku hu
      refine ⟨?_, oku.smallMain⟩
      intro b hb
      obtain ⟨n, hn, rfl⟩ := List.mem_map.1 hb
      exact oku.fields n (by rw [hu]; exact hn)
    have hm' := rlpList_inj (okm t' ok' (by rw [hk, hkind])) (okm t ok hkind) hm
    have oks : ∀ u : TxV, TxOK u → ItemsOK (u.sigs.map (sigItem (serNames signdataFields))) := by
      intro u oku
      refine ⟨?_, oku.smallSigs⟩
      intro b hb
      obtain ⟨s, hs, rfl⟩ := List.mem_map.1 hb
      exact framed_sigItem (oku.sigs s hs)
    have hs' := rlpList_inj (oks t' ok') (oks t ok) hs
    exact ⟨fun n hn => List.map_inj_left.1 hm' n hn,
      map_inj_on _ _ _ (fun a ha b hb hab => sigItem_inj (ok'.sigs a ha) (ok.sigs b hb) hab) hs'⟩

/-- **`prefix_binds`**: the RingCT message (UTXOTransaction.PrefixHash) determines inputs, outputs, token, transaction
    keys, fee, extra and the account signature -/
theorem prefix_binds (hH : Function.Injective H) (t t' : TxV) (hk : t.kind = .utxo) (hk' : t'.kind = .utxo)
    (ok : TxOK t) (ok' : TxOK t') (sp : Small (prefixItems t).flatten) (sp' : Small (prefixItems t').flatten)
    (h : H (rlpList (prefixItems t')) = H (rlpList (prefixItems t))) :
    (∀ n ∈ utxoSignFields, lookupField t' n = lookupField t n) ∧ t'.sigs = t.sigs := by
  have okp : ∀ u : TxV, TxOK u → u.kind = .utxo → Small (prefixItems u).flatten → ItemsOK (prefixItems u) := by
    intro u oku hu su
    refine ⟨?_, su⟩
    intro b hb
    obtain ⟨n, hn, rfl⟩ := List.mem_map.1 hb
    exact framed_item oku (by rw [hu]; exact prefixNames_known n hn)
  have he := rlpList_inj (okp t' ok' hk' sp') (okp t ok hk sp) (hH h)
  have hi : ∀ n ∈ utxoPrefixHashFields, item t' n = item t n := List.map_inj_left.1 he
  refine ⟨?_, ?_⟩
  · intro n hn
    have hpn : n ∈ payloadNames .utxo := by simp [payloadNames, hn]
    have := hi n ((by decide : ∀ n ∈ utxoSignFields, n ∈ utxoPrefixHashFields) n hn)
    rwa [item_plain t' (payload_plain _ n hpn), item_plain t (payload_plain _ n hpn)] at this
  · refine sigs_of_sig0 ok ok' (by rw [hk, hk']) (by rw [hk]; decide) (sig0_of_vrs ok ok' ?_ ?_ ?_)
    · simpa [item] using hi "Sigs.V" (by decide)
    · simpa [item] using hi "Sigs.R" (by decide)
    · simpa [item] using hi "Sigs.S" (by decide)

end

/-! ## (b) protected signatures are bound to the chain parameter -/

set_option maxRecDepth 20000 in
/-- the big.Int V arithmetic is outside go2lean's integer subset; the hand model (`isProtectedV`, `deriveSignParam`,
    `plainRecid`, the `V - signParamMul - 8` of both `recover` methods) mirrors exactly this source text, regenerated on
    every check (and is compared with the real functions on a V grid by the `vinfo` / `sender` ops) -/
theorem v_arith_vetted :
    isProtectedVBody = ["if V != nil && V.BitLen() <= 8 { v := V.Uint64() return v != 27 && v != 28 }", "return true"] ∧
    deriveSignParamBody = ["if v == nil { return big.NewInt(0) }",
      "if v.BitLen() <= 64 { v := v.Uint64() if v == 27 || v == 28 { return new(big.Int) } return new(big.Int).SetUint64((v - 35) / 2) }",
      "v = new(big.Int).Sub(v, big.NewInt(35))", "return v.Div(v, big.NewInt(2))"] ∧
    signdataRecoverBody = ["if signParamMul == nil { return recoverPlain(hash, data.R, data.S, data.V, homestead) }",
      "V := new(big.Int).Sub(data.V, signParamMul)", "V.Sub(V, big8)", "return recoverPlain(hash, data.R, data.S, V, homestead)"] ∧
    txdataRecoverBody = signdataRecoverBody ∧
    recoverPlainBody.take 3 = ["if Vb.BitLen() > 8 { return common.EmptyAddress, ErrInvalidSig }", "V := byte(Vb.Uint64() - 27)",
      "if !crypto.ValidateSignatureValues(V, R, S, homestead) { return common.EmptyAddress, ErrInvalidSig }"] := by decide


/-- a V that encodes sign parameter p (`SignatureValues`: 35 + 2p + recid) is protected and derives exactly p -/
theorem derive_encode (p : Nat) (c : Int) (hc : c = 0 ∨ c = 1) :
    deriveSignParam (35 + 2 * p + c) = p ∧ isProtectedV (35 + 2 * p + c) = true := by
  have hp : (0 : Int) ≤ p := Int.natCast_nonneg p
  constructor
  · unfold deriveSignParam
    split
    · rename_i hf
      simp only [fits64, decide_eq_true_eq] at hf
      unfold uint64Of absI Go.wrapU64 at *
      split <;> split at hf <;> omega
    · omega
  · cases hb : isProtectedV (35 + 2 * p + c) with
    | true => rfl
    | false =>
      have := (unprotected_iff _).1 hb
      unfold absI at this
      split at this <;> omega

/-- **full statement, chain clause for PROTECTED signatures**: for all sign parameters p ≠ p', a protected signature that the
    signer of p accepts (for any transaction, with any sender) is rejected by the signer of p' for every transaction -/
def C08_chain_statement : Prop :=
  ∀ {δ α : Type} (D : List Bytes → δ) (rec : δ → Int → Int → Int → Option α) (p p' : Nat) (t t' : TxV) (sg : Sig) (w : Who α),
    p ≠ p' → isProtectedV sg.v = true → signerSender D rec (.eip p) t sg = .ok w →
      signerSender D rec (.eip p') t' sg = .error .param

/-- **`sender_bound_to_chain`**: proved at full strength, no cryptographic hypothesis -/
theorem sender_bound_to_chain : C08_chain_statement :=
  fun D rec p p' t t' sg w hpp hprot h => chain_param_binds D rec p p' t t' sg w hprot h hpp

/-- … and independently of acceptance: ANY signature whose V encodes p is rejected by the signer of every p' ≠ p -/
theorem v_encodes_chain {δ α : Type} (D : List Bytes → δ) (rec : δ → Int → Int → Int → Option α)
    (p p' : Nat) (c : Int) (hc : c = 0 ∨ c = 1) (hpp : p ≠ p') (t : TxV) (r s : Int) :
    signerSender D rec (.eip p') t ⟨35 + 2 * p + c, r, s⟩ = .error .param := by
  obtain ⟨hd, hprot⟩ := derive_encode p c hc
  unfold signerSender
  have : deriveSignParam (35 + 2 * (p : Int) + c) ≠ (p' : Int) := by rw [hd]; exact fun h => hpp (Int.ofNat_inj.1 h)
  simp [hprot, this]

/-- an accepted protected signature does encode its chain: the hypothesis of `v_encodes_chain` is what acceptance gives -/
theorem accepted_encodes_chain {δ α : Type} (D : List Bytes → δ) (rec : δ → Int → Int → Int → Option α)
    (p : Nat) (t : TxV) (sg : Sig) (w : Who α) (hprot : isProtectedV sg.v = true)
    (h : signerSender D rec (.eip p) t sg = .ok w) : ∃ c : Int, (c = 0 ∨ c = 1) ∧ sg.v = 35 + 2 * p + c := by
  have hc := (accepted_canonical D rec (.eip p) t sg w h).2.2.2.2.2
  simp only at hc
  rcases hc with hc | hc
  · rcases hc.2 with h0 | h1
    · exact ⟨0, Or.inl rfl, by omega⟩
    · exact ⟨1, Or.inr rfl, by omega⟩
  · have := (unprotected_iff sg.v).2 hc
    rw [hprot] at this; cases this

/-! ## (c) any tampering with signed fields and/or the chain parameter -/

theorem small_beBytes_zero : Small (beBytes 0) := by simp [Small, beBytes, Model.Rlp.beBytesF]

theorem itemsOK_sigHashItems {t : TxV} (ok : TxOK t) (p : Nat) (hp : Small (beBytes p))
    (sm : Small (sigHashItems (.eip p) t).flatten) : ItemsOK (sigHashItems (.eip p) t) := by
  refine ⟨?_, sm⟩
  intro b hb
  simp only [sigHashItems, signItems, hashSuffix, List.mem_append, List.mem_map, List.mem_cons, List.not_mem_nil,
    or_false] at hb
  rcases hb with ⟨n, hn, rfl⟩ | rfl | rfl | rfl
  · exact framed_item ok (signNames_known _ n hn)
  · exact framed_rlpStr _ hp
  · exact framed_rlpStr _ small_beBytes_zero
  · exact framed_rlpStr _ small_beBytes_zero

/-- **`tamper_any_field_changes_sender_or_rejects`**: the sender recovered from a protected signature under sign parameter
    p cannot be obtained with the same signature after ANY change of the signed fields (one or many at once: some
    signed field's item differs) and/or of the sign parameter.  Hypotheses: hash injectivity (`H`), the ECDSA digest
    law `RecInj`, sizes Go can represent.  (The item encoding's injectivity is proved, `rlpList_inj`.) -/
theorem tamper_any_field_changes_sender_or_rejects {δ α : Type} (H : Bytes → δ) (hH : Function.Injective H)
    (rec : δ → Int → Int → Int → Option α) (hR : RecInj rec)
    (p p' : Nat) (t t' : TxV) (hk : t'.kind = t.kind) (ok : TxOK t) (ok' : TxOK t') (hp : Small (beBytes p))
    (sm : Small (sigHashItems (.eip p) t).flatten) (sm' : Small (sigHashItems (.eip p) t').flatten)
    (sg : Sig) (a : α) (hprot : isProtectedV sg.v = true)
    (h : signerSender (fun xs => H (rlpList xs)) rec (.eip p) t sg = .ok (.addr a))
    (hch : p' ≠ p ∨ ∃ n ∈ signFieldNames t.kind, item t' n ≠ item t n) :
    signerSender (fun xs => H (rlpList xs)) rec (.eip p') t' sg ≠ .ok (.addr a) := by
  by_cases hpp : p' = p
  · subst hpp
    rcases hch with hch | ⟨n, hn, hne⟩
    · exact absurd rfl hch
    · have hitems := sigHashItems_field (.eip p') hk hn hne
      have hd := protected_param _ rec hprot h
      unfold signerSender at h ⊢
      simp only [hprot, Bool.not_true, Bool.false_eq_true, ↓reduceIte, hd, ne_eq, not_true_eq_false] at h ⊢
      refine recoverWith_digest rec hR h (fun hdig => hitems ?_)
      exact rlpList_inj (itemsOK_sigHashItems ok' p' hp sm') (itemsOK_sigHashItems ok p' hp sm) (hH hdig)
  · rw [chain_param_binds _ rec p p' t t' sg _ hprot h (fun e => hpp e.symm)]
    simp

/-! ## non-vacuity -/

def t0s : TxV := { t0 with sigs := [⟨37, 1, 1⟩] }
def t1s : TxV := { t1 with sigs := [⟨37, 1, 1⟩] }

theorem small_of_le {b : Bytes} (h : b.length ≤ 1000) : Small b := by unfold Small; omega

theorem t0s_ok : TxOK t0s where
  fields := by
    intro n hn
    have hn' : n ∈ txSignFields := hn
    simp only [txSignFields, List.mem_cons, List.not_mem_nil, or_false] at hn'
    rcases hn' with rfl | rfl | rfl | rfl | rfl | rfl
    · exact framed_rlpStr (beBytes 7) (small_of_le (by decide))
    · exact framed_rlpStr (beBytes 100000000000) (small_of_le (by decide))
    · exact framed_rlpStr (beBytes 21000) (small_of_le (by decide))
    · exact framed_rlpStr [0xaa] (small_of_le (by decide))
    · exact framed_rlpStr (beBytes 1000) (small_of_le (by decide))
    · exact framed_rlpStr [] (small_of_le (by decide))
  sigs := by
    intro s hs
    have : s = ⟨37, 1, 1⟩ := by simpa [t0s] using hs
    subst this
    exact ⟨by decide, by decide, by decide, small_of_le (by decide), small_of_le (by decide), small_of_le (by decide),
      small_of_le (by decide)⟩
  one := fun _ => ⟨_, rfl⟩
  small := small_of_le (by decide)
  smallSigs := small_of_le (by decide)
  smallMain := small_of_le (by decide)

theorem t1s_ok : TxOK t1s where
  fields := by
    intro n hn
    have hn' : n ∈ txSignFields := hn
    simp only [txSignFields, List.mem_cons, List.not_mem_nil, or_false] at hn'
    rcases hn' with rfl | rfl | rfl | rfl | rfl | rfl
    · exact framed_rlpStr (beBytes 8) (small_of_le (by decide))
    · exact framed_rlpStr (beBytes 100000000000) (small_of_le (by decide))
    · exact framed_rlpStr (beBytes 21000) (small_of_le (by decide))
    · exact framed_rlpStr [0xaa] (small_of_le (by decide))
    · exact framed_rlpStr (beBytes 1000) (small_of_le (by decide))
    · exact framed_rlpStr [] (small_of_le (by decide))
  sigs := by
    intro s hs
    have : s = ⟨37, 1, 1⟩ := by simpa [t1s] using hs
    subst this
    exact ⟨by decide, by decide, by decide, small_of_le (by decide), small_of_le (by decide), small_of_le (by decide),
      small_of_le (by decide)⟩
  one := fun _ => ⟨_, rfl⟩
  small := small_of_le (by decide)
  smallSigs := small_of_le (by decide)
  smallMain := small_of_le (by decide)

/-- the digest "is" the encoded bytes, every (r,s,recid) recovers the holder of the digest: an ideal instance -/
def recB : Bytes → Int → Int → Int → Option Bytes := fun d _ _ _ => some d
theorem recB_inj : RecInj recB := by
  intro d d' r s v a h h'
  simp only [recB, Option.some.injEq] at h h'
  rw [h, h']

/-- the hypotheses of `tamper_any_field_changes_sender_or_rejects` are satisfiable with an accepted protected signature:
    changing the nonce (7 → 8) yields a different sender -/
example : signerSender (fun xs => id (rlpList xs)) recB (.eip 1) t1s ⟨37, 1, 1⟩
    ≠ .ok (.addr (rlpList (sigHashItems (.eip 1) t0s))) :=
  tamper_any_field_changes_sender_or_rejects id (fun _ _ h => h) recB recB_inj 1 1 t0s t1s rfl t0s_ok t1s_ok
    (small_of_le (by decide)) (small_of_le (by decide)) (small_of_le (by decide)) ⟨37, 1, 1⟩ _ (by decide) (by rfl)
    (Or.inr ⟨"AccountNonce", by decide, by decide⟩)

/-- … and `hash_binds_fields` separates the two transactions' hashes -/
example : rlpList (hashItems t1s) ≠ rlpList (hashItems t0s) := by
  intro h
  have := (hash_binds_fields id (fun _ _ h => h) t0s t1s rfl t0s_ok t1s_ok h).1 "AccountNonce" (by decide)
  revert this; decide

example : signerSender (fun xs => id (rlpList xs)) recB (.eip 2) t0s ⟨37, 1, 1⟩ = .error .param :=
  v_encodes_chain _ recB 1 2 0 (Or.inl rfl) (by decide) t0s 1 1

end Props.C08
