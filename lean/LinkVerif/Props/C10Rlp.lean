/-
C10: the `ser` (RLP) framing used by the node encoding decodes back: readKind / Split / CountValues on encoder output.
-/
import LinkVerif.Model.TrieDecode
import LinkVerif.Props.C10Complete

namespace Props.C10
open Model.Trie

@[simp] theorem dec_ok_bind {α β : Type} (a : α) (f : α → Dec β) : (Dec.ok a >>= f) = f a := rfl
@[simp] theorem dec_err_bind {α β : Type} (f : α → Dec β) : ((Dec.err : Dec α) >>= f) = Dec.err := rfl
@[simp] theorem dec_pure {α : Type} (a : α) : (pure a : Dec α) = Dec.ok a := rfl

def beVal (l : Bytes) : Nat := l.foldl (fun acc x => acc * 256 + x.toNat) 0

theorem beVal_append_single (l : Bytes) (x : UInt8) : beVal (l ++ [x]) = beVal l * 256 + x.toNat := by
  simp [beVal, List.foldl_append]

theorem u8_toNat_ofNat {n : Nat} (h : n < 256) : (UInt8.ofNat n).toNat = n := by
  simp [UInt8.toNat_ofNat']; omega

theorem beBytesAux_spec : ∀ (f n : Nat), n < 256 ^ f → 1 ≤ f →
    beVal (beBytesAux f n) = n ∧ (beBytesAux f n).length ≤ f ∧ 0 < (beBytesAux f n).length ∧
      (0 < n → (beBytesAux f n).headD 0 ≠ 0)
  | 0, _, _, h => by omega
  | f + 1, n, hn, _ => by
    simp only [beBytesAux]
    by_cases h : n < 256
    · simp only [h, if_true]
      refine ⟨by simp [beVal, u8_toNat_ofNat h], by simp, by simp, ?_⟩
      intro h0 e
      have := congrArg UInt8.toNat e
      simp [u8_toNat_ofNat h] at this
      omega
    · simp only [h, if_false]
      have hf : 1 ≤ f := by
        cases f with
        | zero => simp at hn; omega
        | succ f => omega
      have hq : n / 256 < 256 ^ f := by
        rw [Nat.pow_succ] at hn
        exact Nat.div_lt_of_lt_mul (by omega)
      obtain ⟨h1, h2, h3, h4⟩ := beBytesAux_spec f (n / 256) hq hf
      refine ⟨?_, by simp; omega, by simp, ?_⟩
      · rw [beVal_append_single, h1, u8_toNat_ofNat (Nat.mod_lt _ (by omega))]; omega
      · intro _
        have : 0 < n / 256 := by omega
        have h5 := h4 this
        cases hb : beBytesAux f (n / 256) with
        | nil => rw [hb] at h3; simp at h3
        | cons a l => rw [hb] at h5; simpa using h5

/-- sizes that `putint` can write -/
def Sz (n : Nat) : Prop := n < 2 ^ 64

theorem beBytes_spec {n : Nat} (hn : Sz n) (h0 : 0 < n) :
    beVal (beBytes n) = n ∧ (beBytes n).length ≤ 8 ∧ 0 < (beBytes n).length ∧ (beBytes n).headD 0 ≠ 0 := by
  have := beBytesAux_spec 8 n (by unfold Sz at hn; omega) (by omega)
  exact ⟨this.1, this.2.1, this.2.2.1, this.2.2.2 h0⟩

theorem readSize_be {n : Nat} (hn : Sz n) (h56 : 56 ≤ n) (rest : Bytes) :
    readSize (beBytes n ++ rest) (beBytes n).length = .ok n := by
  obtain ⟨h1, _, h3, h4⟩ := beBytes_spec hn (by omega)
  unfold readSize
  have hlen : ¬ ((beBytes n).length > (beBytes n ++ rest).length) := by simp
  simp only [hlen, if_false, List.take_left']
  have hv : List.foldl (fun acc x => acc * 256 + x.toNat) 0 (beBytes n) = n := h1
  rw [hv]
  have hh : (beBytes n ++ rest).headD 0 = (beBytes n).headD 0 := by
    cases hb : beBytes n with
    | nil => rw [hb] at h3; simp at h3
    | cons a l => simp
  rw [hh]
  have : ¬ n < 56 := by omega
  have h4' : ¬ (List.head? (beBytes n)).getD 0 = 0 := by
    cases hb : beBytes n with
    | nil => rw [hb] at h3; simp at h3
    | cons a l => rw [hb] at h4; simpa using h4
  simp [this, h4']

theorem rlpHead_length_pos (base n : Nat) : 0 < (rlpHead base n).length := by
  unfold rlpHead; split <;> simp

/-- readKind on a list header written by the encoder -/
theorem readKind_list {n : Nat} (hn : Sz n) (tail : Bytes) (ht : n ≤ tail.length) :
    readKind (rlpHead 192 n ++ tail) = .ok (.list, (rlpHead 192 n).length, n) := by
  unfold rlpHead
  by_cases h : n < 56
  · simp only [h, if_true, List.singleton_append, readKind]
    have hb : (UInt8.ofNat (192 + n)).toNat = 192 + n := u8_toNat_ofNat (by omega)
    simp only [hb]
    have c1 : ¬ (192 + n < 0x80) := by omega
    have c2 : ¬ (192 + n < 0xB8) := by omega
    have c3 : ¬ (192 + n < 0xC0) := by omega
    have c4 : 192 + n < 0xF8 := by omega
    simp only [c1, c2, c3, c4, if_false, if_true]
    have : ¬ (192 + n - 0xC0 > (UInt8.ofNat (192 + n) :: tail).length - 1) := by simp; omega
    simp only [this, if_false]
    simp
  · simp only [h, if_false]
    obtain ⟨_, h2, h3, _⟩ := beBytes_spec hn (by omega)
    simp only [List.cons_append, readKind]
    have hb : (UInt8.ofNat (192 + 55 + (beBytes n).length)).toNat = 192 + 55 + (beBytes n).length :=
      u8_toNat_ofNat (by omega)
    simp only [hb]
    have c1 : ¬ (192 + 55 + (beBytes n).length < 0x80) := by omega
    have c2 : ¬ (192 + 55 + (beBytes n).length < 0xB8) := by omega
    have c3 : ¬ (192 + 55 + (beBytes n).length < 0xC0) := by omega
    have c4 : ¬ (192 + 55 + (beBytes n).length < 0xF8) := by omega
    simp only [c1, c2, c3, c4, if_false]
    have e : 192 + 55 + (beBytes n).length - 0xF7 = (beBytes n).length := by omega
    rw [e, readSize_be hn (by omega) tail]
    simp only [dec_ok_bind, dec_pure]
    have : ¬ (n > (UInt8.ofNat (192 + 55 + (beBytes n).length) :: (beBytes n ++ tail)).length - ((beBytes n).length + 1)) := by
      simp; omega
    simp only [this, if_false]
    simp

/-- readKind on a string header written by the encoder (not the single-byte form) -/
theorem readKind_string {n : Nat} (hn : Sz n) (tail : Bytes) (ht : n ≤ tail.length)
    (h1 : n = 1 → ∀ x l, tail = x :: l → ¬ x.toNat < 128) :
    readKind (rlpHead 128 n ++ tail) = .ok (.string, (rlpHead 128 n).length, n) := by
  unfold rlpHead
  by_cases h : n < 56
  · simp only [h, if_true, List.singleton_append, readKind]
    have hb : (UInt8.ofNat (128 + n)).toNat = 128 + n := u8_toNat_ofNat (by omega)
    simp only [hb]
    have c1 : ¬ (128 + n < 0x80) := by omega
    have c2 : 128 + n < 0xB8 := by omega
    simp only [c1, c2, if_false, if_true]
    have e : 128 + n - 0x80 = n := by omega
    rw [e]
    by_cases hn1 : n = 1
    · cases tail with
      | nil => simp at ht; omega
      | cons x l =>
        have hx := h1 hn1 x l rfl
        subst hn1
        simp [hx]
    · have : (n == 1) = false := by simp [hn1]
      simp only [this, Bool.false_and, Bool.false_eq_true, if_false]
      have : ¬ (n > (UInt8.ofNat (128 + n) :: tail).length - 1) := by simp; omega
      simp only [this, if_false]
      first | rfl | simp
  · simp only [h, if_false]
    obtain ⟨_, h2, h3, _⟩ := beBytes_spec hn (by omega)
    simp only [List.cons_append, readKind]
    have hb : (UInt8.ofNat (128 + 55 + (beBytes n).length)).toNat = 128 + 55 + (beBytes n).length :=
      u8_toNat_ofNat (by omega)
    simp only [hb]
    have c1 : ¬ (128 + 55 + (beBytes n).length < 0x80) := by omega
    have c2 : ¬ (128 + 55 + (beBytes n).length < 0xB8) := by omega
    have c3 : 128 + 55 + (beBytes n).length < 0xC0 := by omega
    simp only [c1, c2, c3, if_false, if_true]
    have e : 128 + 55 + (beBytes n).length - 0xB7 = (beBytes n).length := by omega
    rw [e, readSize_be hn (by omega) tail]
    simp only [dec_ok_bind, dec_pure]
    have : ¬ (n > (UInt8.ofNat (128 + 55 + (beBytes n).length) :: (beBytes n ++ tail)).length - ((beBytes n).length + 1)) := by
      simp; omega
    simp only [this, if_false]
    simp

theorem rsplit_list {p : Bytes} (hp : Sz p.length) (rest : Bytes) :
    rsplit (rlpList p ++ rest) = .ok (.list, p, rest) := by
  unfold rsplit rlpList
  rw [List.append_assoc, readKind_list hp (p ++ rest) (by simp)]
  simp only [dec_ok_bind, dec_pure]
  have e1 : List.drop (rlpHead 192 p.length).length (rlpHead 192 p.length ++ (p ++ rest)) = p ++ rest :=
    List.drop_left' rfl
  have e2 : List.drop ((rlpHead 192 p.length).length + p.length) (rlpHead 192 p.length ++ (p ++ rest)) = rest := by
    rw [← List.append_assoc]; exact List.drop_left' (by simp)
  rw [e1, e2, List.take_left' rfl]

theorem rsplit_str {b : Bytes} (hb : Sz b.length) (rest : Bytes) :
    ∃ k, k ≠ Kind.list ∧ rsplit (rlpStr b ++ rest) = .ok (k, b, rest) := by
  have general : (∀ x, b = [x] → ¬ x.toNat < 128) →
      rsplit (rlpHead 128 b.length ++ b ++ rest) = .ok (.string, b, rest) := by
    intro hx
    unfold rsplit
    rw [List.append_assoc, readKind_string hb (b ++ rest) (by simp) (by
      intro h1 x l e
      cases b with
      | nil => simp at h1
      | cons y b' =>
        have : b' = [] := by simpa using h1
        subst this
        simp at e
        rw [← e.1]; exact hx y rfl)]
    simp only [dec_ok_bind, dec_pure]
    have e1 : List.drop (rlpHead 128 b.length).length (rlpHead 128 b.length ++ (b ++ rest)) = b ++ rest :=
      List.drop_left' rfl
    have e2 : List.drop ((rlpHead 128 b.length).length + b.length) (rlpHead 128 b.length ++ (b ++ rest)) = rest := by
      rw [← List.append_assoc]; exact List.drop_left' (by simp)
    rw [e1, e2, List.take_left' rfl]
  match b, hb, general with
  | [], _, g => exact ⟨.string, by decide, by simpa [rlpStr] using g (by simp)⟩
  | [x], _, g =>
    by_cases hx : x.toNat < 128
    · refine ⟨.byte, by decide, ?_⟩
      simp only [rlpStr, hx, if_true, List.singleton_append]
      unfold rsplit readKind
      have c1 : x.toNat < 0x80 := hx
      simp [c1]
    · refine ⟨.string, by decide, ?_⟩
      simp only [rlpStr, hx, if_false]
      simpa using g (by intro y e; simp at e; rw [← e]; exact hx)
  | x :: y :: l, _, g => exact ⟨.string, by decide, by simpa [rlpStr] using g (by simp)⟩

theorem splitString_str {b : Bytes} (hb : Sz b.length) (rest : Bytes) :
    splitString (rlpStr b ++ rest) = .ok (b, rest) := by
  obtain ⟨k, hk, h⟩ := rsplit_str hb rest
  unfold splitString
  rw [h]
  cases k <;> simp_all

theorem splitList_list {p : Bytes} (hp : Sz p.length) (rest : Bytes) :
    splitList (rlpList p ++ rest) = .ok (p, rest) := by
  unfold splitList
  rw [rsplit_list hp rest]
  simp

/-- a single encoded value, as `CountValues` sees it -/
def Item (it : Bytes) : Prop :=
  0 < it.length ∧ ∃ k ts cs, ts + cs = it.length ∧ ∀ rest, readKind (it ++ rest) = .ok (k, ts, cs)

theorem item_list {p : Bytes} (hp : Sz p.length) : Item (rlpList p) := by
  refine ⟨by unfold rlpList; have := rlpHead_length_pos 192 p.length; simp; omega, .list, (rlpHead 192 p.length).length,
    p.length, by simp [rlpList], ?_⟩
  intro rest
  unfold rlpList
  rw [List.append_assoc]
  exact readKind_list hp (p ++ rest) (by simp)

theorem rsplit_readKind {b c r : Bytes} {k : Kind} (h : rsplit b = .ok (k, c, r)) :
    ∃ ts cs, readKind b = .ok (k, ts, cs) := by
  unfold rsplit at h
  cases hr : readKind b with
  | ok x =>
    obtain ⟨k', ts, cs⟩ := x
    rw [hr] at h
    simp only [dec_ok_bind, dec_pure, Dec.ok.injEq, Prod.mk.injEq] at h
    exact ⟨ts, cs, by rw [h.1]⟩
  | err => rw [hr] at h; cases h
  | panic => rw [hr] at h; cases h

theorem item_str {b : Bytes} (hb : Sz b.length) : Item (rlpStr b) := by
  have general : (∀ x, b = [x] → ¬ x.toNat < 128) → Item (rlpHead 128 b.length ++ b) := by
    intro hx
    refine ⟨by have := rlpHead_length_pos 128 b.length; simp; omega, .string, (rlpHead 128 b.length).length, b.length,
      by simp, ?_⟩
    intro rest
    rw [List.append_assoc]
    exact readKind_string hb (b ++ rest) (by simp) (by
      intro h1 x l e
      cases b with
      | nil => simp at h1
      | cons y b' =>
        have : b' = [] := by simpa using h1
        subst this
        simp at e
        rw [← e.1]; exact hx y rfl)
  match b, hb, general with
  | [], _, g => simpa [rlpStr] using g (by simp)
  | [x], _, g =>
    by_cases hx : x.toNat < 128
    · simp only [rlpStr, hx, if_true]
      refine ⟨by simp, .byte, 0, 1, by simp, ?_⟩
      intro rest
      have c1 : x.toNat < 0x80 := hx
      simp [readKind, c1]
    · simp only [rlpStr, hx, if_false]
      simpa using g (by intro y e; simp at e; rw [← e]; exact hx)
  | x :: y :: l, _, g => simpa [rlpStr] using g (by simp)

theorem countValuesAux_items : ∀ (items : List Bytes), (∀ it ∈ items, Item it) → ∀ (fuel i : Nat),
    items.flatten.length ≤ fuel → countValuesAux fuel items.flatten i = .ok (i + items.length)
  | [], _, fuel, i, _ => by cases fuel <;> simp [countValuesAux]
  | it :: items, h, fuel, i, hf => by
    obtain ⟨hpos, k, ts, cs, hlen, hrk⟩ := h it (by simp)
    cases hit : it with
    | nil => rw [hit] at hpos; simp at hpos
    | cons x l =>
      cases fuel with
      | zero => simp [hit] at hf
      | succ f =>
        have hrk' := hrk items.flatten
        rw [hit] at hrk' hlen
        simp only [List.flatten_cons, List.cons_append, countValuesAux]
        rw [List.cons_append] at hrk'
        rw [hrk']
        simp only [dec_ok_bind]
        have hd : List.drop (ts + cs) (x :: (l ++ items.flatten)) = items.flatten := by
          rw [hlen, ← List.cons_append]; exact List.drop_left' rfl
        rw [hd]
        have := countValuesAux_items items (fun it' h' => h it' (by simp [h'])) f (i + 1) (by
          rw [hit] at hf
          simp only [List.flatten_cons, List.length_append, List.length_cons] at hf; omega)
        rw [this]; simp; omega

theorem countValues_items (items : List Bytes) (h : ∀ it ∈ items, Item it) :
    countValues items.flatten = .ok items.length := by
  unfold countValues
  rw [countValuesAux_items items h _ 0 (Nat.le_refl _)]
  simp

end Props.C10
