/-
C16 — No message from a single peer can halt a node's consensus.

For the partial operations that peer-controlled values reach (`Model.PeerInput`) the handlers as they are NOW never
fault, for ALL integer fields and optional components; the handlers as they were before the `fix:` commits do
(kernel-checked witnesses = the messages the harness found).  The tie to the source is the regenerated guard table
`Gen.C16Facts.guards` (T2): each guard condition must still precede its partial operation; the arbitrary-message
fuzz through the real reactor + state machine is the search engine.
-/
import LinkVerif.Model.PeerInput
import LinkVerif.Gen.C16Facts

namespace Props.C16
open Model.PeerInput

/-! ## AddPart -/

theorem index_ok {α : Type} (xs : List α) (i : Int) (site : String) (h0 : 0 ≤ i) (h1 : i.toNat < xs.length) :
    ∃ x, index xs i site = .ok x := by
  unfold index
  have : ¬ i < 0 := by omega
  simp only [this, if_false]
  have hsome : xs[i.toNat]? = some xs[i.toNat] := List.getElem?_eq_getElem h1
  rw [hsome]
  exact ⟨_, rfl⟩

/-- for EVERY index a peer can put into a block part, `AddPart` answers (accepts or rejects) and never panics -/
theorem addPart_total (ps : PartSet) (hwf : ps.WF) (idx : Int) (proofOk : Bool) :
    ∃ r, addPart ps idx proofOk = .ok r := by
  unfold addPart
  by_cases h : idx < 0 ∨ idx ≥ ps.total
  · simp only [h, if_true]; exact ⟨_, rfl⟩
  · simp only [h, if_false]
    have h0 : 0 ≤ idx := by omega
    have h1 : idx.toNat < ps.parts.length := by
      have := hwf.2; have := hwf.1; omega
    obtain ⟨x, hx⟩ := index_ok ps.parts idx "types.(*PartSet).AddPart" h0 h1
    simp only [hx, bind, Except.bind]
    cases x with
    | some _ => exact ⟨_, rfl⟩
    | none => cases proofOk <;> exact ⟨_, rfl⟩

/-- an out-of-range index is rejected -/
theorem addPart_rejects_out_of_range (ps : PartSet) (idx : Int) (proofOk : Bool) (h : idx < 0 ∨ idx ≥ ps.total) :
    addPart ps idx proofOk = .ok (.rejected "ErrPartSetUnexpectedIndex") := by
  unfold addPart; simp only [h, if_true]

/-- what the pinned tree did: index −1 while a proposal is set panics inside receiveRoutine -/
theorem addPart_unguarded_counterexample :
    addPartUnguarded { total := 2, parts := [none, none] } (-1) false
      = .error (.panic "types.(*PartSet).AddPart") := by decide

/-! ## Proposal part-set total -/

theorem makeSlice_ok (n : Int) (sz bound : Nat) (site : String) (h0 : 0 ≤ n) (h1 : n ≤ 2 ^ 47)
    (h2 : n.toNat * sz ≤ bound) : makeSlice n sz bound site = .ok n.toNat := by
  unfold makeSlice
  have : ¬ (n < 0 ∨ n > 2 ^ 47) := by omega
  simp only [this, if_false]
  have : ¬ n.toNat * sz > bound := by omega
  simp only [this, if_false]

/-- for EVERY total and signature outcome the repaired `defaultSetProposal` neither panics nor asks for more than
`8·maxParts + 8·(maxParts/64+1)` bytes: with `maxParts ≤ 2^24` well below any sensible bound -/
theorem setProposal_total (total maxParts : Int) (sigOk : Bool) (bound : Nat)
    (hm : maxParts ≤ 2 ^ 24) (hb : 2 ^ 27 ≤ bound) :
    ∃ r, setProposal total maxParts sigOk bound = .ok r := by
  unfold setProposal
  by_cases h : total ≤ 0 ∨ total > maxParts
  · simp only [h, if_true]; exact ⟨_, rfl⟩
  · simp only [h, if_false]
    cases sigOk with
    | false => exact ⟨_, rfl⟩
    | true =>
      simp only [Bool.not_true, Bool.false_eq_true, if_false]
      have h1 : makeSlice total 8 bound "types.NewPartSetFromHeader" = .ok total.toNat :=
        makeSlice_ok total 8 bound _ (by omega) (by omega) (by omega)
      have h2 : makeSlice ((total + 63) / 64) 8 bound "common.NewBitArray" = .ok ((total + 63) / 64).toNat :=
        makeSlice_ok _ 8 bound _ (by omega) (by omega) (by omega)
      unfold newPartSetFromHeader
      simp only [h1, h2, bind, Except.bind]
      exact ⟨_, rfl⟩

/-- before the repair: a negative total from the round's proposer panics, a huge one is an out-of-memory -/
theorem setProposal_unguarded_counterexample :
    setProposalUnguarded (-1) true (2 ^ 30) = .error (.panic "types.NewPartSetFromHeader") ∧
    setProposalUnguarded (2 ^ 33) true (2 ^ 30) = .error (.oom (2 ^ 36)) := by decide

/-! ## Decoded proposal block with nil components; fault-validator evidence next to an empty commit -/

theorem blockComplete_total (b : DecodedBlock) (r : Nat) : ∃ x, blockComplete b r = .ok x := by
  unfold blockComplete
  cases b.header <;> cases b.data <;> cases b.lastCommit <;> simp <;> split <;> exact ⟨_, rfl⟩

theorem blockComplete_unguarded_counterexample :
    blockCompleteUnguarded { header := none, data := false, lastCommit := false } 0
      = .error (.panic "consensus.(*ConsensusState).addProposalBlockPart") := by decide

theorem faultEvidence_total (fp : Option Int) (r : Int) : ∃ x, faultEvidence fp r = .ok x := by
  unfold faultEvidence
  cases fp with
  | none => exact ⟨_, rfl⟩
  | some v => simp only []; split <;> exact ⟨_, rfl⟩

theorem faultEvidence_unguarded_counterexample :
    faultEvidenceUnguarded none 0 = .error (.panic "consensus.(*ConsensusState).checkFaultValEvidence") := by decide

theorem stragglerPrecommit_total (b : Bool) : ∃ x, stragglerPrecommit b = .ok x := by
  cases b <;> exact ⟨_, rfl⟩

theorem stragglerPrecommit_unguarded_counterexample :
    stragglerPrecommitUnguarded false = .error (.panic "types.(*VoteSet).AddVote") := by decide

theorem faultEvidenceKeys_total (r : Int) (p f : Bool) : ∃ x, faultEvidenceKeys r p f = .ok x := by
  unfold faultEvidenceKeys; split <;> exact ⟨_, rfl⟩

theorem faultEvidenceKeys_unguarded_counterexample :
    faultEvidenceKeysUnguarded 0 true true = .error (.panic "consensus.(*ConsensusState).checkFaultValEvidence") ∧
    faultEvidenceKeysUnguarded 1 false true = .error (.panic "consensus.(*ConsensusState).checkFaultValEvidence") := by decide

/-- C16 for the modelled partial operations, all at once -/
theorem C16_modelled_handlers_total :
    (∀ ps idx ok, PartSet.WF ps → ∃ r, addPart ps idx ok = .ok r) ∧
    (∀ total maxParts sig bound, maxParts ≤ 2 ^ 24 → 2 ^ 27 ≤ bound → ∃ r, setProposal total maxParts sig bound = .ok r) ∧
    (∀ b r, ∃ x, blockComplete b r = .ok x) ∧ (∀ fp r, ∃ x, faultEvidence fp r = .ok x) :=
  ⟨fun ps idx ok h => addPart_total ps h idx ok, fun t m s b hm hb => setProposal_total t m s b hm hb,
   blockComplete_total, faultEvidence_total⟩

/-! ## The tie (T2): every guard the theorems rely on still precedes its partial operation in the source -/

open Gen.C16Facts in
theorem guards_in_place : ∀ g ∈ guards, g.opFound = true ∧ g.have_ = g.want := by decide

open Gen.C16Facts in
theorem guards_vetted :
    guards.map (·.name) = ["addPartIndexLower", "addPartIndexUpper", "proposalTotalStateMachine", "proposalTotalReactor",
      "blockComponentsNil", "faultEvidenceEmptyCommitState", "faultEvidenceNilKeysState", "faultEvidenceNilKeysValidation",
      "lastCommitNilFirstHeight", "faultEvidenceEmptyCommitValidation"] := by decide

/-! ## Non-vacuity -/
example : ({ total := 2, parts := [none, some 7] } : PartSet).WF := by unfold PartSet.WF; decide
example : addPart { total := 2, parts := [none, some 7] } 0 true = .ok .accepted := by decide
example : addPart { total := 2, parts := [none, some 7] } 1 true = .ok (.rejected "duplicate") := by decide
example : setProposal 3 673 true (2 ^ 30) = .ok .accepted := by decide

/-- T2, lock discipline: which exported methods of the vote and part containers take the receiver's mutex first.  The
reactor's gossip goroutines read these containers while the state machine writes them; an unlocked map read concurrent with
a write is a fatal runtime error (`concurrent map read and map write`) that no `recover` catches — a remote peer can provoke the
reads at will.  The unlocked ones are getters of fields that never change after construction (and `String`, which
delegates).  Any change of this table (a lock dropped, a new unlocked method) breaks the `decide` and has to be reviewed. -/
theorem lock_discipline_fact : Gen.C16Facts.lockFacts =
    [("VoteSet.ChainID", false),
     ("VoteSet.Height", false),
     ("VoteSet.Round", false),
     ("VoteSet.Type", false),
     ("VoteSet.Size", false),
     ("VoteSet.AddVote", true),
     ("VoteSet.SetPeerMaj23", true),
     ("VoteSet.BitArray", true),
     ("VoteSet.BitArrayByBlockID", true),
     ("VoteSet.GetByIndex", true),
     ("VoteSet.GetByAddress", true),
     ("VoteSet.HasTwoThirdsMajority", true),
     ("VoteSet.IsCommit", true),
     ("VoteSet.HasTwoThirdsAny", true),
     ("VoteSet.HasAll", true),
     ("VoteSet.TwoThirdsMajority", true),
     ("VoteSet.String", false),
     ("VoteSet.StringIndented", true),
     ("VoteSet.MarshalJSON", true),
     ("VoteSet.BitArrayString", true),
     ("VoteSet.VoteStrings", true),
     ("VoteSet.StringShort", true),
     ("VoteSet.MakeCommit", true),
     ("HeightVoteSet.Reset", true),
     ("HeightVoteSet.Height", true),
     ("HeightVoteSet.Round", true),
     ("HeightVoteSet.SetRound", true),
     ("HeightVoteSet.AddVote", true),
     ("HeightVoteSet.Prevotes", true),
     ("HeightVoteSet.Precommits", true),
     ("HeightVoteSet.POLInfo", true),
     ("HeightVoteSet.SetPeerMaj23", true),
     ("HeightVoteSet.String", false),
     ("HeightVoteSet.StringIndented", true),
     ("HeightVoteSet.MarshalJSON", true),
     ("PartSet.Header", false),
     ("PartSet.HasHeader", false),
     ("PartSet.BitArray", true),
     ("PartSet.Hash", false),
     ("PartSet.HashesTo", false),
     ("PartSet.Count", false),
     ("PartSet.Total", false),
     ("PartSet.AddPart", true),
     ("PartSet.GetPart", true),
     ("PartSet.IsComplete", false),
     ("PartSet.GetReader", false),
     ("PartSet.StringShort", true),
     ("PartSet.MarshalJSON", true)] := by decide

/-- every method that reads or writes the vote maps locks -/
theorem vote_map_methods_lock :
    ∀ m ∈ ["VoteSet.AddVote", "VoteSet.SetPeerMaj23", "VoteSet.BitArray", "VoteSet.BitArrayByBlockID", "VoteSet.GetByIndex",
           "VoteSet.GetByAddress", "VoteSet.HasTwoThirdsMajority", "VoteSet.IsCommit", "VoteSet.HasTwoThirdsAny", "VoteSet.HasAll",
           "VoteSet.TwoThirdsMajority", "VoteSet.MakeCommit", "HeightVoteSet.AddVote", "HeightVoteSet.Prevotes",
           "HeightVoteSet.Precommits", "HeightVoteSet.POLInfo", "HeightVoteSet.SetPeerMaj23", "HeightVoteSet.SetRound",
           "PartSet.AddPart", "PartSet.GetPart", "PartSet.BitArray"], (m, true) ∈ Gen.C16Facts.lockFacts := by decide

end Props.C16
