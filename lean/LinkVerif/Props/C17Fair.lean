/-
C17, clause "over time each validator proposes in proportion to its voting power".

Part 1 is about the rotation rule itself on unbounded integers: add every validator's power to its priority, elect a
maximal one, subtract the total from the elected.  Part 2 shows that `IncrementAccum(1)` of the model (with the clip
arithmetic translated from the source) IS that rule as long as nothing saturates, and that nothing saturates when
(number of validators + 1) · total power fits an int64 — so the proportionality bound holds for the code's own
arithmetic on every such validator set, for every number of steps.
-/
import LinkVerif.Model.ValSet
import LinkVerif.Props.C17Clip
import LinkVerif.Props.C17
import Mathlib.Tactic.Ring
import Mathlib.Tactic.Linarith

namespace Props.C17Fair
open Model.ValSet Go Gen.ValSetArith

/-! ## Part 1: the rule -/

/-- one validator's share of a step in which the validator with address `m` is elected -/
def stepV (m : Nat) (T : Int) (v : Val) : Val :=
  { v with accum := v.accum + v.power - (if v.addr = m then T else 0) }

/-- its evolution along a list of elected addresses -/
def evolve (T : Int) (cs : List Nat) (v : Val) : Val := cs.foldl (fun v m => stepV m T v) v

theorem evolve_addr (T : Int) (cs : List Nat) (v : Val) : (evolve T cs v).addr = v.addr ∧ (evolve T cs v).power = v.power := by
  induction cs generalizing v with
  | nil => exact ⟨rfl, rfl⟩
  | cons m cs ih =>
    simp only [evolve, List.foldl_cons] at *
    have := ih (stepV m T v)
    simpa [stepV] using this

/-- bookkeeping: priority after n steps = initial + n·power − total·(number of times elected) -/
theorem evolve_accum (T : Int) (cs : List Nat) (v : Val) :
    (evolve T cs v).accum = v.accum + cs.length * v.power - T * (cs.count v.addr) := by
  induction cs generalizing v with
  | nil => simp [evolve]
  | cons m cs ih =>
    simp only [evolve, List.foldl_cons] at *
    rw [ih (stepV m T v)]
    simp only [stepV, List.length_cons, List.count_cons]
    by_cases h : v.addr = m
    · subst h
      simp only [if_true, beq_self_eq_true]
      push_cast; ring
    · have h2 : (m == v.addr) = false := by simp; exact fun e => h e.symm
      simp only [h, if_false, h2, Bool.false_eq_true]
      push_cast; ring

def accSum (vals : List Val) : Int := (vals.map (·.accum)).sum
def powSum (vals : List Val) : Int := (vals.map (·.power)).sum

/-- `m` is a maximal-priority validator of `vals` after the powers were added -/
def Elects (vals : List Val) (m : Val) : Prop :=
  m ∈ vals ∧ ∀ v ∈ vals, v.accum + v.power ≤ m.accum + m.power

theorem accSum_step (vals : List Val) (m : Nat) (T : Int) :
    accSum (vals.map (stepV m T)) = accSum vals + powSum vals - T * ((vals.map (·.addr)).count m) := by
  induction vals with
  | nil => simp [accSum, powSum]
  | cons v vs ih =>
    simp only [accSum, powSum, List.map_cons, List.sum_cons, List.count_cons] at *
    rw [ih]
    by_cases h : v.addr = m
    · subst h
      simp only [stepV, if_true, beq_self_eq_true]
      push_cast; ring
    · have h2 : (v.addr == m) = false := by simp [h]
      simp only [stepV, h, if_false, h2, Bool.false_eq_true]
      push_cast; ring

theorem count_one_of_nodup {l : List Nat} (hn : l.Nodup) {a : Nat} (h : a ∈ l) : l.count a = 1 := by
  have h1 := (List.nodup_iff_count.mp hn) a
  have h2 := List.count_pos_iff.mpr h
  omega

/-- lower bound used below: a list whose elements are all ≥ c sums to at least len·c -/
theorem sum_ge (xs : List Int) (c : Int) (h : ∀ x ∈ xs, c ≤ x) : xs.length * c ≤ xs.sum := by
  induction xs with
  | nil => simp
  | cons x xs ih =>
    simp only [List.length_cons, List.sum_cons]
    have h1 := h x List.mem_cons_self
    have h2 := ih (fun y hy => h y (List.mem_cons_of_mem _ hy))
    push_cast; linarith

theorem sum_le (xs : List Int) (c : Int) (h : ∀ x ∈ xs, x ≤ c) : xs.sum ≤ xs.length * c := by
  induction xs with
  | nil => simp
  | cons x xs ih =>
    simp only [List.length_cons, List.sum_cons]
    have h1 := h x List.mem_cons_self
    have h2 := ih (fun y hy => h y (List.mem_cons_of_mem _ hy))
    push_cast; linarith

/-- one element against the rest: x ∈ xs, everything ≥ c  ⇒  x ≤ sum − (len−1)·c -/
theorem elem_le_of_sum (xs : List Int) (c : Int) (h : ∀ x ∈ xs, c ≤ x) {x : Int} (hx : x ∈ xs) :
    x + (xs.length - 1 : Int) * c ≤ xs.sum := by
  induction xs with
  | nil => cases hx
  | cons y ys ih =>
    simp only [List.length_cons, List.sum_cons]
    have hy := h y List.mem_cons_self
    have hrest := sum_ge ys c (fun z hz => h z (List.mem_cons_of_mem _ hz))
    rcases List.mem_cons.mp hx with rfl | hx'
    · push_cast; linarith
    · have := ih (fun z hz => h z (List.mem_cons_of_mem _ hz)) hx'
      push_cast; linarith

theorem addr_inj {l : List Val} (hn : (l.map (·.addr)).Nodup) {a b : Val}
    (ha : a ∈ l) (hb : b ∈ l) (hab : a.addr = b.addr) : a = b := by
  induction l with
  | nil => cases ha
  | cons x xs ih =>
    simp only [List.map_cons, List.nodup_cons] at hn
    simp only [List.mem_cons] at ha hb
    rcases ha with rfl | ha <;> rcases hb with rfl | hb
    · rfl
    · exact absurd (List.mem_map_of_mem (f := (·.addr)) hb) (hab ▸ hn.1)
    · exact absurd (List.mem_map_of_mem (f := (·.addr)) ha) (hab ▸ hn.1)
    · exact ih hn.2 ha hb

theorem sum_added (vals : List Val) : (vals.map (fun u => u.accum + u.power)).sum = accSum vals + powSum vals := by
  unfold accSum powSum
  induction vals with
  | nil => simp
  | cons x xs ih => simp only [List.map_cons, List.sum_cons]; rw [ih]; ring

/-- the invariant of the rule: priorities sum to zero and stay above −total -/
structure Bal (T : Int) (vals : List Val) : Prop where
  sum0 : accSum vals = 0
  low : ∀ v ∈ vals, -T < v.accum

theorem bal_step {T : Int} {vals : List Val} {m : Val} (hT : 0 < T) (hp : powSum vals = T) (hpow : ∀ v ∈ vals, 0 ≤ v.power)
    (hn : (vals.map (·.addr)).Nodup) (hb : Bal T vals) (he : Elects vals m) : Bal T (vals.map (stepV m.addr T)) := by
  constructor
  · rw [accSum_step, hb.sum0, hp, count_one_of_nodup hn (List.mem_map_of_mem he.1)]; simp
  · intro w hw
    obtain ⟨v, hv, rfl⟩ := List.mem_map.mp hw
    simp only [stepV]
    by_cases h : v.addr = m.addr
    · -- the elected one: its priority after adding the powers is the maximum, and the maximum is positive
      simp only [h, if_true]
      have hvm : v = m := addr_inj hn hv he.1 h
      have hmax : ∀ u ∈ vals, u.accum + u.power ≤ v.accum + v.power := by
        intro u hu; rw [hvm]; exact he.2 u hu
      have hsum : (vals.map (fun u => u.accum + u.power)).sum = T := by
        rw [sum_added, hb.sum0, hp]; simp
      have hle := sum_le (vals.map (fun u => u.accum + u.power)) (v.accum + v.power) (by
        intro x hx
        obtain ⟨u, hu, rfl⟩ := List.mem_map.mp hx
        exact hmax u hu)
      rw [hsum] at hle
      -- if the maximum were ≤ 0 the sum T would be ≤ 0
      have hpos : 0 < v.accum + v.power := by
        by_cases hc : 0 < v.accum + v.power
        · exact hc
        · exfalso
          have hlen : (0 : Int) ≤ ((vals.map (fun u => u.accum + u.power)).length : Int) := Int.natCast_nonneg _
          have : ((vals.map (fun u => u.accum + u.power)).length : Int) * (v.accum + v.power) ≤ 0 :=
            Int.mul_nonpos_of_nonneg_of_nonpos hlen (by omega)
          omega
      omega
    · simp only [h, if_false]
      have := hb.low v hv
      have := hpow v hv
      omega

/-- upper bound from the invariant: a priority is below (N−1)·total -/
theorem bal_high {T : Int} {vals : List Val} (hT : 0 < T) (hb : Bal T vals) {v : Val} (hv : v ∈ vals) :
    v.accum ≤ (vals.length - 1 : Int) * T := by
  have h := elem_le_of_sum (vals.map (·.accum)) (-T) (by
    intro x hx
    obtain ⟨u, hu, rfl⟩ := List.mem_map.mp hx
    have := hb.low u hu; omega) (List.mem_map_of_mem hv)
  have hs : (vals.map (·.accum)).sum = 0 := hb.sum0
  rw [hs] at h
  simp only [List.length_map] at h
  have : ((vals.length : Int) - 1) * -T = -(((vals.length : Int) - 1) * T) := by rw [Int.mul_neg]
  omega

/-- a run of the rule: at every step a maximal validator of the current priorities is elected -/
inductive Run (T : Int) : List Val → List Nat → List Val → Prop where
  | nil (vals : List Val) : Run T vals [] vals
  | cons {vals : List Val} {m : Val} {cs : List Nat} {out : List Val} :
      Elects vals m → Run T (vals.map (stepV m.addr T)) cs out → Run T vals (m.addr :: cs) out

theorem map_stepV_addr (vals : List Val) (m : Nat) (T : Int) : (vals.map (stepV m T)).map (·.addr) = vals.map (·.addr) := by
  rw [List.map_map]; rfl

theorem map_stepV_pow (vals : List Val) (m : Nat) (T : Int) : powSum (vals.map (stepV m T)) = powSum vals := by
  unfold powSum; rw [List.map_map]; rfl

theorem map_stepV_nonneg {vals : List Val} (m : Nat) (T : Int) (h : ∀ v ∈ vals, 0 ≤ v.power) :
    ∀ w ∈ vals.map (stepV m T), 0 ≤ w.power := by
  intro w hw; obtain ⟨v, hv, rfl⟩ := List.mem_map.mp hw; exact h v hv

theorem run_out {T : Int} {vals : List Val} {cs : List Nat} {out : List Val} (hr : Run T vals cs out) :
    out = vals.map (evolve T cs) := by
  induction hr with
  | nil vals =>
    show vals = vals.map (fun v => v)
    rw [List.map_id']
  | cons _ _ ih => rw [ih, List.map_map]; rfl

theorem run_bal {T : Int} {vals : List Val} {cs : List Nat} {out : List Val} (hT : 0 < T) (hp : powSum vals = T)
    (hpow : ∀ v ∈ vals, 0 ≤ v.power) (hn : (vals.map (·.addr)).Nodup) (hb : Bal T vals) (hr : Run T vals cs out) : Bal T out := by
  induction hr with
  | nil vals => exact hb
  | cons he _ ih =>
    exact ih (by rw [map_stepV_pow]; exact hp) (map_stepV_nonneg _ _ hpow) (by rw [map_stepV_addr]; exact hn)
      (bal_step hT hp hpow hn hb he)

/-- **Proportionality of the rule.**  Start from priorities that sum to zero and lie above −T (all zero, for instance).
After any number n of steps, the number of times a validator with power p was elected, c, satisfies
−T < n·p − c·T + a₀ ≤ (N−1)·T: its share c/n converges to p/T with an error below N/n. -/
theorem rule_proportional {T : Int} {vals : List Val} {cs : List Nat} {out : List Val} (hT : 0 < T) (hp : powSum vals = T)
    (hpow : ∀ v ∈ vals, 0 ≤ v.power) (hn : (vals.map (·.addr)).Nodup) (hb : Bal T vals) (hr : Run T vals cs out)
    {v : Val} (hv : v ∈ vals) :
    -T < v.accum + cs.length * v.power - T * (cs.count v.addr) ∧
    v.accum + cs.length * v.power - T * (cs.count v.addr) ≤ (vals.length - 1 : Int) * T := by
  have hbal := run_bal hT hp hpow hn hb hr
  have hout := run_out hr
  have hmem : evolve T cs v ∈ out := by rw [hout]; exact List.mem_map_of_mem hv
  have hlen : out.length = vals.length := by rw [hout]; simp
  rw [← evolve_accum]
  refine ⟨hbal.low _ hmem, ?_⟩
  have := bal_high hT hbal hmem
  rw [hlen] at this
  exact this

/-! ## Part 2: `IncrementAccum(1)` is the rule while nothing saturates, and nothing saturates -/

open Props.C17 in
theorem clamp_id {x : Int} (h : InI64 x) : clampI64 x = x := by
  unfold InI64 minI64 maxI64 at h; unfold clampI64 minI64 maxI64; split <;> (try split) <;> omega

/-- the size condition: (N+1)·T fits an int64 -/
def Fits (T : Int) (vals : List Val) : Prop := ((vals.length : Int) + 1) * T ≤ maxI64

/-- priorities within the invariant's range are far from the int64 bounds -/
theorem bal_in_range {T : Int} {vals : List Val} (hT : 0 < T) (hf : Fits T vals) (hb : Bal T vals) (hpow : ∀ v ∈ vals, 0 ≤ v.power)
    (hp : powSum vals = T) {v : Val} (hv : v ∈ vals) :
    InI64 v.accum ∧ InI64 v.power ∧ InI64 (v.accum + v.power) ∧ InI64 (v.accum + v.power - T) ∧ v.power ≤ T := by
  have hlow := hb.low v hv
  have hhigh := bal_high hT hb hv
  have hp0 := hpow v hv
  have hpT : v.power ≤ T := by
    have := elem_le_of_sum (vals.map (·.power)) 0 (by
      intro x hx; obtain ⟨u, hu, rfl⟩ := List.mem_map.mp hx; exact hpow u hu) (List.mem_map_of_mem hv)
    have hs : (vals.map (·.power)).sum = T := hp
    rw [hs] at this; simpa using this
  have hN : (1 : Int) ≤ vals.length := by
    have := List.length_pos_of_mem hv
    omega
  have hfit : ((vals.length : Int) + 1) * T ≤ maxI64 := hf
  have e1 : ((vals.length : Int) + 1) * T = (vals.length - 1 : Int) * T + 2 * T := by ring
  have h2T : 2 * T ≤ ((vals.length : Int) + 1) * T := by nlinarith
  unfold InI64 minI64 maxI64 at *
  refine ⟨⟨by linarith, by linarith⟩, ⟨by linarith, by linarith⟩, ⟨by linarith, by linarith⟩, ⟨by linarith, by linarith⟩, hpT⟩

/-- the first loop of IncrementAccum(1) without saturation -/
theorem add_noclip {a p : Int} (ha : InI64 a) (hp : InI64 p) (hs : InI64 (a + p)) : safeAddClip a (safeMulClip p 1) = a + p := by
  have h1 : safeMulClip p 1 = p := by
    rw [Props.C17.safeMulClip_saturates p 1 hp (by unfold InI64 minI64 maxI64; omega), Int.mul_one, clamp_id hp]
  rw [h1, Props.C17.safeAddClip_saturates a p ha hp, clamp_id hs]

theorem sub_noclip {a T : Int} (ha : InI64 a) (hT : InI64 T) (hs : InI64 (a - T)) : safeSubClip a T = a - T := by
  rw [Props.C17.safeSubClip_saturates a T ha hT, clamp_id hs]

theorem argmax_mem {l : List Val} {m : Val} (h : argmax l = some m) : m ∈ l := by
  induction l generalizing m with
  | nil => simp [argmax] at h
  | cons v rest ih =>
    simp only [argmax] at h
    cases hr : argmax rest with
    | none => rw [hr] at h; simp at h; subst h; exact List.mem_cons_self
    | some m' =>
      rw [hr] at h
      simp only at h
      split at h
      · simp at h; subst h; exact List.mem_cons_of_mem _ (ih hr)
      · simp at h; subst h; exact List.mem_cons_self

theorem argmax_max {l : List Val} {m : Val} (h : argmax l = some m) : ∀ v ∈ l, v.accum ≤ m.accum := by
  induction l generalizing m with
  | nil => simp [argmax] at h
  | cons v rest ih =>
    simp only [argmax] at h
    cases hr : argmax rest with
    | none =>
      rw [hr] at h; simp at h; subst h
      intro u hu
      rcases List.mem_cons.mp hu with rfl | hu'
      · exact Int.le_refl _
      · cases rest with
        | nil => cases hu'
        | cons x xs =>
          exfalso
          simp only [argmax] at hr
          cases hx : argmax xs <;> rw [hx] at hr <;> simp at hr
          split at hr <;> simp at hr
    | some m' =>
      rw [hr] at h
      simp only at h
      have ih' := ih hr
      split at h
      · rename_i hb
        simp at h; subst h
        intro u hu
        rcases List.mem_cons.mp hu with rfl | hu'
        · simp only [beats, Bool.or_eq_true, Bool.and_eq_true, decide_eq_true_eq] at hb
          rcases hb with hb | ⟨hb, _⟩ <;> omega
        · exact ih' u hu'
      · rename_i hb
        simp at h; subst h
        intro u hu
        rcases List.mem_cons.mp hu with rfl | hu'
        · exact Int.le_refl _
        · have := ih' u hu'
          simp only [beats, Bool.or_eq_true, Bool.and_eq_true, decide_eq_true_eq, not_or, not_and, Int.not_lt] at hb
          omega

theorem argmax_some {l : List Val} (h : l ≠ []) : ∃ m, argmax l = some m := by
  cases l with
  | nil => exact absurd rfl h
  | cons v rest =>
    simp only [argmax]
    cases argmax rest with
    | none => exact ⟨v, rfl⟩
    | some m' =>
      by_cases hb : beats m' v = true
      · exact ⟨m', by simp [hb]⟩
      · exact ⟨v, by simp [hb]⟩

/-- one rotation of the model on a validator set in range is one step of the rule -/
theorem incr1_is_rule {T : Int} (vs : VS) (hT : 0 < T) (hp : powSum vs.vals = T) (hpow : ∀ v ∈ vs.vals, 0 ≤ v.power)
    (hn : (vs.vals.map (·.addr)).Nodup) (hf : Fits T vs.vals) (hb : Bal T vs.vals) (hne : vs.vals ≠ []) :
    ∃ m, Elects vs.vals m ∧ incr1 vs = some { vals := vs.vals.map (stepV m.addr T), proposer := some m.addr } := by
  -- the first loop
  have h1 : vs.vals.map (fun v => { v with accum := safeAddClip v.accum (safeMulClip v.power 1) })
      = vs.vals.map (fun v => { v with accum := v.accum + v.power }) := by
    apply List.map_congr_left
    intro v hv
    obtain ⟨r1, r2, r3, _, _⟩ := bal_in_range hT hf hb hpow hp hv
    rw [add_noclip r1 r2 r3]
  -- the total
  have hTmax : T ≤ maxI64 := by
    have hN : (0 : Int) ≤ vs.vals.length := Int.natCast_nonneg _
    have : ((vs.vals.length : Int) + 1) * T ≤ maxI64 := hf
    nlinarith
  have htot : totalPower (vs.vals.map (fun v => { v with accum := v.accum + v.power })) = T := by
    rw [Props.C17.total_saturates]
    · have : ((vs.vals.map (fun v => { v with accum := v.accum + v.power })).map (·.power)).sum = T := by
        rw [List.map_map]; exact hp
      rw [this]; omega
    · intro w hw
      obtain ⟨v, hv, rfl⟩ := List.mem_map.mp hw
      obtain ⟨_, r2, _, _, _⟩ := bal_in_range hT hf hb hpow hp hv
      exact ⟨hpow v hv, r2.2⟩
  have hne1 : vs.vals.map (fun v => ({ v with accum := v.accum + v.power } : Val)) ≠ [] := by
    intro h; exact hne (List.map_eq_nil_iff.mp h)
  obtain ⟨m1, hm1⟩ := argmax_some hne1
  obtain ⟨m, hm, rfl⟩ := List.mem_map.mp (argmax_mem hm1)
  refine ⟨m, ⟨hm, ?_⟩, ?_⟩
  · intro v hv
    have := argmax_max hm1 _ (List.mem_map_of_mem (f := fun (v : Val) => ({ v with accum := v.accum + v.power } : Val)) hv)
    exact this
  · unfold incr1 incrBulk
    simp only
    rw [h1, htot]
    simp only [Int.toNat_one, decrLoop, hm1]
    congr 2
    unfold decrAt
    rw [List.map_map]
    apply List.map_congr_left
    intro v hv
    obtain ⟨_, _, r3, r4, _⟩ := bal_in_range hT hf hb hpow hp hv
    simp only [Function.comp, stepV]
    by_cases h : v.addr = m.addr
    · simp only [h, if_true]
      rw [sub_noclip r3 (by unfold InI64 minI64 maxI64 at *; constructor <;> omega) r4]
    · simp only [h, if_false]; simp

/-- n single rotations, remembering who was elected -/
def incrTrace : Nat → VS → Option (VS × List Nat)
  | 0, vs => some (vs, [])
  | n + 1, vs =>
    match incr1 vs with
    | none => none
    | some vs1 =>
      match incrTrace n vs1 with
      | none => none
      | some (vs2, cs) => some (vs2, (vs1.proposer.getD 0) :: cs)

theorem incrTrace_fst (n : Nat) (vs : VS) : (incrTrace n vs).map (·.1) = incrStep n vs := by
  induction n generalizing vs with
  | zero => rfl
  | succ n ih =>
    simp only [incrTrace, incrStep]
    cases h1 : incr1 vs with
    | none => rfl
    | some vs1 =>
      simp only [Option.bind_some]
      rw [← ih vs1]
      cases incrTrace n vs1 <;> rfl

/-- every run of the model in range is a run of the rule, of the same length, and never panics -/
theorem incrTrace_is_run {T : Int} (n : Nat) (vs : VS) (hT : 0 < T) (hp : powSum vs.vals = T) (hpow : ∀ v ∈ vs.vals, 0 ≤ v.power)
    (hn : (vs.vals.map (·.addr)).Nodup) (hf : Fits T vs.vals) (hb : Bal T vs.vals) (hne : vs.vals ≠ []) :
    ∃ vs' cs, incrTrace n vs = some (vs', cs) ∧ cs.length = n ∧ Run T vs.vals cs vs'.vals := by
  induction n generalizing vs with
  | zero => exact ⟨vs, [], rfl, rfl, Run.nil _⟩
  | succ n ih =>
    obtain ⟨m, he, h1⟩ := incr1_is_rule vs hT hp hpow hn hf hb hne
    have hb' := bal_step hT hp hpow hn hb he
    have hf' : Fits T (vs.vals.map (stepV m.addr T)) := by unfold Fits at *; simpa using hf
    have hne' : vs.vals.map (stepV m.addr T) ≠ [] := by intro h; exact hne (List.map_eq_nil_iff.mp h)
    obtain ⟨vs', cs, ht, hl, hr⟩ := ih { vals := vs.vals.map (stepV m.addr T), proposer := some m.addr }
      (by rw [map_stepV_pow]; exact hp) (map_stepV_nonneg _ _ hpow) (by rw [map_stepV_addr]; exact hn) hf' hb' hne'
    refine ⟨vs', m.addr :: cs, ?_, by simp [hl], Run.cons he hr⟩
    simp only [incrTrace, h1, ht, Option.getD_some]

/-- **C17, proportionality clause, for the code's own arithmetic.**  For every validator set with distinct addresses,
non-negative powers, total power T > 0 and (N+1)·T within int64, starting from balanced priorities (all zero, or any state
reached from there): n single rotations never panic, and for every validator the number c of times it was elected satisfies
−T < a₀ + n·p − c·T ≤ (N−1)·T.  With a₀ = 0: |c/n − p/T| < N/n. -/
def C17_proportional_statement : Prop :=
  ∀ (T : Int) (n : Nat) (vs : VS), 0 < T → powSum vs.vals = T → (∀ v ∈ vs.vals, 0 ≤ v.power) →
    (vs.vals.map (·.addr)).Nodup → Fits T vs.vals → Bal T vs.vals → vs.vals ≠ [] →
    ∃ vs' cs, incrTrace n vs = some (vs', cs) ∧ cs.length = n ∧
      ∀ v ∈ vs.vals, -T < v.accum + (n : Int) * v.power - T * (cs.count v.addr) ∧
                     v.accum + (n : Int) * v.power - T * (cs.count v.addr) ≤ (vs.vals.length - 1 : Int) * T

theorem C17_proportional : C17_proportional_statement := by
  intro T n vs hT hp hpow hn hf hb hne
  obtain ⟨vs', cs, ht, hl, hr⟩ := incrTrace_is_run n vs hT hp hpow hn hf hb hne
  refine ⟨vs', cs, ht, hl, ?_⟩
  intro v hv
  have := rule_proportional hT hp hpow hn hb hr hv
  rw [hl] at this
  exact this

/-- non-vacuity: powers 1, 1, 3 from zero priorities; 10 rotations elect the validators 2, 2 and 6 times -/
def nvVS : VS := { vals := [⟨1, 1, 0⟩, ⟨2, 1, 0⟩, ⟨3, 3, 0⟩], proposer := none }
example : Bal 5 nvVS.vals := ⟨by decide, by decide⟩
example : Fits 5 nvVS.vals := by unfold Fits maxI64; decide
example : (incrTrace 10 nvVS).map (fun r => (r.2.count 1, r.2.count 2, r.2.count 3)) = some (2, 2, 6) := by decide

end Props.C17Fair
