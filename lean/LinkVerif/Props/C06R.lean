import LinkVerif.Model.LedgerR
import LinkVerif.Model.Mempool
import LinkVerif.Props.C06

/-!
# C06R — conservation over the RECEIPT-ACCURATE block execution (`Model.LedgerR`)

`execBlockR` is what the real `Process` does with any block, also a Byzantine one: a value-underfunded account transfer
whose gas is funded stays in the block with a failed receipt — its sender's nonce moves, nothing else.

* `execBlock_sub_R`, `execBlockRS_of_strict`: the strict validator (`Model.Ledger.execBlock`) is a restriction of the real one;
* `execX_eq_execBlockR`: the execution the mempool model (C15) uses for forced blocks is this one;
* `failTx_conserves`, `execBlockR_conserves` (`C06R_partial`), `forceBlockR_conserves`, `blockR_conserves`: native and token
  supply are unchanged over every block whose EXECUTED transactions satisfy the amount equation where they execute
  (`HonestRunR`; a failed transaction needs no hypothesis: it moves nothing);
* `fees_match_R`: the foundation gains exactly the fees of the transactions with receipt status 1, nothing for a failed one;
* a refused block leaves the state untouched (`forceBlockR_refused`).
Core Lean only; add-only (nothing of Props.C06 is changed).
-/
namespace Props.C06R
open Model.Ledger
open Props.C06

/-! ## the strict validator is a restriction of the real execution -/

theorem execBlockRS_fst (l : List TxRec) : ∀ (s : St) (seen : List Nat),
    (execBlockRS s seen l).map (·.1) = execBlockR s seen l := by
  induction l with
  | nil => intro s seen; rfl
  | cons t rest ih =>
    intro s seen
    unfold execBlockRS execBlockR
    split
    · rw [← ih]; cases execBlockRS (execTx s t) (if t.kind = .uin then t.spends :: seen else seen) rest <;> rfl
    · split
      · rw [← ih]; cases execBlockRS (failTx s t) seen rest <;> rfl
      · rfl

theorem execBlockRS_some {s s' : St} {seen : List Nat} {l : List TxRec} {sts : List Bool}
    (h : execBlockRS s seen l = some (s', sts)) : execBlockR s seen l = some s' := by
  rw [← execBlockRS_fst, h]; rfl

theorem execBlockR_some {s s' : St} {seen : List Nat} {l : List TxRec} (h : execBlockR s seen l = some s') :
    ∃ sts, execBlockRS s seen l = some (s', sts) := by
  rw [← execBlockRS_fst] at h
  cases hr : execBlockRS s seen l with
  | none => rw [hr] at h; cases h
  | some p => rw [hr] at h; simp at h; exact ⟨p.2, by rw [← h]⟩

/-- **the strict validator is a restriction of the real one** -/
theorem execBlock_sub_R {s s' : St} {seen : List Nat} {recs : List TxRec} (he : execBlock s seen recs = some s') :
    execBlockR s seen recs = some s' := by
  induction recs generalizing s seen with
  | nil => simpa [execBlock, execBlockR] using he
  | cons t rest ih =>
    obtain ⟨hv, he'⟩ := execBlock_cons_some he
    unfold execBlockR
    simp only [hv, if_true]
    exact ih he'

/-- … and every receipt of a strictly valid block has status 1 -/
theorem execBlockRS_of_strict {s s' : St} {seen : List Nat} {recs : List TxRec} (he : execBlock s seen recs = some s') :
    execBlockRS s seen recs = some (s', List.replicate recs.length true) := by
  induction recs generalizing s seen with
  | nil => simp only [execBlock, Option.some.injEq] at he; subst he; rfl
  | cons t rest ih =>
    obtain ⟨hv, he'⟩ := execBlock_cons_some he
    unfold execBlockRS
    simp only [hv, if_true, ih he', List.length_cons, List.replicate_succ]

/-- a strictly invalid block that the real execution accepts contains a failing transaction (status 0) -/
theorem execBlockRS_strict_or_failed {s s' : St} {seen : List Nat} {recs : List TxRec} {sts : List Bool}
    (h : execBlockRS s seen recs = some (s', sts)) : execBlock s seen recs = some s' ∨ false ∈ sts := by
  induction recs generalizing s seen sts with
  | nil => simp only [execBlockRS, Option.some.injEq, Prod.mk.injEq] at h; left; simp [execBlock, h.1]
  | cons t rest ih =>
    unfold execBlockRS at h
    split at h
    · rename_i hv
      cases hr : execBlockRS (execTx s t) (if t.kind = .uin then t.spends :: seen else seen) rest with
      | none => rw [hr] at h; cases h
      | some p =>
        obtain ⟨p1, p2⟩ := p
        rw [hr] at h
        simp only [Option.some.injEq, Prod.mk.injEq] at h
        obtain ⟨rfl, rfl⟩ := h
        rcases ih hr with h1 | h1
        · left; unfold execBlock; simp only [hv, if_true]; exact h1
        · right; exact List.mem_cons_of_mem _ h1
    · split at h
      · cases hr : execBlockRS (failTx s t) seen rest with
        | none => rw [hr] at h; cases h
        | some p =>
          rw [hr] at h
          simp only [Option.some.injEq, Prod.mk.injEq] at h
          right; rw [← h.2]; exact List.mem_cons_self ..
      · cases h

/-- the execution `Model.Mempool` (C15) uses for forced blocks is the receipt-accurate one -/
theorem execX_eq_execBlockR (l : List TxRec) : ∀ (s : St) (seen : List Nat),
    Model.Mempool.execX s seen l = execBlockR s seen l := by
  induction l with
  | nil => intro s seen; rfl
  | cons t rest ih =>
    intro s seen
    unfold Model.Mempool.execX execBlockR
    split
    · exact ih _ _
    · have : Model.Mempool.vmFails s t = vmFailsR s t := rfl
      rw [this]
      split
      · exact ih _ _
      · rfl

/-! ## a failed receipt moves nothing -/

theorem failTx_conserves {s : St} (t : TxRec) (hi : Inv s) :
    supply (failTx s t) = supply s ∧ tokSupply (failTx s t) = tokSupply s ∧ Inv (failTx s t) := by
  refine ⟨rfl, rfl, ⟨hi.tok_len, ?_, hi.ids⟩⟩
  show (setN s.nonce t.from_ (t.nonce + 1)).length = s.bal.length
  simp [setN, hi.nonce_len]

theorem failTx_found (s : St) (t : TxRec) : (failTx s t).found = s.found := rfl
theorem failTx_bal (s : St) (t : TxRec) : (failTx s t).bal = s.bal ∧ (failTx s t).tok = s.tok ∧ (failTx s t).wallets = s.wallets ∧
    (failTx s t).spentImgs = s.spentImgs ∧ (failTx s t).zero = s.zero := ⟨rfl, rfl, rfl, rfl, rfl⟩

/-! ## blocks -/

/-- every transaction of the list that EXECUTES is `Honest` at the state where it executes (a failing one is unconstrained) -/
def HonestRunR : St → List Nat → List TxRec → Prop
  | _, _, [] => True
  | s, seen, t :: rest =>
    if txValid s seen t = true then Honest s t ∧ HonestRunR (execTx s t) (if t.kind = .uin then t.spends :: seen else seen) rest
    else HonestRunR (failTx s t) seen rest

instance decHonestRunR : ∀ (recs : List TxRec) (s : St) (seen : List Nat), Decidable (HonestRunR s seen recs)
  | [], _, _ => isTrue trivial
  | t :: rest, s, seen =>
    if hv : txValid s seen t = true then
      match (inferInstance : Decidable (Honest s t)), decHonestRunR rest (execTx s t) (if t.kind = .uin then t.spends :: seen else seen) with
      | isTrue h1, isTrue h2 => isTrue (by unfold HonestRunR; rw [if_pos hv]; exact ⟨h1, h2⟩)
      | isFalse h1, _ => isFalse (by unfold HonestRunR; rw [if_pos hv]; exact fun h => h1 h.1)
      | _, isFalse h2 => isFalse (by unfold HonestRunR; rw [if_pos hv]; exact fun h => h2 h.2)
    else
      match decHonestRunR rest (failTx s t) seen with
      | isTrue h => isTrue (by unfold HonestRunR; rw [if_neg hv]; exact h)
      | isFalse h => isFalse (by unfold HonestRunR; rw [if_neg hv]; exact h)

/-- an honest strictly valid run is an honest receipt-accurate run -/
theorem honestRunR_of_strict {s s' : St} {seen : List Nat} {recs : List TxRec} (hr : HonestRun s seen recs)
    (he : execBlock s seen recs = some s') : HonestRunR s seen recs := by
  induction hr generalizing s' with
  | nil s seen => trivial
  | cons hh _ ih =>
    obtain ⟨hv, he'⟩ := execBlock_cons_some he
    unfold HonestRunR
    rw [if_pos hv]
    exact ⟨hh, ih he'⟩

theorem execBlockR_honest {s s' : St} {seen : List Nat} {recs : List TxRec} (hi : Inv s) (hr : HonestRunR s seen recs)
    (he : execBlockR s seen recs = some s') : supply s' = supply s ∧ tokSupply s' = tokSupply s ∧ Inv s' := by
  induction recs generalizing s seen with
  | nil => simp only [execBlockR, Option.some.injEq] at he; subst he; exact ⟨rfl, rfl, hi⟩
  | cons t rest ih =>
    unfold execBlockR at he
    unfold HonestRunR at hr
    split at he
    · rename_i hv
      rw [if_pos hv] at hr
      obtain ⟨h1, h2, h3⟩ := execTx_conserves hi hr.1
      obtain ⟨k1, k2, k3⟩ := ih h3 hr.2 he
      exact ⟨k1.trans h1, k2.trans h2, k3⟩
    · rename_i hv
      rw [if_neg hv] at hr
      split at he
      · obtain ⟨h1, h2, h3⟩ := failTx_conserves t hi
        obtain ⟨k1, k2, k3⟩ := ih h3 hr he
        exact ⟨k1.trans h1, k2.trans h2, k3⟩
      · cases he

/-- **C06R, partial**: conservation over a block executed as the real `Process` executes it, failed receipts included -/
theorem execBlockR_conserves {s s' : St} {seen : List Nat} {recs : List TxRec} (hi : Inv s) (hr : HonestRunR s seen recs)
    (he : execBlockR s seen recs = some s') : supply s' = supply s ∧ tokSupply s' = tokSupply s :=
  ⟨(execBlockR_honest hi hr he).1, (execBlockR_honest hi hr he).2.1⟩

def C06R_partial_statement : Prop :=
  ∀ (s : St) (seen : List Nat) (recs : List TxRec) (s' : St), Inv s → HonestRunR s seen recs →
    execBlockR s seen recs = some s' → supply s' = supply s ∧ tokSupply s' = tokSupply s

theorem C06R_partial : C06R_partial_statement := fun _ _ _ _ hi hr he => execBlockR_conserves hi hr he

theorem forceBlockR_eq (s : St) (ids : List Nat) :
    forceBlockR s ids = match execBlockRS s [] (recsOf s ids) with
      | none => (s, "propose=panic", [])
      | some (s', sts) =>
        if (recsOf s ids).any (fun t => t.broken.isSome) then (s, "validate=false", []) else (finishBlock s s' ids, "ok", sts) := rfl

theorem forceBlockR_conserves {s : St} {ids : List Nat} (hi : Inv s) (hr : HonestRunR s [] (recsOf s ids)) :
    supply (forceBlockR s ids).1 = supply s ∧ tokSupply (forceBlockR s ids).1 = tokSupply s ∧ Inv (forceBlockR s ids).1 := by
  rw [forceBlockR_eq]
  cases he : execBlockRS s [] (recsOf s ids) with
  | none => exact ⟨rfl, rfl, hi⟩
  | some p =>
    obtain ⟨s', sts⟩ := p
    obtain ⟨h1, h2, h3⟩ := execBlockR_honest hi hr (execBlockRS_some he)
    simp only []
    split
    · exact ⟨rfl, rfl, hi⟩
    · exact ⟨h1, h2, inv_finishBlock _ h3⟩

theorem blockR_conserves {s : St} (hi : Inv s) (hr : HonestRunR s [] (recsOf s s.pending)) :
    supply (blockR s).1 = supply s ∧ tokSupply (blockR s).1 = tokSupply s ∧ Inv (blockR s).1 := by
  have heq : blockR s = (match execBlockRS s [] (recsOf s s.pending) with
      | some (s', sts) => (finishBlock s s' s.pending, sts) | none => (s, [])) := rfl
  rw [heq]
  cases he : execBlockRS s [] (recsOf s s.pending) with
  | none => exact ⟨rfl, rfl, hi⟩
  | some p =>
    obtain ⟨s', sts⟩ := p
    obtain ⟨h1, h2, h3⟩ := execBlockR_honest hi hr (execBlockRS_some he)
    exact ⟨h1, h2, inv_finishBlock _ h3⟩

/-- on a block every transaction of which is valid where it stands (what the mempool offers: Props.C15), the
receipt-accurate `blockR` is the strict `block` -/
theorem blockR_eq_block_of_valid {s s' : St} (he : execBlock s [] (recsOf s s.pending) = some s') :
    (blockR s).1 = block s := by
  show (match execBlockRS s [] (recsOf s s.pending) with
      | some (s', sts) => (finishBlock s s' s.pending, sts) | none => (s, [])).1 = _
  rw [execBlockRS_of_strict he, block_eq, he]

/-- the strict `forceBlock` accepts a block only if the receipt-accurate one accepts it, with the same result -/
theorem forceBlock_ok_R {s : St} {ids : List Nat} (h : (forceBlock s ids).2 = "ok") :
    (forceBlockR s ids).1 = (forceBlock s ids).1 ∧ (forceBlockR s ids).2.1 = "ok" := by
  rw [forceBlock_eq] at h ⊢
  rw [forceBlockR_eq]
  cases he : execBlock s [] (recsOf s ids) with
  | none => rw [he] at h; simp at h
  | some s' =>
    rw [he] at h
    rw [execBlockRS_of_strict he]
    simp only [] at h ⊢
    split
    · rename_i hb; rw [if_pos hb] at h; simp at h
    · exact ⟨rfl, rfl⟩

/-! ## fees -/

/-- fees of the transactions whose receipt has status 1 -/
def feesOfR : List TxRec → List Bool → Int
  | t :: rest, ok :: sts => (if ok then feeOfGas t.gas else 0) + feesOfR rest sts
  | _, _ => 0

/-- over a block executed as `Process` executes it the foundation gains exactly the fees of the transactions that
executed; a failed receipt pays nothing (no hypothesis) -/
theorem fees_match_R {s s' : St} {seen : List Nat} {recs : List TxRec} {sts : List Bool}
    (he : execBlockRS s seen recs = some (s', sts)) : s'.found = s.found + feesOfR recs sts ∧ sts.length = recs.length := by
  induction recs generalizing s seen sts with
  | nil => simp only [execBlockRS, Option.some.injEq, Prod.mk.injEq] at he; rw [← he.1, ← he.2]; simp [feesOfR]
  | cons t rest ih =>
    unfold execBlockRS at he
    split at he
    · cases hr : execBlockRS (execTx s t) (if t.kind = .uin then t.spends :: seen else seen) rest with
      | none => rw [hr] at he; cases he
      | some p =>
        obtain ⟨p1, p2⟩ := p
        rw [hr] at he
        simp only [Option.some.injEq, Prod.mk.injEq] at he
        obtain ⟨rfl, rfl⟩ := he
        obtain ⟨h1, h2⟩ := ih hr
        rw [h1, execTx_found]
        simp only [feesOfR, if_true, List.length_cons, h2]
        exact ⟨by omega, trivial⟩
    · split at he
      · cases hr : execBlockRS (failTx s t) seen rest with
        | none => rw [hr] at he; cases he
        | some p =>
          obtain ⟨p1, p2⟩ := p
          rw [hr] at he
          simp only [Option.some.injEq, Prod.mk.injEq] at he
          obtain ⟨rfl, rfl⟩ := he
          obtain ⟨h1, h2⟩ := ih hr
          rw [h1, failTx_found]
          simp only [feesOfR, Bool.false_eq_true, if_false, List.length_cons, h2]
          exact ⟨by omega, trivial⟩
      · cases he

theorem forceBlockR_fees {s s' : St} {ids : List Nat} {sts : List Bool} (he : execBlockRS s [] (recsOf s ids) = some (s', sts))
    (hok : (forceBlockR s ids).2.1 = "ok") :
    (forceBlockR s ids).1.found = s.found + feesOfR (recsOf s ids) sts ∧ (forceBlockR s ids).2.2 = sts := by
  have h := (fees_match_R he).1
  rw [forceBlockR_eq, he] at hok ⊢
  simp only [] at hok ⊢
  split
  · rename_i hb; rw [if_pos hb] at hok; simp at hok
  · exact ⟨h, rfl⟩

/-- a refused block (execution-invalid, or failing the validator-side proof check) leaves the state untouched -/
theorem forceBlockR_refused {s : St} {ids : List Nat} (h : (forceBlockR s ids).2.1 ≠ "ok") : (forceBlockR s ids).1 = s := by
  rw [forceBlockR_eq] at h ⊢
  cases he : execBlockRS s [] (recsOf s ids) with
  | none => rfl
  | some p =>
    rw [he] at h
    simp only [] at h ⊢
    split
    · rfl
    · rename_i hb; rw [if_neg hb] at h; exact absurd rfl h

/-! ## non-vacuity: the underfunded witness (replayed on the real application by the C06 harness, corpus) -/

/-- 3 accounts with 10^8 units and 1000 token units; tx 0: transfer of 2·10^9 units (value not funded, fee funded);
tx 1: token transfer of 5000 (token not funded); tx 2: a funded transfer of 7 -/
def uw_s : St :=
  { init 3 2 100000000 1000 with
    txs := [ { kind := .xfer, from_ := 0, to := 1, amount := 2000000000, nonce := 0, gas := calGas 2000000000 },
             { kind := .xfertok, from_ := 1, to := 2, amount := 5000, nonce := 0, gas := calGas 0 },
             { kind := .xfer, from_ := 2, to := 1, amount := 7, nonce := 0, gas := calGas 7 } ] }

/-- the strict validator refuses the block; the real execution commits it: two failed receipts, nonces 1,1,1, balances
as if only tx 2 had run, the foundation gains the one fee -/
example : (forceBlock uw_s [0, 1, 2]).2 = "propose=panic" ∧
    (forceBlockR uw_s [0, 1, 2]).2.1 = "ok" ∧ (forceBlockR uw_s [0, 1, 2]).2.2 = [false, false, true] ∧
    (forceBlockR uw_s [0, 1, 2]).1.nonce = [1, 1, 1] ∧ (forceBlockR uw_s [0, 1, 2]).1.bal = [100000000, 100000007, 94999993] ∧
    (forceBlockR uw_s [0, 1, 2]).1.tok = [1000, 1000, 1000] ∧ (forceBlockR uw_s [0, 1, 2]).1.found = 5000000 ∧
    supply (forceBlockR uw_s [0, 1, 2]).1 = supply uw_s := by decide

/-- the hypotheses of `forceBlockR_conserves` hold for it -/
example : Inv uw_s ∧ HonestRunR uw_s [] (recsOf uw_s [0, 1, 2]) := by decide

/-- the failed transaction is consumed: forcing it again is execution-invalid, and so is the same one twice in a block;
a sender that cannot pay the GAS makes the block invalid (no failed receipt) -/
example : (forceBlockR (forceBlockR uw_s [0, 1, 2]).1 [0]).2.1 = "propose=panic" ∧ (forceBlockR uw_s [0, 0]).2.1 = "propose=panic" ∧
    (forceBlockR { uw_s with bal := [4999999, 100000000, 100000000] } [0]).2.1 = "propose=panic" := by decide

end Props.C06R
