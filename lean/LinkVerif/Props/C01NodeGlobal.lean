/-
C01, link between the node layer (L-B) and the abstract protocol (L-A): a +2/3 majority recorded in a node's own vote set
(`maj23`, backed by `maj23_has_quorum`) IS a polka / commit quorum of `Model.Protocol` over any global history that contains the
votes the node has recorded (`Seen`: what the network delivered was sent — signatures are unforgeable).
-/
import LinkVerif.Props.C01Node
import LinkVerif.Props.C01Agreement

namespace Props.C01Node
open Model.Node Model.Protocol

/-- the L-A configuration of a node's validator set: validators `0..n-1` with the node's power table -/
def cfgOf (powers : List Nat) (byz : Nat → Bool) : Cfg :=
  { vals := List.range powers.length, power := fun i => powers.getD i 0, byz := byz }

/-- block numbers of the node model as L-A values: `0` is nil -/
def optV (v : Nat) : Option Nat := if v = 0 then none else some v

theorem sum_split (f : Nat → Nat) (n : Nat) : ∀ (who : List Nat), who.Nodup →
    (who.map f).sum = ((who.filter (fun i => i != n)).map f).sum + (if n ∈ who then f n else 0)
  | [], _ => by simp
  | a :: rest, hn => by
    have hn' := List.nodup_cons.1 hn
    have ih := sum_split f n rest hn'.2
    by_cases e : a = n
    · subst e
      have : a ∉ rest := hn'.1
      simp [this] at ih ⊢
      omega
    · have e' : (a != n) = true := by simpa using e
      have e'' : ¬ n = a := fun h => e h.symm
      simp only [List.map_cons, List.sum_cons, List.filter_cons, e', if_true, List.mem_cons, e'', false_or]
      omega

theorem sum_sub_le (f : Nat → Nat) (pred : Nat → Bool) : ∀ (n : Nat) (who : List Nat), who.Nodup →
    (∀ i ∈ who, i < n ∧ pred i = true) → (who.map f).sum ≤ (((List.range n).filter pred).map f).sum
  | 0, who, _, hw => by
    cases who with
    | nil => simp
    | cons a rest => exact absurd (hw a (by simp)).1 (by omega)
  | n + 1, who, hn, hw => by
    have hsplit := sum_split f n who hn
    have ih := sum_sub_le f pred n (who.filter (fun i => i != n)) (hn.filter _) (by
      intro i hi
      have hi' := List.mem_filter.1 hi
      have := hw i hi'.1
      have hne : i ≠ n := by simpa using hi'.2
      exact ⟨by omega, this.2⟩)
    rw [List.range_succ, List.filter_append, List.map_append, List.sum_append, hsplit]
    by_cases hm : n ∈ who
    · have hp := (hw n hm).2
      simp [hm, hp]
      omega
    · simp [hm]
      omega

theorem range_getD (l : List Nat) : (List.range l.length).map (fun i => l.getD i 0) = l := by
  apply List.ext_getElem
  · simp
  · intro i h1 h2
    simp at h1
    simp [List.getD_eq_getElem?_getD, h1]

theorem total_cfgOf (powers : List Nat) (byz : Nat → Bool) : total (cfgOf powers byz) = powers.sum := by
  unfold total pow cfgOf
  have : (List.range powers.length).filter (fun _ => true) = List.range powers.length := by simp
  simp only [this]
  rw [range_getD]

/-- the power of a duplicate-free list of validators satisfying `pred` is at most L-A's `pow` of `pred` -/
theorem powSum_le_pow (powers : List Nat) (byz : Nat → Bool) (pred : Nat → Bool) (who : List Nat) (hn : who.Nodup)
    (hw : ∀ i ∈ who, i < powers.length ∧ pred i = true) : powSum powers who ≤ pow (cfgOf powers byz) pred := by
  unfold pow cfgOf powSum
  exact sum_sub_le _ pred powers.length who hn hw

/-- the global history `p` contains every vote the node's table has recorded (`mk` = `Event.prevote` / `Event.precommit`):
what was delivered had been sent — the network does not invent votes and signatures are unforgeable -/
def Seen (mk : Nat → Nat → Option Nat → Event) (p : List Event) (tbl : Nat → VSet) : Prop :=
  ∀ r v bv i, alookup (tbl r).byBlock v = some bv → i ∈ bv.who → mk i r (optV v) ∈ p

/-- a +2/3 majority recorded in a consistent prevote set is a `polka` of L-A over any history that has seen the recorded votes,
witnessed by a prevote event of that history -/
theorem maj23_gives_polka (powers : List Nat) (byz : Nat → Bool) (p : List Event) (tbl : Nat → VSet) (r v : Nat)
    (hok : VOK powers (tbl r)) (hm : (tbl r).maj23 = some v) (hs : Seen Event.prevote p tbl) :
    polka (cfgOf powers byz) p r (optV v) = true ∧ ∃ n, Event.prevote n r (optV v) ∈ p := by
  obtain ⟨who, hn, hlt, ⟨bv, hb, hwho⟩, hq⟩ := maj23_has_quorum hok hm
  have hmem : ∀ i ∈ who, Event.prevote i r (optV v) ∈ p := fun i hi => hs r v bv i hb (by rw [hwho]; exact hi)
  constructor
  · rw [Props.C01.polka_iff, total_cfgOf]
    have := powSum_le_pow powers byz (prevoted p r (optV v)) who hn
      (fun i hi => ⟨hlt i hi, Props.C01.prevoted_iff.2 (hmem i hi)⟩)
    omega
  · cases who with
    | nil => simp [powSum] at hq
    | cons a rest => exact ⟨a, hmem a (by simp)⟩

theorem maj23_gives_commitQuorum (powers : List Nat) (byz : Nat → Bool) (p : List Event) (tbl : Nat → VSet) (r v : Nat) (hv : v ≠ 0)
    (hok : VOK powers (tbl r)) (hm : (tbl r).maj23 = some v) (hs : Seen Event.precommit p tbl) :
    commitQuorum (cfgOf powers byz) p r v = true := by
  obtain ⟨who, hn, hlt, ⟨bv, hb, hwho⟩, hq⟩ := maj23_has_quorum hok hm
  have hov : optV v = some v := by simp [optV, hv]
  have hmem : ∀ i ∈ who, Event.precommit i r (some v) ∈ p := fun i hi => by
    have := hs r v bv i hb (by rw [hwho]; exact hi); rwa [hov] at this
  rw [Props.C01.commitQuorum_iff, total_cfgOf]
  have := powSum_le_pow powers byz (precommitted p r (some v)) who hn
    (fun i hi => ⟨hlt i hi, Props.C01.precommitted_iff.2 (hmem i hi)⟩)
  omega

/-- **d2 in L-A's words**: the node precommits a block only when the global history (containing what the node has seen) has a polka for it -/
theorem node_precommit_polka_in_history (s : St) (i : In) (hg : Good s) (ht : WellTimed s i) (byz : Nat → Bool) (p : List Event)
    (hs : Seen Event.prevote p (stepCore s i).pvs) (h r v : Nat)
    (hm : Out.vote tPrecommit h r v ∈ (stepCore s i).out) (hv : v ≠ 0) :
    polka (cfgOf s.powers byz) p r (some v) = true := by
  have hsp := Spec_unfold hg.1 (stepCore_Spec s i ht)
  have hmaj := (node_precommit_needs_polka s i hg.1 ht h r v hm hv).2
  have hok := (hsp.2.2.2.1 hg.2 r).1
  rw [hsp.2.2.1] at hok
  have := (maj23_gives_polka s.powers byz p _ r v hok hmaj hs).1
  simpa [optV, hv] using this

/-- **d4 in L-A's words**: the node commits a block only when the global history has a commit quorum for it in that round -/
theorem node_commit_quorum_in_history (s : St) (i : In) (hg : Good s) (ht : WellTimed s i) (byz : Nat → Bool) (p : List Event)
    (hs : Seen Event.precommit p (stepCore s i).pcs) (h r v : Nat) (hm : Out.commit h r v ∈ (stepCore s i).out) :
    commitQuorum (cfgOf s.powers byz) p r v = true := by
  have hsp := Spec_unfold hg.1 (stepCore_Spec s i ht)
  obtain ⟨_, hv, hmaj⟩ := node_commit_needs_precommits s i hg.1 ht h r v hm
  have hok := (hsp.2.2.2.1 hg.2 r).2
  rw [hsp.2.2.1] at hok
  exact maj23_gives_commitQuorum s.powers byz p _ r v hv hok hmaj hs

/-- a releasing majority in the node's table is an `unlockingPolka` of L-A -/
theorem released_gives_unlockingPolka (powers : List Nat) (byz : Nat → Bool) (p : List Event) (tbl : Nat → VSet) (b r0 r' : Nat)
    (hok : ∀ q, VOK powers (tbl q)) (hs : Seen Event.prevote p tbl) (hrel : Released tbl b r0 r') :
    unlockingPolka (cfgOf powers byz) p b r0 r' = true := by
  obtain ⟨r'', x, h1, h2, h3, h4⟩ := hrel
  obtain ⟨hpol, n, hn⟩ := maj23_gives_polka powers byz p tbl r'' x (hok r'') h3 hs
  have hne : (optV x != some b) = true := by
    unfold optV; split
    · simp
    · simpa using h4
  unfold unlockingPolka
  rw [List.any_eq_true]
  exact ⟨_, hn, by simp [h1, h2, hne, hpol]⟩

/-- **d3 in L-A's words**: having precommitted block `b` at `(h, r0)`, the node later prevotes something else at `(h, r')` only when the
global history (containing what the node has seen) has an unlocking polka at a round in `(r0, r']` -/
theorem node_prevote_unlocking_polka_in_history (s0 : St) (is : List In) (i : In) (hg : Good s0) (ht : Timed s0 is)
    (hti : WellTimed (run s0 is) i) (byz : Nat → Bool) (p : List Event)
    (hs : Seen Event.prevote p (stepCore (run s0 is) i).pvs) (h r0 b r' v : Nat)
    (hpc : Out.vote tPrecommit h r0 b ∈ outs s0 is) (hb0 : b ≠ 0)
    (hpv : Out.vote tPrevote h r' v ∈ (stepCore (run s0 is) i).out) (hne : v ≠ b) :
    unlockingPolka (cfgOf (run s0 is).powers byz) p b r0 r' = true := by
  have hgr := run_Good is s0 hg ht
  rcases node_prevote_respects_precommits s0 is i hg.1 ht hti h r0 b r' v hpc hb0 hpv with e | hrel
  · exact absurd e hne
  · have hsp := Spec_unfold hgr.1 (stepCore_Spec (run s0 is) i hti)
    have hok : ∀ q, VOK (run s0 is).powers ((stepCore (run s0 is) i).pvs q) := by
      intro q
      have := (hsp.2.2.2.1 hgr.2 q).1
      rwa [hsp.2.2.1] at this
    exact released_gives_unlockingPolka _ byz p _ b r0 r' hok hs hrel

/-! ## `Seen` is checkable, and the theorems are not vacuous -/

theorem alookup_mem {α : Type} : ∀ {l : List (Nat × α)} {k : Nat} {a : α}, alookup l k = some a → (k, a) ∈ l
  | [], _, _, h => by simp [alookup] at h
  | (k', a') :: rest, k, a, h => by
    simp only [alookup] at h
    split at h
    · rename_i e; cases h; subst e; simp
    · exact List.mem_cons_of_mem _ (alookup_mem h)

/-- executable form of `Seen` for the prevote tables of a state: every recorded voter of every block of every round has its event in `p` -/
def seenPvB (p : List Event) (s : St) : Bool :=
  s.rvs.all (fun x => x.2.pv.byBlock.all (fun y => y.2.who.all (fun i => p.contains (Event.prevote i x.1 (optV y.1)))))

theorem seen_of_B {p : List Event} {s : St} (h : seenPvB p s = true) : Seen Event.prevote p s.pvs := by
  intro r v bv i hb hi
  unfold St.pvs St.rv at hb
  cases hr : alookup s.rvs r with
  | none => rw [hr] at hb; simp [RV.empty, VSet.empty, alookup] at hb
  | some rv =>
    rw [hr] at hb
    simp only [Option.getD_some] at hb
    have h1 := alookup_mem hr
    have h2 := alookup_mem hb
    unfold seenPvB at h
    rw [List.all_eq_true] at h
    have h3 := h _ h1
    rw [List.all_eq_true] at h3
    have h4 := h3 _ h2
    rw [List.all_eq_true] at h4
    exact List.contains_iff_mem.1 (h4 i hi)

/-- the three prevotes of `exRun` as a global history -/
def exP : List Event := [.prevote 0 0 (some 7), .prevote 1 0 (some 7), .prevote 2 0 (some 7)]

/-- non-vacuity of the `…_in_history` theorems: on the concrete run the hypotheses (`Good`, `WellTimed`, `Seen`) hold and the node does
emit the precommit whose polka the theorem finds in the history -/
example : Good (run exInit (exRun.take 5)) ∧ WellTimed (run exInit (exRun.take 5)) (.vote tPrevote 1 0 2 7 1 2 true) ∧
    Seen Event.prevote exP (stepCore (run exInit (exRun.take 5)) (.vote tPrevote 1 0 2 7 1 2 true)).pvs ∧
    Out.vote tPrecommit 1 0 7 ∈ (stepCore (run exInit (exRun.take 5)) (.vote tPrevote 1 0 2 7 1 2 true)).out ∧
    polka (cfgOf [1, 1, 1, 1] (fun _ => false)) exP 0 (some 7) = true :=
  ⟨run_Good _ _ (initSt_Good _ _ _ _ _) (timed_of_B _ _ (by decide)), wellTimed_of_B (by decide), seen_of_B (by decide), by decide, by decide⟩

end Props.C01Node
