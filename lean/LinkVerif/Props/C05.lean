/-
C05 — Block execution is a deterministic function of the prior state and the block.

What a theorem can carry here (DESIGN.md, C05): the EVM/WASM interpreters are not modelled; the proofs target the
places where Go lets nondeterminism in — map iteration order feeding the state hash, and the parallel pre-check whose
worker count depends on the machine.  Replica agreement (proposer vs validator path, trie vs kv mode, warm vs cold cache,
decoded blocks, GOMAXPROCS, re-execution) is checked on the real application by the harness.
-/
import LinkVerif.Model.StateHash
import LinkVerif.Props.C19Order
import LinkVerif.Gen.C05Facts

namespace Props.C05
open Model.KV Model.StateHash Props.C19

theorem leB_trans (a b c : Bytes) (h₁ : leB a b = true) (h₂ : leB b c = true) : leB a c = true := by
  unfold leB at *
  rw [ble_iff] at *
  rcases h₁ with h₁ | rfl
  · rcases h₂ with h₂ | rfl
    · exact Or.inl (blt_trans h₁ h₂)
    · exact Or.inl h₁
  · exact h₂

theorem leB_total (a b : Bytes) : (leB a b || leB b a) = true := by
  unfold leB
  rcases blt_total a b with h | h | h
  · have : ble a b = true := (ble_iff a b).mpr (Or.inl h); simp [this]
  · subst h; have : ble a a = true := (ble_iff a a).mpr (Or.inr rfl); simp [this]
  · have : ble b a = true := (ble_iff b a).mpr (Or.inl h); simp [this]

theorem leB_antisymm (a b : Bytes) (h₁ : leB a b = true) (h₂ : leB b a = true) : a = b := by
  unfold leB at *
  rw [ble_iff] at *
  rcases h₁ with h₁ | h₁
  · rcases h₂ with h₂ | h₂
    · have := blt_asymm h₁; rw [h₂] at this; cases this
    · exact h₂.symm
  · exact h₁

/-- sorting by `bytes.Compare` forgets the order in which the records were pushed (duplicates included) -/
theorem sort_perm {us vs : List Bytes} (h : us.Perm vs) : us.mergeSort leB = vs.mergeSort leB := by
  apply List.Perm.eq_of_pairwise (le := fun a b => leB a b = true)
  · intro a b _ _ hab hba; exact leB_antisymm a b hab hba
  · exact List.pairwise_mergeSort leB_trans leB_total us
  · exact List.pairwise_mergeSort leB_trans leB_total vs
  · exact (List.mergeSort_perm us leB).trans (h.trans (List.mergeSort_perm vs leB).symm)

/-- C05, state hash: for ANY hash function, any two orders in which `Finalise` / `updateTrie` walk their maps (any
permutation of the same multiset of update records) give the same state hash -/
theorem stateHash_perm (H : Bytes → Bytes) {us vs : List Bytes} (h : us.Perm vs) : hashOf H us = hashOf H vs := by
  unfold hashOf; rw [sort_perm h]

/-- in particular the reverse walk, or any rotation -/
theorem stateHash_reverse (H : Bytes → Bytes) (us : List Bytes) : hashOf H us.reverse = hashOf H us :=
  stateHash_perm H (List.reverse_perm us)

/-! ## the parallel pre-check does not depend on the number of workers -/

theorem worker_none_of_all_ok (check : Nat → Option String) (n offset : Nat) (hall : ∀ i, i < n → check i = none) :
    ∀ fuel i, worker check n offset fuel i = none := by
  intro fuel
  induction fuel with
  | zero => intro i; rfl
  | succ f ih =>
    intro i
    unfold worker
    by_cases hi : i < n
    · simp only [hi, if_true, hall i hi]; exact ih _
    · simp only [hi, if_false]

/-- a worker that reports nothing has checked every index of its stride -/
theorem worker_none_covers (check : Nat → Option String) (n offset : Nat) (hoff : 0 < offset) :
    ∀ fuel i, n ≤ i + fuel * offset → worker check n offset fuel i = none → ∀ k, i + k * offset < n → check (i + k * offset) = none := by
  intro fuel
  induction fuel with
  | zero =>
    intro i hn _ k hk
    have : i + k * offset ≥ i := Nat.le_add_right _ _
    omega
  | succ f ih =>
    intro i hn hw k hk
    unfold worker at hw
    have hi : i < n := by
      have : i ≤ i + k * offset := Nat.le_add_right _ _
      omega
    simp only [hi, if_true] at hw
    cases hc : check i with
    | some e => rw [hc] at hw; cases hw
    | none =>
      rw [hc] at hw
      cases k with
      | zero => simpa using hc
      | succ k' =>
        have hn' : n ≤ (i + offset) + f * offset := by
          have : (f + 1) * offset = f * offset + offset := Nat.succ_mul f offset
          omega
        have := ih (i + offset) hn' hw k' (by
          have : (k' + 1) * offset = k' * offset + offset := Nat.succ_mul k' offset
          omega)
        have e : i + offset + k' * offset = i + (k' + 1) * offset := by
          have : (k' + 1) * offset = k' * offset + offset := Nat.succ_mul k' offset
          omega
        rwa [e] at this

theorem precheck_none_of_all_ok (check : Nat → Option String) (n offset : Nat) (hall : ∀ i, i < n → check i = none) :
    precheck check n offset = none := by
  unfold precheck slots
  have : ((List.range offset).map (fun w => worker check n offset n w)).filterMap id = [] := by
    rw [List.filterMap_eq_nil_iff]
    intro x hx
    simp only [List.mem_map, List.mem_range] at hx
    obtain ⟨w, _, rfl⟩ := hx
    simp [worker_none_of_all_ok check n offset hall n w]
  rw [this]; rfl

/-- C05, pre-check: whatever the worker count (it is `(NumCPU+3)/4`, a property of the machine, not of the chain), the
block passes the pre-check exactly when every transaction passes its individual check -/
theorem precheck_ok_iff_all_ok (check : Nat → Option String) (n offset : Nat) (hoff : 0 < offset) :
    precheck check n offset = none ↔ ∀ i, i < n → check i = none := by
  constructor
  · intro h i hi
    unfold precheck slots at h
    have hnil : ((List.range offset).map (fun w => worker check n offset n w)).filterMap id = [] := by
      cases hl : ((List.range offset).map (fun w => worker check n offset n w)).filterMap id with
      | nil => rfl
      | cons a t => rw [hl] at h; cases h
    rw [List.filterMap_eq_nil_iff] at hnil
    -- the worker of index i % offset covers i
    have hw : worker check n offset n (i % offset) = none := by
      have := hnil (worker check n offset n (i % offset)) (by
        simp only [List.mem_map, List.mem_range]
        exact ⟨i % offset, Nat.mod_lt _ hoff, rfl⟩)
      simpa using this
    have hcov := worker_none_covers check n offset hoff n (i % offset) (by
      have : n * offset ≥ n := Nat.le_mul_of_pos_right n hoff
      omega) hw (i / offset) (by
      have : i % offset + i / offset * offset = i := by
        rw [Nat.mul_comm]; exact Nat.mod_add_div i offset
      omega)
    have e : i % offset + i / offset * offset = i := by
      rw [Nat.mul_comm]; exact Nat.mod_add_div i offset
    rwa [e] at hcov
  · exact precheck_none_of_all_ok check n offset

/-- two machines with different core counts accept the same blocks -/
theorem precheck_machine_independent (check : Nat → Option String) (n o₁ o₂ : Nat) (h₁ : 0 < o₁) (h₂ : 0 < o₂) :
    (precheck check n o₁ = none) ↔ (precheck check n o₂ = none) := by
  rw [precheck_ok_iff_all_ok check n o₁ h₁, precheck_ok_iff_all_ok check n o₂ h₂]

/-! ## the tie (T2): every `range` over a map in the block-execution packages is vetted -/

/-- the vetted table: (file, function, ranged expression, why the iteration order cannot reach a consensus-visible result) -/
def vetted : List (String × String × String × String) := [
  ("app/app.go", "LinkApplication.clearProcessResult", "app.processMap", "deletes entries of a local cache; set operation"),
  ("app/app.go", "LinkApplication.clearProcessResult", "app.processMap", "filters a local cache into a new map; set operation"),
  ("state/keyvalue.go", "wrappedTrie.Commit", "kvTrie.updates", "distinct keys into one DB batch (commutative); the undo log written in this order is node-local"),
  ("state/state_object.go", "stateObject.updateTrie", "c.dirtyStorage", "TryUpdate/TryDelete records feed the heap sort of wrappedTrie.Hash (stateHash_perm) and an MPT over distinct keys (canonical, C10)"),
  ("state/state_object.go", "stateObject.deepCopy", "c.data.Tokens", "copies a map (fix 9e64f31: the copy gets its own Tokens map)"),
  ("state/state_object.go", "stateObject.TokenBalances", "c.data.Tokens", "callers: gasSuicide sums the (single) LKC entry; opSuicide credits distinct tokens (commutative) and sorts before emitting records; wasm tcSelfDestruct appends balance records in this order — node-local index, not in any block hash; RPC"),
  ("state/statedb.go", "StateDB.Logs", "s.logs", "only used by vm/wasm/wasm-run (a tool)"),
  ("state/statedb.go", "StateDB.Copy", "s.journal.dirties", "copies a map"),
  ("state/statedb.go", "StateDB.Copy", "s.stateObjectsDirty", "copies a map"),
  ("state/statedb.go", "StateDB.Copy", "s.logs", "copies a map"),
  ("state/statedb.go", "StateDB.Copy", "logs", "false positive of the syntactic resolution: a slice (map value)"),
  ("state/statedb.go", "StateDB.Copy", "s.preimages", "copies a map"),
  ("state/statedb.go", "StateDB.Finalise", "s.journal.dirties", "per-address finalisation: each step touches its own object; storage updates feed the heap sort (stateHash_perm)"),
  ("state/statedb.go", "StateDB.Commit", "s.journal.dirties", "marks dirty objects; set operation"),
  ("state/statedb.go", "StateDB.Commit", "s.stateObjects", "per-object commit: distinct keys, code blobs content-addressed"),
  ("types/blacklist.go", "blacklist.GetBlackAddrs", "b.addrs", "RPC listing only"),
  ("types/blacklist.go", "blacklist.IsBlackAddress", "addrs", "false positive of the syntactic resolution: a variadic slice parameter named like the map field"),
  ("vm/evm/logger.go", "WriteTrace", "log.Storage", "debug trace output")
]

open Gen.C05Facts in
/-- the regenerated list of `for … range <map>` statements equals the vetted table (file, function, ranged expression); each
vetted site feeds a sort, a commutative accumulation, or is not consensus-visible (reason in the table below) -/
theorem map_range_sites_vetted : mapRangeSites = vetted.map (fun v => (v.1, v.2.1, v.2.2.1)) := by decide

open Gen.C05Facts in
/-- no function of app/app.go other than the process-result cache cleaner ranges over a map: the evidence fold
(`processBlockEvidence`), the election (`calculateCandidates`, `getAllCandidates`), the bookkeeping between elections
(`updateCandidatesbyOrder`, `recoverCandidates`), `getValidators`, the special-transaction check and the parallel pre-check walk
slices in the order the block or the contract storage fixes (the maps they use — `CandidatesMap`, `lastVals` — are only looked up) -/
theorem app_walks_no_map_but_the_result_cache :
    ∀ s ∈ mapRangeSites, s.1 = "app/app.go" → s.2.1 = "LinkApplication.clearProcessResult" := by decide

/-- no draw from the process-global `math/rand` source anywhere in block execution or in the candidate election: the shuffle
of `RandomSort` uses its own generator seeded from the block (`rand.New(rand.NewSource(salt))`), so the election is a function
of the block and the candidate set and not of what other goroutines drew (T2 fact, regenerated; a sixth-wave seeded defect —
`rand.Seed(salt)` + `rand.Float64()` — was invisible to every run: the order only differs under concurrent use of the source) -/
theorem no_global_random_source : Gen.C05Facts.globalRandSites = [] := by decide

/-! ## non-vacuity -/
example : hashOf id [[2, 1], [1, 9], [2, 0]] = hashOf id [[2, 0], [2, 1], [1, 9]] :=
  stateHash_perm id (by decide)
example : precheck (fun i => if i = 5 then some "bad" else none) 8 3 = some "bad" := by decide
example : precheck (fun i => if i = 5 then some "bad" else none) 8 1 = some "bad" := by decide
example : precheck (fun _ => none) 8 3 = none := by decide

end Props.C05
