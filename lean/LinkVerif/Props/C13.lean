/-
C13 — committed history survives crashes and pruning.  Theorems over Model.Stores; facts from Gen.C13Facts.
-/
import LinkVerif.Model.Stores
import LinkVerif.Gen.C13Facts

namespace Props.C13
open Model.Stores

/-! ## T2 facts: the source still has the shape the model mirrors -/

/-- app.CommitBlock: state commit(s), balance records, block store, confidential-output store, mempool — in this order -/
theorem commit_order_fact :
    Gen.C13Facts.commitBlockCalls = ["Commit", "Commit", "Save", "SaveBlock", "SaveUtxo", "Update"] := by decide

/-- BlockStore.SaveBlock: receipts / results / transaction index (goroutines, joined), then the batch, then the descriptor -/
theorem saveblock_order_fact :
    Gen.C13Facts.saveBlockCalls = ["saveReceipts", "saveTxsResult", "SaveTxEntry", "Wait", "Commit", "Save", "SetSync"] := by decide

/-- UtxoStore: key images, then outputs (two batches), then the per-token maximum sequence -/
theorem saveutxo_order_fact :
    Gen.C13Facts.saveUtxoCalls = ["SaveKImages", "SaveUtxoOutputs"] ∧
    Gen.C13Facts.saveOutputsCalls = ["Commit", "Commit", "saveTokenUtxoOutputSeq"] := by decide

/-- the guards and bounds of the two pruning loops are the ones `pruneB` / `pruneS` model -/
theorem prune_loops_fact :
    Gen.C13Facts.pruneBlocksGuards = ["maxHeight < keepLatestBlocks || maxHeight-keepLatestBlocks < minHeight"] ∧
    Gen.C13Facts.pruneBlocksLoops = ["minHeight <= maxHeight-keepLatestBlocks"] ∧
    Gen.C13Facts.pruneStatusGuards = ["maxHeight < minHeight+keepLatestBlocks"] ∧
    Gen.C13Facts.pruneStatusLoops = ["minHeight < maxHeight"] ∧
    Gen.C13Facts.pruneStatusDeletes =
      ["minHeight != keepVals => cs.blockExec.db.Delete(calcValidatorsKey(minHeight))",
       "minHeight != keepParams => cs.blockExec.db.Delete(calcConsensusParamsKey(minHeight))"] ∧
    Gen.C13Facts.pruneStatusAssigns =
      ["minHeight := cs.startDeleteHeight", "maxHeight := cs.Height", "maxHeight -= keepLatestBlocks",
       "info := loadValidatorsInfo(cs.blockExec.db, maxHeight); info != nil && info.ValidatorSet == nil => keepVals = info.LastHeightChanged",
       "info := loadConsensusParamsInfo(cs.blockExec.db, maxHeight); info != nil && info.ConsensusParams == (types.ConsensusParams{}) => keepParams = info.LastHeightChanged",
       "cs.startDeleteHeight = minHeight"] := by
  refine ⟨rfl, rfl, rfl, rfl, rfl, rfl⟩

/-- saveStatus: the records of the next height are written before the status that names it -/
theorem savestatus_order_fact :
    Gen.C13Facts.saveStatusCalls = ["saveValidatorsInfo", "saveConsensusParamsInfo", "SetSync(statusKey)", "saveLastTenStatus"] := by decide

/-- whatever write of the status save a crash cuts, a status that survived finds the records of its next height -/
theorem status_never_ahead_of_records (k : Nat) : statusAdvanced k = true → nextRecords k = true := by
  simp only [statusAdvanced, nextRecords, applied, Bool.and_eq_true, decide_eq_true_eq]
  omega

example : statusAdvanced 4 = true ∧ statusAdvanced 3 = false ∧ nextRecords 3 = true := by decide

/-! ## Part 1: pruning keeps the retention window readable -/

/-- invariant of the record structure: pointers are monotone, point at or below their height, and point at full records;
deleted status records lie below the status loop's start height; the full parameter record (height 1) is never deleted -/
structure Inv (s : St) : Prop where
  ptr_pos : ∀ h, 1 ≤ h → h ≤ s.H + 1 → 1 ≤ s.ptr h
  ptr_le : ∀ h, 1 ≤ h → h ≤ s.H + 1 → s.ptr h ≤ h
  ptr_mono : ∀ a b, 1 ≤ a → a ≤ b → b ≤ s.H + 1 → s.ptr a ≤ s.ptr b
  ptr_idem : ∀ h, 1 ≤ h → h ≤ s.H + 1 → s.ptr (s.ptr h) = s.ptr h
  startS_le : s.startS ≤ s.H + 1
  delV_lt : ∀ h, s.delV h = true → h < s.startS
  delP_lt : ∀ h, s.delP h = true → h < s.startS
  delP_one : s.delP 1 = false

/-- the retention window of K blocks: nothing inside it has been deleted, and no record inside it points at a deleted one -/
structure Win (K : Nat) (s : St) : Prop where
  wB : ∀ h, s.delB h = true → h + K ≤ s.H
  wV : ∀ h, s.delV h = true → h + K ≤ s.H
  wP : ∀ h, s.delP h = true → h + K ≤ s.H
  wT : ∀ h, 1 ≤ h → h ≤ s.H + 1 → s.H + 1 ≤ h + K → s.delV (s.ptr h) = false

theorem init_inv : Inv ({} : St) :=
  { ptr_pos := fun _ _ _ => Nat.le_refl 1, ptr_le := fun _ h _ => h, ptr_mono := fun _ _ _ _ _ => Nat.le_refl 1,
    ptr_idem := fun _ _ _ => rfl, startS_le := Nat.zero_le _, delV_lt := fun _ h => by simp at h,
    delP_lt := fun _ h => by simp at h, delP_one := rfl }

theorem init_win (K : Nat) : Win K ({} : St) :=
  { wB := fun _ h => by simp at h, wV := fun _ h => by simp at h, wP := fun _ h => by simp at h, wT := fun _ _ _ _ => rfl }

theorem commit_inv {s : St} (c : Bool) (hi : Inv s) : Inv (commit s c) := by
  have hp1 := hi.ptr_pos (s.H + 1) (by omega) (by omega)
  have hl1 := hi.ptr_le (s.H + 1) (by omega) (by omega)
  refine ⟨?_, ?_, ?_, ?_, ?_, ?_, ?_, ?_⟩
  · intro h h1 h2
    simp only [commit] at *
    by_cases hh : h = s.H + 2
    · simp only [hh, if_true]; cases c <;> simp <;> omega
    · simp only [hh, if_false]; exact hi.ptr_pos h h1 (by omega)
  · intro h h1 h2
    simp only [commit] at *
    by_cases hh : h = s.H + 2
    · simp only [hh, if_true]; cases c <;> simp <;> omega
    · simp only [hh, if_false]; exact hi.ptr_le h h1 (by omega)
  · intro a b h1 h2 h3
    simp only [commit] at *
    by_cases hb : b = s.H + 2
    · by_cases ha : a = s.H + 2
      · simp [ha, hb]
      · simp only [ha, hb, if_true, if_false]
        have hale := hi.ptr_le a h1 (by omega)
        have ham := hi.ptr_mono a (s.H + 1) h1 (by omega) (by omega)
        cases c <;> simp <;> omega
    · have ha : a ≠ s.H + 2 := by omega
      simp only [ha, hb, if_false]; exact hi.ptr_mono a b h1 h2 (by omega)
  · intro h h1 h2
    simp only [commit] at *
    by_cases hh : h = s.H + 2
    · cases c
      · have hne : s.ptr (s.H + 1) ≠ s.H + 2 := by omega
        simp only [hh, if_true, Bool.false_eq_true, if_false, hne]
        exact hi.ptr_idem (s.H + 1) (by omega) (by omega)
      · simp [hh]
    · have hle := hi.ptr_le h h1 (by omega)
      have hne : s.ptr h ≠ s.H + 2 := by omega
      simp only [hh, if_false, hne]
      exact hi.ptr_idem h h1 (by omega)
  · have := hi.startS_le; simp only [commit]; omega
  · exact hi.delV_lt
  · exact hi.delP_lt
  · exact hi.delP_one

theorem commit_win {s : St} {K : Nat} (c : Bool) (hi : Inv s) (hw : Win K s) : Win K (commit s c) := by
  refine ⟨?_, ?_, ?_, ?_⟩
  · intro h hd; have := hw.wB h hd; simp only [commit]; omega
  · intro h hd; have := hw.wV h hd; simp only [commit]; omega
  · intro h hd; have := hw.wP h hd; simp only [commit]; omega
  · intro h h1 h2 h3
    simp only [commit] at *
    by_cases hh : h = s.H + 2
    · cases c
      · simp only [hh, if_true, Bool.false_eq_true, if_false]
        exact hw.wT (s.H + 1) (by omega) (by omega) (by omega)
      · simp only [hh, if_true]
        cases hd : s.delV (s.H + 2) with
        | false => rfl
        | true => have := hi.delV_lt _ hd; have := hi.startS_le; omega
    · simp only [hh, if_false]
      exact hw.wT h h1 (by omega) (by omega)

theorem pruneB_inv {s : St} (K : Nat) (hi : Inv s) : Inv (pruneB s K) := by
  unfold pruneB; split
  · exact hi
  · exact ⟨hi.ptr_pos, hi.ptr_le, hi.ptr_mono, hi.ptr_idem, hi.startS_le, hi.delV_lt, hi.delP_lt, hi.delP_one⟩

theorem pruneB_win {s : St} {K K' : Nat} (hk : K ≤ K') (hw : Win K s) : Win K (pruneB s K') := by
  unfold pruneB; split
  · exact hw
  · rename_i hc
    refine ⟨?_, hw.wV, hw.wP, hw.wT⟩
    intro h hd
    simp only [Bool.or_eq_true, Bool.and_eq_true, decide_eq_true_eq] at hd
    rcases hd with hd | ⟨_, hd⟩
    · exact hw.wB h hd
    · simp only [not_or, Nat.not_lt] at hc
      show h + K ≤ s.H
      omega

theorem pruneS_inv {s : St} (K : Nat) (hi : Inv s) : Inv (pruneS s K) := by
  unfold pruneS
  simp only
  split
  · exact hi
  · rename_i hc
    have hc : s.startS + K ≤ s.H + 1 := by omega
    refine ⟨hi.ptr_pos, hi.ptr_le, hi.ptr_mono, hi.ptr_idem, ?_, ?_, ?_, ?_⟩
    · show s.H + 1 - K ≤ s.H + 1; omega
    · intro h hd
      simp only [Bool.or_eq_true, Bool.and_eq_true, decide_eq_true_eq] at hd
      show h < s.H + 1 - K
      rcases hd with hd | ⟨⟨_, hd⟩, _⟩
      · have := hi.delV_lt h hd; omega
      · exact hd
    · intro h hd
      simp only [Bool.or_eq_true, Bool.and_eq_true, decide_eq_true_eq] at hd
      show h < s.H + 1 - K
      rcases hd with hd | ⟨⟨_, hd⟩, _⟩
      · have := hi.delP_lt h hd; omega
      · exact hd
    · show (s.delP 1 || _) = false
      rw [hi.delP_one, Bool.false_or]
      by_cases h2 : 1 < s.H + 1 - K
      · have hpres : presentP s (s.H + 1 - K) = true := by
          simp only [presentP, Bool.and_eq_true, decide_eq_true_eq, Bool.not_eq_true']
          refine ⟨⟨by omega, by omega⟩, ?_⟩
          cases hd : s.delP (s.H + 1 - K) with
          | false => rfl
          | true => have := hi.delP_lt _ hd; omega
        have hne : (s.H + 1 - K != 1) = true := by simp; omega
        simp [hpres, hne]
      · simp only [Bool.and_eq_false_imp, Bool.and_eq_true, decide_eq_true_eq]
        intro ⟨_, h3⟩; omega

theorem pruneS_win {s : St} {K K' : Nat} (hk : K ≤ K') (hi : Inv s) (hw : Win K s) : Win K (pruneS s K') := by
  unfold pruneS
  simp only
  split
  · exact hw
  · rename_i hc
    have hc : s.startS + K' ≤ s.H + 1 := by omega
    refine ⟨hw.wB, ?_, ?_, ?_⟩
    · intro h hd
      simp only [Bool.or_eq_true, Bool.and_eq_true, decide_eq_true_eq] at hd
      show h + K ≤ s.H
      rcases hd with hd | ⟨⟨_, hd⟩, _⟩
      · exact hw.wV h hd
      · omega
    · intro h hd
      simp only [Bool.or_eq_true, Bool.and_eq_true, decide_eq_true_eq] at hd
      show h + K ≤ s.H
      rcases hd with hd | ⟨⟨_, hd⟩, _⟩
      · exact hw.wP h hd
      · omega
    · intro h h1 h2 h3
      have h2 : h ≤ s.H + 1 := h2
      have h3 : s.H + 1 ≤ h + K := h3
      show (s.delV (s.ptr h) || _) = false
      rw [hw.wT h h1 h2 h3, Bool.false_or]
      -- suppose the pointer target were deleted by this run
      cases hdel : (decide (s.startS ≤ s.ptr h) && decide (s.ptr h < s.H + 1 - K') &&
          (s.ptr h != if (presentV s (s.H + 1 - K') && s.ptr (s.H + 1 - K') != s.H + 1 - K') = true then s.ptr (s.H + 1 - K') else 0)) with
      | false => rfl
      | true =>
        exfalso
        simp only [Bool.and_eq_true, decide_eq_true_eq, bne_iff_ne, ne_eq] at hdel
        obtain ⟨⟨hge, hlt⟩, hne⟩ := hdel
        -- first := H+1-K' lies in [1, h]
        have hf1 : 1 ≤ s.H + 1 - K' := by have := hi.ptr_pos h h1 h2; omega
        have hfh : s.H + 1 - K' ≤ h := by omega
        have hm1 := hi.ptr_mono (s.H + 1 - K') h hf1 hfh h2
        have hcpos := hi.ptr_pos h h1 h2
        have hm2 := hi.ptr_mono (s.ptr h) (s.H + 1 - K') hcpos (by omega) (by omega)
        rw [hi.ptr_idem h h1 h2] at hm2
        have heq : s.ptr (s.H + 1 - K') = s.ptr h := by omega
        have hpres : presentV s (s.H + 1 - K') = true := by
          simp only [presentV, Bool.and_eq_true, decide_eq_true_eq, Bool.not_eq_true']
          refine ⟨⟨hf1, by omega⟩, ?_⟩
          cases hd : s.delV (s.H + 1 - K') with
          | false => rfl
          | true => have := hi.delV_lt _ hd; omega
        rw [if_pos ⟨hpres, by omega⟩] at hne
        exact hne heq.symm

theorem step_inv {s : St} (op : Op) (hi : Inv s) : Inv (step s op) := by
  cases op with
  | commit c => exact commit_inv c hi
  | prune K => exact pruneS_inv K (pruneB_inv K hi)

theorem step_win {s : St} {K : Nat} (op : Op) (hop : ∀ K', op = .prune K' → K ≤ K') (hi : Inv s) (hw : Win K s) :
    Win K (step s op) := by
  cases op with
  | commit c => exact commit_win c hi hw
  | prune K' => exact pruneS_win (hop K' rfl) (pruneB_inv K' hi) (pruneB_win (hop K' rfl) hw)

theorem run_inv_win {K : Nat} (ops : List Op) (hops : ∀ K', Op.prune K' ∈ ops → K ≤ K') (s : St) (hi : Inv s) (hw : Win K s) :
    Inv (run s ops) ∧ Win K (run s ops) := by
  induction ops generalizing s with
  | nil => exact ⟨hi, hw⟩
  | cons op rest ih =>
    simp only [run, List.foldl_cons]
    exact ih (fun K' h => hops K' (List.mem_cons_of_mem _ h)) (step s op) (step_inv op hi)
      (step_win op (fun K' h => hops K' (by rw [h]; exact List.mem_cons_self)) hi hw)

/-- inside the window everything is readable: the block (and its commits, receipts, index entries), the validator set in
force (the one recorded at the height of its last change) and the parameters -/
theorem window_readable {s : St} {K : Nat} (hi : Inv s) (hw : Win K s) (h : Nat) (h1 : 1 ≤ h) (h3 : s.H < h + K) :
    (h ≤ s.H → loadBlock s h = true) ∧
    (h ≤ s.H + 1 → loadVals s h = .found (s.ptr h) ∧ loadParams s h = .found 1) := by
  constructor
  · intro h2
    simp only [loadBlock, Bool.and_eq_true, decide_eq_true_eq, Bool.not_eq_true']
    refine ⟨⟨h1, h2⟩, ?_⟩
    cases hd : s.delB h with
    | false => rfl
    | true => have := hw.wB h hd; omega
  · intro h2
    have hv : presentV s h = true := by
      simp only [presentV, Bool.and_eq_true, decide_eq_true_eq, Bool.not_eq_true']
      refine ⟨⟨h1, h2⟩, ?_⟩
      cases hd : s.delV h with
      | false => rfl
      | true => have := hw.wV h hd; omega
    have hp : presentP s h = true := by
      simp only [presentP, Bool.and_eq_true, decide_eq_true_eq, Bool.not_eq_true']
      refine ⟨⟨h1, h2⟩, ?_⟩
      cases hd : s.delP h with
      | false => rfl
      | true => have := hw.wP h hd; omega
    constructor
    · simp only [loadVals, hv, Bool.not_true, Bool.false_eq_true, if_false]
      by_cases he : s.ptr h = h
      · simp [he]
      · have hpv : presentV s (s.ptr h) = true := by
          simp only [presentV, Bool.and_eq_true, decide_eq_true_eq, Bool.not_eq_true']
          have := hi.ptr_pos h h1 h2
          have := hi.ptr_le h h1 h2
          exact ⟨⟨by omega, by omega⟩, hw.wT h h1 h2 (by omega)⟩
        simp [he, hpv]
    · simp only [loadParams, hp, Bool.not_true, Bool.false_eq_true, if_false]
      by_cases he : h = 1
      · simp [he]
      · have hp1 : presentP s 1 = true := by
          simp only [presentP, Bool.and_eq_true, decide_eq_true_eq, Bool.not_eq_true']
          exact ⟨⟨Nat.le_refl 1, by omega⟩, hi.delP_one⟩
        simp [he, hp1]

/-- **C13, pruning clause.**  For every history of block commits (with validator changes at arbitrary heights) and pruning
runs whose retention windows are all at least K, every one of the last K heights — and the height being decided — is
readable: block records, the validator set in force there, the parameters.  Holds for all K, all chain lengths, all
change heights (the statement for the code after fixes 73260cb and c4498a3). -/
def C13_prune_statement : Prop :=
  ∀ (K : Nat) (ops : List Op), (∀ K', Op.prune K' ∈ ops → K ≤ K') →
    let s := run {} ops
    ∀ h, 1 ≤ h → s.H < h + K →
      (h ≤ s.H → loadBlock s h = true) ∧ (h ≤ s.H + 1 → loadVals s h = .found (s.ptr h) ∧ loadParams s h = .found 1)

theorem C13_prune : C13_prune_statement := by
  intro K ops hops s h h1 h3
  obtain ⟨hi, hw⟩ := run_inv_win ops hops {} init_inv (init_win K)
  exact window_readable hi hw h h1 h3

/-- no LoadValidators / LoadConsensusParams inside the window ever hits the PanicSanity branch, and the pointer found is the
height of the last change at or below h -/
theorem window_pointer_sound {s : St} (hi : Inv s) (h : Nat) (h1 : 1 ≤ h) (h2 : h ≤ s.H + 1) :
    s.ptr h ≤ h ∧ s.ptr (s.ptr h) = s.ptr h := ⟨hi.ptr_le h h1 h2, hi.ptr_idem h h1 h2⟩

/-- pruning only ever deletes below the window it was given (it never reaches into the last K' heights) -/
theorem prune_deletes_below {s : St} (K' : Nat) (hi : Inv s) (hw : Win 0 s) : Win 0 (prune s K') :=
  pruneS_win (Nat.zero_le _) (pruneB_inv K' hi) (pruneB_win (Nat.zero_le _) hw)

/-! non-vacuity: a chain of 10 blocks with validator changes at blocks 3 and 8, pruned with K = 3 at heights 7 and 10 -/
def nv_ops : List Op :=
  [.commit false, .commit false, .commit true, .commit false, .commit false, .commit false, .commit false, .prune 3,
   .commit true, .commit false, .commit false, .prune 3, .prune 20]

example : (run {} nv_ops).H = 10 := by decide
example : ((List.range 10).map (fun i => loadBlock (run {} nv_ops) (i + 1))) =
    [false, false, false, false, false, false, false, true, true, true] := by decide
example : ((List.range 11).map (fun i => loadVals (run {} nv_ops) (i + 1))) =
    [.missing, .missing, .missing, .found 4, .missing, .missing, .missing, .found 4, .found 9, .found 9, .found 9] := by decide
example : ((List.range 11).map (fun i => loadParams (run {} nv_ops) (i + 1))) =
    [.found 1, .missing, .missing, .missing, .missing, .missing, .missing, .found 1, .found 1, .found 1, .found 1] := by decide
/-- the record a retained height points to (height 4, below the window) was kept -/
example : loadVals (run {} nv_ops) 8 = .found 4 ∧ (run {} nv_ops).delV 4 = false ∧ (run {} nv_ops).delV 5 = true := by decide

/-! ## Part 2: crash points of one block commit -/

/-- the order the code writes in (facts above): transaction index < block records < descriptor < key images < outputs <
maximum sequence -/
def CodeOrder (q : Seq) : Prop :=
  0 < q.txIndex ∧ q.txIndex < q.blockRec ∧ q.blockRec < q.desc ∧ q.desc < q.keyImages ∧ q.keyImages < q.outputs ∧
  q.outputs < q.maxSeq ∧ q.maxSeq ≤ q.len

instance (q : Seq) : Decidable (CodeOrder q) := inferInstanceAs (Decidable (_ ∧ _))

/-- what C13 demands: whatever the block carries and wherever the crash falls, the stores agree after the restart -/
def C13_crash_statement : Prop := ∀ (q : Seq) (c : Content) (k : Nat), CodeOrder q → verdict q c k = []

/-- trie-mode sequence of a block with confidential transactions as the harness logs it (14 writes) -/
def cex_q : Seq := { len := 14, txIndex := 2, blockRec := 7, desc := 8, keyImages := 10, outputs := 11, maxSeq := 13 }
def cex_c : Content := { txs := 2, spends := 1, outs := 3 }

/-- false of the code: a crash right after the height descriptor (k = 9) leaves the confidential-output store one block
behind the block store, and the inputs the committed block spent can be spent again -/
theorem C13_crash_counterexample : ¬ C13_crash_statement := by
  intro h
  have := h cex_q cex_c 9 (by decide)
  exact absurd this (by decide)

theorem cex_verdict : verdict cex_q cex_c 9 =
    ["committed-spend-committed-again-after-restart", "utxo-store-behind-block-store"] := by decide
theorem cex_index : verdict cex_q cex_c 8 = ["tx-index-ahead"] := by decide

theorem applied_pos {p k : Nat} (hp : 0 < p) : applied p k = decide (p < k) := by simp [applied, hp]

theorem verdict_nil (q : Seq) (c : Content) (k : Nat) :
    verdict q c k = [] ↔ respend q c k = false ∧ txIndexAhead q c k = false ∧ utxoBehind q c k = false := by
  cases h1 : respend q c k <;> cases h2 : txIndexAhead q c k <;> cases h3 : utxoBehind q c k <;> simp [verdict, h1, h2, h3]

theorem txIndexAhead_iff (q : Seq) (c : Content) (k : Nat) (ho : CodeOrder q) :
    txIndexAhead q c k = true ↔ (0 < c.txs ∧ q.blockRec < k ∧ k ≤ q.desc) := by
  obtain ⟨o1, o2, o3, o4, o5, o6, o7⟩ := ho
  simp only [txIndexAhead, applied_pos o1, applied_pos (show 0 < q.blockRec by omega), applied_pos (show 0 < q.desc by omega),
    Bool.and_eq_true, Bool.not_eq_true', decide_eq_true_eq, decide_eq_false_iff_not]
  omega

theorem utxoBehind_iff (q : Seq) (c : Content) (k : Nat) (ho : CodeOrder q) :
    utxoBehind q c k = true ↔ (q.desc < k ∧ ((0 < c.spends ∧ k ≤ q.keyImages) ∨ (0 < c.outs ∧ k ≤ q.maxSeq))) := by
  obtain ⟨o1, o2, o3, o4, o5, o6, o7⟩ := ho
  simp only [utxoBehind, applied_pos (show 0 < q.desc by omega), applied_pos (show 0 < q.keyImages by omega),
    applied_pos (show 0 < q.outputs by omega), applied_pos (show 0 < q.maxSeq by omega),
    Bool.and_eq_true, Bool.or_eq_true, Bool.not_eq_true', decide_eq_true_eq, decide_eq_false_iff_not]
  omega

/-- a committed spend can be committed again exactly when the crash falls after the descriptor and not after the key-image batch -/
theorem respend_iff (q : Seq) (c : Content) (k : Nat) (ho : CodeOrder q) :
    respend q c k = true ↔ (0 < c.spends ∧ q.desc < k ∧ k ≤ q.keyImages) := by
  obtain ⟨o1, o2, o3, o4, o5, o6, o7⟩ := ho
  simp only [respend, applied_pos (show 0 < q.desc by omega), applied_pos (show 0 < q.keyImages by omega),
    Bool.and_eq_true, Bool.not_eq_true', decide_eq_true_eq, decide_eq_false_iff_not]
  omega

/-- exactly which crash points are inconsistent, for every sequence in the code's order and every block content -/
theorem crash_verdict_iff (q : Seq) (c : Content) (k : Nat) (ho : CodeOrder q) :
    verdict q c k = [] ↔
      ¬ ((0 < c.txs ∧ q.blockRec < k ∧ k ≤ q.desc) ∨
         (q.desc < k ∧ ((0 < c.spends ∧ k ≤ q.keyImages) ∨ (0 < c.outs ∧ k ≤ q.maxSeq)))) := by
  rw [verdict_nil, Bool.eq_false_iff, Bool.eq_false_iff, Bool.eq_false_iff, Ne, Ne, Ne,
    respend_iff q c k ho, txIndexAhead_iff q c k ho, utxoBehind_iff q c k ho]
  obtain ⟨o1, o2, o3, o4, o5, o6, o7⟩ := ho
  omega

/-- **C13, crash clause, partial.**  Consistent after a crash before the block records are durable or after the last
confidential-store write, and — for blocks without transactions — at every crash point.  An acknowledged commit
(no crash inside the sequence) is never lost: the descriptor is written, the restart height is the new height. -/
theorem crash_consistent_partial (q : Seq) (c : Content) (k : Nat) (ho : CodeOrder q)
    (hk : k ≤ q.blockRec ∨ q.maxSeq < k ∨ (c.txs = 0 ∧ c.spends = 0 ∧ c.outs = 0)) : verdict q c k = [] := by
  rw [crash_verdict_iff q c k ho]
  obtain ⟨o1, o2, o3, o4, o5, o6, o7⟩ := ho
  rintro (⟨_, _, _⟩ | ⟨_, ⟨_, _⟩ | ⟨_, _⟩⟩) <;> omega

theorem acknowledged_not_lost (q : Seq) (c : Content) (k : Nat) (ho : CodeOrder q) (hk : q.len < k) :
    heightAfter q k = 1 ∧ verdict q c k = [] := by
  have hv := crash_consistent_partial q c k ho (Or.inr (Or.inl (by have := ho.2.2.2.2.2.2; omega)))
  obtain ⟨o1, o2, o3, o4, o5, o6, o7⟩ := ho
  refine ⟨?_, hv⟩
  simp only [heightAfter, applied, Bool.and_eq_true, decide_eq_true_eq]
  rw [if_pos ⟨by omega, by omega⟩]

/-- the restart height is the old or the new height, never anything else -/
theorem height_old_or_new (q : Seq) (k : Nat) : heightAfter q k = 0 ∨ heightAfter q k = 1 := by
  unfold heightAfter; split <;> simp

example : CodeOrder cex_q := by decide
example : verdict cex_q cex_c 7 = [] ∧ verdict cex_q cex_c 14 = [] ∧ verdict cex_q cex_c 15 = [] := by decide
example : verdict cex_q { txs := 1, spends := 0, outs := 0 } 10 = [] := by decide

/-! ## Part 4: the consensus status reflects the same prefix as the application after every restart -/

theorem finalize_order_fact :
    Gen.C13Facts.finalizeCommitCalls = ["CommitBlock", "WriteSync", "ApplyBlock"] ∧
    Gen.C13Facts.applyBlockSteps = ["updateStatus", "SaveStatus"] ∧
    Gen.C13Facts.startupRebuild =
      ["if status.LastBlockHeight+1 == appHeight", "LoadBlockMeta", "LoadBlock", "GetValidators", "ApplyBlock"] := by decide

/-- at rest the three heights agree -/
def Synced (s : Heights) : Prop := s.status = s.app ∧ s.walEnd ≤ s.app ∧ s.app ≤ s.walEnd + 1

/-- whatever step of finalizeCommit a crash cuts, the restarted node's status is at the application's height; the WAL marker
may be one behind (crash between the application commit and the marker: catchupReplay then finds no marker for the
previous height and the node proceeds from the rebuilt status) -/
theorem status_catches_up (s : Heights) (k : Nat) (h : s.status = s.app) :
    (restartNode (commitCut s k)).status = (restartNode (commitCut s k)).app := by
  unfold restartNode commitCut
  by_cases h1 : 1 ≤ k <;> by_cases h2 : 2 ≤ k <;> by_cases h3 : 3 ≤ k <;> simp [h1, h2, h3, h] <;> omega

/-- along every history of commits and crash-restarts from genesis the status never lags after a restart, the application
never runs more than one block ahead of a durable status, and nothing ever goes backwards -/
theorem node_history_synced (ops : List NodeOp) :
    let s := ops.foldl nodeStep ⟨0, 0, 0⟩
    s.status = s.app := by
  have key : ∀ (ops : List NodeOp) (s : Heights), s.status = s.app → (ops.foldl nodeStep s).status = (ops.foldl nodeStep s).app := by
    intro ops
    induction ops with
    | nil => intro s h; exact h
    | cons op rest ih =>
      intro s h
      simp only [List.foldl_cons]
      apply ih
      cases op with
      | commit => simp [nodeStep, commitCut, h]
      | crash k => exact status_catches_up s k h
  exact key ops ⟨0, 0, 0⟩ rfl

theorem node_history_monotone (s : Heights) (op : NodeOp) (h : s.status = s.app) :
    s.app ≤ (nodeStep s op).app ∧ s.status ≤ (nodeStep s op).status ∧ (nodeStep s op).app ≤ s.app + 1 := by
  cases op with
  | commit => simp [nodeStep, commitCut]
  | crash k =>
    simp only [nodeStep, restartNode, commitCut]
    by_cases h1 : 1 ≤ k <;> by_cases h3 : 3 ≤ k <;> simp [h1, h3, h] <;> (try split) <;> simp_all <;> omega

example : restartNode (commitCut ⟨7, 7, 7⟩ 1) = ⟨8, 7, 8⟩ := by decide
example : restartNode (commitCut ⟨7, 7, 7⟩ 2) = ⟨8, 8, 8⟩ := by decide
example : restartNode (commitCut ⟨7, 7, 7⟩ 0) = ⟨7, 7, 7⟩ := by decide

end Props.C13
