/-
C10: canonical form — two normal-form tries with the same lookups are the same tree (no hash assumption).
-/
import LinkVerif.Props.C10Basic

namespace Props.C10
open Model.Trie

/-- lookups agree on all keys addressed to the position -/
def SameAt (v : Bool) (a b : Node) : Prop := ∀ key, KeyAt v key → Model.Trie.get a key = Model.Trie.get b key

theorem prefix_cases (k1 k2 : List Nib) :
    k1 = k2 ∨ (∃ y r, k2 = k1 ++ y :: r) ∨ (∃ x r, k1 = k2 ++ x :: r) ∨
    (∃ p x y r1 r2, x ≠ y ∧ k1 = p ++ x :: r1 ∧ k2 = p ++ y :: r2) := by
  induction k1 generalizing k2 with
  | nil => cases k2 with
    | nil => left; rfl
    | cons y r => right; left; exact ⟨y, r, rfl⟩
  | cons a k1 ih =>
    cases k2 with
    | nil => right; right; left; exact ⟨a, k1, rfl⟩
    | cons b k2 =>
      by_cases hab : a = b
      · subst hab
        rcases ih k2 with h | ⟨y, r, h⟩ | ⟨x, r, h⟩ | ⟨p, x, y, r1, r2, hxy, h1, h2⟩
        · left; rw [h]
        · right; left; exact ⟨y, r, by rw [h]; rfl⟩
        · right; right; left; exact ⟨x, r, by rw [h]; rfl⟩
        · right; right; right; exact ⟨a :: p, x, y, r1, r2, hxy, by rw [h1]; rfl, by rw [h2]; rfl⟩
      · right; right; right; exact ⟨[], a, b, k1, k2, hab, rfl, rfl⟩

theorem strip_append_append (p q key : List Nib) : strip (p ++ q) (p ++ key) = strip q key := by
  induction p with
  | nil => rfl
  | cons a p ih => simpa [strip] using ih

theorem get_short_append_append (p q : List Nib) (c : Node) (key : List Nib) :
    Model.Trie.get (.short (p ++ q) c) (p ++ key) = Model.Trie.get (.short q c) key := by
  simp [Model.Trie.get, strip_append_append]

theorem isNil_eq {n : Node} (h : n.isNil = true) : n = .nil := by
  cases n <;> simp_all [Node.isNil]

theorem full_ne_short {c : Nib → Node} (hf : WF (.full c)) (x : Nib) (xr : List Nib) (c2 : Node) :
    ¬ SameAt false (.full c) (.short (x :: xr) c2) := by
  intro hs
  obtain ⟨hall, i, j, hij, hi, hj⟩ := hf
  have : ∃ m, m ≠ x ∧ (c m).isNil = false := by
    by_cases h : i = x
    · exact ⟨j, by rw [← h]; exact fun e => hij e.symm, hj⟩
    · exact ⟨i, h, hi⟩
  obtain ⟨m, hmx, hm⟩ := this
  rcases hall m with h0 | ⟨hw, hv⟩
  · rw [h0] at hm; cases hm
  · obtain ⟨key, hka, hg⟩ := exists_key _ hw
    have h1 := hs (m :: key) (keyAt_cons hv hka)
    have h2 : Model.Trie.get (.short (x :: xr) c2) (m :: key) = none := by
      apply get_short_of_strip_none
      simp [strip, Ne.symm hmx]
    rw [h2] at h1
    simp only [Model.Trie.get] at h1
    rw [h1] at hg; cases hg

theorem no_ext {c1 : Node} {k1 : List Nib} (hw : WF c1) (hs : c1.isShort = false) (hk : KeyOK c1.isValue k1)
    {w : Bool} (y : Nib) (r : List Nib) (hk2 : KeyOK w (k1 ++ y :: r)) (c2 : Node) :
    ¬ SameAt c1.isValue c1 (.short (y :: r) c2) := by
  cases c1 with
  | nil => exact absurd hw (by simp [WF])
  | value v => exact absurd hk2 (keyOK_true_no_ext y r hk)
  | short k c => simp [Node.isShort] at hs
  | full c => exact full_ne_short hw y r c2

theorem isValue_eq_decide {n : Node} {i : Nib} (hv : n.isValue = true ↔ i = term) : n.isValue = decide (i = term) := by
  by_cases h : i = term
  · simp [h, hv.mpr h]
  · cases hn : n.isValue
    · simp [h]
    · exact absurd (hv.mp hn) h

/-- CANONICAL FORM (positional): normal-form nodes at the same kind of position with the same lookups are equal -/
theorem canon : ∀ (a b : Node), WF a → WF b → a.isValue = b.isValue → SameAt a.isValue a b → a = b
  | .nil, _, ha, _, _, _ => absurd ha (by simp [WF])
  | .value v, b, _, _, hv, hs => by
    cases b with
    | value w =>
      have := hs [] ⟨trivial, by simp [Node.isValue]⟩
      simp only [Model.Trie.get, Option.some.injEq] at this
      rw [this]
    | nil => simp [Node.isValue] at hv
    | short _ _ => simp [Node.isValue] at hv
    | full _ => simp [Node.isValue] at hv
  | .short k1 c1, b, ha, hb, hv, hs => by
    cases b with
    | nil => exact absurd hb (by simp [WF])
    | value w => simp [Node.isValue] at hv
    | full d =>
      exfalso
      obtain ⟨hk1, _, _⟩ := ha
      cases k1 with
      | nil => exact hk1
      | cons x xr => exact full_ne_short hb x xr c1 (fun key hk => (hs key hk).symm)
    | short k2 c2 =>
      obtain ⟨hk1, hs1, hw1⟩ := ha
      obtain ⟨hk2, hs2, hw2⟩ := hb
      have sub1 : ∀ key, KeyAt c1.isValue key → Model.Trie.get c1 key = Model.Trie.get (.short k2 c2) (k1 ++ key) :=
        fun key hk => by
          have := hs (k1 ++ key) (suf_append hk1 hk)
          rwa [get_short_append] at this
      have sub2 : ∀ key, KeyAt c2.isValue key → Model.Trie.get c2 key = Model.Trie.get (.short k1 c1) (k2 ++ key) :=
        fun key hk => by
          have := hs (k2 ++ key) (suf_append hk2 hk)
          rw [get_short_append] at this
          exact this.symm
      rcases prefix_cases k1 k2 with h | ⟨y, r, h⟩ | ⟨x, r, h⟩ | ⟨p, x, y, r1, r2, hxy, h1, h2⟩
      · subst h
        have hvv : c1.isValue = c2.isValue := keyOK_unique hk1 hk2
        have : c1 = c2 := canon c1 c2 hw1 hw2 hvv (fun key hk => by rw [sub1 key hk, get_short_append])
        rw [this]
      · subst h
        exfalso
        apply no_ext hw1 hs1 hk1 y r hk2 c2
        intro key hk
        rw [sub1 key hk, get_short_append_append]
      · subst h
        exfalso
        apply no_ext hw2 hs2 hk2 x r hk1 c1
        intro key hk
        rw [sub2 key hk, get_short_append_append]
      · exfalso
        obtain ⟨key, hka, hg⟩ := exists_key c1 hw1
        have := sub1 key hka
        rw [h1, h2, List.append_assoc, List.cons_append] at this
        rw [get_short_of_strip_none c2 (strip_diverge p (Ne.symm hxy) r2 (r1 ++ key))] at this
        rw [this] at hg; cases hg
  | .full c, b, ha, hb, hv, hs => by
    cases b with
    | nil => exact absurd hb (by simp [WF])
    | value w => simp [Node.isValue] at hv
    | short k2 c2 =>
      exfalso
      obtain ⟨hk2, _, _⟩ := hb
      cases k2 with
      | nil => exact hk2
      | cons x xr => exact full_ne_short ha x xr c2 hs
    | full d =>
      obtain ⟨hall, _⟩ := ha
      obtain ⟨hall', _⟩ := hb
      congr 1; funext i
      have hsi : ∀ key, KeyAt (decide (i = term)) key → Model.Trie.get (c i) key = Model.Trie.get (d i) key :=
        fun key hk => by
          have := hs (i :: key) (keyAt_cons (by simp) hk)
          simpa only [Model.Trie.get] using this
      rcases hall i with h0 | ⟨hw, hv1⟩
      · rcases hall' i with h0' | ⟨hw', hv'⟩
        · rw [isNil_eq h0, isNil_eq h0']
        · exfalso
          obtain ⟨key, hka, hg⟩ := exists_key _ hw'
          rw [isValue_eq_decide hv'] at hka
          have := hsi key hka
          rw [isNil_eq h0] at this
          simp only [Model.Trie.get] at this
          rw [← this] at hg; cases hg
      · rcases hall' i with h0' | ⟨hw', hv'⟩
        · exfalso
          obtain ⟨key, hka, hg⟩ := exists_key _ hw
          rw [isValue_eq_decide hv1] at hka
          have := hsi key hka
          rw [isNil_eq h0'] at this
          simp only [Model.Trie.get] at this
          rw [this] at hg; cases hg
        · apply canon (c i) (d i) hw hw' (by rw [isValue_eq_decide hv1, isValue_eq_decide hv'])
          rw [isValue_eq_decide hv1]
          exact hsi

end Props.C10
