/-
C04, domain separation: the methods of the signing interface that keep NO height/round/step record
(`SignHeartbeat`, and `SignData` as used by the one in-tree caller) can never produce a signature over the
sign-bytes of a vote or a proposal, whatever the field values and the chain ids are — so they cannot be used to
obtain a conflicting vote/proposal signature, and a vote signature is never a proposal signature.
-/
import LinkVerif.Model.SignDomains

namespace Props.C04
open Model.SignDomains

theorem canonical_ne_of_tag (E : StrEnc) (t1 t2 : Bytes) (h : ∀ x y : Bytes, t1 ++ x ≠ t2 ++ y)
    (c1 c2 : String) (r1 r2 : Bytes) : canonical E t1 c1 r1 ≠ canonical E t2 c2 r2 := by
  intro heq
  unfold canonical at heq
  have h1 := List.append_cancel_left heq
  have h2 := (E.selfDelim c1 c2 _ _ h1).2
  have h3 := List.append_cancel_left h2
  exact h r1 r2 h3

theorem tag_vote_ne_heartbeat (x y : Bytes) : tagVote ++ x ≠ tagHeartbeat ++ y := by
  simp [tagVote, tagHeartbeat]
theorem tag_vote_ne_proposal (x y : Bytes) : tagVote ++ x ≠ tagProposal ++ y := by
  simp [tagVote, tagProposal]
theorem tag_proposal_ne_heartbeat (x y : Bytes) : tagProposal ++ x ≠ tagHeartbeat ++ y := by
  simp [tagProposal, tagHeartbeat]

/-- **heartbeat ≠ vote**: for every chain id pair and every value of all other fields -/
theorem heartbeat_ne_vote (E : StrEnc) (ch cv : String) (th tv : Bytes) : heartbeatBytes E ch th ≠ voteBytes E cv tv :=
  fun h => canonical_ne_of_tag E tagVote tagHeartbeat tag_vote_ne_heartbeat cv ch tv th h.symm

/-- **heartbeat ≠ proposal** -/
theorem heartbeat_ne_proposal (E : StrEnc) (ch cp : String) (th tp : Bytes) : heartbeatBytes E ch th ≠ proposalBytes E cp tp :=
  fun h => canonical_ne_of_tag E tagProposal tagHeartbeat tag_proposal_ne_heartbeat cp ch tp th h.symm

/-- **vote ≠ proposal**: a signature released for a vote is never a signature over a proposal (the HRS record keeps
them apart by step; this is the payload-level reason) -/
theorem vote_ne_proposal (E : StrEnc) (cv cp : String) (tv tp : Bytes) : voteBytes E cv tv ≠ proposalBytes E cp tp :=
  canonical_ne_of_tag E tagVote tagProposal tag_vote_ne_proposal cv cp tv tp

/-- the three domains are pairwise disjoint -/
def C04_domain_statement : Prop :=
  ∀ (E : StrEnc) (c1 c2 : String) (t1 t2 : Bytes),
    heartbeatBytes E c1 t1 ≠ voteBytes E c2 t2 ∧ heartbeatBytes E c1 t1 ≠ proposalBytes E c2 t2 ∧ voteBytes E c1 t1 ≠ proposalBytes E c2 t2

theorem C04_domains_disjoint : C04_domain_statement :=
  fun E c1 c2 t1 t2 => ⟨heartbeat_ne_vote E c1 c2 t1 t2, heartbeat_ne_proposal E c1 c2 t1 t2, vote_ne_proposal E c1 c2 t1 t2⟩

/-- every canonical sign-bytes string starts with `{` -/
theorem canonical_head (E : StrEnc) (tag : Bytes) (c : String) (t : Bytes) : (canonical E tag c t).head? = some 0x7b := by
  simp [canonical, headChain]

/-- the first byte of an RLP list is at least 0xc0 (payloads below 2^64 bytes: Go slices) -/
theorem rlpListHead_range (n : Nat) (hn : n < 2 ^ 64) : 0xc0 ≤ rlpListHead n ∧ rlpListHead n ≤ 0xff := by
  unfold rlpListHead
  split
  · omega
  · have h0 : n ≠ 0 := by omega
    have : Nat.log2 n < 64 := (Nat.log2_lt h0).2 hn
    omega

/-- **multi-sign bytes ≠ vote / proposal / heartbeat**: `GenMultiSignBytes` is an RLP list (first byte ≥ 0xc0), every
canonical JSON starts with `{` (0x7b): what `MultiSignAccountTx.Sign` passes to `SignData` is never the sign-bytes of
a vote, a proposal or a heartbeat. -/
theorem multisign_ne_canonical (E : StrEnc) (tag : Bytes) (c : String) (t : Bytes) (payload : Bytes) (hn : payload.length < 2 ^ 64)
    (h : UInt8.ofNat (rlpListHead payload.length) :: payload = canonical E tag c t) : False := by
  have hh := canonical_head E tag c t
  rw [← h] at hh
  simp only [List.head?_cons, Option.some.injEq] at hh
  have ⟨h1, h2⟩ := rlpListHead_range payload.length hn
  have : (UInt8.ofNat (rlpListHead payload.length)).toNat = 0x7b := by rw [hh]; rfl
  simp only [UInt8.toNat_ofNat'] at this
  omega

/-! non-vacuity: a string-literal encoder with the law exists (unary length prefix here: the law does not depend on
how the escaper achieves self-delimitation) -/
theorem unary_selfDelim (m n : Nat) (x y : Bytes) (h : List.replicate m (1 : UInt8) ++ 0 :: x = List.replicate n 1 ++ 0 :: y) :
    m = n ∧ x = y := by
  induction m generalizing n with
  | zero =>
    cases n with
    | zero => simpa using h
    | succ n => simp [List.replicate_succ] at h
  | succ m ih =>
    cases n with
    | zero => simp [List.replicate_succ] at h
    | succ n =>
      simp only [List.replicate_succ, List.cons_append, List.cons.injEq, true_and] at h
      have := ih n h
      exact ⟨by omega, this.2⟩

def unaryEnc : StrEnc where
  str s := List.replicate s.length 1 ++ [0]
  selfDelim := by
    intro a b x y h
    simp only [List.append_assoc, List.singleton_append] at h
    have := unary_selfDelim a.length b.length x y h
    exact ⟨by rw [this.1], this.2⟩

example : heartbeatBytes unaryEnc "c" [1] ≠ voteBytes unaryEnc "c" [1] := heartbeat_ne_vote _ _ _ _ _

end Props.C04
