/-
C11, layer 2: the round trip beyond the first-order fragment: hex-ASCII integers, time.Time, slices, named types,
custom encoders, pointers (with the nil/empty conventions made explicit as the decoded value).
-/
import LinkVerif.Props.C11Round
import LinkVerif.Props.C11Int

namespace Props.C11
open Model.Rlp Model.Ser

/-- decodeInt reads back what writeInt wrote (any int64 that fits the kind) -/
theorem decInt_enc (bits : Nat) (z : Int) (s : Stream) (tail : Bytes) (hk : s.kind = none)
    (hrest : s.rest = encStr (formatInt16 z) ++ tail) (hsz : (formatInt16 z).length < 2 ^ 64)
    (h64lo : -(2 ^ 63 : Int) ≤ z) (h64hi : z < 2 ^ 63) (hb : 1 ≤ bits)
    (hlo : -(2 ^ (bits - 1) : Int) ≤ z) (hhi : z < 2 ^ (bits - 1))
    (hroom : Room s.stack (encStr (formatInt16 z)).length) :
    ∃ s', decInt bits s = (.i z, none, s') ∧ After s s' (encStr (formatInt16 z)).length tail := by
  obtain ⟨s', h1, h2⟩ := sBytes_enc s (formatInt16 z) tail hk hrest hsz hroom
  refine ⟨s', ?_, h2⟩
  unfold decInt
  rw [h1]
  simp only [parseInt_formatInt z h64lo h64hi, wrapInt_id bits z hb hlo hhi]

theorem rt_int (env : Env) (g bits : Nat) (z : Int) (hsz : (formatInt16 z).length < 2 ^ 64)
    (h64lo : -(2 ^ 63 : Int) ≤ z) (h64hi : z < 2 ^ 63) (hb : 1 ≤ bits)
    (hlo : -(2 ^ (bits - 1) : Int) ≤ z) (hhi : z < 2 ^ (bits - 1)) :
    RT env (g + 1) (.int bits) (.i z) (encStr (formatInt16 z)) := by
  intro s tail hk hrest hroom
  obtain ⟨s', h1, h2⟩ := decInt_enc bits z s tail hk hrest hsz h64lo h64hi hb hlo hhi hroom
  exact ⟨s', by simp only [decV, h1], h2⟩

/-- time.Time: the model value is (Unix seconds, nanoseconds); exactly the times with int64 seconds and
    0 ≤ nsec ≤ 999999999 round-trip (Go side: the decoder returns UTC with the monotonic reading stripped, so the
    instant and its nanoseconds are preserved, the location is not) -/
theorem rt_time (env : Env) (g : Nat) (sec nsec : Int) (hslo : -(2 ^ 63 : Int) ≤ sec) (hshi : sec < 2 ^ 63)
    (hn0 : 0 ≤ nsec) (hn1 : nsec ≤ 999999999)
    (hsz : (encStr (formatInt16 sec) ++ encStr (formatInt16 nsec)).length < 2 ^ 64) :
    RT env (g + 1) .time (.time sec nsec) (encListHead (encStr (formatInt16 sec) ++ encStr (formatInt16 nsec))) := by
  intro s tail hk hrest hroom
  obtain ⟨s1, hl1, hk1, hr1, hs1⟩ := sList_enc s _ tail hk hrest hsz hroom
  simp only [List.length_append] at hsz
  have hl_a := encStr_len_ge (formatInt16 sec)
  have hl_b := encStr_len_ge (formatInt16 nsec)
  obtain ⟨s2, hd2, hk2, hr2, hs2⟩ := decInt_enc 64 sec s1 (encStr (formatInt16 nsec) ++ tail) hk1
    (by rw [hr1, List.append_assoc]) (by omega) hslo hshi (by decide) (by simpa using hslo) (by simpa using hshi)
    (by rw [hs1]; simp only [Room, List.length_append]; omega)
  obtain ⟨s3, hd3, hk3, hr3, hs3⟩ := decInt_enc 32 nsec s2 tail hk2 hr2 (by omega) (by omega) (by omega) (by decide)
    (by simp; omega) (by simp; omega)
    (by rw [hs2, hs1]; simp only [bump, Room, List.length_append]; omega)
  have hs3' : s3.stack = ((encStr (formatInt16 sec) ++ encStr (formatInt16 nsec)).length,
      (encStr (formatInt16 sec) ++ encStr (formatInt16 nsec)).length) :: bump (encHead 0xC0 0xF7 (encStr (formatInt16 sec) ++ encStr (formatInt16 nsec)).length).length s.stack := by
    rw [hs3, hs2, hs1]; simp [bump]
  obtain ⟨s4, hd4, hk4, hr4, hs4⟩ := sListEnd_ok s3 _ _ hs3'
  simp only [decV]
  unfold decTime
  simp only [hl1, hd2, intOr0, hd3]
  have hchk : ¬ (nsec < 0 ∨ 999999999 < nsec) := by omega
  simp only [hchk, if_false, hd4]
  refine ⟨s4, rfl, hk4, by rw [hr4, hr3], ?_⟩
  rw [hs4, bump_bump, encListHead_length]

/-! ### two properties every decoder of the fragment has because it starts with Stream.Kind -/

theorem kindOf_cached (s : Stream) (k : Kind) (h : s.kind = some k) : kindOf s = ((k, s.size, s.kinderr), s) := by
  unfold kindOf; rw [h]

/-- re-reading a cached header changes nothing -/
theorem kindOf_idem (s : Stream) (hk : s.kind = none) : kindOf (kindOf s).2 = kindOf s := by
  by_cases he : atEnd s = true
  · rw [kindOf_eol s hk he]
    exact kindOf_eol _ rfl he
  · have he' : atEnd ({ rest := s.rest, stack := s.stack, kind := none, size := s.size, byteval := s.byteval, kinderr := none, unlimited := s.unlimited, phantom := s.phantom, alloc := s.alloc } : Stream) = false := by
      have : atEnd s = false := by simpa using he
      exact this
    have hfresh : ∃ k sz e s1, kindOf s = ((k, sz, e), s1) ∧ s1.kind = some k ∧ s1.size = sz ∧ s1.kinderr = e := by
      unfold kindOf
      rw [hk]
      simp only [he', Bool.false_eq_true, if_false]
      exact ⟨_, _, _, _, rfl, rfl, rfl, rfl⟩
    obtain ⟨k, sz, e, s1, h0, h1, h2, h3⟩ := hfresh
    rw [h0]
    simp only
    rw [kindOf_cached s1 k h1, h2, h3]

/-- PK: a decoder that is handed a stream whose next header is already cached behaves as on the fresh stream;
    EOL: at the end of the innermost list it answers EOL without moving -/
def PK (D : Stream → DecR) : Prop := ∀ s, s.kind = none → D (kindOf s).2 = D s
def EOL (D : Stream → DecR) : Prop :=
  ∀ s, s.kind = none → atEnd s = true → ∃ x s', D s = (x, some .eol, s') ∧ s'.kind = none ∧ s'.rest = s.rest ∧ s'.stack = s.stack

theorem sBytes_pk (s : Stream) (hk : s.kind = none) : sBytes (kindOf s).2 = sBytes s := by
  unfold sBytes; rw [kindOf_idem s hk]
theorem sUint_pk (mb : Nat) (s : Stream) (hk : s.kind = none) : sUint mb (kindOf s).2 = sUint mb s := by
  unfold sUint; rw [kindOf_idem s hk]
theorem sList_pk (s : Stream) (hk : s.kind = none) : sList (kindOf s).2 = sList s := by
  unfold sList; rw [kindOf_idem s hk]

theorem sBytes_eol (s : Stream) (hk : s.kind = none) (he : atEnd s = true) :
    sBytes s = (.error .eol, { s with kind := none, kinderr := none }) := by
  unfold sBytes; rw [kindOf_eol s hk he]
theorem sUint_eol (mb : Nat) (s : Stream) (hk : s.kind = none) (he : atEnd s = true) :
    sUint mb s = (.error .eol, { s with kind := none, kinderr := none }) := by
  unfold sUint; rw [kindOf_eol s hk he]
theorem sList_eol (s : Stream) (hk : s.kind = none) (he : atEnd s = true) :
    sList s = (.error .eol, { s with kind := none, kinderr := none }) := by
  unfold sList; rw [kindOf_eol s hk he]

/-- decoders that begin with Stream.Bytes / uint / List / Kind -/
theorem head_of_sBytes (D : Stream → DecR) (F : Except Err Bytes × Stream → DecR) (hD : ∀ s, D s = F (sBytes s))
    (hF : ∀ s, ∃ x, F (.error .eol, s) = (x, some .eol, s)) : PK D ∧ EOL D := by
  constructor
  · intro s hk; rw [hD, hD, sBytes_pk s hk]
  · intro s hk he
    obtain ⟨x, hx⟩ := hF { s with kind := none, kinderr := none }
    exact ⟨x, { s with kind := none, kinderr := none }, by rw [hD, sBytes_eol s hk he, hx], rfl, rfl, rfl⟩

theorem head_of_sUint (mb : Nat) (D : Stream → DecR) (F : Except Err Nat × Stream → DecR) (hD : ∀ s, D s = F (sUint mb s))
    (hF : ∀ s, ∃ x, F (.error .eol, s) = (x, some .eol, s)) : PK D ∧ EOL D := by
  constructor
  · intro s hk; rw [hD, hD, sUint_pk mb s hk]
  · intro s hk he
    obtain ⟨x, hx⟩ := hF { s with kind := none, kinderr := none }
    exact ⟨x, { s with kind := none, kinderr := none }, by rw [hD, sUint_eol mb s hk he, hx], rfl, rfl, rfl⟩

theorem head_of_sList (D : Stream → DecR) (F : Except Err Nat × Stream → DecR) (hD : ∀ s, D s = F (sList s))
    (hF : ∀ s, ∃ x, F (.error .eol, s) = (x, some .eol, s)) : PK D ∧ EOL D := by
  constructor
  · intro s hk; rw [hD, hD, sList_pk s hk]
  · intro s hk he
    obtain ⟨x, hx⟩ := hF { s with kind := none, kinderr := none }
    exact ⟨x, { s with kind := none, kinderr := none }, by rw [hD, sList_eol s hk he, hx], rfl, rfl, rfl⟩

theorem head_of_kindOf (D : Stream → DecR) (F : (Kind × Nat × Option Err) × Stream → DecR) (hD : ∀ s, D s = F (kindOf s))
    (hF : ∀ s, ∃ x s', F ((.byte, 0, some .eol), s) = (x, some .eol, s') ∧ s'.kind = none ∧ s'.rest = s.rest ∧ s'.stack = s.stack) :
    PK D ∧ EOL D := by
  constructor
  · intro s hk; rw [hD, hD, kindOf_idem s hk]
  · intro s hk he
    obtain ⟨x, s', hx, h1, h2, h3⟩ := hF { s with kind := none, kinderr := none }
    exact ⟨x, s', by rw [hD, kindOf_eol s hk he, hx], h1, h2, h3⟩

def HeadT (env : Env) (g : Nat) (t : Ty) : Prop := PK (decV env g t) ∧ EOL (decV env g t)

theorem head_uint (env : Env) (g bits : Nat) : HeadT env (g + 1) (.uint bits) :=
  ⟨fun s hk => by simp only [decV]; rw [sUint_pk bits s hk],
   fun s hk he => by simp only [decV, sUint_eol bits s hk he]; exact ⟨_, _, rfl, rfl, rfl, rfl⟩⟩

theorem head_bool (env : Env) (g : Nat) : HeadT env (g + 1) .bool :=
  ⟨fun s hk => by simp only [decV]; rw [sUint_pk 8 s hk],
   fun s hk he => by simp only [decV, sUint_eol 8 s hk he]; exact ⟨_, _, rfl, rfl, rfl, rfl⟩⟩

theorem head_int (env : Env) (g bits : Nat) : HeadT env (g + 1) (.int bits) :=
  ⟨fun s hk => by simp only [decV, decInt]; rw [sBytes_pk s hk],
   fun s hk he => by simp only [decV, decInt, sBytes_eol s hk he]; exact ⟨_, _, rfl, rfl, rfl, rfl⟩⟩

theorem head_bytes (env : Env) (g : Nat) : HeadT env (g + 1) .bytes :=
  ⟨fun s hk => by simp only [decV, decBytesLike]; rw [sBytes_pk s hk],
   fun s hk he => by simp only [decV, decBytesLike, sBytes_eol s hk he]; exact ⟨_, _, rfl, rfl, rfl, rfl⟩⟩

theorem head_string (env : Env) (g : Nat) : HeadT env (g + 1) .string :=
  ⟨fun s hk => by simp only [decV, decBytesLike]; rw [sBytes_pk s hk],
   fun s hk he => by simp only [decV, decBytesLike, sBytes_eol s hk he]; exact ⟨_, _, rfl, rfl, rfl, rfl⟩⟩

theorem head_bigval (env : Env) (g : Nat) : HeadT env (g + 1) .bigval :=
  ⟨fun s hk => by simp only [decV, decBigVal]; rw [sBytes_pk s hk],
   fun s hk he => by simp only [decV, decBigVal, sBytes_eol s hk he]; exact ⟨_, _, rfl, rfl, rfl, rfl⟩⟩

theorem head_bigptr (env : Env) (g : Nat) : HeadT env (g + 1) .bigptr :=
  ⟨fun s hk => by simp only [decV, decBigPtr]; rw [sBytes_pk s hk],
   fun s hk he => by simp only [decV, decBigPtr, sBytes_eol s hk he]; exact ⟨_, _, rfl, rfl, rfl, rfl⟩⟩

theorem head_bytearr (env : Env) (g n : Nat) : HeadT env (g + 1) (.bytearr n) :=
  ⟨fun s hk => by simp only [decV, decByteArr]; rw [kindOf_idem s hk],
   fun s hk he => by simp only [decV, decByteArr, kindOf_eol s hk he]; exact ⟨_, _, rfl, rfl, rfl, rfl⟩⟩

theorem head_time (env : Env) (g : Nat) : HeadT env (g + 1) .time :=
  ⟨fun s hk => by simp only [decV, decTime]; rw [sList_pk s hk],
   fun s hk he => by simp only [decV, decTime, sList_eol s hk he]; exact ⟨_, _, rfl, rfl, rfl, rfl⟩⟩

theorem head_map (env : Env) (g : Nat) : HeadT env (g + 1) .map20 :=
  ⟨fun s hk => by simp only [decV, decMap]; rw [sList_pk s hk],
   fun s hk he => by simp only [decV, decMap, sList_eol s hk he]; exact ⟨_, _, rfl, rfl, rfl, rfl⟩⟩

theorem head_struct (env : Env) (g : Nat) (fs : List Ty) : HeadT env (g + 1) (.struct fs) :=
  ⟨fun s hk => by simp only [decV]; rw [sList_pk s hk],
   fun s hk he => by simp only [decV, sList_eol s hk he]; exact ⟨_, _, rfl, rfl, rfl, rfl⟩⟩

theorem head_slice (env : Env) (g : Nat) (e : Ty) : HeadT env (g + 1) (.slice e) :=
  ⟨fun s hk => by simp only [decV]; rw [sList_pk s hk],
   fun s hk he => by simp only [decV, sList_eol s hk he]; exact ⟨_, _, rfl, rfl, rfl, rfl⟩⟩

theorem head_ptr (env : Env) (g : Nat) (e : Ty) : HeadT env (g + 1) (.ptr e) :=
  ⟨fun s hk => by simp only [decV]; rw [kindOf_idem s hk],
   fun s hk he => by simp only [decV, kindOf_eol s hk he]; exact ⟨_, _, rfl, rfl, rfl, rfl⟩⟩

theorem head_ref (env : Env) (g id : Nat) (t' : Ty) (hd : env.def? id = some t') (h : HeadT env g t') :
    HeadT env (g + 1) (.ref id) := by
  have e : decV env (g + 1) (.ref id) = decV env g t' := by funext s; simp only [decV, hd]
  unfold HeadT; rw [e]; exact h

theorem head_cval (env : Env) (g : Nat) (a : Bool) (e : Ty) (h : HeadT env g e) : HeadT env (g + 1) (.cval a e) := by
  constructor
  · intro s hk; simp only [decV]; rw [h.1 s hk]
  · intro s hk he
    obtain ⟨x, s', hx, h1, h2, h3⟩ := h.2 s hk he
    simp only [decV, hx]
    exact ⟨_, s', rfl, h1, h2, h3⟩

theorem head_cptr (env : Env) (g : Nat) (a : Bool) (e : Ty) (h : HeadT env g e) : HeadT env (g + 1) (.cptr a e) := by
  constructor
  · intro s hk; simp only [decV]; rw [h.1 s hk]
  · intro s hk he
    obtain ⟨x, s', hx, h1, h2, h3⟩ := h.2 s hk he
    simp only [decV, hx]
    exact ⟨_, s', rfl, h1, h2, h3⟩

/-! ### the extended fragment, as a relation (type, value written, value read back) -/

mutual
  /-- `FragN env t v v'`: `v` is a value of `t` in the proved fragment and `v'` is what decoding its encoding returns.
      `v' = v` except for the conventions: a nil *big.Int comes back as 0.  Pointers: nil pointers whose nil encoding is an
      empty item come back nil; non-nil pointers to values encoded as a non-empty list or a string with header come back
      as pointers.  (A pointer to a value that encodes as an empty item comes back nil, and a nil pointer to an int comes
      back as a pointer to 0: those two conventions are not in `FragN`.) -/
  inductive FragN (env : Env) : Ty → Val → Val → Prop where
    | uint (bits n : Nat) : n < 2 ^ 64 → (beBytes n).length ≤ bits / 8 → FragN env (.uint bits) (.u n) (.u n)
    | int (bits : Nat) (z : Int) : -(2 ^ 63 : Int) ≤ z → z < 2 ^ 63 → 1 ≤ bits → -(2 ^ (bits - 1) : Int) ≤ z → z < 2 ^ (bits - 1) →
        FragN env (.int bits) (.i z) (.i z)
    | bool (x : Bool) : FragN env .bool (.b x) (.b x)
    | bytes (bs : Bytes) : FragN env .bytes (.bytes bs) (.bytes bs)
    | string (bs : Bytes) : FragN env .string (.bytes bs) (.bytes bs)
    | bytearr (bs : Bytes) : bs ≠ [0] → FragN env (.bytearr bs.length) (.bytes bs) (.bytes bs)
    | bigval (n : Nat) : FragN env .bigval (.big false n) (.big false n)
    | bigptr (n : Nat) : FragN env .bigptr (.ptr (.big false n)) (.ptr (.big false n))
    | bigptrNil : FragN env .bigptr .nil (.ptr (.big false 0))
    | time (sec nsec : Int) : -(2 ^ 63 : Int) ≤ sec → sec < 2 ^ 63 → 0 ≤ nsec → nsec ≤ 999999999 →
        FragN env .time (.time sec nsec) (.time sec nsec)
    | struct (fs : List Ty) (vs vs' : List Val) : FragNL env fs vs vs' → FragN env (.struct fs) (.list vs) (.list vs')
    | slice (e : Ty) (vs vs' : List Val) : FragNS env e vs vs' → FragN env (.slice e) (.list vs) (.list vs')
    | ref (id : Nat) (t' : Ty) (v v' : Val) : env.def? id = some t' → FragN env t' v v' → FragN env (.ref id) v v'
    | cval (a : Bool) (e : Ty) (v v' : Val) : FragN env e v v' → FragN env (.cval a e) v v'
    | cptr (a : Bool) (e : Ty) (v v' : Val) : FragN env e v v' → FragN env (.cptr a e) (.ptr v) (.ptr v')
    | ptrList (e : Ty) (v v' : Val) : FragN env e v v' →
        (∀ f b, encV env f e v = .ok b → ∃ p, b = encListHead p ∧ p ≠ []) → FragN env (.ptr e) (.ptr v) (.ptr v')
    | ptrStr (e : Ty) (v v' : Val) : FragN env e v v' →
        (∀ f b, encV env f e v = .ok b → ∃ bs, b = encHead 0x80 0xB7 bs.length ++ bs ∧ bs ≠ []) → FragN env (.ptr e) (.ptr v) (.ptr v')
    | ptrNilList (e : Ty) : (∀ f, encV env (f + 1) (.ptr e) .nil = .ok [0xC0]) → FragN env (.ptr e) .nil .nil
    | ptrNilStr (e : Ty) : (∀ f, encV env (f + 1) (.ptr e) .nil = .ok [0x80]) → FragN env (.ptr e) .nil .nil
  inductive FragNL (env : Env) : List Ty → List Val → List Val → Prop where
    | nil : FragNL env [] [] []
    | cons (t : Ty) (v v' : Val) (ts : List Ty) (vs vs' : List Val) : FragN env t v v' → FragNL env ts vs vs' →
        FragNL env (t :: ts) (v :: vs) (v' :: vs')
  inductive FragNS (env : Env) : Ty → List Val → List Val → Prop where
    | nil (e : Ty) : FragNS env e [] []
    | cons (e : Ty) (v v' : Val) (vs vs' : List Val) : FragN env e v v' → FragNS env e vs vs' → FragNS env e (v :: vs) (v' :: vs')
end

/-- what the induction carries for one (type, value): the round trip, a non-empty encoding, the two head properties -/
def Good3 (env : Env) (g : Nat) (t : Ty) (v' : Val) (b : Bytes) : Prop := RT env g t v' b ∧ 1 ≤ b.length ∧ HeadT env g t

theorem decFieldsN_enc (env : Env) (f g : Nat)
    (IH : ∀ t v v' b, FragN env t v v' → encV env f t v = .ok b → b.length < 2 ^ 64 → Good3 env g t v' b) :
    ∀ (fs : List Ty) (vs vs' : List Val) (p : Bytes), FragNL env fs vs vs' → encSeq (encV env f) fs vs = .ok p → p.length < 2 ^ 64 →
      ∀ (acc : List Val) (s : Stream) (tail : Bytes) (pos size : Nat) (up : List (Nat × Nat)),
        s.kind = none → s.rest = p ++ tail → s.stack = (pos, size) :: up → pos + p.length ≤ size →
        ∃ s', decFields (decV env g) (zeroV env 64) fs acc s = (.list (acc.reverse ++ vs'), none, s') ∧
          s'.kind = none ∧ s'.rest = tail ∧ s'.stack = (pos + p.length, size) :: up ∧ (fs ≠ [] → 1 ≤ p.length) := by
  intro fs
  induction fs with
  | nil =>
    intro vs vs' p hf he hp acc s tail pos size up hk hrest hst hroom
    cases hf
    simp only [encSeq, Except.ok.injEq] at he
    subst he
    exact ⟨s, by simp [decFields], hk, by simpa using hrest, by simpa using hst, by simp⟩
  | cons t ts ih =>
    intro vs vs' p hf he hp acc s tail pos size up hk hrest hst hroom
    cases hf with
    | cons _ v v' _ vs1 vs1' hfv hfl =>
      simp only [encSeq] at he
      cases hb : encV env f t v with
      | error e => rw [hb] at he; cases he
      | ok b =>
        rw [hb] at he
        simp only at he
        cases hbs : encSeq (encV env f) ts vs1 with
        | error e => rw [hbs] at he; cases he
        | ok bs =>
          rw [hbs] at he
          simp only [Except.ok.injEq] at he
          subst he
          simp only [List.length_append] at hp hroom
          obtain ⟨hrt, hb1, _⟩ := IH t v v' b hfv hb (by omega)
          obtain ⟨s1, hd, hk1, hr1, hs1⟩ := hrt s (bs ++ tail) hk (by rw [hrest, List.append_assoc])
            (by rw [hst]; simp only [Room]; omega)
          rw [hst] at hs1
          simp only [bump] at hs1
          obtain ⟨s2, hd2, hk2, hr2, hs2, _⟩ := ih vs1 vs1' bs hfl hbs (by omega) (v' :: acc) s1 tail (pos + b.length) size up
            hk1 hr1 hs1 (by omega)
          refine ⟨s2, ?_, hk2, hr2, ?_, ?_⟩
          · unfold decFields
            rw [hd]
            simp only
            rw [hd2]
            simp
          · rw [hs2]; simp only [List.length_append, Nat.add_assoc]
          · intro _; simp only [List.length_append]; omega

theorem encAll_length_ge (env : Env) (f g : Nat) (e : Ty)
    (IH : ∀ v v' b, FragN env e v v' → encV env f e v = .ok b → b.length < 2 ^ 64 → Good3 env g e v' b) :
    ∀ (vs vs' : List Val) (p : Bytes), FragNS env e vs vs' → encAll (encV env f e) vs = .ok p → p.length < 2 ^ 64 →
      vs.length ≤ p.length := by
  intro vs
  induction vs with
  | nil => intro vs' p _ _ _; simp
  | cons v vs ih =>
    intro vs' p hf he hp
    cases hf with
    | cons _ _ v' _ vs1' hfv hfl =>
      simp only [encAll] at he
      cases hb : encV env f e v with
      | error er => rw [hb] at he; cases he
      | ok b =>
        rw [hb] at he
        simp only at he
        cases hbs : encAll (encV env f e) vs with
        | error er => rw [hbs] at he; cases he
        | ok bs =>
          rw [hbs] at he
          simp only [Except.ok.injEq] at he
          subst he
          simp only [List.length_append] at hp ⊢
          have h1 := (IH v v' b hfv hb (by omega)).2.1
          have h2 := ih vs1' bs hfl hbs (by omega)
          simp only [List.length_cons]; omega

/-- decodeSliceElems: the elements in sequence, then EOL at the end of the list -/
theorem decElems_enc (env : Env) (f g : Nat) (e : Ty)
    (IH : ∀ v v' b, FragN env e v v' → encV env f e v = .ok b → b.length < 2 ^ 64 → Good3 env g e v' b)
    (heol : EOL (decV env g e)) :
    ∀ (vs vs' : List Val) (p : Bytes), FragNS env e vs vs' → encAll (encV env f e) vs = .ok p → p.length < 2 ^ 64 →
      ∀ (n : Nat) (acc : List Val) (s : Stream) (tail : Bytes) (pos size : Nat) (up : List (Nat × Nat)),
        vs.length + 1 ≤ n → s.kind = none → s.rest = p ++ tail → s.stack = (pos, size) :: up → pos + p.length = size →
        ∃ s', decElems (decV env g e) n acc s = (.list (acc.reverse ++ vs'), none, s') ∧
          s'.kind = none ∧ s'.rest = tail ∧ s'.stack = (size, size) :: up := by
  intro vs
  induction vs with
  | nil =>
    intro vs' p hf he hp n acc s tail pos size up hn hk hrest hst hsz
    cases hf
    simp only [encAll, Except.ok.injEq] at he
    subst he
    obtain ⟨m, rfl⟩ : ∃ m, n = m + 1 := ⟨n - 1, by omega⟩
    have hae : atEnd s = true := by
      unfold atEnd; rw [hst]; simp at hsz ⊢; exact hsz
    obtain ⟨x, s', hx, h1, h2, h3⟩ := heol s hk hae
    refine ⟨s', ?_, h1, by rw [h2]; simpa using hrest, ?_⟩
    · unfold decElems; rw [hx]; simp
    · rw [h3, hst]; simp at hsz; rw [hsz]
  | cons v vs ih =>
    intro vs' p hf he hp n acc s tail pos size up hn hk hrest hst hsz
    cases hf with
    | cons _ _ v' _ vs1' hfv hfl =>
      simp only [encAll] at he
      cases hb : encV env f e v with
      | error er => rw [hb] at he; cases he
      | ok b =>
        rw [hb] at he
        simp only at he
        cases hbs : encAll (encV env f e) vs with
        | error er => rw [hbs] at he; cases he
        | ok bs =>
          rw [hbs] at he
          simp only [Except.ok.injEq] at he
          subst he
          simp only [List.length_append] at hp hsz
          simp only [List.length_cons] at hn
          obtain ⟨m, rfl⟩ : ∃ m, n = m + 1 := ⟨n - 1, by omega⟩
          obtain ⟨hrt, hb1, _⟩ := IH v v' b hfv hb (by omega)
          obtain ⟨s1, hd, hk1, hr1, hs1⟩ := hrt s (bs ++ tail) hk (by rw [hrest, List.append_assoc])
            (by rw [hst]; simp only [Room]; omega)
          rw [hst] at hs1
          simp only [bump] at hs1
          obtain ⟨s2, hd2, hk2, hr2, hs2⟩ := ih vs1' bs hfl hbs (by omega) m (v' :: acc) s1 tail (pos + b.length) size up
            (by omega) hk1 hr1 hs1 (by omega)
          refine ⟨s2, ?_, hk2, hr2, hs2⟩
          unfold decElems
          rw [hd]
          simp only
          rw [hd2]
          simp

theorem kindOf_enc_list (s : Stream) (p tail : Bytes) (hk : s.kind = none) (hrest : s.rest = encListHead p ++ tail)
    (hsz : p.length < 2 ^ 64) (hroom : Room s.stack (encListHead p).length) :
    (kindOf s).1 = (.list, p.length, none) ∧
      (p = [] → (kindOf s).2.rest = tail ∧ (kindOf s).2.stack = bump 1 s.stack) := by
  unfold encListHead at hrest hroom
  rw [List.append_assoc] at hrest
  have hh : readHead s.rest = .ok (.list, p.length, 0, p ++ tail) := by
    rw [hrest]; exact readHead_enc_list p.length (p ++ tail) hsz
  have hlen : s.rest.length - (p ++ tail).length = (encHead 0xC0 0xF7 p.length).length := by
    rw [hrest]; simp
  have hp := encHead_length_pos 0xC0 0xF7 p.length
  have hko := kindOf_ok s .list p.length 0 (p ++ tail) hk hh (by rw [hrest]; simp; omega)
    (by rw [hlen]; simpa using hroom) (by simp)
  rw [hko]
  refine ⟨rfl, ?_⟩
  intro hp0; subst hp0
  rw [hlen]
  simp [encHead]

theorem kindOf_enc_str (s : Stream) (bs tail : Bytes) (hk : s.kind = none) (hrest : s.rest = (encHead 0x80 0xB7 bs.length ++ bs) ++ tail)
    (hsz : bs.length < 2 ^ 64) (hroom : Room s.stack (encHead 0x80 0xB7 bs.length ++ bs).length) :
    (kindOf s).1 = (.string, bs.length, none) ∧
      (bs = [] → (kindOf s).2.rest = tail ∧ (kindOf s).2.stack = bump 1 s.stack) := by
  rw [List.append_assoc] at hrest
  have hh : readHead s.rest = .ok (.string, bs.length, 0, bs ++ tail) := by
    rw [hrest]; exact readHead_enc_str bs.length (bs ++ tail) hsz
  have hlen : s.rest.length - (bs ++ tail).length = (encHead 0x80 0xB7 bs.length).length := by
    rw [hrest]; simp
  have hp := encHead_length_pos 0x80 0xB7 bs.length
  have hko := kindOf_ok s .string bs.length 0 (bs ++ tail) hk hh (by rw [hrest]; simp; omega)
    (by rw [hlen]; simpa using hroom) (by simp)
  rw [hko]
  refine ⟨rfl, ?_⟩
  intro hp0; subst hp0
  rw [hlen]
  simp [encHead]

/-- a non-nil pointer whose target's encoding starts with a header announcing a non-empty item -/
theorem rt_ptr_some (env : Env) (g : Nat) (e : Ty) (v' : Val) (b : Bytes) (k : Kind) (sz : Nat) (hk0 : sz ≠ 0)
    (hrt : RT env g e v' b) (hpk : PK (decV env g e))
    (hkind : ∀ s tail, s.kind = none → s.rest = b ++ tail → Room s.stack b.length → (kindOf s).1 = (k, sz, none)) :
    RT env (g + 1) (.ptr e) (.ptr v') b := by
  intro s tail hk hrest hroom
  obtain ⟨s', hd, haft⟩ := hrt s tail hk hrest hroom
  have h1 := hkind s tail hk hrest hroom
  refine ⟨s', ?_, haft⟩
  simp only [decV]
  rcases hko : kindOf s with ⟨⟨k1, sz1, e1⟩, s1⟩
  rw [hko] at h1
  simp only [Prod.mk.injEq] at h1
  obtain ⟨rfl, rfl, rfl⟩ := h1
  simp only
  have hne : ¬ (sz1 = 0 ∧ k1 ≠ Kind.byte) := fun hc => hk0 hc.1
  simp only [hne, if_false]
  have : s1 = (kindOf s).2 := by rw [hko]
  rw [this, hpk s hk, hd]

theorem rt_ptr_nil_list (env : Env) (g : Nat) (e : Ty) : RT env (g + 1) (.ptr e) .nil [0xC0] := by
  intro s tail hk hrest hroom
  have he : encListHead [] = [0xC0] := by decide
  obtain ⟨h1, h2⟩ := kindOf_enc_list s [] tail hk (by rw [he]; exact hrest) (by decide) (by rw [he]; exact hroom)
  obtain ⟨h3, h4⟩ := h2 rfl
  simp only [decV]
  rcases hko : kindOf s with ⟨⟨k1, sz1, e1⟩, s1⟩
  rw [hko] at h1 h3 h4
  simp only [Prod.mk.injEq, List.length_nil] at h1
  obtain ⟨rfl, rfl, rfl⟩ := h1
  simp only [ne_eq, reduceCtorEq, not_false_eq_true, and_self, if_true]
  exact ⟨_, rfl, rfl, h3, by simpa using h4⟩

theorem rt_ptr_nil_str (env : Env) (g : Nat) (e : Ty) : RT env (g + 1) (.ptr e) .nil [0x80] := by
  intro s tail hk hrest hroom
  have he : encHead 0x80 0xB7 ([] : Bytes).length ++ [] = [0x80] := by decide
  obtain ⟨h1, h2⟩ := kindOf_enc_str s [] tail hk (by rw [he]; exact hrest) (by decide) (by rw [he]; exact hroom)
  obtain ⟨h3, h4⟩ := h2 rfl
  simp only [decV]
  rcases hko : kindOf s with ⟨⟨k1, sz1, e1⟩, s1⟩
  rw [hko] at h1 h3 h4
  simp only [Prod.mk.injEq, List.length_nil] at h1
  obtain ⟨rfl, rfl, rfl⟩ := h1
  simp only [ne_eq, reduceCtorEq, not_false_eq_true, and_self, if_true]
  exact ⟨_, rfl, rfl, h3, by simpa using h4⟩

theorem rt_bigptr_nil (env : Env) (g : Nat) : RT env (g + 1) .bigptr (.ptr (.big false 0)) [0x80] := by
  have := rt_bigptr env g 0 (by decide)
  simpa using this

/-- layer-2 round trip, extended fragment -/
theorem rt_fragN (env : Env) : ∀ (f : Nat) (t : Ty) (v v' : Val) (b : Bytes), FragN env t v v' → encV env f t v = .ok b →
    b.length < 2 ^ 64 → ∀ g, f ≤ g → Good3 env g t v' b
  | 0, t, v, v', b, _, he, _, _, _ => by simp [encV] at he
  | f + 1, t, v, v', b, hf, he, hb, g, hg => by
    obtain ⟨g', rfl⟩ : ∃ g', g = g' + 1 := ⟨g - 1, by omega⟩
    have hfg : f ≤ g' := by omega
    have IH : ∀ t v v' b, FragN env t v v' → encV env f t v = .ok b → b.length < 2 ^ 64 → Good3 env g' t v' b :=
      fun t v v' b h1 h2 h3 => rt_fragN env f t v v' b h1 h2 h3 g' hfg
    cases hf with
    | uint bits n hn hl =>
      simp only [encV, Except.ok.injEq] at he; subst he
      exact ⟨rt_uint env g' bits n hn hl, (encStr_length _).1, head_uint env g' bits⟩
    | int bits z h1 h2 h3 h4 h5 =>
      simp only [encV, Except.ok.injEq] at he; subst he
      have := encStr_len_ge (formatInt16 z)
      exact ⟨rt_int env g' bits z (by omega) h1 h2 h3 h4 h5, (encStr_length _).1, head_int env g' bits⟩
    | bool x =>
      cases x with
      | true => simp only [encV, Except.ok.injEq] at he; subst he; exact ⟨rt_bool env g' true, by simp, head_bool env g'⟩
      | false => simp only [encV, Except.ok.injEq] at he; subst he; exact ⟨rt_bool env g' false, by simp, head_bool env g'⟩
    | bytes bs =>
      simp only [encV, Except.ok.injEq] at he; subst he
      have := encStr_len_ge bs
      exact ⟨rt_bytes env g' bs (by omega), (encStr_length _).1, head_bytes env g'⟩
    | string bs =>
      simp only [encV, Except.ok.injEq] at he; subst he
      have := encStr_len_ge bs
      exact ⟨rt_string env g' bs (by omega), (encStr_length _).1, head_string env g'⟩
    | bytearr bs hq =>
      simp only [encV, if_true, Except.ok.injEq] at he; subst he
      have := encStr_len_ge bs
      exact ⟨rt_bytearr env g' bs (by omega) hq, (encStr_length _).1, head_bytearr env g' _⟩
    | bigval n =>
      simp only [encV, encBig, Bool.false_eq_true, if_false] at he
      have hb' : b = (if n = 0 then [0x80] else encStr (natBytes n)) := by
        split at he <;> simp_all
      subst hb'
      have hsz : (natBytes n).length < 2 ^ 64 := by
        split at hb
        · next h => subst h; simp [natBytes_zero]
        · have := encStr_len_ge (natBytes n); omega
      refine ⟨rt_bigval env g' n hsz, ?_, head_bigval env g'⟩
      split
      · simp
      · exact (encStr_length _).1
    | bigptr n =>
      simp only [encV, encBig, Bool.false_eq_true, if_false] at he
      have hb' : b = (if n = 0 then [0x80] else encStr (natBytes n)) := by
        split at he <;> simp_all
      subst hb'
      have hsz : (natBytes n).length < 2 ^ 64 := by
        split at hb
        · next h => subst h; simp [natBytes_zero]
        · have := encStr_len_ge (natBytes n); omega
      refine ⟨rt_bigptr env g' n hsz, ?_, head_bigptr env g'⟩
      split
      · simp
      · exact (encStr_length _).1
    | bigptrNil =>
      simp only [encV, Except.ok.injEq] at he; subst he
      exact ⟨rt_bigptr_nil env g', by simp, head_bigptr env g'⟩
    | time sec nsec h1 h2 h3 h4 =>
      simp only [encV, Except.ok.injEq] at he; subst he
      rw [encListHead_length] at hb
      have hh1 := encHead_length_pos 0xC0 0xF7 (encStr (formatInt16 sec) ++ encStr (formatInt16 nsec)).length
      exact ⟨rt_time env g' sec nsec h1 h2 h3 h4 (by omega), by rw [encListHead_length]; omega, head_time env g'⟩
    | struct fs vs vs' hfl =>
      simp only [encV] at he
      cases hp : encSeq (encV env f) fs vs with
      | error e => rw [hp] at he; cases he
      | ok p =>
        rw [hp] at he
        simp only [Except.ok.injEq] at he
        subst he
        rw [encListHead_length] at hb
        have hh1 := encHead_length_pos 0xC0 0xF7 p.length
        refine ⟨?_, by rw [encListHead_length]; omega, head_struct env g' fs⟩
        intro s tail hk hrest hroom
        obtain ⟨s1, hl1, hk1, hr1, hs1⟩ := sList_enc s p tail hk hrest (by omega) hroom
        obtain ⟨s2, hd2, hk2, hr2, hs2, hne⟩ := decFieldsN_enc env f g' IH fs vs vs' p hfl hp (by omega) [] s1 tail 0 p.length _
          hk1 hr1 hs1 (by omega)
        simp only [Nat.zero_add] at hs2
        obtain ⟨s3, hd3, hk3, hr3, hs3⟩ := sListEnd_ok s2 p.length _ hs2
        simp only [decV, hl1]
        by_cases hp0 : p.length = 0
        · have hfs : fs = [] := by
            cases fs with
            | nil => rfl
            | cons t ts => have := hne (by simp); omega
          subst hfs
          cases hfl
          have : p = [] := List.eq_nil_of_length_eq_zero hp0
          subst this
          simp only [hp0, if_true]
          have hs1' : s1.stack = (0, 0) :: bump (encHead 0xC0 0xF7 0).length s.stack := by simpa using hs1
          obtain ⟨s4, hd4, hk4, hr4, hs4⟩ := sListEnd_ok s1 0 _ hs1'
          rw [hd4]
          refine ⟨s4, by simp, hk4, by rw [hr4, hr1]; simp, ?_⟩
          rw [hs4, bump_bump]; simp [encListHead]
        · simp only [hp0, if_false]
          rw [hd2]
          simp only [List.reverse_nil, List.nil_append]
          rw [hd3]
          refine ⟨s3, rfl, hk3, by rw [hr3, hr2], ?_⟩
          rw [hs3, bump_bump, encListHead_length]
    | slice e vs vs' hfs =>
      simp only [encV] at he
      cases hp : encAll (encV env f e) vs with
      | error er => rw [hp] at he; cases he
      | ok p =>
        rw [hp] at he
        simp only [Except.ok.injEq] at he
        subst he
        rw [encListHead_length] at hb
        have hh1 := encHead_length_pos 0xC0 0xF7 p.length
        refine ⟨?_, by rw [encListHead_length]; omega, head_slice env g' e⟩
        intro s tail hk hrest hroom
        obtain ⟨s1, hl1, hk1, hr1, hs1⟩ := sList_enc s p tail hk hrest (by omega) hroom
        have IHe : ∀ v v' b, FragN env e v v' → encV env f e v = .ok b → b.length < 2 ^ 64 → Good3 env g' e v' b :=
          fun v v' b h1 h2 h3 => IH e v v' b h1 h2 h3
        have hlen := encAll_length_ge env f g' e IHe vs vs' p hfs hp (by omega)
        simp only [decV, hl1]
        cases hfs with
        | nil =>
          simp only [encAll, Except.ok.injEq] at hp
          subst hp
          simp only [List.length_nil, if_true]
          have hs1' : s1.stack = (0, 0) :: bump (encHead 0xC0 0xF7 0).length s.stack := by simpa using hs1
          obtain ⟨s4, hd4, hk4, hr4, hs4⟩ := sListEnd_ok s1 0 _ hs1'
          rw [hd4]
          refine ⟨s4, rfl, hk4, by rw [hr4, hr1]; simp, ?_⟩
          rw [hs4, bump_bump]; simp [encListHead]
        | cons _ v0 v0' vs0 vs0' hfv hfl =>
          have hp0 : p.length ≠ 0 := by simp only [List.length_cons] at hlen; omega
          simp only [hp0, if_false]
          -- EOL of the element type from the first element
          have hb0 : ∃ b0, encV env f e v0 = .ok b0 ∧ b0.length ≤ p.length := by
            simp only [encAll] at hp
            cases hx : encV env f e v0 with
            | error er => rw [hx] at hp; cases hp
            | ok b0 =>
              rw [hx] at hp
              simp only at hp
              cases hy : encAll (encV env f e) vs0 with
              | error er => rw [hy] at hp; cases hp
              | ok bs =>
                rw [hy] at hp
                simp only [Except.ok.injEq] at hp
                exact ⟨b0, rfl, by rw [← hp]; simp⟩
          obtain ⟨b0, hb0, hb0l⟩ := hb0
          have heol := (IHe v0 v0' b0 hfv hb0 (by omega)).2.2.2
          obtain ⟨s2, hd2, hk2, hr2, hs2⟩ := decElems_enc env f g' e IHe heol (v0 :: vs0) (v0' :: vs0') p (.cons _ _ _ _ _ hfv hfl) hp
            (by omega) (s1.rest.length + 2) [] s1 tail 0 p.length _ (by rw [hr1]; simp only [List.length_append]; omega)
            hk1 hr1 hs1 (by omega)
          obtain ⟨s3, hd3, hk3, hr3, hs3⟩ := sListEnd_ok s2 p.length _ hs2
          rw [hd2]
          simp only [List.reverse_nil, List.nil_append]
          rw [hd3]
          refine ⟨s3, rfl, hk3, by rw [hr3, hr2], ?_⟩
          rw [hs3, bump_bump, encListHead_length]
    | ref id t' _ _ hd hft =>
      simp only [encV, hd] at he
      obtain ⟨h1, h2, h3⟩ := IH t' v v' b hft he hb
      have e : decV env (g' + 1) (.ref id) = decV env g' t' := by funext s; simp only [decV, hd]
      refine ⟨?_, h2, head_ref env g' id t' hd h3⟩
      unfold RT; rw [e]; exact h1
    | cval a e _ _ hfe =>
      simp only [encV] at he
      obtain ⟨h1, h2, h3⟩ := IH e v v' b hfe he hb
      refine ⟨?_, h2, head_cval env g' a e h3⟩
      intro s tail hk hrest hroom
      obtain ⟨s', hd, haft⟩ := h1 s tail hk hrest hroom
      exact ⟨s', by simp only [decV, hd], haft⟩
    | cptr a e v0 v0' hfe =>
      simp only [encV] at he
      obtain ⟨h1, h2, h3⟩ := IH e v0 v0' b hfe he hb
      refine ⟨?_, h2, head_cptr env g' a e h3⟩
      intro s tail hk hrest hroom
      obtain ⟨s', hd, haft⟩ := h1 s tail hk hrest hroom
      exact ⟨s', by simp only [decV, hd], haft⟩
    | ptrList e v0 v0' hfe hshape =>
      simp only [encV] at he
      obtain ⟨h1, h2, h3⟩ := IH e v0 v0' b hfe he hb
      obtain ⟨p, rfl, hpne⟩ := hshape f b he
      rw [encListHead_length] at hb
      refine ⟨rt_ptr_some env g' e v0' _ .list p.length (by intro hc; exact hpne (List.eq_nil_of_length_eq_zero hc)) h1 h3.1 ?_, h2,
        head_ptr env g' e⟩
      intro s tail hk hrest hroom
      exact (kindOf_enc_list s p tail hk hrest (by omega) hroom).1
    | ptrStr e v0 v0' hfe hshape =>
      simp only [encV] at he
      obtain ⟨h1, h2, h3⟩ := IH e v0 v0' b hfe he hb
      obtain ⟨bs, rfl, hbne⟩ := hshape f b he
      simp only [List.length_append] at hb
      refine ⟨rt_ptr_some env g' e v0' _ .string bs.length (by intro hc; exact hbne (List.eq_nil_of_length_eq_zero hc)) h1 h3.1 ?_, h2,
        head_ptr env g' e⟩
      intro s tail hk hrest hroom
      exact (kindOf_enc_str s bs tail hk hrest (by omega) hroom).1
    | ptrNilList e hn =>
      rw [hn f] at he
      simp only [Except.ok.injEq] at he; subst he
      exact ⟨rt_ptr_nil_list env g' e, by simp, head_ptr env g' e⟩
    | ptrNilStr e hn =>
      rw [hn f] at he
      simp only [Except.ok.injEq] at he; subst he
      exact ⟨rt_ptr_nil_str env g' e, by simp, head_ptr env g' e⟩

end Props.C11
