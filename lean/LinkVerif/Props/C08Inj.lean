/-
C08, injectivity part: the `libs/ser` (RLP) list encoding of the items that `Model.SigHash` hashes is injective, so
"equal Hash() ⇒ equal content" and the binding theorems rest on hash injectivity alone (an explicit hypothesis).

Every item the model hashes is a *frame*: a single byte < 0x80, a string header + payload, or a list header + payload
(the payload of a list may be opaque — UTXO inputs/outputs carry `ser` type prefixes that are not RLP items — because
only its header is needed to delimit it).  Frames are a prefix code (`framed_prefix_free`, from C11's header lemmas
`readHead_byte / readHead_enc_str / readHead_enc_list`), hence a concatenation of frames splits uniquely (`flatten_inj`)
and `rlpList` is injective on frame lists (`rlpList_inj`).  Sizes are Go sizes: `Small b` = the length fits a uint64.
-/
import LinkVerif.Props.C11Rlp
import LinkVerif.Model.SigHash

namespace Props.C08
open Model.SigHash Gen.SigFacts

/-- what Go can represent at all: the length fits a uint64 (C11's `Sized`) -/
def Small (b : Bytes) : Prop := b.length < 2 ^ 64

inductive Framed : Bytes → Prop
  | byte (x : UInt8) (h : x < 0x80) : Framed [x]
  | str (p : Bytes) (h : Small p) : Framed (Model.Rlp.encHead 0x80 0xB7 p.length ++ p)
  | list (p : Bytes) (h : Small p) : Framed (Model.Rlp.encHead 0xC0 0xF7 p.length ++ p)

/-- the length of the first frame of a byte string, read off its header -/
def frameLen (x : Bytes) : Option Nat :=
  match Model.Rlp.readHead x with
  | .ok (.byte, _, _, _) => some 1
  | .ok (.string, sz, _, rest) => some (x.length - rest.length + sz)
  | .ok (.list, sz, _, rest) => some (x.length - rest.length + sz)
  | .error _ => none

theorem frameLen_framed {b : Bytes} (hb : Framed b) (r : Bytes) : frameLen (b ++ r) = some b.length := by
  cases hb with
  | byte x h =>
    have := Props.C11.readHead_byte x r h
    simp [frameLen, this]
  | str p h =>
    have := Props.C11.readHead_enc_str p.length (p ++ r) h
    simp only [frameLen, List.append_assoc, this, List.length_append, Option.some.injEq]
    omega
  | list p h =>
    have := Props.C11.readHead_enc_list p.length (p ++ r) h
    simp only [frameLen, List.append_assoc, this, List.length_append, Option.some.injEq]
    omega

/-- frames are a prefix code -/
theorem framed_prefix_free {a b r r' : Bytes} (ha : Framed a) (hb : Framed b) (h : a ++ r = b ++ r') :
    a = b ∧ r = r' := by
  have h1 := frameLen_framed ha r
  have h2 := frameLen_framed hb r'
  rw [h, h2] at h1
  exact List.append_inj h (by simpa using h1.symm)

theorem framed_ne_nil {b : Bytes} (hb : Framed b) : b ≠ [] := by
  cases hb with
  | byte x h => simp
  | str p h => simp [Props.C11.encHead_ne_nil]
  | list p h => simp [Props.C11.encHead_ne_nil]

/-- a concatenation of frames splits uniquely -/
theorem flatten_inj : ∀ (xs ys : List Bytes), (∀ b ∈ xs, Framed b) → (∀ b ∈ ys, Framed b) →
    xs.flatten = ys.flatten → xs = ys
  | [], [], _, _, _ => rfl
  | [], y :: ys, _, hy, h => by
    have := framed_ne_nil (hy y (by simp))
    simp at h
    exact absurd h.1 this
  | x :: xs, [], hx, _, h => by
    have := framed_ne_nil (hx x (by simp))
    simp at h
    exact absurd h.1 this
  | x :: xs, y :: ys, hx, hy, h => by
    simp only [List.flatten_cons] at h
    obtain ⟨h1, h2⟩ := framed_prefix_free (hx x (by simp)) (hy y (by simp)) h
    rw [h1, flatten_inj xs ys (fun b hb => hx b (by simp [hb])) (fun b hb => hy b (by simp [hb])) h2]

/-- a list of frames whose concatenation has a Go size -/
def ItemsOK (xs : List Bytes) : Prop := (∀ b ∈ xs, Framed b) ∧ Small xs.flatten

theorem framed_rlpList (xs : List Bytes) (h : Small xs.flatten) : Framed (rlpList xs) := Framed.list _ h

theorem framed_rlpStr (b : Bytes) (h : Small b) : Framed (rlpStr b) := by
  unfold rlpStr
  cases hs : Model.Rlp.single7 b with
  | true =>
    obtain ⟨x, rfl, hx⟩ := (Props.C11.single7_iff b).mp hs
    rw [Props.C11.encStr_single x hx]; exact Framed.byte x hx
  | false =>
    rw [Props.C11.encStr_general b hs]; exact Framed.str b h

/-- **the list encoding is injective on frame lists** -/
theorem rlpList_inj {xs ys : List Bytes} (hx : ItemsOK xs) (hy : ItemsOK ys) (h : rlpList xs = rlpList ys) : xs = ys := by
  unfold rlpList at h
  have h1 := Props.C11.readHead_enc_list xs.flatten.length xs.flatten hx.2
  have h2 := Props.C11.readHead_enc_list ys.flatten.length ys.flatten hy.2
  rw [h, h2] at h1
  simp only [Except.ok.injEq, Prod.mk.injEq, true_and] at h1
  exact flatten_inj xs ys hx.1 hy.1 h1.2.symm

/-- strings: C11's `enc_injective` on `.str` items -/
theorem rlpStr_inj {a b : Bytes} (ha : Small a) (hb : Small b) (h : rlpStr a = rlpStr b) : a = b := by
  have := Props.C11.enc_injective (.str a) (.str b) (by simpa [Model.Rlp.Item.Sized, Small] using ha)
    (by simpa [Model.Rlp.Item.Sized, Small] using hb) (by simpa [Model.Rlp.enc, rlpStr] using h)
  injection this

theorem lt_pow_self (n : Nat) : n < 256 ^ n := Nat.lt_pow_self (by decide)

theorem beVal_beBytes (n : Nat) : Model.Rlp.beVal (beBytes n) = n :=
  Props.C11.beVal_beBytesF n n (lt_pow_self n)

theorem beBytes_inj {n m : Nat} (h : beBytes n = beBytes m) : n = m := by
  rw [← beVal_beBytes n, ← beVal_beBytes m, h]

/-- a number below 256^g has at most g bytes (so r, s < N < 256^32 and every V a transaction can carry are `Small`) -/
theorem beBytes_length_le {n g : Nat} (h : n < 256 ^ g) : (beBytes n).length ≤ g := by
  by_cases hn : n = 0
  · subst hn; simp [beBytes, Props.C11.beBytesF_zero]
  · have hh := Props.C11.beBytesF_head n n hn (lt_pow_self n)
    have hv := beVal_beBytes n
    unfold beBytes at hv ⊢
    cases hb : Model.Rlp.beBytesF n n with
    | nil => simp
    | cons a xs =>
      rw [hb] at hh hv
      have ha : a ≠ 0 := by
        intro h0; apply hh.1; simp [h0]
      have := Props.C11.beVal_pos a xs ha
      rw [hv] at this
      have hlt : 256 ^ xs.length < 256 ^ g := Nat.lt_of_le_of_lt this h
      have := (Nat.pow_lt_pow_iff_right (by decide : 1 < 256)).1 hlt
      simp; omega

theorem beBytes_small {n g : Nat} (h : n < 256 ^ g) (hg : g < 2 ^ 64) : Small (beBytes n) :=
  Nat.lt_of_le_of_lt (beBytes_length_le h) hg

theorem encNat_inj {n m : Nat} (hn : Small (beBytes n)) (hm : Small (beBytes m)) (h : encNat n = encNat m) : n = m :=
  beBytes_inj (rlpStr_inj hn hm h)

theorem encInt_inj {v w : Int} (hv : 0 ≤ v) (hw : 0 ≤ w) (sv : Small (beBytes v.toNat)) (sw : Small (beBytes w.toNat))
    (h : encInt v = encInt w) : v = w := by
  have := encNat_inj sv sw h
  omega

end Props.C08
