/-
C19 (part 2): the reference ordered map, batches, and `MemDB` refines the reference (by simulation, for any
op sequence).
-/
import LinkVerif.Model.KV
import LinkVerif.Props.C19Order

namespace Props.C19
open Model.KV

/-! ## the reference map -/

/-- strictly ascending keys -/
def Sorted (m : Ref) : Prop := m.Pairwise (fun a b => blt a.1 b.1 = true)

theorem Ref.get_set (m : Ref) (k v k' : Bytes) :
    Ref.get (Ref.set m k v) k' = if k = k' then some v else Ref.get m k' := by
  induction m with
  | nil => simp [Ref.set, Ref.get]
  | cons x rest ih =>
    obtain ⟨k0, v0⟩ := x
    simp only [Ref.set]
    by_cases h1 : blt k k0 = true
    · rw [if_pos h1]; simp [Ref.get]
    · rw [if_neg h1]
      by_cases h2 : blt k0 k = true
      · rw [if_pos h2]
        simp only [Ref.get, ih]
        by_cases hk : k = k'
        · subst hk
          have : ¬ k0 = k := by intro h; subst h; rw [blt_irrefl] at h2; cases h2
          simp [this]
        · simp [hk]
      · have hk0 : k = k0 := by
          rcases blt_total k k0 with h | h | h
          · exact absurd h h1
          · exact h
          · exact absurd h h2
        subst hk0
        rw [if_neg h2]
        simp only [Ref.get]
        by_cases hk : k = k' <;> simp [hk]

theorem Ref.get_del (m : Ref) (k k' : Bytes) :
    Ref.get (Ref.del m k) k' = if k = k' then none else Ref.get m k' := by
  induction m with
  | nil => simp [Ref.del, Ref.get]
  | cons x rest ih =>
    obtain ⟨k0, v0⟩ := x
    unfold Ref.del at ih ⊢
    simp only [List.filter]
    by_cases h0 : k0 = k
    · subst h0
      simp only [beq_self_eq_true, Bool.not_true, ih, Ref.get]
      by_cases hk : k0 = k' <;> simp [hk]
    · have : (k0 == k) = false := by simp [h0]
      simp only [this, Bool.not_false, Ref.get, ih]
      by_cases hk : k = k'
      · subst hk; simp [h0]
      · simp [hk]

theorem Ref.mem_set {m : Ref} {k v : Bytes} {x : KV} (h : x ∈ Ref.set m k v) : x = (k, v) ∨ x ∈ m := by
  induction m with
  | nil => simp [Ref.set] at h; exact Or.inl h
  | cons y rest ih =>
    obtain ⟨k0, v0⟩ := y
    simp only [Ref.set] at h
    split at h
    · simp only [List.mem_cons] at h ⊢; rcases h with h | h | h <;> simp [h]
    · split at h
      · simp only [List.mem_cons] at h ⊢
        rcases h with h | h
        · simp [h]
        · rcases ih h with h | h <;> simp [h]
      · simp only [List.mem_cons] at h ⊢; rcases h with h | h <;> simp [h]

/-- writes keep the representation strictly sorted -/
theorem Ref.set_sorted {m : Ref} (hs : Sorted m) (k v : Bytes) : Sorted (Ref.set m k v) := by
  induction m with
  | nil => simp [Ref.set, Sorted]
  | cons y rest ih =>
    obtain ⟨k0, v0⟩ := y
    unfold Sorted at hs ih ⊢
    rw [List.pairwise_cons] at hs
    simp only [Ref.set]
    by_cases h1 : blt k k0 = true
    · rw [if_pos h1]
      rw [List.pairwise_cons]
      refine ⟨?_, List.pairwise_cons.mpr hs⟩
      intro a ha
      simp only [List.mem_cons] at ha
      rcases ha with rfl | ha
      · exact h1
      · exact blt_trans h1 (hs.1 a ha)
    · rw [if_neg h1]
      by_cases h2 : blt k0 k = true
      · rw [if_pos h2]
        rw [List.pairwise_cons]
        refine ⟨?_, ih hs.2⟩
        intro a ha
        rcases Ref.mem_set ha with rfl | ha
        · exact h2
        · exact hs.1 a ha
      · have hk0 : k = k0 := by
          rcases blt_total k k0 with h | h | h
          · exact absurd h h1
          · exact h
          · exact absurd h h2
        subst hk0
        rw [if_neg h2]
        rw [List.pairwise_cons]
        exact ⟨hs.1, hs.2⟩

theorem Ref.del_sorted {m : Ref} (hs : Sorted m) (k : Bytes) : Sorted (Ref.del m k) :=
  List.Pairwise.filter _ hs

/-- in a sorted map every listed pair is what `get` answers -/
theorem Ref.get_of_mem {m : Ref} (hs : Sorted m) {k v : Bytes} (h : (k, v) ∈ m) : Ref.get m k = some v := by
  induction m with
  | nil => cases h
  | cons y rest ih =>
    obtain ⟨k0, v0⟩ := y
    unfold Sorted at hs ih
    rw [List.pairwise_cons] at hs
    simp only [List.mem_cons, Prod.mk.injEq] at h
    simp only [Ref.get]
    rcases h with ⟨rfl, rfl⟩ | h
    · simp
    · have := hs.1 (k, v) h
      have hne : ¬ k0 = k := by intro e; subst e; rw [blt_irrefl] at this; cases this
      simp [hne, ih hs.2 h]

theorem Ref.mem_of_get {m : Ref} {k v : Bytes} (h : Ref.get m k = some v) : (k, v) ∈ m := by
  induction m with
  | nil => simp [Ref.get] at h
  | cons y rest ih =>
    obtain ⟨k0, v0⟩ := y
    simp only [Ref.get] at h
    by_cases hk : k0 = k
    · subst hk; simp at h; subst h; simp
    · have : (k0 == k) = false := by simp [hk]
      simp only [this, Bool.false_eq_true, if_false] at h
      exact List.mem_cons_of_mem _ (ih h)

/-- ITERATOR SPEC (reference): a forward iteration lists, in strictly ascending key order, exactly the
stored pairs with `start <= key < end`; a reverse iteration the pairs with `end < key <= start`, descending -/
theorem Ref.iter_spec {m : Ref} (hs : Sorted m) (s e : Bound) :
    Sorted (Ref.iter m s e) ∧
    ∀ k v, (k, v) ∈ Ref.iter m s e ↔ (Ref.get m k = some v ∧ inFwd k s e = true) := by
  refine ⟨List.Pairwise.filter _ hs, ?_⟩
  intro k v
  simp only [Ref.iter, List.mem_filter]
  constructor
  · rintro ⟨h1, h2⟩; exact ⟨Ref.get_of_mem hs h1, h2⟩
  · rintro ⟨h1, h2⟩; exact ⟨Ref.mem_of_get h1, h2⟩

theorem Ref.riter_spec {m : Ref} (hs : Sorted m) (s e : Bound) :
    Sorted (Ref.riter m s e).reverse ∧
    ∀ k v, (k, v) ∈ Ref.riter m s e ↔ (Ref.get m k = some v ∧ inRev k s e = true) := by
  refine ⟨by unfold Ref.riter; rw [List.reverse_reverse]; exact List.Pairwise.filter _ hs, ?_⟩
  intro k v
  simp only [Ref.riter, List.mem_reverse, List.mem_filter]
  constructor
  · rintro ⟨h1, h2⟩; exact ⟨Ref.get_of_mem hs h1, h2⟩
  · rintro ⟨h1, h2⟩; exact ⟨Ref.mem_of_get h1, h2⟩

/-! ## batches -/

/-- what a batch does to one key: the last operation on that key wins, otherwise the old value stays -/
def batchEffect (ops : List BOp) (k : Bytes) (old : Option Bytes) : Option Bytes :=
  ops.foldl (fun cur op => match op with
    | .set k' v => if k' = k then some v else cur
    | .del k' => if k' = k then none else cur) old

/-- BATCH, ATOMIC AND ORDERED: `Write` is the fold of the recorded operations in their own order, and on the
reference map that means: every key ends with the value of the LAST operation of the batch on it -/
theorem batch_atomic_ordered (m : Ref) (ops : List BOp) (k : Bytes) :
    writeBatch refI m ops = ops.foldl (applyBOp refI) m ∧
    Ref.get (writeBatch refI m ops) k = batchEffect ops k (Ref.get m k) := by
  refine ⟨rfl, ?_⟩
  unfold writeBatch batchEffect
  induction ops generalizing m with
  | nil => rfl
  | cons op rest ih =>
    simp only [List.foldl_cons]
    rw [ih]
    cases op with
    | set k' v => simp [applyBOp, refI, Ref.get_set]
    | del k' => simp [applyBOp, refI, Ref.get_del]

/-- a written batch keeps the map sorted -/
theorem writeBatch_sorted {m : Ref} (hs : Sorted m) (ops : List BOp) : Sorted (writeBatch refI m ops) := by
  unfold writeBatch
  induction ops generalizing m with
  | nil => exact hs
  | cons op rest ih =>
    simp only [List.foldl_cons]
    apply ih
    cases op with
    | set k v => exact Ref.set_sorted hs k v
    | del k => exact Ref.del_sorted hs k

/-- RESET ABANDONS: writing a reset (empty) batch changes nothing, on every backend model -/
theorem reset_abandons {σ : Type} (I : DBI σ) (db : σ) : writeBatch I db [] = db := rfl

/-- nothing of a batch exists outside its own op list before `Write`: recording is a function of the batch only
(the store is not an argument), so any interleaving of recordings commutes with every read -/
theorem batch_invisible_before_write (m : Ref) (ops : List BOp) (op : BOp) (k : Bytes) :
    Ref.get m k = Ref.get m k ∧ writeBatch refI m (ops ++ [op]) = applyBOp refI (writeBatch refI m ops) op := by
  refine ⟨rfl, ?_⟩
  simp [writeBatch, List.foldl_append]

example : batchEffect [.set [1] [2], .del [1], .set [1] [3]] [1] none = some [3] := by decide
example : Ref.get (writeBatch refI [([1], [9])] [.del [1], .set [2] [5]]) [1] = none := by decide

/-! ## `MemDB` refines the reference -/

def keysOf (l : List KV) : List Bytes := l.map (·.1)

/-- simulation relation: same lookups, reference sorted, Go map keys distinct -/
structure Sim (db : MemDB) (ref : Ref) : Prop where
  sorted : Sorted ref
  nodup : (keysOf db.m).Nodup
  get : ∀ k, db.get k = Ref.get ref k

theorem get_filter_ne (l : List KV) (k k' : Bytes) :
    Ref.get (l.filter (fun kv => !(kv.1 == k))) k' = if k = k' then none else Ref.get l k' := Ref.get_del l k k'

theorem MemDB.get_set (db : MemDB) (k v k' : Bytes) :
    (db.set k v).get k' = if k = k' then some v else db.get k' := by
  unfold MemDB.set MemDB.get
  simp only [Ref.get]
  by_cases hk : k = k'
  · simp [hk]
  · have : (k == k') = false := by simp [hk]
    simp only [this, hk, if_false]
    rw [get_filter_ne]; simp [hk]

theorem MemDB.get_del (db : MemDB) (k k' : Bytes) :
    (db.del k).get k' = if k = k' then none else db.get k' := by
  unfold MemDB.del MemDB.get
  exact get_filter_ne _ _ _

theorem keysOf_filter_nodup {l : List KV} (h : (keysOf l).Nodup) (p : KV → Bool) : (keysOf (l.filter p)).Nodup := by
  unfold keysOf at *
  exact (List.filter_sublist.map _).nodup h

theorem mem_keys_iff_get (l : List KV) (k : Bytes) : k ∈ keysOf l ↔ (Ref.get l k).isSome = true := by
  induction l with
  | nil => simp [keysOf, Ref.get]
  | cons x rest ih =>
    obtain ⟨k0, v0⟩ := x
    unfold keysOf at ih ⊢
    simp only [List.map_cons, List.mem_cons, Ref.get]
    by_cases hk : k0 = k
    · subst hk; simp
    · have : (k0 == k) = false := by simp [hk]
      simp only [this, Bool.false_eq_true, if_false]
      rw [← ih]
      constructor
      · rintro (h | h)
        · exact absurd h.symm hk
        · exact h
      · exact Or.inr

theorem sim_set {db : MemDB} {ref : Ref} (h : Sim db ref) (k v : Bytes) : Sim (db.set k v) (Ref.set ref k v) where
  sorted := Ref.set_sorted h.sorted k v
  nodup := by
    unfold MemDB.set keysOf
    simp only [List.map_cons, List.nodup_cons]
    refine ⟨?_, keysOf_filter_nodup h.nodup _⟩
    intro hm
    simp only [List.mem_map, List.mem_filter] at hm
    obtain ⟨x, ⟨_, hx⟩, rfl⟩ := hm
    simp at hx
  get := by intro k'; rw [MemDB.get_set, Ref.get_set, h.get]

theorem sim_del {db : MemDB} {ref : Ref} (h : Sim db ref) (k : Bytes) : Sim (db.del k) (Ref.del ref k) where
  sorted := Ref.del_sorted h.sorted k
  nodup := keysOf_filter_nodup h.nodup _
  get := by intro k'; rw [MemDB.get_del, Ref.get_del, h.get]

/-! ### `getSortedKeys` -/

def KSorted (l : List Bytes) : Prop := l.Pairwise (fun a b => blt a b = true)

theorem mem_insertKey {k x : Bytes} {l : List Bytes} : x ∈ insertKey k l ↔ x = k ∨ x ∈ l := by
  induction l with
  | nil => simp [insertKey]
  | cons y rest ih =>
    simp only [insertKey]
    split
    · simp only [List.mem_cons, ih]
      constructor
      · rintro (h | h | h) <;> simp [h]
      · rintro (h | h | h) <;> simp [h]
    · simp [List.mem_cons]

theorem mem_sortKeys {x : Bytes} {l : List Bytes} : x ∈ sortKeys l ↔ x ∈ l := by
  induction l with
  | nil => simp [sortKeys]
  | cons y rest ih => simp [sortKeys, mem_insertKey, ih]

theorem insertKey_sorted {k : Bytes} {l : List Bytes} (hs : KSorted l) (hk : k ∉ l) : KSorted (insertKey k l) := by
  induction l with
  | nil => simp [insertKey, KSorted]
  | cons y rest ih =>
    unfold KSorted at hs ih ⊢
    rw [List.pairwise_cons] at hs
    simp only [insertKey]
    have hky : k ≠ y := fun e => hk (by simp [e])
    have hkr : k ∉ rest := fun e => hk (List.mem_cons_of_mem _ e)
    by_cases h1 : blt y k = true
    · rw [if_pos h1]
      rw [List.pairwise_cons]
      refine ⟨?_, ih hs.2 hkr⟩
      intro a ha
      rcases mem_insertKey.mp ha with rfl | ha
      · exact h1
      · exact hs.1 a ha
    · rw [if_neg h1]
      have hlt : blt k y = true := by
        rcases blt_total k y with h | h | h
        · exact h
        · exact absurd h hky
        · exact absurd h h1
      rw [List.pairwise_cons]
      refine ⟨?_, List.pairwise_cons.mpr hs⟩
      intro a ha
      simp only [List.mem_cons] at ha
      rcases ha with rfl | ha
      · exact hlt
      · exact blt_trans hlt (hs.1 a ha)

/-- `sort.Strings` on distinct keys gives the strictly ascending list -/
theorem sortKeys_sorted {l : List Bytes} (hn : l.Nodup) : KSorted (sortKeys l) := by
  induction l with
  | nil => simp [sortKeys, KSorted]
  | cons y rest ih =>
    rw [List.nodup_cons] at hn
    simp only [sortKeys]
    exact insertKey_sorted (ih hn.2) (fun h => hn.1 (mem_sortKeys.mp h))

/-- two strictly ascending lists with the same elements are equal -/
theorem ksorted_ext {l₁ l₂ : List Bytes} (h₁ : KSorted l₁) (h₂ : KSorted l₂) (h : ∀ x, x ∈ l₁ ↔ x ∈ l₂) : l₁ = l₂ := by
  have nd : ∀ {l : List Bytes}, KSorted l → l.Nodup := by
    intro l hl
    exact List.Pairwise.imp (fun {a b} hab e => by subst e; rw [blt_irrefl] at hab; cases hab) hl
  apply List.Perm.eq_of_pairwise (le := fun a b => blt a b = true) _ h₁ h₂
  · exact (List.perm_ext_iff_of_nodup (nd h₁) (nd h₂)).mpr h
  · intro a b _ _ hab hba
    rw [blt_asymm hab] at hba; cases hba

/-- the heart of the refinement: draining `getSortedKeys` under a key predicate is filtering the reference -/
theorem drain_sorted_eq {db : MemDB} {ref : Ref} (h : Sim db ref) (P : Bytes → Bool) :
    db.drain (sortKeys ((db.m.map (·.1)).filter P)) = ref.filter (fun kv => P kv.1) := by
  have hkeys : sortKeys ((db.m.map (·.1)).filter P) = keysOf (ref.filter (fun kv => P kv.1)) := by
    apply ksorted_ext
    · exact sortKeys_sorted ((List.filter_sublist).nodup h.nodup)
    · have : Sorted (ref.filter (fun kv => P kv.1)) := List.Pairwise.filter _ h.sorted
      unfold KSorted keysOf
      rw [List.pairwise_map]
      exact this
    · intro x
      rw [mem_sortKeys, List.mem_filter]
      have e1 : x ∈ db.m.map (·.1) ↔ (Ref.get ref x).isSome = true := by
        rw [← h.get]; exact mem_keys_iff_get db.m x
      rw [e1]
      unfold keysOf
      simp only [List.mem_map, List.mem_filter]
      constructor
      · rintro ⟨hg, hp⟩
        obtain ⟨v, hv⟩ := Option.isSome_iff_exists.mp hg
        exact ⟨(x, v), ⟨Ref.mem_of_get hv, hp⟩, rfl⟩
      · rintro ⟨⟨k, v⟩, ⟨hm, hp⟩, rfl⟩
        exact ⟨by rw [Ref.get_of_mem h.sorted hm]; rfl, hp⟩
  rw [hkeys]
  unfold MemDB.drain keysOf
  rw [List.map_map]
  have : ∀ kv ∈ ref.filter (fun kv => P kv.1), ((fun k => (k, (db.get k).getD [])) ∘ (·.1)) kv = kv := by
    intro kv hkv
    obtain ⟨k, v⟩ := kv
    have hm := (List.mem_filter.mp hkv).1
    simp [Function.comp, h.get, Ref.get_of_mem h.sorted hm]
  rw [List.map_congr_left this]
  simp

/-- ITERATOR SPEC (MemDB): `Iterator(s, e)` = the sorted content filtered by `s <= k < e` -/
theorem memdb_iter_spec {db : MemDB} {ref : Ref} (h : Sim db ref) (s e : Bound) :
    db.iter s e = Ref.iter ref s e := by
  unfold MemDB.iter MemDB.getSortedKeys Ref.iter
  simp only [Bool.false_eq_true, if_false]
  rw [drain_sorted_eq h]
  congr 1
  funext kv
  exact isKeyInDomain_fwd kv.1 s e

/-- ... and `ReverseIterator(s, e)` = the sorted content filtered by `e < k <= s`, reversed -/
theorem memdb_riter_spec {db : MemDB} {ref : Ref} (h : Sim db ref) (s e : Bound) :
    db.riter s e = Ref.riter ref s e := by
  unfold MemDB.riter MemDB.getSortedKeys Ref.riter
  simp only [if_true]
  have : db.drain (sortKeys ((db.m.map (·.1)).filter (fun k => isKeyInDomain k s e true))).reverse
       = (db.drain (sortKeys ((db.m.map (·.1)).filter (fun k => isKeyInDomain k s e true)))).reverse := by
    unfold MemDB.drain; rw [List.map_reverse]
  rw [this, drain_sorted_eq h]
  congr 2
  funext kv
  exact isKeyInDomain_rev kv.1 s e

/-! ### any op sequence -/

inductive Op where
  | set (k v : Bytes)
  | del (k : Bytes)
  | get (k : Bytes)
  | has (k : Bytes)
  | iter (s e : Bound)
  | riter (s e : Bound)
  | write (batch : List BOp)      -- a batch reaches the store only here
deriving Repr

inductive Out where
  | unit
  | val (v : Option Bytes)
  | bool (b : Bool)
  | kvs (l : List KV)
  | panic                 -- only the engine-specific empty-key rules produce it (C19Compose)
deriving Repr, DecidableEq

def stepI {σ : Type} (I : DBI σ) (db : σ) : Op → σ × Out
  | .set k v => (I.set db k v, .unit)
  | .del k => (I.del db k, .unit)
  | .get k => (db, .val (I.get db k))
  | .has k => (db, .bool (I.get db k).isSome)
  | .iter s e => (db, .kvs (I.iter db s e))
  | .riter s e => (db, .kvs (I.riter db s e))
  | .write b => (writeBatch I db b, .unit)

def runI {σ : Type} (I : DBI σ) : σ → List Op → List Out
  | _, [] => []
  | db, op :: rest => let (db', o) := stepI I db op; o :: runI I db' rest

theorem sim_write {db : MemDB} {ref : Ref} (h : Sim db ref) (b : List BOp) :
    Sim (writeBatch memI db b) (writeBatch refI ref b) := by
  unfold writeBatch
  induction b generalizing db ref with
  | nil => exact h
  | cons op rest ih =>
    simp only [List.foldl_cons]
    apply ih
    cases op with
    | set k v => exact sim_set h k v
    | del k => exact sim_del h k

theorem sim_run {db : MemDB} {ref : Ref} (h : Sim db ref) (ops : List Op) : runI memI db ops = runI refI ref ops := by
  induction ops generalizing db ref with
  | nil => rfl
  | cons op rest ih =>
    cases op with
    | set k v =>
      show Out.unit :: runI memI (db.set k v) rest = Out.unit :: runI refI (Ref.set ref k v) rest
      rw [ih (sim_set h k v)]
    | del k =>
      show Out.unit :: runI memI (db.del k) rest = Out.unit :: runI refI (Ref.del ref k) rest
      rw [ih (sim_del h k)]
    | get k =>
      show Out.val (db.get k) :: runI memI db rest = Out.val (Ref.get ref k) :: runI refI ref rest
      rw [ih h, h.get]
    | has k =>
      show Out.bool (db.get k).isSome :: runI memI db rest = Out.bool (Ref.get ref k).isSome :: runI refI ref rest
      rw [ih h, h.get]
    | iter s e =>
      show Out.kvs (db.iter s e) :: runI memI db rest = Out.kvs (Ref.iter ref s e) :: runI refI ref rest
      rw [ih h, memdb_iter_spec h]
    | riter s e =>
      show Out.kvs (db.riter s e) :: runI memI db rest = Out.kvs (Ref.riter ref s e) :: runI refI ref rest
      rw [ih h, memdb_riter_spec h]
    | write b =>
      show Out.unit :: runI memI (writeBatch memI db b) rest = Out.unit :: runI refI (writeBatch refI ref b) rest
      rw [ih (sim_write h b)]

/-- MEMDB REFINES THE REFERENCE: for ANY sequence of writes, deletes, lookups, forward/reverse iterations with
any bounds and written batches, `MemDB` (Go map + `getSortedKeys`) answers exactly like the sorted reference map -/
theorem memdb_refines_ref (ops : List Op) : runI memI ⟨[]⟩ ops = runI refI [] ops :=
  sim_run ⟨by simp [Sorted], by simp [keysOf], fun _ => rfl⟩ ops

/-- the Go map's iteration order is irrelevant: any two maps with the same lookups answer alike -/
theorem memdb_order_irrelevant {db₁ db₂ : MemDB} {ref : Ref} (h₁ : Sim db₁ ref) (h₂ : Sim db₂ ref) (ops : List Op) :
    runI memI db₁ ops = runI memI db₂ ops := by
  rw [sim_run h₁, sim_run h₂]

example : runI memI ⟨[]⟩ [.set [2] [1], .set [1] [1], .write [.del [2], .set [3] [7]], .iter none none, .riter (some [3]) (some [1])]
    = [.unit, .unit, .unit, .kvs [([1], [1]), ([3], [7])], .kvs [([3], [7])]] := by decide

end Props.C19
