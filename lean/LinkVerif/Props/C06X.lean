import LinkVerif.Model.LedgerX
import LinkVerif.Props.C06Lemmas

/-!
# C06, value moved by contract transactions (Model.LedgerX)

The value movements of creations, of calls that keep / forward / transfer value, of token-carrying calls and of
SELFDESTRUCT are lists of primitive moves between observed buckets.  Over everything observed (`nativeTotal`,
`tokenTotal`):
* `applyPrim_move_conserves`: a move between buckets that exist changes neither total (whatever the amount, also "all");
* `applyPrim_burn`: the one designed destruction lowers the native total by exactly the holdings of the bucket, and nothing else;
* `applyPrims_conserves`: a list of moves (and SELFDESTRUCT marks) conserves both totals;
* blocks (`applyBlock` = the movements in order, then `endBlock`: objects destroyed in the block are deleted with what they
  hold by then): `C06X_block_statement` (every block of in-range moves and marks conserves the native total) is FALSE of
  the model, which mirrors the code: `C06X_block_counterexample` is the known finding's witness (an instance is destroyed,
  a later transaction of the same block pays it 77, the 77 are gone); `C06X_block_partial` proves conservation for blocks
  in which no destroyed instance holds anything at the end (no payment to it after its destruction stayed with it);
* `X_statement_unrestricted` (every primitive list conserves) is FALSE: `X_counterexample` (a burn), and so is the version
  without the in-range hypothesis: `X_counterexample_range` (a move to a bucket that is not observed loses the value —
  the shape of the defect recorded in proposed/C06-pay-selfdestructed-same-block.md).
Core Lean only.
-/
namespace Props.C06X
open Model.Ledger
open Props.C06 (sum_addAt length_addAt)

/-- the bucket exists in the observation -/
def InRange (s : St) (x : XS) (tok : Bool) : Bk → Prop
  | .acct i => if tok then i < s.tok.length else i < s.bal.length
  | .zero => if tok then 0 < x.xt.length else True
  | .x k => if tok then k + 1 < x.xt.length else k < x.xb.length

instance (s : St) (x : XS) (tok : Bool) (b : Bk) : Decidable (InRange s x tok b) := by
  cases b <;> simp only [InRange] <;> infer_instance

/-- crediting `d` to an existing bucket raises the total of its coin by `d` and leaves the other coin alone -/
theorem addBk_totals (s : St) (x : XS) (tok : Bool) (b : Bk) (d : Int) (h : InRange s x tok b) :
    nativeTotal (addBk s x tok b d).1 (addBk s x tok b d).2 = nativeTotal s x + (if tok then 0 else d) ∧
    tokenTotal (addBk s x tok b d).1 (addBk s x tok b d).2 = tokenTotal s x + (if tok then d else 0) := by
  cases b with
  | acct i =>
    cases tok with
    | false =>
      simp only [InRange, Bool.false_eq_true, if_false] at h
      simp only [addBk, nativeTotal, tokenTotal, supply, tokSupply, pool, Bool.false_eq_true, if_false]
      rw [sum_addAt _ _ _ h]
      constructor <;> omega
    | true =>
      simp only [InRange, if_true] at h
      simp only [addBk, nativeTotal, tokenTotal, supply, tokSupply, pool, if_true]
      rw [sum_addAt _ _ _ h]
      constructor <;> omega
  | zero =>
    cases tok with
    | false =>
      simp only [addBk, nativeTotal, tokenTotal, supply, tokSupply, pool, Bool.false_eq_true, if_false]
      constructor <;> omega
    | true =>
      simp only [InRange, if_true] at h
      simp only [addBk, nativeTotal, tokenTotal, if_true]
      rw [sum_addAt _ _ _ h]
      constructor <;> omega
  | x k =>
    cases tok with
    | false =>
      simp only [InRange, Bool.false_eq_true, if_false] at h
      simp only [addBk, nativeTotal, tokenTotal, Bool.false_eq_true, if_false]
      rw [sum_addAt _ _ _ h]
      constructor <;> omega
    | true =>
      simp only [InRange, if_true] at h
      simp only [addBk, nativeTotal, tokenTotal, if_true]
      rw [sum_addAt _ _ _ h]
      constructor <;> omega

/-- `addBk` keeps every bucket in the observation -/
theorem addBk_inRange (s : St) (x : XS) (tok : Bool) (b : Bk) (d : Int) (tok' : Bool) (b' : Bk) (h : InRange s x tok' b') :
    InRange (addBk s x tok b d).1 (addBk s x tok b d).2 tok' b' := by
  cases b <;> cases tok <;> cases b' <;> cases tok' <;>
    simp only [InRange, addBk, length_addAt, Bool.false_eq_true, if_false, if_true] at h ⊢ <;> exact h

/-- the amount a move carries: the stated one, or everything the source holds -/
def amtOf (s : St) (x : XS) (tok : Bool) (src : Bk) : Option Int → Int
  | some v => v
  | none => getBk s x tok src

theorem applyPrim_move (s : St) (x : XS) (tok : Bool) (src dst : Bk) (amt : Option Int) :
    applyPrim (s, x) (.move tok src dst amt) =
      addBk (addBk s x tok src (-(amtOf s x tok src amt))).1 (addBk s x tok src (-(amtOf s x tok src amt))).2 tok dst
        (amtOf s x tok src amt) := by
  cases amt <;> rfl

/-- a move between two existing buckets changes neither total, whatever the amount (also "everything the source holds") -/
theorem applyPrim_move_conserves (s : St) (x : XS) (tok : Bool) (src dst : Bk) (amt : Option Int)
    (hs : InRange s x tok src) (hd : InRange s x tok dst) :
    nativeTotal (applyPrim (s, x) (.move tok src dst amt)).1 (applyPrim (s, x) (.move tok src dst amt)).2 = nativeTotal s x ∧
    tokenTotal (applyPrim (s, x) (.move tok src dst amt)).1 (applyPrim (s, x) (.move tok src dst amt)).2 = tokenTotal s x := by
  rw [applyPrim_move]
  generalize amtOf s x tok src amt = v
  have h1 := addBk_totals s x tok src (-v) hs
  have h2 := addBk_totals (addBk s x tok src (-v)).1 (addBk s x tok src (-v)).2 tok dst v (addBk_inRange s x tok src (-v) tok dst hd)
  rw [h2.1, h2.2, h1.1, h1.2]
  cases tok <;> simp <;> omega

/-- the designed destruction: the native total drops by exactly what the bucket held, the token total is untouched -/
theorem applyPrim_burn (s : St) (x : XS) (b : Bk) (h : InRange s x false b) :
    nativeTotal (applyPrim (s, x) (.burn b)).1 (applyPrim (s, x) (.burn b)).2 = nativeTotal s x - getBk s x false b ∧
    tokenTotal (applyPrim (s, x) (.burn b)).1 (applyPrim (s, x) (.burn b)).2 = tokenTotal s x := by
  have h1 := addBk_totals s x false b (-(getBk s x false b)) h
  simp only [Bool.false_eq_true, if_false] at h1
  cases b with
  | acct i => simp only [applyPrim]; exact ⟨by rw [h1.1]; omega, by rw [h1.2]; omega⟩
  | zero => simp only [applyPrim]; exact ⟨by rw [h1.1]; omega, by rw [h1.2]; omega⟩
  | x k =>
    simp only [applyPrim, nativeTotal, tokenTotal] at h1 ⊢
    exact ⟨by rw [h1.1]; omega, by rw [h1.2]; omega⟩

/-- every primitive of the list is a move between buckets that exist at the start -/
def AllMoves (s : St) (x : XS) : List Prim → Prop
  | [] => True
  | .move tok src dst _ :: ps => InRange s x tok src ∧ InRange s x tok dst ∧ AllMoves s x ps
  | .burn _ :: _ => False
  | .kill b :: ps => InRange s x false b ∧ AllMoves s x ps
  | .award k _ :: ps => k < x.yw.length ∧ AllMoves s x ps
  | .tokIn _ _ _ :: _ => False
  | .tokSpend _ _ _ :: _ => False
  | .fee _ _ :: _ => False

instance allMovesDecidable (s : St) (x : XS) : (ps : List Prim) → Decidable (AllMoves s x ps)
  | [] => isTrue trivial
  | .move tok src dst _ :: ps =>
    have := allMovesDecidable s x ps
    inferInstanceAs (Decidable (InRange s x tok src ∧ InRange s x tok dst ∧ AllMoves s x ps))
  | .burn _ :: _ => isFalse (fun h => h)
  | .kill b :: ps =>
    have := allMovesDecidable s x ps
    inferInstanceAs (Decidable (InRange s x false b ∧ AllMoves s x ps))
  | .award k _ :: ps =>
    have := allMovesDecidable s x ps
    inferInstanceAs (Decidable (k < x.yw.length ∧ AllMoves s x ps))
  | .tokIn _ _ _ :: _ => isFalse (fun h => h)
  | .tokSpend _ _ _ :: _ => isFalse (fun h => h)
  | .fee _ _ :: _ => isFalse (fun h => h)

/-- creating token outputs touches only the token pool -/
theorem addTokOuts_frame (x : XS) (outs : List (Nat × Int)) :
    (addTokOuts x outs).xb = x.xb ∧ (addTokOuts x outs).xt = x.xt ∧ (addTokOuts x outs).yw = x.yw ∧
    (addTokOuts x outs).fw = x.fw ∧ (addTokOuts x outs).tunit = x.tunit := by
  unfold addTokOuts
  induction outs generalizing x with
  | nil => exact ⟨rfl, rfl, rfl, rfl, rfl⟩
  | cons o os ih =>
    simp only [List.foldl_cons]
    exact ih _

/-- the token primitives and the fee debit keep every bucket in the observation -/
theorem inRange_congr {s s' : St} {x x' : XS} (hb : s'.bal.length = s.bal.length) (ht : s'.tok.length = s.tok.length)
    (hxb : x'.xb = x.xb) (hxt : x'.xt = x.xt) (tok : Bool) (b : Bk) (h : InRange s x tok b) : InRange s' x' tok b := by
  cases b <;> cases tok <;> simp only [InRange, Bool.false_eq_true, if_false, if_true, hb, ht, hxb, hxt] at h ⊢ <;> exact h

theorem applyPrim_inRange (s : St) (x : XS) (p : Prim) (tok' : Bool) (b' : Bk) (h : InRange s x tok' b') :
    InRange (applyPrim (s, x) p).1 (applyPrim (s, x) p).2 tok' b' := by
  cases p with
  | move tok src dst amt =>
    rw [applyPrim_move]
    exact addBk_inRange _ _ _ _ _ _ _ (addBk_inRange _ _ _ _ _ _ _ h)
  | burn b =>
    have h0 := addBk_inRange s x false b (-(getBk s x false b)) tok' b' h
    cases b with
    | acct i => simp only [applyPrim]; exact h0
    | zero => simp only [applyPrim]; exact h0
    | x k =>
      simp only [applyPrim]
      cases b' <;> cases tok' <;> simp only [InRange, Bool.false_eq_true, if_false, if_true] at h0 ⊢ <;> exact h0
  | kill b =>
    cases b with
    | acct i => simp only [applyPrim]; exact h
    | zero => simp only [applyPrim]; exact h
    | x k =>
      simp only [applyPrim]
      cases b' <;> cases tok' <;> simp only [InRange, Bool.false_eq_true, if_false, if_true] at h ⊢ <;> exact h
  | award k w =>
    simp only [applyPrim]
    cases b' <;> cases tok' <;> simp only [InRange, Bool.false_eq_true, if_false, if_true] at h ⊢ <;> exact h
  | tokIn i w units =>
    simp only [applyPrim]
    refine inRange_congr (s := s) (x := x) ?_ ?_ ?_ ?_ tok' b' h <;>
      first | rfl | simp only [length_addAt] | exact (addTokOuts_frame _ _).1 | exact (addTokOuts_frame _ _).2.1
  | tokSpend oid outs aout =>
    cases aout with
    | none =>
      simp only [applyPrim]
      refine inRange_congr (s := s) (x := x) ?_ ?_ ?_ ?_ tok' b' h <;>
      first | rfl | simp only [length_addAt] | exact (addTokOuts_frame _ _).1 | exact (addTokOuts_frame _ _).2.1
    | some a =>
      obtain ⟨a, u, c⟩ := a
      simp only [applyPrim]
      refine inRange_congr (s := s) (x := x) ?_ ?_ ?_ ?_ tok' b' h <;>
      first | rfl | simp only [length_addAt] | exact (addTokOuts_frame _ _).1 | exact (addTokOuts_frame _ _).2.1
  | fee i u =>
    simp only [applyPrim]
    refine inRange_congr (s := s) (x := x) ?_ ?_ ?_ ?_ tok' b' h <;>
      first | rfl | simp only [length_addAt] | exact (addTokOuts_frame _ _).1 | exact (addTokOuts_frame _ _).2.1

/-- an award touches only the wei part of the observation -/
theorem applyPrim_award_eq (s : St) (x : XS) (k : Nat) (w : Int) :
    applyPrim (s, x) (.award k w) = (s, { x with yw := addAt x.yw k w, fw := x.fw + w }) := rfl

theorem applyPrim_award_totals (s : St) (x : XS) (k : Nat) (w : Int) :
    nativeTotal (applyPrim (s, x) (.award k w)).1 (applyPrim (s, x) (.award k w)).2 = nativeTotal s x ∧
    tokenTotal (applyPrim (s, x) (.award k w)).1 (applyPrim (s, x) (.award k w)).2 = tokenTotal s x := ⟨rfl, rfl⟩

/-- a SELFDESTRUCT mark moves nothing -/
theorem applyPrim_kill_totals (s : St) (x : XS) (b : Bk) :
    nativeTotal (applyPrim (s, x) (.kill b)).1 (applyPrim (s, x) (.kill b)).2 = nativeTotal s x ∧
    tokenTotal (applyPrim (s, x) (.kill b)).1 (applyPrim (s, x) (.kill b)).2 = tokenTotal s x := by
  cases b <;> exact ⟨rfl, rfl⟩

/-- no primitive changes the number of award payees -/
theorem applyPrim_yw_length (s : St) (x : XS) (p : Prim) : (applyPrim (s, x) p).2.yw.length = x.yw.length := by
  cases p with
  | move tok src dst amt =>
    rw [applyPrim_move]
    cases src <;> cases dst <;> cases tok <;> rfl
  | burn b => cases b <;> rfl
  | kill b => cases b <;> rfl
  | award k w => simp only [applyPrim, length_addAt]
  | tokIn i w units => simp only [applyPrim]; rw [(addTokOuts_frame _ _).2.2.1]
  | tokSpend oid outs aout =>
    cases aout with
    | none => simp only [applyPrim]; rw [(addTokOuts_frame _ _).2.2.1]
    | some a => obtain ⟨a, u, c⟩ := a; simp only [applyPrim]; rw [(addTokOuts_frame _ _).2.2.1]
  | fee i u => rfl

theorem allMoves_step (s : St) (x : XS) (p : Prim) (ps : List Prim) (h : AllMoves s x ps) :
    AllMoves (applyPrim (s, x) p).1 (applyPrim (s, x) p).2 ps := by
  induction ps with
  | nil => trivial
  | cons q qs ih =>
    cases q with
    | move tok src dst amt =>
      simp only [AllMoves] at h ⊢
      exact ⟨applyPrim_inRange s x p tok src h.1, applyPrim_inRange s x p tok dst h.2.1, ih h.2.2⟩
    | burn b => exact absurd h (by simp [AllMoves])
    | kill b =>
      simp only [AllMoves] at h ⊢
      exact ⟨applyPrim_inRange s x p false b h.1, ih h.2⟩
    | award k w =>
      simp only [AllMoves] at h ⊢
      exact ⟨by rw [applyPrim_yw_length]; exact h.1, ih h.2⟩
    | tokIn _ _ _ => exact absurd h (by simp [AllMoves])
    | tokSpend _ _ _ => exact absurd h (by simp [AllMoves])
    | fee _ _ => exact absurd h (by simp [AllMoves])

/-- **C06 over contract movements (partial).**  A list of moves between observed buckets conserves the native and the token
total.  This is what every contract transaction of the harness books except SELFDESTRUCT in favour of the contract itself. -/
theorem applyPrims_conserves (ps : List Prim) (s : St) (x : XS) (h : AllMoves s x ps) :
    nativeTotal (applyPrims (s, x) ps).1 (applyPrims (s, x) ps).2 = nativeTotal s x ∧
    tokenTotal (applyPrims (s, x) ps).1 (applyPrims (s, x) ps).2 = tokenTotal s x := by
  induction ps generalizing s x with
  | nil => exact ⟨rfl, rfl⟩
  | cons p ps ih =>
    cases p with
    | burn b => exact absurd h (by simp [AllMoves])
    | move tok src dst amt =>
      simp only [AllMoves] at h
      have h1 := applyPrim_move_conserves s x tok src dst amt h.1 h.2.1
      have h2 := ih (applyPrim (s, x) (.move tok src dst amt)).1 (applyPrim (s, x) (.move tok src dst amt)).2
        (allMoves_step s x _ ps h.2.2)
      simp only [applyPrims, List.foldl_cons] at h2 ⊢
      exact ⟨h2.1.trans h1.1, h2.2.trans h1.2⟩
    | kill b =>
      simp only [AllMoves] at h
      have h1 := applyPrim_kill_totals s x b
      have h2 := ih (applyPrim (s, x) (.kill b)).1 (applyPrim (s, x) (.kill b)).2 (allMoves_step s x _ ps h.2)
      simp only [applyPrims, List.foldl_cons] at h2 ⊢
      exact ⟨h2.1.trans h1.1, h2.2.trans h1.2⟩
    | award k w =>
      simp only [AllMoves] at h
      have h1 := applyPrim_award_totals s x k w
      have h2 := ih (applyPrim (s, x) (.award k w)).1 (applyPrim (s, x) (.award k w)).2 (allMoves_step s x _ ps h.2)
      simp only [applyPrims, List.foldl_cons] at h2 ⊢
      exact ⟨h2.1.trans h1.1, h2.2.trans h1.2⟩
    | tokIn _ _ _ => exact absurd h (by simp [AllMoves])
    | tokSpend _ _ _ => exact absurd h (by simp [AllMoves])
    | fee _ _ => exact absurd h (by simp [AllMoves])

/-! ## blocks: objects destroyed in a block are deleted at its end with what they hold by then -/

theorem addAt_zero (xs : List Int) (k : Nat) : addAt xs k 0 = xs := by
  unfold addAt
  induction xs generalizing k with
  | nil => simp
  | cons y ys ih =>
    cases k with
    | zero => simp
    | succ k => simp only [List.modify_succ_cons]; rw [ih k]

/-- deleting an object that holds nothing changes nothing -/
theorem burn_empty (s : St) (x : XS) (k : Nat) (h : geti x.xb k = 0) : applyPrim (s, x) (.burn (.x k)) = (s, x) := by
  simp only [applyPrim, getBk, Bool.false_eq_true, if_false, h, Int.neg_zero, addBk, addAt_zero]

/-- no object destroyed in the block holds anything: no payment to it after its destruction stayed with it -/
def DeadEmpty (sx : St × XS) : Prop := ∀ k ∈ sx.2.killed, geti sx.2.xb k = 0

instance (sx : St × XS) : Decidable (DeadEmpty sx) := inferInstanceAs (Decidable (∀ k ∈ sx.2.killed, geti sx.2.xb k = 0))

theorem endBlock_of_deadEmpty (sx : St × XS) (h : DeadEmpty sx) : endBlock sx = (sx.1, { sx.2 with killed := [] }) := by
  obtain ⟨s, x⟩ := sx
  unfold endBlock
  have key : ∀ (ks : List Nat), (∀ k ∈ ks, geti x.xb k = 0) →
      ks.foldl (fun acc k => applyPrim acc (.burn (.x k))) (s, x) = (s, x) := by
    intro ks
    induction ks with
    | nil => intro _; rfl
    | cons k ks ih =>
      intro hk
      simp only [List.foldl_cons]
      rw [burn_empty s x k (hk k (by simp))]
      exact ih (fun j hj => hk j (by simp [hj]))
  simp only [key x.killed h]

theorem foldl_applyPrims_flatten (txs : List (List Prim)) (sx : St × XS) :
    txs.foldl applyPrims sx = applyPrims sx txs.flatten := by
  induction txs generalizing sx with
  | nil => rfl
  | cons t ts ih =>
    simp only [List.foldl_cons, List.flatten_cons, applyPrims, List.foldl_append]
    exact ih _

/-- what C06 demands of a block of contract movements: in-range moves and SELFDESTRUCT marks conserve the native total -/
def C06X_block_statement : Prop :=
  ∀ (txs : List (List Prim)) (s : St) (x : XS), AllMoves s x txs.flatten →
    nativeTotal (applyBlock (s, x) txs).1 (applyBlock (s, x) txs).2 = nativeTotal s x

/-- **C06 over blocks of contract movements (partial).**  Conservation for every block in which no destroyed instance holds
anything at the end of the block — i.e. without a payment that an instance received, and kept, after an earlier transaction
of the same block destroyed it.  The full statement is false of the model (which mirrors the code): `C06X_block_counterexample`. -/
theorem C06X_block_partial (txs : List (List Prim)) (s : St) (x : XS) (h : AllMoves s x txs.flatten)
    (hd : DeadEmpty (txs.foldl applyPrims (s, x))) :
    nativeTotal (applyBlock (s, x) txs).1 (applyBlock (s, x) txs).2 = nativeTotal s x ∧
    tokenTotal (applyBlock (s, x) txs).1 (applyBlock (s, x) txs).2 = tokenTotal s x := by
  unfold applyBlock
  rw [endBlock_of_deadEmpty _ hd, foldl_applyPrims_flatten]
  exact applyPrims_conserves txs.flatten s x h

/-- the known finding's witness: instance 0 (bucket 3) is destroyed in favour of account 2 by the first transaction; the second
transaction of the block pays it 77 -/
def wit_s : St := { bal := [1000, 1000, 1000], tok := [0, 0, 0], nonce := [1, 0, 0], sbal := [1000, 1000, 1000], stok := [0, 0, 0], snonce := [1, 0, 0] }
def wit_x : XS := { xb := [0, 0, 0, 0], xt := [0, 0, 0, 0], rx := [0, 0, 0, 0] }
def wit_block : List (List Prim) :=
  [[.move false (.acct 0) (.x 3) (some 0), .move false (.x 3) (.acct 2) none, .kill (.x 3)],
   [.move false (.acct 1) (.x 3) (some 77)]]

/-- 77 units are destroyed, and the balance records keep crediting them (`rx`) -/
theorem wit_effect : nativeTotal (applyBlock (wit_s, wit_x) wit_block).1 (applyBlock (wit_s, wit_x) wit_block).2 = nativeTotal wit_s wit_x - 77 ∧
    (applyBlock (wit_s, wit_x) wit_block).2.rx = [0, 0, 0, 77] ∧ (applyBlock (wit_s, wit_x) wit_block).1.bal = [1000, 923, 1000] := by decide

theorem C06X_block_counterexample : ¬ C06X_block_statement := by
  intro h
  have := h wit_block wit_s wit_x (by decide)
  revert this; decide

/-- the hypothesis of the partial theorem is exactly what the witness violates; without the payment it holds -/
example : ¬ DeadEmpty (wit_block.foldl applyPrims (wit_s, wit_x)) := by decide
example : DeadEmpty ((wit_block.take 1).foldl applyPrims (wit_s, wit_x)) := by decide
example : nativeTotal (applyBlock (wit_s, wit_x) (wit_block.take 1)).1 (applyBlock (wit_s, wit_x) (wit_block.take 1)).2 = nativeTotal wit_s wit_x := by decide

/-! ## the unrestricted statements are false -/

/-- what C06 would demand of arbitrary contract movements: every primitive list conserves the native total -/
def X_statement_unrestricted : Prop :=
  ∀ (ps : List Prim) (s : St) (x : XS), nativeTotal (applyPrims (s, x) ps).1 (applyPrims (s, x) ps).2 = nativeTotal s x

def cx_s : St := { bal := [100], tok := [0], nonce := [0], sbal := [100], stok := [0], snonce := [0] }
def cx_x : XS := { xb := [0, 0, 0, 7], xt := [0, 0, 0, 0], rx := [0, 0, 0, 0] }

/-- a contract holding 7 destroys itself in its own favour: 7 are gone (the designed exception of the property) -/
theorem X_counterexample : ¬ X_statement_unrestricted := by
  intro h
  have := h [.burn (.x 3)] cx_s cx_x
  revert this; decide

/-- the same without the in-range hypothesis: value moved to a bucket that is not observed is lost -/
def X_statement_moves_any_range : Prop :=
  ∀ (tok : Bool) (src dst : Bk) (amt : Option Int) (s : St) (x : XS),
    nativeTotal (applyPrim (s, x) (.move tok src dst amt)).1 (applyPrim (s, x) (.move tok src dst amt)).2 = nativeTotal s x

theorem X_counterexample_range : ¬ X_statement_moves_any_range := by
  intro h
  have := h false (.acct 0) (.x 9) (some 5) cx_s cx_x
  revert this; decide

/-! ## non-vacuity: the movements the driver books -/

/-- account 0 sends 40 to instance 0 (bucket 3), which then pays everything it holds (7 + 40) to beneficiary 1 (bucket 2) -/
def nv_ps : List Prim := [.move false (.acct 0) (.x 3) (some 40), .move false (.x 3) (.x 2) none]

example : AllMoves cx_s cx_x nv_ps := by decide
example : (applyPrims (cx_s, cx_x) nv_ps).2.xb = [0, 0, 47, 0] ∧ (applyPrims (cx_s, cx_x) nv_ps).1.bal = [60] := by decide
example : nativeTotal (applyPrims (cx_s, cx_x) nv_ps).1 (applyPrims (cx_s, cx_x) nv_ps).2 = nativeTotal cx_s cx_x := by decide
/-- SELFDESTRUCT in its own favour after receiving 40: 47 destroyed, and the record surplus `rx` remembers them -/
example : nativeTotal (applyPrims (cx_s, cx_x) [.move false (.acct 0) (.x 3) (some 40), .burn (.x 3)]).1
      (applyPrims (cx_s, cx_x) [.move false (.acct 0) (.x 3) (some 40), .burn (.x 3)]).2 = nativeTotal cx_s cx_x - 47 ∧
    (applyPrims (cx_s, cx_x) [.move false (.acct 0) (.x 3) (some 40), .burn (.x 3)]).2.rx = [0, 0, 0, 47] := by decide

end Props.C06X
