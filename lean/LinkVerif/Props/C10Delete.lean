/-
C10: `delete` on terminator keys never panics, keeps the normal form, and removes exactly the key.
-/
import LinkVerif.Props.C10Insert

namespace Props.C10
open Model.Trie

theorem keyOK_append {w : Bool} {k k' : List Nib} (h1 : KeyOK false k) (h2 : KeyOK w k') : KeyOK w (k ++ k') := by
  induction k with
  | nil => exact absurd h1 (by simp [KeyOK])
  | cons a k ih =>
    rw [keyOK_cons] at h1
    rw [List.cons_append, keyOK_cons]
    right
    rcases h1 with ⟨h0, h⟩ | ⟨h0, h, h3⟩
    · subst h0
      exact ⟨by simpa using keyOK_ne_nil h2, by simpa using h, by simpa using h2⟩
    · exact ⟨by simp [h0], h, ih h3⟩

theorem mem_firstNonNil {c : Nib → Node} {m : Nib} : m ∈ firstNonNil c ↔ (c m).isNil = false := by
  simp [firstNonNil, List.mem_filter, List.mem_finRange]

theorem nodup_firstNonNil (c : Nib → Node) : (firstNonNil c).Nodup :=
  List.Pairwise.filter _ (List.nodup_finRange 17)

/-- the reduction of a full node after a deletion (the tail of `delete`'s fullNode case) -/
def reduceFull (c' : Nib → Node) : Node :=
  match firstNonNil c' with
  | [pos] =>
    if pos ≠ term then
      match c' pos with
      | .short k' c'' => .short (pos :: k') c''
      | child => .short [pos] child
    else .short [pos] (c' pos)
  | _ => .full c'

theorem delete_full (c : Nib → Node) (i : Nib) (r : List Nib) :
    Model.Trie.delete (.full c) (i :: r) = (Model.Trie.delete (c i) r).map (fun nn => reduceFull (setChild c i nn)) := by
  simp only [Model.Trie.delete]
  cases Model.Trie.delete (c i) r with
  | none => rfl
  | some nn =>
    simp only [Option.map, reduceFull]
    rcases hl : firstNonNil (setChild c i nn) with _ | ⟨pos, _ | ⟨b, rest⟩⟩
    · rfl
    · by_cases hp : pos = term
      · simp [hp]
      · simp only [ne_eq, hp, not_false_eq_true, if_true]
        cases setChild c i nn pos <;> rfl
    · rfl

theorem get_full_cons (c : Nib → Node) (j : Nib) (r : List Nib) : Model.Trie.get (.full c) (j :: r) = Model.Trie.get (c j) r := rfl

/-- the reduction keeps the normal form and the lookups -/
theorem reduceFull_spec (c' : Nib → Node)
    (hall : ∀ i, (c' i).isNil = true ∨ (WF (c' i) ∧ ((c' i).isValue = true ↔ i = term)))
    (m0 : Nib) (hm0 : (c' m0).isNil = false) :
    WF (reduceFull c') ∧ (reduceFull c').isValue = false ∧ (reduceFull c').isNil = false ∧
      ∀ key', KeyAt false key' → Model.Trie.get (reduceFull c') key' = Model.Trie.get (.full c') key' := by
  have hnd := nodup_firstNonNil c'
  have hmem : m0 ∈ firstNonNil c' := mem_firstNonNil.mpr hm0
  unfold reduceFull
  cases hl : firstNonNil c' with
  | nil => rw [hl] at hmem; cases hmem
  | cons pos rest =>
    cases rest with
    | cons b rest' =>
      -- at least two children: stays a full node
      simp only
      have ha : (c' pos).isNil = false := mem_firstNonNil.mp (by rw [hl]; simp)
      have hb : (c' b).isNil = false := mem_firstNonNil.mp (by rw [hl]; simp)
      have hab : pos ≠ b := by
        rw [hl] at hnd
        exact (List.pairwise_cons.mp hnd).1 b (by simp)
      refine ⟨⟨hall, pos, b, hab, ha, hb⟩, ?_, ?_, ?_⟩ <;> first | rfl | trivial | (intros; first | rfl | trivial)
    | nil =>
      simp only
      have hpos : (c' pos).isNil = false := mem_firstNonNil.mp (by rw [hl]; simp)
      have honly : ∀ m, (c' m).isNil = false → m = pos := fun m hm => by
        have := mem_firstNonNil.mpr hm
        rw [hl] at this; simpa using this
      have hother : ∀ j, j ≠ pos → c' j = .nil := fun j hj => by
        cases hn : (c' j).isNil
        · exact absurd (honly j hn) hj
        · exact isNil_eq hn
      rcases hall pos with h0 | ⟨hw, hv⟩
      · rw [h0] at hpos; cases hpos
      · -- lookups of a one-child full node
        have getOne : ∀ (n' : Node), (∀ r', Model.Trie.get n' (pos :: r') = Model.Trie.get (c' pos) r') →
            (∀ j r', j ≠ pos → Model.Trie.get n' (j :: r') = none) →
            ∀ key', KeyAt false key' → Model.Trie.get n' key' = Model.Trie.get (.full c') key' := by
          intro n' h1 h2 key' hk'
          cases key' with
          | nil => exact absurd (hk'.2.mp rfl) (by simp)
          | cons j r' =>
            rw [get_full_cons]
            by_cases hj : j = pos
            · subst hj; exact h1 r'
            · rw [h2 j r' hj, hother j hj]; rfl
        by_cases hpt : pos = term
        · simp only [hpt, ne_eq, not_true_eq_false, if_false]
          subst hpt
          have hval : (c' term).isValue = true := hv.mpr rfl
          refine ⟨⟨by simp [KeyOK, hval], ?_, hw⟩, rfl, rfl, ?_⟩
          · cases hc : c' term <;> simp_all [Node.isValue, Node.isShort]
          · apply getOne
            · intro r'; simp [Model.Trie.get, strip]
            · intro j r' hj; simp [Model.Trie.get, strip, Ne.symm hj]
        · simp only [ne_eq, hpt, not_false_eq_true, if_true]
          have hnv : (c' pos).isValue = false := by
            cases h : (c' pos).isValue
            · rfl
            · exact absurd (hv.mp h) hpt
          cases hc : c' pos with
          | nil => rw [hc] at hpos; cases hpos
          | value w => rw [hc] at hnv; cases hnv
          | short k' c'' =>
            simp only
            rw [hc] at hw
            obtain ⟨hk', hs', hw'⟩ := hw
            refine ⟨⟨keyOK_cons.mpr (Or.inr ⟨keyOK_ne_nil hk', hpt, hk'⟩), hs', hw'⟩, rfl, rfl, ?_⟩
            apply getOne
            · intro r'; rw [hc]; simp [Model.Trie.get, strip]
            · intro j r' hj; simp [Model.Trie.get, strip, Ne.symm hj]
          | full d =>
            simp only
            rw [hc] at hw
            refine ⟨⟨by simp [KeyOK, Node.isValue, hpt], rfl, hw⟩, rfl, rfl, ?_⟩
            apply getOne
            · intro r'; rw [hc]; simp [Model.Trie.get, strip]
            · intro j r' hj; simp [Model.Trie.get, strip, Ne.symm hj]

/-- the three outcomes of `delete` at a short node, without `split` -/
theorem delete_short_cases (k : List Nib) (c : Node) (key : List Nib) :
    (strip k key = none ∧ Model.Trie.delete (.short k c) key = some (.short k c)) ∨
    (key = k ∧ Model.Trie.delete (.short k c) key = some .nil) ∨
    (∃ a as, key = k ++ a :: as ∧ Model.Trie.delete (.short k c) key =
      match Model.Trie.delete c (a :: as) with
      | none => none
      | some (.short k' c') => some (.short (k ++ k') c')
      | some child => some (.short k child)) := by
  have hs := split_spec key k
  simp only [Model.Trie.delete]
  generalize split key k = sp at hs
  obtain ⟨p, keyRest, kRest⟩ := sp
  simp only at hs
  obtain ⟨h1, h2, h3⟩ := hs
  cases kRest with
  | cons x xr =>
    left
    refine ⟨?_, rfl⟩
    rw [h1, h2, strip_append_append]
    cases keyRest with
    | nil => rfl
    | cons y yr => exact strip_cons_ne (h3 y yr x xr rfl rfl).symm _ _
  | nil =>
    rw [List.append_nil] at h2
    cases keyRest with
    | nil => right; left; rw [List.append_nil] at h1; exact ⟨by rw [h1, h2], rfl⟩
    | cons a as =>
      right; right
      refine ⟨a, as, by rw [h1, h2], ?_⟩
      simp only
      cases Model.Trie.delete c (a :: as) with
      | none => rfl
      | some nn => cases nn <;> rfl

/-- DELETE, all clauses at once (positional form) -/
theorem delete_spec : ∀ (n : Node) (v : Bool) (key : List Nib), Pos v n → KeyAt v key →
    ∃ n', Model.Trie.delete n key = some n' ∧ Pos v n' ∧
      ((∃ c, n = .full c) → n'.isNil = false) ∧
      ∀ key', KeyAt v key' → Model.Trie.get n' key' = if key' = key then none else Model.Trie.get n key'
  | .nil, v, key, _, _ => ⟨.nil, by cases key <;> rfl, Or.inl rfl, (fun ⟨_, h⟩ => by cases h), fun key' _ => by simp [Model.Trie.get]⟩
  | .value w, v, key, hp, hk => by
    refine ⟨.nil, by cases key <;> rfl, Or.inl rfl, (fun ⟨_, h⟩ => by cases h), ?_⟩
    intro key' hk'
    rcases hp with h | ⟨_, hv⟩
    · simp [Node.isNil] at h
    · have hv' : v = true := by rw [← hv]; rfl
      subst hv'
      have e1 : key' = [] := hk'.2.mpr rfl
      have e2 : key = [] := hk.2.mpr rfl
      simp [e1, e2, Model.Trie.get]
  | .full c, v, [], hp, hk => by
    exfalso
    have hv : v = true := hk.2.mp rfl
    rcases hp with h | ⟨_, h⟩
    · simp [Node.isNil] at h
    · rw [hv] at h; simp [Node.isValue] at h
  | .full c, v, i :: r, hp, hk => by
    have hv := false_of_keyAt_cons hk
    subst hv
    rcases hp with h | ⟨hw, _⟩
    · simp [Node.isNil] at h
    · obtain ⟨hall, i0, j0, hij, hi0, hj0⟩ := hw
      have hpos : Pos (decide (i = term)) (c i) := by
        rcases hall i with h0 | ⟨hw', hv'⟩
        · exact Or.inl h0
        · exact Or.inr ⟨hw', isValue_eq_decide hv'⟩
      obtain ⟨nn, hdel, hpn, _, hget⟩ := delete_spec (c i) _ r hpos (keyAt_of_cons hk)
      have hall' : ∀ j, (setChild c i nn j).isNil = true ∨ (WF (setChild c i nn j) ∧ ((setChild c i nn j).isValue = true ↔ j = term)) := by
        intro j
        by_cases hji : j = i
        · subst hji
          simp only [setChild, if_true]
          rcases hpn with h0 | ⟨hw', hv'⟩
          · exact Or.inl h0
          · exact Or.inr ⟨hw', by rw [hv']; simp⟩
        · simp only [setChild, hji, if_false]; exact hall j
      have hm0 : ∃ m0, (setChild c i nn m0).isNil = false := by
        by_cases h : i0 = i
        · exact ⟨j0, by
            have : j0 ≠ i := fun e => hij (by rw [h, e])
            simp only [setChild, this, if_false]; exact hj0⟩
        · exact ⟨i0, by simp only [setChild, h, if_false]; exact hi0⟩
      obtain ⟨m0, hm0⟩ := hm0
      obtain ⟨hwc, hvc, hnc, hgc⟩ := reduceFull_spec (setChild c i nn) hall' m0 hm0
      refine ⟨reduceFull (setChild c i nn), by rw [delete_full, hdel]; rfl, Or.inr ⟨hwc, hvc⟩, fun _ => hnc, ?_⟩
      intro key' hk'
      rw [hgc key' hk']
      cases key' with
      | nil => exact absurd (hk'.2.mp rfl) (by simp)
      | cons j r' =>
        simp only [get_full_cons, setChild]
        by_cases hji : j = i
        · subst hji
          simp only [if_true]
          rw [hget r' (keyAt_of_cons hk')]
          simp
        · simp only [hji, if_false]
          have : ¬ (j :: r' = i :: r) := fun e => hji (List.cons.inj e).1
          simp [this]
  | .short k c, v, key, hp, hk => by
    rcases hp with h | ⟨hw, hvn⟩
    · simp [Node.isNil] at h
    · have hv : v = false := by rw [← hvn]; rfl
      subst hv
      obtain ⟨hkk, hcs, hwc⟩ := hw
      rcases delete_short_cases k c key with ⟨hst, hd⟩ | ⟨e, hd⟩ | ⟨a, as, e, hd⟩
      · -- the key is not below this node: unchanged
        refine ⟨.short k c, hd, Or.inr ⟨⟨hkk, hcs, hwc⟩, rfl⟩, (fun ⟨_, h⟩ => by cases h), ?_⟩
        intro key' _
        by_cases h : key' = key
        · subst h; simp [get_short_bind, hst]
        · simp [h]
      · -- the key is exactly the short key: the child is a value, the node disappears
        subst e
        refine ⟨.nil, hd, Or.inl rfl, (fun ⟨_, h⟩ => by cases h), ?_⟩
        intro key' hk'
        have hkt : KeyOK true key := keyOK_of_suf hk.1 (keyOK_ne_nil hkk)
        by_cases h : key' = key
        · simp [h, Model.Trie.get]
        · simp only [h, if_false, Model.Trie.get]
          cases hst : strip key key' with
          | none => rfl
          | some r =>
            exfalso
            have e2 := strip_eq_some.mp hst
            have : r = [] := suf_append_eq hk.1 (keyOK_ne_nil hkk) (by rw [← e2]; exact hk'.1)
            subst this; rw [List.append_nil] at e2; exact h e2
      · -- descend
        subst e
        have hkr : KeyAt c.isValue (a :: as) := suf_of_append hkk hk.1
        have hcv : c.isValue = false := false_of_keyAt_cons hkr
        rw [hcv] at hkr hkk
        have hcf : ∃ d, c = .full d := by
          cases c with
          | nil => exact absurd hwc (by simp [WF])
          | value w => simp [Node.isValue] at hcv
          | short _ _ => simp [Node.isShort] at hcs
          | full d => exact ⟨d, rfl⟩
        obtain ⟨n'', hdel, hpn, hnn, hget⟩ := delete_spec c false (a :: as) (Or.inr ⟨hwc, hcv⟩) hkr
        have hnn' := hnn hcf
        rcases hpn with h0 | ⟨hw'', hv''⟩
        · rw [h0] at hnn'; cases hnn'
        · -- the common lookup argument
          have fin : ∀ (res : Node), (∀ key', Model.Trie.get res key' = (strip k key').bind (Model.Trie.get n'')) →
              ∀ key', KeyAt false key' → Model.Trie.get res key' =
                if key' = k ++ a :: as then none else Model.Trie.get (.short k c) key' := by
            intro res hres key' hk'
            rw [hres, get_short_bind]
            cases hst : strip k key' with
            | none =>
              have : key' ≠ k ++ a :: as := by intro e; rw [e, strip_append] at hst; cases hst
              simp [this]
            | some r =>
              have e' := strip_eq_some.mp hst
              have hr : KeyAt false r := suf_of_append hkk (by rw [← e']; exact hk'.1)
              show Model.Trie.get n'' r = _
              rw [hget r hr]
              by_cases h : r = a :: as
              · have : key' = k ++ a :: as := by rw [e', h]
                simp [h, this]
              · have : key' ≠ k ++ a :: as := by
                  intro e; rw [e'] at e; exact h (List.append_cancel_left e)
                simp [h, this]
          rw [hdel] at hd
          cases n'' with
          | nil => simp [Node.isNil] at hnn'
          | value w => simp [Node.isValue] at hv''
          | short k' c' =>
            obtain ⟨hk', hs', hw'⟩ := hw''
            refine ⟨.short (k ++ k') c', hd, Or.inr ⟨⟨keyOK_append hkk hk', hs', hw'⟩, rfl⟩, (fun ⟨_, h⟩ => by cases h), ?_⟩
            apply fin
            intro key'
            rw [get_short_bind, strip_append_bind]
            cases strip k key' with
            | none => rfl
            | some r => simp [get_short_bind]
          | full d' =>
            refine ⟨.short k (.full d'), hd, Or.inr ⟨⟨hkk, rfl, hw''⟩, rfl⟩, (fun ⟨_, h⟩ => by cases h), ?_⟩
            apply fin
            intro key'
            exact get_short_bind _ _ _

end Props.C10
