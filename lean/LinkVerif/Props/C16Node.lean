/-
C16 at model level (L-B node model `Model.Node`, the model that is compared step by step with the real `ConsensusState`):
"whatever a peer sends, the node at most rejects the message; its consensus routine keeps running and its state is unaffected by
invalid input".

* `invalid_input_leaves_state`: for EVERY state (not only reachable ones) and every input the node rejects (`Rejected`, the classes
  are enumerated from the input type `In`), `Node.step` emits nothing (no vote, no proposal, no commit, not even a timeout), does not
  panic, and leaves every field equal (`SameCore`) except book-keeping: the output buffer and `decided` flag (reset at the start of
  every handler), the model's tables of part counts / block verdicts (`totals`, `okv`: what the message itself says about a block id),
  and — for votes of an untracked round — one EMPTY catch-up round (`rvs`, `catchup`), after which every round's vote sets still read
  the same (`rv`).
* `claims_do_not_vote`: a peer's +2/3 claim (`maj23`) is recorded (`peers`, the `peerMaj` flag, possibly a new EMPTY block entry) and
  nothing else: no output, no panic, same core state, and in every vote set the recorded votes, their powers, the tally per block and
  `maj23` are untouched (`SameVotes`).  A claim therefore never counts as a vote; a majority needs recorded votes of distinct
  validators (`Props.C01Node.maj23_has_quorum`, preserved by every step: `step_Good`).
* totality (`step_total`-family): `Node.step` is a total function; Go panics are explicit outcomes (`dead := true`, set by `die`).
  The sites represented are listed at `panic_sites` below.  Proved for ANY state: rejected inputs, claims and proposals never panic
  (`rejected_never_panics`, `claims_never_panic`, `proposal_never_panics`), and the vote containers' `PanicSanity` sites are
  unreachable (`addVerified_not_duplicate`, `catchupRound_new_round_only`).  NOT proved at model level: that an ACCEPTED block part or
  vote never reaches one of the sanity sites from a reachable state — those sites stay explicit `panic` answers that the
  correspondence run compares (a real panic where the model has none, or the reverse, is a disagreement).
-/
import LinkVerif.Props.C01Node

namespace Props.C16Node
open Model.Node Props.C01Node

/-- every field that decides how the node acts is equal; not compared: `out`, `decided`, `totals`, `okv`, `fresh`, and the vote
book-keeping `rvs`/`catchup` (compared separately, through `St.rv`) -/
def SameCore (s s' : St) : Prop :=
  s'.me = s.me ∧ s'.powers = s.powers ∧ s'.maxParts = s.maxParts ∧ s'.height = s.height ∧ s'.round = s.round ∧ s'.step = s.step ∧
  s'.lockedRound = s.lockedRound ∧ s'.lockedValue = s.lockedValue ∧ s'.validRound = s.validRound ∧ s'.validValue = s.validValue ∧
  s'.proposal = s.proposal ∧ s'.pb = s.pb ∧ s'.pbp = s.pbp ∧ s'.commitRound = s.commitRound ∧ s'.hround = s.hround ∧
  s'.vals = s.vals ∧ s'.svals = s.svals ∧ s'.dead = s.dead

/-- the inputs the node rejects, by class -/
def Rejected (s : St) : In → Prop
  -- a vote: for another height; of an unknown type; with an unacceptable signature / validator-set size / address (`ok = false`);
  -- naming a validator index outside the set
  | .vote t h _ idx _ _ _ ok => h + 1 = s.height ∨ h ≠ s.height ∨ (t ≠ tPrevote ∧ t ≠ tPrecommit) ∨ ok = false ∨ s.n ≤ idx
  -- a proposal: when one is already held; a recover proposal; for another height or round; after the commit step; with a POL round
  -- outside `-1, 0..r-1`; with a part count outside `1..maxParts`; not signed by the round's proposer
  | .proposal h r pol _ total signer typ =>
      s.proposal.isSome ∨ typ = 33 ∨ h ≠ s.height ∨ r ≠ s.round ∨ sCommit ≤ s.step ∨ (pol ≠ -1 ∧ (pol < 0 ∨ (r : Int) ≤ pol)) ∨
      total = 0 ∨ s.maxParts < total ∨ (Model.ValSet.getProposer s.vals).map (fun a => (a : Int)) ≠ some signer
  -- a block part: for another height; when no part set is expected; with an index outside the set; already present; not belonging to
  -- the expected part set (its proof does not verify against the header)
  | .part h _ pv idx _ _ _ =>
      h ≠ s.height ∨ s.pbp = none ∨ ∃ ps, s.pbp = some ps ∧ (ps.total ≤ idx ∨ ps.got.contains idx = true ∨ pv ≠ ps.v)
  -- a +2/3 claim: of an unknown vote type, or for a round the node does not track
  | .maj23 r t _ _ _ => (t ≠ tPrevote ∧ t ≠ tPrecommit) ∨ alookup s.rvs r = none
  -- a timeout below the node's `(height, round, step)` (not a peer input; listed for completeness)
  | .timeout h r st => h ≠ s.height ∨ r < s.round ∨ (r = s.round ∧ st < s.step)
  | .txs => False

theorem step_of_not_decided {s : St} {i : In} (h : (stepCore s i).decided = false) : step s i = stepCore s i := by
  unfold step; simp [h]

theorem learn_core (s : St) (v t : Nat) : SameCore s (learn s v t) ∧ (learn s v t).rvs = s.rvs ∧ (learn s v t).catchup = s.catchup ∧
    (learn s v t).out = s.out ∧ (learn s v t).decided = s.decided := by
  unfold learn SameCore; split
  · simp
  · split <;> simp

theorem SameCore.trans {a b c : St} (h1 : SameCore a b) (h2 : SameCore b c) : SameCore a c := by
  unfold SameCore at *
  obtain ⟨a1, a2, a3, a4, a5, a6, a7, a8, a9, a10, a11, a12, a13, a14, a15, a16, a17, a18⟩ := h1
  obtain ⟨b1, b2, b3, b4, b5, b6, b7, b8, b9, b10, b11, b12, b13, b14, b15, b16, b17, b18⟩ := h2
  exact ⟨by rw [b1, a1], by rw [b2, a2], by rw [b3, a3], by rw [b4, a4], by rw [b5, a5], by rw [b6, a6], by rw [b7, a7], by rw [b8, a8],
    by rw [b9, a9], by rw [b10, a10], by rw [b11, a11], by rw [b12, a12], by rw [b13, a13], by rw [b14, a14], by rw [b15, a15],
    by rw [b16, a16], by rw [b17, a17], by rw [b18, a18]⟩

theorem base_core (s : St) : SameCore s { s with out := [], decided := false } := by simp [SameCore]

/-- the shape every rejection has: the handler returns a state `x` with the core of the start state, the same vote sets, no output,
`decided = false` -/
structure Quiet (s x : St) : Prop where
  core : SameCore s x
  rv : ∀ q, x.rv q = s.rv q
  out : x.out = []
  dec : x.decided = false

theorem rv_of_rvs {s x : St} (h : x.rvs = s.rvs) (q : Nat) : x.rv q = s.rv q := by simp [St.rv, h]

theorem RV_eta_pv (rv : RV) : ({ rv with pv := rv.pv } : RV) = rv := by cases rv; rfl
theorem RV_eta_pc (rv : RV) : ({ rv with pc := rv.pc } : RV) = rv := by cases rv; rfl

theorem Quiet.of_eq {s b : St} (hc : SameCore s b) (hr : b.rvs = s.rvs) (ho : b.out = []) (hd : b.decided = false) : Quiet s b :=
  ⟨hc, rv_of_rvs hr, ho, hd⟩

/-- rejection only looks at fields of the core and at `rvs` -/
theorem Rejected_of_core {s b : St} (hc : SameCore s b) (hr : b.rvs = s.rvs) (i : In) (h : Rejected s i) : Rejected b i := by
  obtain ⟨_, c2, c3, c4, c5, c6, _, _, _, _, c11, _, c13, _, _, c16, _, _⟩ := hc
  cases i with
  | vote t h' r idx v tot src ok => simpa [Rejected, St.n, c2, c4] using h
  | proposal h' r pol v total signer typ => simpa [Rejected, c3, c4, c5, c6, c11, c16] using h
  | part h' r pv idx vOK cOK dec => simpa [Rejected, c4, c13] using h
  | maj23 r t src v tot => simpa [Rejected, hr] using h
  | timeout h' r st => simpa [Rejected, c4, c5, c6] using h
  | txs => exact h

theorem setProposal_rejected (b : St) (h r : Nat) (pol : Int) (v total : Nat) (signer : Int) (typ : Nat)
    (hr : Rejected b (.proposal h r pol v total signer typ)) : setProposal b h r pol v total signer typ = b := by
  unfold setProposal
  simp only [Rejected] at hr
  repeat' split
  all_goals first
    | rfl
    | (exfalso; rcases hr with h | h | h | h | h | h | h | h | h <;> simp_all <;> omega)

theorem addPart_rejected (b : St) (h pv idx : Nat) (dec : Bool) (r : Nat) (vOK cOK : Bool)
    (hr : Rejected b (.part h r pv idx vOK cOK dec)) : addPart b h pv idx dec = b := by
  unfold addPart
  simp only [Rejected] at hr
  split
  · rfl
  rename_i hh
  split
  · rfl
  rename_i ps hps
  have hps' : ps.total ≤ idx ∨ ps.got.contains idx = true ∨ pv ≠ ps.v := by
    rcases hr with h1 | h1 | ⟨ps', e, h1⟩
    · exact absurd h1.symm hh
    · rw [hps] at h1; cases h1
    · rw [hps] at e; cases e; exact h1
  split
  · rfl
  split
  · rfl
  split
  · rfl
  · exfalso; rcases hps' with h1 | h1 | h1 <;> simp_all

theorem VSet_add_rejected (vs : VSet) (n total i p : Nat) (v : Value) (ok : Bool) (h : ok = false ∨ n ≤ i) :
    vs.add n total i p v ok = (vs, false) := by
  unfold VSet.add
  split
  · rfl
  split
  · rfl
  split
  · rfl
  · exfalso; rcases h with h | h <;> simp_all

/-- recording a rejected vote: at most an empty catch-up round is opened -/
theorem recordVote_rejected (b : St) (t r idx v src : Nat) (ok : Bool) (h : ok = false ∨ b.n ≤ idx) :
    (recordVote b t r idx v src ok).2 = false ∧ SameCore b (recordVote b t r idx v src ok).1 ∧
    (∀ q, (recordVote b t r idx v src ok).1.rv q = b.rv q) ∧ (recordVote b t r idx v src ok).1.out = b.out ∧
    (recordVote b t r idx v src ok).1.decided = b.decided := by
  unfold recordVote
  split
  · simp [SameCore]
  rename_i s1 h1
  have hc : SameCore b s1 ∧ (∀ q, s1.rv q = b.rv q) ∧ s1.out = b.out ∧ s1.decided = b.decided ∧ s1.n = b.n := by
    unfold catchupRound at h1
    split at h1
    · cases h1; simp [SameCore]
    · simp only at h1
      split at h1
      · cases h1
        refine ⟨by simp [SameCore], fun q => ?_, rfl, rfl, rfl⟩
        simp only [St.rv]; exact alookup_append_empty b.rvs r q
      · cases h1
  obtain ⟨c1, c2, c3, c4, c5⟩ := hc
  simp only
  rw [VSet_add_rejected _ _ _ _ _ _ _ (by rw [c5]; exact h)]
  refine ⟨rfl, SameCore.trans c1 (by simp [SameCore, putVS]), fun q => ?_, by simp [putVS, c3], by simp [putVS, c4]⟩
  rw [putVS_rv]
  split
  · rename_i e; subst e
    split
    · simp only [St.pvs]; exact (RV_eta_pv _).trans (c2 q)
    · simp only [St.pcs]; exact (RV_eta_pc _).trans (c2 q)
  · exact c2 q

theorem addVote_rejected (b : St) (t h r idx v src tot : Nat) (ok : Bool) (hr : Rejected b (.vote t h r idx v tot src ok)) :
    SameCore b (addVote b t h r idx v src ok) ∧ (∀ q, (addVote b t h r idx v src ok).rv q = b.rv q) ∧
    (addVote b t h r idx v src ok).out = b.out ∧ (addVote b t h r idx v src ok).decided = b.decided := by
  unfold addVote
  simp only [Rejected] at hr
  split
  · simp [SameCore]
  rename_i h1
  split
  · simp [SameCore]
  rename_i h2
  split
  · simp [SameCore]
  rename_i h3
  have hok : ok = false ∨ b.n ≤ idx := by
    rcases hr with h | h | h | h | h
    · exact absurd h h1
    · exact absurd h h2
    · exact absurd h h3
    · exact Or.inl h
    · exact Or.inr h
  obtain ⟨r1, r2, r3, r4, r5⟩ := recordVote_rejected b t r idx v src ok hok
  simp only [r1]
  simp only [Bool.not_false, if_true]
  exact ⟨r2, r3, r4, r5⟩

theorem setPeerMaj_rejected (b : St) (r t src v tot : Nat) (hr : Rejected b (.maj23 r t src v tot)) : setPeerMaj b r t src v = b := by
  unfold setPeerMaj
  simp only [Rejected] at hr
  split
  · rfl
  rename_i h1
  split
  · rfl
  · rename_i rv h2
    rcases hr with h | h
    · exact absurd h h1
    · rw [h] at h2; cases h2

/-- a rejected input (or any input to a node whose routine has ended) is handled quietly -/
theorem stepCore_quiet (s : St) (i : In) (hr : s.dead = true ∨ Rejected s i) : Quiet s (stepCore s i) := by
  unfold stepCore
  simp only
  split
  · exact Quiet.of_eq (base_core s) rfl rfl rfl
  rename_i hd
  rcases hr with hr | hr
  · exact absurd hr hd
  have hb := base_core s
  cases i with
  | proposal h r pol v total signer typ =>
    simp only
    obtain ⟨l1, l2, _, l4, l5⟩ := learn_core { s with out := [], decided := false } v total
    have hc := SameCore.trans hb l1
    rw [setProposal_rejected _ h r pol v total signer typ (Rejected_of_core hc l2 _ hr)]
    exact Quiet.of_eq hc l2 l4 l5
  | part h r pv idx vOK cOK dec =>
    simp only
    have hc : SameCore s { s with out := [], decided := false, okv := aset s.okv pv (vOK, cOK) } := by simp [SameCore]
    rw [addPart_rejected _ h pv idx dec r vOK cOK (Rejected_of_core hc rfl _ hr)]
    exact Quiet.of_eq hc rfl rfl rfl
  | vote t h r idx v tot src ok =>
    simp only
    obtain ⟨l1, l2, _, l4, l5⟩ := learn_core { s with out := [], decided := false } v tot
    have hc := SameCore.trans hb l1
    obtain ⟨a1, a2, a3, a4⟩ := addVote_rejected _ t h r idx v src tot ok (Rejected_of_core hc l2 _ hr)
    exact ⟨SameCore.trans hc a1, fun q => by rw [a2 q]; exact rv_of_rvs l2 q, by rw [a3, l4], by rw [a4, l5]⟩
  | timeout h r st =>
    simp only
    rw [stale_timeout { s with out := [], decided := false } h r st (by simpa [Rejected] using hr)]
    exact Quiet.of_eq hb rfl rfl rfl
  | txs => exact absurd hr (by simp [Rejected])
  | maj23 r t src v tot =>
    simp only
    obtain ⟨l1, l2, _, l4, l5⟩ := learn_core { s with out := [], decided := false } v tot
    have hc := SameCore.trans hb l1
    rw [setPeerMaj_rejected _ r t src v tot (Rejected_of_core hc l2 _ hr)]
    exact Quiet.of_eq hc l2 l4 l5

/-- **invalid_input_leaves_state**: for EVERY state and every rejected input (`Rejected`), the step leaves the core of the state as it
is, every round's vote sets read the same, and nothing is emitted: no vote, no proposal, no commit, no timeout; in particular the
node does not panic (`SameCore` includes `dead`) -/
theorem invalid_input_leaves_state (s : St) (i : In) (hr : Rejected s i) :
    SameCore s (step s i) ∧ (∀ q, (step s i).rv q = s.rv q) ∧ (step s i).out = [] := by
  have hq := stepCore_quiet s i (Or.inr hr)
  rw [step_of_not_decided hq.dec]
  exact ⟨hq.core, hq.rv, hq.out⟩

/-- the same for any input at all once the node's routine has ended -/
theorem dead_node_ignores_input (s : St) (i : In) (hd : s.dead = true) :
    SameCore s (step s i) ∧ (∀ q, (step s i).rv q = s.rv q) ∧ (step s i).out = [] := by
  have hq := stepCore_quiet s i (Or.inl hd)
  rw [step_of_not_decided hq.dec]
  exact ⟨hq.core, hq.rv, hq.out⟩

/-- non-vacuity: every class of `Rejected` is inhabited at the initial state of the example (a vote with a bad signature, a proposal
signed by the wrong validator, a part nobody expects, a claim for an untracked round, a stale timeout, messages for height 9) -/
example : Rejected exInit (.vote tPrevote 1 0 1 7 1 1 false) ∧ Rejected exInit (.vote tPrevote 1 0 9 7 1 1 true) ∧
    Rejected exInit (.vote tPrecommit 9 0 1 7 1 1 true) ∧ Rejected exInit (.proposal 1 0 (-1) 7 1 2 32) ∧
    Rejected exInit (.proposal 1 0 5 7 1 1 32) ∧ Rejected exInit (.proposal 1 0 (-1) 7 0 1 32) ∧
    Rejected exInit (.part 1 0 7 0 true true true) ∧ Rejected exInit (.maj23 5 tPrevote 1 7 1) ∧ Rejected exInit (.timeout 1 0 0) := by
  refine ⟨?_, ?_, ?_, ?_, ?_, ?_, ?_, ?_, ?_⟩ <;> simp [Rejected, exInit, initSt, St.n, tPrevote, tPrecommit, sNewHeight, alookup]
  all_goals decide

/-! ## peer claims -/

/-- the votes recorded for block `v` in a vote set and their power -/
def tallyOf (vs : VSet) (v : Value) : List Nat × Nat :=
  match alookup vs.byBlock v with
  | some bv => (bv.who, bv.sum)
  | none => ([], 0)

/-- two vote sets hold the same votes: primary votes, their power, the tally of every block, the recorded majority -/
def SameVotes (a b : VSet) : Prop :=
  b.votes = a.votes ∧ b.sum = a.sum ∧ b.maj23 = a.maj23 ∧ ∀ v, tallyOf b v = tallyOf a v

theorem SameVotes.refl (a : VSet) : SameVotes a a := ⟨rfl, rfl, rfl, fun _ => rfl⟩

theorem setPeerMaj_votes (vs : VSet) (peer : Nat) (v : Value) : SameVotes vs (vs.setPeerMaj peer v) := by
  unfold VSet.setPeerMaj
  split
  · exact SameVotes.refl vs
  simp only
  split
  · rename_i bv hb
    split
    · exact ⟨rfl, rfl, rfl, fun _ => rfl⟩
    · refine ⟨rfl, rfl, rfl, fun v' => ?_⟩
      unfold tallyOf
      simp only
      by_cases e : v' = v
      · subst e; rw [alookup_aset_same, hb]
      · rw [alookup_aset_other _ _ _ _ e]
  · rename_i hb
    refine ⟨rfl, rfl, rfl, fun v' => ?_⟩
    unfold tallyOf
    simp only
    by_cases e : v' = v
    · subst e; rw [alookup_aset_same, hb]
    · rw [alookup_aset_other _ _ _ _ e]

theorem setPeerMaj_state (b : St) (r t src v : Nat) :
    SameCore b (setPeerMaj b r t src v) ∧ (setPeerMaj b r t src v).out = b.out ∧ (setPeerMaj b r t src v).decided = b.decided ∧
    ∀ q, SameVotes (b.pvs q) ((setPeerMaj b r t src v).pvs q) ∧ SameVotes (b.pcs q) ((setPeerMaj b r t src v).pcs q) := by
  unfold setPeerMaj
  split
  · exact ⟨by simp [SameCore], rfl, rfl, fun q => ⟨SameVotes.refl _, SameVotes.refl _⟩⟩
  split
  · exact ⟨by simp [SameCore], rfl, rfl, fun q => ⟨SameVotes.refl _, SameVotes.refl _⟩⟩
  rename_i rv hrv
  have e : b.rv r = rv := by simp [St.rv, hrv]
  refine ⟨by simp [SameCore, putVS], by simp [putVS], by simp [putVS], fun q => ?_⟩
  simp only [St.pvs, St.pcs, putVS_rv]
  split
  · rename_i eq; subst eq
    split
    · simp only [e]; exact ⟨setPeerMaj_votes _ _ _, SameVotes.refl _⟩
    · simp only [e]; exact ⟨SameVotes.refl _, setPeerMaj_votes _ _ _⟩
  · exact ⟨SameVotes.refl _, SameVotes.refl _⟩

/-- **claims_do_not_vote**: whatever +2/3 claim a peer sends and whatever the state, the step emits nothing, does not panic, leaves the
core of the state alone, and in every vote set the recorded votes, their power, every block's tally and the recorded majority are as
before: only `peers`, `peerMaj` flags and EMPTY block entries can appear.  A claim never counts as a vote; majorities are made of
recorded votes (`Props.C01Node.maj23_has_quorum`) -/
theorem claims_do_not_vote (s : St) (r t src v tot : Nat) :
    let s' := step s (.maj23 r t src v tot)
    SameCore s s' ∧ s'.out = [] ∧ ∀ q, SameVotes (s.pvs q) (s'.pvs q) ∧ SameVotes (s.pcs q) (s'.pcs q) := by
  have key : SameCore s (stepCore s (.maj23 r t src v tot)) ∧ (stepCore s (.maj23 r t src v tot)).out = [] ∧
      (stepCore s (.maj23 r t src v tot)).decided = false ∧
      ∀ q, SameVotes (s.pvs q) ((stepCore s (.maj23 r t src v tot)).pvs q) ∧ SameVotes (s.pcs q) ((stepCore s (.maj23 r t src v tot)).pcs q) := by
    unfold stepCore
    simp only
    split
    · exact ⟨base_core s, rfl, rfl, fun q => ⟨SameVotes.refl _, SameVotes.refl _⟩⟩
    obtain ⟨l1, l2, _, l4, l5⟩ := learn_core { s with out := [], decided := false } v tot
    obtain ⟨p1, p2, p3, p4⟩ := setPeerMaj_state (learn { s with out := [], decided := false } v tot) r t src v
    refine ⟨SameCore.trans (SameCore.trans (base_core s) l1) p1, by rw [p2, l4], by rw [p3, l5], fun q => ?_⟩
    have hq : (learn { s with out := [], decided := false } v tot).rv q = s.rv q := rv_of_rvs l2 q
    have := p4 q
    simp only [St.pvs, St.pcs, hq] at this ⊢
    exact this
  simp only
  rw [step_of_not_decided key.2.2.1]
  exact ⟨key.1, key.2.1, key.2.2.2⟩

/-! ## totality: the panic outcomes of the model -/

/-- the Go panics the model represents as explicit outcomes (`dead := true`); every other path of `Node.step` is an ordinary value
(`Node.step` is a total Lean function) -/
def panic_sites : List String :=
  [ "HeightVoteSet.SetRound: PanicSanity(SetRound() must increment hvs.round)                     — setRound",
    "enterNewRound: IncrementAccum on an empty validator set (nil proposer)                        — enterNewRound / newHeight",
    "enterPrevoteWait / enterPrecommitWait: PanicSanity(... does not have any +2/3 votes)           — enterPrevoteWait / enterPrecommitWait",
    "enterPrecommit: PanicSanity(This POLRound should be ...)                                      — enterPrecommit",
    "enterPrecommit: PanicConsensus(+2/3 prevoted for an invalid block / evidence)                 — enterPrecommit",
    "enterCommit: PanicSanity(RunActionCommit() expects +2/3 precommits)                           — enterCommit",
    "tryFinalizeCommit: PanicSanity(cs.Height vs height)                                           — tryFinalizeCommit",
    "finalizeCommit: PanicSanity(no +2/3 / parts header / block hash), PanicConsensus(invalid block) — finalizeCommit",
    "handleTimeout: panic(Invalid timeout step)                                                   — handleTimeout" ]

/-- rejected inputs never panic, from any state -/
theorem rejected_never_panics (s : St) (i : In) (hr : Rejected s i) : (step s i).dead = s.dead :=
  (invalid_input_leaves_state s i hr).1.2.2.2.2.2.2.2.2.2.2.2.2.2.2.2.2.2

/-- claims never panic, from any state -/
theorem claims_never_panic (s : St) (r t src v tot : Nat) : (step s (.maj23 r t src v tot)).dead = s.dead :=
  (claims_do_not_vote s r t src v tot).1.2.2.2.2.2.2.2.2.2.2.2.2.2.2.2.2.2

/-- proposals, accepted or not, never panic and never emit anything, from any state -/
theorem proposal_never_panics (s : St) (h r : Nat) (pol : Int) (v total : Nat) (signer : Int) (typ : Nat) :
    (step s (.proposal h r pol v total signer typ)).dead = s.dead ∧ (step s (.proposal h r pol v total signer typ)).out = [] := by
  have key : (stepCore s (.proposal h r pol v total signer typ)).dead = s.dead ∧ (stepCore s (.proposal h r pol v total signer typ)).out = [] ∧
      (stepCore s (.proposal h r pol v total signer typ)).decided = false := by
    unfold stepCore
    simp only
    split
    · exact ⟨rfl, rfl, rfl⟩
    obtain ⟨l1, _, _, l4, l5⟩ := learn_core { s with out := [], decided := false } v total
    have ld : (learn { s with out := [], decided := false } v total).dead = s.dead := l1.2.2.2.2.2.2.2.2.2.2.2.2.2.2.2.2.2
    unfold setProposal
    repeat' split
    all_goals first | exact ⟨ld, l4, l5⟩ | exact ⟨by simpa using ld, by simpa using l4, by simpa using l5⟩
  rw [step_of_not_decided key.2.2]
  exact ⟨key.1, key.2.1⟩

/-- `VoteSet.addVerifiedVote`'s `PanicSanity("addVerifiedVote does not expect duplicate votes")` is unreachable: the model (like the
code) calls it only for a vote that is not known, and then the validator's primary vote is not for the same block -/
theorem addVerified_not_duplicate (vs : VSet) (i : Nat) (v : Value) (h : vs.known i v = false) : alookup vs.votes i ≠ some v := by
  unfold VSet.known at h
  intro e
  simp [e] at h

/-- `HeightVoteSet.addRound`'s `PanicSanity("addRound() for an existing round")` is unreachable: a catch-up round is added only for a
round without vote sets -/
theorem catchupRound_new_round_only {s s1 : St} {r src : Nat} (h : catchupRound s r src = some s1) :
    s1.rvs = s.rvs ∨ (alookup s.rvs r = none ∧ s1.rvs = s.rvs ++ [(r, RV.empty)]) := by
  unfold catchupRound at h
  split at h
  · cases h; exact Or.inl rfl
  · rename_i hn
    simp only at h
    split at h
    · cases h; exact Or.inr ⟨hn, rfl⟩
    · cases h

/-- an accepted block part that does not complete the part set (or completes one that does not decode) only stores the part: no panic,
no output, from any state -/
theorem incomplete_part_never_panics (s : St) (h r pv idx : Nat) (vOK cOK dec : Bool)
    (hinc : ∀ ps, s.pbp = some ps → (idx :: ps.got).length ≠ ps.total ∨ dec = false) :
    (step s (.part h r pv idx vOK cOK dec)).dead = s.dead ∧ (step s (.part h r pv idx vOK cOK dec)).out = [] := by
  have key : (stepCore s (.part h r pv idx vOK cOK dec)).dead = s.dead ∧ (stepCore s (.part h r pv idx vOK cOK dec)).out = [] ∧
      (stepCore s (.part h r pv idx vOK cOK dec)).decided = false := by
    unfold stepCore
    simp only
    split
    · exact ⟨rfl, rfl, rfl⟩
    unfold addPart
    split
    · exact ⟨rfl, rfl, rfl⟩
    split
    · exact ⟨rfl, rfl, rfl⟩
    rename_i ps hps
    split
    · exact ⟨rfl, rfl, rfl⟩
    split
    · exact ⟨rfl, rfl, rfl⟩
    split
    · exact ⟨rfl, rfl, rfl⟩
    simp only
    split
    · exact ⟨rfl, rfl, rfl⟩
    rename_i hlen
    split
    · exact ⟨rfl, rfl, rfl⟩
    rename_i hdec
    exfalso
    rcases hinc ps (by simpa using hps) with h1 | h1
    · exact h1 (by simpa using hlen)
    · simp [h1] at hdec
  rw [step_of_not_decided key.2.2]
  exact ⟨key.1, key.2.1⟩

/-- an accepted vote that crosses no threshold — after recording it its vote set has neither a +2/3 majority nor +2/3 of any votes — is
only recorded: no panic, no output, from any state.  (Only threshold-crossing votes and block-completing parts run the `enter*`
functions, where all panic sites of `panic_sites` live.) -/
theorem subthreshold_vote_never_panics (s : St) (t h r idx v tot src : Nat) (ok : Bool)
    (hsub : ∀ b : St, b = learn { s with out := [], decided := false } v tot →
      ((recordVote b t r idx v src ok).1.pvs r).maj23 = none ∧ ((recordVote b t r idx v src ok).1.pvs r).hasAny b.total = false ∧
      ((recordVote b t r idx v src ok).1.pcs r).maj23 = none ∧ ((recordVote b t r idx v src ok).1.pcs r).hasAny b.total = false) :
    (step s (.vote t h r idx v tot src ok)).dead = s.dead ∧ (step s (.vote t h r idx v tot src ok)).out = [] := by
  have key : (stepCore s (.vote t h r idx v tot src ok)).dead = s.dead ∧ (stepCore s (.vote t h r idx v tot src ok)).out = [] ∧
      (stepCore s (.vote t h r idx v tot src ok)).decided = false := by
    unfold stepCore
    simp only
    split
    · exact ⟨rfl, rfl, rfl⟩
    obtain ⟨l1, _, _, l4, l5⟩ := learn_core { s with out := [], decided := false } v tot
    have ld : (learn { s with out := [], decided := false } v tot).dead = s.dead := l1.2.2.2.2.2.2.2.2.2.2.2.2.2.2.2.2.2
    obtain ⟨h1, h2, h3, h4⟩ := hsub _ rfl
    generalize learn { s with out := [], decided := false } v tot = b at *
    obtain ⟨f1, f2, f3, f4, f5, f6, f7⟩ := recordVote_fields b t r idx v src ok
    have fd : (recordVote b t r idx v src ok).1.dead = b.dead ∧ (recordVote b t r idx v src ok).1.decided = b.decided ∧
        (recordVote b t r idx v src ok).1.proposal = b.proposal ∧ (recordVote b t r idx v src ok).1.total = b.total := by
      unfold recordVote
      split
      · exact ⟨rfl, rfl, rfl, rfl⟩
      · rename_i s1 hs1
        have : s1.dead = b.dead ∧ s1.decided = b.decided ∧ s1.proposal = b.proposal ∧ s1.powers = b.powers := by
          unfold catchupRound at hs1
          split at hs1
          · cases hs1; exact ⟨rfl, rfl, rfl, rfl⟩
          · simp only at hs1
            split at hs1
            · cases hs1; exact ⟨rfl, rfl, rfl, rfl⟩
            · cases hs1
        simp [putVS, St.total, this.1, this.2.1, this.2.2.1, this.2.2.2]
    unfold addVote
    split
    · exact ⟨ld, l4, l5⟩
    split
    · exact ⟨ld, l4, l5⟩
    split
    · exact ⟨ld, l4, l5⟩
    simp only
    generalize hs2 : (recordVote b t r idx v src ok).1 = s2 at *
    have quiet : s2.dead = s.dead ∧ s2.out = [] ∧ s2.decided = false := ⟨by rw [fd.1, ld], by rw [f6, l4], by rw [fd.2.1, l5]⟩
    split
    · exact quiet
    split
    · -- prevote: no majority, so no lock/valid update; no +2/3 any, so no round change; the proposal's POL round cannot be completed
      have hpu : polkaUpdate s2 r (s2.pvs r) = s2 := by unfold polkaUpdate; rw [h1]
      rw [hpu]
      unfold onPrevote
      simp only
      have hany : ¬ (s2.round ≤ r ∧ (s2.pvs r).hasAny s2.total = true) := by
        intro hc; rw [fd.2.2.2, h2] at hc; exact absurd hc.2 (by simp)
      rw [if_neg hany]
      split
      · rename_i pol hpol
        have hcomp : ¬ (0 ≤ pol ∧ pol = (r : Int) ∧ isProposalComplete s2 = true) := by
          intro hc
          obtain ⟨c1, c2, c3⟩ := hc
          unfold isProposalComplete at c3
          rw [hpol] at c3
          simp only at c3
          split at c3
          · cases c3
          · split at c3
            · omega
            · subst c2; simp [h1] at c3
        rw [if_neg hcomp]; exact quiet
      · exact quiet
    · unfold onPrecommit
      simp only
      rw [h3]
      simp only
      have hany : ¬ (s2.round ≤ r ∧ (s2.pcs r).hasAny s2.total = true) := by
        intro hc; rw [fd.2.2.2, h4] at hc; exact absurd hc.2 (by simp)
      rw [if_neg hany]; exact quiet
  rw [step_of_not_decided key.2.2]
  exact ⟨key.1, key.2.1⟩

/-- "unreachable from ANY state" is too strong for the sanity sites: from a state no run produces (round 3 while the vote book-keeping
still tracks round 0 only) the third prevote of round 3 reaches `PanicSanity("This POLRound should be ...")` in `enterPrecommit`.  The
statement for all states, kept as a definition: -/
def accepted_input_never_panics_any_state : Prop := ∀ (s : St) (i : In), s.dead = false → (step s i).dead = false

def exOddPv : VSet := ((VSet.empty.add 4 4 0 1 0 true).1.add 4 4 1 1 0 true).1

def exOdd : St :=
  { exInit with round := 3, step := sPrevote, hround := 0, out := [], rvs := [(3, ⟨exOddPv, VSet.empty⟩)] }

theorem accepted_input_can_panic_from_unreachable_state : ¬ accepted_input_never_panics_any_state := by
  intro h
  have := h exOdd (.vote tPrevote 1 3 2 0 0 2 true) (by decide)
  exact absurd this (by decide)

end Props.C16Node
