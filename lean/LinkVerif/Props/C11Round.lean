/-
C11, layer 2: the round trip `decV (encV v) = v` through the Stream state machine, for the first-order fragment of Ty.
The bridge: whenever the enclosing lists leave room, `Stream.readKind` is the pure header parser `readHead` of layer 1.
-/
import LinkVerif.Model.Ser
import LinkVerif.Props.C11Rlp

namespace Props.C11
open Model.Rlp Model.Ser

/-- the innermost open list can take `n` more bytes -/
def Room (st : List (Nat × Nat)) (n : Nat) : Prop :=
  match st with
  | [] => True
  | (pos, size) :: _ => pos + n ≤ size

/-- position bookkeeping of `willRead` -/
def bump (n : Nat) (st : List (Nat × Nat)) : List (Nat × Nat) :=
  match st with
  | [] => []
  | (pos, size) :: up => (pos + n, size) :: up

theorem bump_bump (a b : Nat) (st : List (Nat × Nat)) : bump b (bump a st) = bump (a + b) st := by
  cases st with
  | nil => rfl
  | cons x up => obtain ⟨p, z⟩ := x; simp [bump, Nat.add_assoc]

theorem bump_zero (st : List (Nat × Nat)) : bump 0 st = st := by
  cases st with
  | nil => rfl
  | cons x up => obtain ⟨p, z⟩ := x; simp [bump]

theorem Room_split {st : List (Nat × Nat)} {a b : Nat} (h : Room st (a + b)) : Room st a ∧ Room (bump a st) b := by
  cases st with
  | nil => simp [Room, bump]
  | cons x up => obtain ⟨p, z⟩ := x; simp [Room, bump] at *; omega

theorem Room_le {st : List (Nat × Nat)} {a b : Nat} (h : Room st b) (hab : a ≤ b) : Room st a := by
  cases st with
  | nil => simp [Room]
  | cons x up => obtain ⟨p, z⟩ := x; simp [Room] at *; omega

theorem willRead_ok (n : Nat) (s : Stream) (hr : Room s.stack n) (hn : n ≤ s.rest.length) :
    willRead n s = (none, { s with kind := none, stack := bump n s.stack }) := by
  have hov : ∀ (s' : Stream), s'.rest = s.rest → s'.phantom = s.phantom → over s' n = false := by
    intro s' h1 h2
    unfold over
    have : ¬ (n > s'.rest.length + s'.phantom) := by rw [h1]; omega
    simp [this]
  have hsub : n - s.rest.length = 0 := by omega
  unfold willRead
  cases hs : s.stack with
  | nil => simp [bump, hov, hsub]
  | cons x up =>
    obtain ⟨p, z⟩ := x
    rw [hs] at hr
    simp only [Room] at hr
    have h1 : ¬ (n > z - p) := by omega
    simp [bump, h1, hov, hsub]

theorem readByte_ok (s : Stream) (b : UInt8) (r : Bytes) (hrest : s.rest = b :: r) (hr : Room s.stack 1) :
    readByte s = (.ok b, { s with kind := none, stack := bump 1 s.stack, rest := r }) := by
  unfold readByte
  rw [willRead_ok 1 s hr (by simp [hrest])]
  simp [hrest]

theorem readFull_ok (n : Nat) (s : Stream) (hr : Room s.stack n) (hn : n ≤ s.rest.length) :
    readFull n s = (.ok (s.rest.take n), { s with kind := none, stack := bump n s.stack, rest := s.rest.drop n }) := by
  unfold readFull
  rw [willRead_ok n s hr hn]
  simp [Nat.not_lt.mpr hn]

theorem readUintSz_eq (ll : Nat) (s : Stream) (h1 : 1 ≤ ll) (hlen : ll ≤ s.rest.length) (hr : Room s.stack ll) :
    readUintSz ll s =
      ((if ll > 1 ∧ (s.rest.take ll).head? = some 0 then .error .canonSize else .ok (beVal (s.rest.take ll))),
       { s with kind := none, stack := bump ll s.stack, rest := s.rest.drop ll }) := by
  match ll, h1 with
  | 1, _ =>
    cases hrest : s.rest with
    | nil => simp [hrest] at hlen
    | cons b r =>
      unfold readUintSz
      rw [readByte_ok s b r hrest hr]
      simp [beVal]
  | n + 2, _ =>
    unfold readUintSz
    rw [readFull_ok (n + 2) s hr hlen]
    simp only
    have : n + 2 > 1 := by omega
    simp only [this, true_and]
    split <;> rfl

/-- the bridge between the layers: with room for the header, `Stream.readKind` is `readHead` -/
theorem readKind_of_readHead (s : Stream) (k : Kind) (sz : Nat) (bv : UInt8) (r : Bytes)
    (h : readHead s.rest = .ok (k, sz, bv, r)) (hr : Room s.stack (s.rest.length - r.length)) :
    readKind s = ((k, sz, none),
      { s with kind := none, byteval := bv, rest := r, stack := bump (s.rest.length - r.length) s.stack }) := by
  cases hrest : s.rest with
  | nil => rw [hrest] at h; simp [readHead] at h
  | cons t r0 =>
    rw [hrest] at h hr
    simp only [readHead] at h
    have hone : ∀ (x : Bytes), (t :: x).length - x.length = 1 := by intro x; simp
    unfold readKind
    split at h
    · next h1 =>
      simp only [Except.ok.injEq, Prod.mk.injEq] at h; obtain ⟨hk, hs, hb, hrr⟩ := h
      subst hk hs hb hrr
      rw [hone] at hr
      rw [readByte_ok s t r0 hrest hr]
      simp [h1, hone]
    · next h1 =>
      split at h
      · next h2 =>
        simp only [Except.ok.injEq, Prod.mk.injEq] at h; obtain ⟨hk, hs, hb, hrr⟩ := h
        subst hk hs hb hrr
        rw [hone] at hr
        rw [readByte_ok s t r0 hrest hr]
        simp [h1, h2, hone]
      · next h2 =>
        split at h
        · next h3 =>
          cases hrs : readSize (t.toNat - 0xB7) r0 with
          | error e => rw [hrs] at h; cases h
          | ok v =>
            obtain ⟨sz', r'⟩ := v
            rw [hrs] at h
            simp only [Except.ok.injEq, Prod.mk.injEq] at h; obtain ⟨hk, hs, hb, hrr⟩ := h
            subst hk hs hb hrr
            have e2 : (0xB8 : UInt8).toNat = 184 := rfl
            have h2' := h2
            rw [UInt8.lt_iff_toNat_lt, e2] at h2'
            unfold readSize at hrs
            split at hrs
            · cases hrs
            · next hlen =>
              simp only at hrs
              split at hrs
              · cases hrs
              · next hz =>
                split at hrs
                · cases hrs
                · next h56 =>
                  simp only [Except.ok.injEq, Prod.mk.injEq] at hrs; obtain ⟨hv, hd⟩ := hrs
                  subst hv; subst hd
                  have hl : (t :: r0).length - (List.drop (t.toNat - 0xB7) r0).length = 1 + (t.toNat - 0xB7) := by
                    simp; omega
                  rw [hl] at hr
                  obtain ⟨hr1, hr2⟩ := Room_split hr
                  rw [readByte_ok s t r0 hrest hr1]
                  simp only [h1, h2, h3, if_false, if_true]
                  rw [readUintSz_eq (t.toNat - 0xB7) _ (by omega) (by simpa using Nat.le_of_not_lt hlen) (by simpa using hr2)]
                  simp only [hz, if_false, h56, hl, bump_bump]
        · next h3 =>
          split at h
          · next h4 =>
            simp only [Except.ok.injEq, Prod.mk.injEq] at h; obtain ⟨hk, hs, hb, hrr⟩ := h
            subst hk hs hb hrr
            rw [hone] at hr
            rw [readByte_ok s t r0 hrest hr]
            simp [h1, h2, h3, h4, hone]
          · next h4 =>
            cases hrs : readSize (t.toNat - 0xF7) r0 with
            | error e => rw [hrs] at h; cases h
            | ok v =>
              obtain ⟨sz', r'⟩ := v
              rw [hrs] at h
              simp only [Except.ok.injEq, Prod.mk.injEq] at h; obtain ⟨hk, hs, hb, hrr⟩ := h
              subst hk hs hb hrr
              have e4 : (0xF8 : UInt8).toNat = 248 := rfl
              have h4' := h4
              rw [UInt8.lt_iff_toNat_lt, e4] at h4'
              unfold readSize at hrs
              split at hrs
              · cases hrs
              · next hlen =>
                simp only at hrs
                split at hrs
                · cases hrs
                · next hz =>
                  split at hrs
                  · cases hrs
                  · next h56 =>
                    simp only [Except.ok.injEq, Prod.mk.injEq] at hrs; obtain ⟨hv, hd⟩ := hrs
                    subst hv; subst hd
                    have hl : (t :: r0).length - (List.drop (t.toNat - 0xF7) r0).length = 1 + (t.toNat - 0xF7) := by
                      simp; omega
                    rw [hl] at hr
                    obtain ⟨hr1, hr2⟩ := Room_split hr
                    rw [readByte_ok s t r0 hrest hr1]
                    simp only [h1, h2, h3, h4, if_false]
                    rw [readUintSz_eq (t.toNat - 0xF7) _ (by omega) (by simpa using Nat.le_of_not_lt hlen) (by simpa using hr2)]
                    simp only [hz, if_false, h56, hl, bump_bump]

theorem atEnd_false_of_room (s : Stream) (n : Nat) (hn : 1 ≤ n) (hr : Room s.stack n) : atEnd s = false := by
  unfold atEnd
  cases hs : s.stack with
  | nil => rfl
  | cons x up =>
    obtain ⟨p, z⟩ := x
    rw [hs] at hr
    simp only [Room] at hr
    simp; omega

theorem limitErr_none (rest : Bytes) (st : List (Nat × Nat)) (sz : Nat) (s : Stream) (hrest : s.rest = rest) (hst : s.stack = st)
    (hsz : sz ≤ rest.length) (hr : Room st sz) : limitErr s sz = none := by
  unfold limitErr
  rw [hst]
  cases st with
  | nil =>
    unfold over
    have : ¬ (sz > s.rest.length + s.phantom) := by rw [hrest]; omega
    simp [this]
  | cons x up =>
    obtain ⟨p, z⟩ := x
    simp only [Room] at hr
    simp; omega

/-- Stream.Kind on a fresh position: header parsed by `readHead`, value fits the list and the input -/
theorem kindOf_ok (s : Stream) (k : Kind) (sz : Nat) (bv : UInt8) (r : Bytes) (hk : s.kind = none)
    (h : readHead s.rest = .ok (k, sz, bv, r)) (hpos : r.length < s.rest.length)
    (hroom : Room s.stack (s.rest.length - r.length + sz)) (hsz : sz ≤ r.length) :
    kindOf s = ((k, sz, none),
      { s with kind := some k, size := sz, kinderr := none, byteval := bv, rest := r,
               stack := bump (s.rest.length - r.length) s.stack }) := by
  obtain ⟨hr1, hr2⟩ := Room_split hroom
  unfold kindOf
  rw [hk]
  simp only
  have hae : atEnd ({ rest := s.rest, stack := s.stack, kind := none, size := s.size, byteval := s.byteval, kinderr := none, unlimited := s.unlimited, phantom := s.phantom, alloc := s.alloc } : Stream) = false :=
    atEnd_false_of_room _ (s.rest.length - r.length) (by omega) hr1
  rw [hae]
  simp only [Bool.false_eq_true, if_false]
  have hrk := readKind_of_readHead ({ rest := s.rest, stack := s.stack, kind := none, size := s.size, byteval := s.byteval, kinderr := none, unlimited := s.unlimited, phantom := s.phantom, alloc := s.alloc } : Stream) k sz bv r h hr1
  rw [hrk]
  simp only
  rw [limitErr_none r (bump (s.rest.length - r.length) s.stack) sz _ rfl rfl hsz hr2]

/-- after reading an item of `n` bytes: rearmed, positioned at `tail`, `n` bytes accounted to the innermost list -/
def After (s s' : Stream) (n : Nat) (tail : Bytes) : Prop :=
  s'.kind = none ∧ s'.rest = tail ∧ s'.stack = bump n s.stack

/-- Stream.Bytes reads back what encodeString wrote -/
theorem sBytes_enc (s : Stream) (bs tail : Bytes) (hk : s.kind = none) (hrest : s.rest = encStr bs ++ tail)
    (hsz : bs.length < 2 ^ 64) (hroom : Room s.stack (encStr bs).length) :
    ∃ s', sBytes s = (.ok bs, s') ∧ After s s' (encStr bs).length tail := by
  cases h7 : single7 bs with
  | true =>
    obtain ⟨x, rfl, hx⟩ := (single7_iff bs).mp h7
    rw [encStr_single x hx] at hrest hroom ⊢
    have hh : readHead s.rest = .ok (.byte, 0, x, tail) := by rw [hrest]; exact readHead_byte x tail hx
    have hko := kindOf_ok s .byte 0 x tail hk hh (by simp [hrest]) (by simpa [hrest] using hroom) (by omega)
    unfold sBytes
    rw [hko]
    refine ⟨_, rfl, ?_⟩
    simp [After, hrest]
  | false =>
    rw [encStr_general bs h7] at hrest hroom ⊢
    rw [List.append_assoc] at hrest
    have hh : readHead s.rest = .ok (.string, bs.length, 0, bs ++ tail) := by
      rw [hrest]; exact readHead_enc_str bs.length (bs ++ tail) hsz
    have hlen : s.rest.length - (bs ++ tail).length = (encHead 0x80 0xB7 bs.length).length := by
      rw [hrest]; simp
    have hp := encHead_length_pos 0x80 0xB7 bs.length
    have hko := kindOf_ok s .string bs.length 0 (bs ++ tail) hk hh (by rw [hrest]; simp; omega)
      (by rw [hlen]; simpa using hroom) (by simp)
    unfold sBytes
    rw [hko]
    simp only
    rw [hlen]
    have hr2 : Room (bump (encHead 0x80 0xB7 bs.length).length s.stack) bs.length := by
      have : Room s.stack ((encHead 0x80 0xB7 bs.length).length + bs.length) := by simpa using hroom
      exact (Room_split this).2
    rw [readFull_ok bs.length _ hr2 (by simp)]
    simp only [List.take_left', List.drop_left', h7]
    refine ⟨_, rfl, ?_⟩
    simp [After, bump_bump]

theorem beBytes_head (n : Nat) (hn : n ≠ 0) (h : n < 2 ^ 64) : (beBytes n).head? ≠ some 0 :=
  (beBytesF_head 8 n hn (by simpa using h)).1

theorem beBytes_zero : beBytes 0 = [] := rfl

theorem beBytes_eq_nil (n : Nat) (h : beBytes n = []) : n = 0 := by
  by_cases hn : n = 0
  · exact hn
  · have := beBytes_length_pos n hn
    rw [h] at this; simp at this

/-- Stream.uint reads back what writeUint wrote -/
theorem sUint_enc (mb : Nat) (s : Stream) (n : Nat) (tail : Bytes) (hk : s.kind = none)
    (hrest : s.rest = encStr (beBytes n) ++ tail) (hn : n < 2 ^ 64) (hmb : (beBytes n).length ≤ mb / 8)
    (hroom : Room s.stack (encStr (beBytes n)).length) :
    ∃ s', sUint mb s = (.ok n, s') ∧ After s s' (encStr (beBytes n)).length tail := by
  have hval := beBytes_val n hn
  cases h7 : single7 (beBytes n) with
  | true =>
    obtain ⟨x, hx1, hx⟩ := (single7_iff _).mp h7
    rw [hx1] at hrest hroom hval ⊢
    rw [encStr_single x hx] at hrest hroom ⊢
    have hh : readHead s.rest = .ok (.byte, 0, x, tail) := by rw [hrest]; exact readHead_byte x tail hx
    have hko := kindOf_ok s .byte 0 x tail hk hh (by simp [hrest]) (by simpa [hrest] using hroom) (by omega)
    have hn0 : n ≠ 0 := by intro h0; subst h0; rw [beBytes_zero] at hx1; cases hx1
    have hx0 : x ≠ 0 := by
      have := beBytes_head n hn0 hn
      rw [hx1] at this
      intro hc; subst hc; simp at this
    have hxv : x.toNat = n := by simpa [beVal] using hval
    unfold sUint
    rw [hko]
    simp only [hx0, if_false, hxv]
    refine ⟨_, rfl, ?_⟩
    simp [After, hrest]
  | false =>
    rw [encStr_general _ h7] at hrest hroom ⊢
    rw [List.append_assoc] at hrest
    have hl8 := beBytes_length_le n
    have hh : readHead s.rest = .ok (.string, (beBytes n).length, 0, beBytes n ++ tail) := by
      rw [hrest]; exact readHead_enc_str _ _ (by omega)
    have hlen : s.rest.length - (beBytes n ++ tail).length = (encHead 0x80 0xB7 (beBytes n).length).length := by
      rw [hrest]; simp
    have hp := encHead_length_pos 0x80 0xB7 (beBytes n).length
    have hko := kindOf_ok s .string _ 0 (beBytes n ++ tail) hk hh (by rw [hrest]; simp; omega)
      (by rw [hlen]; simpa using hroom) (by simp)
    have hr2 : Room (bump (encHead 0x80 0xB7 (beBytes n).length).length s.stack) (beBytes n).length := by
      have : Room s.stack ((encHead 0x80 0xB7 (beBytes n).length).length + (beBytes n).length) := by simpa using hroom
      exact (Room_split this).2
    unfold sUint
    rw [hko]
    simp only [hlen]
    have hov : ¬ ((beBytes n).length > mb / 8) := by omega
    simp only [hov, if_false]
    by_cases hnil : beBytes n = []
    · have hn0 := beBytes_eq_nil n hnil
      subst hn0
      simp only [beBytes_zero, List.length_nil, readUintSz]
      refine ⟨_, rfl, ?_⟩
      simp [After, bump_zero, beBytes_zero]
    · have hn0 : n ≠ 0 := by intro h0; subst h0; exact hnil beBytes_zero
      have hlp := beBytes_length_pos n hn0
      rw [readUintSz_eq (beBytes n).length _ hlp (by simp) hr2]
      simp only [List.take_left', List.drop_left', hval]
      have hhd := beBytes_head n hn0 hn
      have hz : ¬ ((beBytes n).length > 1 ∧ (beBytes n).head? = some 0) := fun hc => hhd hc.2
      simp only [hz, if_false]
      have hbig : ¬ ((beBytes n).length > 0 ∧ n < 128) := by
        intro hc
        cases hb : beBytes n with
        | nil => exact hnil hb
        | cons a as =>
          rw [hb] at hval hhd h7
          have ha0 : a ≠ 0 := by intro h0; subst h0; simp at hhd
          have hpos := beVal_pos a as ha0
          cases as with
          | nil =>
            have : ¬ (a < 0x80) := by simpa [single7] using h7
            rw [UInt8.lt_iff_toNat_lt] at this
            have e1 : (0x80 : UInt8).toNat = 128 := rfl
            simp [beVal] at hval
            omega
          | cons b bs =>
            have : 256 ^ (b :: bs).length ≥ 256 := by
              simp only [List.length_cons, Nat.pow_succ]
              have := Nat.pow_pos (a := 256) (n := bs.length) (by decide)
              omega
            omega
      simp only [hbig, if_false]
      refine ⟨_, rfl, ?_⟩
      simp [After, bump_bump]

/-- round trip of one value through the stream, wherever it sits: `b` is consumed exactly, `v` comes back -/
def RT (env : Env) (g : Nat) (t : Ty) (v : Val) (b : Bytes) : Prop :=
  ∀ (s : Stream) (tail : Bytes), s.kind = none → s.rest = b ++ tail → Room s.stack b.length →
    ∃ s', decV env g t s = (v, none, s') ∧ After s s' b.length tail

theorem rt_uint (env : Env) (g bits n : Nat) (hn : n < 2 ^ 64) (hb : (beBytes n).length ≤ bits / 8) :
    RT env (g + 1) (.uint bits) (.u n) (encStr (beBytes n)) := by
  intro s tail hk hrest hroom
  obtain ⟨s', h1, h2⟩ := sUint_enc bits s n tail hk hrest hn hb hroom
  exact ⟨s', by simp [decV, h1], h2⟩

theorem rt_bool (env : Env) (g : Nat) (x : Bool) :
    RT env (g + 1) .bool (.b x) (if x then [0x01] else [0x80]) := by
  intro s tail hk hrest hroom
  cases x with
  | true =>
    have e : encStr (beBytes 1) = [0x01] := by decide
    obtain ⟨s', h1, h2⟩ := sUint_enc 8 s 1 tail hk (by rw [e]; simpa using hrest) (by decide) (by decide) (by rw [e]; simpa using hroom)
    rw [e] at h2
    exact ⟨s', by simp [decV, h1], by simpa using h2⟩
  | false =>
    have e : encStr (beBytes 0) = [0x80] := by decide
    obtain ⟨s', h1, h2⟩ := sUint_enc 8 s 0 tail hk (by rw [e]; simpa using hrest) (by decide) (by decide) (by rw [e]; simpa using hroom)
    rw [e] at h2
    exact ⟨s', by simp [decV, h1], by simpa using h2⟩

theorem rt_bytes (env : Env) (g : Nat) (bs : Bytes) (hsz : bs.length < 2 ^ 64) :
    RT env (g + 1) .bytes (.bytes bs) (encStr bs) := by
  intro s tail hk hrest hroom
  obtain ⟨s', h1, h2⟩ := sBytes_enc s bs tail hk hrest hsz hroom
  exact ⟨s', by simp [decV, decBytesLike, h1], h2⟩

theorem rt_string (env : Env) (g : Nat) (bs : Bytes) (hsz : bs.length < 2 ^ 64) :
    RT env (g + 1) .string (.bytes bs) (encStr bs) := by
  intro s tail hk hrest hroom
  obtain ⟨s', h1, h2⟩ := sBytes_enc s bs tail hk hrest hsz hroom
  exact ⟨s', by simp [decV, decBytesLike, h1], h2⟩

theorem natBytes_val (n : Nat) : beVal (natBytes n) = n :=
  beVal_beBytesF n n (Nat.lt_pow_self (by decide))

theorem natBytes_head (n : Nat) (hn : n ≠ 0) : (natBytes n).head? ≠ some 0 :=
  (beBytesF_head n n hn (Nat.lt_pow_self (by decide))).1

theorem natBytes_zero : natBytes 0 = [] := rfl

theorem rt_bigval (env : Env) (g n : Nat) (hsz : (natBytes n).length < 2 ^ 64) :
    RT env (g + 1) .bigval (.big false n) (if n = 0 then [0x80] else encStr (natBytes n)) := by
  intro s tail hk hrest hroom
  have e0 : encStr (natBytes 0) = [0x80] := by decide
  have hb : (if n = 0 then [0x80] else encStr (natBytes n)) = encStr (natBytes n) := by
    split
    · next h => subst h; exact e0.symm
    · rfl
  rw [hb] at hrest hroom ⊢
  obtain ⟨s', h1, h2⟩ := sBytes_enc s (natBytes n) tail hk hrest hsz hroom
  refine ⟨s', ?_, h2⟩
  have hh : ¬ ((natBytes n).head? = some 0) := by
    by_cases hn : n = 0
    · subst hn; simp [natBytes_zero]
    · exact natBytes_head n hn
  simp [decV, decBigVal, h1, hh, natBytes_val]

theorem rt_bigptr (env : Env) (g n : Nat) (hsz : (natBytes n).length < 2 ^ 64) :
    RT env (g + 1) .bigptr (.ptr (.big false n)) (if n = 0 then [0x80] else encStr (natBytes n)) := by
  intro s tail hk hrest hroom
  have e0 : encStr (natBytes 0) = [0x80] := by decide
  have hb : (if n = 0 then [0x80] else encStr (natBytes n)) = encStr (natBytes n) := by
    split
    · next h => subst h; exact e0.symm
    · rfl
  rw [hb] at hrest hroom ⊢
  obtain ⟨s', h1, h2⟩ := sBytes_enc s (natBytes n) tail hk hrest hsz hroom
  refine ⟨s', ?_, h2⟩
  have hh : ¬ ((natBytes n).head? = some 0) := by
    by_cases hn : n = 0
    · subst hn; simp [natBytes_zero]
    · exact natBytes_head n hn
  simp [decV, decBigPtr, h1, hh, natBytes_val]

theorem rt_bytearr (env : Env) (g : Nat) (bs : Bytes) (hsz : bs.length < 2 ^ 64) (hq : bs ≠ [0]) :
    RT env (g + 1) (.bytearr bs.length) (.bytes bs) (encStr bs) := by
  intro s tail hk hrest hroom
  simp only [decV]
  cases h7 : single7 bs with
  | true =>
    obtain ⟨x, rfl, hx⟩ := (single7_iff bs).mp h7
    rw [encStr_single x hx] at hrest hroom ⊢
    have hh : readHead s.rest = .ok (.byte, 0, x, tail) := by rw [hrest]; exact readHead_byte x tail hx
    have hko := kindOf_ok s .byte 0 x tail hk hh (by simp [hrest]) (by simpa [hrest] using hroom) (by omega)
    have hx0 : x ≠ 0 := by intro h0; subst h0; exact hq rfl
    unfold decByteArr
    rw [hko]
    simp only [List.length_singleton, Nat.one_ne_zero, if_false, Nat.lt_irrefl, gt_iff_lt, hx0]
    refine ⟨_, rfl, ?_⟩
    simp [After, hrest]
  | false =>
    rw [encStr_general bs h7] at hrest hroom ⊢
    rw [List.append_assoc] at hrest
    have hh : readHead s.rest = .ok (.string, bs.length, 0, bs ++ tail) := by
      rw [hrest]; exact readHead_enc_str bs.length (bs ++ tail) hsz
    have hlen : s.rest.length - (bs ++ tail).length = (encHead 0x80 0xB7 bs.length).length := by
      rw [hrest]; simp
    have hp := encHead_length_pos 0x80 0xB7 bs.length
    have hko := kindOf_ok s .string bs.length 0 (bs ++ tail) hk hh (by rw [hrest]; simp; omega)
      (by rw [hlen]; simpa using hroom) (by simp)
    have hr2 : Room (bump (encHead 0x80 0xB7 bs.length).length s.stack) bs.length := by
      have : Room s.stack ((encHead 0x80 0xB7 bs.length).length + bs.length) := by simpa using hroom
      exact (Room_split this).2
    unfold decByteArr
    rw [hko]
    simp only [hlen, Nat.lt_irrefl, if_false, gt_iff_lt]
    rw [readFull_ok bs.length _ hr2 (by simp)]
    simp only [List.take_left', List.drop_left', h7]
    refine ⟨_, rfl, ?_⟩
    simp [After, bump_bump]

/-- Stream.List on a list header followed by its payload -/
theorem sList_enc (s : Stream) (p tail : Bytes) (hk : s.kind = none) (hrest : s.rest = encListHead p ++ tail)
    (hsz : p.length < 2 ^ 64) (hroom : Room s.stack (encListHead p).length) :
    ∃ s', sList s = (.ok p.length, s') ∧ s'.kind = none ∧ s'.rest = p ++ tail ∧
      s'.stack = (0, p.length) :: bump (encHead 0xC0 0xF7 p.length).length s.stack := by
  unfold encListHead at hrest hroom
  rw [List.append_assoc] at hrest
  have hh : readHead s.rest = .ok (.list, p.length, 0, p ++ tail) := by
    rw [hrest]; exact readHead_enc_list p.length (p ++ tail) hsz
  have hlen : s.rest.length - (p ++ tail).length = (encHead 0xC0 0xF7 p.length).length := by
    rw [hrest]; simp
  have hp := encHead_length_pos 0xC0 0xF7 p.length
  have hko := kindOf_ok s .list p.length 0 (p ++ tail) hk hh (by rw [hrest]; simp; omega)
    (by rw [hlen]; simpa using hroom) (by simp)
  unfold sList
  rw [hko]
  simp only [hlen]
  exact ⟨_, rfl, rfl, rfl, rfl⟩

theorem sListEnd_ok (s : Stream) (n : Nat) (up : List (Nat × Nat)) (hst : s.stack = (n, n) :: up) :
    ∃ s', sListEnd s = (none, s') ∧ s'.kind = none ∧ s'.rest = s.rest ∧ s'.stack = bump n up := by
  unfold sListEnd
  rw [hst]
  simp only [ne_eq, not_true_eq_false, if_false]
  refine ⟨_, rfl, rfl, rfl, ?_⟩
  cases up with
  | nil => rfl
  | cons x r => obtain ⟨a, b⟩ := x; rfl

/-- at the end of the innermost list Stream.Kind answers EOL and does not move -/
theorem kindOf_eol (s : Stream) (hk : s.kind = none) (he : atEnd s = true) :
    kindOf s = ((.byte, 0, some .eol), { s with kind := none, kinderr := none }) := by
  unfold kindOf
  rw [hk]
  have : atEnd ({ rest := s.rest, stack := s.stack, kind := none, size := s.size, byteval := s.byteval, kinderr := none, unlimited := s.unlimited, phantom := s.phantom, alloc := s.alloc } : Stream) = true := he
  simp only [this, if_true]

/-! ### the fragment -/

mutual
  /-- the first-order fragment of (type, value) pairs for which the round trip is proved.  Excluded, and why:
      `int`/`time`/`map20` (hex-ASCII integers: ParseInt ∘ FormatInt not proved here), `ptr`/`cptr`/`cval`/`split`/`slice`
      (nil and empty conventions: the result is only equivalent, not equal), `iface`/`ref` (registry/environment),
      `bytearr 1` holding 0x00 (round trip FALSE: see `roundtrip_counterexample`), negative or nil big integers. -/
  inductive Frag : Ty → Val → Prop where
    | uint (bits n : Nat) : n < 2 ^ 64 → (beBytes n).length ≤ bits / 8 → Frag (.uint bits) (.u n)
    | bool (x : Bool) : Frag .bool (.b x)
    | bytes (bs : Bytes) : Frag .bytes (.bytes bs)
    | string (bs : Bytes) : Frag .string (.bytes bs)
    | bytearr (bs : Bytes) : bs ≠ [0] → Frag (.bytearr bs.length) (.bytes bs)
    | bigval (n : Nat) : Frag .bigval (.big false n)
    | bigptr (n : Nat) : Frag .bigptr (.ptr (.big false n))
    | struct (fs : List Ty) (vs : List Val) : FragL fs vs → Frag (.struct fs) (.list vs)
  inductive FragL : List Ty → List Val → Prop where
    | nil : FragL [] []
    | cons (t : Ty) (v : Val) (ts : List Ty) (vs : List Val) : Frag t v → FragL ts vs → FragL (t :: ts) (v :: vs)
end

theorem encStr_len_ge (bs : Bytes) : bs.length ≤ (encStr bs).length := (encStr_length bs).2

/-- struct fields in sequence inside an open list -/
theorem decFields_enc (env : Env) (f g : Nat)
    (IH : ∀ t v b, Frag t v → encV env f t v = .ok b → b.length < 2 ^ 64 → RT env g t v b ∧ 1 ≤ b.length) :
    ∀ (fs : List Ty) (vs : List Val) (p : Bytes), FragL fs vs → encSeq (encV env f) fs vs = .ok p → p.length < 2 ^ 64 →
      ∀ (acc : List Val) (s : Stream) (tail : Bytes) (pos size : Nat) (up : List (Nat × Nat)),
        s.kind = none → s.rest = p ++ tail → s.stack = (pos, size) :: up → pos + p.length ≤ size →
        ∃ s', decFields (decV env g) (zeroV env 64) fs acc s = (.list (acc.reverse ++ vs), none, s') ∧
          s'.kind = none ∧ s'.rest = tail ∧ s'.stack = (pos + p.length, size) :: up ∧ (fs ≠ [] → 1 ≤ p.length) := by
  intro fs
  induction fs with
  | nil =>
    intro vs p hf he hp acc s tail pos size up hk hrest hst hroom
    cases hf
    simp only [encSeq, Except.ok.injEq] at he
    subst he
    exact ⟨s, by simp [decFields], hk, by simpa using hrest, by simpa using hst, by simp⟩
  | cons t ts ih =>
    intro vs p hf he hp acc s tail pos size up hk hrest hst hroom
    cases hf with
    | cons _ v _ vs' hfv hfl =>
      simp only [encSeq] at he
      cases hb : encV env f t v with
      | error e => rw [hb] at he; cases he
      | ok b =>
        rw [hb] at he
        simp only at he
        cases hbs : encSeq (encV env f) ts vs' with
        | error e => rw [hbs] at he; cases he
        | ok bs =>
          rw [hbs] at he
          simp only [Except.ok.injEq] at he
          subst he
          simp only [List.length_append] at hp hroom
          obtain ⟨hrt, hb1⟩ := IH t v b hfv hb (by omega)
          obtain ⟨s1, hd, hk1, hr1, hs1⟩ := hrt s (bs ++ tail) hk (by rw [hrest, List.append_assoc])
            (by rw [hst]; simp only [Room]; omega)
          rw [hst] at hs1
          simp only [bump] at hs1
          obtain ⟨s2, hd2, hk2, hr2, hs2, _⟩ := ih vs' bs hfl hbs (by omega) (v :: acc) s1 tail (pos + b.length) size up
            hk1 hr1 hs1 (by omega)
          refine ⟨s2, ?_, hk2, hr2, ?_, ?_⟩
          · unfold decFields
            rw [hd]
            simp only
            rw [hd2]
            simp
          · rw [hs2]; simp only [List.length_append, Nat.add_assoc]
          · intro _; simp only [List.length_append]; omega

theorem encListHead_length (p : Bytes) : (encListHead p).length = (encHead 0xC0 0xF7 p.length).length + p.length := by
  simp [encListHead]

/-- layer-2 round trip, fragment: any decoder fuel ≥ the encoder's suffices -/
theorem rt_frag (env : Env) : ∀ (f : Nat) (t : Ty) (v : Val) (b : Bytes), Frag t v → encV env f t v = .ok b →
    b.length < 2 ^ 64 → ∀ g, f ≤ g → RT env g t v b ∧ 1 ≤ b.length
  | 0, t, v, b, _, he, _, _, _ => by simp [encV] at he
  | f + 1, t, v, b, hf, he, hb, g, hg => by
    obtain ⟨g', rfl⟩ : ∃ g', g = g' + 1 := ⟨g - 1, by omega⟩
    have hfg : f ≤ g' := by omega
    cases hf with
    | uint bits n hn hl =>
      simp only [encV, Except.ok.injEq] at he; subst he
      exact ⟨rt_uint env g' bits n hn hl, (encStr_length _).1⟩
    | bool x =>
      cases x with
      | true => simp only [encV, Except.ok.injEq] at he; subst he; exact ⟨rt_bool env g' true, by simp⟩
      | false => simp only [encV, Except.ok.injEq] at he; subst he; exact ⟨rt_bool env g' false, by simp⟩
    | bytes bs =>
      simp only [encV, Except.ok.injEq] at he; subst he
      have := encStr_len_ge bs
      exact ⟨rt_bytes env g' bs (by omega), (encStr_length _).1⟩
    | string bs =>
      simp only [encV, Except.ok.injEq] at he; subst he
      have := encStr_len_ge bs
      exact ⟨rt_string env g' bs (by omega), (encStr_length _).1⟩
    | bytearr bs hq =>
      simp only [encV, if_true, Except.ok.injEq] at he; subst he
      have := encStr_len_ge bs
      exact ⟨rt_bytearr env g' bs (by omega) hq, (encStr_length _).1⟩
    | bigval n =>
      simp only [encV, encBig, Bool.false_eq_true, if_false] at he
      have hb' : b = (if n = 0 then [0x80] else encStr (natBytes n)) := by
        split at he <;> simp_all
      subst hb'
      have hsz : (natBytes n).length < 2 ^ 64 := by
        split at hb
        · next h => subst h; simp [natBytes_zero]
        · have := encStr_len_ge (natBytes n); omega
      refine ⟨rt_bigval env g' n hsz, ?_⟩
      split
      · simp
      · exact (encStr_length _).1
    | bigptr n =>
      simp only [encV, encBig, Bool.false_eq_true, if_false] at he
      have hb' : b = (if n = 0 then [0x80] else encStr (natBytes n)) := by
        split at he <;> simp_all
      subst hb'
      have hsz : (natBytes n).length < 2 ^ 64 := by
        split at hb
        · next h => subst h; simp [natBytes_zero]
        · have := encStr_len_ge (natBytes n); omega
      refine ⟨rt_bigptr env g' n hsz, ?_⟩
      split
      · simp
      · exact (encStr_length _).1
    | struct fs vs hfl =>
      simp only [encV] at he
      cases hp : encSeq (encV env f) fs vs with
      | error e => rw [hp] at he; cases he
      | ok p =>
        rw [hp] at he
        simp only [Except.ok.injEq] at he
        subst he
        rw [encListHead_length] at hb
        have hh1 := encHead_length_pos 0xC0 0xF7 p.length
        refine ⟨?_, by rw [encListHead_length]; omega⟩
        intro s tail hk hrest hroom
        obtain ⟨s1, hl1, hk1, hr1, hs1⟩ := sList_enc s p tail hk hrest (by omega) hroom
        have IH : ∀ t v b, Frag t v → encV env f t v = .ok b → b.length < 2 ^ 64 → RT env g' t v b ∧ 1 ≤ b.length :=
          fun t v b h1 h2 h3 => rt_frag env f t v b h1 h2 h3 g' hfg
        obtain ⟨s2, hd2, hk2, hr2, hs2, hne⟩ := decFields_enc env f g' IH fs vs p hfl hp (by omega) [] s1 tail 0 p.length _
          hk1 hr1 hs1 (by omega)
        simp only [Nat.zero_add] at hs2
        obtain ⟨s3, hd3, hk3, hr3, hs3⟩ := sListEnd_ok s2 p.length _ hs2
        simp only [decV, hl1]
        by_cases hp0 : p.length = 0
        · -- empty payload: no fields
          have hfs : fs = [] := by
            cases fs with
            | nil => rfl
            | cons t ts => have := hne (by simp); omega
          subst hfs
          cases hfl
          have : p = [] := List.eq_nil_of_length_eq_zero hp0
          subst this
          simp only [hp0, if_true]
          have hs1' : s1.stack = (0, 0) :: bump (encHead 0xC0 0xF7 0).length s.stack := by simpa using hs1
          obtain ⟨s4, hd4, hk4, hr4, hs4⟩ := sListEnd_ok s1 0 _ hs1'
          rw [hd4]
          refine ⟨s4, by simp, hk4, by rw [hr4, hr1]; simp, ?_⟩
          rw [hs4, bump_bump]; simp [encListHead]
        · simp only [hp0, if_false]
          rw [hd2]
          simp only [List.reverse_nil, List.nil_append]
          rw [hd3]
          refine ⟨s3, rfl, hk3, by rw [hr3, hr2], ?_⟩
          rw [hs3, bump_bump, encListHead_length]

end Props.C11
