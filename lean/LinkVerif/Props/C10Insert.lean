/-
C10: `insert` on terminator keys never panics, keeps the normal form, and lookups return the last written value.
-/
import LinkVerif.Props.C10Canon

namespace Props.C10
open Model.Trie

theorem keyOK_cons {v : Bool} {x : Nib} {r : List Nib} :
    KeyOK v (x :: r) ↔ (r = [] ∧ (x = term ↔ v = true)) ∨ (r ≠ [] ∧ x ≠ term ∧ KeyOK v r) := by
  cases r with
  | nil => simp [KeyOK]
  | cons y s => simp [KeyOK]

theorem suf_drop {p s : List Nib} (h : Suf (p ++ s)) : Suf s := by
  induction p with
  | nil => exact h
  | cons a p ih => exact ih h.2

theorem keyOK_of_suf {key : List Nib} (h : Suf key) (hn : key ≠ []) : KeyOK true key := by
  induction key with
  | nil => exact absurd rfl hn
  | cons a r ih =>
    rw [keyOK_cons]
    by_cases hr : r = []
    · left; exact ⟨hr, by simp [h.1.mpr hr]⟩
    · right; exact ⟨hr, fun e => hr (h.1.mp e), ih h.2 hr⟩

theorem suf_append_eq {key r : List Nib} (h : Suf key) (hn : key ≠ []) (h2 : Suf (key ++ r)) : r = [] :=
  ((suf_of_append (keyOK_of_suf h hn) h2).2).mpr rfl

theorem keyOK_drop {v : Bool} {p s : List Nib} (h : KeyOK v (p ++ s)) (hs : s ≠ []) : KeyOK v s := by
  induction p with
  | nil => exact h
  | cons a p ih =>
    rw [List.cons_append, keyOK_cons] at h
    rcases h with ⟨h0, _⟩ | ⟨_, _, h3⟩
    · exact absurd h0 (by simp [hs])
    · exact ih h3

theorem keyOK_prefix {v : Bool} {p : List Nib} {x : Nib} {xr : List Nib} (h : KeyOK v (p ++ x :: xr)) (hp : p ≠ []) :
    KeyOK false p := by
  induction p with
  | nil => exact absurd rfl hp
  | cons a p ih =>
    rw [List.cons_append, keyOK_cons] at h
    rcases h with ⟨h0, _⟩ | ⟨_, h2, h3⟩
    · exact absurd h0 (by simp)
    · rw [keyOK_cons]
      by_cases hp' : p = []
      · left; exact ⟨hp', by simp [h2]⟩
      · right; exact ⟨hp', h2, ih h3 hp'⟩

theorem split_spec : ∀ (a b : List Nib), a = (split a b).1 ++ (split a b).2.1 ∧ b = (split a b).1 ++ (split a b).2.2 ∧
    (∀ x xs y ys, (split a b).2.1 = x :: xs → (split a b).2.2 = y :: ys → x ≠ y)
  | [], b => by simp [split]
  | _ :: _, [] => by simp [split]
  | a :: as, b :: bs => by
    have ih := split_spec as bs
    simp only [split]
    split
    · next h =>
      subst h
      refine ⟨by simp only [List.cons_append]; rw [← ih.1], by simp only [List.cons_append]; rw [← ih.2.1], ih.2.2⟩
    · next h =>
      refine ⟨rfl, rfl, ?_⟩
      intro x xs y ys h1 h2
      simp only [List.cons.injEq] at h1 h2
      rw [← h1.1, ← h2.1]; exact h

/-- the three outcomes of `insert` at a short node, without `split` -/
theorem insert_short_cases (k : List Nib) (c : Node) (key : List Nib) (hk : key ≠ []) (value : Node) :
    (∃ keyRest, key = k ++ keyRest ∧ insert (.short k c) key value = (insert c keyRest value).map (.short k)) ∨
    (∃ x xr, k = key ++ x :: xr) ∨
    (∃ p x xr y yr, x ≠ y ∧ key = p ++ y :: yr ∧ k = p ++ x :: xr ∧
      insert (.short k c) key value = some (insertNil p (.full (branch2 x (insertNil xr c) y (insertNil yr value))))) := by
  cases key with
  | nil => exact absurd rfl hk
  | cons a as =>
    have hs := split_spec (a :: as) k
    simp only [Model.Trie.insert]
    generalize split (a :: as) k = sp at hs
    obtain ⟨p, keyRest, kRest⟩ := sp
    simp only at hs
    obtain ⟨h1, h2, h3⟩ := hs
    cases kRest with
    | nil =>
      left
      refine ⟨keyRest, ?_, rfl⟩
      rw [h2, List.append_nil]; exact h1
    | cons x xr =>
      cases keyRest with
      | nil =>
        right; left
        refine ⟨x, xr, ?_⟩
        rw [h1, List.append_nil]; exact h2
      | cons y yr =>
        right; right
        refine ⟨p, x, xr, y, yr, (h3 y yr x xr rfl rfl).symm, h1, h2, ?_⟩
        cases p <;> rfl

theorem get_short_bind (k : List Nib) (c : Node) (key : List Nib) :
    Model.Trie.get (.short k c) key = (strip k key).bind (Model.Trie.get c) := by
  simp only [Model.Trie.get]
  cases strip k key <;> rfl

theorem get_insertNil (s : List Nib) (n : Node) (r : List Nib) :
    Model.Trie.get (insertNil s n) r = (strip s r).bind (Model.Trie.get n) := by
  cases s with
  | nil => simp [insertNil, strip]
  | cons a s => simp only [insertNil]; exact get_short_bind _ _ _

theorem wf_insertNil {s : List Nib} {n : Node} (hw : WF n) (h : s ≠ [] → KeyOK n.isValue s ∧ n.isShort = false) :
    WF (insertNil s n) := by
  cases s with
  | nil => exact hw
  | cons a s => exact ⟨(h (by simp)).1, (h (by simp)).2, hw⟩

theorem isNil_insertNil {s : List Nib} {n : Node} (h : n.isNil = false) : (insertNil s n).isNil = false := by
  cases s with
  | nil => exact h
  | cons a s => rfl

theorem isValue_insertNil_cons (a : Nib) (s : List Nib) (n : Node) : (insertNil (a :: s) n).isValue = false := rfl

theorem wf_not_nil {n : Node} (h : WF n) : n.isNil = false := by
  cases n <;> simp_all [WF, Node.isNil]

/-- a position: empty, or a normal-form node of the right kind -/
def Pos (v : Bool) (n : Node) : Prop := n.isNil = true ∨ (WF n ∧ n.isValue = v)

theorem strip_cons_ne {x i : Nib} (h : x ≠ i) (xr r : List Nib) : strip (x :: xr) (i :: r) = none := by
  simp [strip, h]

theorem strip_cons_eq (x : Nib) (xr r : List Nib) : strip (x :: xr) (x :: r) = strip xr r := by
  simp [strip]

theorem strip_append_bind (p q key : List Nib) : strip (p ++ q) key = (strip p key).bind (strip q) := by
  induction p generalizing key with
  | nil => simp [strip]
  | cons a p ih =>
    cases key with
    | nil => simp [strip]
    | cons b key =>
      simp only [List.cons_append, strip]
      split
      · exact ih key
      · rfl

/-- the new branch of `insert` at a short node answers like the old short node plus the new key -/
theorem get_branch {x y : Nib} (hxy : x ≠ y) (xr yr : List Nib) (c : Node) (v : Bytes) (i : Nib) (r : List Nib)
    (hy : Suf (y :: yr)) (hr : Suf (i :: r)) :
    Model.Trie.get (.full (branch2 x (insertNil xr c) y (insertNil yr (.value v)))) (i :: r) =
      if i :: r = y :: yr then some v else Model.Trie.get (.short (x :: xr) c) (i :: r) := by
  simp only [Model.Trie.get, branch2]
  by_cases hiy : i = y
  · subst hiy
    simp only [if_true, get_insertNil]
    rw [strip_cons_ne hxy]
    by_cases hry : r = yr
    · subst hry; simp [strip_eq_some.mpr (List.append_nil r).symm, Model.Trie.get]
    · simp only [List.cons.injEq, true_and, hry, if_false]
      cases hst : strip yr r with
      | none => rfl
      | some r2 =>
        exfalso
        have e := strip_eq_some.mp hst
        by_cases hyr : yr = []
        · subst hyr
          have : r = [] := hr.1.mp (hy.1.mpr rfl)
          exact hry this
        · have : r2 = [] := suf_append_eq hy.2 hyr (by rw [← e]; exact hr.2)
          subst this
          rw [List.append_nil] at e; exact hry e
  · simp only [hiy, if_false]
    have hne : ¬ (i :: r = y :: yr) := fun e => hiy (List.cons.inj e).1
    simp only [hne, if_false]
    by_cases hix : i = x
    · subst hix
      simp only [if_true, get_insertNil, strip_cons_eq]
      cases strip xr r <;> rfl
    · simp only [hix, if_false, strip_cons_ne (Ne.symm hix)]
      simp [Model.Trie.get]

theorem false_of_keyAt_cons {v : Bool} {a : Nib} {as : List Nib} (h : KeyAt v (a :: as)) : v = false := by
  cases v
  · rfl
  · exact absurd (h.2.mpr rfl) (by simp)

/-- INSERT, all clauses at once (positional form): no panic, normal form kept, kind kept, lookups updated -/
theorem insert_spec (x : Bytes) : ∀ (n : Node) (v : Bool) (key : List Nib), Pos v n → KeyAt v key →
    ∃ n', Model.Trie.insert n key (.value x) = some n' ∧ WF n' ∧ n'.isValue = v ∧
      (n.isNil = false → n.isShort = false → n'.isShort = false) ∧
      ∀ key', KeyAt v key' → Model.Trie.get n' key' = if key' = key then some x else Model.Trie.get n key'
  | n, v, [], _, hk => by
    have hv : v = true := hk.2.mp rfl
    subst hv
    refine ⟨.value x, by cases n <;> rfl, trivial, rfl, fun _ _ => rfl, ?_⟩
    intro key' hk'
    have : key' = [] := hk'.2.mpr rfl
    subst this; simp [Model.Trie.get]
  | .nil, v, a :: as, _, hk => by
    have hv := false_of_keyAt_cons hk
    subst hv
    refine ⟨.short (a :: as) (.value x), rfl, ⟨keyOK_of_suf hk.1 (by simp), rfl, trivial⟩, rfl, ?_, ?_⟩
    · intro h; simp [Node.isNil] at h
    · intro key' hk'
      rw [get_short_bind]
      by_cases e : key' = a :: as
      · subst e; simp [strip_eq_some.mpr (List.append_nil (a :: as)).symm, Model.Trie.get]
      · simp only [e, if_false, Model.Trie.get]
        cases hst : strip (a :: as) key' with
        | none => rfl
        | some r =>
          exfalso
          have e2 := strip_eq_some.mp hst
          have : r = [] := suf_append_eq hk.1 (by simp) (by rw [← e2]; exact hk'.1)
          subst this; rw [List.append_nil] at e2; exact e e2
  | .value w, v, a :: as, hp, hk => by
    have hv := false_of_keyAt_cons hk
    subst hv
    rcases hp with h | ⟨_, h⟩
    · simp [Node.isNil] at h
    · simp [Node.isValue] at h
  | .full c, v, a :: as, hp, hk => by
    have hv := false_of_keyAt_cons hk
    subst hv
    rcases hp with h | ⟨hw, _⟩
    · simp [Node.isNil] at h
    · obtain ⟨hall, i0, j0, hij, hi0, hj0⟩ := hw
      have hpos : Pos (decide (a = term)) (c a) := by
        rcases hall a with h0 | ⟨hw', hv'⟩
        · exact Or.inl h0
        · exact Or.inr ⟨hw', isValue_eq_decide hv'⟩
      obtain ⟨n'', hins, hwf, hval, _, hget⟩ := insert_spec x (c a) _ as hpos (keyAt_of_cons hk)
      refine ⟨.full (setChild c a n''), by simp [Model.Trie.insert, hins], ⟨?_, ?_⟩, rfl, fun _ _ => rfl, ?_⟩
      · intro i
        by_cases hia : i = a
        · subst hia; right; simp only [setChild, if_true]; exact ⟨hwf, by rw [hval]; simp⟩
        · simp only [setChild, hia, if_false]; exact hall i
      · refine ⟨i0, j0, hij, ?_, ?_⟩
        · by_cases h : i0 = a
          · simp only [setChild, h, if_true]; exact wf_not_nil hwf
          · simp only [setChild, h, if_false]; exact hi0
        · by_cases h : j0 = a
          · simp only [setChild, h, if_true]; exact wf_not_nil hwf
          · simp only [setChild, h, if_false]; exact hj0
      · intro key' hk'
        cases key' with
        | nil => exact absurd (hk'.2.mp rfl) (by simp)
        | cons i r =>
          simp only [Model.Trie.get, setChild]
          by_cases hia : i = a
          · subst hia
            simp only [if_true]
            rw [hget r (keyAt_of_cons hk')]
            simp
          · simp only [hia, if_false]
            have : ¬ (i :: r = a :: as) := fun e => hia (List.cons.inj e).1
            simp [this]
  | .short k c, v, a :: as, hp, hk => by
    have hv := false_of_keyAt_cons hk
    subst hv
    rcases hp with h | ⟨hw, _⟩
    · simp [Node.isNil] at h
    · obtain ⟨hkk, hcs, hwc⟩ := hw
      rcases insert_short_cases k c (a :: as) (by simp) (.value x) with
        ⟨keyRest, e1, e2⟩ | ⟨x', xr, e⟩ | ⟨p, x', xr, y, yr, hxy, e1, e2, e3⟩
      · -- the whole short key matches: descend
        have hkr : KeyAt c.isValue keyRest := suf_of_append hkk (by rw [← e1]; exact hk.1)
        obtain ⟨n'', hins, hwf, hval, hsh, hget⟩ := insert_spec x c c.isValue keyRest (Or.inr ⟨hwc, rfl⟩) hkr
        refine ⟨.short k n'', by rw [e2, hins]; rfl, ⟨by rw [hval]; exact hkk, hsh (wf_not_nil hwc) hcs, hwf⟩, rfl,
          fun _ h => by simp [Node.isShort] at h, ?_⟩
        intro key' hk'
        rw [get_short_bind, get_short_bind]
        cases hst : strip k key' with
        | none =>
          have : key' ≠ a :: as := by intro e; rw [e, e1, strip_append] at hst; cases hst
          simp [this]
        | some r =>
          have e' := strip_eq_some.mp hst
          have hr : KeyAt c.isValue r := suf_of_append hkk (by rw [← e']; exact hk'.1)
          show Model.Trie.get n'' r = _
          rw [hget r hr]
          by_cases h : r = keyRest
          · have : key' = a :: as := by rw [e', e1, h]
            simp [h, this]
          · have : key' ≠ a :: as := by
              intro e; rw [e', e1] at e; exact h (List.append_cancel_left e)
            simp [h, this]
      · -- the key ends inside the short key: impossible for terminator keys
        exfalso
        rw [e] at hkk
        exact keyOK_true_no_ext x' xr (keyOK_of_suf hk.1 (by simp)) hkk
      · -- branch out
        have hy : Suf (y :: yr) := suf_drop (by rw [← e1]; exact hk.1)
        have hkx : KeyOK c.isValue (x' :: xr) := keyOK_drop (by rw [← e2]; exact hkk) (by simp)
        have hbr : WF (.full (branch2 x' (insertNil xr c) y (insertNil yr (.value x)))) := by
          refine ⟨?_, x', y, hxy, ?_, ?_⟩
          · intro i
            by_cases hiy : i = y
            · subst hiy
              right
              simp only [branch2, if_true]
              refine ⟨wf_insertNil trivial (fun hne => ⟨keyOK_of_suf hy.2 hne, rfl⟩), ?_⟩
              cases yr with
              | nil => simp [insertNil, Node.isValue, hy.1.mpr rfl]
              | cons b yr' =>
                rw [isValue_insertNil_cons]
                have : i ≠ term := fun e => by have := hy.1.mp e; simp at this
                simp [this]
            · by_cases hix : i = x'
              · subst hix
                right
                simp only [branch2, hiy, if_false, if_true]
                rcases keyOK_cons.mp hkx with ⟨h1, h2⟩ | ⟨h1, h2, h3⟩
                · subst h1; exact ⟨hwc, h2.symm⟩
                · refine ⟨wf_insertNil hwc (fun _ => ⟨h3, hcs⟩), ?_⟩
                  cases xr with
                  | nil => exact absurd rfl h1
                  | cons b xr' => rw [isValue_insertNil_cons]; simp [h2]
              · left; simp [branch2, hiy, hix, Node.isNil]
          · simp only [branch2, hxy, if_false, if_true]; exact isNil_insertNil (wf_not_nil hwc)
          · simp only [branch2, if_true]; exact isNil_insertNil rfl
        refine ⟨_, e3, wf_insertNil hbr (fun hne => ⟨keyOK_prefix (by rw [← e2]; exact hkk) hne, rfl⟩),
          by cases p <;> rfl, fun _ h => by simp [Node.isShort] at h, ?_⟩
        intro key' hk'
        rw [get_insertNil, get_short_bind, e2, strip_append_bind]
        cases hst : strip p key' with
        | none =>
          have : key' ≠ a :: as := by
            intro e; rw [e, e1, strip_append] at hst; cases hst
          simp [this]
        | some s =>
          have e' := strip_eq_some.mp hst
          cases s with
          | nil =>
            have : key' ≠ a :: as := by
              intro e; rw [e', e1] at e; have := List.append_cancel_left e; cases this
            simp [this, Model.Trie.get, strip]
          | cons i r =>
            have hir : Suf (i :: r) := suf_drop (by rw [← e']; exact hk'.1)
            show Model.Trie.get _ (i :: r) = _
            rw [get_branch hxy xr yr c x i r hy hir, get_short_bind]
            have : (key' = a :: as) ↔ (i :: r = y :: yr) := by
              rw [e', e1]; exact ⟨fun h => List.append_cancel_left h, fun h => by rw [h]⟩
            by_cases h : i :: r = y :: yr
            · simp [h, this.mpr h]
            · have h' : ¬ key' = a :: as := fun e => h (this.mp e)
              simp only [h, h', if_false]
              rfl

end Props.C10
