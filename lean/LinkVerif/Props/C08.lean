/-
C08 — Only the key holder can move funds; signatures bind every transaction field.

Structure of the argument
  * `fields_covered`, `hash_covers_all`, `utxo_message_binds`, `signers_vetted` : `decide` over the tables regenerated from
    the Go source (`Gen.SigFacts`) — which struct fields the signing hash, the transaction hash and the RingCT message
    cover, and the exact shape of the signer code the hand model mirrors.  Removing a field from a `signFields()` list,
    changing a `recover` argument or the cache guard makes these stop checking.
  * binding theorems about the executable model `Model.SigHash.signerSender` (the function the driver runs against the
    real code), parametrised by the digest `D` and the recovery function `rec`; the cryptographic laws are hypotheses:
      `Function.Injective D`  — Keccak-256 collision resistance + injectivity of the `libs/ser` list encoding (C11)
      `RecInj rec`            — a signature (r,s,recid) recovers a given address for one digest only (ECDSA algebra)
  * range theorems in `Props/C08Range.lean`.
  * the full statement `C08_statement` (the chain parameter is bound for EVERY accepted signature) is FALSE of the current
    code: `C08_counterexample` (V = 27: the EIP155 signer falls back to the homestead rule, whose hash has no chain
    parameter); `C08_partial` is the statement for protected signatures.
-/
import LinkVerif.Props.C08Range

namespace Props.C08
open Model.SigHash Gen.SigFacts

/-! ## T2: what the hashes cover -/

/-- vetted classification of the serialised fields that are NOT payload: the signature itself, and (UTXO) the ring
    signature, which is bound the other way round — its message covers the payload and the account signature -/
def signatureFields : List String := ["V", "R", "S", "Signdata", "Sigs", "Signatures"]
def ringSigFields : List String := ["RCTSig"]

/-- `fields_covered`: every serialised payload field of every account-signed transaction type is in its `signFields()` -/
theorem fields_covered :
    (∀ n ∈ serNames txdataFields, n ∈ txSignFields ∨ n ∈ signatureFields) ∧
    (∀ n ∈ serNames tokenDataFields, n ∈ tokSignFields ∨ n ∈ signatureFields) ∧
    (∀ n ∈ serNames cutTxFields, n ∈ cutSignFields ∨ n ∈ signatureFields) ∧
    (∀ n ∈ serNames utxoTxFields, n ∈ utxoSignFields ∨ n ∈ signatureFields ∨ n ∈ ringSigFields) ∧
    -- nothing that is not serialised is signed, and the embedded main info has no unserialised field
    (∀ n ∈ txSignFields, n ∈ serNames txdataFields) ∧ (∀ n ∈ tokSignFields, n ∈ serNames tokenDataFields) ∧
    (∀ n ∈ utxoSignFields, n ∈ serNames utxoTxFields) ∧
    (serNames cutMainInfoFields = cutMainInfoFields.map (·.1)) ∧
    -- the unexported fields are the caches only
    ((txdataFields.filter (!·.2)).map (·.1) = ["fromValue", "Hash"]) ∧
    ((signdataFields.filter (!·.2)).map (·.1) = ["fromValue", "signFieldsFunc"]) ∧
    ((utxoTxFields.filter (!·.2)).map (·.1) = ["kind", "hash", "size", "utxoInNum", "utxoOutNum", "nonce"]) ∧
    ((cutTxFields.filter (!·.2)).map (·.1) = ["hash"]) := by decide

/-- `hash_covers_all`: the transaction hash (mempool cache key, `StoreFrom` guard) covers every serialised field
    including V, R, S -/
theorem hash_covers_all :
    -- Transaction: rlpHash(tx) → EncodeSER → ser.Encode(w, &tx.data): all serialised fields of txdata
    txHashArg = ["tx"] ∧ txEncodeArgs = ["w", "&tx.data"] ∧
    (∀ n ∈ ["V", "R", "S"] ++ txSignFields, n ∈ serNames txdataFields) ∧
    -- TokenTransaction: rlpHash(append(tx.signFields(), tx.data.Signdata))
    tokHashAppend = ["tx.signFields()", "tx.data.Signdata"] ∧ tokHashArg = ["hashFields"] ∧
    (∀ n ∈ serNames tokenDataFields, n ∈ tokSignFields ++ ["Signdata"]) ∧
    -- ContractUpgradeTx / UTXOTransaction: transactionHash(&tx.hash, tx) → rlpHash(tx), plain struct encoding
    cutHashArgs = ["&tx.hash", "tx"] ∧ utxoHashArgs = ["&tx.hash", "tx"] ∧ transactionHashRlpArg = ["tx"] ∧
    serNames signdataFields = ["V", "R", "S"] := by decide

/-- `utxo_message_binds`: the RingCT message is the prefix hash, which covers inputs, outputs, token, transaction keys,
    fee, extra and the account signature -/
theorem utxo_message_binds :
    rctMessageAssigned = ["tx.PrefixHash()"] ∧
    (∀ n ∈ utxoSignFields, n ∈ utxoPrefixHashFields) ∧
    (∀ n ∈ ["Sigs.R", "Sigs.S", "Sigs.V"], n ∈ utxoPrefixHashFields) ∧
    (∀ n ∈ serNames utxoTxFields, n ∈ utxoPrefixHashFields ∨ n = "Sigs" ∨ n ∈ ringSigFields) := by decide

/-- the signer code the hand model mirrors, statement by statement -/
theorem signers_vetted :
    signAppend = ["data", "signer.SignParam()", "uint(0)", "uint(0)"] ∧ signHashArg = ["fields"] ∧
    eip155HashBody = ["h := data.signFields()", "h = append(h, s.signParam, uint(0), uint(0))", "return rlpHash(h)"] ∧
    frontierHashBody = ["return rlpHash(data.signFields())"] ∧
    eip155SenderBody = ["if !data.Protected() { return STDHomesteadSigner{}.Sender(data) }",
      "if data.SignParam().Cmp(s.signParam) != 0 { return common.EmptyAddress, ErrInvalidSignParam }",
      "return data.recover(s.Hash(data), s.signParamMul, true)"] ∧
    eip155RecoverArgs = ["s.Hash(data)", "s.signParamMul", "true"] ∧ homesteadRecoverArgs = ["s.Hash(data)", "nil", "true"] ∧
    frontierRecoverArgs = ["s.Hash(data)", "nil", "false"] ∧
    recoverPlainValidateArgs = ["V", "R", "S", "homestead"] ∧
    senderCacheGuard = "sigCache.signer.Equal(signer)" ∧ senderCacheStore = "stdSigCache{signer: signer, from: addr}" := by decide

/-- information: the validators of a MultiSignAccountTx sign the main info alone — no chain parameter -/
theorem mst_signs_main_info_only : mstSignBytesArg = ["tx.MultiSignMainInfo"] ∧
    serNames mstTxFields = ["MultiSignMainInfo", "Signatures"] := by decide

/-- a changed item of a signed field changes the signed item list (same kind) -/
theorem signItems_field {t t' : TxV} (hk : t'.kind = t.kind) {n : String} (hn : n ∈ signFieldNames t.kind)
    (hne : item t' n ≠ item t n) : signItems t' ≠ signItems t := by
  intro h
  unfold signItems at h
  rw [hk] at h
  exact hne (List.map_inj_left.1 h n hn)

theorem sigHashItems_field {t t' : TxV} (s : Signer) (hk : t'.kind = t.kind) {n : String} (hn : n ∈ signFieldNames t.kind)
    (hne : item t' n ≠ item t n) : sigHashItems s t' ≠ sigHashItems s t := by
  intro h
  unfold sigHashItems at h
  exact signItems_field hk hn hne (List.append_cancel_right h)

/-! ## binding theorems (ideal digest and recovery as hypotheses) -/

section
variable {δ α : Type} (D : List Bytes → δ) (rec : δ → Int → Int → Int → Option α)

/-- ECDSA algebra: for fixed (r, s, recid) the recovered key is an injective function of the digest -/
def RecInj : Prop := ∀ d d' r s v a, rec d r s v = some a → rec d' r s v = some a → d = d'

theorem recoverWith_addr {d : δ} {sg : Sig} {Vb : Int} {hs : Bool} {a : α}
    (h : recoverWith rec d sg Vb hs = .ok (.addr a)) :
    ∃ v, plainRecid sg.r sg.s Vb hs = .ok v ∧ rec d sg.r sg.s v = some a := by
  unfold recoverWith at h
  split at h
  · simp at h
  · rename_i v hv
    refine ⟨v, hv, ?_⟩
    split at h
    · rename_i a' ha; simp at h; rw [ha, h]
    · simp at h

theorem recoverWith_ok {d : δ} {sg : Sig} {Vb : Int} {hs : Bool} {w : Who α}
    (h : recoverWith rec d sg Vb hs = .ok w) : ∃ v, plainRecid sg.r sg.s Vb hs = .ok v := by
  unfold recoverWith at h
  split at h
  · simp at h
  · rename_i v hv; exact ⟨v, hv⟩

/-- same signature, same V, different digest: not the same key holder -/
theorem recoverWith_digest (hR : RecInj rec) {d d' : δ} {sg : Sig} {Vb : Int} {hs : Bool} {a : α}
    (h : recoverWith rec d sg Vb hs = .ok (.addr a)) (hne : d' ≠ d) :
    recoverWith rec d' sg Vb hs ≠ .ok (.addr a) := by
  intro h'
  obtain ⟨v, hv, hr⟩ := recoverWith_addr rec h
  obtain ⟨v', hv', hr'⟩ := recoverWith_addr rec h'
  rw [hv] at hv'
  injection hv' with hvv
  subst hvv
  exact hne (hR _ _ _ _ _ _ hr' hr)

/-- a protected signature accepted by chain p carries p in its V -/
theorem protected_param {p : Nat} {t : TxV} {sg : Sig} {w : Who α}
    (hprot : isProtectedV sg.v = true) (h : signerSender D rec (.eip p) t sg = .ok w) :
    deriveSignParam sg.v = (p : Int) := by
  unfold signerSender at h
  simp only [hprot, Bool.not_true, Bool.false_eq_true, ↓reduceIte] at h
  split at h
  · simp at h
  · rename_i hp; simpa using hp

/-- `mutation_changes_sender_or_rejects`: for a protected signature, changing the signed content (any signed field:
    `sigHashItems_field`) yields a rejection or a different recovered address -/
theorem mutation_changes_sender_or_rejects (hD : Function.Injective D) (hR : RecInj rec)
    (p : Nat) (t t' : TxV) (sg : Sig) (a : α) (hprot : isProtectedV sg.v = true)
    (h : signerSender D rec (.eip p) t sg = .ok (.addr a))
    (hne : sigHashItems (.eip p) t' ≠ sigHashItems (.eip p) t) :
    signerSender D rec (.eip p) t' sg ≠ .ok (.addr a) := by
  have hp := protected_param D rec hprot h
  unfold signerSender at h ⊢
  simp only [hprot, Bool.not_true, Bool.false_eq_true, ↓reduceIte, hp, ne_eq, not_true_eq_false] at h ⊢
  exact recoverWith_digest rec hR h (fun hd => hne (hD hd))

/-- the same for the two signers without chain parameter (and hence for unprotected signatures under any signer) -/
theorem mutation_changes_sender_home (hD : Function.Injective D) (hR : RecInj rec)
    (t t' : TxV) (sg : Sig) (a : α) (h : signerSender D rec .home t sg = .ok (.addr a))
    (hne : sigHashItems .home t' ≠ sigHashItems .home t) :
    signerSender D rec .home t' sg ≠ .ok (.addr a) := by
  unfold signerSender at h ⊢
  exact recoverWith_digest rec hR h (fun hd => hne (hD hd))

/-- `chain_param_binds` (no cryptographic hypothesis): a protected signature that chain p accepts is REJECTED by the
    signer of every other chain parameter, whatever the transaction -/
theorem chain_param_binds (p p' : Nat) (t t' : TxV) (sg : Sig) (w : Who α) (hprot : isProtectedV sg.v = true)
    (h : signerSender D rec (.eip p) t sg = .ok w) (hpp : p ≠ p') :
    signerSender D rec (.eip p') t' sg = .error .param := by
  have hp := protected_param D rec hprot h
  unfold signerSender
  have : deriveSignParam sg.v ≠ (p' : Int) := by rw [hp]; exact fun h => hpp (Int.ofNat_inj.1 h)
  simp [hprot, this]

/-- an accepted signature has canonical shape: r, s in range, low s unless the frontier signer was asked, and
    V = 35 + 2p + recid (protected) or |V| ∈ {27,28} -/
theorem accepted_canonical (s : Signer) (t : TxV) (sg : Sig) (w : Who α)
    (h : signerSender D rec s t sg = .ok w) :
    1 ≤ sg.r ∧ sg.r < secp256k1N ∧ 1 ≤ sg.s ∧ sg.s < secp256k1N ∧ (s ≠ .front → sg.s ≤ secp256k1halfN) ∧
    (match s with
     | .eip p => (isProtectedV sg.v = true ∧ (sg.v = 35 + 2 * p ∨ sg.v = 36 + 2 * p)) ∨ (absI sg.v = 27 ∨ absI sg.v = 28)
     | _ => absI sg.v = 27 ∨ absI sg.v = 28) := by
  unfold signerSender at h
  cases s with
  | front =>
    obtain ⟨v, hv⟩ := recoverWith_ok rec h
    have ⟨h1, h2⟩ := plainRecid_ok hv
    rw [validate_iff] at h2
    refine ⟨h2.1, h2.2.1, h2.2.2.1, h2.2.2.2.1, by simp, ?_⟩
    simp only; omega
  | home =>
    obtain ⟨v, hv⟩ := recoverWith_ok rec h
    have ⟨h1, h2⟩ := plainRecid_ok hv
    rw [validate_iff] at h2
    refine ⟨h2.1, h2.2.1, h2.2.2.1, h2.2.2.2.1, fun _ => h2.2.2.2.2.1 (by decide), ?_⟩
    simp only; omega
  | eip p =>
    simp only at h
    split at h
    · rename_i hu
      obtain ⟨v, hv⟩ := recoverWith_ok rec h
      have ⟨h1, h2⟩ := plainRecid_ok hv
      rw [validate_iff] at h2
      refine ⟨h2.1, h2.2.1, h2.2.2.1, h2.2.2.2.1, fun _ => h2.2.2.2.2.1 (by decide), ?_⟩
      simp only; omega
    · rename_i hu
      split at h
      · simp at h
      · rename_i hp
        obtain ⟨v, hv⟩ := recoverWith_ok rec h
        have ⟨h1, h2⟩ := plainRecid_ok hv
        have hc := eip_accept_canonical p sg.v sg.r sg.s v _ (by simpa using hp) hv
        rw [validate_iff] at h2
        refine ⟨h2.1, h2.2.1, h2.2.2.1, h2.2.2.2.1, fun _ => h2.2.2.2.2.1 (by decide), ?_⟩
        simp only
        left
        refine ⟨by simpa using hu, ?_⟩
        omega

/-- `twin_rejected`: the malleable twin (r, N−s) of an accepted signature is rejected by the EIP155 and homestead
    signers whatever V it is given -/
theorem twin_rejected (s : Signer) (hs : s ≠ .front) (t t' : TxV) (sg : Sig) (w : Who α) (v' : Int)
    (h : signerSender D rec s t sg = .ok w) :
    ∃ e, signerSender D rec s t' ⟨v', sg.r, twinS sg.s⟩ = .error e := by
  have hc := accepted_canonical D rec s t sg w h
  have hlow : sg.s ≤ secp256k1halfN := hc.2.2.2.2.1 hs
  have hN := N_odd
  cases hr : signerSender D rec s t' ⟨v', sg.r, twinS sg.s⟩ with
  | error e => exact ⟨e, rfl⟩
  | ok w' =>
    have hc' := accepted_canonical D rec s t' _ w' hr
    have := hc'.2.2.2.2.1 hs
    simp only [twinS, secp256k1halfN] at this hlow
    omega

/-! ## the sender cache -/

/-- what a cache cell may hold for (t, sg): only results of a successful derivation for exactly this content -/
def CacheInv (c : Cache α) (t : TxV) (sg : Sig) : Prop :=
  ∀ s a, c = some (s, a) → signerSender D rec s t sg = .ok a

theorem cold_inv (t : TxV) (sg : Sig) : CacheInv D rec (none : Cache α) t sg := by
  intro s a h; cases h

/-- `cache_sound`: on an object whose content did not change since the cache was written, `sender()` returns exactly what
    the signer derives (a hit needs an equal signer), and keeps the invariant -/
theorem cache_sound (s : Signer) (c : Cache α) (t : TxV) (sg : Sig) (hc : CacheInv D rec c t sg) :
    (sender D rec s c t sg).1 = signerSender D rec s t sg ∧ CacheInv D rec (sender D rec s c t sg).2 t sg := by
  unfold sender
  cases c with
  | none =>
    simp only
    cases hs : signerSender D rec s t sg with
    | error e => exact ⟨rfl, cold_inv D rec t sg⟩
    | ok a =>
      refine ⟨rfl, ?_⟩
      intro s' a' h
      simp only [Option.some.injEq, Prod.mk.injEq] at h
      rw [← h.1, ← h.2]; exact hs
  | some sa =>
    obtain ⟨s', a⟩ := sa
    simp only
    split
    · rename_i he
      subst he
      exact ⟨(hc s' a rfl).symm, hc⟩
    · cases hs : signerSender D rec s t sg with
      | error e => exact ⟨rfl, hc⟩
      | ok a' =>
        refine ⟨rfl, ?_⟩
        intro s'' a'' h
        simp only [Option.some.injEq, Prod.mk.injEq] at h
        rw [← h.1, ← h.2]; exact hs

/-- `StoreFrom` in app/app.go copies `cacheTx.From()` of a hash-identical transaction under the global signer: if the
    two have the same content (what equal `Hash()` means under `hash_covers_all` + injectivity), the written cell
    satisfies the invariant -/
theorem storeFrom_sound (p : Nat) (t : TxV) (sg : Sig) (a : Who α)
    (h : signerSender D rec (.eip p) t sg = .ok a) : CacheInv D rec (some (.eip p, a)) t sg := by
  intro s' a' h'
  simp only [Option.some.injEq, Prod.mk.injEq] at h'
  rw [← h'.1, ← h'.2]; exact h

end

/-! ## non-vacuity and the witnesses -/

def t0 : TxV := { kind := .tx, fields := [("AccountNonce", encNat 7), ("Price", encNat 100000000000), ("GasLimit", encNat 21000),
  ("Recipient", rlpStr [0xaa]), ("Amount", encNat 1000), ("Payload", rlpStr [])], sigs := [] }
def t1 : TxV := { t0 with fields := [("AccountNonce", encNat 8), ("Price", encNat 100000000000), ("GasLimit", encNat 21000),
  ("Recipient", rlpStr [0xaa]), ("Amount", encNat 1000), ("Payload", rlpStr [])] }

/-- an ideal instance: the digest is the item list itself, every (r,s,recid) recovers "the holder of" the digest -/
def recId : List Bytes → Int → Int → Int → Option (List Bytes) := fun d _ _ _ => some d
theorem recId_inj : RecInj recId := by
  intro d d' r s v a h h'
  simp only [recId, Option.some.injEq] at h h'
  rw [h, h']

/-- the hypotheses of the binding theorems are satisfiable together with an accepted protected signature … -/
example : signerSender id recId (.eip 1) t0 ⟨37, 1, 1⟩ = .ok (.addr (sigHashItems (.eip 1) t0)) := by rfl
example : isProtectedV 37 = true := by decide
/-- … the nonce is a signed field whose change changes the signed content … -/
example : sigHashItems (.eip 1) t1 ≠ sigHashItems (.eip 1) t0 :=
  sigHashItems_field (.eip 1) rfl (n := "AccountNonce") (by decide) (by decide)
/-- … and the mutated transaction indeed recovers somebody else -/
example : signerSender id recId (.eip 1) t1 ⟨37, 1, 1⟩ ≠ .ok (.addr (sigHashItems (.eip 1) t0)) :=
  mutation_changes_sender_or_rejects id recId (fun _ _ h => h) recId_inj 1 t0 t1 ⟨37, 1, 1⟩ _ (by decide) (by rfl)
    (sigHashItems_field (.eip 1) rfl (n := "AccountNonce") (by decide) (by decide))
example : signerSender id recId (.eip 2) t0 ⟨37, 1, 1⟩ = .error .param :=
  chain_param_binds id recId 1 2 t0 t0 ⟨37, 1, 1⟩ _ (by decide) (by rfl : signerSender id recId (.eip 1) t0 ⟨37, 1, 1⟩ = .ok _) (by decide)

/-- **C08, full statement** (chain clause): for every ideal digest and recovery function, a signature accepted with
    sender `a` under chain parameter p is not accepted with sender `a` under any other chain parameter -/
def C08_statement : Prop :=
  ∀ (D : List Bytes → List Bytes) (rec : List Bytes → Int → Int → Int → Option (List Bytes)),
    Function.Injective D → RecInj rec →
    ∀ (p p' : Nat) (t : TxV) (sg : Sig) (a : List Bytes), p ≠ p' →
      signerSender D rec (.eip p) t sg = .ok (.addr a) → signerSender D rec (.eip p') t sg ≠ .ok (.addr a)

/-- FALSE of the current code: V = 27 makes `STDEIP155Signer.Sender` fall back to the homestead rule, whose hash does not
    contain the chain parameter — the same signature moves the same account's funds on every chain
    (known finding `unprotected-signature-chain-independent`, replayed on the real code by the corpus case) -/
theorem C08_counterexample : ¬ C08_statement := by
  intro h
  exact h id recId (fun _ _ h => h) recId_inj 1 2 t0 ⟨27, 1, 1⟩ (sigHashItems .home t0) (by decide) (by rfl) (by rfl)

/-- **C08, the part that holds**: for PROTECTED signatures (V ∉ {±27, ±28}) the chain parameter is bound (even without
    cryptographic hypotheses: the other chain rejects), every signed field is bound, and the malleable twin is rejected -/
theorem C08_partial {δ α : Type} (D : List Bytes → δ) (rec : δ → Int → Int → Int → Option α)
    (hD : Function.Injective D) (hR : RecInj rec)
    (p : Nat) (t : TxV) (sg : Sig) (a : α) (hprot : isProtectedV sg.v = true)
    (h : signerSender D rec (.eip p) t sg = .ok (.addr a)) :
    (∀ p' t', p ≠ p' → signerSender D rec (.eip p') t' sg = .error .param) ∧
    (∀ t', sigHashItems (.eip p) t' ≠ sigHashItems (.eip p) t → signerSender D rec (.eip p) t' sg ≠ .ok (.addr a)) ∧
    (∀ t' v', ∃ e, signerSender D rec (.eip p) t' ⟨v', sg.r, twinS sg.s⟩ = .error e) ∧
    (sg.v = 35 + 2 * p ∨ sg.v = 36 + 2 * p) := by
  refine ⟨fun p' t' hpp => chain_param_binds D rec p p' t t' sg _ hprot h hpp,
    fun t' hne => mutation_changes_sender_or_rejects D rec hD hR p t t' sg a hprot h hne,
    fun t' v' => twin_rejected D rec (.eip p) (by simp) t t' sg _ v' h, ?_⟩
  have hc := (accepted_canonical D rec (.eip p) t sg _ h).2.2.2.2.2
  simp only at hc
  rcases hc with hc | hc
  · exact hc.2
  · have := (unprotected_iff sg.v).2 hc
    rw [hprot] at this; cases this

/-- information, kernel-checked in the model: `cache_sound` needs "content unchanged since the cache was written".  An
    object written in place after use (UTXOTransaction's exported fields, `DecodeSER` into a used Transaction, re-`Sign`)
    answers from the stale cell: here the cell written for `t0` answers for `t1`. -/
theorem stale_cache_witness :
    (sender id recId (.eip 1) (sender id recId (.eip 1) none t0 ⟨37, 1, 1⟩).2 t1 ⟨37, 1, 1⟩).1
      ≠ signerSender id recId (.eip 1) t1 ⟨37, 1, 1⟩ := by
  have h0 : (sender id recId (.eip 1) none t0 ⟨37, 1, 1⟩).2 = some (.eip 1, .addr (sigHashItems (.eip 1) t0)) := by rfl
  rw [h0]
  have h1 : signerSender id recId (.eip 1) t1 ⟨37, 1, 1⟩ = .ok (.addr (sigHashItems (.eip 1) t1)) := by rfl
  rw [h1]
  simp only [sender, ↓reduceIte, ne_eq, Except.ok.injEq, Who.addr.injEq]
  exact fun h => sigHashItems_field (t := t0) (t' := t1) (.eip 1) rfl (n := "AccountNonce") (by decide) (by decide) h.symm

end Props.C08
