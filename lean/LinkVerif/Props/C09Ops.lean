/-
C09, part 3: `applyOp_ext` — every mutator of `StateDB` (as modelled by `applyOp`) is an `Ext` step: it only appends journal
entries, and undoing exactly those entries restores the abstraction.
-/
import LinkVerif.Props.C09Ext

namespace Props.C09
open Model.StateDB

/-- side condition of `Suicide` (see `revert_suicide_negative_counterexample`): `suicideChange` remembers only strictly positive
balances, so exact restoration needs non-negative balances; and the token map must be private (not a cell shared with a copy),
because the revert installs a private map again.  On the current tree (deepCopy clones the map) no map is ever shared, and
the second half is discharged by the invariant `NS`: see `SafeOpNN`, `safe_of_nn`, `revert_exact_ns` in Props/C09World.lean -/
def SafeOp (c : Ctx) : Op → Prop
  | .suicide a => ∀ o, peek c.st a = some o → 0 ≤ o.balance ∧ ∃ m, o.toks = .inl m ∧ ∀ t v, m t = some v → 0 ≤ v
  | _ => True

theorem viewObj_ext (o o' : Obj) (h1 : o'.nonce = o.nonce) (h2 : o'.credits = o.credits) (h3 : o'.balance = o.balance)
    (h4 : o'.toks = o.toks) (h5 : o'.code = o.code) (h6 : o'.dirty = o.dirty) (h7 : o'.origin = o.origin)
    (h8 : o'.strie = o.strie) (h9 : o'.suicided = o.suicided) : viewObj o' = viewObj o := by
  simp [viewObj, h1, h2, h3, h4, h5, h9, getState_congr o o' h6 h7 h8]

theorem ensure_ext (c : Ctx) (a : Addr) (hw : WF c.st) :
    Ext c (ensure c a).1 ∧ peek (ensure c a).1.st a = some (ensure c a).2 := by
  unfold ensure
  cases h : peek c.st a with
  | some o => exact ⟨E_live c a o h, by simp [peek_not_deleted h]⟩
  | none =>
    have : (createObject c a).1 = putObj (push c (.createObject a)) a freshObj := by simp [createObject, h]
    simp only [this]
    exact ⟨E_create c a h hw, by simp [freshObj]⟩

theorem setCredits_ext (c : Ctx) (a : Addr) (o : Obj) (v : Nat) (h : peek c.st a = some o) :
    Ext c (setCredits c a o v).1 ∧ peek (setCredits c a o v).1.st a = some (setCredits c a o v).2 := by
  have hnd := peek_not_deleted h
  refine ⟨?_, by simp [setCredits, hnd]⟩
  exact E_field c a o { o with credits := v } (.credits a o.credits) (fun x => { x with credits := o.credits }) h
    (fun _ => rfl) hnd hnd (viewObj_ext _ _ rfl rfl rfl rfl rfl rfl rfl rfl rfl)

theorem setBalance_ext (c : Ctx) (a : Addr) (o : Obj) (v : Int) (h : peek c.st a = some o) : Ext c (setBalance c a o v) := by
  obtain ⟨h1, h2⟩ := setCredits_ext c a o (o.credits + 1) h
  have hnd := peek_not_deleted h2
  refine Ext.trans h1 ?_
  simp only [setBalance]
  exact E_field _ a _ { (setCredits c a o (o.credits + 1)).2 with balance := v } (.balance a (setCredits c a o (o.credits + 1)).2.balance)
    (fun x => { x with balance := (setCredits c a o (o.credits + 1)).2.balance }) h2
    (fun _ => rfl) hnd hnd (viewObj_ext _ _ rfl rfl rfl rfl rfl rfl rfl rfl rfl)

theorem touchIfEmpty_ext (c : Ctx) (a : Addr) (o : Obj) : Ext c (touchIfEmpty c a o) := by
  unfold touchIfEmpty
  split
  · exact E_touch c a
  · exact Ext.refl c

theorem zeroInsert_ext (cfg : Cfg) (c : Ctx) (a : Addr) (o : Obj) (t : Tok) (h : peek c.st a = some o) :
    Ext c (zeroInsert cfg c a o t).1 ∧ peek (zeroInsert cfg c a o t).1.st a = some (zeroInsert cfg c a o t).2 := by
  unfold zeroInsert
  split
  · next hc =>
    have hz : tokMapOf c.heap o t = none := by
      simp only [Bool.and_eq_true, Option.isNone_iff_eq_none] at hc
      exact hc.1
    refine ⟨E_zero c a o t h hz, ?_⟩
    simp [writeTokO_deleted, peek_not_deleted h]
  · exact ⟨Ext.refl c, h⟩

theorem setTokenBalance_ext (cfg : Cfg) (c : Ctx) (a : Addr) (o : Obj) (t : Tok) (v : Int) (h : peek c.st a = some o) :
    Ext c (setTokenBalance cfg c a o t v) := by
  unfold setTokenBalance
  split
  · exact setBalance_ext c a o v h
  · obtain ⟨h1, h2⟩ := zeroInsert_ext cfg c a o t h
    obtain ⟨h3, h4⟩ := setCredits_ext _ a _ ((zeroInsert cfg c a o t).2.credits + 1) h2
    exact Ext.trans h1 (Ext.trans h3 (E_tok _ a _ t v h4))

/-- **every mutator only appends journal entries whose undo restores the abstraction** -/
theorem applyOp_ext (cfg : Cfg) (c : Ctx) (op : Op) (hw : WF c.st) (hs : SafeOp c op) : Ext c (applyOp cfg c op) := by
  cases op with
  | addBal a v =>
    obtain ⟨h1, h2⟩ := ensure_ext c a hw
    simp only [applyOp]
    split
    · exact Ext.trans h1 (touchIfEmpty_ext _ a _)
    · exact Ext.trans h1 (setBalance_ext _ a _ _ h2)
  | subBal a v =>
    obtain ⟨h1, h2⟩ := ensure_ext c a hw
    simp only [applyOp]
    split
    · exact h1
    · exact Ext.trans h1 (setBalance_ext _ a _ _ h2)
  | setBal a v =>
    obtain ⟨h1, h2⟩ := ensure_ext c a hw
    exact Ext.trans h1 (setBalance_ext _ a _ _ h2)
  | addTok a t v =>
    obtain ⟨h1, h2⟩ := ensure_ext c a hw
    simp only [applyOp]
    split
    · exact Ext.trans h1 (touchIfEmpty_ext _ a _)
    · exact Ext.trans h1 (setTokenBalance_ext cfg _ a _ t _ h2)
  | subTok a t v =>
    obtain ⟨h1, h2⟩ := ensure_ext c a hw
    simp only [applyOp]
    split
    · exact h1
    · exact Ext.trans h1 (setTokenBalance_ext cfg _ a _ t _ h2)
  | setTok a t v =>
    obtain ⟨h1, h2⟩ := ensure_ext c a hw
    exact Ext.trans h1 (setTokenBalance_ext cfg _ a _ t _ h2)
  | setNonce a n =>
    obtain ⟨h1, h2⟩ := ensure_ext c a hw
    have hnd := peek_not_deleted h2
    refine Ext.trans h1 ?_
    exact E_field _ a _ { (ensure c a).2 with nonce := n } (.nonce a (ensure c a).2.nonce) (fun x => { x with nonce := (ensure c a).2.nonce }) h2
      (fun _ => rfl) hnd hnd (viewObj_ext _ _ rfl rfl rfl rfl rfl rfl rfl rfl rfl)
  | setCode a code =>
    obtain ⟨h1, h2⟩ := ensure_ext c a hw
    have hnd := peek_not_deleted h2
    refine Ext.trans h1 ?_
    exact E_field _ a _ { (ensure c a).2 with code := code } (.code a (ensure c a).2.code) (fun x => { x with code := (ensure c a).2.code }) h2
      (fun _ => rfl) hnd hnd (viewObj_ext _ _ rfl rfl rfl rfl rfl rfl rfl rfl rfl)
  | setState a k v =>
    obtain ⟨h1, h2⟩ := ensure_ext c a hw
    have hnd := peek_not_deleted h2
    simp only [applyOp]
    split
    · exact h1
    · refine Ext.trans h1 ?_
      refine E_field _ a _ { (ensure c a).2 with dirty := upd (ensure c a).2.dirty k (some v) } (.storage a k (getState (ensure c a).2 k))
        (fun x => { x with dirty := upd x.dirty k (some (getState (ensure c a).2 k)) }) h2 (fun _ => rfl) hnd hnd ?_
      simp only [viewObj, getState_upd_upd]
  | create a =>
    simp only [applyOp, createObject]
    cases h : peek c.st a with
    | none => exact E_create c a h hw
    | some p =>
      simp only [putObj_putObj]
      exact E_reset c a p _ h rfl
  | suicide a =>
    simp only [applyOp]
    cases h : peek c.st a with
    | none => exact Ext.refl c
    | some o =>
      obtain ⟨hb, m, hm, ht⟩ := hs o h
      exact E_suicide c a o m h hm hb ht
  | addLog d => exact E_log c d
  | addRefund g => exact E_refund c _
  | subRefund g => exact E_refund c _
  | prepare x i => exact Ext.neutral ⟨rfl, fun _ => Or.inl rfl⟩ rfl (by simp [abs, applyOp, peek])
  | setCredits a n =>
    obtain ⟨h1, h2⟩ := ensure_ext c a hw
    exact Ext.trans h1 (setCredits_ext _ a _ n h2).1
  | addPreimage p d =>
    simp only [applyOp]
    cases h : c.st.preimages p with
    | some v => exact Ext.refl c
    | none => exact E_pre c p d h

end Props.C09
