/-
C11 — wire and storage encoding is canonical, lossless, and safe on arbitrary input.

Layer 1 (RLP framing): fully proved in Props/C11Rlp.lean
  dec_enc, enc_dec_canonical, decExact_canonical, enc_injective, enc_prefix_free, dec_total, alloc_bound, dec_progress.
Layer 2 (libs/ser conventions, Model/Ser.lean): this file, Props/C11NoPanic.lean (no decoder panics, map count bound),
  Props/C11Map.lean (map order freedom), Props/C11Int.lean (ParseInt∘FormatInt), Props/C11Round.lean and C11Round2.lean
  (Stream/readHead bridge, round trip of Frag and of the extended FragN), Props/C11Roots.lean (registered roots covered).
  The full statements are kept as `def … : Prop`: C11_no_panic_statement is proved; C11_roundtrip_statement is false
  ([1]byte zero, counterexample below) and proved for the fragment `Frag`; C11_canonical_statement is false for foreign
  bytes (ParseInt leniency) and proved for encoder output of the fragment.
-/
import LinkVerif.Model.Ser
import LinkVerif.Props.C11Rlp
import LinkVerif.Props.C11NoPanic
import LinkVerif.Props.C11Map
import LinkVerif.Props.C11Round
import LinkVerif.Props.C11Round2
import LinkVerif.Props.C11Roots

namespace Props.C11
open Model.Rlp Model.Ser

/-! ### full statements of layer 2 (open unless a theorem of the same name follows) -/

/-- the equality the code provides after a round trip: re-encoding equality (nil/empty and nil/zero conventions are
    exactly the values with equal encodings) -/
def Equiv (env : Env) (t : Ty) (v v' : Val) : Prop := encV env 1000 t v = encV env 1000 t v'

/-- lossless: whatever the encoder accepts, the decoder accepts, with nothing left over, and returns an equivalent value -/
def C11_roundtrip_statement : Prop :=
  ∀ (env : Env) (t : Ty) (v : Val) (b : Bytes), encodeBytes env t [] v = .ok b →
    ∃ v', decodeBytes env t false b = .ok v' ∧ Equiv env t v v'

/-- canonical: whatever the decoder accepts re-encodes to the very same bytes -/
def C11_canonical_statement : Prop :=
  ∀ (env : Env) (t : Ty) (b : Bytes) (v : Val), decodeBytes env t false b = .ok v → encodeBytes env t [] v = .ok b

/-- safe: no input makes a decoder panic -/
def C11_no_panic_statement : Prop :=
  ∀ (env : Env) (t : Ty) (pre : Bool) (b : Bytes), decodeBytes env t pre b ≠ .error .panic

/-! ### what is false of the code as it is, with kernel-checked witnesses -/

/-! ParseInt leniency: "+5" decodes as the int 5, which re-encodes as "5" -/
set_option maxRecDepth 100000 in
theorem C11_canonical_counterexample : ¬ C11_canonical_statement := by
  intro h
  have h1 := h {} (.int 64) [0x82, 43, 53] (.i 5) (by rfl)
  have h2 : encodeBytes {} (.int 64) [] (.i 5) = .ok [53] := by rfl
  rw [h2] at h1
  simp at h1

/-- the encoder is partial on nil pointers to types with their own EncodeSER (it dereferences the nil receiver) -/
theorem encode_nil_custom_panics (env : Env) (a : Bool) (t : Ty) :
    encodeBytes env (.cptr a t) [] .nil = .error .panic := by
  simp [encodeBytes, encV]

/-! ### the round trip: false in general (a real defect of the [1]byte decoder), proved for the first-order fragment -/

/-! `struct{A [1]byte; B uint64}{A:{0},B:7}` encodes to c2 00 07; decodeByteArray stores the 0x00 but, ignoring the error of
    s.Uint(), does not consume it, so B reads 0x00 and fails with ErrCanonInt.  Replayed on the real code:
    EncodeToBytes = c20007, DecodeBytes = "rlp: non-canonical integer (leading zero bytes) for uint64".  No registered type
    contains a [1]byte (the reflection walk of the harness would report it in its descriptors). -/
set_option maxRecDepth 100000 in
theorem C11_roundtrip_counterexample : ¬ C11_roundtrip_statement := by
  intro h
  obtain ⟨v', hd, _⟩ := h {} (.struct [.bytearr 1, .uint 64]) (.list [.bytes [0], .u 7]) [0xC2, 0x00, 0x07] (by rfl)
  have : decodeBytes {} (.struct [.bytearr 1, .uint 64]) false [0xC2, 0x00, 0x07] = .error .canonInt := by rfl
  rw [this] at hd
  cases hd

/-- layer-2 round trip, stream form (`decV_encV`): for the fragment `Frag` (uint, bool, bytes, string, byte arrays,
    big integers, structs of those, nested), whatever the encoder writes, the decoder - positioned anywhere, inside any
    open lists that leave room, followed by any tail - reads back exactly, consuming exactly those bytes.  Decoder fuel
    ≥ encoder fuel suffices (so fuel is never the reason for a failure on encoder output). -/
theorem decV_encV (env : Env) (f g : Nat) (t : Ty) (v : Val) (b : Bytes) (hf : Frag t v) (he : encV env f t v = .ok b)
    (hb : b.length < 2 ^ 64) (hg : f ≤ g) : RT env g t v b :=
  (rt_frag env f t v b hf he hb g hg).1

/-- layer-2 round trip, entry-point form: DecodeBytes (EncodeToBytes v) = v on the fragment.  `hfuel`: the encoder succeeds
    with the fuel the decoder is given (2·|b|+200; automatic for types nested less than 200 deep). -/
theorem C11_roundtrip_fragment (env : Env) (t : Ty) (v : Val) (b : Bytes) (hf : Frag t v)
    (hfuel : encV env (2 * b.length + 200) t v = .ok b) (hb : b.length < 2 ^ 64) :
    decodeBytes env t false b = .ok v := by
  have hrt := decV_encV env _ (2 * b.length + 200) t v b hf hfuel hb (Nat.le_refl _)
  obtain ⟨s', hd, hk, hr, hs⟩ := hrt { rest := b } [] rfl (by simp) (by simp [Room])
  unfold decodeBytes
  simp only [Bool.false_eq_true, if_false, hd, hr, List.isEmpty_nil, if_true]

/-- canonicity of encoder output at layer 2 (fragment): decoding it and encoding the result gives the same bytes -/
theorem C11_reencode_fragment (env : Env) (t : Ty) (v : Val) (b : Bytes) (hf : Frag t v)
    (hfuel : encV env (2 * b.length + 200) t v = .ok b) (hb : b.length < 2 ^ 64) (f : Nat) (he : encV env f t v = .ok b) :
    ∃ v', decodeBytes env t false b = .ok v' ∧ encV env f t v' = .ok b :=
  ⟨v, C11_roundtrip_fragment env t v b hf hfuel hb, he⟩

/-! non-vacuity: a nested struct of the fragment, its bytes, and the theorem applied to it -/
example : decodeBytes {} (.struct [.uint 64, .struct [.bytes, .bool], .bigptr]) false [0xC6, 0x05, 0xC3, 0x81, 0xAA, 0x01, 0x80]
    = .ok (.list [.u 5, .list [.bytes [0xAA], .b true], .ptr (.big false 0)]) :=
  C11_roundtrip_fragment {} _ _ _
    (.struct _ _ (.cons _ _ _ _ (.uint 64 5 (by decide) (by decide))
      (.cons _ _ _ _ (.struct _ _ (.cons _ _ _ _ (.bytes _) (.cons _ _ _ _ (.bool true) .nil)))
        (.cons _ _ _ _ (.bigptr 0) .nil))))
    (by rfl) (by decide)

/-- layer-2 round trip, extended fragment `FragN` (adds hex-ASCII ints, time.Time, slices, named types, custom encoders,
    pointers and the nil-*big.Int convention): the decoder reads back `v'`, the value `FragN` relates to `v`
    (`v' = v` except nil *big.Int ↦ 0), consuming exactly the encoder's bytes, wherever the value sits -/
theorem decV_encV_N (env : Env) (f g : Nat) (t : Ty) (v v' : Val) (b : Bytes) (hf : FragN env t v v') (he : encV env f t v = .ok b)
    (hb : b.length < 2 ^ 64) (hg : f ≤ g) : RT env g t v' b :=
  (rt_fragN env f t v v' b hf he hb g hg).1

theorem C11_roundtrip_fragmentN (env : Env) (t : Ty) (v v' : Val) (b : Bytes) (hf : FragN env t v v')
    (hfuel : encV env (2 * b.length + 200) t v = .ok b) (hb : b.length < 2 ^ 64) :
    decodeBytes env t false b = .ok v' := by
  have hrt := decV_encV_N env _ (2 * b.length + 200) t v v' b hf hfuel hb (Nat.le_refl _)
  obtain ⟨s', hd, hk, hr, hs⟩ := hrt { rest := b } [] rfl (by simp) (by simp [Room])
  unfold decodeBytes
  simp only [Bool.false_eq_true, if_false, hd, hr, List.isEmpty_nil, if_true]

/-! non-vacuity: a PartSetHeader-shaped value {Total int, Hash []byte} and a slice of uints through a named type -/
example : decodeBytes { defs := [(5, .struct [.int 64, .bytes])] } (.ref 5) false [0xC6, 0x82, 45, 51, 0x82, 0xAA, 0xBB]
    = .ok (.list [.i (-3), .bytes [0xAA, 0xBB]]) :=
  C11_roundtrip_fragmentN _ _ _ _ _
    (.ref 5 _ _ _ rfl (.struct _ _ _ (.cons _ _ _ _ _ _ (.int 64 (-3) (by decide) (by decide) (by decide) (by decide) (by decide))
      (.cons _ _ _ _ _ _ (.bytes _) .nil))))
    (by rfl) (by decide)
example : decodeBytes {} (.slice (.uint 64)) false [0xC2, 0x05, 0x07] = .ok (.list [.u 5, .u 7]) :=
  C11_roundtrip_fragmentN _ _ _ _ _
    (.slice _ _ _ (.cons _ _ _ _ _ (.uint 64 5 (by decide) (by decide)) (.cons _ _ _ _ _ (.uint 64 7 (by decide) (by decide)) (.nil _))))
    (by rfl) (by decide)

/-! ### clauses that hold -/

/-- safe on arbitrary input, clause "never crashes": for every type universe, registry, type, entry point and byte string
    the decoder's outcome is a value or an error other than `panic` (after fixes 8c7e349 and 2f1154b; before 2f1154b a
    registered prefix of a non-implementing type reached `rv.Set` and panicked) -/
theorem C11_no_panic : C11_no_panic_statement := by
  intro env t pre b
  have g0 : Good ({ rest := b } : Stream) := by simp [Good]
  unfold decodeBytes
  simp only
  cases pre with
  | false =>
    simp only [Bool.false_eq_true, if_false]
    have hd := decV_np env (2 * b.length + 200) t { rest := b } g0
    split
    · next heq => rw [heq] at hd; intro hc; injection hc with hc; exact hd.1 (by rw [hc])
    · split <;> simp
  | true =>
    simp only [if_true]
    have hn := readN_np 7 { rest := b } g0
    rcases hrn : readN 7 ({ rest := b } : Stream) with ⟨r, s'⟩
    rw [hrn] at hn
    cases r with
    | error e =>
      simp only
      intro hc; injection hc with hc
      exact hn.1 e rfl hc
    | ok v =>
      simp only
      have hd := decV_np env (2 * b.length + 200) t s' hn.2
      split
      · next heq2 => rw [heq2] at hd; intro hc; injection hc with hc; exact hd.1 (by rw [hc])
      · split <;> simp

/-! non-vacuity: the former panic witness (a registered prefix whose type is not assignable to the interface) is now an
    error; a truncated input is an error; the theorem is about a decoder that does accept inputs (examples below) -/
set_option maxRecDepth 100000 in
example : decodeBytes { regs := [{ idx := 0, disfix := [1, 2, 3, 4, 5, 6, 7], ptr := true, ty := none }] } (.iface []) false
    [1, 2, 3, 4, 5, 6, 7] = .error .unknownPrefix := by rfl
set_option maxRecDepth 100000 in
example : decodeBytes {} (.struct [.uint 64, .uint 64]) false [0xC1, 0x05] = .error .tooFew := by rfl

/-- decoding is total: a value or an error -/
theorem decodeBytes_total (env : Env) (t : Ty) (pre : Bool) (b : Bytes) :
    (∃ v, decodeBytes env t pre b = .ok v) ∨ (∃ e, decodeBytes env t pre b = .error e) := by
  cases h : decodeBytes env t pre b with
  | error e => exact Or.inr ⟨e, rfl⟩
  | ok v => exact Or.inl ⟨v, rfl⟩

/-- unsigned integers are written as the RLP string of their minimal big-endian bytes (layer 2 reuses layer 1) -/
theorem encV_uint (env : Env) (bits n : Nat) : encodeBytes env (.uint bits) [] (.u n) = .ok (enc (.str (beBytes n))) := by
  simp [encodeBytes, encV, enc]

theorem encV_bytes (env : Env) (bs : Bytes) : encodeBytes env .bytes [] (.bytes bs) = .ok (enc (.str bs)) := by
  simp [encodeBytes, encV, enc]

/-! concrete round trips through the Stream model, by evaluation -/
set_option maxRecDepth 100000 in
example : decodeBytes {} (.uint 64) false (encStr (beBytes 1024)) = .ok (.u 1024) := by rfl
set_option maxRecDepth 100000 in
example : decodeBytes {} (.struct [.uint 64, .int 64, .bytes, .ptr (.bytearr 2)]) false
    [0xC8, 0x05, 0x82, 45, 49, 0x82, 0xAA, 0xBB, 0x80] = .ok (.list [.u 5, .i (-1), .bytes [0xAA, 0xBB], .nil]) := by rfl
set_option maxRecDepth 100000 in
example : encodeBytes {} (.struct [.uint 64, .int 64, .bytes, .ptr (.bytearr 2)]) [] (.list [.u 5, .i (-1), .bytes [0xAA, 0xBB], .nil])
    = .ok [0xC8, 0x05, 0x82, 45, 49, 0x82, 0xAA, 0xBB, 0x80] := by rfl
/-! the leniency of decodeCDCInterface: the inner decoder fails (truncated struct) and the half-built object is returned
    with no error -/
set_option maxRecDepth 100000 in
example : decodeBytes { regs := [{ idx := 0, disfix := [1, 2, 3, 4, 5, 6, 7], ptr := true, ty := some 0 }],
                        defs := [(0, .struct [.uint 64, .uint 64])] } (.iface [0]) false
    [1, 2, 3, 4, 5, 6, 7, 0xC1, 0x05] = .ok (.iface 0 (.list [.u 5, .u 0])) := by rfl

end Props.C11
