/-
C11 — wire and storage encoding is canonical, lossless, and safe on arbitrary input.

Layer 1 (RLP framing): fully proved in Props/C11Rlp.lean
  dec_enc, enc_dec_canonical, decExact_canonical, enc_injective, enc_prefix_free, dec_total, alloc_bound, dec_progress.
Layer 2 (libs/ser conventions, Model/Ser.lean): this file.  The full statements are kept as `def … : Prop`;
  what is proved here is named `…_partial` or is a clause that holds outright.
-/
import LinkVerif.Model.Ser
import LinkVerif.Props.C11Rlp

namespace Props.C11
open Model.Rlp Model.Ser

/-! ### full statements of layer 2 (open unless a theorem of the same name follows) -/

/-- the equality the code provides after a round trip: re-encoding equality (nil/empty and nil/zero conventions are
    exactly the values with equal encodings) -/
def Equiv (env : Env) (t : Ty) (v v' : Val) : Prop := encV env 1000 t v = encV env 1000 t v'

/-- lossless: whatever the encoder accepts, the decoder accepts, with nothing left over, and returns an equivalent value -/
def C11_roundtrip_statement : Prop :=
  ∀ (env : Env) (t : Ty) (v : Val) (b : Bytes), encodeBytes env t [] v = .ok b →
    ∃ v', decodeBytes env t false b = .ok v' ∧ Equiv env t v v'

/-- canonical: whatever the decoder accepts re-encodes to the very same bytes -/
def C11_canonical_statement : Prop :=
  ∀ (env : Env) (t : Ty) (b : Bytes) (v : Val), decodeBytes env t false b = .ok v → encodeBytes env t [] v = .ok b

/-- safe: no input makes a decoder panic -/
def C11_no_panic_statement : Prop :=
  ∀ (env : Env) (t : Ty) (pre : Bool) (b : Bytes), decodeBytes env t pre b ≠ .error .panic

/-! ### what is false of the code as it is, with kernel-checked witnesses -/

/-! ParseInt leniency: "+5" decodes as the int 5, which re-encodes as "5" -/
set_option maxRecDepth 100000 in
theorem C11_canonical_counterexample : ¬ C11_canonical_statement := by
  intro h
  have h1 := h {} (.int 64) [0x82, 43, 53] (.i 5) (by rfl)
  have h2 : encodeBytes {} (.int 64) [] (.i 5) = .ok [53] := by rfl
  rw [h2] at h1
  simp at h1

/-! a registered concrete type that does not implement the target interface: found by its prefix, then `rv.Set` panics.
    registry = {entry 0 with prefix 01..07, not assignable}; interface with no implementers; input = that prefix -/
set_option maxRecDepth 100000 in
theorem C11_no_panic_counterexample : ¬ C11_no_panic_statement := by
  intro h
  exact h { regs := [{ idx := 0, disfix := [1, 2, 3, 4, 5, 6, 7], ptr := true, ty := none }] } (.iface []) false
    [1, 2, 3, 4, 5, 6, 7] (by rfl)

/-- the encoder is partial on nil pointers to types with their own EncodeSER (it dereferences the nil receiver) -/
theorem encode_nil_custom_panics (env : Env) (a : Bool) (t : Ty) :
    encodeBytes env (.cptr a t) [] .nil = .error .panic := by
  simp [encodeBytes, encV]

/-! ### clauses that hold -/

/-- decoding is total: a value or an error (panic is one of the error classes of the model; see the counterexample
    above for the one way it is reached) -/
theorem decodeBytes_total (env : Env) (t : Ty) (pre : Bool) (b : Bytes) :
    (∃ v, decodeBytes env t pre b = .ok v) ∨ (∃ e, decodeBytes env t pre b = .error e) := by
  cases h : decodeBytes env t pre b with
  | error e => exact Or.inr ⟨e, rfl⟩
  | ok v => exact Or.inl ⟨v, rfl⟩

/-- unsigned integers are written as the RLP string of their minimal big-endian bytes (layer 2 reuses layer 1) -/
theorem encV_uint (env : Env) (bits n : Nat) : encodeBytes env (.uint bits) [] (.u n) = .ok (enc (.str (beBytes n))) := by
  simp [encodeBytes, encV, enc]

theorem encV_bytes (env : Env) (bs : Bytes) : encodeBytes env .bytes [] (.bytes bs) = .ok (enc (.str bs)) := by
  simp [encodeBytes, encV, enc]

/-! concrete round trips through the Stream model, by evaluation -/
set_option maxRecDepth 100000 in
example : decodeBytes {} (.uint 64) false (encStr (beBytes 1024)) = .ok (.u 1024) := by rfl
set_option maxRecDepth 100000 in
example : decodeBytes {} (.struct [.uint 64, .int 64, .bytes, .ptr (.bytearr 2)]) false
    [0xC8, 0x05, 0x82, 45, 49, 0x82, 0xAA, 0xBB, 0x80] = .ok (.list [.u 5, .i (-1), .bytes [0xAA, 0xBB], .nil]) := by rfl
set_option maxRecDepth 100000 in
example : encodeBytes {} (.struct [.uint 64, .int 64, .bytes, .ptr (.bytearr 2)]) [] (.list [.u 5, .i (-1), .bytes [0xAA, 0xBB], .nil])
    = .ok [0xC8, 0x05, 0x82, 45, 49, 0x82, 0xAA, 0xBB, 0x80] := by rfl
/-! the leniency of decodeCDCInterface: the inner decoder fails (truncated struct) and the half-built object is returned
    with no error -/
set_option maxRecDepth 100000 in
example : decodeBytes { regs := [{ idx := 0, disfix := [1, 2, 3, 4, 5, 6, 7], ptr := true, ty := some 0 }],
                        defs := [(0, .struct [.uint 64, .uint 64])] } (.iface [0]) false
    [1, 2, 3, 4, 5, 6, 7, 0xC1, 0x05] = .ok (.iface 0 (.list [.u 5, .u 0])) := by rfl

end Props.C11
