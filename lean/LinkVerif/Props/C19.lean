/-
C19 — All storage backends implement the same ordered map with atomic batches.

What is proved here is the repository's own logic (`libs/db`): the reference ordered map, `MemDB`,
`memBatch`, the leaf functions and `PrefixDB`/`IteratePrefix`.  LevelDB, Bolt and Badger are external
libraries: they are tied to the reference ONLY by the correspondence run (`bin/check C19`).

  C19Order : `bytes.Compare` is a strict total order; `IsKeyInDomain` = the documented ranges;
             `prefix_range_statement` (keys with prefix p = [p, cpIncr p)) is FALSE of the code
             (`prefix_range_counterexample`, finding cpincr-prefix-overrun); true for `PrefixToEnd`
             (`prefix_range_prefixToEnd`) and for prefixes not ending in 0xff (`prefix_range_partial`).
  C19Ref   : reference laws (`Ref.get_set`, `Ref.get_del`, sortedness, `Ref.iter_spec`, `Ref.riter_spec`),
             `batch_atomic_ordered`, `reset_abandons`, `memdb_iter_spec`, `memdb_riter_spec`,
             `memdb_refines_ref` (any op sequence, by simulation).
  here     : prefixed views.
-/
import LinkVerif.Model.KV
import LinkVerif.Props.C19Order
import LinkVerif.Props.C19Ref

namespace Props.C19
open Model.KV

/-! ## prefixed views -/

theorem get_append_restrict (p : Bytes) (m : Ref) (k : Bytes) :
    Ref.get m (p ++ k) = Ref.get (restrict p m) k := by
  induction m with
  | nil => rfl
  | cons x rest ih =>
    obtain ⟨k0, v0⟩ := x
    unfold restrict at ih ⊢
    simp only [Ref.get, List.filter]
    by_cases hp : hasPrefix p k0 = true
    · obtain ⟨t, rfl⟩ := (hasPrefix_iff p k0).mp hp
      simp only [hp, List.map_cons, strip, List.drop_left, Ref.get, ih]
      by_cases ht : t = k
      · subst ht; simp
      · have h1 : (p ++ t == p ++ k) = false := by simp [ht]
        have h2 : (t == k) = false := by simp [ht]
        simp [h1, h2]
    · have hne : (k0 == p ++ k) = false := by
        have : k0 ≠ p ++ k := by
          intro e; subst e
          exact hp ((hasPrefix_iff p _).mpr ⟨k, rfl⟩)
        simp [this]
      simp only [hne, Bool.false_eq_true, if_false]
      have hp' : hasPrefix p k0 = false := by simpa using hp
      simp only [hp']
      exact ih

/-- PREFIXDB REFINES (lookups and writes): a view answers `Get`/`Has` like the reference restricted to the
prefix with the prefix stripped, before and after any write or delete THROUGH the view, and writes through the
view never touch keys outside the prefix -/
theorem prefixdb_lookup_refines (p : Bytes) (m : Ref) (k : Bytes) :
    (pfxI refI p).get m k = Ref.get (restrict p m) k := get_append_restrict p m k

theorem prefixdb_set_refines (p : Bytes) (m : Ref) (k v k' : Bytes) :
    Ref.get (restrict p ((pfxI refI p).set m k v)) k' = Ref.get (Ref.set (restrict p m) k v) k' := by
  show Ref.get (restrict p (Ref.set m (p ++ k) v)) k' = _
  rw [← get_append_restrict, Ref.get_set, Ref.get_set, ← get_append_restrict]
  by_cases h : k = k'
  · simp [h]
  · have : ¬ (p ++ k = p ++ k') := by simpa using h
    simp [h, this]

theorem prefixdb_del_refines (p : Bytes) (m : Ref) (k k' : Bytes) :
    Ref.get (restrict p ((pfxI refI p).del m k)) k' = Ref.get (Ref.del (restrict p m) k) k' := by
  show Ref.get (restrict p (Ref.del m (p ++ k))) k' = _
  rw [← get_append_restrict, Ref.get_del, Ref.get_del, ← get_append_restrict]
  by_cases h : k = k'
  · simp [h]
  · have : ¬ (p ++ k = p ++ k') := by simpa using h
    simp [h, this]

/-- a write through the view leaves every key outside the prefix alone -/
theorem prefixdb_isolated (p : Bytes) (m : Ref) (k v k' : Bytes) (h : hasPrefix p k' = false) :
    Ref.get ((pfxI refI p).set m k v) k' = Ref.get m k' ∧ Ref.get ((pfxI refI p).del m k) k' = Ref.get m k' := by
  have hne : ¬ (p ++ k = k') := by
    intro e; subst e
    have := (hasPrefix_iff p (p ++ k)).mpr ⟨k, rfl⟩
    rw [h] at this; cases this
  constructor
  · show Ref.get (Ref.set m (p ++ k) v) k' = _
    rw [Ref.get_set]; simp [hne]
  · show Ref.get (Ref.del m (p ++ k)) k' = _
    rw [Ref.get_del]; simp [hne]

/-- FULL STATEMENT (iteration): every iteration of a view equals the iteration of the restricted, stripped
reference with the same bounds -/
def prefixdb_refines_statement : Prop :=
  ∀ (p : Bytes) (m : Ref) (s e : Bound), p ≠ [] → Sorted m →
    pfxIter refI m p s e = some (Ref.iter (restrict p m) s e) ∧
    pfxRIter refI m p s e = some (Ref.riter (restrict p m) s e)

/-- FALSE of the current code (finding cpincr-prefix-overrun): prefix 66ff, store {66ff01, 67}: the reverse
iterator of the view starts at cpIncr(66ff) = 6700, meets key 67 first (no prefix) and ends at once, although
the view contains key 01 -/
theorem prefixdb_refines_counterexample : ¬ prefixdb_refines_statement := by
  intro h
  have := (h [0x66, 0xff] [([0x66, 0xff, 0x01], [0x01]), ([0x67], [0x02])] none none (by decide) (by unfold Sorted; decide)).2
  revert this
  decide

/-- the same store seen through `IteratePrefix`: key 67 is listed under prefix 66ff -/
theorem iteratePrefix_overrun :
    iteratePrefix refI [([0x66, 0xff], [0x01]), ([0x67], [0x02])] [0x66, 0xff] = [([0x66, 0xff], [0x01]), ([0x67], [0x02])] := by
  decide

/-- ... while the adapters' `NewIteratorWithPrefix` (built on `PrefixToEnd`) is right on it -/
example : prefixIter refI [([0x66, 0xff], [0x01]), ([0x67], [0x02])] (some [0x66, 0xff]) = [([0x66, 0xff], [0x01])] := by decide

/-- PARTIAL: bound translation of the forward iterator (what `ptrans` ties to the code): the underlying range
is `[p ++ start, p ++ end)` resp. `[p ++ start, cpIncr p)`, and order under a common prefix is the order of the
remainders, so a key `p ++ k` is in the translated range iff `k` is in the requested one (given bound) -/
theorem pfx_fwd_bounds_exact (p k : Bytes) (s : Bound) (e : Bytes) :
    (pfxBoundsFwd p s (some e)).map (fun (ps, pe) => inFwd (p ++ k) ps pe) = some (inFwd k s (some e)) := by
  simp only [pfxBoundsFwd, Option.map_some, inFwd, bval, Option.getD_some, ble, blt_append_left]

example : pfxIter refI [([0x61, 0x01], [0x01]), ([0x61, 0x02], [0x02]), ([0x62], [0x03])] [0x61] none none
    = some [([0x01], [0x01]), ([0x02], [0x02])] := by decide
example : pfxRIter refI [([0x61, 0x01], [0x01]), ([0x61, 0x02], [0x02]), ([0x62], [0x03])] [0x61] none none
    = some [([0x02], [0x02]), ([0x01], [0x01])] := by decide
/-- an empty prefix panics on a nil end bound (`cpIncr` contract), as the code does -/
example : pfxIter refI [] [] none none = none := by decide

end Props.C19
