/-
C19 — All storage backends implement the same ordered map with atomic batches.

What is proved here is the repository's own logic (`libs/db`): the reference ordered map, `MemDB`,
`memBatch`, the leaf functions and `PrefixDB`/`IteratePrefix`.  LevelDB, Bolt and Badger are external
libraries: they are tied to the reference ONLY by the correspondence run (`bin/check C19`).

  C19Order : `bytes.Compare` is a strict total order; `IsKeyInDomain` = the documented ranges;
             `prefix_range` (keys with prefix p = [p, PrefixToEnd p), every prefix); `cpDecr_lt`.
  C19Ref   : reference laws (`Ref.get_set`, `Ref.get_del`, sortedness, `Ref.iter_spec`, `Ref.riter_spec`),
             `batch_atomic_ordered`, `reset_abandons`, `memdb_iter_spec`, `memdb_riter_spec`,
             `memdb_refines_ref` (any op sequence, by simulation).
  here     : prefixed views (`prefixdb_refines`: lookups, writes, forward and reverse iteration),
             `IteratePrefix`/`NewIteratorWithPrefix`, and `backends_agree` for the four backend models.
All five findings of the first round (cpIncr overrun, goleveldb Load/Exist, badger empty reverse start, sharded
duplicates, badger batch reuse) are repaired in the repository; their counterexample theorems are gone and the
full statements are proved.
-/
import LinkVerif.Model.KV
import LinkVerif.Props.C19Order
import LinkVerif.Props.C19Ref

namespace Props.C19
open Model.KV

/-! ## prefixed views -/

theorem get_append_restrict (p : Bytes) (m : Ref) (k : Bytes) :
    Ref.get m (p ++ k) = Ref.get (restrict p m) k := by
  induction m with
  | nil => rfl
  | cons x rest ih =>
    obtain ⟨k0, v0⟩ := x
    unfold restrict at ih ⊢
    simp only [Ref.get, List.filter]
    by_cases hp : hasPrefix p k0 = true
    · obtain ⟨t, rfl⟩ := (hasPrefix_iff p k0).mp hp
      simp only [hp, List.map_cons, strip, List.drop_left, Ref.get, ih]
      by_cases ht : t = k
      · subst ht; simp
      · have h1 : (p ++ t == p ++ k) = false := by simp [ht]
        have h2 : (t == k) = false := by simp [ht]
        simp [h1, h2]
    · have hne : (k0 == p ++ k) = false := by
        have : k0 ≠ p ++ k := by
          intro e; subst e
          exact hp ((hasPrefix_iff p _).mpr ⟨k, rfl⟩)
        simp [this]
      simp only [hne, Bool.false_eq_true, if_false]
      have hp' : hasPrefix p k0 = false := by simpa using hp
      simp only [hp']
      exact ih

/-- PREFIXDB REFINES (lookups and writes): a view answers `Get`/`Has` like the reference restricted to the
prefix with the prefix stripped, before and after any write or delete THROUGH the view, and writes through the
view never touch keys outside the prefix -/
theorem prefixdb_lookup_refines (p : Bytes) (m : Ref) (k : Bytes) :
    (pfxI refI p).get m k = Ref.get (restrict p m) k := get_append_restrict p m k

theorem prefixdb_set_refines (p : Bytes) (m : Ref) (k v k' : Bytes) :
    Ref.get (restrict p ((pfxI refI p).set m k v)) k' = Ref.get (Ref.set (restrict p m) k v) k' := by
  show Ref.get (restrict p (Ref.set m (p ++ k) v)) k' = _
  rw [← get_append_restrict, Ref.get_set, Ref.get_set, ← get_append_restrict]
  by_cases h : k = k'
  · simp [h]
  · have : ¬ (p ++ k = p ++ k') := by simpa using h
    simp [h, this]

theorem prefixdb_del_refines (p : Bytes) (m : Ref) (k k' : Bytes) :
    Ref.get (restrict p ((pfxI refI p).del m k)) k' = Ref.get (Ref.del (restrict p m) k) k' := by
  show Ref.get (restrict p (Ref.del m (p ++ k))) k' = _
  rw [← get_append_restrict, Ref.get_del, Ref.get_del, ← get_append_restrict]
  by_cases h : k = k'
  · simp [h]
  · have : ¬ (p ++ k = p ++ k') := by simpa using h
    simp [h, this]

/-- a write through the view leaves every key outside the prefix alone -/
theorem prefixdb_isolated (p : Bytes) (m : Ref) (k v k' : Bytes) (h : hasPrefix p k' = false) :
    Ref.get ((pfxI refI p).set m k v) k' = Ref.get m k' ∧ Ref.get ((pfxI refI p).del m k) k' = Ref.get m k' := by
  have hne : ¬ (p ++ k = k') := by
    intro e; subst e
    have := (hasPrefix_iff p (p ++ k)).mpr ⟨k, rfl⟩
    rw [h] at this; cases this
  constructor
  · show Ref.get (Ref.set m (p ++ k) v) k' = _
    rw [Ref.get_set]; simp [hne]
  · show Ref.get (Ref.del m (p ++ k)) k' = _
    rw [Ref.get_del]; simp [hne]

/-! ### iteration through a view -/

theorem prefixed_lt_end {p k u : Bytes} (hp : hasPrefix p k = true) (hu : prefixToEnd p = some u) : blt k u = true := by
  have h := (prefix_range_prefixToEnd p k).mp hp
  rw [hu] at h
  exact h.2

theorem end_no_prefix {p u : Bytes} (hu : prefixToEnd p = some u) : hasPrefix p u = false := by
  cases h : hasPrefix p u with
  | false => rfl
  | true => have := prefixed_lt_end h hu; rw [blt_irrefl] at this; cases this

/-- a key at or above `p` without the prefix lies at or above `PrefixToEnd p` -/
theorem no_prefix_ge {p k : Bytes} (hle : ble p k = true) (hnp : hasPrefix p k = false) :
    ∃ u, prefixToEnd p = some u ∧ ble u k = true := by
  have h := prefix_range_prefixToEnd p k
  cases hu : prefixToEnd p with
  | none =>
    rw [hu] at h
    have := h.mpr ⟨hle, trivial⟩
    rw [hnp] at this; cases this
  | some u =>
    refine ⟨u, rfl, ?_⟩
    rw [hu] at h
    unfold ble
    cases hb : blt k u with
    | false => rfl
    | true => have := h.mpr ⟨hle, hb⟩; rw [hnp] at this; cases this

theorem ble_append_left (p a b : Bytes) : ble (p ++ a) (p ++ b) = ble a b := by
  unfold ble; rw [blt_append_left]

theorem prefix_ble {p k : Bytes} (hp : hasPrefix p k = true) : ble p k = true :=
  ((prefix_range_prefixToEnd p k).mp hp).1

/-- the forward bound translation is exact: a store key is in the translated range iff it carries the prefix and its
remainder is in the requested range -/
theorem inFwd_pfx (p k : Bytes) (s e : Bound) :
    inFwd k (pfxBoundsFwd p s e).1 (pfxBoundsFwd p s e).2 = (hasPrefix p k && inFwd (k.drop p.length) s e) := by
  cases hp : hasPrefix p k with
  | true =>
    obtain ⟨t, rfl⟩ := (hasPrefix_iff p k).mp hp
    simp only [Bool.true_and, List.drop_left, pfxBoundsFwd, inFwd, bval, Option.getD_some, ble_append_left]
    cases e with
    | some e' => simp only [blt_append_left]
    | none =>
      cases hu : prefixToEnd p with
      | none => rfl
      | some u => simp only [prefixed_lt_end hp hu]
  | false =>
    simp only [Bool.false_and]
    cases hL : inFwd k (pfxBoundsFwd p s e).1 (pfxBoundsFwd p s e).2 with
    | false => rfl
    | true =>
      exfalso
      simp only [pfxBoundsFwd, inFwd, bval, Option.getD_some, Bool.and_eq_true] at hL
      have hle : ble p k = true := ble_trans (ble_append_right p _) hL.1
      obtain ⟨u, hu, huk⟩ := no_prefix_ge hle hp
      have hlt : blt k u = true := by
        cases e with
        | none => have := hL.2; simp only [hu] at this; exact this
        | some e' =>
          have h1 : blt k (p ++ e') = true := hL.2
          exact blt_trans h1 (prefixed_lt_end ((hasPrefix_iff p _).mpr ⟨e', rfl⟩) hu)
      unfold ble at huk
      rw [hlt] at huk; cases huk

theorem takeWhile_all {α : Type} (P : α → Bool) (l : List α) (h : ∀ x ∈ l, P x = true) : l.takeWhile P = l := by
  induction l with
  | nil => rfl
  | cons x xs ih =>
    rw [List.takeWhile_cons, h x List.mem_cons_self]
    simp only [if_true]
    rw [ih (fun y hy => h y (List.mem_cons_of_mem _ hy))]

/-- PREFIXDB REFINES (forward iteration): `PrefixDB(p).Iterator(s, e)` over ANY store content and ANY prefix yields
exactly the iteration of the reference restricted to the prefix, prefix stripped, with the same bounds -/
theorem prefixdb_iter_refines (p : Bytes) (m : Ref) (s e : Bound) :
    pfxIter refI m p s e = Ref.iter (restrict p m) s e := by
  show (List.takeWhile (fun kv => hasPrefix p kv.1)
        (m.filter (fun kv => inFwd kv.1 (pfxBoundsFwd p s e).1 (pfxBoundsFwd p s e).2))).map (strip p)
      = ((m.filter (fun kv => hasPrefix p kv.1)).map (strip p)).filter (fun kv => inFwd kv.1 s e)
  rw [takeWhile_all]
  · rw [List.filter_map, List.filter_filter]
    congr 1
    apply List.filter_congr
    intro kv _
    simp only [Function.comp, strip, inFwd_pfx, Bool.and_comm]
  · intro kv hkv
    have := (List.mem_filter.mp hkv).2
    rw [inFwd_pfx] at this
    exact (Bool.and_eq_true _ _ ▸ this).1

/-- `NewIteratorWithPrefix` of a view is the view's iterator on `[q, PrefixToEnd q)` -/
theorem prefixdb_prefixIter_refines (p : Bytes) (m : Ref) (q : Bound) :
    pfxPrefixIter refI m p q = prefixIter refI (restrict p m) q := prefixdb_iter_refines p m q _

/-! reverse -/

/-- the bounds `PrefixDB.ReverseIterator` hands down -/
def revStartB (p : Bytes) (s : Bound) : Bound := match s with | none => prefixToEnd p | some s' => some (p ++ s')
def revEndB (p : Bytes) (e : Bound) : Bound := match e with | none => cpDecrCore p | some e' => some (p ++ e')

theorem pfxBoundsRev_eq {p : Bytes} {s e : Bound} {ps pe : Bound} (h : pfxBoundsRev p s e = some (ps, pe)) :
    ps = revStartB p s ∧ pe = revEndB p e := by
  unfold pfxBoundsRev at h
  unfold revStartB revEndB
  cases e with
  | some e' => simp only [Option.some.injEq, Prod.mk.injEq] at h; exact ⟨h.1.symm, h.2.symm⟩
  | none =>
    simp only [cpDecr] at h
    cases hpe : p.isEmpty with
    | true => simp [hpe] at h
    | false =>
      simp only [hpe, Bool.false_eq_true, if_false, Option.map_some, Option.some.injEq, Prod.mk.injEq] at h
      exact ⟨h.1.symm, h.2.symm⟩

theorem inRev_split (k : Bytes) (a b : Bound) : inRev k a b = (inRev k a none && inRev k none b) := by
  unfold inRev
  cases a <;> cases b <;> simp

theorem revStart_pfx (p t : Bytes) (s : Bound) : inRev (p ++ t) (revStartB p s) none = inRev t s none := by
  have hpt : hasPrefix p (p ++ t) = true := (hasPrefix_iff p _).mpr ⟨t, rfl⟩
  unfold revStartB
  cases s with
  | some s' => simp only [inRev, ble_append_left]
  | none =>
    cases hu : prefixToEnd p with
    | none => rfl
    | some u => simp only [inRev, (ble_iff _ _).mpr (Or.inl (prefixed_lt_end hpt hu))]

theorem revEnd_pfx (p t : Bytes) (e : Bound) : inRev (p ++ t) none (revEndB p e) = inRev t none e := by
  unfold revEndB
  cases e with
  | some e' => simp only [inRev, blt_append_left]
  | none =>
    cases hd : cpDecrCore p with
    | none => rfl
    | some d => simp only [inRev, blt_of_blt_of_ble (cpDecr_lt hd) (ble_append_right p t)]

/-- the reverse bound translation is exact on keys that carry the prefix -/
theorem inRev_pfx {p : Bytes} (t : Bytes) (s e : Bound) {ps pe : Bound} (h : pfxBoundsRev p s e = some (ps, pe)) :
    inRev (p ++ t) ps pe = inRev t s e := by
  obtain ⟨h1, h2⟩ := pfxBoundsRev_eq h
  rw [h1, h2, inRev_split, revStart_pfx, revEnd_pfx, ← inRev_split]

/-- once a descending walk has left the prefix it never comes back: `takeWhile` = `filter` -/
theorem takeWhile_eq_filter_of_mono {α : Type} (P : α → Bool) (R : α → α → Prop) (l : List α) (hp : l.Pairwise R)
    (hm : ∀ a b, a ∈ l → b ∈ l → R a b → P b = true → P a = true) : l.takeWhile P = l.filter P := by
  induction l with
  | nil => rfl
  | cons x xs ih =>
    rw [List.pairwise_cons] at hp
    have ih' := ih hp.2 (fun a b ha hb => hm a b (List.mem_cons_of_mem _ ha) (List.mem_cons_of_mem _ hb))
    cases hx : P x with
    | true => simp [List.takeWhile_cons, List.filter_cons, hx, ih']
    | false =>
      have : xs.filter P = [] := by
        rw [List.filter_eq_nil_iff]
        intro y hy hPy
        have := hm x y List.mem_cons_self (List.mem_cons_of_mem _ hy) (hp.1 y hy) hPy
        rw [hx] at this; cases this
      simp [List.takeWhile_cons, List.filter_cons, hx, this]

def Desc (l : List KV) : Prop := l.Pairwise (fun a b => blt b.1 a.1 = true)

theorem skipOne_sublist (l : List KV) (sk : Bound) : (skipOne l sk).Sublist l := by
  cases l with
  | nil => exact List.Sublist.refl _
  | cons x xs =>
    simp only [skipOne]
    split
    · exact List.sublist_cons_self x xs
    · exact List.Sublist.refl _

/-- PREFIXDB REFINES (reverse iteration): for a non-empty prefix and a sorted store, `PrefixDB(p).ReverseIterator(s, e)`
yields exactly the reverse iteration of the restricted, stripped reference with the same bounds (the source starts
at `PrefixToEnd p`, that key is skipped, and the walk stops at the first key below the prefix) -/
theorem prefixdb_riter_refines (p : Bytes) (m : Ref) (s e : Bound) (hs : Sorted m) (hp : p ≠ []) :
    pfxRIter refI m p s e = some (Ref.riter (restrict p m) s e) := by
  obtain ⟨ps, pe, hb⟩ : ∃ ps pe, pfxBoundsRev p s e = some (ps, pe) := by
    unfold pfxBoundsRev cpDecr
    cases p with
    | nil => exact absurd rfl hp
    | cons x xs => cases e <;> simp
  have hps : ps = revStartB p s := (pfxBoundsRev_eq hb).1
  unfold pfxRIter
  rw [hb]
  simp only [Option.map_some, Option.some.injEq]
  -- the drained source
  let R : List KV := (m.filter (fun kv => inRev kv.1 ps pe)).reverse
  have hRdef : refI.riter m ps pe = R := rfl
  rw [hRdef]
  have hdesc : Desc R := by
    show List.Pairwise _ (List.reverse _)
    rw [List.pairwise_reverse]
    exact List.Pairwise.filter _ hs
  have hmemR : ∀ a ∈ R, inRev a.1 ps pe = true := by
    intro a ha
    have : a ∈ m.filter (fun kv => inRev kv.1 ps pe) := List.mem_reverse.mp ha
    exact (List.mem_filter.mp this).2
  -- the source after skipOne
  let R' : List KV := if s.isNone then skipOne R (prefixToEnd p) else R
  have hsub : R'.Sublist R := by
    show (if s.isNone then skipOne R (prefixToEnd p) else R).Sublist R
    split
    · exact skipOne_sublist _ _
    · exact List.Sublist.refl _
  have hdesc' : Desc R' := List.Pairwise.sublist hsub hdesc
  -- (F1) the skipped key carries no prefix
  have hF1 : R'.filter (fun kv => hasPrefix p kv.1) = R.filter (fun kv => hasPrefix p kv.1) := by
    show (if s.isNone then skipOne R (prefixToEnd p) else R).filter _ = _
    split
    · cases hR : R with
      | nil => rfl
      | cons x xs =>
        simp only [skipOne]
        split
        · rename_i heq
          have hx : x.1 = bval (prefixToEnd p) := by simpa using heq
          have hnp : hasPrefix p x.1 = false := by
            rw [hx]
            cases hu : prefixToEnd p with
            | some u => exact end_no_prefix hu
            | none =>
              cases p with
              | nil => exact absurd rfl hp
              | cons y ys => rfl
          simp [List.filter_cons, hnp]
        · rfl
    · rfl
  -- (F2) every remaining key is strictly below PrefixToEnd p
  have hF2 : ∀ a ∈ R', ∀ u, prefixToEnd p = some u → blt a.1 u = true := by
    intro a ha u hu
    cases s with
    | some s' =>
      have haR : a ∈ R := hsub.subset ha
      have h1 := hmemR a haR
      rw [hps] at h1
      simp only [revStartB, inRev, Bool.and_eq_true] at h1
      exact blt_of_ble_of_blt h1.1 (prefixed_lt_end ((hasPrefix_iff p _).mpr ⟨s', rfl⟩) hu)
    | none =>
      have hps' : ps = some u := by rw [hps]; exact hu
      have hle : ∀ b ∈ R, ble b.1 u = true := by
        intro b hb'
        have h1 := hmemR b hb'
        rw [hps'] at h1
        simp only [inRev, Bool.and_eq_true] at h1
        exact h1.1
      have hR' : R' = skipOne R (some u) := by
        show (if (none : Bound).isNone then skipOne R (prefixToEnd p) else R) = _
        simp [hu]
      rw [hR'] at ha
      cases hR : R with
      | nil => rw [hR] at ha; simp [skipOne] at ha
      | cons x xs =>
        rw [hR] at ha
        have hdx : Desc (x :: xs) := hR ▸ hdesc
        unfold Desc at hdx
        rw [List.pairwise_cons] at hdx
        have hxle : ble x.1 u = true := hle x (by rw [hR]; exact List.mem_cons_self)
        simp only [skipOne, bval, Option.getD_some] at ha
        by_cases heq : x.1 = u
        · have : (x.1 == u) = true := by simp [heq]
          simp only [this, if_true] at ha
          rw [← heq]; exact hdx.1 a ha
        · have : (x.1 == u) = false := by simp [heq]
          simp only [this, Bool.false_eq_true, if_false] at ha
          have hxlt : blt x.1 u = true := by
            rcases (ble_iff _ _).mp hxle with h | h
            · exact h
            · exact absurd h heq
          rcases List.mem_cons.mp ha with rfl | ha'
          · exact hxlt
          · exact blt_trans (hdx.1 a ha') hxlt
  -- takeWhile = filter on R'
  have hT : R'.takeWhile (fun kv => hasPrefix p kv.1) = R'.filter (fun kv => hasPrefix p kv.1) := by
    have hd'' : R'.Pairwise (fun a b => blt b.1 a.1 = true) := hdesc'
    apply takeWhile_eq_filter_of_mono _ (fun a b => blt b.1 a.1 = true) _ hd''
    intro a b ha _ hba hPb
    cases hPa : hasPrefix p a.1 with
    | true => rfl
    | false =>
      exfalso
      have hpa : ble p a.1 = true := ble_trans (prefix_ble hPb) ((ble_iff _ _).mpr (Or.inl hba))
      obtain ⟨u, hu, hua⟩ := no_prefix_ge hpa hPa
      have := hF2 a ha u hu
      unfold ble at hua
      rw [this] at hua; cases hua
  show prefixTake p R' = Ref.riter (restrict p m) s e
  unfold prefixTake
  rw [hT, hF1]
  show (List.filter (fun kv => hasPrefix p kv.1) (m.filter (fun kv => inRev kv.1 ps pe)).reverse).map (strip p)
      = (((m.filter (fun kv => hasPrefix p kv.1)).map (strip p)).filter (fun kv => inRev kv.1 s e)).reverse
  rw [List.filter_reverse, List.map_reverse, List.filter_map, List.filter_filter, List.filter_filter]
  congr 2
  apply List.filter_congr
  intro kv _
  cases hP : hasPrefix p kv.1 with
  | false => simp
  | true =>
    obtain ⟨t, ht⟩ := (hasPrefix_iff p kv.1).mp hP
    simp only [Function.comp, strip, ht, List.drop_left, inRev_pfx t s e hb, Bool.true_and, Bool.and_true]

/-- FULL STATEMENT (now proved): every operation of a view - lookups, writes, forward and reverse iteration with any
bounds - equals the same operation on the reference restricted to the prefix with the prefix stripped -/
def prefixdb_refines_statement : Prop :=
  ∀ (p : Bytes) (m : Ref) (s e : Bound) (k : Bytes), p ≠ [] → Sorted m →
    (pfxI refI p).get m k = Ref.get (restrict p m) k ∧
    pfxIter refI m p s e = Ref.iter (restrict p m) s e ∧
    pfxRIter refI m p s e = some (Ref.riter (restrict p m) s e)

theorem prefixdb_refines : prefixdb_refines_statement :=
  fun p m s e k hp hs => ⟨prefixdb_lookup_refines p m k, prefixdb_iter_refines p m s e, prefixdb_riter_refines p m s e hs hp⟩

/-! ### `IteratePrefix`, `NewIteratorWithPrefix` on a store -/

/-- `IteratePrefix(db, p)` lists exactly the entries whose key starts with `p` (every prefix, 0xff tails included) -/
theorem iteratePrefix_spec (m : Ref) (p : Bytes) : iteratePrefix refI m p = m.filter (fun kv => hasPrefix p kv.1) := by
  unfold iteratePrefix
  cases p with
  | nil =>
    show Ref.iter m none none = _
    unfold Ref.iter
    apply List.filter_congr
    intro kv _
    simp [inFwd, hasPrefix, bval, nil_ble]
  | cons x xs =>
    show Ref.iter m (some (x :: xs)) (prefixToEnd (x :: xs)) = _
    unfold Ref.iter
    apply List.filter_congr
    intro kv _
    have h := prefix_range_prefixToEnd (x :: xs) kv.1
    simp only [inFwd, bval, Option.getD_some]
    cases hP : hasPrefix (x :: xs) kv.1 with
    | true =>
      have := h.mp hP
      cases hu : prefixToEnd (x :: xs) with
      | none => simp [this.1]
      | some u => rw [hu] at this; simp [this.1, this.2]
    | false =>
      cases hL : (ble (x :: xs) kv.1 && match prefixToEnd (x :: xs) with | none => true | some e' => blt kv.1 e') with
      | false => rfl
      | true =>
        exfalso
        simp only [Bool.and_eq_true] at hL
        have : hasPrefix (x :: xs) kv.1 = true := by
          apply h.mpr
          refine ⟨hL.1, ?_⟩
          cases hu : prefixToEnd (x :: xs) with
          | none => trivial
          | some u => have := hL.2; rw [hu] at this; exact this
        rw [hP] at this; cases this

/-- the witness store of the repaired finding: key 67 is no longer listed under prefix 66ff -/
example : iteratePrefix refI [([0x66, 0xff], [0x01]), ([0x67], [0x02])] [0x66, 0xff] = [([0x66, 0xff], [0x01])] := by decide
example : pfxRIter refI [([0x66, 0xff, 0x01], [0x01]), ([0x67], [0x02])] [0x66, 0xff] none none = some [([0x01], [0x01])] := by decide
example : prefixIter refI [([0x66, 0xff], [0x01]), ([0x67], [0x02])] (some [0x66, 0xff]) = [([0x66, 0xff], [0x01])] := by decide
example : pfxIter refI [([0x61, 0x01], [0x01]), ([0x61, 0x02], [0x02]), ([0x62], [0x03])] [0x61] none none
    = [([0x01], [0x01]), ([0x02], [0x02])] := by decide
example : pfxRIter refI [([0x61, 0x01], [0x01]), ([0x61, 0x02], [0x02]), ([0x62], [0x03])] [0x61] none none
    = some [([0x02], [0x02]), ([0x01], [0x01])] := by decide
/-- an empty prefix still panics in `ReverseIterator(_, nil)` (`cpDecr` contract), forward iteration no longer does -/
example : pfxRIter refI [] [] none none = none ∧ pfxIter refI [([1], [1])] [] none none = [([1], [1])] := by decide

/-! ## all backend models agree -/

/-- badger's born-invalid reverse iterator IS the reference answer whenever the store holds no empty key
(badger cannot hold one: `Set` of an empty key is ignored) -/
theorem bdg_riter_eq_ref {m : Ref} (hs : Sorted m) (h0 : Ref.get m [] = none) (s e : Bound) :
    bdgI.riter m s e = Ref.riter m s e := by
  show (match s with | some [] => [] | _ => Ref.riter m s e) = Ref.riter m s e
  split
  · symm
    unfold Ref.riter
    rw [List.reverse_eq_nil_iff, List.filter_eq_nil_iff]
    intro kv hkv hin
    simp only [inRev, Bool.and_eq_true] at hin
    have hk : kv.1 = [] := by
      rcases (ble_iff _ _).mp hin.1 with h | h
      · rw [blt_nil_right] at h; cases h
      · exact h
    have : Ref.get m kv.1 = some kv.2 := Ref.get_of_mem hs hkv
    rw [hk, h0] at this; cases this
  · rfl

/-- an op that never writes the empty key (bolt and badger reject it: generator exclusion) -/
def Op.noEmptyKey : Op → Prop
  | .set k _ => k ≠ []
  | .write b => ∀ op ∈ b, match op with | .set k _ => k ≠ [] | .del _ => True
  | _ => True

theorem batchEffect_noEmpty (b : List BOp)
    (hb : ∀ op ∈ b, match op with | .set k _ => k ≠ [] | .del _ => True) : batchEffect b [] none = none := by
  unfold batchEffect
  induction b with
  | nil => rfl
  | cons o os ih =>
    simp only [List.foldl_cons]
    have ho := hb o List.mem_cons_self
    have hos : ∀ op ∈ os, match op with | .set k _ => k ≠ [] | .del _ => True :=
      fun op h => hb op (List.mem_cons_of_mem _ h)
    cases o with
    | set k v =>
      have hk : k ≠ [] := ho
      simp only [hk, if_false]; exact ih hos
    | del k => by_cases hk : k = [] <;> simp only [hk, if_true, if_false] <;> exact ih hos

theorem bdg_run_eq_ref {m : Ref} (hs : Sorted m) (h0 : Ref.get m [] = none) (ops : List Op)
    (hops : ∀ op ∈ ops, op.noEmptyKey) : runI bdgI m ops = runI refI m ops := by
  induction ops generalizing m with
  | nil => rfl
  | cons op rest ih =>
    have hrest : ∀ o ∈ rest, o.noEmptyKey := fun o ho => hops o (List.mem_cons_of_mem _ ho)
    have hop := hops op List.mem_cons_self
    cases op with
    | set k v =>
      show Out.unit :: runI bdgI (Ref.set m k v) rest = Out.unit :: runI refI (Ref.set m k v) rest
      rw [ih (Ref.set_sorted hs k v) (by rw [Ref.get_set]; simp [Op.noEmptyKey] at hop; simp [hop, h0]) hrest]
    | del k =>
      show Out.unit :: runI bdgI (Ref.del m k) rest = Out.unit :: runI refI (Ref.del m k) rest
      rw [ih (Ref.del_sorted hs k) (by rw [Ref.get_del]; by_cases hk : k = [] <;> simp [hk, h0]) hrest]
    | get k => show Out.val (Ref.get m k) :: runI bdgI m rest = Out.val (Ref.get m k) :: runI refI m rest; rw [ih hs h0 hrest]
    | has k => show Out.bool (Ref.get m k).isSome :: runI bdgI m rest = Out.bool (Ref.get m k).isSome :: runI refI m rest; rw [ih hs h0 hrest]
    | iter s e => show Out.kvs (Ref.iter m s e) :: runI bdgI m rest = Out.kvs (Ref.iter m s e) :: runI refI m rest; rw [ih hs h0 hrest]
    | riter s e =>
      show Out.kvs (bdgI.riter m s e) :: runI bdgI m rest = Out.kvs (Ref.riter m s e) :: runI refI m rest
      rw [ih hs h0 hrest, bdg_riter_eq_ref hs h0]
    | write b =>
      have hw : writeBatch bdgI m b = writeBatch refI m b := by
        unfold writeBatch
        congr 1
      show Out.unit :: runI bdgI (writeBatch bdgI m b) rest = Out.unit :: runI refI (writeBatch refI m b) rest
      rw [hw]
      have h0' : Ref.get (writeBatch refI m b) [] = none := by
        rw [(batch_atomic_ordered m b []).2, h0]
        exact batchEffect_noEmpty b hop
      rw [ih (writeBatch_sorted hs b) h0' hrest]

/-- ALL BACKENDS AGREE (models): for any op sequence that never writes the empty key, the memdb model, the goleveldb
model, the bolt model (= the reference) and the badger model give the same answers.  (For the external engines
themselves this is what the correspondence run checks.) -/
theorem backends_agree (ops : List Op) (hops : ∀ op ∈ ops, op.noEmptyKey) :
    runI memI ⟨[]⟩ ops = runI refI [] ops ∧ runI ldbI [] ops = runI refI [] ops ∧ runI bdgI [] ops = runI refI [] ops :=
  ⟨memdb_refines_ref ops, rfl, bdg_run_eq_ref (by simp [Sorted]) rfl ops hops⟩

/-- what a batch object holds after Write: kept by memBatch/goleveldb (a second Write applies it again), empty on
bolt/badger; after `Reset` it is empty everywhere, so Write-Reset-reuse agrees on all backends -/
theorem batch_after_write (ops : List BOp) :
    batchAfterWrite .keeps ops = ops ∧ batchAfterWrite .empty ops = [] := ⟨rfl, rfl⟩

example : runI bdgI [] [.set [1] [1], .riter (some []) none, .riter none none] = [.unit, .kvs [], .kvs [([1], [1])]] := by decide

end Props.C19
