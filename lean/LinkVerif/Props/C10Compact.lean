/-
C10: `compactToHex (hexToCompact k) = k` on the keys of normal-form short nodes.
-/
import LinkVerif.Props.C10Rlp

namespace Props.C10
open Model.Trie

/-- plain nibbles: no terminator -/
def Nibs (h : List Nib) : Prop := ∀ x ∈ h, x ≠ term

theorem nib_lt {x : Nib} (h : x ≠ term) : x.val < 16 := by
  have := x.isLt
  have : x.val ≠ 16 := fun e => h (Fin.ext e)
  omega

theorem fin_ofNat_val (x : Nib) : Fin.ofNat 17 x.val = x := by
  apply Fin.ext; simp [Fin.ofNat, Nat.mod_eq_of_lt x.isLt]

theorem kbh_cons (x : UInt8) (a : Bytes) :
    keybytesToHex (x :: a) = Fin.ofNat 17 (x.toNat / 16) :: Fin.ofNat 17 (x.toNat % 16) :: keybytesToHex a := rfl

theorem kbh_pack : ∀ (h : List Nib), Nibs h → h.length % 2 = 0 → keybytesToHex (packNibbles h) = h ++ [term]
  | [], _, _ => rfl
  | [_], _, h => by simp at h
  | a :: b :: r, hn, hl => by
    have ha := nib_lt (hn a (by simp))
    have hb := nib_lt (hn b (by simp))
    have ih := kbh_pack r (fun x hx => hn x (by simp [hx])) (by simp at hl; omega)
    simp only [packNibbles, kbh_cons, ih, u8_toNat_ofNat (show a.val * 16 + b.val < 256 by omega)]
    have e1 : (a.val * 16 + b.val) / 16 = a.val := by omega
    have e2 : (a.val * 16 + b.val) % 16 = b.val := by omega
    rw [e1, e2, fin_ofNat_val, fin_ofNat_val]
    rfl

theorem hasTerm_concat (h : List Nib) : hasTerm (h ++ [term]) = true := by
  simp [hasTerm]

theorem hasTerm_nibs {h : List Nib} (hn : Nibs h) : hasTerm h = false := by
  unfold hasTerm
  cases hl : h.getLast? with
  | none => rfl
  | some x =>
    have : x ∈ h := List.mem_of_getLast? hl
    have := hn x this
    simp [this]

theorem compactToHex_cons (x0 : UInt8) (bs : Bytes) (b0 lo : Nib) (tl : List Nib)
    (h0 : Fin.ofNat 17 (x0.toNat / 16) = b0) (h1 : Fin.ofNat 17 (x0.toNat % 16) = lo) (h2 : keybytesToHex bs = tl) :
    compactToHex (x0 :: bs) =
      (if 2 - b0.val % 2 > (if b0.val < 2 then (b0 :: lo :: tl).dropLast else b0 :: lo :: tl).length then .panic
       else .ok ((if b0.val < 2 then (b0 :: lo :: tl).dropLast else b0 :: lo :: tl).drop (2 - b0.val % 2))) := by
  subst h0; subst h1; subst h2
  simp [compactToHex, kbh_cons]

theorem dropLast_two_concat (a b : Nib) (h : List Nib) : (a :: b :: (h ++ [term])).dropLast = a :: b :: h := by
  have : a :: b :: (h ++ [term]) = (a :: b :: h) ++ [term] := rfl
  rw [this, List.dropLast_concat]

theorem compact_even (t : Nat) (ht : t = 0 ∨ t = 1) (h : List Nib) (hn : Nibs h) (hl : h.length % 2 = 0) :
    compactToHex (UInt8.ofNat (t * 32) :: packNibbles h) = .ok (if t = 1 then h ++ [term] else h) := by
  have hr := kbh_pack h hn hl
  rcases ht with rfl | rfl
  · rw [compactToHex_cons _ _ (Fin.ofNat 17 0) (Fin.ofNat 17 0) _ (by rw [u8_toNat_ofNat (by omega)]) (by rw [u8_toNat_ofNat (by omega)]) hr]
    have v0 : (Fin.ofNat 17 0).val = 0 := rfl
    simp only [v0, dropLast_two_concat]
    simp
  · rw [compactToHex_cons _ _ (Fin.ofNat 17 2) (Fin.ofNat 17 0) _ (by rw [u8_toNat_ofNat (by omega)]) (by rw [u8_toNat_ofNat (by omega)]) hr]
    have v2 : (Fin.ofNat 17 2).val = 2 := rfl
    simp only [v2]
    simp

theorem compact_odd (t : Nat) (ht : t = 0 ∨ t = 1) (x : Nib) (r : List Nib) (hn : Nibs (x :: r)) (hl : r.length % 2 = 0) :
    compactToHex (UInt8.ofNat (t * 32 + 16 + x.val) :: packNibbles r) = .ok (if t = 1 then x :: r ++ [term] else x :: r) := by
  have hx := nib_lt (hn x (by simp))
  have hr := kbh_pack r (fun y hy => hn y (by simp [hy])) hl
  rcases ht with rfl | rfl
  · rw [compactToHex_cons _ _ (Fin.ofNat 17 1) x _
      (by rw [u8_toNat_ofNat (by omega)]; congr 1; omega)
      (by rw [u8_toNat_ofNat (by omega)]; rw [← fin_ofNat_val x]; congr 1; simp [Fin.ofNat]; omega) hr]
    have v1 : (Fin.ofNat 17 1).val = 1 := rfl
    simp only [v1, dropLast_two_concat]
    simp
  · rw [compactToHex_cons _ _ (Fin.ofNat 17 3) x _
      (by rw [u8_toNat_ofNat (by omega)]; congr 1; omega)
      (by rw [u8_toNat_ofNat (by omega)]; rw [← fin_ofNat_val x]; congr 1; simp [Fin.ofNat]; omega) hr]
    have v3 : (Fin.ofNat 17 3).val = 3 := rfl
    simp only [v3]
    simp

theorem compact_roundtrip_term (h : List Nib) (hn : Nibs h) :
    compactToHex (hexToCompact (h ++ [term])) = .ok (h ++ [term]) := by
  unfold hexToCompact
  simp only [hasTerm_concat, if_true, List.dropLast_concat]
  by_cases hodd : h.length % 2 = 1
  · simp only [hodd, if_true]
    cases h with
    | nil => simp at hodd
    | cons x r => simpa using compact_odd 1 (Or.inr rfl) x r hn (by simp at hodd; omega)
  · simp only [hodd, if_false]
    simpa using compact_even 1 (Or.inr rfl) h hn (by omega)

theorem compact_roundtrip_plain (h : List Nib) (hn : Nibs h) :
    compactToHex (hexToCompact h) = .ok h := by
  unfold hexToCompact
  simp only [hasTerm_nibs hn, Bool.false_eq_true, if_false]
  by_cases hodd : h.length % 2 = 1
  · simp only [hodd, if_true]
    cases h with
    | nil => simp at hodd
    | cons x r => simpa using compact_odd 0 (Or.inl rfl) x r hn (by simp at hodd; omega)
  · simp only [hodd, if_false]
    simpa using compact_even 0 (Or.inl rfl) h hn (by omega)

/-- the shape of a normal-form short key -/
theorem keyOK_shape : ∀ (k : List Nib) (v : Bool), KeyOK v k →
    (v = true → ∃ h, k = h ++ [term] ∧ Nibs h) ∧ (v = false → Nibs k)
  | [], _, h => absurd h (by simp [KeyOK])
  | x :: r, v, h => by
    rcases keyOK_cons.mp h with ⟨h0, h1⟩ | ⟨h0, h1, h2⟩
    · subst h0
      constructor
      · intro hv; exact ⟨[], by simp [h1.mpr hv], by intro y hy; simp at hy⟩
      · intro hv y hy
        simp at hy; subst hy
        intro e; have := h1.mp e; rw [hv] at this; cases this
    · obtain ⟨i1, i2⟩ := keyOK_shape r v h2
      constructor
      · intro hv
        obtain ⟨h', e, hn⟩ := i1 hv
        exact ⟨x :: h', by rw [e]; rfl, by intro y hy; simp at hy; rcases hy with rfl | hy; exact h1; exact hn y hy⟩
      · intro hv y hy
        simp at hy; rcases hy with rfl | hy
        · exact h1
        · exact i2 hv y hy

theorem compact_roundtrip {k : List Nib} {v : Bool} (h : KeyOK v k) :
    compactToHex (hexToCompact k) = .ok k ∧ hasTerm k = v := by
  obtain ⟨h1, h2⟩ := keyOK_shape k v h
  cases v with
  | true =>
    obtain ⟨h', e, hn⟩ := h1 rfl
    subst e
    exact ⟨compact_roundtrip_term h' hn, hasTerm_concat h'⟩
  | false => exact ⟨compact_roundtrip_plain k (h2 rfl), hasTerm_nibs (h2 rfl)⟩

end Props.C10
