/-
C09, part 8: the consequences of `NS` for the tree as it is now (deepCopy clones the Tokens map).
* `revert_exact_ns` / `revert_exact_any_ns`: clause 1 with the "token map still private" half of `Safe` DROPPED — in a state
  without shared cells (every state of a world built by the cloning `Copy`) the only remaining side condition at `Suicide` is
  non-negative balances.
* `world_step_ns`, `world_run_ns`, `world_independent`: clause 2 in full — a WORLD of any number of states over one heap
  (the composition the driver executes: `ctxOf`/`putCtx`), histories of mutators, snapshots, reverts (valid or panicking),
  Finalise, Commit and Copy (copies of copies, sibling copies) on ANY handle: the heap never changes, so no operation of any
  state is observable in any other state.
-/
import LinkVerif.Props.C09NoShared
import LinkVerif.Props.C09RevertAny

namespace Props.C09
open Model.StateDB

/-! ### clause 1 without the privacy side condition -/

/-- what remains of `SafeOp`: `suicideChange` remembers only strictly positive balances -/
def SafeOpNN (c : Ctx) : Op → Prop
  | .suicide a => ∀ o, peek c.st a = some o → 0 ≤ o.balance ∧ ∀ t v, tokMapOf c.heap o t = some v → 0 ≤ v
  | _ => True

def SafeNN (cfg : Cfg) : Ctx → List Step → Prop
  | _, [] => True
  | c, s :: rest => (match s with
      | .op o => SafeOpNN c o
      | _ => True) ∧ SafeNN cfg (stepCtx cfg c s) rest

theorem safeOp_of_nn (c : Ctx) (op : Op) (hn : NSo c.st) (h : SafeOpNN c op) : SafeOp c op := by
  cases op <;> try trivial
  case suicide a =>
    intro o ho
    obtain ⟨hb, ht⟩ := h o ho
    obtain ⟨m, hm⟩ := NSo_peek hn ho
    exact ⟨hb, m, hm, fun t v hv => ht t v (by simpa [tokMapOf, hm] using hv)⟩

theorem safe_of_nn (cfg : Cfg) (steps : List Step) : ∀ c, NS c.st → SafeNN cfg c steps → Safe cfg c steps := by
  induction steps with
  | nil => intro _ _ _; trivial
  | cons s rest ih =>
    intro c hn hs
    refine ⟨?_, ih _ (step_ns cfg c s hn).2 hs.2⟩
    cases s with
    | op o => exact safeOp_of_nn c o hn.1 hs.1
    | snap => trivial
    | revert i => trivial

/-- `revert_exact` for a state without shared cells: the side condition at `Suicide` is non-negativity only -/
theorem revert_exact_ns (cfg : Cfg) (c : Ctx) (hw : WF c.st) (hB : ∀ p ∈ c.st.revs, p.1 < c.st.nextRev) (hn : NS c.st)
    (steps : List Step) (hs : SafeNN cfg (snapshot c).1 steps) (hnest : WellNested (snapshot c).2 steps) :
    ∃ c2, revertTo (run cfg (snapshot c).1 steps) (snapshot c).2 = some c2 ∧ obs c2 = obs c :=
  revert_exact cfg c hw hB steps (safe_of_nn cfg steps _ hn hs) hnest

/-- … and for arbitrary revision ids: panic or exact -/
theorem revert_exact_any_ns (cfg : Cfg) (c : Ctx) (hw : WF c.st) (hB : ∀ p ∈ c.st.revs, p.1 < c.st.nextRev) (hn : NS c.st)
    (steps : List Step) (hs : SafeNN cfg (snapshot c).1 steps) :
    revertTo (run cfg (snapshot c).1 steps) (snapshot c).2 = none ∨
    ∃ c2, revertTo (run cfg (snapshot c).1 steps) (snapshot c).2 = some c2 ∧ obs c2 = obs c :=
  revert_exact_any cfg c hw hB steps (safe_of_nn cfg steps _ hn hs)

/-! ### worlds -/

/-- any number of states over one heap (what `Driver.C09.St` holds) -/
structure World where
  heap : Ref → TokMap
  nextRef : Nat
  states : Nat → Option State

/-- one operation of one handle -/
inductive WOp where
  | step (h : Nat) (s : Step)              -- mutator / Snapshot / RevertToSnapshot on handle h
  | finalise (h : Nat) (del : Bool)        -- Finalise / IntermediateRoot
  | commit (h : Nat) (del : Bool)
  | copy (h n : Nat)                       -- handle n := Copy() of handle h

def World.ctx (w : World) (x : State) : Ctx := { heap := w.heap, nextRef := w.nextRef, st := x }
def World.put (w : World) (h : Nat) (c : Ctx) : World := { heap := c.heap, nextRef := c.nextRef, states := upd w.states h (some c.st) }

def wstep (cfg : Cfg) (w : World) : WOp → World
  | .step h s => match w.states h with
    | none => w
    | some x => w.put h (stepCtx cfg (w.ctx x) s)
  | .finalise h del => match w.states h with
    | none => w
    | some x => w.put h (finalise del (w.ctx x))
  | .commit h del => match w.states h with
    | none => w
    | some x => w.put h (commit del (w.ctx x))
  | .copy h n => match w.states h with
    | none => w
    | some x =>
      let r := copy cfg (w.ctx x)
      let w1 := w.put h r.1
      { w1 with states := upd w1.states n (some r.2) }

def wrun (cfg : Cfg) (w : World) (ops : List WOp) : World := ops.foldl (wstep cfg) w

/-- the handle whose state the operation may change (`copy` leaves its source as it is: see `copy_ns`) -/
def WOp.target : WOp → Nat
  | .step h _ => h
  | .finalise h _ => h
  | .commit h _ => h
  | .copy _ n => n

def AllNS (w : World) : Prop := ∀ h x, w.states h = some x → NS x

theorem AllNS_put {w : World} (hw : AllNS w) (h : Nat) (c : Ctx) (hc : NS c.st) : AllNS (w.put h c) := by
  intro k x hk
  by_cases hkh : k = h
  · subst hkh; simp [World.put] at hk; subst hk; exact hc
  · simp [World.put, hkh] at hk; exact hw k x hk

/-- **one operation of any handle: the heap is untouched, no shared cell appears, only the target handle's state changes** -/
theorem world_step_ns (cfg : Cfg) (hc : cfg.cloneTokens = true) (w : World) (op : WOp) (hw : AllNS w) :
    (wstep cfg w op).heap = w.heap ∧ AllNS (wstep cfg w op) ∧ ∀ k, k ≠ op.target → (wstep cfg w op).states k = w.states k := by
  cases op with
  | step h s =>
    simp only [wstep, WOp.target]
    cases hx : w.states h with
    | none => exact ⟨rfl, hw, fun _ _ => rfl⟩
    | some x =>
      obtain ⟨h1, h2⟩ := step_ns cfg (w.ctx x) s (hw h x hx)
      exact ⟨h1, AllNS_put hw h _ h2, fun k hk => by simp [World.put, hk]⟩
  | finalise h del =>
    simp only [wstep, WOp.target]
    cases hx : w.states h with
    | none => exact ⟨rfl, hw, fun _ _ => rfl⟩
    | some x =>
      obtain ⟨h1, h2⟩ := finalise_ns del (w.ctx x) (hw h x hx)
      exact ⟨h1, AllNS_put hw h _ h2, fun k hk => by simp [World.put, hk]⟩
  | commit h del =>
    simp only [wstep, WOp.target]
    cases hx : w.states h with
    | none => exact ⟨rfl, hw, fun _ _ => rfl⟩
    | some x =>
      obtain ⟨h1, h2⟩ := commit_ns del (w.ctx x) (hw h x hx)
      exact ⟨h1, AllNS_put hw h _ h2, fun k hk => by simp [World.put, hk]⟩
  | copy h n =>
    simp only [wstep, WOp.target]
    cases hx : w.states h with
    | none => exact ⟨rfl, hw, fun _ _ => rfl⟩
    | some x =>
      obtain ⟨h1, h2⟩ := copy_ns cfg hc (w.ctx x)
      simp only [h1]
      refine ⟨rfl, ?_, ?_⟩
      · intro k y hk
        by_cases hkn : k = n
        · subst hkn; simp at hk; subst hk; exact h2
        · simp [hkn] at hk
          exact AllNS_put hw h (w.ctx x) (hw h x hx) k y hk
      · intro k hk
        by_cases hkh : k = h
        · subst hkh; simp [hk, World.put, World.ctx, hx]
        · simp [hk, World.put, hkh]

theorem world_run_ns (cfg : Cfg) (hc : cfg.cloneTokens = true) (ops : List WOp) :
    ∀ w, AllNS w → (wrun cfg w ops).heap = w.heap ∧ AllNS (wrun cfg w ops) := by
  induction ops with
  | nil => intro w hw; exact ⟨rfl, hw⟩
  | cons op rest ih =>
    intro w hw
    obtain ⟨h1, h2, _⟩ := world_step_ns cfg hc w op hw
    obtain ⟨h3, h4⟩ := ih _ h2
    exact ⟨h3.trans h1, h4⟩

/-- what handle `k` shows: every getter named in the property, through the world's heap -/
def World.obsAt (w : World) (k : Nat) : Option Obs := (w.states k).map (obsWith w.heap)

/-- **C09, second clause, in full**: a history of arbitrary operations (mutators, snapshots, reverts, Finalise, Commit, Copy)
none of which targets handle `k` changes no observable of `k` — the original does not see its copies, a copy sees neither the
original nor its siblings nor copies of copies. -/
theorem world_independent (cfg : Cfg) (hc : cfg.cloneTokens = true) (ops : List WOp) (k : Nat) :
    ∀ w, AllNS w → (∀ op ∈ ops, op.target ≠ k) → (wrun cfg w ops).obsAt k = w.obsAt k := by
  induction ops with
  | nil => intro w _ _; rfl
  | cons op rest ih =>
    intro w hw hk
    obtain ⟨h1, h2, h3⟩ := world_step_ns cfg hc w op hw
    have := ih _ h2 (fun o ho => hk o (List.mem_cons_of_mem _ ho))
    show (wrun cfg (wstep cfg w op) rest).obsAt k = w.obsAt k
    rw [this]
    simp only [World.obsAt, h1, h3 k (Ne.symm (hk op (by simp)))]

/-- `Copy` starts the copy with an empty revision stack -/
theorem copy_revs (cfg : Cfg) (c : Ctx) : (copy cfg c).2.revs = [] ∧ (copy cfg c).2.nextRev = 0 := by
  unfold copy
  apply foldl_inv (fun (acc : Ctx × State) => acc.2.revs = [] ∧ acc.2.nextRev = 0) _ _ _ ⟨rfl, rfl⟩
  intro acc a h
  obtain ⟨c1, n⟩ := acc
  dsimp only at h ⊢
  split
  · split
    · exact h
    · exact h
  · exact h

/-- a world that starts with one fresh state has no shared cell -/
def World.fresh : World := { heap := fun _ => emptyToks, nextRef := 0, states := upd (fun _ => none) 0 (some State.empty) }

theorem AllNS_fresh : AllNS World.fresh := by
  intro h x hx
  by_cases h0 : h = 0
  · subst h0; simp [World.fresh] at hx; subst hx; exact NS_empty
  · simp [World.fresh, h0] at hx

/-- every world reachable from the fresh one has no shared cell -/
theorem AllNS_reachable (cfg : Cfg) (hc : cfg.cloneTokens = true) (ops : List WOp) : AllNS (wrun cfg World.fresh ops) :=
  (world_run_ns cfg hc ops _ AllNS_fresh).2

end Props.C09
