import LinkVerif.Props.C15Closed
import LinkVerif.Props.C07R

/-!
# C15 — part 5: entries only move, stale queued entries are removed by Update, reap over transaction ids

* `run_all`: every entry of the pool after a history was created by a submission (generic predicate threading);
* `update_no_stale_queued` / `stale_removed_queued`: after every commit (own or forced) no queued transaction of an
  account has a nonce below the committed nonce (`promoteExecutables(nil)` runs `Forward` for every sender);
* `reap_distinct`, `reap_not_committed`: the reaped list has pairwise distinct transaction ids and none of them is in a
  committed block of the history — from strictly advancing nonces and fresh key images.
-/
namespace Props.C15
open Model.Ledger Model.Mempool

/-! ## entries only move -/

structure AllQ (Q : E → Prop) (p : Pool) : Prop where
  good : ∀ e ∈ p.good, Q e
  utxo : ∀ e ∈ p.utxo, Q e
  fut : ∀ e ∈ p.fut, Q e

theorem AllQ.congr {Q : E → Prop} {p q : Pool} (h : AllQ Q p) (hg : q.good = p.good) (hu : q.utxo = p.utxo) (hf : q.fut = p.fut) :
    AllQ Q q := ⟨by rw [hg]; exact h.good, by rw [hu]; exact h.utxo, by rw [hf]; exact h.fut⟩

theorem addFuture_all {Q : E → Prop} {p : Pool} {e : E} (h : AllQ Q p) (he : Q e) : AllQ Q (addFuture p e).2 := by
  unfold addFuture
  split
  · exact h
  · split
    · exact h
    · refine ⟨h.good, h.utxo, ?_⟩
      intro x hx
      rcases List.mem_append.mp hx with h1 | h1
      · exact h.fut x h1
      · simp at h1; subst h1; exact he

theorem promoteLoop_mem : ∀ (l : List E) (acc : Acc) (good : List E) (cache : List Nat),
    ∀ e ∈ (promoteLoop acc good cache l).2.1, e ∈ good ∨ e ∈ l := by
  intro l
  induction l with
  | nil => intro acc good cache e he; exact Or.inl he
  | cons x r ih =>
    intro acc good cache e he
    unfold promoteLoop at he
    split at he
    · rcases ih _ _ _ e he with h1 | h1
      · rcases List.mem_append.mp h1 with h2 | h2
        · exact Or.inl h2
        · simp at h2; subst h2; exact Or.inr (List.mem_cons_self ..)
      · exact Or.inr (List.mem_cons_of_mem _ h1)
    · rcases ih _ _ _ e he with h1 | h1
      · exact Or.inl h1
      · exact Or.inr (List.mem_cons_of_mem _ h1)

theorem checkAcc_nonce_mono (a : Acc) (t : TxRec) (j : Nat) : getn a.nonce j ≤ getn (checkAcc a t).2.nonce j := by
  by_cases hok : (checkAcc a t).1 = .ok
  · obtain ⟨hn, _, he⟩ := checkAcc_ok hok
    rw [he, debit_nonce, getn_setN]
    split
    · rename_i h; rw [← h.1, hn]; exact Nat.le_succ _
    · exact Nat.le_refl _
  · rw [checkAcc_clean hok]; exact Nat.le_refl _

theorem promoteLoop_nonce_mono : ∀ (l : List E) (acc : Acc) (good : List E) (cache : List Nat) (j : Nat),
    getn acc.nonce j ≤ getn (promoteLoop acc good cache l).1.nonce j := by
  intro l
  induction l with
  | nil => intro acc good cache j; exact Nat.le_refl _
  | cons x r ih =>
    intro acc good cache j
    unfold promoteLoop
    split
    · exact Nat.le_trans (checkAcc_nonce_mono acc x.t j) (ih _ _ _ j)
    · exact Nat.le_trans (checkAcc_nonce_mono acc x.t j) (ih _ _ _ j)

/-- what one `promoteExecutables([a])` does to the containers -/
theorem promote_facts (p : Pool) (a : Nat) :
    (∀ e ∈ (promote p a).good, e ∈ p.good ∨ e ∈ p.fut) ∧ (∀ e ∈ (promote p a).fut, e ∈ p.fut) ∧
    (promote p a).utxo = p.utxo ∧
    (∀ e ∈ (promote p a).fut, ¬ (e.t.from_ = a ∧ e.t.nonce < getn p.acc.nonce a)) ∧
    (∀ j, getn p.acc.nonce j ≤ getn (promote p a).acc.nonce j) := by
  unfold promote
  simp only []
  split
  · refine ⟨fun e he => Or.inl he, fun e he => (List.mem_filter.mp he).1, rfl, ?_, fun j => Nat.le_refl _⟩
    intro e he hc
    have := (List.mem_filter.mp he).2
    simp [hc.1, hc.2] at this
  · generalize hfut1 : p.fut.filter (fun e => !(e.t.from_ == a && decide (e.t.nonce < getn p.acc.nonce a))) = fut1
    generalize hready : readyRun fut1 a (getn p.acc.nonce a) (p.cfg.size - p.good.length) = ready
    have hmem1 : ∀ e ∈ fut1, e ∈ p.fut := by intro e he; rw [← hfut1] at he; exact (List.mem_filter.mp he).1
    have hrm : ∀ e ∈ ready, e ∈ p.fut := by
      intro e he; rw [← hready] at he; exact hmem1 e (readyRun_mem _ _ _ _ e he)
    have hm := promoteLoop_mem ready p.acc p.good
      (dropIds p.cache (p.fut.filter (fun e => e.t.from_ == a && decide (e.t.nonce < getn p.acc.nonce a))))
    have hn := promoteLoop_nonce_mono ready p.acc p.good
      (dropIds p.cache (p.fut.filter (fun e => e.t.from_ == a && decide (e.t.nonce < getn p.acc.nonce a))))
    generalize promoteLoop p.acc p.good
      (dropIds p.cache (p.fut.filter (fun e => e.t.from_ == a && decide (e.t.nonce < getn p.acc.nonce a)))) ready = res at hm hn
    obtain ⟨acc', good', cache'⟩ := res
    simp only [] at hm hn ⊢
    refine ⟨?_, ?_, trivial, ?_, hn⟩
    · intro e he
      rcases hm e he with h1 | h1
      · exact Or.inl h1
      · exact Or.inr (hrm e h1)
    · intro e he; exact hmem1 e (List.mem_filter.mp he).1
    · intro e he hc
      have h1 := (List.mem_filter.mp he).1
      rw [← hfut1] at h1
      have := (List.mem_filter.mp h1).2
      simp [hc.1, hc.2] at this

theorem promote_all {Q : E → Prop} {p : Pool} (a : Nat) (h : AllQ Q p) : AllQ Q (promote p a) := by
  obtain ⟨h1, h2, h3, _, _⟩ := promote_facts p a
  refine ⟨?_, by rw [h3]; exact h.utxo, fun e he => h.fut e (h2 e he)⟩
  intro e he
  rcases h1 e he with h4 | h4
  · exact h.good e h4
  · exact h.fut e h4

theorem promoteAll_all {Q : E → Prop} {p : Pool} (h : AllQ Q p) : ∀ k, AllQ Q (promoteAll p k) := by
  intro k
  induction k with
  | zero => exact h
  | succ k ih => unfold promoteAll; exact promote_all k ih

theorem addGood_all {Q : E → Prop} {p : Pool} {e : E} (h : AllQ Q p) (he : Q e) : AllQ Q (addGood p e) := by
  unfold addGood
  apply promote_all
  refine ⟨?_, h.utxo, h.fut⟩
  intro x hx
  rcases List.mem_append.mp hx with h1 | h1
  · exact h.good x h1
  · simp at h1; subst h1; exact he

theorem addAccount_all {Q : E → Prop} {p : Pool} {e : E} (h : AllQ Q p) (he : Q e) : AllQ Q (addAccount p e).2 := by
  unfold addAccount
  simp only []
  have hp : AllQ Q { p with acc := (checkAcc p.acc e.t).2 } := h.congr rfl rfl rfl
  split
  · split
    · exact addGood_all hp he
    · exact addFuture_all hp he
  · split
    · exact addFuture_all hp he
    · exact hp

theorem addPure_all {Q : E → Prop} {p : Pool} {e : E} (h : AllQ Q p) (he : Q e) : AllQ Q (addPure p e).2 := by
  unfold addPure
  split
  · exact h
  · split
    · refine ⟨h.good, ?_, h.fut⟩
      intro x hx
      rcases List.mem_append.mp hx with h1 | h1
      · exact h.utxo x h1
      · simp at h1; subst h1; exact he
    · exact h

theorem addTx_all {Q : E → Prop} {p : Pool} {e : E} (h : AllQ Q p) (he : Q e) : AllQ Q (addTx p e).2 := by
  unfold addTx
  split
  · exact h
  · split
    · split
      · exact h
      · simp only []
        have hp1 : AllQ Q { p with cache := p.cache ++ [e.id] } := h.congr rfl rfl rfl
        by_cases hk : e.t.kind = .uin
        · simp only [hk, if_true]
          have := addPure_all (e := e) hp1 he
          split
          · exact this
          · exact this.congr rfl rfl rfl
        · simp only [hk, if_false]
          have := addAccount_all (e := e) hp1 he
          split
          · exact this
          · exact this.congr rfl rfl rfl
    · exact h

theorem recheckGood_all {Q : E → Prop} : ∀ (l : List E) (p : Pool), AllQ Q p → (∀ e ∈ l, Q e) → AllQ Q (recheckGood p l) := by
  intro l
  induction l with
  | nil => intro p h _; exact h
  | cons e r ih =>
    intro p h hl
    have he := hl e (List.mem_cons_self ..)
    have hr : ∀ x ∈ r, Q x := fun x hx => hl x (List.mem_cons_of_mem _ hx)
    unfold recheckGood
    split
    · apply ih _ _ hr
      refine ⟨?_, h.utxo, h.fut⟩
      intro x hx
      rcases List.mem_append.mp hx with h1 | h1
      · exact h.good x h1
      · simp at h1; subst h1; exact he
    · have hp : AllQ Q { p with acc := (checkAcc p.acc e.t).2 } := h.congr rfl rfl rfl
      split
      · split
        · exact ih _ (addFuture_all hp he) hr
        · exact ih _ ((addFuture_all hp he).congr rfl rfl rfl) hr
      · exact ih _ (hp.congr rfl rfl rfl) hr

theorem recheckUtxo_all {Q : E → Prop} : ∀ (l : List E) (p : Pool), AllQ Q p → (∀ e ∈ l, Q e) → AllQ Q (recheckUtxo p l) := by
  intro l
  induction l with
  | nil => intro p h _; exact h
  | cons e r ih =>
    intro p h hl
    have he := hl e (List.mem_cons_self ..)
    have hr : ∀ x ∈ r, Q x := fun x hx => hl x (List.mem_cons_of_mem _ hx)
    unfold recheckUtxo
    split
    · apply ih _ _ hr
      refine ⟨h.good, ?_, h.fut⟩
      intro x hx
      rcases List.mem_append.mp hx with h1 | h1
      · exact h.utxo x h1
      · simp at h1; subst h1; exact he
    · exact ih _ (h.congr rfl rfl rfl) hr

theorem update_all {Q : E → Prop} {p : Pool} (h : AllQ Q p) (c' : St) (ids : List Nat) : AllQ Q (update p c' ids) := by
  unfold update promoteEvery
  simp only []
  apply promoteAll_all
  apply recheckUtxo_all _ _ _ (fun e he => h.utxo e (List.mem_filter.mp he).1)
  apply recheckGood_all _ _ _ (fun e he => h.good e (List.mem_filter.mp he).1)
  exact ⟨by simp, by simp, h.fut⟩

/-- the entry a submission creates -/
def Created (reg : List TxRec) (e : E) : Prop := reg[e.id]? = some e.t

theorem step_all (reg : List TxRec) {p : Pool} (h : AllQ (Created reg) p) (op : Op) : AllQ (Created reg) (step reg p op) := by
  cases op with
  | submit id =>
    simp only [step]
    cases ht : reg[id]? with
    | none => exact h
    | some t => exact addTx_all h ht
  | reap max => exact h
  | commit max =>
    simp only [step, commitEntries]
    cases execX p.c [] ((reap p max).map (·.t)) with
    | none => exact h
    | some c' => exact update_all h _ _
  | force ids =>
    simp only [step, forceEntries, commitEntries]
    split
    · exact h
    · cases execX p.c [] ((entries reg ids).map (·.t)) with
      | none => exact h
      | some c' => exact update_all h _ _

/-- **every entry of the pool after any history is the registered transaction of its id** -/
theorem run_all (reg : List TxRec) : ∀ (ops : List Op) (p : Pool), AllQ (Created reg) p → AllQ (Created reg) (run reg p ops) := by
  intro ops
  induction ops with
  | nil => intro p h; exact h
  | cons op r ih => intro p h; exact ih _ (step_all reg h op)

theorem init_all (reg : List TxRec) (cfg : Cfg) (w : Nat) (bal tbal : Int) : AllQ (Created reg) (Model.Mempool.init cfg w bal tbal) := by
  unfold Model.Mempool.init; exact ⟨by simp, by simp, by simp⟩

/-! ## (b) stale queued entries are removed by Update -/

theorem addFuture_acc (p : Pool) (e : E) : (addFuture p e).2.acc = p.acc ∧ (addFuture p e).2.cfg = p.cfg := by
  unfold addFuture; split
  · exact ⟨rfl, rfl⟩
  · split <;> exact ⟨rfl, rfl⟩

theorem recheckGood_nonce_mono : ∀ (l : List E) (p : Pool) (j : Nat),
    getn p.acc.nonce j ≤ getn (recheckGood p l).acc.nonce j ∧ (recheckGood p l).cfg = p.cfg := by
  intro l
  induction l with
  | nil => intro p j; exact ⟨Nat.le_refl _, rfl⟩
  | cons e r ih =>
    intro p j
    have hm := checkAcc_nonce_mono p.acc e.t j
    unfold recheckGood
    split
    · have := ih { p with acc := (checkAcc p.acc e.t).2, good := p.good ++ [e] } j
      exact ⟨Nat.le_trans hm this.1, this.2⟩
    · have haf := addFuture_acc { p with acc := (checkAcc p.acc e.t).2 } e
      split
      · split
        · have := ih (addFuture { p with acc := (checkAcc p.acc e.t).2 } e).2 j
          rw [haf.1] at this
          exact ⟨Nat.le_trans hm this.1, by rw [this.2, haf.2]⟩
        · have := ih (uncache (addFuture { p with acc := (checkAcc p.acc e.t).2 } e).2 e.id) j
          have h1 : (uncache (addFuture { p with acc := (checkAcc p.acc e.t).2 } e).2 e.id).acc = (checkAcc p.acc e.t).2 := haf.1
          rw [h1] at this
          exact ⟨Nat.le_trans hm this.1, by rw [this.2]; exact haf.2⟩
      · have := ih (uncache { p with acc := (checkAcc p.acc e.t).2 } e.id) j
        exact ⟨Nat.le_trans hm this.1, this.2⟩

theorem recheckUtxo_acc : ∀ (l : List E) (p : Pool), (recheckUtxo p l).acc = p.acc ∧ (recheckUtxo p l).cfg = p.cfg ∧
    (recheckUtxo p l).fut = p.fut := by
  intro l
  induction l with
  | nil => intro p; exact ⟨rfl, rfl, rfl⟩
  | cons e r ih =>
    intro p
    unfold recheckUtxo
    split
    · exact ih _
    · exact ih _

/-- after `promoteAll p k` (senders 0..k-1): the queue only shrank, the speculative nonces only grew, and no queued entry of
a sender below `k` has a nonce below that sender's speculative nonce at the start -/
theorem promoteAll_no_stale (p : Pool) : ∀ k,
    (∀ e ∈ (promoteAll p k).fut, e ∈ p.fut) ∧ (∀ j, getn p.acc.nonce j ≤ getn (promoteAll p k).acc.nonce j) ∧
    (∀ e ∈ (promoteAll p k).fut, e.t.from_ < k → ¬ e.t.nonce < getn p.acc.nonce e.t.from_) := by
  intro k
  induction k with
  | zero => exact ⟨fun e he => he, fun j => Nat.le_refl _, fun e _ h => absurd h (Nat.not_lt_zero _)⟩
  | succ k ih =>
    unfold promoteAll
    obtain ⟨_, h2, _, h4, h5⟩ := promote_facts (promoteAll p k) k
    refine ⟨fun e he => ih.1 e (h2 e he), fun j => Nat.le_trans (ih.2.1 j) (h5 j), ?_⟩
    intro e he hlt hst
    by_cases hk : e.t.from_ = k
    · apply h4 e he
      refine ⟨hk, Nat.lt_of_lt_of_le hst ?_⟩
      rw [hk]; exact ih.2.1 k
    · exact ih.2.2 e (h2 e he) (by omega) hst

/-- **stale_removed (queued part)**: after `Update` with the new committed ledger `c'`, no queued transaction of an account
(index below the configured number of accounts: `promoteExecutables(nil)` visits every sender) has a nonce below the
committed nonce -/
theorem update_no_stale_queued (p : Pool) (c' : St) (ids : List Nat) :
    ∀ e ∈ (update p c' ids).fut, e.t.from_ < p.cfg.accts → getn c'.nonce e.t.from_ ≤ e.t.nonce := by
  intro e he hlt
  unfold update promoteEvery at he
  simp only [] at he
  generalize hp0 : ({ p with c := c', acc := accOf c', imgs := [], good := [], utxo := [] } : Pool) = p0 at he
  generalize hp1 : recheckGood p0 (p.good.filter (fun e => !ids.contains e.id)) = p1 at he
  generalize hp2 : recheckUtxo p1 (p.utxo.filter (fun e => !ids.contains e.id)) = p2 at he
  have h1 := recheckGood_nonce_mono (p.good.filter (fun e => !ids.contains e.id)) p0 e.t.from_
  rw [hp1] at h1
  have h2 := recheckUtxo_acc (p.utxo.filter (fun e => !ids.contains e.id)) p1
  rw [hp2] at h2
  have hcfg : p2.cfg.accts = p.cfg.accts := by rw [h2.2.1, h1.2, ← hp0]
  rw [hcfg] at he
  have h3 := (promoteAll_no_stale p2 p.cfg.accts).2.2 e he hlt
  have h4 : getn c'.nonce e.t.from_ ≤ getn p2.acc.nonce e.t.from_ := by
    rw [h2.1]; refine Nat.le_trans ?_ h1.1; rw [← hp0]; exact Nat.le_refl _
  omega

/-- over histories: after every successful commit (own block or forced block) no queued transaction of an account is stale -/
theorem stale_removed_queued (reg : List TxRec) (cfg : Cfg) (w : Nat) (bal tbal : Int) (ops : List Op) (es : List E) (p' : Pool)
    (hc : commitEntries (run reg (Model.Mempool.init cfg w bal tbal) ops) es = some p') :
    ∀ e ∈ p'.fut, e.t.from_ < cfg.accts → getn p'.c.nonce e.t.from_ ≤ e.t.nonce := by
  have hinv := inv_after_every_history reg cfg w bal tbal ops
  have hcfg : (run reg (Model.Mempool.init cfg w bal tbal) ops).cfg = cfg := by
    have : ∀ (ops : List Op) (p : Pool), Inv p → (run reg p ops).cfg = p.cfg := by
      intro ops
      induction ops with
      | nil => intro p _; rfl
      | cons op r ih => intro p h; exact (ih _ (step_inv reg h op).1).trans (step_inv reg h op).2
    exact this ops _ (init_inv cfg w bal tbal)
  unfold commitEntries at hc
  split at hc
  · cases hc
  · cases hc
    intro e he hlt
    rw [(update_inv hinv _ _).2.1]
    exact update_no_stale_queued _ _ _ e he (by rw [hcfg]; exact hlt)

/-! ## (c) the reap over transaction ids -/

/-- along a successful speculative run the nonces of one sender (an account of the ledger) strictly advance -/
theorem runAcc_pairwise : ∀ (l : List TxRec) (a a' : Acc), runAcc a l = some a' → (∀ t ∈ l, t.from_ < a.nonce.length) →
    l.Pairwise (fun x y => x.from_ = y.from_ → x.nonce < y.nonce) := by
  intro l
  induction l with
  | nil => intro a a' _ _; exact List.Pairwise.nil
  | cons x r ih =>
    intro a a' h hr
    unfold runAcc at h
    split at h
    · rename_i hok
      obtain ⟨hn, _, he⟩ := checkAcc_ok hok
      have hx := hr x (List.mem_cons_self ..)
      have hr' : ∀ t ∈ r, t.from_ < (checkAcc a x).2.nonce.length := by
        intro t ht; rw [he, (debit_lengths a x).1]; exact hr t (List.mem_cons_of_mem _ ht)
      refine List.Pairwise.cons ?_ (ih _ a' h hr')
      intro y hy hxy
      have := runAcc_not_stale r _ a' h y hy
      rw [he, debit_nonce, getn_setN, ← hxy] at this
      simp only [hx, and_self, if_true] at this
      omega
    · cases h

/-- the committed history: every transaction of a committed block is consumed — an account transaction's nonce is below
the committed nonce of its sender, a confidential spend's key image is committed -/
def Comm (reg : List TxRec) (c : St) : Prop :=
  ∀ id ∈ c.blocks.flatten, ∀ t, reg[id]? = some t →
    (t.kind ≠ .uin → t.nonce < getn c.nonce t.from_) ∧ (t.kind = .uin → t.spends ∈ c.spentImgs)

/-- senders of registered account transactions are accounts of the ledger -/
def SendersOK (reg : List TxRec) (accts : Nat) : Prop := ∀ t ∈ reg, t.kind ≠ .uin → t.from_ < accts

/-- what holds after every history (on top of `Inv`) -/
structure Hist (reg : List TxRec) (cfg : Cfg) (p : Pool) : Prop where
  inv : Inv p
  created : AllQ (Created reg) p
  len : p.c.nonce.length = cfg.accts
  cfg_eq : p.cfg = cfg
  comm : Comm reg p.c

theorem reap_created {reg : List TxRec} {p : Pool} (h : AllQ (Created reg) p) (max : Nat) : ∀ e ∈ reap p max, Created reg e := by
  obtain ⟨k, j, hs⟩ := reap_shape p max
  intro e he
  rw [hs] at he
  rcases List.mem_append.mp he with h1 | h1
  · exact h.good e (List.mem_of_mem_take h1)
  · exact h.utxo e (List.mem_of_mem_take h1)

theorem entries_created (reg : List TxRec) (ids : List Nat) : ∀ e ∈ entries reg ids, Created reg e := by
  intro e he
  unfold entries at he
  obtain ⟨i, _, hi⟩ := List.mem_filterMap.mp he
  cases hr : reg[i]? with
  | none => rw [hr] at hi; cases hi
  | some t => rw [hr] at hi; simp at hi; subst hi; exact hr

theorem commit_hist {reg : List TxRec} {cfg : Cfg} {p p' : Pool} (hreg : SendersOK reg cfg.accts) (h : Hist reg cfg p)
    (es : List E) (hes : ∀ e ∈ es, Created reg e) (hc : commitEntries p es = some p') : Hist reg cfg p' := by
  unfold commitEntries at hc
  split at hc
  · cases hc
  · rename_i c' hx
    cases hc
    have hu := update_inv h.inv (finish p.c c' (es.map (·.id))) (es.map (·.id))
    have hR : execBlockR p.c [] (es.map (·.t)) = some c' := by rw [← Props.C06R.execX_eq_execBlockR]; exact hx
    have hlen : c'.nonce.length = cfg.accts := by rw [Props.C07R.execBlockR_nonce_length hR]; exact h.len
    refine ⟨hu.1, update_all h.created _ _, ?_, by rw [hu.2.2]; exact h.cfg_eq, ?_⟩
    · rw [hu.2.1]; exact hlen
    · rw [hu.2.1]
      intro id hid t ht
      have hb : (finish p.c c' (es.map (·.id))).blocks = p.c.blocks ++ [es.map (·.id)] := rfl
      rw [hb, List.flatten_append] at hid
      show (t.kind ≠ .uin → t.nonce < getn c'.nonce t.from_) ∧ (t.kind = .uin → t.spends ∈ c'.spentImgs)
      rcases List.mem_append.mp hid with h1 | h1
      · obtain ⟨k1, k2⟩ := h.comm id h1 t ht
        refine ⟨fun hk => Nat.lt_of_lt_of_le (k1 hk) (Props.C07R.execBlockR_nonce_mono hR _), fun hk => ?_⟩
        rw [Props.C07R.execBlockR_spentImgs hR]; exact List.mem_append_left _ (k2 hk)
      · simp only [List.flatten_cons, List.flatten_nil, List.append_nil] at h1
        obtain ⟨e, he, hid'⟩ := List.mem_map.mp h1
        have hce := hes e he
        unfold Created at hce
        rw [hid', ht] at hce
        have het : e.t = t := (Option.some.inj hce).symm
        have htm : t ∈ es.map (·.t) := by rw [← het]; exact List.mem_map_of_mem he
        refine ⟨fun hk => ?_, fun hk => ?_⟩
        · exact Props.C07R.execBlockR_mem_nonce hR htm hk (by rw [h.len]; exact hreg t (List.mem_of_getElem? ht) hk)
        · rw [Props.C07R.execBlockR_spentImgs hR]
          apply List.mem_append_right
          unfold Props.C07.imgsOf
          exact List.mem_map.mpr ⟨t, List.mem_filter.mpr ⟨htm, by simp [hk]⟩, rfl⟩

theorem step_hist {reg : List TxRec} {cfg : Cfg} {p : Pool} (hreg : SendersOK reg cfg.accts) (h : Hist reg cfg p) (op : Op) :
    Hist reg cfg (step reg p op) := by
  cases op with
  | submit id =>
    simp only [step]
    cases ht : reg[id]? with
    | none => exact h
    | some t =>
      have hi := addTx_inv (e := { id := id, t := t }) h.inv
      exact ⟨hi.1, addTx_all h.created ht, by rw [hi.2.1]; exact h.len, by rw [hi.2.2]; exact h.cfg_eq, by rw [hi.2.1]; exact h.comm⟩
  | reap max => exact h
  | commit max =>
    simp only [step]
    cases hc : commitEntries p (reap p max) with
    | none => exact h
    | some p' => exact commit_hist hreg h _ (reap_created h.created max) hc
  | force ids =>
    simp only [step, forceEntries]
    split
    · exact h
    · cases hc : commitEntries p (entries reg ids) with
      | none => exact h
      | some p' => exact commit_hist hreg h _ (entries_created reg ids) hc

theorem run_hist {reg : List TxRec} {cfg : Cfg} (hreg : SendersOK reg cfg.accts) : ∀ (ops : List Op) (p : Pool), Hist reg cfg p →
    Hist reg cfg (run reg p ops) := by
  intro ops
  induction ops with
  | nil => intro p h; exact h
  | cons op r ih => intro p h; exact ih _ (step_hist hreg h op)

theorem init_hist (reg : List TxRec) (cfg : Cfg) (w : Nat) (bal tbal : Int) : Hist reg cfg (Model.Mempool.init cfg w bal tbal) := by
  refine ⟨init_inv cfg w bal tbal, init_all reg cfg w bal tbal, ?_, rfl, ?_⟩
  · simp [Model.Mempool.init, Model.Ledger.init]
  · intro id hid; simp [Model.Mempool.init, Model.Ledger.init] at hid

/-- in a pool satisfying `Hist`, the reaped list has pairwise distinct ids and none of them is in a committed block -/
theorem reap_ids_of_hist {reg : List TxRec} {cfg : Cfg} {p : Pool} (hreg : SendersOK reg cfg.accts) (h : Hist reg cfg p) (max : Nat) :
    ((reap p max).map (·.id)).Nodup ∧ ∀ e ∈ reap p max, e.id ∉ p.c.blocks.flatten := by
  obtain ⟨k, j, a, hs, hrun⟩ := reap_sequential h.inv max
  have hcr := reap_created h.created max
  have hsame : ∀ e₁ ∈ reap p max, ∀ e₂ ∈ reap p max, e₁.id = e₂.id → e₁.t = e₂.t := by
    intro e₁ h1 e₂ h2 hid
    have c1 := hcr e₁ h1; have c2 := hcr e₂ h2
    unfold Created at c1 c2
    rw [hid, c2] at c1
    exact (Option.some.inj c1).symm
  have hgood_in : ∀ e ∈ p.good.take k, e.t.kind ≠ .uin ∧ e.t.from_ < p.c.nonce.length := by
    intro e he
    have hm := List.mem_of_mem_take he
    have hk := h.inv.gkind e hm
    refine ⟨hk, ?_⟩
    rw [h.len]
    exact hreg e.t (List.mem_of_getElem? (h.created.good e hm)) hk
  have hpw := runAcc_pairwise _ _ _ hrun (by
    intro t ht; obtain ⟨e, he, rfl⟩ := List.mem_map.mp ht; exact (hgood_in e he).2)
  rw [List.pairwise_map] at hpw
  have hutxo : ∀ e ∈ p.utxo.take j, e.t.kind = .uin ∧ e.t.spends ∉ p.c.spentImgs := by
    intro e he
    have hm := List.mem_of_mem_take he
    exact ⟨h.inv.ukind e hm, h.inv.fresh _ (by rw [h.inv.imgs]; exact List.mem_map_of_mem hm)⟩
  have hund : ((p.utxo.take j).map (·.t.spends)).Nodup := by
    have := h.inv.nodup
    rw [h.inv.imgs] at this
    exact this.sublist ((List.take_sublist j _).map _)
  constructor
  · -- distinct ids
    unfold List.Nodup
    rw [List.pairwise_map]
    have hall : (reap p max).Pairwise (fun e₁ e₂ => e₁.t ≠ e₂.t) := by
      rw [hs, List.pairwise_append]
      refine ⟨hpw.imp (fun {x y} hxy heq => ?_), ?_, ?_⟩
      · have := hxy (by rw [heq]); rw [heq] at this; exact Nat.lt_irrefl _ this
      · unfold List.Nodup at hund
        rw [List.pairwise_map] at hund
        exact hund.imp (fun {x y} hxy heq => hxy (by rw [heq]))
      · intro x hx y hy heq
        exact (hgood_in x hx).1 (by rw [heq]; exact (hutxo y hy).1)
    exact hall.imp_of_mem (fun {x y} hx hy hne hid => hne (hsame x hx y hy hid))
  · -- none committed
    intro e he hmem
    have hc := hcr e he
    obtain ⟨k1, k2⟩ := h.comm e.id hmem e.t hc
    rw [hs] at he
    rcases List.mem_append.mp he with h1 | h1
    · have hst := pending_not_stale h.inv e (List.mem_of_mem_take h1)
      have := k1 (hgood_in e h1).1
      omega
    · exact (hutxo e h1).2 (k2 (hutxo e h1).1)

/-- **reap_distinct + reap_not_committed over transaction ids**: after every history (senders of registered account
transactions being accounts of the ledger), for every cap, the reaped list of ids has no duplicate and contains no id of a
committed block of that history -/
theorem reap_distinct_not_committed (reg : List TxRec) (cfg : Cfg) (hreg : SendersOK reg cfg.accts) (w : Nat) (bal tbal : Int)
    (ops : List Op) (max : Nat) :
    let p := run reg (Model.Mempool.init cfg w bal tbal) ops
    ((reap p max).map (·.id)).Nodup ∧ ∀ e ∈ reap p max, e.id ∉ p.c.blocks.flatten :=
  reap_ids_of_hist hreg (run_hist hreg ops _ (init_hist reg cfg w bal tbal)) max

/-- non-vacuity: two submissions, a commit, a third submission: the committed block is recorded and the reap offers the new id -/
example : SendersOK witnessReg 2 ∧
    (witnessPool [.submit 2, .submit 1, .commit 1, .submit 0]).c.blocks = [[2]] ∧
    ((reap (witnessPool [.submit 2, .submit 1, .commit 1, .submit 0]) 100).map (·.id)) = [1] := by
  refine ⟨?_, by decide, by decide⟩
  intro t ht hk
  simp [witnessReg] at ht
  rcases ht with rfl | rfl | rfl <;> decide

/-! ## (d) closed forms per account, without any hypothesis on the pooled transactions -/

/-- `runAcc_gapfree` for ONE sender that is an account of the ledger (nothing is assumed about the other transactions) -/
theorem runAcc_gapfree_at : ∀ (l : List TxRec) (a a' : Acc) (s : Nat), runAcc a l = some a' → s < a.nonce.length →
    (ofSender s l).map (·.nonce) = List.range' (getn a.nonce s) (ofSender s l).length := by
  intro l
  induction l with
  | nil => intro a a' s _ _; simp [ofSender]
  | cons t r ih =>
    intro a a' s h hs
    unfold runAcc at h
    split at h
    · rename_i hok
      obtain ⟨hn, _, he⟩ := checkAcc_ok hok
      have := ih _ a' s h (by rw [he, (debit_lengths a t).1]; exact hs)
      rw [he, debit_nonce, getn_setN] at this
      unfold ofSender at this ⊢
      by_cases hst : t.from_ = s
      · subst hst
        simp only [List.filter_cons, beq_self_eq_true, if_true, List.map_cons, List.length_cons]
        rw [this]
        simp [hs, hn, List.range'_succ]
      · have hb : (t.from_ == s) = false := by simpa using hst
        simp only [List.filter_cons, hb]
        simpa [hst] using this
    · cases h

theorem runAcc_funded_at : ∀ (l : List TxRec) (a a' : Acc) (s : Nat), runAcc a l = some a' → s < a.bal.length →
    ofSender s l = [] ∨ ((ofSender s l).map costN).sum ≤ geti a.bal s := by
  intro l
  induction l with
  | nil => intro a a' s _ _; left; rfl
  | cons t r ih =>
    intro a a' s h hs
    unfold runAcc at h
    split at h
    · rename_i hok
      obtain ⟨_, hp, he⟩ := checkAcc_ok hok
      have := ih _ a' s h (by rw [he, (debit_lengths a t).2]; exact hs)
      rw [he, debit_bal, geti_addAt] at this
      have hc := canPay_cost hp
      unfold ofSender at this ⊢
      by_cases hst : t.from_ = s
      · subst hst
        right
        simp only [List.filter_cons, beq_self_eq_true, if_true, List.map_cons, List.sum_cons]
        rcases this with h0 | h1
        · rw [h0]; simp; exact hc
        · simp only [hs, and_self, if_true] at h1; omega
      · have hb : (t.from_ == s) = false := by simpa using hst
        simp only [List.filter_cons, hb]
        simpa [hst] using this
    · cases h

/-- **reap_gapfree / reap_funded, closed form, per account**: after every history and for every cap, for EVERY account `s` of
the committed ledger the reaped transactions of `s` carry the nonces committed.nonce, +1, +2, … in offer order and cost
together at most the committed balance.  No hypothesis on the registry or on the pooled transactions (a sender index
beyond the ledger's lists is not an account: the model reads nonce 0 / balance 0 for it and never writes). -/
theorem reap_gapfree_funded_account (reg : List TxRec) (cfg : Cfg) (w : Nat) (bal tbal : Int) (ops : List Op) (max : Nat) :
    let p := run reg (Model.Mempool.init cfg w bal tbal) ops
    ∃ k j, reap p max = p.good.take k ++ p.utxo.take j ∧
      (∀ s, s < p.c.nonce.length → (ofSender s ((p.good.take k).map (·.t))).map (·.nonce) =
                List.range' (getn p.c.nonce s) (ofSender s ((p.good.take k).map (·.t))).length) ∧
      (∀ s, s < p.c.bal.length → (ofSender s ((p.good.take k).map (·.t)) = [] ∨
                ((ofSender s ((p.good.take k).map (·.t))).map costN).sum ≤ geti p.c.bal s)) := by
  intro p
  obtain ⟨k, j, a, hs, hrun⟩ := reap_sequential (inv_after_every_history reg cfg w bal tbal ops) max
  exact ⟨k, j, hs, fun s h => runAcc_gapfree_at _ _ _ s hrun h, fun s h => runAcc_funded_at _ _ _ s hrun h⟩

/-! ## (a) promotion: what is proved, what is still monitored

`promote_facts` shows that one `promoteExecutables([a])` leaves no queued entry of `a` below `a`'s speculative nonce, only
moves entries from the queue to goodTxs, and never lowers a nonce.  `readyRun_spec` shows that `Ready` takes the WHOLE
consecutive run from the speculative nonce (it stops only at the room left in goodTxs or at the first missing nonce), and
`promote_consumes_ready` that every entry of that run leaves the queue (promoted or dropped).  The global clause
"after every operation, while goodTxs has room, no queued transaction of an account sits exactly at its sender's speculative
nonce" needs in addition the uniqueness of (sender, nonce) slots in the queue and the arithmetic of the promotion loop; it is
checked by the monitor `promotion_complete` after every op of every case and is not yet a theorem. -/

theorem readyRun_spec (fut : List E) (a : Nat) : ∀ (cnt start : Nat),
    (readyRun fut a start cnt).map (·.t.nonce) = List.range' start (readyRun fut a start cnt).length ∧
    (∀ e ∈ readyRun fut a start cnt, e.t.from_ = a) ∧
    ((readyRun fut a start cnt).length < cnt →
      fut.find? (fun x => sameSlot x a (start + (readyRun fut a start cnt).length)) = none) := by
  intro cnt
  induction cnt with
  | zero => intro start; simp [readyRun]
  | succ k ih =>
    intro start
    unfold readyRun
    split
    · rename_i hnone; simp [hnone]
    · rename_i e he
      obtain ⟨h1, h2, h3⟩ := ih (start + 1)
      have hslot := List.find?_some he
      simp only [sameSlot, Bool.and_eq_true, beq_iff_eq] at hslot
      refine ⟨?_, ?_, ?_⟩
      · simp only [List.map_cons, List.length_cons, List.range'_succ, h1, hslot.2]
      · intro x hx
        rcases List.mem_cons.mp hx with rfl | hx'
        · exact hslot.1
        · exact h2 x hx'
      · intro hlt
        simp only [List.length_cons] at hlt ⊢
        have := h3 (by omega)
        rw [show start + ((readyRun fut a (start + 1) k).length + 1) = start + 1 + (readyRun fut a (start + 1) k).length by omega]
        exact this

/-- every entry `Ready` returned leaves the queue: it is appended to goodTxs or forgotten, never left behind -/
theorem promote_consumes_ready (p : Pool) (a : Nat) (hroom : p.cfg.size - p.good.length ≠ 0) :
    ∀ e ∈ (promote p a).fut, e.id ∉ (readyRun (p.fut.filter (fun e => !(e.t.from_ == a && decide (e.t.nonce < getn p.acc.nonce a))))
      a (getn p.acc.nonce a) (p.cfg.size - p.good.length)).map (·.id) := by
  unfold promote
  simp only [hroom, if_false]
  intro e he
  have := (List.mem_filter.mp he).2
  simpa using this

end Props.C15
