/-
C01, layer L-B: theorems about the executable node model `Model.Node` (the model that is compared step by step with the
real `consensus.ConsensusState`).

The statements are about `stepCore`/`step`/`run` of the model.  Two hypotheses appear:
* `W s` (well-formed state): `s.step ≤ 9` and, when locked, `lockedRound*16+6 ≤ round*16+step` (the lock was taken by
  `enterPrecommit` of a round the node has been through).  `W` holds initially and is preserved by every step (`step_W`).
* `WellTimed s i`: a timeout input for the node's height is for a round `≤ s.round`.  The real ticker only fires timeouts the node scheduled, and it
  schedules them for its current round; rounds never decrease.  WITHOUT this hypothesis the discipline is false of the model
  (and of the code): `enterPrevote`/`enterPrecommit(height, round)` sign with `cs.Round`, not with their `round` argument, so a
  timeout for a future round makes the node vote a second time in its current round — `votes_once_needs_timed` is the witness.
-/
import LinkVerif.Model.Node

namespace Props.C01Node
open Model.Node

/-! ## measure, stamps, justification -/

/-- `(round, step)` as one number (steps are `≤ 9`) -/
def mu (s : St) : Nat := s.round * 16 + s.step

/-- the `(round, type)` slot of a vote as a number comparable with `mu`: prevote = step 4, precommit = step 6 -/
def stamp : Out → Option Nat
  | .vote t _ r _ => some (r * 16 + (if t = tPrevote then 4 else 6))
  | _ => none

/-- the vote slots of the outputs strictly increase from `m` and end at or below `m'` -/
def Chain : Nat → List Out → Nat → Prop
  | m, [], m' => m ≤ m'
  | m, o :: rest, m' =>
    match stamp o with
    | none => Chain m rest m'
    | some k => m < k ∧ Chain k rest m'

/-- well-formed state -/
def W (s : St) : Prop := s.step ≤ 9 ∧ (s.lockedValue ≠ 0 → s.lockedRound * 16 + 6 ≤ mu s)

/-- the lock `(lv, lr)` is released by the prevote table `tbl`: a +2/3 majority for something else at a round in `(lr, R]` -/
def Released (tbl : Nat → VSet) (lv lr R : Nat) : Prop :=
  ∃ r' b, lr < r' ∧ r' ≤ R ∧ (tbl r').maj23 = some b ∧ b ≠ lv

/-- what the code does with the lock between two states: keep the block (the locked round may grow: relock), or there is a
releasing polka at a round in `(lockedRound, current round]` -/
def LockEv (tbl : Nat → VSet) (s s' : St) : Prop :=
  s.lockedValue ≠ 0 →
    (s'.lockedValue = s.lockedValue ∧ s.lockedRound ≤ s'.lockedRound) ∨ Released tbl s.lockedValue s.lockedRound s'.round

/-- justification of one output against the vote tables `pvs`/`pcs` and the state `s` the step started from -/
def Just (pvs pcs : Nat → VSet) (s : St) : Out → Prop
  | .vote t h r v =>
      h = s.height ∧ mu s < r * 16 + (if t = tPrevote then 4 else 6) ∧
      (t = tPrecommit → v ≠ 0 → (pvs r).maj23 = some v) ∧
      (t = tPrevote → s.lockedValue ≠ 0 → v = s.lockedValue ∨ Released pvs s.lockedValue s.lockedRound r)
  | .commit h r v => h = s.height ∧ v ≠ 0 ∧ (pcs r).maj23 = some v
  | _ => True

/-- a precommit for block `v` at round `r` is still HELD by the state: the node is locked on `v` at a round `≥ r`, or the
prevote table has a +2/3 majority for something else at a round in `(r, current round]` -/
def Held (tbl : Nat → VSet) (s : St) (v r : Nat) : Prop :=
  (s.lockedValue = v ∧ r ≤ s.lockedRound) ∨ Released tbl v r s.round

/-- within one list of outputs: a prevote emitted AFTER a precommit for block `v` at round `r` is for `v`, or the table has a
+2/3 majority for something else at a round in `(r, r']` -/
def D3C (tbl : Nat → VSet) : List Out → Prop
  | [] => True
  | o :: rest =>
    (∀ h r v, o = Out.vote tPrecommit h r v → v ≠ 0 →
        ∀ h' r' v', Out.vote tPrevote h' r' v' ∈ rest → v' = v ∨ Released tbl v r r') ∧ D3C tbl rest

/-- `D3C` across two lists -/
def D3X (tbl : Nat → VSet) (l₁ l₂ : List Out) : Prop :=
  ∀ h r v, Out.vote tPrecommit h r v ∈ l₁ → v ≠ 0 → ∀ h' r' v', Out.vote tPrevote h' r' v' ∈ l₂ → v' = v ∨ Released tbl v r r'

theorem D3C_append {tbl : Nat → VSet} : ∀ {l₁ l₂ : List Out}, D3C tbl l₁ → D3C tbl l₂ → D3X tbl l₁ l₂ → D3C tbl (l₁ ++ l₂)
  | [], _, _, h2, _ => by simpa using h2
  | o :: rest, l₂, h1, h2, hx => by
    simp only [List.cons_append, D3C] at h1 ⊢
    refine ⟨?_, D3C_append h1.2 h2 (fun h r v hm => hx h r v (List.mem_cons_of_mem _ hm))⟩
    intro h r v ho hv h' r' v' hm
    rcases List.mem_append.1 hm with hm | hm
    · exact h1.1 h r v ho hv h' r' v' hm
    · exact hx h r v (by rw [ho]; simp) hv h' r' v' hm

theorem D3C_split {tbl : Nat → VSet} : ∀ {pre post : List Out} {o : Out}, D3C tbl (pre ++ o :: post) →
    ∀ h r v, Out.vote tPrecommit h r v ∈ pre → v ≠ 0 → ∀ h' r' v', o = Out.vote tPrevote h' r' v' → v' = v ∨ Released tbl v r r'
  | [], _, _, _, _, _, _, hm, _, _, _, _, _ => by cases hm
  | x :: rest, post, o, hd, h, r, v, hm, hv, h', r', v', ho => by
    simp only [List.cons_append, D3C] at hd
    rcases List.mem_cons.1 hm with e | hm'
    · exact hd.1 h r v e.symm hv h' r' v' (by rw [ho]; simp)
    · exact D3C_split hd.2 h r v hm' hv h' r' v' ho

/-- the relation every internal transition of the model satisfies (vote tables untouched) -/
def G (s s' : St) : Prop :=
  W s → W s' ∧ s'.height = s.height ∧ (∀ q, s'.rv q = s.rv q) ∧ mu s ≤ mu s' ∧ LockEv s.pvs s s' ∧ s'.powers = s.powers ∧
    ∃ new, s'.out = s.out ++ new ∧ Chain (mu s) new (mu s') ∧ (∀ o ∈ new, Just s.pvs s.pcs s o) ∧
      (∀ h r v, Out.vote tPrecommit h r v ∈ new → v ≠ 0 → Held s.pvs s' v r) ∧ D3C s.pvs new ∧
      (∀ h r st, Out.timeout h r st ∈ new → h = s.height ∧ r ≤ s'.round)

theorem Chain_mono_start {a b : Nat} (hab : a ≤ b) : ∀ {l : List Out} {m : Nat}, Chain b l m → Chain a l m
  | [], _, h => by simp [Chain] at *; omega
  | o :: rest, m, h => by
    cases hs : stamp o with
    | none => simp [Chain, hs] at *; exact Chain_mono_start hab h
    | some k => simp [Chain, hs] at *; exact ⟨by omega, h.2⟩

theorem Chain_append : ∀ {l₁ l₂ : List Out} {a b c : Nat}, Chain a l₁ b → Chain b l₂ c → Chain a (l₁ ++ l₂) c
  | [], _, _, _, _, h1, h2 => by simp [Chain] at h1; simpa using Chain_mono_start h1 h2
  | o :: rest, l₂, a, b, c, h1, h2 => by
    cases hs : stamp o with
    | none => simp [Chain, hs] at *; exact Chain_append h1 h2
    | some k => simp [Chain, hs] at *; exact ⟨h1.1, Chain_append h1.2 h2⟩

theorem Chain_le : ∀ {l : List Out} {a b : Nat}, Chain a l b → a ≤ b
  | [], _, _, h => by simpa [Chain] using h
  | o :: rest, a, b, h => by
    cases hs : stamp o with
    | none => simp [Chain, hs] at h; exact Chain_le h
    | some k => simp [Chain, hs] at h; have := Chain_le h.2; omega

/-- every stamped output of a chain lies in `(a, b]` -/
theorem Chain_mem : ∀ {l : List Out} {a b : Nat}, Chain a l b → ∀ o ∈ l, ∀ k, stamp o = some k → a < k ∧ k ≤ b
  | [], _, _, _, o, ho, _, _ => by cases ho
  | x :: rest, a, b, h, o, ho, k, hk => by
    cases hs : stamp x with
    | none =>
      simp [Chain, hs] at h
      rcases List.mem_cons.1 ho with rfl | ho'
      · simp [hs] at hk
      · exact Chain_mem h o ho' k hk
    | some kx =>
      simp [Chain, hs] at h
      rcases List.mem_cons.1 ho with rfl | ho'
      · have : kx = k := by simpa [hs] using hk
        subst this; exact ⟨h.1, Chain_le h.2⟩
      · have := Chain_mem h.2 o ho' k hk; omega

/-- two stamped outputs of a chain at different positions have different stamps: here, equal stamps force equal outputs' positions;
we only need the consequence for membership: the stamps of a chain are pairwise distinct as a list -/
theorem Chain_nodup : ∀ {l : List Out} {a b : Nat}, Chain a l b → (l.filterMap stamp).Pairwise (· < ·)
  | [], _, _, _ => by simp
  | x :: rest, a, b, h => by
    cases hs : stamp x with
    | none => simp [Chain, hs] at h; simpa [List.filterMap_cons, hs] using Chain_nodup h
    | some kx =>
      simp [Chain, hs] at h
      simp only [List.filterMap_cons, hs, List.pairwise_cons]
      refine ⟨?_, Chain_nodup h.2⟩
      intro k hk
      rcases List.mem_filterMap.1 hk with ⟨o, ho, hok⟩
      exact (Chain_mem h.2 o ho k hok).1

theorem round_le_of_mu {s s' : St} (h : mu s ≤ mu s') (hw : s'.step ≤ 9) : s.round ≤ s'.round := by
  unfold mu at h; omega

theorem Released_mono {tbl : Nat → VSet} {lv lr lr' R R' : Nat} (h : Released tbl lv lr' R) (hl : lr ≤ lr') (hR : R ≤ R') :
    Released tbl lv lr R' := by
  rcases h with ⟨r', b, h1, h2, h3, h4⟩
  exact ⟨r', b, by omega, by omega, h3, h4⟩

theorem G.refl (s : St) : G s s := by
  intro hw
  refine ⟨hw, rfl, fun _ => rfl, Nat.le_refl _, ?_, rfl, [], by simp, by simp [Chain], by simp, by simp, by simp [D3C], by simp⟩
  intro h; exact Or.inl ⟨rfl, Nat.le_refl _⟩

theorem pvs_eq_of_rv {a b : St} (h : ∀ q, b.rv q = a.rv q) : b.pvs = a.pvs := by
  funext q; simp [St.pvs, h q]

theorem pcs_eq_of_rv {a b : St} (h : ∀ q, b.rv q = a.rv q) : b.pcs = a.pcs := by
  funext q; simp [St.pcs, h q]

theorem G.trans {a b c : St} (h1 : G a b) (h2 : G b c) : G a c := by
  intro hwa
  obtain ⟨hwb, hh1, hrv1, hmu1, hlev1, hp1, new1, hout1, hch1, hj1, hk1, hd1, ht1⟩ := h1 hwa
  obtain ⟨hwc, hh2, hrv2, hmu2, hlev2, hp2, new2, hout2, hch2, hj2, hk2, hd2, ht2⟩ := h2 hwb
  have hpv : b.pvs = a.pvs := pvs_eq_of_rv hrv1
  have hpc : b.pcs = a.pcs := pcs_eq_of_rv hrv1
  have hrbc : b.round ≤ c.round := round_le_of_mu hmu2 hwc.1
  refine ⟨hwc, by rw [hh2, hh1], fun q => by rw [hrv2 q, hrv1 q], Nat.le_trans hmu1 hmu2, ?_, by rw [hp2, hp1], new1 ++ new2,
    by rw [hout2, hout1, List.append_assoc], Chain_append hch1 hch2, ?_, ?_, ?_, ?_⟩
  · -- lock evolution
    intro hlv
    rcases hlev1 hlv with ⟨e1, e2⟩ | hrel
    · have hlvb : b.lockedValue ≠ 0 := by rw [e1]; exact hlv
      rcases hlev2 hlvb with ⟨f1, f2⟩ | hrel2
      · exact Or.inl ⟨by rw [f1, e1], Nat.le_trans e2 f2⟩
      · right
        rw [hpv, e1] at hrel2
        exact Released_mono hrel2 e2 (Nat.le_refl _)
    · exact Or.inr (Released_mono hrel (Nat.le_refl _) hrbc)
  · intro o ho
    rcases List.mem_append.1 ho with ho | ho
    · exact hj1 o ho
    · have hj := hj2 o ho
      cases o with
      | vote t h r v =>
        simp only [Just] at hj ⊢
        obtain ⟨j1, j2, j3, j4⟩ := hj
        refine ⟨by rw [j1, hh1], by omega, ?_, ?_⟩
        · intro ht hv; rw [← hpv]; exact j3 ht hv
        · intro ht hlv
          have hbr : b.round ≤ r := by
            have : b.round * 16 ≤ mu b := by unfold mu; omega
            subst ht; simp [tPrevote] at j2; omega
          rcases hlev1 hlv with ⟨e1, e2⟩ | hrel
          · have hlvb : b.lockedValue ≠ 0 := by rw [e1]; exact hlv
            rcases j4 ht hlvb with hv | hrel2
            · exact Or.inl (by rw [hv, e1])
            · right
              rw [hpv, e1] at hrel2
              exact Released_mono hrel2 e2 (Nat.le_refl _)
          · exact Or.inr (Released_mono hrel (Nat.le_refl _) hbr)
      | commit h r v =>
        simp only [Just] at hj ⊢
        exact ⟨by rw [hj.1, hh1], hj.2.1, by rw [← hpc]; exact hj.2.2⟩
      | proposal h r pol v => simp [Just]
      | timeout h r st => simp [Just]
  · -- precommits stay held
    intro h r v hm hv
    rcases List.mem_append.1 hm with hm | hm
    · rcases hk1 h r v hm hv with ⟨e1, e2⟩ | hrel
      · have hlvb : b.lockedValue ≠ 0 := by rw [e1]; exact hv
        rcases hlev2 hlvb with ⟨f1, f2⟩ | hrel2
        · exact Or.inl ⟨by rw [f1, e1], Nat.le_trans e2 f2⟩
        · right
          rw [hpv, e1] at hrel2
          exact Released_mono hrel2 e2 (Nat.le_refl _)
      · exact Or.inr (Released_mono hrel (Nat.le_refl _) hrbc)
    · have := hk2 h r v hm hv
      rw [hpv] at this; exact this
  · -- a prevote after a precommit
    refine D3C_append hd1 (by rw [← hpv]; exact hd2) ?_
    intro h r v hm hv h' r' v' hm'
    have hj : _ ∧ _ ∧ _ ∧ _ := hj2 _ hm'
    obtain ⟨_, j2, _, j4⟩ := hj
    have hbr : b.round ≤ r' := by
      have : b.round * 16 ≤ mu b := by unfold mu; omega
      simp at j2; omega
    rcases hk1 h r v hm hv with ⟨e1, e2⟩ | hrel
    · have hlvb : b.lockedValue ≠ 0 := by rw [e1]; exact hv
      rcases j4 rfl hlvb with e | hrel2
      · exact Or.inl (by rw [e, e1])
      · right
        rw [hpv, e1] at hrel2
        exact Released_mono hrel2 e2 (Nat.le_refl _)
    · exact Or.inr (Released_mono hrel (Nat.le_refl _) hbr)
  · -- scheduled timeouts are for the node's height and a round it has reached
    intro h r st hm
    rcases List.mem_append.1 hm with hm | hm
    · have := ht1 h r st hm; exact ⟨this.1, Nat.le_trans this.2 hrbc⟩
    · have := ht2 h r st hm; exact ⟨by rw [this.1, hh1], this.2⟩

/-! ## the internal transitions satisfy `G` -/

theorem G_die (s : St) : G s (die s) := by
  intro hw
  refine ⟨hw, rfl, fun _ => rfl, Nat.le_refl _, ?_, rfl, [], by simp [die], by simp [Chain, die, mu], by simp, by simp, by simp [D3C], by simp⟩
  intro h; exact Or.inl ⟨rfl, Nat.le_refl _⟩

theorem enterPrevote_G (s : St) (h r : Nat) (hr : r ≤ s.round) : G s (enterPrevote s h r) := by
  unfold enterPrevote
  split
  · exact G.refl s
  split
  · exact G.refl s
  rename_i hd hg
  have hr' : r = s.round := by omega
  have hst : s.step < 4 := by simp [sPrevote] at hg; omega
  subst hr'
  intro hw
  have key : ∃ v, doPrevote s = emit s (.vote tPrevote s.height s.round v) ∧ (s.lockedValue ≠ 0 → v = s.lockedValue) := by
    unfold doPrevote signAddVote
    split
    · exact ⟨_, rfl, fun _ => rfl⟩
    rename_i hl
    split
    · exact ⟨_, rfl, fun h => absurd h hl⟩
    split
    · exact ⟨_, rfl, fun h => absurd h hl⟩
    split
    · exact ⟨_, rfl, fun h => absurd h hl⟩
    · exact ⟨_, rfl, fun h => absurd h hl⟩
  obtain ⟨v, hv, hlk⟩ := key
  rw [hv]
  refine ⟨?_, rfl, fun _ => rfl, ?_, ?_, rfl, [.vote tPrevote s.height s.round v], by simp [emit], ?_, ?_, ?_, by simp [D3C], by simp⟩
  · refine ⟨by simp [emit, sPrevote], fun hl => ?_⟩
    have := hw.2 hl
    simp [emit, mu, sPrevote] at this ⊢; omega
  · simp [emit, mu, sPrevote]; omega
  · intro hl; exact Or.inl ⟨rfl, Nat.le_refl _⟩
  · simp [Chain, stamp, tPrevote, emit, mu, sPrevote]; omega
  · intro o ho
    simp at ho; subst ho
    refine ⟨rfl, ?_, ?_, fun _ hl => Or.inl (hlk hl)⟩
    · simp [tPrevote, mu]; omega
    · intro ht; simp [tPrevote, tPrecommit] at ht
  · intro h' r' v' hm; simp [tPrevote, tPrecommit] at hm

theorem Chain_plain : ∀ {l : List Out} {a b : Nat}, a ≤ b → (∀ o ∈ l, stamp o = none) → Chain a l b
  | [], _, _, h, _ => by simpa [Chain] using h
  | o :: rest, a, b, h, hn => by
    have h1 := hn o (by simp)
    simp only [Chain, h1]
    exact Chain_plain h (fun o' ho' => hn o' (by simp [ho']))

theorem D3C_plain {tbl : Nat → VSet} : ∀ {new : List Out},
    (∀ o ∈ new, (∃ h r pol v, o = .proposal h r pol v) ∨ (∃ h r st, o = .timeout h r st)) → D3C tbl new
  | [], _ => trivial
  | o :: rest, hn => by
    refine ⟨?_, D3C_plain (fun o' ho' => hn o' (List.mem_cons_of_mem _ ho'))⟩
    intro h r v ho
    rcases hn o (by simp) with ⟨_, _, _, _, e⟩ | ⟨_, _, _, e⟩ <;> rw [e] at ho <;> cases ho

/-- a transition that leaves height, vote tables and lock alone and emits only proposals/timeouts -/
theorem G_plain {s s' : St} (new : List Out) (hh : s'.height = s.height) (hrv : s'.rvs = s.rvs)
    (hlv : s'.lockedValue = s.lockedValue) (hlr : s'.lockedRound = s.lockedRound) (hmu : mu s ≤ mu s') (hst : s'.step ≤ 9)
    (hpow : s'.powers = s.powers) (hout : s'.out = s.out ++ new) (hnew : ∀ o ∈ new, (∃ h r pol v, o = .proposal h r pol v) ∨ (∃ h r st, o = .timeout h r st))
    (htm : ∀ h r st, Out.timeout h r st ∈ new → h = s.height ∧ r ≤ s'.round) :
    G s s' := by
  intro hw
  refine ⟨⟨hst, fun hl => ?_⟩, hh, fun q => by simp [St.rv, hrv], hmu, fun _ => Or.inl ⟨hlv, by omega⟩, hpow, new, hout, ?_, ?_, ?_, ?_, htm⟩
  · rw [hlv] at hl; have := hw.2 hl; rw [hlr]; omega
  · apply Chain_plain hmu
    intro o ho
    rcases hnew o ho with ⟨_, _, _, _, rfl⟩ | ⟨_, _, _, rfl⟩ <;> rfl
  · intro o ho
    rcases hnew o ho with ⟨_, _, _, _, rfl⟩ | ⟨_, _, _, rfl⟩ <;> simp [Just]
  · intro h r v hm
    rcases hnew _ hm with ⟨_, _, _, _, e⟩ | ⟨_, _, _, e⟩ <;> cases e
  · exact D3C_plain hnew

theorem decideProposal_cases (s : St) (h r : Nat) :
    decideProposal s h r = s ∨ ∃ pol v, decideProposal s h r = emit s (.proposal h r pol v) := by
  unfold decideProposal
  generalize (if s.lockedValue ≠ 0 then s.lockedValue else if s.validValue ≠ 0 then s.validValue else s.fresh) = v
  by_cases hv : v = 0
  · left; simp [hv]
  · right; exact ⟨polInfo s, v, by simp [hv]⟩

theorem proposeCore_fields (s : St) (h r : Nat) :
    (proposeCore s h r).round = r ∧ (proposeCore s h r).step = sPropose ∧ (proposeCore s h r).height = s.height ∧
    (proposeCore s h r).rvs = s.rvs ∧ (proposeCore s h r).lockedValue = s.lockedValue ∧ (proposeCore s h r).lockedRound = s.lockedRound ∧
    (proposeCore s h r).dead = s.dead ∧ (proposeCore s h r).powers = s.powers ∧
    ((proposeCore s h r).out = s.out ++ [.timeout h r sPropose] ∨ ∃ pol v, (proposeCore s h r).out = s.out ++ [.timeout h r sPropose, .proposal h r pol v]) := by
  unfold proposeCore
  simp only
  split
  · rcases decideProposal_cases (emit s (.timeout h r sPropose)) h r with e | ⟨pol, v, e⟩
    · rw [e]; simp [emit]
    · rw [e]; simp [emit]
  · simp [emit]

theorem proposeCore_G (s : St) (h : Nat) (hst : s.step < 3) (hh : s.height = h) : G s (proposeCore s h s.round) := by
  obtain ⟨f1, f2, f3, f4, f5, f6, _, fp, f8⟩ := proposeCore_fields s h s.round
  have hmu : mu s ≤ mu (proposeCore s h s.round) := by simp [mu, f1, f2, sPropose]; omega
  rcases f8 with e | ⟨pol, v, e⟩
  · refine G_plain _ f3 f4 f5 f6 hmu (by simp [f2, sPropose]) fp e ?_ ?_
    · intro o ho; simp at ho; subst ho; exact Or.inr ⟨_, _, _, rfl⟩
    · intro h' r' st' hm; simp at hm; obtain ⟨e1, e2, _⟩ := hm; subst e1; subst e2; exact ⟨hh.symm, by rw [f1]; exact Nat.le_refl _⟩
  · refine G_plain _ f3 f4 f5 f6 hmu (by simp [f2, sPropose]) fp e ?_ ?_
    · intro o ho; simp at ho; rcases ho with rfl | rfl
      · exact Or.inr ⟨_, _, _, rfl⟩
      · exact Or.inl ⟨_, _, _, _, rfl⟩
    · intro h' r' st' hm; simp at hm; obtain ⟨e1, e2, _⟩ := hm; subst e1; subst e2; exact ⟨hh.symm, by rw [f1]; exact Nat.le_refl _⟩

theorem enterPropose_G (s : St) (h r : Nat) (hr : r ≤ s.round) : G s (enterPropose s h r) := by
  unfold enterPropose
  split
  · exact G.refl s
  split
  · exact G.refl s
  rename_i hd hg
  have hr' : r = s.round := by omega
  have hst : s.step < 3 := by simp [sPropose] at hg; omega
  subst hr'
  have hh : s.height = h := by simp at hg; exact hg.1
  simp only
  split
  · exact G.trans (proposeCore_G s h hst hh) (enterPrevote_G _ _ _ (Nat.le_refl _))
  · exact proposeCore_G s h hst hh

theorem alookup_append_empty (acc : List (Nat × RV)) (k q : Nat) :
    (alookup (acc ++ [(k, RV.empty)]) q).getD RV.empty = (alookup acc q).getD RV.empty := by
  induction acc with
  | nil => simp only [List.nil_append, alookup]; split <;> rfl
  | cons x rest ih =>
    obtain ⟨k', a⟩ := x
    simp only [List.cons_append, alookup]
    split
    · rfl
    · exact ih

theorem setRound_fold_rv (base q : Nat) : ∀ (l : List Nat) (acc : List (Nat × RV)),
    (alookup (l.foldl (fun acc k => match alookup acc (base + 1 + k) with
        | some _ => acc
        | none => acc ++ [(base + 1 + k, RV.empty)]) acc) q).getD RV.empty = (alookup acc q).getD RV.empty
  | [], acc => rfl
  | k :: rest, acc => by
    simp only [List.foldl_cons]
    rw [setRound_fold_rv base q rest]
    split
    · rfl
    · exact alookup_append_empty acc _ q

/-- `SetRound` only adds empty rounds: every round's vote sets read the same before and after -/
theorem setRound_rv (s : St) (r q : Nat) : (setRound s r).rv q = s.rv q := by
  unfold setRound
  split
  · rfl
  · simp only [St.rv]
    exact setRound_fold_rv s.hround q _ s.rvs

theorem setRound_G (s : St) (r : Nat) : G s (setRound s r) := by
  intro hw
  have hf : (setRound s r).height = s.height ∧ (setRound s r).lockedValue = s.lockedValue ∧ (setRound s r).lockedRound = s.lockedRound ∧
      (setRound s r).round = s.round ∧ (setRound s r).step = s.step ∧ (setRound s r).out = s.out ∧ (setRound s r).powers = s.powers := by
    unfold setRound; split <;> simp [die]
  obtain ⟨f1, f2, f3, f4, f5, f6, fp⟩ := hf
  have hmu : mu (setRound s r) = mu s := by simp [mu, f4, f5]
  refine ⟨⟨by rw [f5]; exact hw.1, fun hl => ?_⟩, f1, setRound_rv s r, by omega, fun _ => Or.inl ⟨f2, by omega⟩, fp, [], by simp [f6], by simp [Chain, hmu], by simp, by simp, by simp [D3C], by simp⟩
  rw [f2] at hl; have := hw.2 hl; rw [f3, hmu]; exact this

theorem newRoundCore_fields (s : St) (r : Nat) (vals : Model.ValSet.VS) :
    (newRoundCore s r vals).round = r ∧ (newRoundCore s r vals).step = sNewRound ∧ (newRoundCore s r vals).height = s.height ∧
    (newRoundCore s r vals).lockedValue = s.lockedValue ∧ (newRoundCore s r vals).lockedRound = s.lockedRound ∧
    (newRoundCore s r vals).out = s.out ∧ (newRoundCore s r vals).powers = s.powers ∧ (∀ q, (newRoundCore s r vals).rv q = s.rv q) := by
  unfold newRoundCore
  simp only
  refine ⟨?_, ?_, ?_, ?_, ?_, ?_, ?_, fun q => ?_⟩
  iterate 7 (unfold setRound; split <;> split <;> simp [die])
  rw [setRound_rv]
  split <;> simp [St.rv]

theorem newRoundCore_G (s : St) (r : Nat) (vals : Model.ValSet.VS) (hg : s.round < r ∨ (s.round = r ∧ s.step = sNewHeight)) :
    G s (newRoundCore s r vals) := by
  obtain ⟨f1, f2, f3, f4, f5, f6, fp, f7⟩ := newRoundCore_fields s r vals
  intro hw
  have hmu : mu s ≤ mu (newRoundCore s r vals) := by
    simp only [mu, f1, f2, sNewRound]
    have := hw.1
    simp [sNewHeight] at hg
    omega
  refine ⟨⟨by simp [f2, sNewRound], fun hl => ?_⟩, f3, f7, hmu, fun _ => Or.inl ⟨f4, by omega⟩, fp, [], by simp [f6], by simpa [Chain] using hmu, by simp, by simp, by simp [D3C], by simp⟩
  rw [f4] at hl; have := hw.2 hl; rw [f5]; omega

theorem enterNewRound_G (s : St) (h r : Nat) : G s (enterNewRound s h r) := by
  unfold enterNewRound
  split
  · exact G.refl s
  split
  · exact G.refl s
  rename_i hd hg
  split
  · exact G_die s
  rename_i vals _
  have hg' : s.round < r ∨ (s.round = r ∧ s.step = sNewHeight) := by
    simp at hg
    by_cases h1 : s.round = r
    · exact Or.inr ⟨h1, hg.2.2 h1⟩
    · left; omega
  have hr3 : r ≤ (newRoundCore s r vals).round := by rw [(newRoundCore_fields s r vals).1]; exact Nat.le_refl _
  exact G.trans (newRoundCore_G s r vals hg') (enterPropose_G _ h r hr3)

theorem enterPrevoteWait_G (s : St) (h r : Nat) (hr : r ≤ s.round) : G s (enterPrevoteWait s h r) := by
  unfold enterPrevoteWait
  split
  · exact G.refl s
  split
  · exact G.refl s
  rename_i hd hg
  split
  · exact G_die s
  have hr' : r = s.round := by omega
  have hst : s.step < 5 := by simp [sPrevoteWait] at hg; omega
  subst hr'
  have hh : s.height = h := by simp at hg; exact hg.1
  refine G_plain [.timeout h s.round sPrevoteWait] rfl rfl rfl rfl ?_ (by simp [sPrevoteWait]) rfl (by simp [emit]) ?_ ?_
  · simp [mu, sPrevoteWait]; omega
  · intro o ho; simp at ho; subst ho; exact Or.inr ⟨_, _, _, rfl⟩
  · intro h' r' st' hm; simp at hm; obtain ⟨e1, e2, _⟩ := hm; subst e1; subst e2; exact ⟨hh.symm, Nat.le_refl _⟩

theorem enterPrecommitWait_G (s : St) (h r : Nat) (hr : r ≤ s.round) : G s (enterPrecommitWait s h r) := by
  unfold enterPrecommitWait
  split
  · exact G.refl s
  split
  · exact G.refl s
  rename_i hd hg
  split
  · exact G_die s
  have hr' : r = s.round := by omega
  have hst : s.step < 7 := by simp [sPrecommitWait] at hg; omega
  subst hr'
  have hh : s.height = h := by simp at hg; exact hg.1
  refine G_plain [.timeout h s.round sPrecommitWait] rfl rfl rfl rfl ?_ (by simp [sPrecommitWait]) rfl (by simp [emit]) ?_ ?_
  · simp [mu, sPrecommitWait]; omega
  · intro o ho; simp at ho; subst ho; exact Or.inr ⟨_, _, _, rfl⟩
  · intro h' r' st' hm; simp at hm; obtain ⟨e1, e2, _⟩ := hm; subst e1; subst e2; exact ⟨hh.symm, Nat.le_refl _⟩

/-- the generic shape of `enterPrecommit`'s result: lock fields `(lv', lr')`, possibly other proposal-block fields, one precommit
for `v` signed at the current round, then `(round, step) := (round, Precommit)` -/
theorem precommit_leaf (s x : St) (v lv' lr' : Nat) (hst : s.step < 6)
    (hx : x.height = s.height ∧ x.rvs = s.rvs ∧ x.round = s.round ∧ x.out = s.out ∧ x.lockedValue = lv' ∧ x.lockedRound = lr' ∧ x.powers = s.powers)
    (hv : v ≠ 0 → (s.pvs s.round).maj23 = some v)
    (hheld : v ≠ 0 → lv' = v ∧ lr' = s.round)
    (hlock : lv' ≠ 0 → lr' = s.round ∨ (lv' = s.lockedValue ∧ lr' = s.lockedRound))
    (hlev : W s → s.lockedValue ≠ 0 → (lv' = s.lockedValue ∧ s.lockedRound ≤ lr') ∨ Released s.pvs s.lockedValue s.lockedRound s.round) :
    G s { signAddVote x tPrecommit v with round := s.round, step := sPrecommit } := by
  obtain ⟨x1, x2, x3, x4, x5, x6, x7⟩ := hx
  intro hw
  refine ⟨⟨by simp [sPrecommit], fun hl => ?_⟩, by simp [signAddVote, emit, x1], fun q => by simp [St.rv, signAddVote, emit, x2], ?_, ?_,
    by simp [signAddVote, emit, x7], [.vote tPrecommit s.height s.round v], by simp [signAddVote, emit, x4, x1, x3], ?_, ?_, ?_, by simp [D3C], by simp⟩
  · simp only [signAddVote, emit, x5, x6, mu, sPrecommit] at hl ⊢
    rcases hlock hl with e | ⟨e1, e2⟩
    · omega
    · have := hw.2 (by rw [← e1]; exact hl); simp only [mu] at this; omega
  · simp [mu, sPrecommit]; omega
  · intro hl
    simpa [signAddVote, emit, x5, x6] using hlev hw hl
  · simp [Chain, stamp, tPrevote, tPrecommit, mu, sPrecommit]; omega
  · intro o ho
    simp at ho; subst ho
    refine ⟨rfl, ?_, fun _ hv0 => hv hv0, ?_⟩
    · simp [tPrevote, tPrecommit, mu]; omega
    · intro ht; simp [tPrevote, tPrecommit] at ht
  · intro h' r' v' hm hv'
    simp at hm
    obtain ⟨_, e2, e3⟩ := hm
    subst e2; subst e3
    obtain ⟨e4, e5⟩ := hheld hv'
    left
    simp [signAddVote, emit, x5, x6, e4, e5]

theorem enterPrecommit_G (s : St) (h r : Nat) (hr : r ≤ s.round) : G s (enterPrecommit s h r) := by
  unfold enterPrecommit
  split
  · exact G.refl s
  split
  · exact G.refl s
  rename_i hd hg
  have hr' : r = s.round := by omega
  have hst : s.step < 6 := by simp [sPrecommit] at hg; omega
  subst hr'
  have hlt : W s → s.lockedValue ≠ 0 → s.lockedRound < s.round := by
    intro hw hl; have := hw.2 hl; simp only [mu] at this; omega
  simp only
  split
  · -- no polka: precommit nil
    exact precommit_leaf s s 0 s.lockedValue s.lockedRound hst ⟨rfl, rfl, rfl, rfl, rfl, rfl, rfl⟩ (fun h => absurd rfl h) (fun h => absurd rfl h)
      (fun _ => Or.inr ⟨rfl, rfl⟩) (fun _ _ => Or.inl ⟨rfl, Nat.le_refl _⟩)
  rename_i v hmaj
  split
  · exact G_die s
  split
  · -- nil polka: unlock, precommit nil
    rename_i hv0
    subst hv0
    by_cases hl : s.lockedValue = 0
    · simp only [hl, if_true]
      exact precommit_leaf s s 0 s.lockedValue s.lockedRound hst ⟨rfl, rfl, rfl, rfl, rfl, rfl, rfl⟩ (fun h => absurd rfl h) (fun h => absurd rfl h)
        (fun _ => Or.inr ⟨rfl, rfl⟩) (fun _ _ => Or.inl ⟨rfl, Nat.le_refl _⟩)
    · simp only [hl, if_false]
      exact precommit_leaf s (unlock s) 0 0 0 hst ⟨rfl, rfl, rfl, rfl, rfl, rfl, rfl⟩ (fun h => absurd rfl h) (fun h => absurd rfl h)
        (fun h => absurd rfl h) (fun hw hl' => Or.inr ⟨s.round, 0, hlt hw hl', Nat.le_refl _, hmaj, fun e => hl e.symm⟩)
  rename_i hv0
  split
  · -- polka for the locked block: relock
    rename_i hlv
    exact precommit_leaf s { s with lockedRound := s.round } v s.lockedValue s.round hst ⟨rfl, rfl, rfl, rfl, rfl, rfl, rfl⟩ (fun _ => hmaj) (fun _ => ⟨hlv, rfl⟩)
      (fun _ => Or.inl rfl) (fun hw hl' => Or.inl ⟨rfl, Nat.le_of_lt (hlt hw hl')⟩)
  rename_i hlv
  split
  · -- polka for the proposal block: lock
    split
    · exact G_die s
    split
    · exact G_die s
    exact precommit_leaf s { s with lockedRound := s.round, lockedValue := v } v v s.round hst ⟨rfl, rfl, rfl, rfl, rfl, rfl, rfl⟩ (fun _ => hmaj) (fun _ => ⟨rfl, rfl⟩)
      (fun _ => Or.inl rfl) (fun hw hl' => Or.inr ⟨s.round, v, hlt hw hl', Nat.le_refl _, hmaj, fun e => hlv e.symm⟩)
  · -- polka for a block the node does not hold: unlock, precommit nil
    refine precommit_leaf s _ 0 0 0 hst ?_ (fun h => absurd rfl h) (fun h => absurd rfl h)
      (fun h => absurd rfl h) (fun hw hl' => Or.inr ⟨s.round, v, hlt hw hl', Nat.le_refl _, hmaj, fun e => hlv e.symm⟩)
    split <;> simp [unlock]

theorem G_commit {s s' : St} (r v : Nat) (hh : s'.height = s.height) (hrv : s'.rvs = s.rvs)
    (hlv : s'.lockedValue = s.lockedValue) (hlr : s'.lockedRound = s.lockedRound) (hro : s'.round = s.round) (hst : s'.step = s.step)
    (hpow : s'.powers = s.powers) (hout : s'.out = s.out ++ [.commit s.height r v]) (hv : v ≠ 0) (hmaj : (s.pcs r).maj23 = some v) : G s s' := by
  intro hw
  have hmu : mu s' = mu s := by simp [mu, hro, hst]
  refine ⟨⟨by rw [hst]; exact hw.1, fun hl => ?_⟩, hh, fun q => by simp [St.rv, hrv], by omega, fun _ => Or.inl ⟨hlv, by omega⟩,
    hpow, _, hout, by simp [Chain, stamp, hmu], ?_, by simp, by simp [D3C], by simp⟩
  · rw [hlv] at hl; have := hw.2 hl; rw [hlr, hmu]; exact this
  · intro o ho; simp at ho; subst ho; exact ⟨rfl, hv, hmaj⟩

theorem tryFinalizeCommit_G (s : St) (h : Nat) : G s (tryFinalizeCommit s h) := by
  unfold tryFinalizeCommit
  split
  · exact G.refl s
  split
  · exact G_die s
  rename_i hd hh
  split
  · exact G.refl s
  split
  · exact G.refl s
  rename_i v hmaj
  split
  · exact G.refl s
  rename_i hv0
  split
  · exact G.refl s
  have hh' : s.height = h := by simpa using hh
  subst hh'
  unfold finalizeCommit
  split
  · exact G.refl s
  rw [hmaj]
  simp only
  repeat' split
  all_goals first
    | exact G_die s
    | exact G_commit s.commitRound.toNat v rfl rfl rfl rfl rfl rfl rfl (by simp [emit]) hv0 hmaj

theorem enterCommit_G (s : St) (h cr : Nat) : G s (enterCommit s h cr) := by
  unfold enterCommit
  split
  · exact G.refl s
  split
  · exact G.refl s
  rename_i hd hg
  split
  · exact G_die s
  rename_i v hmaj
  simp only
  have hst : s.step < 8 := by simp [sCommit] at hg; omega
  have key : ∀ x : St, G s x → G s (tryFinalizeCommit x h) := fun x gx => G.trans gx (tryFinalizeCommit_G x h)
  apply key
  apply G_plain [] <;> (try split) <;> (try split) <;> (try split) <;> simp [mu, sCommit] <;> omega

/-! ## the vote sets: a recorded +2/3 majority is backed by that much voting power -/

theorem alookup_aset_same {α : Type} (l : List (Nat × α)) (k : Nat) (a : α) : alookup (aset l k a) k = some a := by
  induction l with
  | nil => simp [aset, alookup]
  | cons x rest ih =>
    obtain ⟨k', a'⟩ := x
    simp only [aset]
    split
    · simp [alookup]
    · rename_i hne; simp [alookup, hne, ih]

theorem alookup_aset_other {α : Type} (l : List (Nat × α)) (k k' : Nat) (a : α) (h : k' ≠ k) :
    alookup (aset l k a) k' = alookup l k' := by
  induction l with
  | nil => simp [aset, alookup]; intro e; exact absurd e.symm h
  | cons x rest ih =>
    obtain ⟨k'', a'⟩ := x
    simp only [aset]
    split
    · rename_i he; subst he
      simp only [alookup]
      have : ¬ k'' = k' := fun e => h e.symm
      simp [this]
    · simp only [alookup]; split
      · rfl
      · exact ih

/-- voting power of a list of validator indices -/
def powSum (powers : List Nat) (who : List Nat) : Nat := (who.map (fun i => powers.getD i 0)).sum

/-- a block's vote record is consistent: distinct validators of the set, `sum` is their power -/
def BVOK (powers : List Nat) (bv : BV) : Prop :=
  bv.who.Nodup ∧ bv.sum = powSum powers bv.who ∧ ∀ i ∈ bv.who, i < powers.length

/-- a vote set is consistent, and its `maj23` is backed by a quorum of recorded votes for that value -/
def VOK (powers : List Nat) (vs : VSet) : Prop :=
  (∀ v bv, alookup vs.byBlock v = some bv → BVOK powers bv) ∧
  (∀ v, vs.maj23 = some v → ∃ bv, alookup vs.byBlock v = some bv ∧ quorum powers.sum ≤ bv.sum)

theorem VOK_empty (powers : List Nat) : VOK powers VSet.empty := by
  constructor
  · intro v bv h; simp [VSet.empty, alookup] at h
  · intro v h; simp [VSet.empty] at h

theorem BV_add_ok {powers : List Nat} {bv : BV} (h : BVOK powers bv) (i : Nat) (hi : i < powers.length) :
    BVOK powers (bv.add i (powers.getD i 0)) ∧ bv.sum ≤ (bv.add i (powers.getD i 0)).sum := by
  unfold BV.add
  split
  · exact ⟨h, Nat.le_refl _⟩
  · rename_i hc
    refine ⟨⟨?_, ?_, ?_⟩, by simp⟩
    · simp only [List.nodup_cons]; exact ⟨by simpa using hc, h.1⟩
    · simp [powSum, h.2.1]; omega
    · intro j hj
      rcases List.mem_cons.1 hj with rfl | hj
      · exact hi
      · exact h.2.2 j hj

theorem tally_ok {powers : List Nat} {s : VSet} (hs : VOK powers s) (i : Nat) (hi : i < powers.length) (v : Value) (bv : BV)
    (hbv : BVOK powers bv)
    (hlk : alookup s.byBlock v = some bv ∨ alookup s.byBlock v = none) :
    VOK powers (s.tally powers.sum i (powers.getD i 0) v bv) := by
  obtain ⟨hb', hle⟩ := BV_add_ok hbv i hi
  have part1 : ∀ v' bv'', alookup (aset s.byBlock v (bv.add i (powers.getD i 0))) v' = some bv'' → BVOK powers bv'' := by
    intro v' bv'' h
    by_cases e : v' = v
    · subst e; rw [alookup_aset_same] at h; cases h; exact hb'
    · rw [alookup_aset_other _ _ _ _ e] at h; exact hs.1 v' bv'' h
  have keep : ∀ v', s.maj23 = some v' → ∃ bv'', alookup (aset s.byBlock v (bv.add i (powers.getD i 0))) v' = some bv'' ∧ quorum powers.sum ≤ bv''.sum := by
    intro v' h
    obtain ⟨b0, h0, hq⟩ := hs.2 v' h
    by_cases e : v' = v
    · subst e
      rcases hlk with hlk | hlk
      · rw [hlk] at h0; cases h0
        exact ⟨_, alookup_aset_same _ _ _, by omega⟩
      · rw [hlk] at h0; cases h0
    · exact ⟨b0, by rw [alookup_aset_other _ _ _ _ e]; exact h0, hq⟩
  unfold VSet.tally
  simp only
  split
  · rename_i hc
    refine ⟨part1, ?_⟩
    intro v' h
    simp at h; subst h
    exact ⟨_, alookup_aset_same _ _ _, hc.2.1⟩
  · exact ⟨part1, keep⟩

theorem addVerified_ok {powers : List Nat} {s : VSet} (hs : VOK powers s) (i : Nat) (hi : i < powers.length) (v : Value) :
    VOK powers (s.addVerified powers.sum i (powers.getD i 0) v).1 := by
  unfold VSet.addVerified
  split
  · simp only
    have h1 : VOK powers (if s.maj23 = some v then { s with votes := aset s.votes i v } else s) := by
      split
      · exact ⟨hs.1, hs.2⟩
      · exact hs
    generalize (if s.maj23 = some v then { s with votes := aset s.votes i v } else s) = s1 at h1
    split
    · rename_i bv hb
      split
      · exact tally_ok h1 i hi v bv (h1.1 v bv hb) (Or.inl hb)
      · exact h1
    · exact h1
  · simp only
    have h1 : VOK powers { s with votes := aset s.votes i v, sum := s.sum + powers.getD i 0 } := ⟨hs.1, hs.2⟩
    split
    · rename_i bv hb
      exact tally_ok h1 i hi v bv (h1.1 v bv hb) (Or.inl hb)
    · rename_i hb
      exact tally_ok h1 i hi v _ ⟨by simp, by simp [powSum], by simp⟩ (Or.inr hb)

theorem VSet_add_ok {powers : List Nat} {s : VSet} (hs : VOK powers s) (i : Nat) (v : Value) (ok : Bool) :
    VOK powers (s.add powers.length powers.sum i (powers.getD i 0) v ok).1 := by
  unfold VSet.add
  split
  · exact hs
  rename_i hn
  split
  · exact hs
  split
  · exact hs
  · exact addVerified_ok hs i (by omega) v

theorem setPeerMaj_ok {powers : List Nat} {s : VSet} (hs : VOK powers s) (peer : Nat) (v : Value) :
    VOK powers (s.setPeerMaj peer v) := by
  unfold VSet.setPeerMaj
  split
  · exact hs
  simp only
  have upd : ∀ bv' : BV, BVOK powers bv' → (∀ b0, alookup s.byBlock v = some b0 → b0.sum ≤ bv'.sum) →
      VOK powers { s with peers := aset s.peers peer v, byBlock := aset s.byBlock v bv' } := by
    intro bv' hb hle
    constructor
    · intro v' bv'' h
      by_cases e : v' = v
      · subst e; rw [alookup_aset_same] at h; cases h; exact hb
      · rw [alookup_aset_other _ _ _ _ e] at h; exact hs.1 v' bv'' h
    · intro v' h
      obtain ⟨b0, h0, hq⟩ := hs.2 v' h
      by_cases e : v' = v
      · subst e; exact ⟨_, alookup_aset_same _ _ _, Nat.le_trans hq (hle b0 h0)⟩
      · exact ⟨b0, by rw [alookup_aset_other _ _ _ _ e]; exact h0, hq⟩
  split
  · rename_i bv hb
    split
    · exact ⟨hs.1, hs.2⟩
    · exact upd _ (hs.1 v bv hb) (fun b0 h0 => by rw [hb] at h0; cases h0; exact Nat.le_refl _)
  · rename_i hb
    exact upd _ ⟨by simp, by simp [powSum], by simp⟩ (fun b0 h0 => by rw [hb] at h0; cases h0)

/-- **maj23_has_quorum**: in a consistent vote set a recorded +2/3 majority for `v` means that distinct validators holding MORE THAN
two thirds of the total power have a recorded vote for `v` -/
theorem maj23_has_quorum {powers : List Nat} {vs : VSet} (h : VOK powers vs) {v : Value} (hm : vs.maj23 = some v) :
    ∃ who : List Nat, who.Nodup ∧ (∀ i ∈ who, i < powers.length) ∧ (∃ bv, alookup vs.byBlock v = some bv ∧ bv.who = who) ∧
      3 * powSum powers who > 2 * powers.sum := by
  obtain ⟨bv, hb, hq⟩ := h.2 v hm
  obtain ⟨hn, hsum, hlt⟩ := h.1 v bv hb
  refine ⟨bv.who, hn, hlt, ⟨bv, hb, rfl⟩, ?_⟩
  rw [← hsum]
  unfold quorum at hq
  omega

/-- every vote set of the node is consistent -/
def TblOK (s : St) : Prop := ∀ q, VOK s.powers (s.pvs q) ∧ VOK s.powers (s.pcs q)

theorem TblOK_of_eq {x y : St} (hr : ∀ q, x.rv q = y.rv q) (hp : x.powers = y.powers) (h : TblOK y) : TblOK x := by
  intro q
  have := h q
  simp only [St.pvs, St.pcs, hr q, hp] at this ⊢
  exact this

theorem TblOK_rvs {x y : St} (hr : x.rvs = y.rvs) (hp : x.powers = y.powers) (h : TblOK y) : TblOK x :=
  TblOK_of_eq (fun q => by simp [St.rv, hr]) hp h

theorem putVS_rv (s : St) (r t : Nat) (vs : VSet) (q : Nat) :
    (putVS s r t vs).rv q = if q = r then (if t = tPrevote then { s.rv r with pv := vs } else { s.rv r with pc := vs }) else s.rv q := by
  unfold putVS
  simp only [St.rv]
  by_cases e : q = r
  · subst e; rw [alookup_aset_same]; simp
  · rw [alookup_aset_other _ _ _ _ e]; simp [e]

theorem putVS_tbl {s : St} (h : TblOK s) (r t : Nat) (vs : VSet)
    (hv : VOK s.powers vs) : TblOK (putVS s r t vs) := by
  intro q
  have hp : (putVS s r t vs).powers = s.powers := by simp [putVS]
  simp only [St.pvs, St.pcs, putVS_rv, hp]
  split
  · rename_i e; subst e
    split
    · exact ⟨hv, (h q).2⟩
    · exact ⟨(h q).1, hv⟩
  · exact h q

theorem catchupRound_tbl {s s1 : St} {r src : Nat} (h : catchupRound s r src = some s1) (ht : TblOK s) : TblOK s1 := by
  unfold catchupRound at h
  split at h
  · cases h; exact ht
  · simp only at h
    split at h
    · cases h
      exact TblOK_of_eq (y := s) (fun q => by simp only [St.rv]; exact alookup_append_empty s.rvs r q) rfl ht
    · cases h

theorem recordVote_tbl (s : St) (t r idx v src : Nat) (ok : Bool) (ht : TblOK s) : TblOK (recordVote s t r idx v src ok).1 := by
  unfold recordVote
  split
  · exact ht
  · rename_i s1 h1
    have h1t := catchupRound_tbl h1 ht
    simp only
    apply putVS_tbl h1t
    split
    · exact VSet_add_ok (h1t r).1 _ _ _
    · exact VSet_add_ok (h1t r).2 _ _ _

theorem setPeerMaj_tbl (s : St) (r t src v : Nat) (ht : TblOK s) : TblOK (setPeerMaj s r t src v) := by
  unfold setPeerMaj
  split
  · exact ht
  split
  · exact ht
  · rename_i rv hrv
    have e : s.rv r = rv := by simp [St.rv, hrv]
    apply putVS_tbl ht
    split
    · have := (ht r).1; simp only [St.pvs, e] at this; exact setPeerMaj_ok this _ _
    · have := (ht r).2; simp only [St.pcs, e] at this; exact setPeerMaj_ok this _ _

/-! ### a recorded +2/3 majority is never replaced -/

theorem tally_keeps (s : VSet) (total i p : Nat) (v : Value) (bv : BV) {x : Value} (h : s.maj23 = some x) :
    (s.tally total i p v bv).maj23 = some x := by
  unfold VSet.tally
  simp only
  split
  · rename_i hc; rw [h] at hc; exact absurd hc.2.2 (by simp)
  · exact h

theorem VSet_add_keeps (s : VSet) (n total i p : Nat) (v : Value) (ok : Bool) {x : Value} (h : s.maj23 = some x) :
    (s.add n total i p v ok).1.maj23 = some x := by
  unfold VSet.add
  split
  · exact h
  split
  · exact h
  split
  · exact h
  unfold VSet.addVerified
  split
  · simp only
    have h1 : (if s.maj23 = some v then { s with votes := aset s.votes i v } else s).maj23 = some x := by
      split <;> exact h
    generalize (if s.maj23 = some v then { s with votes := aset s.votes i v } else s) = s1 at h1
    split
    · split
      · exact tally_keeps _ _ _ _ _ _ h1
      · exact h1
    · exact h1
  · simp only
    split
    · exact tally_keeps _ _ _ _ _ _ h
    · exact tally_keeps _ _ _ _ _ _ h

theorem setPeerMaj_maj (s : VSet) (peer : Nat) (v : Value) : (s.setPeerMaj peer v).maj23 = s.maj23 := by
  unfold VSet.setPeerMaj
  split
  · rfl
  simp only
  split
  · split <;> rfl
  · rfl

def MajMono (s a : St) : Prop := ∀ q x, (s.pvs q).maj23 = some x → (a.pvs q).maj23 = some x

theorem MajMono_of_rv {s a : St} (hr : ∀ q, a.rv q = s.rv q) : MajMono s a := by
  intro q x h; simp only [St.pvs, hr q] at h ⊢; exact h

theorem MajMono_rvs {s a : St} (hr : a.rvs = s.rvs) : MajMono s a :=
  MajMono_of_rv (fun q => by simp [St.rv, hr])

theorem MajMono.trans {a b c : St} (h1 : MajMono a b) (h2 : MajMono b c) : MajMono a c :=
  fun q x h => h2 q x (h1 q x h)

theorem putVS_majmono (s : St) (r t : Nat) (vs : VSet)
    (hv : t = tPrevote → ∀ x, (s.pvs r).maj23 = some x → vs.maj23 = some x) : MajMono s (putVS s r t vs) := by
  intro q x h
  simp only [St.pvs, putVS_rv]
  split
  · rename_i e; subst e
    split
    · rename_i ht; exact hv ht x h
    · exact h
  · exact h

theorem catchupRound_majmono {s s1 : St} {r src : Nat} (h : catchupRound s r src = some s1) : MajMono s s1 := by
  unfold catchupRound at h
  split at h
  · cases h; exact MajMono_of_rv (fun _ => rfl)
  · simp only at h
    split at h
    · cases h
      exact MajMono_of_rv (fun q => by simp only [St.rv]; exact alookup_append_empty s.rvs r q)
    · cases h

theorem recordVote_majmono (s : St) (t r idx v src : Nat) (ok : Bool) : MajMono s (recordVote s t r idx v src ok).1 := by
  unfold recordVote
  split
  · exact MajMono_of_rv (fun _ => rfl)
  · rename_i s1 h1
    refine MajMono.trans (catchupRound_majmono h1) ?_
    simp only
    apply putVS_majmono
    intro ht x hx
    simp only [ht, if_true]
    exact VSet_add_keeps _ _ _ _ _ _ _ hx

theorem setPeerMaj_majmono (s : St) (r t src v : Nat) : MajMono s (setPeerMaj s r t src v) := by
  unfold setPeerMaj
  split
  · exact MajMono_of_rv (fun _ => rfl)
  split
  · exact MajMono_of_rv (fun _ => rfl)
  · rename_i rv hrv
    have e : s.rv r = rv := by simp [St.rv, hrv]
    apply putVS_majmono
    intro ht x hx
    simp only [ht, if_true, setPeerMaj_maj]
    simpa [St.pvs, e] using hx

/-! ### the tables grow only by the vote that is the input of the step -/

theorem BV_add_who (bv : BV) (i p j : Nat) (h : j ∈ (bv.add i p).who) : j ∈ bv.who ∨ j = i := by
  unfold BV.add at h
  split at h
  · exact Or.inl h
  · rcases List.mem_cons.1 h with e | h'
    · exact Or.inr e
    · exact Or.inl h'

theorem tally_who (s : VSet) (total i p : Nat) (v : Value) (bv : BV) (hlk : alookup s.byBlock v = some bv ∨ bv.who = [])
    (v' : Value) (bv' : BV) (j : Nat) (h : alookup (s.tally total i p v bv).byBlock v' = some bv') (hj : j ∈ bv'.who) :
    (∃ bv0, alookup s.byBlock v' = some bv0 ∧ j ∈ bv0.who) ∨ (v' = v ∧ j = i) := by
  have hb : (s.tally total i p v bv).byBlock = aset s.byBlock v (bv.add i p) := by
    unfold VSet.tally; simp only; split <;> rfl
  rw [hb] at h
  by_cases e : v' = v
  · subst e
    rw [alookup_aset_same] at h; cases h
    rcases BV_add_who bv i p j hj with h1 | h1
    · rcases hlk with hlk | hlk
      · exact Or.inl ⟨bv, hlk, h1⟩
      · rw [hlk] at h1; cases h1
    · exact Or.inr ⟨rfl, h1⟩
  · rw [alookup_aset_other _ _ _ _ e] at h
    exact Or.inl ⟨bv', h, hj⟩

theorem VSet_add_who (s : VSet) (n total i p : Nat) (v : Value) (ok : Bool) (v' : Value) (bv' : BV) (j : Nat)
    (h : alookup (s.add n total i p v ok).1.byBlock v' = some bv') (hj : j ∈ bv'.who) :
    (∃ bv0, alookup s.byBlock v' = some bv0 ∧ j ∈ bv0.who) ∨ (v' = v ∧ j = i ∧ ok = true) := by
  unfold VSet.add at h
  split at h
  · exact Or.inl ⟨bv', h, hj⟩
  split at h
  · exact Or.inl ⟨bv', h, hj⟩
  split at h
  · exact Or.inl ⟨bv', h, hj⟩
  rename_i hok
  have hok' : ok = true := by simpa using hok
  have lift : ∀ s1 : VSet, s1.byBlock = s.byBlock →
      ((∃ bv0, alookup s1.byBlock v' = some bv0 ∧ j ∈ bv0.who) ∨ (v' = v ∧ j = i)) →
      (∃ bv0, alookup s.byBlock v' = some bv0 ∧ j ∈ bv0.who) ∨ (v' = v ∧ j = i ∧ ok = true) := by
    intro s1 e hh
    rcases hh with ⟨b0, h0, h1⟩ | ⟨h0, h1⟩
    · rw [e] at h0; exact Or.inl ⟨b0, h0, h1⟩
    · exact Or.inr ⟨h0, h1, hok'⟩
  unfold VSet.addVerified at h
  split at h
  · simp only at h
    have e1 : (if s.maj23 = some v then { s with votes := aset s.votes i v } else s).byBlock = s.byBlock := by split <;> rfl
    generalize (if s.maj23 = some v then { s with votes := aset s.votes i v } else s) = s1 at h e1
    split at h
    · rename_i bv hb
      split at h
      · exact lift s1 e1 (tally_who s1 total i p v bv (Or.inl hb) v' bv' j h hj)
      · rw [e1] at h; exact Or.inl ⟨bv', h, hj⟩
    · rw [e1] at h; exact Or.inl ⟨bv', h, hj⟩
  · simp only at h
    split at h
    · rename_i bv hb
      exact lift { s with votes := aset s.votes i v, sum := s.sum + p } rfl
        (tally_who { s with votes := aset s.votes i v, sum := s.sum + p } total i p v bv (Or.inl hb) v' bv' j h hj)
    · exact lift { s with votes := aset s.votes i v, sum := s.sum + p } rfl
        (tally_who { s with votes := aset s.votes i v, sum := s.sum + p } total i p v { peerMaj := false, who := [], sum := 0 }
          (Or.inr rfl) v' bv' j h hj)

theorem setPeerMaj_who (s : VSet) (peer : Nat) (v : Value) (v' : Value) (bv' : BV) (j : Nat)
    (h : alookup (s.setPeerMaj peer v).byBlock v' = some bv') (hj : j ∈ bv'.who) :
    ∃ bv0, alookup s.byBlock v' = some bv0 ∧ j ∈ bv0.who := by
  unfold VSet.setPeerMaj at h
  split at h
  · exact ⟨bv', h, hj⟩
  simp only at h
  split at h
  · rename_i bv hb
    split at h
    · exact ⟨bv', h, hj⟩
    · simp only at h
      by_cases e : v' = v
      · subst e; rw [alookup_aset_same] at h; cases h; exact ⟨bv, hb, hj⟩
      · rw [alookup_aset_other _ _ _ _ e] at h; exact ⟨bv', h, hj⟩
  · simp only at h
    by_cases e : v' = v
    · subst e; rw [alookup_aset_same] at h; cases h; cases hj
    · rw [alookup_aset_other _ _ _ _ e] at h; exact ⟨bv', h, hj⟩

/-- the vote set of type `t` at round `r` -/
def vsOf (s : St) (t r : Nat) : VSet := if t = tPrevote then s.pvs r else s.pcs r

/-- every voter recorded in `a` was recorded in `s` already, or is the acceptable vote that is the input `i` (a vote for the node's
height): the node records a vote only when it handles it -/
def Grow (i : In) (s a : St) : Prop :=
  ∀ t r v bv j, (t = tPrevote ∨ t = tPrecommit) → alookup (vsOf a t r).byBlock v = some bv → j ∈ bv.who →
    (∃ bv0, alookup (vsOf s t r).byBlock v = some bv0 ∧ j ∈ bv0.who) ∨ (∃ tot src, i = .vote t s.height r j v tot src true)

theorem Grow_of_rv {i : In} {s a : St} (hr : ∀ q, a.rv q = s.rv q) : Grow i s a := by
  intro t r v bv j _ h hj
  left
  refine ⟨bv, ?_, hj⟩
  simpa [vsOf, St.pvs, St.pcs, hr r] using h

theorem Grow_rvs {i : In} {s a : St} (hr : a.rvs = s.rvs) : Grow i s a :=
  Grow_of_rv (fun q => by simp [St.rv, hr])

/-- growth composed with a frame step on either side -/
theorem Grow_frame {i : In} {s s1 a a1 : St} (h : Grow i s1 a1) (hs : ∀ q, s1.rv q = s.rv q) (hh : s1.height = s.height)
    (ha : ∀ q, a.rv q = a1.rv q) : Grow i s a := by
  intro t r v bv j ht hb hj
  have hb' : alookup (vsOf a1 t r).byBlock v = some bv := by simpa [vsOf, St.pvs, St.pcs, ha r] using hb
  rcases h t r v bv j ht hb' hj with ⟨b0, h0, h1⟩ | ⟨tot, src, e⟩
  · exact Or.inl ⟨b0, by simpa [vsOf, St.pvs, St.pcs, hs r] using h0, h1⟩
  · exact Or.inr ⟨tot, src, by rw [← hh]; exact e⟩

theorem recordVote_grow (s : St) (t r idx v src : Nat) (ok : Bool) (tot : Nat) (ht : t = tPrevote ∨ t = tPrecommit) :
    Grow (.vote t s.height r idx v tot src ok) s (recordVote s t r idx v src ok).1 := by
  unfold recordVote
  split
  · exact Grow_of_rv (fun _ => rfl)
  rename_i s1 h1
  have hrv1 : ∀ q, s1.rv q = s.rv q := by
    unfold catchupRound at h1
    split at h1
    · cases h1; intro _; rfl
    · simp only at h1
      split at h1
      · cases h1; intro q; simp only [St.rv]; exact alookup_append_empty s.rvs r q
      · cases h1
  simp only
  intro t' r' v' bv' j ht' hb hj
  have hput : ∀ vs : VSet, vsOf (putVS s1 r t vs) t' r' = if r' = r ∧ t' = t then vs else vsOf s t' r' := by
    intro vs
    simp only [vsOf, St.pvs, St.pcs, putVS_rv]
    by_cases e1 : r' = r
    · subst e1
      rcases ht with ht | ht <;> rcases ht' with ht' | ht' <;> subst ht <;> subst ht' <;>
        simp [tPrecommit, tPrevote, hrv1 r']
    · simp [e1, hrv1 r']
  rw [hput] at hb
  split at hb
  · rename_i hsame
    obtain ⟨e1, e2⟩ := hsame
    subst e1; subst e2
    have hvs : (if t' = tPrevote then s1.pvs r' else s1.pcs r') = vsOf s t' r' := by
      simp only [vsOf, St.pvs, St.pcs, hrv1 r']
    rw [hvs] at hb
    rcases VSet_add_who _ _ _ _ _ _ _ _ _ _ hb hj with ⟨b0, h0, hm⟩ | ⟨e1, e2, e3⟩
    · exact Or.inl ⟨b0, h0, hm⟩
    · subst e1; subst e2; subst e3
      exact Or.inr ⟨tot, src, rfl⟩
  · exact Or.inl ⟨bv', hb, hj⟩

theorem setPeerMaj_grow (i : In) (s : St) (r t src v : Nat) : Grow i s (setPeerMaj s r t src v) := by
  unfold setPeerMaj
  split
  · exact Grow_of_rv (fun _ => rfl)
  rename_i ht
  split
  · exact Grow_of_rv (fun _ => rfl)
  rename_i rv hrv
  have e : s.rv r = rv := by simp [St.rv, hrv]
  intro t' r' v' bv' j ht' hb hj
  have hput : ∀ vs : VSet, vsOf (putVS s r t vs) t' r' = if r' = r ∧ t' = t then vs else vsOf s t' r' := by
    intro vs
    simp only [vsOf, St.pvs, St.pcs, putVS_rv]
    have ht2 : t = tPrevote ∨ t = tPrecommit := by
      by_cases h1 : t = tPrevote
      · exact Or.inl h1
      · by_cases h2 : t = tPrecommit
        · exact Or.inr h2
        · exact absurd ⟨h1, h2⟩ ht
    by_cases e1 : r' = r
    · subst e1
      rcases ht2 with ht2 | ht2 <;> rcases ht' with ht' | ht' <;> subst ht2 <;> subst ht' <;>
        simp [tPrecommit, tPrevote]
    · simp [e1]
  rw [hput] at hb
  split at hb
  · rename_i hsame
    obtain ⟨e1, e2⟩ := hsame
    subst e1; subst e2
    have hvs : (if t' = tPrevote then rv.pv else rv.pc) = vsOf s t' r' := by
      simp only [vsOf, St.pvs, St.pcs, e]
    rw [hvs] at hb
    exact Or.inl (setPeerMaj_who _ _ _ _ _ _ hb hj)
  · exact Or.inl ⟨bv', hb, hj⟩

/-! ## one input -/

/-- the ticker fires only timeouts the node scheduled: never for a round above the current one -/
def WellTimed (s : St) (i : In) : Prop := ∀ h r st, i = .timeout h r st → h = s.height → r ≤ s.round

/-- `stepCore s i` is an internal transition (`G`) from a state `a` that has the height, round, step and LOCK of `s`, no outputs
yet, and already the vote tables the step ends with -/
def Spec (i : In) (s s' : St) : Prop :=
  ∃ a : St, a.height = s.height ∧ a.round = s.round ∧ a.step = s.step ∧ a.lockedValue = s.lockedValue ∧
    a.lockedRound = s.lockedRound ∧ a.out = [] ∧ a.powers = s.powers ∧ (TblOK s → TblOK a) ∧ MajMono s a ∧ Grow i s a ∧ G a s'

/-- the start of every handler: outputs cleared -/
def base (s : St) : St := { s with out := [], decided := false }

theorem learn_fields (s : St) (v t : Nat) : (learn s v t).height = s.height ∧ (learn s v t).round = s.round ∧ (learn s v t).step = s.step ∧
    (learn s v t).lockedValue = s.lockedValue ∧ (learn s v t).lockedRound = s.lockedRound ∧ (learn s v t).out = s.out ∧
    (learn s v t).rvs = s.rvs ∧ (learn s v t).dead = s.dead ∧ (learn s v t).powers = s.powers := by
  unfold learn; split
  · simp
  · split <;> simp

/-- a timeout below the node's current `(height, round, step)` changes nothing (= `stale_inputs_ignored`) -/
theorem stale_timeout (s : St) (h r st : Nat) (hs : h ≠ s.height ∨ r < s.round ∨ (r = s.round ∧ st < s.step)) :
    handleTimeout s h r st = s := by
  unfold handleTimeout; simp [hs]

theorem handleTimeout_G (s : St) (h r st : Nat) (hr : r ≤ s.round) : G s (handleTimeout s h r st) := by
  unfold handleTimeout
  split
  · exact G.refl s
  split
  · exact enterNewRound_G s h 0
  split
  · exact enterPropose_G s h 0 (Nat.zero_le _)
  split
  · exact enterPrevote_G s h r hr
  split
  · exact enterPrecommit_G s h r hr
  split
  · exact enterNewRound_G s h (r + 1)
  split
  · exact enterNewRound_G s h (r + 1)
  · exact G_die s

/-- `setProposal` and `setPeerMaj` emit nothing and leave height, round, step and lock alone -/
theorem setProposal_fields (s : St) (h r : Nat) (pol : Int) (v total : Nat) (signer : Int) (typ : Nat) :
    let s' := setProposal s h r pol v total signer typ
    s'.height = s.height ∧ s'.round = s.round ∧ s'.step = s.step ∧ s'.lockedValue = s.lockedValue ∧
      s'.lockedRound = s.lockedRound ∧ s'.out = s.out ∧ s'.powers = s.powers ∧ s'.rvs = s.rvs := by
  unfold setProposal
  simp only
  repeat' split
  all_goals simp

theorem setPeerMaj_fields (s : St) (r t src v : Nat) :
    let s' := setPeerMaj s r t src v
    s'.height = s.height ∧ s'.round = s.round ∧ s'.step = s.step ∧ s'.lockedValue = s.lockedValue ∧
      s'.lockedRound = s.lockedRound ∧ s'.out = s.out ∧ s'.powers = s.powers := by
  unfold setPeerMaj putVS
  simp only
  repeat' split
  all_goals simp

/-! ### where the round ends up -/

theorem enterPrevote_round (s : St) (h r : Nat) : (enterPrevote s h r).round = s.round ∨ (enterPrevote s h r).round = r := by
  unfold enterPrevote
  repeat' split
  all_goals simp

theorem enterPropose_round (s : St) (h r : Nat) : (enterPropose s h r).round = s.round ∨ (enterPropose s h r).round = r := by
  unfold enterPropose
  split
  · exact Or.inl rfl
  split
  · exact Or.inl rfl
  simp only
  have hr := (proposeCore_fields s h r).1
  split
  · right
    rcases enterPrevote_round (proposeCore s h r) h (proposeCore s h r).round with e | e <;> rw [e, hr]
  · exact Or.inr hr

/-- after `enterNewRound(height, r)` the node is dead or in a round `≥ r` -/
theorem enterNewRound_post (s : St) (r : Nat) :
    (enterNewRound s s.height r).dead = true ∨ r ≤ (enterNewRound s s.height r).round := by
  unfold enterNewRound
  split
  · rename_i hd; exact Or.inl hd
  split
  · rename_i hg; right; simp at hg; rcases hg with hg | hg <;> omega
  split
  · left; simp [die]
  rename_i vals _
  right
  have h3 := (newRoundCore_fields s r vals).1
  rcases enterPropose_round (newRoundCore s r vals) s.height r with e | e <;> omega

theorem enterPrevote_Gd (s : St) (h r : Nat) (hr : s.dead = true ∨ r ≤ s.round) : G s (enterPrevote s h r) := by
  rcases hr with hd | hr
  · unfold enterPrevote; simp [hd]; exact G.refl s
  · exact enterPrevote_G s h r hr

theorem enterPrecommit_Gd (s : St) (h r : Nat) (hr : s.dead = true ∨ r ≤ s.round) : G s (enterPrecommit s h r) := by
  rcases hr with hd | hr
  · unfold enterPrecommit; simp [hd]; exact G.refl s
  · exact enterPrecommit_G s h r hr

theorem enterPrevoteWait_Gd (s : St) (h r : Nat) (hr : s.dead = true ∨ r ≤ s.round) : G s (enterPrevoteWait s h r) := by
  rcases hr with hd | hr
  · unfold enterPrevoteWait; simp [hd]; exact G.refl s
  · exact enterPrevoteWait_G s h r hr

theorem enterPrecommitWait_Gd (s : St) (h r : Nat) (hr : s.dead = true ∨ r ≤ s.round) : G s (enterPrecommitWait s h r) := by
  rcases hr with hd | hr
  · unfold enterPrecommitWait; simp [hd]; exact G.refl s
  · exact enterPrecommitWait_G s h r hr

/-- `dead` and "round ≥ r" survive `enterPrevote`/`enterPrecommit` -/
theorem enterPrevote_keeps (s : St) (h r r' : Nat) (hr : s.dead = true ∨ r ≤ s.round) (hrr : r ≤ r') :
    (enterPrevote s h r').dead = true ∨ r ≤ (enterPrevote s h r').round := by
  unfold enterPrevote
  repeat' split
  all_goals first | exact hr | (right; simp; omega) | (rename_i hd; exact Or.inl hd)

theorem enterPrecommit_keeps (s : St) (h r r' : Nat) (hr : s.dead = true ∨ r ≤ s.round) (hrr : r ≤ r') :
    (enterPrecommit s h r').dead = true ∨ r ≤ (enterPrecommit s h r').round := by
  unfold enterPrecommit
  simp only
  repeat' split
  all_goals first | exact hr | (right; simp; omega) | (left; simp [die]) | (rename_i hd; exact Or.inl hd)

/-! ### the handler tails -/

theorem blockCompleted_G (s3 : St) (h : Nat) (hasMaj : Bool) : G s3 (blockCompleted s3 h hasMaj) := by
  unfold blockCompleted
  split
  · simp only
    split
    · exact G.trans (enterPrevote_G s3 h s3.round (Nat.le_refl _)) (enterPrecommit_G _ h _ (Nat.le_refl _))
    · exact enterPrevote_G s3 h s3.round (Nat.le_refl _)
  split
  · exact tryFinalizeCommit_G s3 h
  · exact G.refl s3

theorem onPrevote_G (s3 : St) (r : Nat) (pv : VSet) : G s3 (onPrevote s3 r pv) := by
  unfold onPrevote
  simp only
  split
  · have g1 := enterNewRound_G s3 s3.height r
    have p1 := enterNewRound_post s3 r
    split
    · exact G.trans g1 (enterPrecommit_Gd _ _ _ p1)
    · exact G.trans g1 (G.trans (enterPrevote_Gd _ _ _ p1) (enterPrevoteWait_Gd _ _ _ (enterPrevote_keeps _ _ r r p1 (Nat.le_refl _))))
  · split
    · split
      · exact enterPrevote_G s3 _ s3.round (Nat.le_refl _)
      · exact G.refl s3
    · exact G.refl s3

theorem onPrecommit_G (s2 : St) (r : Nat) (pc : VSet) : G s2 (onPrecommit s2 r pc) := by
  unfold onPrecommit
  simp only
  have g1 := enterNewRound_G s2 s2.height r
  have p1 := enterNewRound_post s2 r
  split
  · split
    · exact enterNewRound_G s2 s2.height (r + 1)
    · exact G.trans g1 (G.trans (enterPrecommit_Gd _ _ _ p1) (enterCommit_G _ _ _))
  · split
    · exact G.trans g1 (G.trans (enterPrecommit_Gd _ _ _ p1) (enterPrecommitWait_Gd _ _ _ (enterPrecommit_keeps _ _ r r p1 (Nat.le_refl _))))
    · exact G.refl s2

/-! ### `stepCore` -/

theorem G_lockbase {a m : St} (hh : m.height = a.height) (hrv : m.rvs = a.rvs) (hro : m.round = a.round) (hst : m.step = a.step)
    (hout : m.out = a.out) (hpow : m.powers = a.powers)
    (hlock : (m.lockedValue = a.lockedValue ∧ m.lockedRound = a.lockedRound) ∨
      (m.lockedValue = 0 ∧ Released a.pvs a.lockedValue a.lockedRound a.round)) : G a m := by
  intro hw
  have hmu : mu m = mu a := by simp [mu, hro, hst]
  refine ⟨⟨by rw [hst]; exact hw.1, fun hl => ?_⟩, hh, fun q => by simp [St.rv, hrv], by omega, fun hl => ?_, hpow, [], by simp [hout],
    by simp [Chain, hmu], by simp, by simp, by simp [D3C], by simp⟩
  · rcases hlock with ⟨e1, e2⟩ | ⟨e1, _⟩
    · rw [e1] at hl; have := hw.2 hl; rw [e2, hmu]; exact this
    · exact absurd e1 hl
  · rcases hlock with ⟨e1, e2⟩ | ⟨_, hrel⟩
    · exact Or.inl ⟨e1, by omega⟩
    · right; rw [hro]; exact hrel

theorem catchupRound_fields {s s1 : St} {r src : Nat} (h : catchupRound s r src = some s1) :
    s1.height = s.height ∧ s1.round = s.round ∧ s1.step = s.step ∧ s1.lockedValue = s.lockedValue ∧
      s1.lockedRound = s.lockedRound ∧ s1.out = s.out ∧ s1.powers = s.powers := by
  unfold catchupRound at h
  split at h
  · cases h; simp
  · simp only at h
    split at h
    · cases h; simp
    · cases h

theorem recordVote_fields (s : St) (t r idx v src : Nat) (ok : Bool) :
    let s2 := (recordVote s t r idx v src ok).1
    s2.height = s.height ∧ s2.round = s.round ∧ s2.step = s.step ∧ s2.lockedValue = s.lockedValue ∧
      s2.lockedRound = s.lockedRound ∧ s2.out = s.out ∧ s2.powers = s.powers := by
  unfold recordVote
  simp only
  split
  · simp
  · rename_i s1 h1
    obtain ⟨a, b, c, d, e, f, g⟩ := catchupRound_fields h1
    simp [putVS, a, b, c, d, e, f, g]

theorem polkaUpdate_spec (s2 : St) (r : Nat) :
    let m := polkaUpdate s2 r (s2.pvs r)
    m.height = s2.height ∧ m.rvs = s2.rvs ∧ m.round = s2.round ∧ m.step = s2.step ∧ m.out = s2.out ∧ m.powers = s2.powers ∧
      ((m.lockedValue = s2.lockedValue ∧ m.lockedRound = s2.lockedRound) ∨
       (m.lockedValue = 0 ∧ Released s2.pvs s2.lockedValue s2.lockedRound s2.round)) := by
  unfold polkaUpdate
  simp only
  split
  · rename_i b hb
    by_cases hc : s2.lockedValue ≠ 0 ∧ s2.lockedRound < r ∧ r ≤ s2.round ∧ s2.lockedValue ≠ b
    · rw [if_pos hc]
      have hrel : Released s2.pvs s2.lockedValue s2.lockedRound s2.round :=
        ⟨r, b, hc.2.1, hc.2.2.1, hb, fun e => hc.2.2.2 e.symm⟩
      split <;> simp [unlock, hrel]
    · rw [if_neg hc]
      split <;> simp
  · simp

theorem validOnComplete_fields (s2 : St) :
    let m := validOnComplete s2
    m.height = s2.height ∧ m.round = s2.round ∧ m.step = s2.step ∧ m.lockedValue = s2.lockedValue ∧
      m.lockedRound = s2.lockedRound ∧ m.out = s2.out ∧ m.powers = s2.powers ∧ m.rvs = s2.rvs := by
  unfold validOnComplete
  simp only
  repeat' split
  all_goals simp

theorem Spec_same {i : In} {s x : St} (a : x.height = s.height) (b : x.round = s.round) (c : x.step = s.step)
    (d : x.lockedValue = s.lockedValue) (e : x.lockedRound = s.lockedRound) (f : x.out = []) (p : x.powers = s.powers)
    (tb : TblOK s → TblOK x) (mm : MajMono s x) (gr : Grow i s x) : Spec i s x :=
  ⟨x, a, b, c, d, e, f, p, tb, mm, gr, G.refl x⟩

theorem addPart_Spec (i : In) (s : St) (h pv idx : Nat) (dec : Bool) (ho : s.out = []) : Spec i s (addPart s h pv idx dec) := by
  unfold addPart
  split
  · exact Spec_same rfl rfl rfl rfl rfl ho rfl (fun h => h) (MajMono_rvs rfl) (Grow_rvs rfl)
  split
  · exact Spec_same rfl rfl rfl rfl rfl ho rfl (fun h => h) (MajMono_rvs rfl) (Grow_rvs rfl)
  rename_i ps _
  split
  · exact Spec_same rfl rfl rfl rfl rfl ho rfl (fun h => h) (MajMono_rvs rfl) (Grow_rvs rfl)
  split
  · exact Spec_same rfl rfl rfl rfl rfl ho rfl (fun h => h) (MajMono_rvs rfl) (Grow_rvs rfl)
  split
  · exact Spec_same rfl rfl rfl rfl rfl ho rfl (fun h => h) (MajMono_rvs rfl) (Grow_rvs rfl)
  simp only
  split
  · exact Spec_same rfl rfl rfl rfl rfl ho rfl (fun h => h) (MajMono_rvs rfl) (Grow_rvs rfl)
  split
  · exact Spec_same rfl rfl rfl rfl rfl ho rfl (fun h => h) (MajMono_rvs rfl) (Grow_rvs rfl)
  · obtain ⟨f1, f2, f3, f4, f5, f6, f7, f8⟩ := validOnComplete_fields
      { s with pbp := some { ps with got := idx :: ps.got }, pb := ps.v }
    exact ⟨_, f1, f2, f3, f4, f5, by rw [f6]; exact ho, f7, TblOK_rvs f8 f7, MajMono_rvs f8, Grow_rvs f8, blockCompleted_G _ h _⟩

theorem addVote_Spec (s : St) (t vh r idx v src : Nat) (ok : Bool) (tot : Nat) (ho : s.out = []) :
    Spec (.vote t vh r idx v tot src ok) s (addVote s t vh r idx v src ok) := by
  unfold addVote
  split
  · exact Spec_same rfl rfl rfl rfl rfl ho rfl (fun h => h) (MajMono_rvs rfl) (Grow_rvs rfl)
  split
  · exact Spec_same rfl rfl rfl rfl rfl ho rfl (fun h => h) (MajMono_rvs rfl) (Grow_rvs rfl)
  rename_i hvh'
  have hvh : vh = s.height := by simpa using hvh'
  split
  · exact Spec_same rfl rfl rfl rfl rfl ho rfl (fun h => h) (MajMono_rvs rfl) (Grow_rvs rfl)
  rename_i htt
  have ht2 : t = tPrevote ∨ t = tPrecommit := by
    by_cases h1 : t = tPrevote
    · exact Or.inl h1
    · by_cases h2 : t = tPrecommit
      · exact Or.inr h2
      · exact absurd ⟨h1, h2⟩ htt
  have fg : Grow (.vote t vh r idx v tot src ok) s (recordVote s t r idx v src ok).1 := by
    rw [hvh]; exact recordVote_grow s t r idx v src ok tot ht2
  simp only
  obtain ⟨f1, f2, f3, f4, f5, f6, f7⟩ := recordVote_fields s t r idx v src ok
  have ft := recordVote_tbl s t r idx v src ok
  have fm := recordVote_majmono s t r idx v src ok
  generalize (recordVote s t r idx v src ok).1 = s2 at *
  split
  · exact Spec_same f1 f2 f3 f4 f5 (by rw [f6]; exact ho) f7 ft fm fg
  split
  · -- prevote
    obtain ⟨m1, m2, m3, m4, m5, m7, m6⟩ := polkaUpdate_spec s2 r
    generalize hm : polkaUpdate s2 r (s2.pvs r) = m at *
    refine ⟨{ m with lockedValue := s2.lockedValue, lockedRound := s2.lockedRound }, by simp [m1, f1], by simp [m3, f2], by simp [m4, f3],
      by simp [f4], by simp [f5], by simp [m5, f6, ho], by simp [m7, f7],
      fun h => TblOK_rvs (y := s2) (by simp [m2]) (by simp [m7]) (ft h), MajMono.trans fm (MajMono_rvs (by simp [m2])),
      Grow_frame fg (fun _ => rfl) rfl (fun q => by simp [St.rv, m2]), ?_⟩
    refine G.trans (G_lockbase (m := m) rfl rfl rfl rfl rfl rfl ?_) (onPrevote_G m r _)
    have hpv : ({ m with lockedValue := s2.lockedValue, lockedRound := s2.lockedRound } : St).pvs = s2.pvs := by
      funext q; simp [St.pvs, St.rv, m2]
    rw [hpv]
    simpa [m3] using m6
  · exact ⟨s2, f1, f2, f3, f4, f5, by rw [f6]; exact ho, f7, ft, fm, fg, onPrecommit_G s2 r _⟩

theorem Spec_congr {i : In} {s s' x : St} (a : s'.height = s.height) (b : s'.round = s.round) (c : s'.step = s.step)
    (d : s'.lockedValue = s.lockedValue) (e : s'.lockedRound = s.lockedRound) (p : s'.powers = s.powers) (tb : TblOK s → TblOK s')
    (mm : MajMono s s') (hrvs : s'.rvs = s.rvs) (h : Spec i s' x) : Spec i s x := by
  obtain ⟨y, h1, h2, h3, h4, h5, h6, h7, h8, h9, h10, g⟩ := h
  exact ⟨y, by rw [h1, a], by rw [h2, b], by rw [h3, c], by rw [h4, d], by rw [h5, e], h6, by rw [h7, p], fun ht => h8 (tb ht),
    MajMono.trans mm h9, Grow_frame h10 (fun q => by simp [St.rv, hrvs]) a (fun _ => rfl), g⟩

/-- every input: `stepCore` is an internal transition from a state with `s`'s height, round, step and lock -/
theorem stepCore_Spec (s : St) (i : In) (ht : WellTimed s i) : Spec i s (stepCore s i) := by
  unfold stepCore
  simp only
  split
  · exact Spec_same rfl rfl rfl rfl rfl rfl rfl (fun h => h) (MajMono_rvs rfl) (Grow_rvs rfl)
  cases i with
  | proposal h r pol v total signer typ =>
    simp only
    obtain ⟨l1, l2, l3, l4, l5, l6, l7, _, l9⟩ := learn_fields { s with out := [], decided := false } v total
    obtain ⟨p1, p2, p3, p4, p5, p6, p7, p8⟩ := setProposal_fields (learn { s with out := [], decided := false } v total) h r pol v total signer typ
    exact Spec_same (by rw [p1, l1]) (by rw [p2, l2]) (by rw [p3, l3]) (by rw [p4, l4]) (by rw [p5, l5]) (by rw [p6, l6]) (by rw [p7, l9])
      (TblOK_rvs (y := s) (by rw [p8, l7]) (by rw [p7, l9])) (MajMono_rvs (by rw [p8, l7])) (Grow_rvs (by rw [p8, l7]))
  | part h r pv idx vOK cOK dec =>
    simp only
    exact Spec_congr (s' := { s with out := [], decided := false, okv := aset s.okv pv (vOK, cOK) }) rfl rfl rfl rfl rfl rfl (fun h => h) (MajMono_rvs rfl) rfl
      (addPart_Spec _ _ h pv idx dec rfl)
  | vote t h r idx v tot src ok =>
    simp only
    obtain ⟨l1, l2, l3, l4, l5, l6, l7, _, l9⟩ := learn_fields { s with out := [], decided := false } v tot
    exact Spec_congr l1 l2 l3 l4 l5 l9 (TblOK_rvs (y := s) l7 l9) (MajMono_rvs l7) l7 (addVote_Spec _ t h r idx v src ok tot l6)
  | timeout h r st =>
    simp only
    by_cases hh : h = s.height
    · have hr : r ≤ s.round := ht h r st rfl hh
      exact ⟨{ s with out := [], decided := false }, rfl, rfl, rfl, rfl, rfl, rfl, rfl, fun h => h, MajMono_rvs rfl, Grow_rvs rfl, handleTimeout_G _ h r st hr⟩
    · rw [stale_timeout { s with out := [], decided := false } h r st (Or.inl hh)]
      exact Spec_same rfl rfl rfl rfl rfl rfl rfl (fun h => h) (MajMono_rvs rfl) (Grow_rvs rfl)
  | txs =>
    simp only
    exact ⟨{ s with out := [], decided := false }, rfl, rfl, rfl, rfl, rfl, rfl, rfl, fun h => h, MajMono_rvs rfl, Grow_rvs rfl, enterPropose_G _ _ 0 (Nat.zero_le _)⟩
  | maj23 r t src v tot =>
    simp only
    obtain ⟨l1, l2, l3, l4, l5, l6, l7, _, l9⟩ := learn_fields { s with out := [], decided := false } v tot
    obtain ⟨p1, p2, p3, p4, p5, p6, p7⟩ := setPeerMaj_fields (learn { s with out := [], decided := false } v tot) r t src v
    exact Spec_same (by rw [p1, l1]) (by rw [p2, l2]) (by rw [p3, l3]) (by rw [p4, l4]) (by rw [p5, l5]) (by rw [p6, l6]) (by rw [p7, l9])
      (fun ht => setPeerMaj_tbl _ r t src v (TblOK_rvs (y := s) l7 l9 ht))
      (MajMono.trans (MajMono_rvs l7) (setPeerMaj_majmono _ r t src v))
      (Grow_frame (setPeerMaj_grow _ _ r t src v) (fun q => by simp [St.rv, l7]) l1 (fun _ => rfl))

/-- what `Spec` means in plain terms -/
theorem Spec_unfold {i : In} {s s' : St} (hw : W s) (h : Spec i s s') :
    W s' ∧ s'.height = s.height ∧ s'.powers = s.powers ∧ (TblOK s → TblOK s') ∧ MajMono s s' ∧ mu s ≤ mu s' ∧
    (s.lockedValue ≠ 0 → (s'.lockedValue = s.lockedValue ∧ s.lockedRound ≤ s'.lockedRound) ∨
        Released s'.pvs s.lockedValue s.lockedRound s'.round) ∧
    Chain (mu s) s'.out (mu s') ∧
    (∀ t h r v, Out.vote t h r v ∈ s'.out →
        h = s.height ∧ mu s < r * 16 + (if t = tPrevote then 4 else 6) ∧
        (t = tPrecommit → v ≠ 0 → (s'.pvs r).maj23 = some v) ∧
        (t = tPrevote → s.lockedValue ≠ 0 → v = s.lockedValue ∨ Released s'.pvs s.lockedValue s.lockedRound r)) ∧
    (∀ h r v, Out.commit h r v ∈ s'.out → h = s.height ∧ v ≠ 0 ∧ (s'.pcs r).maj23 = some v) ∧
    (∀ h r v, Out.vote tPrecommit h r v ∈ s'.out → v ≠ 0 → Held s'.pvs s' v r) ∧ D3C s'.pvs s'.out ∧ Grow i s s' ∧
    (∀ h r st, Out.timeout h r st ∈ s'.out → h = s.height ∧ r ≤ s'.round) := by
  obtain ⟨a, h1, h2, h3, h4, h5, h6, h7, h8, h9, h10, g⟩ := h
  have hwa : W a := by
    refine ⟨by rw [h3]; exact hw.1, fun hl => ?_⟩
    rw [h4] at hl; have := hw.2 hl; simp only [mu, h2, h3, h5] at this ⊢; exact this
  obtain ⟨hw', hh, hrv, hmu, hlev, hpw, new, hout, hch, hj, hk, hd3, htm⟩ := g hwa
  have hpv : s'.pvs = a.pvs := pvs_eq_of_rv hrv
  have hpc : s'.pcs = a.pcs := pcs_eq_of_rv hrv
  have hmua : mu a = mu s := by simp [mu, h2, h3]
  have hout' : s'.out = new := by rw [hout, h6]; simp
  refine ⟨hw', by rw [hh, h1], by rw [hpw, h7], fun ht => TblOK_of_eq hrv hpw (h8 ht), MajMono.trans h9 (MajMono_of_rv hrv), by omega, ?_, by rw [hout', ← hmua]; exact hch, ?_, ?_, ?_, by rw [hout', hpv]; exact hd3,
    Grow_frame h10 (fun _ => rfl) rfl hrv, fun h r st hm => by
      have := htm h r st (by rw [← hout']; exact hm); exact ⟨by rw [this.1, h1], this.2⟩⟩
  · intro hl
    have := hlev (by rw [h4]; exact hl)
    rw [h4, h5] at this
    rw [hpv]; exact this
  · intro t h r v hm
    have := hj _ (by rw [← hout']; exact hm)
    simp only [Just, h1, h4, h5, hmua] at this
    rw [hpv]; exact this
  · intro h r v hm
    have := hj _ (by rw [← hout']; exact hm)
    simp only [Just, h1] at this
    rw [hpc]; exact this
  · intro h r v hm hv
    have := hk h r v (by rw [← hout']; exact hm) hv
    rw [hpv]; exact this

/-! ## the named clauses (one input) -/

/-- `W` is preserved by the whole step, including the height switch -/
theorem step_W (s : St) (i : In) (hw : W s) (ht : WellTimed s i) : W (step s i) := by
  have hs := (Spec_unfold hw (stepCore_Spec s i ht)).1
  unfold step
  simp only
  split
  · unfold newHeight
    split
    · exact ⟨hs.1, by simpa [die, mu] using hs.2⟩
    · simp [W, emit, sNewHeight]
  · exact hs

theorem initSt_W (me : Nat) (powers : List Nat) (maxParts h : Nat) (vals : Model.ValSet.VS) : W (initSt me powers maxParts h vals) := by
  simp [W, initSt, sNewHeight]

/-- **node_precommit_needs_polka**: a precommit for a block `v` at `(h, r)` is emitted only when the node's own prevote table
of round `r` has a +2/3 majority recorded for `v` (`maj23`; `maj23_has_quorum` below turns that into power `> 2/3`) -/
theorem node_precommit_needs_polka (s : St) (i : In) (hw : W s) (ht : WellTimed s i) (h r v : Nat)
    (hm : Out.vote tPrecommit h r v ∈ (stepCore s i).out) (hv : v ≠ 0) :
    h = s.height ∧ ((stepCore s i).pvs r).maj23 = some v := by
  have := (Spec_unfold hw (stepCore_Spec s i ht)).2.2.2.2.2.2.2.2.1 _ _ _ _ hm
  exact ⟨this.1, this.2.2.1 rfl hv⟩

/-- **node_commit_needs_precommits**: a block is committed only with a +2/3 majority of precommits for it in the commit round -/
theorem node_commit_needs_precommits (s : St) (i : In) (hw : W s) (ht : WellTimed s i) (h r v : Nat)
    (hm : Out.commit h r v ∈ (stepCore s i).out) :
    h = s.height ∧ v ≠ 0 ∧ ((stepCore s i).pcs r).maj23 = some v :=
  (Spec_unfold hw (stepCore_Spec s i ht)).2.2.2.2.2.2.2.2.2.1 _ _ _ hm

/-- **node_prevote_respects_lock** — the code's actual condition: a node that enters the step locked on `b` at round `lr`
prevotes `b`, unless its prevote table has a +2/3 majority for something else (another block or nil) at a round in
`(lr, r]`, `r` the round of the prevote (`addVote`'s unlock `LockedRound < vote.Round ≤ cs.Round`, `enterPrecommit`'s unlock/re-lock) -/
theorem node_prevote_respects_lock (s : St) (i : In) (hw : W s) (ht : WellTimed s i) (h r v : Nat)
    (hm : Out.vote tPrevote h r v ∈ (stepCore s i).out) (hl : s.lockedValue ≠ 0) :
    v = s.lockedValue ∨ Released (stepCore s i).pvs s.lockedValue s.lockedRound r :=
  ((Spec_unfold hw (stepCore_Spec s i ht)).2.2.2.2.2.2.2.2.1 _ _ _ _ hm).2.2.2 rfl hl

/-- **node_lock_monotone** — what the code does with a lock within a height: the locked block stays and the locked round does
not decrease, except by a +2/3 prevote majority for something else at a LATER round (up to the current one).  (`LockedRound`
is reset to 0, not -1, on unlock: with the block gone that value is never compared.) -/
theorem node_lock_monotone (s : St) (i : In) (hw : W s) (ht : WellTimed s i) (hl : s.lockedValue ≠ 0) :
    ((stepCore s i).lockedValue = s.lockedValue ∧ s.lockedRound ≤ (stepCore s i).lockedRound) ∨
      Released (stepCore s i).pvs s.lockedValue s.lockedRound (stepCore s i).round :=
  (Spec_unfold hw (stepCore_Spec s i ht)).2.2.2.2.2.2.1 hl

/-- the outputs of `step` are those of `stepCore`, plus the round-0 timeout of the next height after a commit -/
theorem step_out (s : St) (i : In) :
    (step s i).out = (stepCore s i).out ∨
      (step s i).out = (stepCore s i).out ++ [.timeout ((stepCore s i).height + 1) 0 sNewHeight] := by
  unfold step
  simp only
  split
  · unfold newHeight
    split
    · left; simp [die]
    · right; simp [emit]
  · exact Or.inl rfl

theorem step_height (s : St) (i : In) (hw : W s) (ht : WellTimed s i) :
    ((step s i).height = s.height ∧ mu s ≤ mu (step s i)) ∨ (step s i).height = s.height + 1 := by
  have hs := Spec_unfold hw (stepCore_Spec s i ht)
  unfold step
  simp only
  split
  · unfold newHeight
    split
    · left; simpa [die, mu] using ⟨hs.2.1, hs.2.2.2.2.2.1⟩
    · right; simp [emit, hs.2.1]
  · exact Or.inl ⟨hs.2.1, hs.2.2.2.2.2.1⟩

/-! ## reachable states: well-formed with consistent vote tables -/

def Good (s : St) : Prop := W s ∧ TblOK s

theorem TblOK_fresh (x : St) (hx : x.rvs = [(0, RV.empty)]) : TblOK x := by
  intro q
  have : x.rv q = RV.empty := by
    simp only [St.rv, hx, alookup]; split <;> rfl
  simp only [St.pvs, St.pcs, this]
  exact ⟨VOK_empty _, VOK_empty _⟩

theorem initSt_Good (me : Nat) (powers : List Nat) (maxParts h : Nat) (vals : Model.ValSet.VS) : Good (initSt me powers maxParts h vals) :=
  ⟨initSt_W _ _ _ _ _, TblOK_fresh _ rfl⟩

theorem step_Good (s : St) (i : In) (hg : Good s) (ht : WellTimed s i) : Good (step s i) := by
  refine ⟨step_W s i hg.1 ht, ?_⟩
  have hs := Spec_unfold hg.1 (stepCore_Spec s i ht)
  have ht' : TblOK (stepCore s i) := hs.2.2.2.1 hg.2
  unfold step
  simp only
  split
  · unfold newHeight
    split
    · exact TblOK_rvs (y := stepCore s i) rfl rfl ht'
    · exact TblOK_fresh _ rfl
  · exact ht'

/-- **node_precommit_needs_polka, full strength**: in a reachable state, a precommit for block `v` at `(h, r)` is emitted only when
the node's own prevote table of round `r` holds votes for `v` from distinct validators with MORE THAN two thirds of the power -/
theorem node_precommit_has_two_thirds (s : St) (i : In) (hg : Good s) (ht : WellTimed s i) (h r v : Nat)
    (hm : Out.vote tPrecommit h r v ∈ (stepCore s i).out) (hv : v ≠ 0) :
    ∃ who : List Nat, who.Nodup ∧ (∀ j ∈ who, j < s.powers.length) ∧
      (∃ bv, alookup ((stepCore s i).pvs r).byBlock v = some bv ∧ bv.who = who) ∧ 3 * powSum s.powers who > 2 * s.powers.sum := by
  have hs := Spec_unfold hg.1 (stepCore_Spec s i ht)
  have hmaj := (node_precommit_needs_polka s i hg.1 ht h r v hm hv).2
  have hok := (hs.2.2.2.1 hg.2 r).1
  rw [hs.2.2.1] at hok
  exact maj23_has_quorum hok hmaj

/-- **node_commit_needs_precommits, full strength**: a block is committed only when the node's own precommit table of the commit
round holds precommits for it from distinct validators with more than two thirds of the power -/
theorem node_commit_has_two_thirds (s : St) (i : In) (hg : Good s) (ht : WellTimed s i) (h r v : Nat)
    (hm : Out.commit h r v ∈ (stepCore s i).out) :
    v ≠ 0 ∧ ∃ who : List Nat, who.Nodup ∧ (∀ j ∈ who, j < s.powers.length) ∧
      (∃ bv, alookup ((stepCore s i).pcs r).byBlock v = some bv ∧ bv.who = who) ∧ 3 * powSum s.powers who > 2 * s.powers.sum := by
  have hs := Spec_unfold hg.1 (stepCore_Spec s i ht)
  obtain ⟨_, hv, hmaj⟩ := node_commit_needs_precommits s i hg.1 ht h r v hm
  have hok := (hs.2.2.2.1 hg.2 r).2
  rw [hs.2.2.1] at hok
  exact ⟨hv, maj23_has_quorum hok hmaj⟩

/-- **stale_inputs_ignored**: a timeout below the node's current `(height, round, step)` changes nothing -/
theorem stale_inputs_ignored (s : St) (h r st : Nat) (hs : h ≠ s.height ∨ r < s.round ∨ (r = s.round ∧ st < s.step)) :
    handleTimeout s h r st = s := by
  unfold handleTimeout; simp [hs]

/-! ## refinement: every output is an action the protocol rules allow, judged on the node's own tables -/

/-- the L-A rules (`Model.Protocol.eventOk`: d0/d1 slot discipline, d2 polka before precommit, d3 lock, d4 quorum before decide)
restated for ONE node against its OWN state: `s` = state the step starts from, `pvs`/`pcs` = its vote tables when the step ends -/
def Allowed (s : St) (pvs pcs : Nat → VSet) : Out → Prop
  | .vote t h r v =>
      h = s.height ∧
      -- d0 + d1: the vote's slot is strictly above everything the node has been through
      mu s < r * 16 + (if t = tPrevote then 4 else 6) ∧
      -- d2
      (t = tPrecommit → v ≠ 0 → (pvs r).maj23 = some v) ∧
      -- d3 (against the lock the node holds; the lock is what remembers its earlier precommit)
      (t = tPrevote → s.lockedValue ≠ 0 → v = s.lockedValue ∨ Released pvs s.lockedValue s.lockedRound r)
  | .commit h r v => h = s.height ∧ v ≠ 0 ∧ (pcs r).maj23 = some v   -- d4
  | _ => True

/-- **node_refines_protocol** (node-local form): every output of a step is allowed by the protocol rules evaluated on the node's
own vote tables, the slots of the votes of one step strictly increase, and the lock evolves only by the unlock rule.  Together with
`node_votes_once` (d0/d1 along runs), `node_prevote_respects_precommits` (d3 against the node's own earlier precommits) and
`node_precommit_has_two_thirds` / `node_commit_has_two_thirds` (d2/d4 with real power sums) this is the discipline of L-A read on the
node's own tables; the remaining link to `Model.Protocol.disciplined` over a GLOBAL history is listed in checks/C01.json. -/
theorem node_refines_protocol (s : St) (i : In) (hw : W s) (ht : WellTimed s i) :
    (∀ o ∈ (stepCore s i).out, Allowed s (stepCore s i).pvs (stepCore s i).pcs o) ∧
    Chain (mu s) (stepCore s i).out (mu (stepCore s i)) ∧
    (s.lockedValue ≠ 0 → ((stepCore s i).lockedValue = s.lockedValue ∧ s.lockedRound ≤ (stepCore s i).lockedRound) ∨
        Released (stepCore s i).pvs s.lockedValue s.lockedRound (stepCore s i).round) := by
  obtain ⟨_, _, _, _, _, _, hlev, hch, hv, hc, _⟩ := Spec_unfold hw (stepCore_Spec s i ht)
  refine ⟨?_, hch, hlev⟩
  intro o ho
  cases o with
  | vote t h r v => exact hv t h r v ho
  | commit h r v => exact hc h r v ho
  | proposal h r pol v => trivial
  | timeout h r st => trivial

/-! ## runs: `node_votes_once` -/

/-- all outputs of a run, in order -/
def outs (s : St) : List In → List Out
  | [] => []
  | i :: rest => (step s i).out ++ outs (step s i) rest

/-- every timeout of the input sequence is for a round the node has reached -/
def Timed (s : St) : List In → Prop
  | [] => True
  | i :: rest => WellTimed s i ∧ Timed (step s i) rest

/-- at most one value per vote slot `(type, height, round)` -/
def Once (hist : List Out) : Prop :=
  ∀ t h r v v', Out.vote t h r v ∈ hist → Out.vote t h r v' ∈ hist → v = v'

/-- all votes so far are below the node's current `(height, round, step)` -/
def Below (s : St) (hist : List Out) : Prop :=
  ∀ t h r v, Out.vote t h r v ∈ hist → h < s.height ∨ (h = s.height ∧ r * 16 + (if t = tPrevote then 4 else 6) ≤ mu s)

theorem step_mu (s : St) (i : In) :
    ((step s i).height = (stepCore s i).height ∧ mu (step s i) = mu (stepCore s i)) ∨
      (step s i).height = (stepCore s i).height + 1 := by
  unfold step
  simp only
  split
  · unfold newHeight
    split
    · left; simp [die, mu]
    · right; simp [emit]
  · exact Or.inl ⟨rfl, rfl⟩

theorem vote_mem_step {s : St} {i : In} {t h r v : Nat} (hm : Out.vote t h r v ∈ (step s i).out) :
    Out.vote t h r v ∈ (stepCore s i).out := by
  rcases step_out s i with e | e
  · rw [e] at hm; exact hm
  · rw [e] at hm; simpa using hm

theorem pairwise_stamp_inj : ∀ {l : List Out}, (l.filterMap stamp).Pairwise (· < ·) →
    ∀ {a b : Out} {k : Nat}, a ∈ l → b ∈ l → stamp a = some k → stamp b = some k → a = b
  | [], _, _, _, _, ha, _, _, _ => by cases ha
  | x :: rest, hp, a, b, k, ha, hb, hka, hkb => by
    cases hs : stamp x with
    | none =>
      simp only [List.filterMap_cons, hs] at hp
      rcases List.mem_cons.1 ha with rfl | ha'
      · rw [hs] at hka; cases hka
      rcases List.mem_cons.1 hb with rfl | hb'
      · rw [hs] at hkb; cases hkb
      exact pairwise_stamp_inj hp ha' hb' hka hkb
    | some kx =>
      simp only [List.filterMap_cons, hs, List.pairwise_cons] at hp
      have hlt : ∀ o ∈ rest, stamp o = some k → kx < k := fun o ho hk => hp.1 k (List.mem_filterMap.2 ⟨o, ho, hk⟩)
      rcases List.mem_cons.1 ha with rfl | ha' <;> rcases List.mem_cons.1 hb with rfl | hb'
      · rfl
      · have : kx = k := by rw [hs] at hka; exact Option.some.inj hka
        have := hlt b hb' hkb; omega
      · have : kx = k := by rw [hs] at hkb; exact Option.some.inj hkb
        have := hlt a ha' hka; omega
      · exact pairwise_stamp_inj hp.2 ha' hb' hka hkb

theorem once_step (s : St) (i : In) (hist : List Out) (hw : W s) (ht : WellTimed s i) (hb : Below s hist) (ho : Once hist) :
    Once (hist ++ (step s i).out) ∧ Below (step s i) (hist ++ (step s i).out) := by
  obtain ⟨_, hh, _, _, _, hmu, _, hch, hv, _, _⟩ := Spec_unfold hw (stepCore_Spec s i ht)
  have hnew : ∀ t h r v, Out.vote t h r v ∈ (step s i).out →
      h = s.height ∧ mu s < r * 16 + (if t = tPrevote then 4 else 6) ∧ r * 16 + (if t = tPrevote then 4 else 6) ≤ mu (stepCore s i) := by
    intro t h r v hm
    have hm' := vote_mem_step hm
    have := hv t h r v hm'
    exact ⟨this.1, this.2.1, (Chain_mem hch _ hm' _ rfl).2⟩
  constructor
  · intro t h r v v' h1 h2
    rcases List.mem_append.1 h1 with h1 | h1 <;> rcases List.mem_append.1 h2 with h2 | h2
    · exact ho t h r v v' h1 h2
    · have := hnew _ _ _ _ h2; rcases hb _ _ _ _ h1 with hlt | ⟨_, hle⟩ <;> omega
    · have := hnew _ _ _ _ h1; rcases hb _ _ _ _ h2 with hlt | ⟨_, hle⟩ <;> omega
    · have e := pairwise_stamp_inj (Chain_nodup hch) (vote_mem_step h1) (vote_mem_step h2) (k := r * 16 + (if t = tPrevote then 4 else 6)) rfl rfl
      cases e; rfl
  · intro t h r v hm
    rcases List.mem_append.1 hm with hm | hm
    · rcases step_mu s i with ⟨e1, e2⟩ | e1
      · rcases hb _ _ _ _ hm with hlt | ⟨he, hle⟩
        · left; omega
        · right; exact ⟨by omega, by omega⟩
      · left; rcases hb _ _ _ _ hm with hlt | ⟨he, _⟩ <;> omega
    · have := hnew _ _ _ _ hm
      rcases step_mu s i with ⟨e1, e2⟩ | e1
      · right; exact ⟨by omega, by omega⟩
      · left; omega

theorem once_run : ∀ (is : List In) (s : St) (hist : List Out), W s → Timed s is → Below s hist → Once hist →
    Once (hist ++ outs s is)
  | [], _, hist, _, _, _, ho => by simpa [outs] using ho
  | i :: rest, s, hist, hw, ht, hb, ho => by
    obtain ⟨h1, h2⟩ := once_step s i hist hw ht.1 hb ho
    have := once_run rest (step s i) (hist ++ (step s i).out) (step_W s i hw ht.1) ht.2 h2 h1
    simpa [outs, List.append_assoc] using this

/-- **node_votes_once**: along any run (timeouts well-timed) from a well-formed state that has not voted yet, the node never
emits two different prevotes, or two different precommits, for the same height and round -/
theorem node_votes_once (s : St) (is : List In) (hw : W s) (ht : Timed s is) (t h r v v' : Nat)
    (h1 : Out.vote t h r v ∈ outs s is) (h2 : Out.vote t h r v' ∈ outs s is) : v = v' := by
  have := once_run is s [] hw ht (by intro _ _ _ _ hm; cases hm) (by intro _ _ _ _ _ hm; cases hm)
  exact this t h r v v' (by simpa using h1) (by simpa using h2)

/-! ## runs: the lock remembers the node's own precommits (d3 in the form of L-A) -/

/-- every own precommit for a block at the current height is still held (`Held`) by the state -/
def PrecommitsHeld (s : St) (hist : List Out) : Prop :=
  ∀ h r b, Out.vote tPrecommit h r b ∈ hist → b ≠ 0 → h = s.height → Held s.pvs s b r

theorem step_cases (s : St) (i : In) :
    step s i = stepCore s i ∨ step s i = die (stepCore s i) ∨ (step s i).height = (stepCore s i).height + 1 := by
  unfold step
  simp only
  split
  · unfold newHeight
    split
    · exact Or.inr (Or.inl rfl)
    · right; right; simp [emit]
  · exact Or.inl rfl

theorem held_step (s : St) (i : In) (hist : List Out) (hw : W s) (ht : WellTimed s i) (hb : Below s hist)
    (hp : PrecommitsHeld s hist) : PrecommitsHeld (step s i) (hist ++ (step s i).out) := by
  obtain ⟨hw', hh, _, _, hmm, hmu, hlev, _, hv, _, hk, _⟩ := Spec_unfold hw (stepCore_Spec s i ht)
  have hr : s.round ≤ (stepCore s i).round := round_le_of_mu hmu hw'.1
  -- the claim for the state before the height switch
  have core : ∀ h r b, Out.vote tPrecommit h r b ∈ hist ++ (step s i).out → b ≠ 0 → h = s.height →
      Held (stepCore s i).pvs (stepCore s i) b r := by
    intro h r b hm hb0 hh'
    rcases List.mem_append.1 hm with hm | hm
    · rcases hp h r b hm hb0 hh' with ⟨e1, e2⟩ | hrel
      · have hl : s.lockedValue ≠ 0 := by rw [e1]; exact hb0
        rcases hlev hl with ⟨f1, f2⟩ | hrel2
        · exact Or.inl ⟨by rw [f1, e1], Nat.le_trans e2 f2⟩
        · right; rw [e1] at hrel2; exact Released_mono hrel2 e2 (Nat.le_refl _)
      · right
        obtain ⟨r', x, h1, h2, h3, h4⟩ := hrel
        exact ⟨r', x, h1, by omega, hmm r' x h3, h4⟩
    · exact hk h r b (vote_mem_step hm) hb0
  intro h r b hm hb0 hh'
  rcases step_cases s i with e | e | e
  · rw [e] at hh' ⊢; exact core h r b hm hb0 (by rw [hh', hh])
  · rw [e] at hh' ⊢
    have := core h r b hm hb0 (by rw [hh']; simpa [die] using hh)
    have hpd : (die (stepCore s i)).pvs = (stepCore s i).pvs := by funext q; rfl
    rw [hpd]
    exact this
  · -- new height: no vote of the history is for it
    exfalso
    rcases List.mem_append.1 hm with hm | hm
    · rcases hb _ _ _ _ hm with hlt | ⟨he, _⟩ <;> omega
    · have := (hv _ _ _ _ (vote_mem_step hm)).1; omega

theorem held_run : ∀ (is : List In) (s : St) (hist : List Out), W s → Timed s is → Below s hist → Once hist → PrecommitsHeld s hist →
    PrecommitsHeld (run s is) (hist ++ outs s is) ∧ Below (run s is) (hist ++ outs s is) ∧ W (run s is)
  | [], s, hist, hw, _, hb, _, hp => by simpa [outs, run] using ⟨hp, hb, hw⟩
  | i :: rest, s, hist, hw, ht, hb, ho, hp => by
    obtain ⟨h1, h2⟩ := once_step s i hist hw ht.1 hb ho
    have h3 := held_step s i hist hw ht.1 hb hp
    have := held_run rest (step s i) (hist ++ (step s i).out) (step_W s i hw ht.1) ht.2 h2 h1 h3
    simpa [outs, run, List.append_assoc] using this

/-- **node_prevote_respects_precommits** (d3 as L-A states it, on the node's own tables): after a run from a well-formed state that
has not voted yet, if the node has precommitted block `b` at `(h, r0)` and now prevotes `v` at `(h, r')`, then `v = b`, or its
prevote table holds a +2/3 majority for something other than `b` at a round in `(r0, r']` -/
theorem node_prevote_respects_precommits (s0 : St) (is : List In) (i : In) (hw : W s0) (ht : Timed s0 is)
    (hti : WellTimed (run s0 is) i) (h r0 b r' v : Nat)
    (hpc : Out.vote tPrecommit h r0 b ∈ outs s0 is) (hb0 : b ≠ 0)
    (hpv : Out.vote tPrevote h r' v ∈ (stepCore (run s0 is) i).out) :
    v = b ∨ Released (stepCore (run s0 is) i).pvs b r0 r' := by
  obtain ⟨hheld, _, hws⟩ := held_run is s0 [] hw ht (by intro _ _ _ _ hm; cases hm) (by intro _ _ _ _ _ hm; cases hm)
    (by intro _ _ _ hm; cases hm)
  simp only [List.nil_append] at hheld
  generalize run s0 is = s at *
  obtain ⟨_, _, _, _, hmm, _, _, _, hv, _, _⟩ := Spec_unfold hws (stepCore_Spec s i hti)
  obtain ⟨hh, hst, _, hlk⟩ := hv _ _ _ _ hpv
  have hrr : s.round ≤ r' := by
    have : s.round * 16 ≤ mu s := by unfold mu; omega
    simp [tPrevote] at hst; omega
  rcases hheld h r0 b hpc hb0 hh with ⟨e1, e2⟩ | hrel
  · have hl : s.lockedValue ≠ 0 := by rw [e1]; exact hb0
    rcases hlk rfl hl with e | hrel2
    · exact Or.inl (by rw [e, e1])
    · right; rw [e1] at hrel2; exact Released_mono hrel2 e2 (Nat.le_refl _)
  · right
    obtain ⟨r'', x, h1, h2, h3, h4⟩ := hrel
    exact ⟨r'', x, h1, by omega, hmm r'' x h3, h4⟩

/-- state form of `node_prevote_respects_precommits`: the invariant `PrecommitsHeld` is all that is needed of the past -/
theorem prevote_respects_held (s : St) (i : In) (hw : W s) (ht : WellTimed s i) (log : List Out) (hheld : PrecommitsHeld s log)
    (h r0 b r' v : Nat) (hpc : Out.vote tPrecommit h r0 b ∈ log) (hb0 : b ≠ 0)
    (hpv : Out.vote tPrevote h r' v ∈ (stepCore s i).out) : v = b ∨ Released (stepCore s i).pvs b r0 r' := by
  obtain ⟨_, _, _, _, hmm, _, _, _, hv, _, _⟩ := Spec_unfold hw (stepCore_Spec s i ht)
  obtain ⟨hh, hst, _, hlk⟩ := hv _ _ _ _ hpv
  have hrr : s.round ≤ r' := by
    have : s.round * 16 ≤ mu s := by unfold mu; omega
    simp [tPrevote] at hst; omega
  rcases hheld h r0 b hpc hb0 hh with ⟨e1, e2⟩ | hrel
  · have hl : s.lockedValue ≠ 0 := by rw [e1]; exact hb0
    rcases hlk rfl hl with e | hrel2
    · exact Or.inl (by rw [e, e1])
    · right; rw [e1] at hrel2; exact Released_mono hrel2 e2 (Nat.le_refl _)
  · right
    obtain ⟨r'', x, h1, h2, h3, h4⟩ := hrel
    exact ⟨r'', x, h1, by omega, hmm r'' x h3, h4⟩

/-! ## runs: the timeouts the node has scheduled -/

/-- every timeout the node has scheduled is for a height it has reached and, at its current height, for a round it has reached -/
def TimeoutsOK (s : St) (log : List Out) : Prop :=
  ∀ h r st, Out.timeout h r st ∈ log → h < s.height ∨ (h = s.height ∧ r ≤ s.round)

theorem step_shape (s : St) (i : In) :
    step s i = stepCore s i ∨ step s i = die (stepCore s i) ∨
      ((step s i).height = (stepCore s i).height + 1 ∧
       (step s i).out = (stepCore s i).out ++ [.timeout ((stepCore s i).height + 1) 0 sNewHeight]) := by
  unfold step
  simp only
  split
  · unfold newHeight
    split
    · exact Or.inr (Or.inl rfl)
    · right; right; simp [emit]
  · exact Or.inl rfl

theorem timeouts_step (s : St) (i : In) (log : List Out) (hw : W s) (ht : WellTimed s i) (hl : TimeoutsOK s log) :
    TimeoutsOK (step s i) (log ++ (step s i).out) := by
  obtain ⟨hw', hh, _, _, _, hmu, _, _, _, _, _, _, _, htm⟩ := Spec_unfold hw (stepCore_Spec s i ht)
  have hr : s.round ≤ (stepCore s i).round := round_le_of_mu hmu hw'.1
  have core : ∀ h r st, Out.timeout h r st ∈ log ++ (stepCore s i).out →
      h < (stepCore s i).height ∨ (h = (stepCore s i).height ∧ r ≤ (stepCore s i).round) := by
    intro h r st hm
    rcases List.mem_append.1 hm with hm | hm
    · rcases hl h r st hm with h1 | ⟨h1, h2⟩
      · left; omega
      · right; exact ⟨by omega, by omega⟩
    · have := htm h r st hm; right; exact ⟨by omega, this.2⟩
  intro h r st hm
  rcases step_shape s i with e | e | ⟨e1, e2⟩
  · rw [e] at hm ⊢; exact core h r st hm
  · rw [e] at hm ⊢; simpa [die] using core h r st (by simpa [die] using hm)
  · rw [e2, ← List.append_assoc] at hm
    rcases List.mem_append.1 hm with hm | hm
    · rcases core h r st hm with h1 | ⟨h1, _⟩
      · left; omega
      · left; omega
    · simp at hm
      right; exact ⟨by omega, by omega⟩

theorem run_Good : ∀ (is : List In) (s : St), Good s → Timed s is → Good (run s is)
  | [], _, hg, _ => hg
  | i :: rest, s, hg, ht => run_Good rest (step s i) (step_Good s i hg ht.1) ht.2

/-! ## non-vacuity and the need for `WellTimed` -/

def wellTimedB (s : St) : In → Bool
  | .timeout h r _ => decide (h ≠ s.height ∨ r ≤ s.round)
  | _ => true

def timedB (s : St) : List In → Bool
  | [] => true
  | i :: rest => wellTimedB s i && timedB (step s i) rest

theorem wellTimed_of_B {s : St} {i : In} (h : wellTimedB s i = true) : WellTimed s i := by
  intro h' r st e hh; subst e
  simp only [wellTimedB, decide_eq_true_eq] at h
  rcases h with h | h
  · exact absurd hh h
  · exact h

theorem timed_of_B : ∀ (is : List In) (s : St), timedB s is = true → Timed s is
  | [], _, _ => trivial
  | i :: rest, s, h => by
    simp only [timedB, Bool.and_eq_true] at h
    exact ⟨wellTimed_of_B h.1, timed_of_B rest _ h.2⟩

/-- four validators of power 1 (validator 1 proposes round 0 of height 1), the node is validator 0 -/
def exVals : Model.ValSet.VS :=
  { vals := [⟨0, 1, 1⟩, ⟨1, 1, -3⟩, ⟨2, 1, 1⟩, ⟨3, 1, 1⟩], proposer := some 1 }

def exInit : St := initSt 0 [1, 1, 1, 1] 673 1 exVals

/-- height 1, happy path: proposal for block 7 by validator 1, its single part, three prevotes, three precommits -/
def exRun : List In :=
  [ .timeout 1 0 sNewHeight,
    .proposal 1 0 (-1) 7 1 1 32,
    .part 1 0 7 0 true true true,
    .vote tPrevote 1 0 0 7 1 0 true, .vote tPrevote 1 0 1 7 1 1 true, .vote tPrevote 1 0 2 7 1 2 true,
    .vote tPrecommit 1 0 0 7 1 0 true, .vote tPrecommit 1 0 1 7 1 1 true, .vote tPrecommit 1 0 2 7 1 2 true ]

/-- non-vacuity: a concrete 4-validator run through the model prevotes, locks, precommits and commits block 7 and moves to height 2;
its hypotheses `W`, `Timed` hold -/
theorem exRun_outs : outs exInit exRun =
    [ .timeout 1 0 sPropose, .vote tPrevote 1 0 7, .vote tPrecommit 1 0 7, .commit 1 0 7, .timeout 2 0 sNewHeight ] := by decide

theorem exRun_final : (run exInit exRun).height = 2 ∧ (run exInit exRun).step = sNewHeight ∧ (run exInit exRun).lockedValue = 0 := by decide

theorem exRun_timed : W exInit ∧ Timed exInit exRun := ⟨initSt_W _ _ _ _ _, timed_of_B _ _ (by decide)⟩

example : ∃ s is, W s ∧ Timed s is ∧ Out.vote tPrecommit 1 0 7 ∈ outs s is ∧ Out.commit 1 0 7 ∈ outs s is :=
  ⟨exInit, exRun, exRun_timed.1, exRun_timed.2, by rw [exRun_outs]; decide, by rw [exRun_outs]; decide⟩

/-- lock carried into the next round: after the polka and its own precommit for 7 at round 0 the node sees +2/3 nil precommits,
moves to round 1 and, on the propose timeout, prevotes the block it is locked on -/
def exLockRun : List In :=
  [ .timeout 1 0 sNewHeight,
    .proposal 1 0 (-1) 7 1 1 32,
    .part 1 0 7 0 true true true,
    .vote tPrevote 1 0 0 7 1 0 true, .vote tPrevote 1 0 1 7 1 1 true, .vote tPrevote 1 0 2 7 1 2 true,
    .vote tPrecommit 1 0 1 0 0 1 true, .vote tPrecommit 1 0 2 0 0 2 true, .vote tPrecommit 1 0 3 0 0 3 true,
    .timeout 1 1 sPropose ]

theorem exLockRun_votes : (outs exInit exLockRun).filter (fun o => match o with | .vote .. => true | _ => false) =
    [ .vote tPrevote 1 0 7, .vote tPrecommit 1 0 7, .vote tPrevote 1 1 7 ] := by decide

theorem exLockRun_lock : (run exInit exLockRun).lockedValue = 7 ∧ (run exInit exLockRun).lockedRound = 0 ∧ (run exInit exLockRun).round = 1 := by decide

example : ∃ s0 is i h r0 b r' v, W s0 ∧ Timed s0 is ∧ WellTimed (run s0 is) i ∧ Out.vote tPrecommit h r0 b ∈ outs s0 is ∧ b ≠ 0 ∧
    Out.vote tPrevote h r' v ∈ (stepCore (run s0 is) i).out ∧ r0 < r' :=
  ⟨exInit, exLockRun.take 9, .timeout 1 1 sPropose, 1, 0, 7, 1, 7, initSt_W _ _ _ _ _, timed_of_B _ _ (by decide),
    wellTimed_of_B (by decide), by decide, by decide, by decide, by decide⟩

/-- the discipline WITHOUT the timing hypothesis, as a statement -/
def node_votes_once_untimed_statement : Prop := ∀ (s : St) (is : List In), W s → Once (outs s is)

/-- a timeout for a FUTURE round (which the real ticker never produces) makes the node prevote twice in its current round:
`enterPrevote(height, round)` signs with `cs.Round`, not with `round`.  Round 0: prevote nil on the propose timeout, then the block
arrives, then a propose timeout "of round 1" -/
def exUntimed : List In :=
  [ .timeout 1 0 sNewHeight, .timeout 1 0 sPropose, .proposal 1 0 (-1) 7 1 1 32, .part 1 0 7 0 true true true, .timeout 1 1 sPropose ]

theorem votes_once_needs_timed : ¬ node_votes_once_untimed_statement := by
  intro h
  have := h exInit exUntimed (initSt_W _ _ _ _ _) tPrevote 1 0 0 7 (by decide) (by decide)
  exact absurd this (by decide)

end Props.C01Node
