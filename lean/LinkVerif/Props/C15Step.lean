import LinkVerif.Props.C15Inv

/-!
# C15 — part 3: admission, Update and histories preserve the invariant
-/
namespace Props.C15
open Model.Ledger Model.Mempool

theorem Inv.congr {p q : Pool} (h : Inv p) (hc : q.c = p.c) (ha : q.acc = p.acc) (hi : q.imgs = p.imgs) (hg : q.good = p.good)
    (hu : q.utxo = p.utxo) (hf : q.fut = p.fut) (hcfg : q.cfg = p.cfg) : Inv q := by
  obtain ⟨h1, h2, h3, h4, h5, h6, h7, h8⟩ := h
  constructor <;> simp only [hc, ha, hi, hg, hu, hf, hcfg] <;> assumption

theorem uncache_inv {p : Pool} (id : Nat) (h : Inv p) : Inv (uncache p id) := h.congr rfl rfl rfl rfl rfl rfl rfl

theorem addFuture_inv {p : Pool} {e : E} (h : Inv p) (hk : e.t.kind ≠ .uin) (hg : GoodT e.t) :
    Inv (addFuture p e).2 ∧ (addFuture p e).2.c = p.c ∧ (addFuture p e).2.cfg = p.cfg ∧ (addFuture p e).2.good = p.good ∧
    (addFuture p e).2.acc = p.acc ∧ (addFuture p e).2.utxo = p.utxo ∧ (addFuture p e).2.imgs = p.imgs := by
  unfold addFuture
  split
  · exact ⟨h, rfl, rfl, rfl, rfl, rfl, rfl⟩
  · split
    · exact ⟨h, rfl, rfl, rfl, rfl, rfl, rfl⟩
    · refine ⟨⟨h.path, h.gkind, ?_, h.ukind, h.imgs, h.nodup, h.fresh, h.good.1, ?_⟩, rfl, rfl, rfl, rfl, rfl, rfl⟩
      · intro x hx
        rcases List.mem_append.mp hx with h1 | h1
        · exact h.fkind x h1
        · simp at h1; subst h1; exact hk
      · intro x hx
        rcases List.mem_append.mp hx with h1 | h1
        · exact h.good.2 x h1
        · simp at h1; subst h1; exact hg

theorem Inv.setAcc_full {p : Pool} (h : Inv p) (a : Acc) (hfull : ¬ p.good.length < p.cfg.size) : Inv { p with acc := a } := by
  obtain ⟨σ, h1, _⟩ := h.path
  exact ⟨⟨σ, h1, fun hl => absurd hl hfull⟩, h.gkind, h.fkind, h.ukind, h.imgs, h.nodup, h.fresh, h.good⟩

theorem addGood_inv {p : Pool} {e : E} (h : Inv p) (hroom : p.good.length < p.cfg.size) (hk : e.t.kind ≠ .uin) (hg : GoodT e.t)
    (hok : (checkAcc p.acc e.t).1 = .ok) :
    Inv (addGood { p with acc := (checkAcc p.acc e.t).2 } e) ∧ (addGood { p with acc := (checkAcc p.acc e.t).2 } e).c = p.c ∧
    (addGood { p with acc := (checkAcc p.acc e.t).2 } e).cfg = p.cfg := by
  unfold addGood
  have hex := h.exact hroom
  have happ := runAcc_append hex hok
  have hinv : Inv { p with acc := (checkAcc p.acc e.t).2, good := p.good ++ [e] } := by
    refine ⟨⟨_, by simpa using happ, fun _ => rfl⟩, ?_, h.fkind, h.ukind, h.imgs, h.nodup, h.fresh, ?_, h.good.2⟩
    · intro x hx
      rcases List.mem_append.mp hx with h1 | h1
      · exact h.gkind x h1
      · simp at h1; subst h1; exact hk
    · intro x hx
      rcases List.mem_append.mp hx with h1 | h1
      · exact h.good.1 x h1
      · simp at h1; subst h1; exact hg
  have := promote_inv e.t.from_ hinv
  exact ⟨this.1, this.2.1, this.2.2⟩

theorem addAccount_inv {p : Pool} {e : E} (h : Inv p) (hk : e.t.kind ≠ .uin) (hg : GoodT e.t) :
    Inv (addAccount p e).2 ∧ (addAccount p e).2.c = p.c ∧ (addAccount p e).2.cfg = p.cfg := by
  unfold addAccount
  simp only []
  by_cases hok : (checkAcc p.acc e.t).1 = .ok
  · simp only [hok, if_true]
    by_cases hroom : p.good.length < p.cfg.size
    · simp only [hroom, if_true]
      exact addGood_inv h hroom hk hg hok
    · simp only [hroom, if_false]
      have := addFuture_inv (h.setAcc_full (checkAcc p.acc e.t).2 hroom) hk hg
      exact ⟨this.1, this.2.1, this.2.2.1⟩
  · have hsame := checkAcc_clean hok
    simp only [hok, if_false, hsame]
    have hp : Inv { p with acc := p.acc } := h
    split
    · have := addFuture_inv hp hk hg
      exact ⟨this.1, this.2.1, this.2.2.1⟩
    · exact ⟨hp, rfl, rfl⟩

theorem checkImg_ok {spent imgs : List Nat} {t : TxRec} (h : checkImg spent imgs t = .ok) : t.spends ∉ spent ∧ t.spends ∉ imgs := by
  unfold checkImg at h
  split at h
  · cases h
  · split at h
    · cases h
    · rename_i h1 h2
      exact ⟨by simpa using h1, by simpa using h2⟩

theorem pushImg_inv {p : Pool} {e : E} (h : Inv p) (hk : e.t.kind = .uin) (hok : checkImg p.c.spentImgs p.imgs e.t = .ok) :
    Inv { p with imgs := p.imgs ++ [e.t.spends], utxo := p.utxo ++ [e] } := by
  obtain ⟨h1, h2⟩ := checkImg_ok hok
  refine ⟨h.path, h.gkind, h.fkind, ?_, ?_, ?_, ?_, h.good⟩
  · intro x hx
    rcases List.mem_append.mp hx with h3 | h3
    · exact h.ukind x h3
    · simp at h3; subst h3; exact hk
  · simp [h.imgs]
  · have := h.nodup
    rw [List.nodup_append]
    refine ⟨this, by simp, ?_⟩
    intro a ha b hb
    simp at hb; subst hb
    intro heq; subst heq; exact h2 ha
  · intro i hi
    rcases List.mem_append.mp hi with h3 | h3
    · exact h.fresh i h3
    · simp at h3; subst h3; exact h1

theorem addPure_inv {p : Pool} {e : E} (h : Inv p) (hk : e.t.kind = .uin) :
    Inv (addPure p e).2 ∧ (addPure p e).2.c = p.c ∧ (addPure p e).2.cfg = p.cfg := by
  unfold addPure
  split
  · exact ⟨h, rfl, rfl⟩
  · split
    · rename_i hok; exact ⟨pushImg_inv h hk hok, rfl, rfl⟩
    · exact ⟨h, rfl, rfl⟩

/-- the basic check admits only unsigned amounts (values, fees, account outputs) -/
theorem basic_ok_wf {t : TxRec} (h : basic t = .ok) : WFt t := by
  unfold basic at h
  split at h
  · cases h
  · split at h
    · cases h
    · rename_i hneg
      refine ⟨by omega, by omega, ?_⟩
      intro a v hav
      rw [hav] at h
      simp only [] at h
      split at h
      · cases h
      · omega

theorem addTx_inv {p : Pool} {e : E} (h : Inv p) :
    Inv (addTx p e).2 ∧ (addTx p e).2.c = p.c ∧ (addTx p e).2.cfg = p.cfg := by
  unfold addTx
  split
  · exact ⟨h, rfl, rfl⟩
  · split
    · rename_i hbasic
      have hg : GoodT e.t := basic_ok_wf hbasic
      split
      · exact ⟨h, rfl, rfl⟩
      · simp only []
        have hp1 : Inv { p with cache := p.cache ++ [e.id] } := h.congr rfl rfl rfl rfl rfl rfl rfl
        by_cases hk : e.t.kind = .uin
        · simp only [hk, if_true]
          have := addPure_inv (e := e) hp1 hk
          split
          · exact this
          · exact ⟨uncache_inv _ this.1, this.2.1, this.2.2⟩
        · simp only [hk, if_false]
          have := addAccount_inv (e := e) hp1 hk hg
          split
          · exact this
          · exact ⟨uncache_inv _ this.1, this.2.1, this.2.2⟩
    · exact ⟨h, rfl, rfl⟩

/-! ## Update -/

theorem recheckGood_inv : ∀ (l : List E) (p : Pool), Inv p → Exact p → (∀ e ∈ l, e.t.kind ≠ .uin ∧ GoodT e.t) →
    Inv (recheckGood p l) ∧ (recheckGood p l).c = p.c ∧ (recheckGood p l).cfg = p.cfg ∧
    (recheckGood p l).utxo = p.utxo ∧ (recheckGood p l).imgs = p.imgs := by
  intro l
  induction l with
  | nil => intro p h _ _; exact ⟨h, rfl, rfl, rfl, rfl⟩
  | cons e r ih =>
    intro p h hex hl
    have he := hl e (List.mem_cons_self ..)
    have hr : ∀ x ∈ r, x.t.kind ≠ .uin ∧ GoodT x.t := fun x hx => hl x (List.mem_cons_of_mem _ hx)
    unfold recheckGood
    by_cases hok : (checkAcc p.acc e.t).1 = .ok
    · simp only [hok, if_true]
      have happ := runAcc_append hex hok
      have hex' : Exact { p with acc := (checkAcc p.acc e.t).2, good := p.good ++ [e] } := by
        unfold Exact; simpa using happ
      have hinv : Inv { p with acc := (checkAcc p.acc e.t).2, good := p.good ++ [e] } := by
        refine ⟨⟨_, hex', fun _ => rfl⟩, ?_, h.fkind, h.ukind, h.imgs, h.nodup, h.fresh, ?_, h.good.2⟩
        · intro x hx
          rcases List.mem_append.mp hx with h1 | h1
          · exact h.gkind x h1
          · simp at h1; subst h1; exact he.1
        · intro x hx
          rcases List.mem_append.mp hx with h1 | h1
          · exact h.good.1 x h1
          · simp at h1; subst h1; exact he.2
      exact ih _ hinv hex' hr
    · have hsame := checkAcc_clean hok
      simp only [hok, if_false, hsame]
      have hp : Inv { p with acc := p.acc } := h
      have hpe : Exact { p with acc := p.acc } := hex
      have haf := addFuture_inv hp he.1 he.2
      have hafe : Exact (addFuture { p with acc := p.acc } e).2 := by
        unfold Exact; rw [haf.2.1, haf.2.2.2.1, haf.2.2.2.2.1]; exact hex
      split
      · split
        · have := ih _ haf.1 hafe hr
          exact ⟨this.1, by rw [this.2.1, haf.2.1], by rw [this.2.2.1, haf.2.2.1], by rw [this.2.2.2.1, haf.2.2.2.2.2.1], by rw [this.2.2.2.2, haf.2.2.2.2.2.2]⟩
        · have := ih _ (uncache_inv e.id haf.1) hafe hr
          exact ⟨this.1, by rw [this.2.1]; exact haf.2.1, by rw [this.2.2.1]; exact haf.2.2.1, by rw [this.2.2.2.1]; exact haf.2.2.2.2.2.1,
            by rw [this.2.2.2.2]; exact haf.2.2.2.2.2.2⟩
      · exact ih _ (uncache_inv e.id hp) hpe hr

theorem recheckUtxo_inv : ∀ (l : List E) (p : Pool), Inv p → (∀ e ∈ l, e.t.kind = .uin) →
    Inv (recheckUtxo p l) ∧ (recheckUtxo p l).c = p.c ∧ (recheckUtxo p l).cfg = p.cfg := by
  intro l
  induction l with
  | nil => intro p h _; exact ⟨h, rfl, rfl⟩
  | cons e r ih =>
    intro p h hl
    have he := hl e (List.mem_cons_self ..)
    have hr : ∀ x ∈ r, x.t.kind = .uin := fun x hx => hl x (List.mem_cons_of_mem _ hx)
    unfold recheckUtxo
    split
    · rename_i hok
      exact ih _ (pushImg_inv h he hok) hr
    · exact ih _ (uncache_inv e.id h) hr

/-- **Update re-establishes the invariant from the new committed ledger, whatever that ledger is** -/
theorem update_inv {p : Pool} (h : Inv p) (c' : St) (ids : List Nat) :
    Inv (update p c' ids) ∧ (update p c' ids).c = c' ∧ (update p c' ids).cfg = p.cfg := by
  unfold update promoteEvery
  simp only []
  have hp0 : Inv { p with c := c', acc := accOf c', imgs := [], good := [], utxo := [] } := by
    refine ⟨⟨accOf c', rfl, fun _ => rfl⟩, ?_, h.fkind, ?_, rfl, List.nodup_nil, ?_, ⟨?_, h.good.2⟩⟩ <;> simp
  have hex0 : Exact { p with c := c', acc := accOf c', imgs := [], good := [], utxo := [] } := rfl
  have h1 := recheckGood_inv (p.good.filter (fun e => !ids.contains e.id)) _ hp0 hex0
    (fun e he => ⟨h.gkind e (List.mem_filter.mp he).1, h.good.1 e (List.mem_filter.mp he).1⟩)
  have h2 := recheckUtxo_inv (p.utxo.filter (fun e => !ids.contains e.id)) _ h1.1
    (fun e he => h.ukind e (List.mem_filter.mp he).1)
  have h3 := promoteAll_inv h2.1 (recheckUtxo (recheckGood { p with c := c', acc := accOf c', imgs := [], good := [], utxo := [] }
      (p.good.filter (fun e => !ids.contains e.id))) (p.utxo.filter (fun e => !ids.contains e.id))).cfg.accts
  refine ⟨h3.1, ?_, ?_⟩
  · rw [h3.2.1, h2.2.1, h1.2.1]
  · rw [h3.2.2, h2.2.2, h1.2.2.1]

theorem commitEntries_inv {p p' : Pool} (h : Inv p) (es : List E) (hc : commitEntries p es = some p') : Inv p' ∧ p'.cfg = p.cfg := by
  unfold commitEntries at hc
  split at hc
  · cases hc
  · cases hc
    have := update_inv h (finish p.c ‹St› (es.map (·.id))) (es.map (·.id))
    exact ⟨this.1, this.2.2⟩

/-! ## histories -/

theorem step_inv (reg : List TxRec) {p : Pool} (h : Inv p) (op : Op) :
    Inv (step reg p op) ∧ (step reg p op).cfg = p.cfg := by
  cases op with
  | submit id =>
    simp only [step]
    cases ht : reg[id]? with
    | none => exact ⟨h, rfl⟩
    | some t =>
      have := addTx_inv (e := { id := id, t := t }) h
      exact ⟨this.1, this.2.2⟩
  | reap max => exact ⟨h, rfl⟩
  | commit max =>
    simp only [step]
    cases hc : commitEntries p (reap p max) with
    | none => exact ⟨h, rfl⟩
    | some p' => exact commitEntries_inv h _ hc
  | force ids =>
    simp only [step, forceEntries]
    split
    · exact ⟨h, rfl⟩
    · cases hc : commitEntries p (entries reg ids) with
      | none => exact ⟨h, rfl⟩
      | some p' => exact commitEntries_inv h _ hc

theorem init_inv (cfg : Cfg) (w : Nat) (bal tbal : Int) : Inv (Model.Mempool.init cfg w bal tbal) := by
  unfold Model.Mempool.init
  refine ⟨⟨_, rfl, fun _ => rfl⟩, ?_, ?_, ?_, rfl, List.nodup_nil, ?_, ⟨?_, ?_⟩⟩ <;> simp

/-- the invariant holds after every operation of every history -/
theorem run_inv (reg : List TxRec) : ∀ (ops : List Op) (p : Pool), Inv p → Inv (run reg p ops) := by
  intro ops
  induction ops with
  | nil => intro p h; exact h
  | cons op r ih => intro p h; exact ih _ (step_inv reg h op).1

end Props.C15
