/-
C09, part 9: bookkeeping invariants of the journal.
* `jb_inv_append`, `jb_inv_revert`, `jb_dirty_iff`: the per-address counters of `journal.dirties` (`Model.StateDB.JB`, the code's
  own bookkeeping: ++ on append, -- and delete-at-zero on revert) always equal the number of journal entries that dirty the
  address; so "the key is present" — what `Finalise`, `Commit` and `Copy` range over — is exactly the model's `isDirtyJ`.
* `jb_revert_entries` / `revertJournal_journal`: both halves of `journal.revert` leave the same entry list (the suffix of length n).
* `RevsOK`: `validRevisions` is strictly increasing in id, below `nextRevisionId`, with journal indices non-decreasing and at most
  the journal length; preserved by every mutator, Snapshot, RevertToSnapshot (`revsOK_step`), Finalise, Commit
  (`revsOK_finalise`, `revsOK_commit`) and established by Copy (`copy_revs`, Props/C09World.lean).  It discharges the hypothesis
  `∀ p ∈ revs, p.1 < nextRev` of `revert_exact` for every reachable state (`revsOK_ids`).
-/
import LinkVerif.Props.C09RevertAny

namespace Props.C09
open Model.StateDB

/-! ### dirties counters -/

def countJ (l : List Entry) (a : Addr) : Nat := (l.filter (fun e => e.dirtied == some a)).length

/-- the counter of every address is the number of its entries; the key is absent exactly at zero -/
def JBInv (j : JB) : Prop := ∀ a, j.dirties a = if countJ j.entries a = 0 then none else some (countJ j.entries a : Int)

theorem jb_inv_empty : JBInv JB.empty := fun a => by simp [JB.empty, countJ]

theorem countJ_cons (e : Entry) (l : List Entry) (a : Addr) :
    countJ (e :: l) a = countJ l a + (if e.dirtied = some a then 1 else 0) := by
  simp only [countJ, List.filter_cons]
  by_cases h : e.dirtied = some a <;> simp [h]

theorem jb_inv_append (j : JB) (e : Entry) (h : JBInv j) : JBInv (j.append e) := by
  intro a
  simp only [JB.append, countJ_cons]
  cases hd : e.dirtied with
  | none => simp [h a]
  | some b =>
    by_cases hab : a = b
    · subst hab
      simp only [upd_same, if_true, h a]
      by_cases hz : countJ j.entries a = 0
      · simp [hz]
      · simp [hz]
    · have : ¬ (some b = some a) := by intro hh; cases hh; exact hab rfl
      simp [hab, this, h a]

theorem dropDirty_inv (e : Entry) (rest : List Entry) (d : Addr → Option Int)
    (h : ∀ a, d a = if countJ (e :: rest) a = 0 then none else some (countJ (e :: rest) a : Int)) :
    ∀ a, JB.dropDirty d e a = if countJ rest a = 0 then none else some (countJ rest a : Int) := by
  intro a
  have ha := h a
  simp only [countJ_cons] at ha
  unfold JB.dropDirty
  cases hd : e.dirtied with
  | none => simpa [hd] using ha
  | some b =>
    simp only [hd] at ha
    by_cases hab : a = b
    · subst hab
      simp only [if_true] at ha
      have hb := h a
      simp only [countJ_cons, hd, if_true] at hb
      by_cases hz : countJ rest a = 0
      · simp [hb, hz]
      · have : ¬ ((countJ rest a + 1 : Nat) = 0) := by omega
        simp only [hb, this, if_false, Option.getD_some]
        have h2 : ¬ ((((countJ rest a + 1 : Nat) : Int) - 1) = 0) := by omega
        simp only [h2, if_false, upd_same, hz]
        congr 1; omega
    · have hne : ¬ (some b = some a) := by intro hh; cases hh; exact hab rfl
      simp only [hne, if_false, Nat.add_zero] at ha
      by_cases hc : (d b).getD 0 - 1 = 0
      · simp only [if_pos hc]; simp [hab, ha]
      · simp only [if_neg hc]; simp [hab, ha]

theorem jb_inv_revertAux (n : Nat) (l : List Entry) (d : Addr → Option Int)
    (h : ∀ a, d a = if countJ l a = 0 then none else some (countJ l a : Int)) : JBInv (JB.revertAux n l d) := by
  induction l generalizing d with
  | nil => exact h
  | cons e rest ih =>
    simp only [JB.revertAux]
    split
    · exact h
    · exact ih _ (dropDirty_inv e rest d h)

theorem jb_inv_revert (j : JB) (n : Nat) (h : JBInv j) : JBInv (j.revert n) := jb_inv_revertAux n j.entries j.dirties h

/-- "the key is in `journal.dirties`" is the model's `isDirtyJ` -/
theorem jb_dirty_iff (j : JB) (h : JBInv j) (s : State) (hs : s.journal = j.entries) (a : Addr) :
    (j.dirties a).isSome = isDirtyJ s a := by
  rw [h a, isDirtyJ, hs]
  generalize j.entries = l
  induction l with
  | nil => simp [countJ]
  | cons e rest ih =>
    simp only [countJ_cons, List.any_cons]
    by_cases he : e.dirtied = some a
    · simp [he]
    · simp only [he, if_false, Nat.add_zero]
      have : (e.dirtied == some a) = false := by simpa using he
      rw [this, Bool.false_or]; exact ih

theorem jb_revertAux_entries (n : Nat) (l : List Entry) (d : Addr → Option Int) :
    (JB.revertAux n l d).entries = l.drop (l.length - n) := by
  induction l generalizing d with
  | nil => simp [JB.revertAux]
  | cons e rest ih =>
    simp only [JB.revertAux]
    split
    · next hle =>
      have : (e :: rest).length - n = 0 := Nat.sub_eq_zero_of_le hle
      rw [this]; rfl
    · next hgt =>
      rw [ih]
      have : (e :: rest).length - n = (rest.length - n) + 1 := by simp at hgt ⊢; omega
      rw [this, List.drop_succ_cons]

theorem jb_revert_entries (j : JB) (n : Nat) : (j.revert n).entries = j.entries.drop (j.entries.length - n) :=
  jb_revertAux_entries n j.entries j.dirties

/-- the undo half leaves the same suffix -/
theorem revertJournal_journal (n : Nat) (l : List Entry) (c : Ctx) :
    (revertJournal n l c).st.journal = l.drop (l.length - n) := by
  induction l generalizing c with
  | nil => simp [revertJournal]
  | cons e rest ih =>
    simp only [revertJournal]
    split
    · next hle =>
      have : (e :: rest).length - n = 0 := Nat.sub_eq_zero_of_le hle
      rw [this]; rfl
    · next hgt =>
      rw [ih]
      have : (e :: rest).length - n = (rest.length - n) + 1 := by simp at hgt ⊢; omega
      rw [this, List.drop_succ_cons]

/-- the bookkeeping follows the model's journal through append and revert -/
theorem jb_follows_push (j : JB) (c : Ctx) (e : Entry) (h : c.st.journal = j.entries) : (push c e).st.journal = (j.append e).entries := by
  simp [push, JB.append, h]

theorem jb_follows_revert (j : JB) (c : Ctx) (n : Nat) (h : c.st.journal = j.entries) :
    (revertJournal n c.st.journal c).st.journal = (j.revert n).entries := by
  rw [revertJournal_journal, jb_revert_entries, h]

/-- non-vacuity: three entries for address 1 and one for address 2, revert to length 1 -/
example : ((((JB.empty.append (.nonce 1 0)).append (.balance 2 0)).append (.touch 1)).append (.credits 1 0)).dirties 1 = some 3 := by decide
example : (((((JB.empty.append (.nonce 1 0)).append (.balance 2 0)).append (.touch 1)).append (.credits 1 0)).revert 1).dirties 1 = some 1 := by decide
example : (((((JB.empty.append (.nonce 1 0)).append (.balance 2 0)).append (.touch 1)).append (.credits 1 0)).revert 1).dirties 2 = none := by decide

/-! ### validRevisions -/

/-- ids strictly decreasing from the head and below `next`; journal indices non-increasing from the head and at most `n` -/
def RevChain : Nat → Nat → List (Nat × Nat) → Prop
  | _, _, [] => True
  | n, next, (i, j) :: rest => i < next ∧ j ≤ n ∧ RevChain j i rest

def RevsOK (s : State) : Prop := RevChain s.journal.length s.nextRev s.revs

theorem RevChain.mono {n n' next next' : Nat} {l : List (Nat × Nat)} (h : RevChain n next l) (hn : n ≤ n') (hx : next ≤ next') :
    RevChain n' next' l := by
  cases l with
  | nil => trivial
  | cons p rest => obtain ⟨i, j⟩ := p; exact ⟨Nat.lt_of_lt_of_le h.1 hx, Nat.le_trans h.2.1 hn, h.2.2⟩

theorem RevChain.ids {n next : Nat} {l : List (Nat × Nat)} (h : RevChain n next l) : ∀ p ∈ l, p.1 < next := by
  induction l generalizing n next with
  | nil => intro p hp; cases hp
  | cons q rest ih =>
    obtain ⟨i, j⟩ := q
    intro p hp
    rcases List.mem_cons.mp hp with hp | hp
    · subst hp; exact h.1
    · exact Nat.lt_trans (ih h.2.2 p hp) h.1

/-- the hypothesis of `revert_exact` about revision ids holds in every `RevsOK` state -/
theorem revsOK_ids {s : State} (h : RevsOK s) : ∀ p ∈ s.revs, p.1 < s.nextRev := RevChain.ids h

theorem RevChain.find {n next i j : Nat} {l older : List (Nat × Nat)} (h : RevChain n next l) (hf : findRev i l = some (j, older)) :
    j ≤ n ∧ RevChain j next older := by
  induction l generalizing n next with
  | nil => simp [findRev] at hf
  | cons q rest ih =>
    obtain ⟨i', j'⟩ := q
    simp only [findRev] at hf
    split at hf
    · cases hf; exact ⟨h.2.1, h.2.2.mono (Nat.le_refl _) (Nat.le_of_lt h.1)⟩
    · obtain ⟨h1, h2⟩ := ih h.2.2 hf
      exact ⟨Nat.le_trans h1 h.2.1, h2.mono (Nat.le_refl _) (Nat.le_of_lt h.1)⟩

theorem revsOK_empty : RevsOK State.empty := trivial

theorem revsOK_step (cfg : Cfg) (c : Ctx) (hw : WF c.st) (s : Step)
    (hs : match s with
      | .op o => SafeOp c o
      | _ => True) (h : RevsOK c.st) : RevsOK (stepCtx cfg c s).st := by
  cases s with
  | op o =>
    obtain ⟨hr, hx⟩ := applyOp_frame cfg c o
    have hl := (applyOp_ext cfg c o hw hs).journal_len
    simp only [stepCtx, RevsOK]; rw [hr, hx]; exact h.mono hl (Nat.le_refl _)
  | snap => exact ⟨Nat.lt_succ_self _, Nat.le_refl _, h⟩
  | revert i =>
    simp only [stepCtx, revertTo]
    cases hf : findRev i c.st.revs with
    | none => exact h
    | some q =>
      obtain ⟨j, older⟩ := q
      obtain ⟨hj, hch⟩ := RevChain.find h hf
      obtain ⟨_, hx⟩ := revertJournal_frame j c.st.journal c
      simp only [Option.getD_some, RevsOK]
      rw [hx, revertJournal_journal]
      have : (c.st.journal.drop (c.st.journal.length - j)).length = j := by simp; omega
      rw [this]; exact hch

theorem revsOK_finalise (del : Bool) (c : Ctx) : RevsOK (finalise del c).st := by
  simp [finalise, clearJournal, RevsOK, RevChain]

theorem revsOK_commit (del : Bool) (c : Ctx) : RevsOK (commit del c).st := by
  simp [commit, clearJournal, RevsOK, RevChain]

end Props.C09
