import LinkVerif.Model.Ledger
import LinkVerif.Props.C06Lemmas

/-!
# C07 — every spendable unit is spent at most once across the whole chain

Two kinds of spendable unit:
* a confidential output, identified on chain by its key image (= output id in the model): the committed key-image list
  `spentImgs` never holds an image twice, along EVERY sequence of submissions, mempool blocks, forced (Byzantine) blocks
  and restarts (`keyimage_once`); a committed image is refused forever, at admission and in any block
  (`spent_refused_forever`);
* an account transaction, identified by (sender, nonce): a block executes it only at the exact committed nonce
  (`exact_nonce`), executing it bumps that nonce (`nonce_step`), committed nonces never decrease (`nonce_monotone`), so it
  is invalid in every later state (`account_tx_once`).
Core Lean only.  All statements here are about the model as it is (no honesty hypothesis): the double-spend guards of
the code hold unconditionally.  (Value conservation does not: see `Props.C06`.)
-/
namespace Props.C07
open Model.Ledger
open Props.C06 (execTx_spentImgs execTx_nonce admitTx_frame execBlock_cons_some recsOf block_eq forceBlock_eq)

/-! ## what `txValid` gives -/

theorem txValid_uin {s : St} {seen : List Nat} {t : TxRec} (hk : t.kind = .uin) :
    txValid s seen t = true ↔ t.spends ∉ s.spentImgs ∧ t.spends ∉ seen := by
  simp [txValid, hk]

/-- a block executes an account transaction only at the exact committed nonce of its sender -/
theorem txValid_acct_nonce {s : St} {seen : List Nat} {t : TxRec} (hk : t.kind ≠ .uin) (hv : txValid s seen t = true) :
    getn s.nonce t.from_ = t.nonce := by
  cases hk' : t.kind with
  | uin => exact absurd hk' hk
  | xfer => simp only [txValid, hk', Bool.and_eq_true, beq_iff_eq] at hv; exact hv.1
  | ain => simp only [txValid, hk', Bool.and_eq_true, beq_iff_eq] at hv; exact hv.1
  | xfertok => simp only [txValid, hk', Bool.and_eq_true, beq_iff_eq] at hv; exact hv.1.1

/-! ## key images over one block -/

theorem nodup_snoc {l : List Nat} {x : Nat} (hnd : l.Nodup) (hx : x ∉ l) : (l ++ [x]).Nodup := by
  rw [List.nodup_append]
  refine ⟨hnd, List.nodup_cons.mpr ⟨List.not_mem_nil, List.nodup_nil⟩, ?_⟩
  intro a ha b hb hab
  rw [List.mem_singleton] at hb
  exact hx (hb ▸ hab ▸ ha)

/-- the key images a list of transactions spends, in order -/
def imgsOf (recs : List TxRec) : List Nat := (recs.filter (fun t => t.kind = .uin)).map (·.spends)

theorem imgsOf_cons_uin {t : TxRec} (rest : List TxRec) (hk : t.kind = .uin) : imgsOf (t :: rest) = t.spends :: imgsOf rest := by
  simp [imgsOf, hk]
theorem imgsOf_cons_acct {t : TxRec} (rest : List TxRec) (hk : t.kind ≠ .uin) : imgsOf (t :: rest) = imgsOf rest := by
  simp [imgsOf, hk]

/-- an executed block appends exactly the images of its confidential-input transactions -/
theorem execBlock_spentImgs {s s' : St} {seen : List Nat} {recs : List TxRec} (he : execBlock s seen recs = some s') :
    s'.spentImgs = s.spentImgs ++ imgsOf recs := by
  induction recs generalizing s seen with
  | nil =>
    simp only [execBlock, Option.some.injEq] at he
    subst he; simp [imgsOf]
  | cons t rest ih =>
    obtain ⟨_, he'⟩ := execBlock_cons_some he
    rw [ih he', execTx_spentImgs]
    by_cases hk : t.kind = .uin
    · rw [if_pos hk, imgsOf_cons_uin rest hk]; simp
    · rw [if_neg hk, imgsOf_cons_acct rest hk]

theorem execBlock_spent_mono {s s' : St} {seen : List Nat} {recs : List TxRec} (he : execBlock s seen recs = some s')
    {x : Nat} (hx : x ∈ s.spentImgs) : x ∈ s'.spentImgs := by
  rw [execBlock_spentImgs he]; exact List.mem_append_left _ hx

/-- over an executed block the committed key-image list stays duplicate-free -/
theorem execBlock_spent_nodup {s s' : St} {seen : List Nat} {recs : List TxRec} (hnd : s.spentImgs.Nodup)
    (hseen : ∀ x ∈ seen, x ∈ s.spentImgs) (he : execBlock s seen recs = some s') : s'.spentImgs.Nodup := by
  induction recs generalizing s seen with
  | nil =>
    simp only [execBlock, Option.some.injEq] at he
    subst he; exact hnd
  | cons t rest ih =>
    obtain ⟨hv, he'⟩ := execBlock_cons_some he
    by_cases hk : t.kind = .uin
    · rw [if_pos hk] at he'
      have hfresh := ((txValid_uin hk).mp hv).1
      apply ih _ _ he'
      · rw [execTx_spentImgs, if_pos hk]; exact nodup_snoc hnd hfresh
      · intro x hx
        rw [execTx_spentImgs, if_pos hk]
        rcases List.mem_cons.mp hx with rfl | hx'
        · simp
        · exact List.mem_append_left _ (hseen x hx')
    · rw [if_neg hk] at he'
      apply ih _ _ he'
      · rw [execTx_spentImgs, if_neg hk]; exact hnd
      · rw [execTx_spentImgs, if_neg hk]; exact hseen

/-- consequently: no image of an executed block was committed before, and no two transactions of it share one -/
theorem execBlock_images_fresh {s s' : St} {recs : List TxRec} (hnd : s.spentImgs.Nodup)
    (he : execBlock s [] recs = some s') : (s.spentImgs ++ imgsOf recs).Nodup := by
  rw [← execBlock_spentImgs he]
  exact execBlock_spent_nodup hnd (fun x hx => absurd hx (List.not_mem_nil)) he

/-- a transaction whose image is committed is invalid in every block position -/
theorem spent_image_invalid {s : St} {seen : List Nat} {t : TxRec} (hk : t.kind = .uin) (h : t.spends ∈ s.spentImgs) :
    txValid s seen t = false := by
  cases hv : txValid s seen t with
  | false => rfl
  | true => exact absurd h ((txValid_uin hk).mp hv).1

/-- … and any block containing it is execution-invalid -/
theorem execBlock_spent_none {s : St} {seen : List Nat} {recs : List TxRec} {t : TxRec} (ht : t ∈ recs)
    (hk : t.kind = .uin) (h : t.spends ∈ s.spentImgs) : execBlock s seen recs = none := by
  induction recs generalizing s seen with
  | nil => simp at ht
  | cons u rest ih =>
    unfold execBlock
    split
    · rcases List.mem_cons.mp ht with rfl | ht'
      · rename_i hv; rw [spent_image_invalid hk h] at hv; cases hv
      · apply ih ht'
        rw [execTx_spentImgs]
        split
        · exact List.mem_append_left _ h
        · exact h
    · rfl

/-! ## the operations of a node's life -/

inductive Op where
  | submit (t : TxRec)
  | block
  | force (ids : List Nat)
  | restart

/-- restart: the mempool is lost, the speculative state is rebuilt from the committed one -/
def restart (s : St) : St := { s with pending := [], poolImgs := [], sbal := s.bal, stok := s.tok, snonce := s.nonce }

/-- one operation, with the model's functions, exactly as the driver (`Driver.C07`) applies them -/
def step (s : St) : Op → St
  | .submit t => (admitTx { s with txs := s.txs ++ [t] } s.txs.length t).2
  | .block => block s
  | .force ids => (forceBlock s ids).1
  | .restart => restart s

def run (s : St) : List Op → St
  | [] => s
  | op :: ops => run (step s op) ops

theorem run_append (s : St) (a b : List Op) : run s (a ++ b) = run (run s a) b := by
  induction a generalizing s with
  | nil => rfl
  | cons op a ih => simp only [List.cons_append, run, ih]

/-- invariants of `step` are invariants of `run` -/
theorem run_induct (P : St → Prop) (hstep : ∀ s op, P s → P (step s op)) (s : St) (ops : List Op) (h : P s) :
    P (run s ops) := by
  induction ops generalizing s with
  | nil => exact h
  | cons op ops ih => exact ih _ (hstep s op h)

/-- Every operation either leaves the committed nonces and key images alone, or commits a block that executed. -/
theorem step_cases (s : St) (op : Op) :
    ((step s op).nonce = s.nonce ∧ (step s op).spentImgs = s.spentImgs) ∨
    (∃ recs s', execBlock s [] recs = some s' ∧ (step s op).nonce = s'.nonce ∧ (step s op).spentImgs = s'.spentImgs) := by
  cases op with
  | submit t =>
    left
    obtain ⟨_, _, _, _, h5, _, h7, _, _⟩ := admitTx_frame { s with txs := s.txs ++ [t] } s.txs.length t
    exact ⟨h5, h7⟩
  | restart => left; exact ⟨rfl, rfl⟩
  | block =>
    simp only [step, block_eq]
    cases he : execBlock s [] (recsOf s s.pending) with
    | none => left; exact ⟨rfl, rfl⟩
    | some s' => right; exact ⟨_, s', he, rfl, rfl⟩
  | force ids =>
    simp only [step, forceBlock_eq]
    cases he : execBlock s [] (recsOf s ids) with
    | none => left; exact ⟨rfl, rfl⟩
    | some s' =>
      cases hb : (recsOf s ids).any (fun t => t.broken.isSome) with
      | true => left; exact ⟨rfl, rfl⟩
      | false => right; exact ⟨_, s', he, rfl, rfl⟩

/-! ## 1. a key image is committed at most once -/

theorem step_spent_nodup (s : St) (op : Op) (h : s.spentImgs.Nodup) : (step s op).spentImgs.Nodup := by
  rcases step_cases s op with ⟨_, h2⟩ | ⟨recs, s', he, _, h2⟩
  · rw [h2]; exact h
  · rw [h2]; exact execBlock_spent_nodup h (fun x hx => absurd hx (List.not_mem_nil)) he

theorem run_spent_nodup (s : St) (ops : List Op) (h : s.spentImgs.Nodup) : (run s ops).spentImgs.Nodup :=
  run_induct (fun s => s.spentImgs.Nodup) step_spent_nodup s ops h

/-- **C07 (confidential outputs).**  For every sequence of submissions (duplicates and altered transactions included),
mempool blocks, forced blocks and restarts, no key image is ever committed twice. -/
theorem keyimage_once (a w : Nat) (b tb : Int) (ops : List Op) : (run (init a w b tb) ops).spentImgs.Nodup :=
  run_spent_nodup _ ops List.nodup_nil

theorem step_spent_mono (s : St) (op : Op) {x : Nat} (h : x ∈ s.spentImgs) : x ∈ (step s op).spentImgs := by
  rcases step_cases s op with ⟨_, h2⟩ | ⟨recs, s', he, _, h2⟩
  · rw [h2]; exact h
  · rw [h2]; exact execBlock_spent_mono he h

/-- a committed key image stays committed -/
theorem run_spent_mono (s : St) (ops : List Op) {x : Nat} (h : x ∈ s.spentImgs) : x ∈ (run s ops).spentImgs :=
  run_induct (fun s => x ∈ s.spentImgs) (fun s op => step_spent_mono s op) s ops h

/-! ## 2. exact nonce, nonce step -/

theorem exact_nonce {s s' : St} {seen : List Nat} {t : TxRec} {rest : List TxRec}
    (he : execBlock s seen (t :: rest) = some s') (hk : t.kind ≠ .uin) : getn s.nonce t.from_ = t.nonce :=
  txValid_acct_nonce hk (execBlock_cons_some he).1

theorem getn_setN (xs : List Nat) (i v j : Nat) :
    getn (setN xs i v) j = if i = j ∧ i < xs.length then v else getn xs j := by
  unfold getn setN
  simp only [List.getD_eq_getElem?_getD, List.getElem?_set]
  by_cases h : i = j
  · subst h
    by_cases h2 : i < xs.length
    · simp [h2]
    · simp [h2]
  · simp [h]

theorem applyTx_nonce (s : St) (t : TxRec) :
    (applyTx s t).nonce = if t.kind = .uin then s.nonce else setN s.nonce t.from_ (t.nonce + 1) := by
  cases hk : t.kind with
  | uin => simp only [applyTx, hk, if_true]; split <;> rfl
  | xfer => simp [applyTx, hk]
  | xfertok => simp [applyTx, hk]
  | ain => simp [applyTx, hk]

theorem execTx_nonce_length (s : St) (t : TxRec) : (execTx s t).nonce.length = s.nonce.length := by
  rw [execTx_nonce, applyTx_nonce]; split
  · rfl
  · simp [setN]

/-- executing an account transaction sets its sender's committed nonce to `t.nonce + 1` and no other sender's -/
theorem nonce_step {s : St} {t : TxRec} (hk : t.kind ≠ .uin) (hlt : t.from_ < s.nonce.length) :
    getn (execTx s t).nonce t.from_ = t.nonce + 1 ∧ ∀ j, j ≠ t.from_ → getn (execTx s t).nonce j = getn s.nonce j := by
  rw [execTx_nonce, applyTx_nonce, if_neg hk]
  constructor
  · rw [getn_setN, if_pos ⟨rfl, hlt⟩]
  · intro j hj
    rw [getn_setN, if_neg (fun h => hj h.1.symm)]

/-- a confidential-input transaction touches no nonce -/
theorem nonce_step_uin {s : St} {t : TxRec} (hk : t.kind = .uin) : (execTx s t).nonce = s.nonce := by
  rw [execTx_nonce, applyTx_nonce, if_pos hk]

/-! ## 3. nonces never decrease; an account transaction executes at most once -/

theorem execTx_nonce_mono {s : St} {seen : List Nat} {t : TxRec} (hv : txValid s seen t = true) (j : Nat) :
    getn s.nonce j ≤ getn (execTx s t).nonce j := by
  rw [execTx_nonce, applyTx_nonce]
  by_cases hk : t.kind = .uin
  · rw [if_pos hk]; exact Nat.le_refl _
  · rw [if_neg hk, getn_setN]
    split
    · rename_i h
      rw [← h.1, txValid_acct_nonce hk hv]; exact Nat.le_succ _
    · exact Nat.le_refl _

theorem execBlock_nonce_mono {s s' : St} {seen : List Nat} {recs : List TxRec} (he : execBlock s seen recs = some s')
    (j : Nat) : getn s.nonce j ≤ getn s'.nonce j := by
  induction recs generalizing s seen with
  | nil =>
    simp only [execBlock, Option.some.injEq] at he
    subst he; exact Nat.le_refl _
  | cons t rest ih =>
    obtain ⟨hv, he'⟩ := execBlock_cons_some he
    exact Nat.le_trans (execTx_nonce_mono hv j) (ih he')

theorem execBlock_nonce_length {s s' : St} {seen : List Nat} {recs : List TxRec} (he : execBlock s seen recs = some s') :
    s'.nonce.length = s.nonce.length := by
  induction recs generalizing s seen with
  | nil =>
    simp only [execBlock, Option.some.injEq] at he
    subst he; rfl
  | cons t rest ih =>
    obtain ⟨_, he'⟩ := execBlock_cons_some he
    rw [ih he', execTx_nonce_length]

theorem step_nonce_mono (s : St) (op : Op) (j : Nat) : getn s.nonce j ≤ getn (step s op).nonce j := by
  rcases step_cases s op with ⟨h1, _⟩ | ⟨recs, s', he, h1, _⟩
  · rw [h1]; exact Nat.le_refl _
  · rw [h1]; exact execBlock_nonce_mono he j

/-- along any run every committed nonce is non-decreasing -/
theorem nonce_monotone (s : St) (ops : List Op) (j : Nat) : getn s.nonce j ≤ getn (run s ops).nonce j := by
  induction ops generalizing s with
  | nil => exact Nat.le_refl _
  | cons op ops ih => exact Nat.le_trans (step_nonce_mono s op j) (ih _)

theorem step_nonce_length (s : St) (op : Op) : (step s op).nonce.length = s.nonce.length := by
  rcases step_cases s op with ⟨h1, _⟩ | ⟨recs, s', he, h1, _⟩
  · rw [h1]
  · rw [h1]; exact execBlock_nonce_length he

theorem run_nonce_length (s : St) (ops : List Op) : (run s ops).nonce.length = s.nonce.length := by
  induction ops generalizing s with
  | nil => rfl
  | cons op ops ih => exact (ih _).trans (step_nonce_length s op)

theorem init_nonce_length (a w : Nat) (b tb : Int) : (init a w b tb).nonce.length = a := by simp [init]

/-- an account transaction whose nonce is below the committed one is invalid -/
theorem nonce_low_invalid {s : St} {seen : List Nat} {t : TxRec} (hk : t.kind ≠ .uin) (h : t.nonce < getn s.nonce t.from_) :
    txValid s seen t = false := by
  cases hv : txValid s seen t with
  | false => rfl
  | true => have := txValid_acct_nonce hk hv; omega

theorem nonce_low_forever {s : St} {t : TxRec} (hk : t.kind ≠ .uin) (h : t.nonce < getn s.nonce t.from_)
    (ops : List Op) (seen : List Nat) : txValid (run s ops) seen t = false :=
  nonce_low_invalid hk (Nat.lt_of_lt_of_le h (nonce_monotone s ops t.from_))

/-- **C07 (account transactions).**  Once an account transaction has been executed, it is invalid in every later state of
every run: a signed account transaction executes at most once. -/
theorem account_tx_once {s : St} {t : TxRec} (hk : t.kind ≠ .uin) (hlt : t.from_ < s.nonce.length)
    (ops : List Op) (seen : List Nat) : txValid (run (execTx s t) ops) seen t = false :=
  nonce_low_forever hk (by rw [(nonce_step hk hlt).1]; exact Nat.lt_succ_self _) ops seen

/-- after a block that executed `t`, the sender's committed nonce is above `t.nonce` -/
theorem execBlock_mem_nonce {s s' : St} {seen : List Nat} {recs : List TxRec} {t : TxRec}
    (he : execBlock s seen recs = some s') (ht : t ∈ recs) (hk : t.kind ≠ .uin) (hlt : t.from_ < s.nonce.length) :
    t.nonce < getn s'.nonce t.from_ := by
  induction recs generalizing s seen with
  | nil => simp at ht
  | cons u rest ih =>
    obtain ⟨_, he'⟩ := execBlock_cons_some he
    rcases List.mem_cons.mp ht with rfl | ht'
    · have h1 := (nonce_step (s := s) hk hlt).1
      have h2 := execBlock_nonce_mono he' t.from_
      omega
    · exact ih he' ht' (by rw [execTx_nonce_length]; exact hlt)

/-- the same for whole blocks: a transaction executed by a committed block (mempool or forced) is invalid ever after,
also within the rest of that block -/
theorem account_tx_once_block {s s' : St} {recs : List TxRec} {t : TxRec} (he : execBlock s [] recs = some s')
    (ht : t ∈ recs) (hk : t.kind ≠ .uin) (hlt : t.from_ < s.nonce.length) {s'' : St} (hs : s''.nonce = s'.nonce)
    (ops : List Op) (seen : List Nat) : txValid (run s'' ops) seen t = false :=
  nonce_low_forever hk (by rw [hs]; exact execBlock_mem_nonce he ht hk hlt) ops seen

/-- the state after a committed block has the nonces of the executed block: `account_tx_once_block` applies to it -/
theorem finishBlock_nonce (s s' : St) (ids : List Nat) : (finishBlock s s' ids).nonce = s'.nonce := rfl

/-- closed form along runs from genesis: whatever happened before (`ops₁`), a transaction of an existing account that a
committed block executed is invalid after any continuation (`ops`) -/
theorem account_tx_once_run (a w : Nat) (b tb : Int) (ops₁ : List Op) {t : TxRec} (hk : t.kind ≠ .uin) (hlt : t.from_ < a)
    {recs : List TxRec} {s' : St} (he : execBlock (run (init a w b tb) ops₁) [] recs = some s') (ht : t ∈ recs)
    {s'' : St} (hs : s''.nonce = s'.nonce) (ops : List Op) (seen : List Nat) : txValid (run s'' ops) seen t = false :=
  account_tx_once_block he ht hk (by rw [run_nonce_length, init_nonce_length]; exact hlt) hs ops seen

/-- no block executes the same account transaction twice -/
theorem execBlock_acct_no_repeat {s : St} {seen : List Nat} {t : TxRec} {rest : List TxRec} (hk : t.kind ≠ .uin)
    (hlt : t.from_ < s.nonce.length) (ht : t ∈ rest) : execBlock s seen (t :: rest) = none := by
  cases he : execBlock s seen (t :: rest) with
  | none => rfl
  | some s' =>
    exfalso
    obtain ⟨_, he'⟩ := execBlock_cons_some he
    have h1 : t.nonce < getn (execTx s t).nonce t.from_ := by
      rw [(nonce_step (s := s) hk hlt).1]; exact Nat.lt_succ_self _
    clear he
    generalize (if t.kind = .uin then t.spends :: seen else seen) = seen' at he'
    generalize hs1 : execTx s t = s1 at he' h1
    clear hs1 hlt
    induction rest generalizing s1 seen' with
    | nil => simp at ht
    | cons u rest ih =>
      obtain ⟨hv, he''⟩ := execBlock_cons_some he'
      rcases List.mem_cons.mp ht with rfl | ht'
      · have := txValid_acct_nonce hk hv; omega
      · refine ih ht' _ _ he'' ?_
        have := execTx_nonce_mono hv t.from_
        omega

/-! ## 4. the mempool never holds two transactions with the same image, nor one with a committed image -/

def PoolOK (s : St) : Prop := s.poolImgs.Nodup ∧ ∀ x ∈ s.poolImgs, x ∉ s.spentImgs

theorem checkState_uin {s : St} {id : Nat} {t : TxRec} (hk : t.kind = .uin) :
    checkState s id t =
      if s.spentImgs.contains t.spends then ("double-spend", s)
      else if s.poolImgs.contains t.spends then ("double-spend", s)
      else ("ok", { s with poolImgs := s.poolImgs ++ [t.spends], pending := s.pending ++ [id] }) := by
  simp only [checkState, hk]

theorem checkState_acct_poolImgs {s : St} {id : Nat} {t : TxRec} (hk : t.kind ≠ .uin) :
    (checkState s id t).2.poolImgs = s.poolImgs := by
  unfold checkState
  split
  all_goals first
    | exact absurd ‹t.kind = Kind.uin› hk
    | repeat' (first | split | (simp only []))

/-- admission either leaves the pool images alone or adds one that is neither committed nor already pending -/
theorem admitTx_poolImgs (s : St) (id : Nat) (t : TxRec) :
    (admitTx s id t).2.poolImgs = s.poolImgs ∨
    (t.spends ∉ s.spentImgs ∧ t.spends ∉ s.poolImgs ∧ (admitTx s id t).2.poolImgs = s.poolImgs ++ [t.spends]) := by
  unfold admitTx
  split
  · left; rfl
  · by_cases hk : t.kind = .uin
    · rw [checkState_uin hk]
      by_cases h1 : t.spends ∈ s.spentImgs
      · left; simp [h1]
      · by_cases h2 : t.spends ∈ s.poolImgs
        · left; simp [h1, h2]
        · right; simp [h1, h2]
    · left; exact checkState_acct_poolImgs hk

theorem step_poolOK (s : St) (op : Op) (h : PoolOK s) : PoolOK (step s op) := by
  have hnil : ∀ s' : St, s'.poolImgs = [] → PoolOK s' := by
    intro s' h'
    unfold PoolOK
    rw [h']
    exact ⟨List.nodup_nil, fun x hx => absurd hx (List.not_mem_nil)⟩
  cases op with
  | submit t =>
    have hsp : (step s (.submit t)).spentImgs = s.spentImgs :=
      (admitTx_frame { s with txs := s.txs ++ [t] } s.txs.length t).2.2.2.2.2.2.1
    unfold PoolOK
    rw [hsp]
    rcases admitTx_poolImgs { s with txs := s.txs ++ [t] } s.txs.length t with h1 | ⟨h1, h2, h3⟩
    · simp only [step]; rw [h1]; exact h
    · simp only [step]; rw [h3]
      constructor
      · exact nodup_snoc h.1 h2
      · intro x hx
        rcases List.mem_append.mp hx with hx | hx
        · exact h.2 x hx
        · rw [List.mem_singleton] at hx; rw [hx]; exact h1
  | restart => exact hnil _ rfl
  | block =>
    simp only [step, block_eq]
    cases execBlock s [] (recsOf s s.pending) with
    | none => exact h
    | some s' => exact hnil _ rfl
  | force ids =>
    simp only [step, forceBlock_eq]
    cases execBlock s [] (recsOf s ids) with
    | none => exact h
    | some s' =>
      cases (recsOf s ids).any (fun t => t.broken.isSome) with
      | true => exact h
      | false => exact hnil _ rfl

/-- along any run no two pending transactions share a key image, and no pending transaction carries a committed one -/
theorem pool_no_shared_image (s : St) (ops : List Op) (h : PoolOK s) : PoolOK (run s ops) :=
  run_induct PoolOK step_poolOK s ops h

theorem pool_no_shared_image_init (a w : Nat) (b tb : Int) (ops : List Op) :
    (run (init a w b tb) ops).poolImgs.Nodup ∧
    ∀ x ∈ (run (init a w b tb) ops).poolImgs, x ∉ (run (init a w b tb) ops).spentImgs :=
  pool_no_shared_image _ ops ⟨List.nodup_nil, fun _ hx => absurd hx (List.not_mem_nil)⟩

/-- a submitted confidential-input transaction whose image is committed is refused: the state does not change, and the
class is "double-spend" unless an earlier (basic) check already refused it -/
theorem spent_image_refused {s : St} {id : Nat} {t : TxRec} (hk : t.kind = .uin) (h : t.spends ∈ s.spentImgs) :
    (admitTx s id t).2 = s ∧ (t.broken = none → (admitTx s id t).1 = "double-spend") := by
  unfold admitTx
  split
  · rename_i hb; exact ⟨rfl, fun h' => by rw [h'] at hb; cases hb⟩
  · rw [checkState_uin hk]; simp [h]

/-- likewise one whose image is already pending -/
theorem pending_image_refused {s : St} {id : Nat} {t : TxRec} (hk : t.kind = .uin) (h : t.spends ∈ s.poolImgs) :
    (admitTx s id t).2 = s ∧ (t.broken = none → (admitTx s id t).1 = "double-spend") := by
  unfold admitTx
  split
  · rename_i hb; exact ⟨rfl, fun h' => by rw [h'] at hb; cases hb⟩
  · rw [checkState_uin hk]
    by_cases h1 : t.spends ∈ s.spentImgs
    · simp [h1]
    · simp [h1, h]

theorem submit_spent_refused {s : St} {t : TxRec} (hk : t.kind = .uin) (h : t.spends ∈ s.spentImgs) :
    step s (.submit t) = { s with txs := s.txs ++ [t] } :=
  (spent_image_refused (s := { s with txs := s.txs ++ [t] }) hk h).1

/-! ## 5. restart -/

theorem restart_keeps_spent (s : St) : (restart s).spentImgs = s.spentImgs := rfl
theorem restart_keeps_nonce (s : St) : (restart s).nonce = s.nonce := rfl

/-- a spent image stays refused after a restart: at admission and in blocks -/
theorem restart_spent_refused {s : St} {id : Nat} {seen : List Nat} {t : TxRec} (hk : t.kind = .uin)
    (h : t.spends ∈ s.spentImgs) :
    (admitTx (restart s) id t).2 = restart s ∧ (t.broken = none → (admitTx (restart s) id t).1 = "double-spend") ∧
    txValid (restart s) seen t = false :=
  ⟨(spent_image_refused (s := restart s) hk h).1, (spent_image_refused (s := restart s) hk h).2,
   spent_image_invalid (s := restart s) hk h⟩

/-- **C07 (confidential outputs), forever.**  Once a key image is committed, then after ANY further sequence of
operations (restarts included) a transaction spending it is refused at admission, is invalid at every block position,
and makes any block containing it execution-invalid (so no forced block commits it). -/
theorem spent_refused_forever {s : St} {t : TxRec} (hk : t.kind = .uin) (h : t.spends ∈ s.spentImgs) (ops : List Op) :
    (∀ id, (admitTx (run s ops) id t).2 = run s ops) ∧
    (∀ seen, txValid (run s ops) seen t = false) ∧
    (∀ seen recs, t ∈ recs → execBlock (run s ops) seen recs = none) := by
  have h' := run_spent_mono s ops h
  exact ⟨fun id => (spent_image_refused hk h').1, fun seen => spent_image_invalid hk h',
    fun _ _ ht => execBlock_spent_none ht hk h'⟩

/-! ## the statement -/

/-- C07 for the model: (1) no key image is ever committed twice; (2) an account transaction that a committed block
executed is never valid again.  Both along every sequence of operations from genesis, Byzantine forced blocks and restarts
included. -/
def C07_statement : Prop :=
  (∀ (a w : Nat) (b tb : Int) (ops : List Op), (run (init a w b tb) ops).spentImgs.Nodup) ∧
  (∀ (a w : Nat) (b tb : Int) (ops₁ : List Op) (t : TxRec) (recs : List TxRec) (s' s'' : St), t.kind ≠ .uin → t.from_ < a →
    execBlock (run (init a w b tb) ops₁) [] recs = some s' → t ∈ recs → s''.nonce = s'.nonce →
    ∀ (ops : List Op) (seen : List Nat), txValid (run s'' ops) seen t = false)

theorem C07_holds : C07_statement :=
  ⟨keyimage_once, fun a w b tb ops₁ _ _ _ _ hk hlt he ht hs ops seen =>
    account_tx_once_run a w b tb ops₁ hk hlt he ht hs ops seen⟩

/-! ## 6. non-vacuity -/

def nv_s : St := init 2 2 100000000000 0
def nv_t1 : TxRec := { kind := .ain, from_ := 0, to := 0, amount := 30000000000, nonce := 0, gas := calGas 30000000000 }
/-- spends output 0 -/
def nv_t2 : TxRec := { kind := .uin, spends := 0, outs := [(1, 10000000000), (0, 15000000000)], gas := utxoGas }
/-- a second, different spend of output 0 -/
def nv_t3 : TxRec := { kind := .uin, spends := 0, outs := [(0, 25000000000)], gas := utxoGas }

/-- output 0 created and spent on chain -/
def nv_ops : List Op := [.submit nv_t1, .block, .submit nv_t2, .block]

example : (run nv_s nv_ops).spentImgs = [0] ∧ (run nv_s nv_ops).height = 2 ∧ (run nv_s nv_ops).pending = [] := by decide
/-- the second spend is refused at admission … -/
example : (admitTx (run nv_s nv_ops) 2 nv_t3).1 = "double-spend" := by decide
example : (run nv_s (nv_ops ++ [.submit nv_t3])).pending = [] := by decide
/-- … refused in a forced block (both the replay of tx 1 and the new spend tx 2) … -/
example : (forceBlock (run nv_s (nv_ops ++ [.submit nv_t3])) [1]).2 = "propose=panic" := by decide
example : (forceBlock (run nv_s (nv_ops ++ [.submit nv_t3])) [2]).2 = "propose=panic" := by decide
/-- … and refused after a restart -/
example : (admitTx (run nv_s (nv_ops ++ [.restart])) 2 nv_t3).1 = "double-spend" := by decide
example : (forceBlock (run nv_s (nv_ops ++ [.submit nv_t3, .restart])) [2]).2 = "propose=panic" := by decide
example : (run nv_s (nv_ops ++ [.submit nv_t3, .force [2], .restart, .submit nv_t3, .block, .force [1, 2]])).spentImgs = [0] := by
  decide

/-- both spends pending at once: the second is refused by the pool-image cache; a forced block with both is invalid;
after a restart (mempool lost) the other spend is admitted and committed, and then the first one is dead -/
def nv_ops2 : List Op := [.submit nv_t1, .block, .submit nv_t2]
example : (admitTx (run nv_s nv_ops2) 2 nv_t3).1 = "double-spend" := by decide
example : (forceBlock (run nv_s (nv_ops2 ++ [.submit nv_t3])) [1, 2]).2 = "propose=panic" := by decide
example : (run nv_s (nv_ops2 ++ [.restart, .submit nv_t3])).pending = [2] := by decide
example : (run nv_s (nv_ops2 ++ [.restart, .submit nv_t3, .block])).spentImgs = [0] := by decide
example : (forceBlock (run nv_s (nv_ops2 ++ [.restart, .submit nv_t3, .block])) [1]).2 = "propose=panic" := by decide
/-- an account transaction replayed in a forced block is refused (nonce) -/
example : (forceBlock (run nv_s nv_ops) [0]).2 = "propose=panic" := by decide
example : (run nv_s nv_ops).nonce = [1, 0] := by decide

end Props.C07
