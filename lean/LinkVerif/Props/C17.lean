/-
C17 — Proposer schedule and validator-set updates are deterministic and path-independent.

Property theorems only (helper lemmas about the generated clip arithmetic are in `C17Clip`).
The model (`Model.ValSet`) mirrors `types/validator_set.go` as it is, including the bulk form of
`IncrementAccum(times)`; the path-independence clause is FALSE of that code (known finding
`bulk-increment-path-dependence`), so it appears here as the full statement, a kernel-checked
counterexample, and the strongest partial statement that is true.
-/
import LinkVerif.Model.ValSet
import LinkVerif.Props.C17Clip
import LinkVerif.Gen.C17Facts

namespace Props.C17
open Go Gen.ValSetArith Model.ValSet

/-! ## 1. Path independence -/

/-- FULL STATEMENT: reaching a round by skipping (`IncrementAccum (a+b)`) or round by round gives the
same accumulators and proposer. -/
def C17_path_statement : Prop :=
  ∀ (vs : VS) (a b : Nat), incrBulk ((a + b : Nat) : Int) vs = (incrBulk (a : Int) vs).bind (incrBulk (b : Int))

/-- powers (1,1,3), fresh set: two single steps elect validator 3, one bulk step of 2 elects validator 1 -/
def pathWitness : VS :=
  { vals := [⟨1, 1, 1⟩, ⟨2, 1, 1⟩, ⟨3, 3, -2⟩], proposer := some 3 }

/-- the witness is what `NewValidatorSet` builds from powers (1,1,3) -/
example : newVS [⟨1, 1, 0⟩, ⟨2, 1, 0⟩, ⟨3, 3, 0⟩] = some pathWitness := by
  unfold newVS
  rw [List.mergeSort_of_pairwise (by decide)]
  decide

theorem C17_path_counterexample : ¬ C17_path_statement := by
  intro h
  have := h pathWitness 1 1
  revert this
  decide

/-- what IS path independent: chains of single rotations (nodes that visit every round / block) -/
theorem C17_path_partial (vs : VS) (a b : Nat) :
    incrStep (a + b) vs = (incrStep a vs).bind (incrStep b) := by
  induction a generalizing vs with
  | zero => simp [incrStep]
  | succ n ih =>
    rw [Nat.succ_add]
    simp only [incrStep]
    cases incr1 vs with
    | none => rfl
    | some vs' => simpa using ih vs'

/-- a single code step is one model rotation (so `times = 1` callers are on the independent path) -/
theorem incrBulk_one (vs : VS) : incrBulk 1 vs = incr1 vs := rfl

/-! ## 2. Identity is independent of insertion order and of proposer bookkeeping -/

theorem content_decrAt (vals : List Val) (a : Nat) (t : Int) :
    (decrAt vals a t).map (fun v => (v.addr, v.power)) = vals.map (fun v => (v.addr, v.power)) := by
  unfold decrAt
  rw [List.map_map]
  apply List.map_congr_left
  intro v _
  simp only [Function.comp]
  split <;> rfl

theorem content_decrLoop (total : Int) (n : Nat) (vals : List Val) (p : Option Nat)
    (vals' : List Val) (p' : Option Nat) (h : decrLoop total n vals p = some (vals', p')) :
    vals'.map (fun v => (v.addr, v.power)) = vals.map (fun v => (v.addr, v.power)) := by
  induction n generalizing vals p with
  | zero => simp [decrLoop] at h; rw [h.1]
  | succ n ih =>
    simp only [decrLoop] at h
    cases hm : argmax vals with
    | none => simp [hm] at h
    | some m =>
      simp only [hm] at h
      rw [ih _ _ h, content_decrAt]

/-- `Hash` covers (address, power) only: no rotation changes the identity of a set -/
theorem identity_ignores_rotation (t : Int) (vs vs' : VS) (h : incrBulk t vs = some vs') :
    content vs' = content vs := by
  unfold incrBulk at h
  simp only at h
  split at h
  · simp at h
  · rename_i vals2 p hd
    simp only [Option.some.injEq] at h
    subst h
    unfold content
    simp only
    rw [content_decrLoop _ _ _ _ _ _ hd, List.map_map]
    apply List.map_congr_left
    intro v _
    rfl

theorem addr_inj_of_nodup {l : List Val} (hn : (l.map (·.addr)).Nodup) {a b : Val}
    (ha : a ∈ l) (hb : b ∈ l) (hab : a.addr = b.addr) : a = b := by
  induction l with
  | nil => cases ha
  | cons x xs ih =>
    simp only [List.map_cons, List.nodup_cons] at hn
    simp only [List.mem_cons] at ha hb
    rcases ha with rfl | ha <;> rcases hb with rfl | hb
    · rfl
    · exact absurd (List.mem_map_of_mem (f := (·.addr)) hb) (hab ▸ hn.1)
    · exact absurd (List.mem_map_of_mem (f := (·.addr)) ha) (hab ▸ hn.1)
    · exact ih hn.2 ha hb

theorem sort_perm_eq {l₁ l₂ : List Val} (hp : l₁.Perm l₂) (hn : (l₁.map (·.addr)).Nodup) :
    l₁.mergeSort leAddr = l₂.mergeSort leAddr := by
  have htrans : ∀ a b c : Val, leAddr a b = true → leAddr b c = true → leAddr a c = true := by
    intro a b c; simp only [leAddr, decide_eq_true_eq]; omega
  have htotal : ∀ a b : Val, (leAddr a b || leAddr b a) = true := by
    intro a b; simp only [leAddr, Bool.or_eq_true, decide_eq_true_eq]; omega
  apply List.Perm.eq_of_pairwise (le := fun a b => leAddr a b = true)
  · intro a b ha hb hab hba
    have ha' : a ∈ l₁ := (List.mergeSort_perm l₁ leAddr).subset ha
    have hb' : b ∈ l₁ := hp.symm.subset ((List.mergeSort_perm l₂ leAddr).subset hb)
    apply addr_inj_of_nodup hn ha' hb'
    simp only [leAddr, decide_eq_true_eq] at hab hba
    omega
  · exact List.pairwise_mergeSort htrans htotal l₁
  · exact List.pairwise_mergeSort htrans htotal l₂
  · exact (List.mergeSort_perm l₁ leAddr).trans (hp.trans (List.mergeSort_perm l₂ leAddr).symm)

/-- `NewValidatorSet` does not depend on the order in which the validators are listed -/
theorem newVS_order_free {l₁ l₂ : List Val} (hp : l₁.Perm l₂) (hn : (l₁.map (·.addr)).Nodup) :
    newVS l₁ = newVS l₂ := by
  unfold newVS
  have he : l₁.isEmpty = l₂.isEmpty := by
    have := hp.length_eq
    cases l₁ <;> cases l₂ <;> simp_all
  rw [sort_perm_eq hp hn, he]

/-- the same application output (candidate list, in any order) produces the same next set -/
theorem nextValSet_order_free (cur : VS) {l₁ l₂ : List Val} (hp : l₁.Perm l₂)
    (hn : (l₁.map (·.addr)).Nodup) : nextValSet cur l₁ = nextValSet cur l₂ := by
  unfold nextValSet
  have he : l₁.isEmpty = l₂.isEmpty := by
    have := hp.length_eq
    cases l₁ <;> cases l₂ <;> simp_all
  rw [newVS_order_free hp hn, he]

/-! ## 3. Totals and priorities saturate instead of wrapping -/

theorem clip_saturates (a b : Int) (ha : InI64 a) (hb : InI64 b) :
    safeAddClip a b = clampI64 (a + b) ∧ safeSubClip a b = clampI64 (a - b) ∧
    safeMulClip a b = clampI64 (a * b) :=
  ⟨safeAddClip_saturates a b ha hb, safeSubClip_saturates a b ha hb, safeMulClip_saturates a b ha hb⟩

theorem sum_nonneg_of (xs : List Int) (h : ∀ x ∈ xs, 0 ≤ x) : 0 ≤ xs.sum := by
  induction xs with
  | nil => simp
  | cons x xs ih =>
    simp only [List.sum_cons]
    have := h x List.mem_cons_self
    have := ih (fun y hy => h y (List.mem_cons_of_mem _ hy))
    omega

theorem foldl_total (vals : List Val) (acc : Int) (hacc : 0 ≤ acc ∧ acc ≤ maxI64)
    (hp : ∀ v ∈ vals, 0 ≤ v.power ∧ v.power ≤ maxI64) :
    vals.foldl (fun acc v => safeAddClip acc v.power) acc
      = min (acc + (vals.map (·.power)).sum) maxI64 := by
  induction vals generalizing acc with
  | nil => simp only [List.foldl_nil, List.map_nil, List.sum_nil, Int.add_zero]; unfold maxI64 at *; omega
  | cons v vs ih =>
    have hv := hp v List.mem_cons_self
    have hsum : 0 ≤ (vs.map (·.power)).sum := by
      apply sum_nonneg_of
      intro x hx
      simp only [List.mem_map] at hx
      obtain ⟨w, hw, rfl⟩ := hx
      exact (hp w (List.mem_cons_of_mem _ hw)).1
    simp only [List.foldl_cons, List.map_cons, List.sum_cons]
    have hin1 : InI64 acc := by unfold InI64 minI64 maxI64 at *; omega
    have hin2 : InI64 v.power := by unfold InI64 minI64 maxI64 at *; omega
    rw [safeAddClip_saturates acc v.power hin1 hin2]
    have hc : 0 ≤ clampI64 (acc + v.power) ∧ clampI64 (acc + v.power) ≤ maxI64 := by
      unfold clampI64 minI64 maxI64 at *; repeat' split
      all_goals omega
    rw [ih _ hc (fun w hw => hp w (List.mem_cons_of_mem _ hw))]
    unfold clampI64 minI64 maxI64 at *
    repeat' split
    all_goals omega

/-- `TotalVotingPower` is the true sum, saturated at `MaxInt64` (never negative, never wrapped) -/
theorem total_saturates (vals : List Val) (hp : ∀ v ∈ vals, 0 ≤ v.power ∧ v.power ≤ maxI64) :
    totalPower vals = min ((vals.map (·.power)).sum) maxI64 := by
  unfold totalPower
  rw [foldl_total vals 0 (by unfold maxI64; omega) hp]
  simp

/-! ## 4. Non-vacuity -/

example : (pathWitness.vals.map (·.addr)).Nodup := by decide
example : incrStep 2 pathWitness ≠ none := by decide
example : totalPower pathWitness.vals = 5 := by decide

/-- T2: every rotation of a validator set in consensus/: which set is rotated and by how much.  Entering round r from round
r₀ rotates the CURRENT set by r − r₀ (so that the proposer of a round does not depend on which intermediate rounds the node
visited — up to the bulk-increment finding); the fault-validator evidence of the last commit is judged against the LAST
validator set (the one that decided that commit) rotated by the commit round; one committed block rotates the next set by 1. -/
theorem rotation_sites_fact : Gen.C17Facts.rotationSites =
    [("consensus/state.go:getLastFaultValsInfo", "cs.LastValidators.Copy()", "lastRound"),
     ("consensus/state.go:checkFaultValEvidence", "cs.LastValidators.Copy()", "lastRound"),
     ("consensus/state.go:enterNewRound", "validators.Copy()", "round - cs.Round"),
     ("consensus/validation.go:VerifyFaultValEvidence", "status.LastValidators.Copy()", "cRound"),
     ("consensus/execution.go:updateStatus", "newValSet", "1")] := by decide

end Props.C17
