/-
C11, layer 2: no decoder of the model produces the error class `panic` (after fixes 8c7e349 / 2f1154b of /repo).
The only state that could carry one is the sticky `kinderr` of the Stream, hence the invariant `Good`.
-/
import LinkVerif.Model.Ser

namespace Props.C11
open Model.Rlp Model.Ser

/-- the stream does not hold a cached panic -/
def Good (s : Stream) : Prop := s.kinderr ≠ some .panic
def NP (e : Option Err) : Prop := e ≠ some .panic
def NPx {α : Type} (r : Except Err α) : Prop := ∀ e, r = .error e → e ≠ .panic

theorem willRead_np (n : Nat) (s : Stream) (h : Good s) : NP (willRead n s).1 ∧ Good (willRead n s).2 := by
  unfold willRead
  simp only
  split
  · split
    · simp_all [Good, NP]
    · split <;> simp_all [Good, NP]
  · split <;> simp_all [Good, NP]

theorem readByte_np (s : Stream) (h : Good s) : NPx (readByte s).1 ∧ Good (readByte s).2 := by
  have := willRead_np 1 s h
  unfold readByte
  split
  · next e s' heq => rw [heq] at this; simp_all [Good, NP, NPx]
  · next s' heq =>
    rw [heq] at this
    split <;> simp_all [Good, NP, NPx]

theorem readFull_np (n : Nat) (s : Stream) (h : Good s) : NPx (readFull n s).1 ∧ Good (readFull n s).2 := by
  have := willRead_np n s h
  unfold readFull
  split
  · next e s' heq => rw [heq] at this; simp_all [Good, NP, NPx]
  · next s' heq => rw [heq] at this; split <;> simp_all [Good, NP, NPx]

theorem readUintSz_np (sz : Nat) (s : Stream) (h : Good s) : NPx (readUintSz sz s).1 ∧ Good (readUintSz sz s).2 := by
  unfold readUintSz
  split
  · simp_all [Good, NPx]
  · have := readByte_np s h
    split
    · next e s' heq => rw [heq] at this; simp_all [NPx]
    · next b s' heq => rw [heq] at this; simp_all [NPx]
  · have := readFull_np sz s h
    split
    · next e s' heq => rw [heq] at this; simp_all [NPx]
    · next d s' heq =>
      rw [heq] at this
      split <;> simp_all [NPx]

theorem readKind_np (s : Stream) (h : Good s) : NP (readKind s).1.2.2 ∧ Good (readKind s).2 := by
  have hb := readByte_np s h
  unfold readKind
  split
  · next e s' heq =>
    rw [heq] at hb
    simp only
    split <;> simp_all [NP, NPx]
  · next b s' heq =>
    rw [heq] at hb
    have hg : Good { s' with byteval := 0 } := by simp_all [Good]
    simp only
    split
    · simp_all [NP, Good]
    · split
      · simp_all [NP, Good]
      · split
        · have := readUintSz_np (b.toNat - 0xB7) { s' with byteval := 0 } hg
          split
          · next e s2 heq2 => rw [heq2] at this; simp_all [NP, NPx]
          · next n s2 heq2 =>
            rw [heq2] at this
            simp only [NP]
            split <;> simp_all [NPx]
        · split
          · simp_all [NP, Good]
          · have := readUintSz_np (b.toNat - 0xF7) { s' with byteval := 0 } hg
            split
            · next e s2 heq2 => rw [heq2] at this; simp_all [NP, NPx]
            · next n s2 heq2 =>
              rw [heq2] at this
              simp only [NP]
              split <;> simp_all [NPx]

theorem limitErr_np (s : Stream) (sz : Nat) : NP (limitErr s sz) := by
  unfold limitErr NP
  split <;> split <;> simp

theorem kindOf_np (s : Stream) (h : Good s) : NP (kindOf s).1.2.2 ∧ Good (kindOf s).2 := by
  unfold kindOf
  split
  · simp_all [NP, Good]
  · have hg : Good { s with kinderr := none } := by simp [Good]
    have hk := readKind_np { s with kinderr := none } hg
    simp only
    split
    · simp [NP, Good]
    · have hl := limitErr_np (readKind { s with kinderr := none }).2 (readKind { s with kinderr := none }).1.2.1
      simp only [NP, Good] at hk hl ⊢
      split <;> simp_all

theorem sBytes_np (s : Stream) (h : Good s) : NPx (sBytes s).1 ∧ Good (sBytes s).2 := by
  have hk := kindOf_np s h
  unfold sBytes
  split
  · next heq => rw [heq] at hk; simp_all [NP, NPx]
  · next heq => rw [heq] at hk; simp_all [NP, NPx, Good]
  · next sz s' heq =>
    rw [heq] at hk
    have hr := readFull_np sz { s' with alloc := max s'.alloc sz } (by simpa [Good] using hk.2)
    split
    · next heq2 => rw [heq2] at hr; simp_all [NPx]
    · next heq2 => rw [heq2] at hr; split <;> simp_all [NPx]
  · next heq => rw [heq] at hk; simp_all [NP, NPx]

theorem sUint_np (mb : Nat) (s : Stream) (h : Good s) : NPx (sUint mb s).1 ∧ Good (sUint mb s).2 := by
  have hk := kindOf_np s h
  unfold sUint
  split
  · next heq => rw [heq] at hk; simp_all [NP, NPx]
  · next heq => rw [heq] at hk; split <;> simp_all [NP, NPx, Good]
  · next sz s' heq =>
    rw [heq] at hk
    split
    · simp_all [NPx]
    · have hr := readUintSz_np sz s' hk.2
      split
      · next heq2 => rw [heq2] at hr; simp_all [NPx]
      · next heq2 => rw [heq2] at hr; simp_all [NPx]
      · next heq2 => rw [heq2] at hr; split <;> simp_all [NPx]
  · next heq => rw [heq] at hk; simp_all [NP, NPx]

theorem sList_np (s : Stream) (h : Good s) : NPx (sList s).1 ∧ Good (sList s).2 := by
  have hk := kindOf_np s h
  unfold sList
  split
  · next heq => rw [heq] at hk; simp_all [NP, NPx]
  · next heq => rw [heq] at hk; simp_all [NP, NPx, Good]
  · next heq => rw [heq] at hk; simp_all [NP, NPx]

theorem sListEnd_np (s : Stream) (h : Good s) : NP (sListEnd s).1 ∧ Good (sListEnd s).2 := by
  unfold sListEnd
  split
  · simp_all [NP]
  · split <;> simp_all [NP, Good]

/-- a decoder result: no panic, and the stream stays good -/
def NPr (r : DecR) : Prop := NP r.2.1 ∧ Good r.2.2

theorem decBytesLike_np (s : Stream) (h : Good s) : NPr (decBytesLike s) := by
  have hb := sBytes_np s h
  unfold decBytesLike NPr
  split
  · next heq => rw [heq] at hb; simp_all [NP, NPx]
  · next heq => rw [heq] at hb; simp_all [NP, NPx]

theorem decInt_np (bits : Nat) (s : Stream) (h : Good s) : NPr (decInt bits s) := by
  have hb := sBytes_np s h
  unfold decInt NPr
  split
  · next heq => rw [heq] at hb; simp_all [NP, NPx]
  · next heq => rw [heq] at hb; split <;> simp_all [NP, NPx]

theorem decBigPtr_np (s : Stream) (h : Good s) : NPr (decBigPtr s) := by
  have hb := sBytes_np s h
  unfold decBigPtr NPr
  split
  · next heq => rw [heq] at hb; simp_all [NP, NPx]
  · next heq => rw [heq] at hb; split <;> simp_all [NP, NPx]

theorem decBigVal_np (s : Stream) (h : Good s) : NPr (decBigVal s) := by
  have hb := sBytes_np s h
  unfold decBigVal NPr
  split
  · next heq => rw [heq] at hb; simp_all [NP, NPx]
  · next heq => rw [heq] at hb; split <;> simp_all [NP, NPx]

theorem decByteArr_np (n : Nat) (s : Stream) (h : Good s) : NPr (decByteArr n s) := by
  have hk := kindOf_np s h
  unfold decByteArr NPr
  simp only
  split
  · next heq => rw [heq] at hk; simp_all [NP]
  · next heq =>
    rw [heq] at hk
    split
    · simp_all [NP]
    · split
      · simp_all [NP]
      · split <;> simp_all [NP, Good]
  · next sz s' heq =>
    rw [heq] at hk
    split
    · simp_all [NP]
    · split
      · simp_all [NP]
      · have hr := readFull_np n s' hk.2
        split
        · next heq2 => rw [heq2] at hr; simp_all [NP, NPx]
        · next heq2 => rw [heq2] at hr; simp_all [NP, NPx]
        · next heq2 => rw [heq2] at hr; split <;> simp_all [NP, NPx]
  · next heq => rw [heq] at hk; simp_all [NP]

theorem intOr0_snd (r : DecR) : (intOr0 r).2 = r.2.2 := by
  unfold intOr0; split <;> rfl

theorem decTime_np (s : Stream) (h : Good s) : NPr (decTime s) := by
  have hl := sList_np s h
  unfold decTime NPr
  simp only
  split
  · next heq => rw [heq] at hl; simp_all [NP, NPx]
  · next n s' heq =>
    rw [heq] at hl
    have h1 := decInt_np 64 s' hl.2
    have g1 : Good (intOr0 (decInt 64 s')).2 := by rw [intOr0_snd]; exact h1.2
    have h2 := decInt_np 32 _ g1
    have g2 : Good (intOr0 (decInt 32 (intOr0 (decInt 64 s')).2)).2 := by rw [intOr0_snd]; exact h2.2
    have h3 := sListEnd_np _ g2
    split
    · exact ⟨by simp [NP], g2⟩
    · exact h3

theorem decMapEntries_np : ∀ (cnt : Nat) (acc : List (Bytes × Val)) (s : Stream), Good s →
    NPx (decMapEntries cnt acc s).1 ∧ Good (decMapEntries cnt acc s).2
  | 0, acc, s, h => by simp [decMapEntries, NPx, h]
  | cnt + 1, acc, s, h => by
    have hk := decByteArr_np 20 s h
    unfold decMapEntries
    split
    · next heq => rw [heq] at hk; simp_all [NPr, NP, NPx]
    · next k s1 heq =>
      rw [heq] at hk
      have hv := decBigPtr_np s1 hk.2
      split
      · next heq2 => rw [heq2] at hv; simp_all [NPr, NP, NPx]
      · next v s2 heq2 =>
        rw [heq2] at hv
        exact decMapEntries_np cnt _ s2 hv.2

theorem decMap_np (s : Stream) (h : Good s) : NPr (decMap s) := by
  have hl := sList_np s h
  unfold decMap NPr
  simp only
  split
  · next heq => rw [heq] at hl; simp_all [NP, NPx]
  · next sz s1 heq =>
    rw [heq] at hl
    split
    · exact sListEnd_np s1 hl.2
    · have hi := decInt_np 64 s1 hl.2
      split
      · next len s2 heq2 =>
        rw [heq2] at hi
        split
        · exact ⟨by simp [NP], hi.2⟩
        · have hm := decMapEntries_np len.toNat [] s2 hi.2
          split
          · next heq3 => rw [heq3] at hm; simp_all [NP, NPx]
          · next kvs s3 heq3 =>
            rw [heq3] at hm
            exact sListEnd_np s3 hm.2
      · next heq2 => rw [heq2] at hi; exact hi

theorem readN_np : ∀ (n : Nat) (s : Stream), Good s → NPx (readN n s).1 ∧ Good (readN n s).2
  | 0, s, h => by simp [readN, NPx, h]
  | n + 1, s, h => by
    have hb := readByte_np s h
    unfold readN
    split
    · next heq => rw [heq] at hb; simp_all [NPx]
    · next b s1 heq =>
      rw [heq] at hb
      have hr := readN_np n s1 hb.2
      split
      · next heq2 => rw [heq2] at hr; simp_all [NPx]
      · next heq2 => rw [heq2] at hr; simp_all [NPx]

theorem decElems_np (dec : Stream → DecR) (hd : ∀ s, Good s → NPr (dec s)) :
    ∀ (n : Nat) (acc : List Val) (s : Stream), Good s → NPr (decElems dec n acc s)
  | 0, acc, s, h => by simp [decElems, NPr, NP, h]
  | n + 1, acc, s, h => by
    have hx := hd s h
    unfold decElems
    split
    · next heq => rw [heq] at hx; exact ⟨by simp [NP], hx.2⟩
    · next heq => rw [heq] at hx; exact hx
    · next v s1 heq => rw [heq] at hx; exact decElems_np dec hd n _ s1 hx.2

theorem decArrElems_np (dec : Stream → DecR) (zero : Val) (hd : ∀ s, Good s → NPr (dec s)) :
    ∀ (n : Nat) (acc : List Val) (s : Stream), Good s → NPr (decArrElems dec zero n acc s)
  | 0, acc, s, h => by simp [decArrElems, NPr, NP, h]
  | n + 1, acc, s, h => by
    have hx := hd s h
    unfold decArrElems
    split
    · next heq => rw [heq] at hx; exact ⟨by simp [NP], hx.2⟩
    · next heq => rw [heq] at hx; exact hx
    · next v s1 heq => rw [heq] at hx; exact decArrElems_np dec zero hd n _ s1 hx.2

theorem decFields_np (dec : Ty → Stream → DecR) (zero : Ty → Val) (hd : ∀ t s, Good s → NPr (dec t s)) :
    ∀ (ts : List Ty) (acc : List Val) (s : Stream), Good s → NPr (decFields dec zero ts acc s)
  | [], acc, s, h => by simp [decFields, NPr, NP, h]
  | t :: ts, acc, s, h => by
    have hx := hd t s h
    unfold decFields
    split
    · next heq => rw [heq] at hx; exact ⟨by simp [NP], hx.2⟩
    · next heq => rw [heq] at hx; exact hx
    · next v s1 heq => rw [heq] at hx; exact decFields_np dec zero hd ts _ s1 hx.2

/-- no decoder of the universe produces `panic`, and the stream invariant is kept -/
theorem decV_np (env : Env) : ∀ (f : Nat) (t : Ty) (s : Stream), Good s → NPr (decV env f t s)
  | 0, t, s, h => by simp [decV, NPr, NP, h]
  | f + 1, t, s, h => by
    have ih := decV_np env f
    cases t with
    | uint bits =>
      have hu := sUint_np bits s h
      simp only [decV]
      split
      · next heq => rw [heq] at hu; simp_all [NPr, NP, NPx]
      · next heq => rw [heq] at hu; simp_all [NPr, NP, NPx]
    | int bits => simp only [decV]; exact decInt_np bits s h
    | bool =>
      have hu := sUint_np 8 s h
      simp only [decV]
      split
      · next heq => rw [heq] at hu; simp_all [NPr, NP, NPx]
      · next heq => rw [heq] at hu; simp_all [NPr, NP, NPx]
      · next heq => rw [heq] at hu; simp_all [NPr, NP, NPx]
      · next heq => rw [heq] at hu; simp_all [NPr, NP, NPx]
    | bigptr => simp only [decV]; exact decBigPtr_np s h
    | bigval => simp only [decV]; exact decBigVal_np s h
    | bytes => simp only [decV]; exact decBytesLike_np s h
    | string => simp only [decV]; exact decBytesLike_np s h
    | bytearr n => simp only [decV]; exact decByteArr_np n s h
    | time => simp only [decV]; exact decTime_np s h
    | map20 => simp only [decV]; exact decMap_np s h
    | slice e =>
      have hl := sList_np s h
      simp only [decV]
      split
      · next heq => rw [heq] at hl; simp_all [NPr, NP, NPx]
      · next sz s1 heq =>
        rw [heq] at hl
        split
        · exact sListEnd_np s1 hl.2
        · have he := decElems_np (decV env f e) (ih e) (s1.rest.length + 2) [] s1 hl.2
          split
          · next heq2 => rw [heq2] at he; exact he
          · next v s2 heq2 => rw [heq2] at he; exact sListEnd_np s2 he.2
    | arr n e =>
      have hl := sList_np s h
      simp only [decV]
      split
      · next heq => rw [heq] at hl; simp_all [NPr, NP, NPx]
      · next sz s1 heq =>
        rw [heq] at hl
        have he := decArrElems_np (decV env f e) (zeroV env 64 e) (ih e) n [] s1 hl.2
        split
        · next heq2 => rw [heq2] at he; exact he
        · next v s2 heq2 => rw [heq2] at he; exact sListEnd_np s2 he.2
    | struct fs =>
      have hl := sList_np s h
      simp only [decV]
      split
      · next heq => rw [heq] at hl; simp_all [NPr, NP, NPx]
      · next sz s1 heq =>
        rw [heq] at hl
        split
        · exact sListEnd_np s1 hl.2
        · have he := decFields_np (decV env f) (zeroV env 64) ih fs [] s1 hl.2
          split
          · next heq2 => rw [heq2] at he; exact he
          · next v s2 heq2 => rw [heq2] at he; exact sListEnd_np s2 he.2
    | ptr e =>
      have hk := kindOf_np s h
      simp only [decV]
      split
      · next heq => rw [heq] at hk; simp_all [NPr, NP, Good]
      · next k sz s1 heq =>
        rw [heq] at hk
        split
        · exact ⟨by simp [NP], by simpa [Good] using hk.2⟩
        · have he := ih e s1 hk.2
          split
          · next heq2 => rw [heq2] at he; exact he
          · next heq2 => rw [heq2] at he; exact he
    | cptr a e =>
      have he := ih e s h
      simp only [decV]
      split
      · next heq => rw [heq] at he; exact he
      · next heq => rw [heq] at he; exact he
    | cval a e =>
      have he := ih e s h
      simp only [decV]
      split
      · next heq => rw [heq] at he; exact he
      · next heq => rw [heq] at he; exact he
    | iface impl =>
      simp only [decV]
      split
      · exact ⟨by simp [NP], h⟩
      · have hb := readByte_np s h
        split
        · next heq => rw [heq] at hb; simp_all [NPr, NP, NPx]
        · next b0 s1 heq =>
          rw [heq] at hb
          split
          · exact ⟨by simp [NP], hb.2⟩
          · have hn := readN_np 6 s1 hb.2
            split
            · next heq2 => rw [heq2] at hn; simp_all [NPr, NP, NPx]
            · next bs s2 heq2 =>
              rw [heq2] at hn
              split
              · exact ⟨by simp [NP], hn.2⟩
              · split
                · exact ⟨by simp [NP], hn.2⟩
                · split
                  · exact ⟨by simp [NP], hn.2⟩
                  · next id _ =>
                    have he := ih (.ref id) s2 hn.2
                    exact ⟨by simp [NP], he.2⟩
    | ref id =>
      simp only [decV]
      split
      · next t' _ => exact ih t' s h
      · exact ⟨by simp [NP], h⟩
    | split a d => simp only [decV]; exact ih d s h
    | unsupported => simp only [decV]; exact ⟨by simp [NP], h⟩

/-! ### the map entry count is bounded by the size of the enclosing list (fix 8c7e349) -/

theorem mapPut_length_le (k : Bytes) (v : Val) : ∀ (l : List (Bytes × Val)), (mapPut k v l).length ≤ l.length + 1
  | [] => by simp [mapPut]
  | (k', v') :: r => by
    have := mapPut_length_le k v r
    unfold mapPut
    split <;> simp <;> omega

theorem insertKV_length (k : Bytes) (v : Val) : ∀ (l : List (Bytes × Val)), (insertKV k v l).length = l.length + 1
  | [] => by simp [insertKV]
  | (k', v') :: r => by
    have := insertKV_length k v r
    unfold insertKV
    split <;> simp [this]

theorem sortKV_length : ∀ (l : List (Bytes × Val)), (sortKV l).length = l.length
  | [] => by simp [sortKV]
  | (k, v) :: r => by simp [sortKV, insertKV_length, sortKV_length r]

theorem decMapEntries_length : ∀ (cnt : Nat) (acc : List (Bytes × Val)) (s : Stream) (kvs : List (Bytes × Val)) (s' : Stream),
    decMapEntries cnt acc s = (.ok kvs, s') → kvs.length ≤ acc.length + cnt
  | 0, acc, s, kvs, s', h => by
    simp [decMapEntries] at h
    rw [← h.1]; simp
  | cnt + 1, acc, s, kvs, s', h => by
    unfold decMapEntries at h
    split at h
    · simp at h
    · next k s1 heq1 =>
      split at h
      · simp at h
      · next v s2 heq2 =>
        have h1 := decMapEntries_length cnt _ _ kvs s' h
        have h2 := mapPut_length_le (keyBytes k) v acc
        omega

/-- whatever map the decoder returns, the number of entries it was sized for and holds is at most
    (payload size of its list) / 22 — the allocation is bounded by the input, not by a number read from it -/
theorem decMap_count_le (s : Stream) (ks : List Bytes) (vs : List Val) (e : Option Err) (s' : Stream)
    (h : decMap s = (.map ks vs, e, s')) :
    ks = [] ∨ ∃ sz s1, sList s = (.ok sz, s1) ∧ ks.length ≤ sz / 22 := by
  unfold decMap at h
  simp only at h
  split at h
  · simp at h; exact Or.inl h.1.1
  · next sz s1 heq =>
    split at h
    · simp at h; exact Or.inl h.1.1
    · split at h
      · next len s2 heq2 =>
        split at h
        · simp at h; exact Or.inl h.1.1
        · next hlen =>
          split at h
          · simp at h; exact Or.inl h.1.1
          · next kvs s3 heq3 =>
            have hl := decMapEntries_length _ _ _ _ _ heq3
            simp at h
            refine Or.inr ⟨sz, s1, heq, ?_⟩
            rw [← h.1.1]
            simp [sortKV_length] at hl ⊢
            omega
      · simp at h; exact Or.inl h.1.1

end Props.C11
