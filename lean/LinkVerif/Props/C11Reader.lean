/-
C11: the io.Reader entry points (Decode, DecodeWithType, DecodeReader[WithType]) — streams whose limit is not the input.
What the code guarantees about buffer sizes, and what it does not.
-/
import LinkVerif.Model.Ser
import LinkVerif.Gen.C11ReaderSites

namespace Props.C11
open Model.Rlp Model.Ser

/-! ### full statements -/

/-- no reader entry point panics -/
def C11_reader_no_panic_statement : Prop :=
  ∀ (env : Env) (t : Ty) (pre : Bool) (lim : Limit) (b : Bytes), (decodeReader env t pre lim b).1 ≠ .error .panic

/-- the buffers a reader entry point requests are bounded by what the caller allowed: the limit, or - without one - the
    input itself -/
def C11_reader_alloc_statement : Prop :=
  ∀ (env : Env) (t : Ty) (pre : Bool) (lim : Limit) (b : Bytes),
    (decodeReader env t pre lim b).2 ≤ (match lim with | .some n => n | .none => b.length)

/-! ### both are false on an UNLIMITED stream: the size announced by the outermost header is not checked against anything.
    Witness: the 9 bytes BF 40 00 00 00 00 00 00 00 decoded into a []byte through Decode(r, …) with r not a
    bytes/strings.Reader: `make([]byte, 2^62)` → "makeslice: len out of range" (replayed on the real code by the
    harness: known finding class unlimited-reader-outermost-size).  No call site of the node passes limit 0 on peer input
    (T2 facts in Gen/C11ReaderSites.lean): the callers' limits are what bounds the allocation. -/

set_option maxRecDepth 100000 in
theorem reader_unlimited_witness :
    decodeReader {} .bytes false .none [0xBF, 0x40, 0, 0, 0, 0, 0, 0, 0] = (.error .panic, 2 ^ 62) := by rfl

theorem C11_reader_no_panic_counterexample : ¬ C11_reader_no_panic_statement := by
  intro h
  have := h {} .bytes false .none [0xBF, 0x40, 0, 0, 0, 0, 0, 0, 0]
  rw [reader_unlimited_witness] at this
  exact this rfl

theorem C11_reader_alloc_counterexample : ¬ C11_reader_alloc_statement := by
  intro h
  have h1 := h {} .bytes false .none [0xBF, 0x40, 0, 0, 0, 0, 0, 0, 0]
  rw [reader_unlimited_witness] at h1
  simp at h1

/-! a limit above what the reader holds is honoured as a bound, not exceeded: 1 MiB allowed, 16 MiB announced → rejected
    before any buffer is made; 1 MiB allowed, 1 MiB - 8 announced with nothing behind it → that buffer is made (the caller
    allowed it), then the read fails -/
set_option maxRecDepth 100000 in
example : decodeReader {} .bytes false (.some 1048576) [0xBA, 0xFF, 0xFF, 0xFF] = (.error .valueTooLarge, 0) := by rfl
set_option maxRecDepth 100000 in
example : decodeReader {} .bytes false (.some 1048576) [0xBA, 0x0F, 0xFF, 0xF8] = (.error .eof, 1048568) := by rfl
/-! the seeded defect's witness on the unchanged model: a nested element announcing 2^62 bytes inside a 9-byte list is
    rejected on the unlimited stream too (the element check does not depend on the limit) -/
set_option maxRecDepth 100000 in
example : decodeReader {} (.slice .bytes) false .none [0xC9, 0xBF, 0x40, 0, 0, 0, 0, 0, 0, 0] = (.error .elemTooLarge, 0) := by rfl

/-! ### T2: who calls the reader entry points, and with which limit (regenerated from the source on every check) -/

/-- a call site bounds its stream: Decode/DecodeWithType only on a bytes.Reader (NewStream then takes the limit from its
    length), DecodeReader*/NewStream only with a limit argument that is not the literal 0 -/
def siteLimited (s : String × String × String × String × String × String × String) : Bool :=
  let (_, _, call, _, _, readerKind, limitKind) := s
  if call == "Decode" || call == "DecodeWithType" then readerKind == "bytes"
  else limitKind == "expr"

/-- every call of a reader entry point in libs/p2p, consensus, blockchain, mempool, evidence, state, types, app, autofile, db
    passes a limit (packet size, node-info size, 1 MiB, the validated BlockSize.MaxBytes) or reads from a bytes.Reader:
    the unlimited stream of `reader_unlimited_witness` is not reachable from the node today.  A new call site with limit 0
    (or Decode on a connection) breaks this theorem. -/
theorem reader_sites_limited : Gen.C11ReaderSites.readerSites.all siteLimited = true := by decide

end Props.C11
