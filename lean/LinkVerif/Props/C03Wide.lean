/-
C03 (part 6, coverage-guided widening): the other entry points of the commit rule.
  * `VerifyCommitAny` (exported, no caller): after fix ddc1c92 (a `seen` set, marked before the signature test) the full
    statement is PROVED (`C03_verifyCommitAny`); on aligned commits it coincides with `VerifyCommit`;
  * the call sites (T2 facts re-extracted on every run): which validator set / chain / block id / height / commit each caller
    hands to `VerifyCommit`, what it does on failure, and the exact shape of `reconstructLastCommit`;
  * `reconstruct` (restart): a rebuilt LastCommit has > 2/3 of the last validators' power behind its majority block;
  * `MultiSignAccountTx.VerifySign`: accepted only with > 2/3 of the validators' power, every signer counted once.
-/
import LinkVerif.Props.C03Inv
import LinkVerif.Model.Mst
import LinkVerif.Gen.CommitSites

namespace Props.C03
open Go Gen.CommitArith Model.Vote Model.VoteSet Model.Commit Model.Mst

/-! ### Call sites (regenerated facts) -/

/-- block validation checks the LastCommit against the LAST validators, this chain, the last block id, height-1, and
returns the error; fast sync checks the commit of `first` (carried by `second.LastCommit`) against the CURRENT validators,
for the id recomputed from `first` itself, and on failure redoes both requests and leaves the loop before anything is
applied; `CheckBasic` hands `VerifySign` the last changed validator set -/
theorem call_sites_pass_the_right_set :
    Gen.CommitSites.validateBlockCall = ["status.LastValidators", "status.ChainID", "status.LastBlockID", "block.Height - 1", "block.LastCommit"] ∧
    Gen.CommitSites.validateBlockOnError = ["return err"] ∧
    Gen.CommitSites.fastSyncCall = ["status.Validators", "chainID", "firstID", "first.Height", "second.LastCommit"] ∧
    Gen.CommitSites.fastSyncOnError = ["peerID := bcR.pool.RedoRequest(first.Height)", "peerID = bcR.pool.RedoRequest(second.Height)", "break SYNC_LOOP"] ∧
    Gen.CommitSites.fastSyncBlockID = ["firstParts := first.MakePartSet(status.ConsensusParams.BlockPartSizeBytes)",
      "firstPartsHeader := firstParts.Header()", "firstID := types.BlockID{first.Hash(), firstPartsHeader}"] ∧
    Gen.CommitSites.mstCheckBasic = ["if IsTestMode", "_, vals := censor.GetLastChangedVals()", "valSets := NewValidatorSet(vals)", "return tx.VerifySign(valSets)"] := by
  decide

/-- `reconstructLastCommit` is exactly the loop that `Model.Commit.reconstruct` models: a precommit vote set of the LAST
validators at the last height and the stored commit's round; every stored precommit must be added without error; the
majority test guards the assignment of `cs.LastCommit` -/
theorem reconstruct_shape :
    Gen.CommitSites.reconstructVoteSet = ["types", "status.ChainID", "status.LastBlockHeight", "seenCommit.Round()", "types.VoteTypePrecommit", "status.LastValidators"] ∧
    Gen.CommitSites.reconstructBody = ["if status.LastBlockHeight == types.BlockHeightZero", "  return",
      "seenCommit := cs.appmgr.LoadSeenCommit(status.LastBlockHeight)",
      "lastPrecommits := types.NewVoteSet(status.ChainID, status.LastBlockHeight, seenCommit.Round(), types.VoteTypePrecommit, status.LastValidators)",
      "range seenCommit.Precommits", "  if precommit == nil", "    continue", "  added, err := lastPrecommits.AddVote(precommit)",
      "  if !added || err != nil", "    cmn.PanicCrisis(cmn.Fmt(\"Failed to reconstruct LastCommit: %v\", err))",
      "if !lastPrecommits.HasTwoThirdsMajority()", "  cmn.PanicSanity(\"Failed to reconstruct LastCommit: Does not have +2/3 maj\")",
      "cs.LastCommit = lastPrecommits"] :=
  ⟨rfl, rfl⟩

/-! ### Restart -/

theorem feedAll_run (verify : Verify) (s s' : VS) (ps : List (Option Vote)) (h : feedAll verify s ps = some s') :
    Run verify s s' := by
  induction ps generalizing s with
  | nil => simp only [feedAll, Option.some.injEq] at h; subst h; exact Run.refl _
  | cons o ps ih =>
    cases o with
    | none => exact ih s (by simpa [feedAll] using h)
    | some v =>
      simp only [feedAll] at h
      split at h
      · rename_i r hr
        split at h
        · have hrun := ih r.st h
          -- prepend one step
          have hstep : Step verify s r.st := Step.vote s v r hr
          clear h ih
          induction hrun with
          | refl => exact Run.tail _ _ _ (Run.refl _) hstep
          | tail t u _ hs ih2 => exact Run.tail _ _ _ ih2 hs
        · cases h
      · cases h

/-- A REBUILT LastCommit IS A COMMIT: if the restart does not panic, the vote set it installs reports a majority block
that has strictly more than two thirds of the last validators' power among its canonical votes, and `MakeCommit` of it
passes `VerifyCommit` for the same validator set -/
theorem reconstruct_sound (verify : Verify) (chain : List UInt8) (h : Nat) (vals : List Val) (seen : Option Commit) (s : VS)
    (hno : NoOverflow vals) (hr : reconstruct verify chain h vals seen = some (some s)) :
    ∃ b, twoThirdsMajority s = some b ∧ 3 * countedPower b vals s.votes > 2 * sumPowers vals ∧
      ∃ c, makeCommit s = some c ∧ verifyCommit verify s.vals s.chain c.bid s.height c = .ok () := by
  unfold reconstruct at hr
  split at hr; · cases hr
  split at hr; · cases hr
  rename_i c
  split at hr; · cases hr
  rename_i s0 h0
  split at hr; · cases hr
  rename_i s1 hf
  split at hr
  · rename_i hm
    simp only [Option.some.injEq] at hr; subst hr
    have hrun := feedAll_run verify s0 s1 c.precommits hf
    obtain ⟨hI, hv⟩ := reachable_inv verify chain h (Model.Commit.round c) typePrecommit vals s0 s1 hno h0 hrun
    unfold hasTwoThirdsMajority at hm
    cases hb : s1.maj23 with
    | none => rw [hb] at hm; cases hm
    | some b =>
      have hq := maj23_needs_two_thirds_reachable verify chain h (Model.Commit.round c) typePrecommit vals s0 s1 hno h0 hrun b hb
      have htype : s1.type = typePrecommit := by
        have : s0.type = typePrecommit := by
          unfold newVS at h0; split at h0
          · cases h0
          · simp only [Option.some.injEq] at h0; rw [← h0]
        -- the type never changes along a run
        have hty : ∀ (a b : VS), Run verify a b → b.type = a.type := by
          intro a b hab
          induction hab with
          | refl => rfl
          | tail t u _ hs ih =>
            rw [← ih]
            cases hs with
            | vote v r hr' =>
              rcases addVote_cases verify t v r hr' with h1 | ⟨i, val, a', c', _, _, _, _, _, _, _, _, havv, _⟩
              · rw [h1.1]
              · obtain ⟨sx, conf, hS, _, hrest⟩ := addVerifiedVote_decompose t r.st v i val.power a' c' havv
                have e1 : sx.type = t.type := by
                  rcases hS with ⟨_, rfl, _⟩ | ⟨ex, _, _, _, ⟨_, rfl⟩ | ⟨_, rfl⟩⟩ <;> rfl
                rcases hrest with ⟨h', _, _⟩ | ⟨bv, _, h', _⟩
                · rw [h', e1]
                · rw [h', tally_eq]; split <;> exact e1
            | peer p bid => unfold setPeerMaj23; split; · rfl
                            · simp only; split
                              · split <;> rfl
                              · rfl
        rw [hty s0 s1 hrun, this]
      refine ⟨b, hb, hq, ⟨b, s1.votes⟩, ?_, ?_⟩
      · unfold makeCommit; simp [htype, hb]
      · exact makeCommit_verifies verify s1 ⟨b, s1.votes⟩ (by rw [hv]; exact hno) hI (by unfold makeCommit; simp [htype, hb])
  · cases hr

/-! ### `VerifyCommitAny` -/

/-- some slot holds a precommit of validator `val` (by address) for `bid` at (h, r) that verifies under `val`'s key -/
def hasSlotFor (verify : Verify) (chain : List UInt8) (bid : BlockID) (h : Nat) (r : Int) (val : Val) (ps : List (Option Vote)) : Bool :=
  ps.any (fun o => match o with
    | some v => decide (v.addr = val.addr) && decide (bid = v.bid) && decide (v.height = h) && decide (v.round = r) &&
                decide (v.type = typePrecommit) && verify val.key (msgOf chain v) v.sig
    | none => false)

/-- power of the DISTINCT validators with such a slot -/
def signerPower (verify : Verify) (chain : List UInt8) (bid : BlockID) (h : Nat) (r : Int) (vals : List Val) (ps : List (Option Vote)) : Int :=
  (vals.map (fun val => if hasSlotFor verify chain bid h r val ps then val.power else 0)).sum

/-- FULL STATEMENT (proved below, `C03_verifyCommitAny`): what `VerifyCommitAny` accepts is signed by a duplicate-free set
of validators of the set (the sum runs over the SET `vals`, each validator at most once), each with a verifying precommit
for exactly `bid` at `h` in the common round, holding > 2/3 of the total -/
def C03_verifyCommitAny_statement : Prop :=
  ∀ (verify : Verify) (vals : List Val) (chain : List UInt8) (bid : BlockID) (h : Nat) (c : Commit),
    NoOverflow vals → (vals.map (·.addr)).Nodup → verifyCommitAny verify vals chain bid h c = .ok () →
    3 * signerPower verify chain bid h (Model.Commit.round c) vals c.precommits > 2 * sumPowers vals

theorem verdict_none (e : Except VErr Unit) (h : verdict e = none) : e = .ok () := by
  cases e with
  | ok u => rfl
  | error x => simp [verdict] at h

/-- the witness of the repaired defect: validator 1's precommit in both slots of a two-validator commit is now REFUSED
(counted once: 1 of 2), by `VerifyCommit` as before -/
example : verdict (verifyCommitAny symVerify (exVals 2) [99] exB 5 ⟨exB, [some (exVote 1 exB), some (exVote 1 exB)]⟩) = some .power := by decide
example : verdict (verifyCommit symVerify (exVals 2) [99] exB 5 ⟨exB, [some (exVote 1 exB), some (exVote 1 exB)]⟩) = some .sig := by decide
/-- … while a shuffled commit of three DIFFERENT validators out of four is accepted -/
example : verdict (verifyCommitAny symVerify (exVals 4) [99] exB 5 ⟨exB, [some (exVote 3 exB), none, some (exVote 0 exB), some (exVote 1 exB)]⟩) = none := by decide

/-- slot i carries validator i's address (what a commit made by consensus looks like); same number of slots as validators -/
def Aligned : List Val → List (Option Vote) → Prop
  | val :: vals, some v :: ps => v.addr = val.addr ∧ Aligned vals ps
  | _ :: vals, none :: ps => Aligned vals ps
  | [], [] => True
  | _, _ => False

theorem find_mid (pre : List Val) (val : Val) (rest : List Val) (h : ∀ w ∈ pre, w.addr ≠ val.addr) :
    findByAddr (pre ++ val :: rest) val.addr = some val := by
  induction pre with
  | nil => simp [findByAddr]
  | cons w pre ih =>
    have hw := h w List.mem_cons_self
    have := ih (fun x hx => h x (List.mem_cons_of_mem _ hx))
    unfold findByAddr at this ⊢
    simp only [List.cons_append, List.find?_cons, hw, decide_false]
    exact this

theorem tallyLoopAny_aligned (verify : Verify) (chain : List UInt8) (bid : BlockID) (h : Nat) (r : Int)
    (pre rest : List Val) (ps : List (Option Vote)) (seen : List (List UInt8)) (acc : Int)
    (hnd : ((pre ++ rest).map (·.addr)).Nodup) (hseen : ∀ a ∈ seen, a ∈ pre.map (·.addr)) (hal : Aligned rest ps) :
    tallyLoopAny verify chain bid h r (pre ++ rest) ps seen acc = tallyLoop verify chain bid h r rest ps acc := by
  induction rest generalizing pre ps seen acc with
  | nil =>
    cases ps with
    | nil => simp [tallyLoopAny, tallyLoop]
    | cons _ _ => simp [Aligned] at hal
  | cons val rest ih =>
    have hassoc : pre ++ val :: rest = (pre ++ [val]) ++ rest := by simp
    have hnd' : (((pre ++ [val]) ++ rest).map (·.addr)).Nodup := by rw [← hassoc]; exact hnd
    have hpre : ∀ w ∈ pre, w.addr ≠ val.addr := by
      intro w hw hEq
      simp only [List.map_append, List.map_cons] at hnd
      have := (List.nodup_append.1 hnd).2.2 w.addr (List.mem_map_of_mem (f := (·.addr)) hw) val.addr (by simp)
      exact this hEq
    have hseen' : ∀ (x : List UInt8) (sn : List (List UInt8)), (∀ a ∈ sn, a ∈ pre.map (·.addr) ∨ a = x) → x = val.addr →
        ∀ a ∈ sn, a ∈ (pre ++ [val]).map (·.addr) := by
      intro x sn hs hx a ha
      rcases hs a ha with h1 | h1
      · simp only [List.map_append, List.mem_append]; exact Or.inl h1
      · simp [h1, hx]
    cases ps with
    | nil => simp [Aligned] at hal
    | cons o ps =>
      cases o with
      | none =>
        simp only [Aligned] at hal
        simp only [tallyLoopAny, tallyLoop]
        rw [hassoc]
        exact ih (pre ++ [val]) ps seen acc hnd' (hseen' val.addr seen (fun a ha => Or.inl (hseen a ha)) rfl) hal
      | some v =>
        simp only [Aligned] at hal
        have hfind : findByAddr (pre ++ val :: rest) v.addr = some val := by rw [hal.1]; exact find_mid pre val rest hpre
        have hns : seen.contains v.addr = false := by
          have : v.addr ∉ seen := fun hin => by
            obtain ⟨w, hw, hwa⟩ := List.mem_map.1 (hseen _ hin)
            exact hpre w hw (hwa.trans hal.1)
          simpa using this
        have hs2 : ∀ a ∈ v.addr :: seen, a ∈ (pre ++ [val]).map (·.addr) :=
          hseen' v.addr (v.addr :: seen) (fun a ha => by
            rcases List.mem_cons.1 ha with h1 | h1
            · exact Or.inr h1
            · exact Or.inl (hseen a h1)) hal.1
        simp only [tallyLoopAny, tallyLoop, hfind, hns, Bool.false_eq_true, if_false]
        rw [hassoc]
        simp only [ih (pre ++ [val]) ps (v.addr :: seen) _ hnd' hs2 hal.2]

/-- on a commit whose slot i carries validator i's address — every commit consensus makes — `VerifyCommitAny` IS
`VerifyCommit` (also index by index, see `verifyCommitAny_aligned_sound`) -/
theorem verifyCommitAny_aligned (verify : Verify) (vals : List Val) (chain : List UInt8) (bid : BlockID) (h : Nat) (c : Commit)
    (hnd : (vals.map (·.addr)).Nodup) (hal : Aligned vals c.precommits) :
    verifyCommitAny verify vals chain bid h c = verifyCommit verify vals chain bid h c := by
  unfold verifyCommitAny verifyCommit
  have := tallyLoopAny_aligned verify chain bid h (Model.Commit.round c) [] vals c.precommits [] 0 (by simpa using hnd) (fun a ha => by simp at ha) hal
  simp only [List.nil_append] at this
  rw [this]

theorem verifyCommitAny_aligned_sound (verify : Verify) (vals : List Val) (chain : List UInt8) (bid : BlockID) (h : Nat) (c : Commit)
    (hno : NoOverflow vals) (hnd : (vals.map (·.addr)).Nodup) (hal : Aligned vals c.precommits)
    (hok : verifyCommitAny verify vals chain bid h c = .ok ()) :
    ∃ r, AllSlotsGood verify chain h r vals c.precommits ∧ 3 * countedPower bid vals c.precommits > 2 * sumPowers vals := by
  rw [verifyCommitAny_aligned verify vals chain bid h c hnd hal] at hok
  exact (verifyCommit_sound verify vals chain bid h c hno hok).2

example : Aligned (exVals 4) [some (exVote 0 exB), some (exVote 1 exB), none, some (exVote 3 exB)] := by
  simp [Aligned, exVals, exVote, List.range, List.range.loop]
example : verdict (verifyCommitAny symVerify (exVals 4) [99] exB 5 ⟨exB, [some (exVote 0 exB), some (exVote 1 exB), none, some (exVote 3 exB)]⟩) = none := by decide

/-! ### `MultiSignAccountTx.VerifySign`: > 2/3 of the validators' power, every signer once -/

/-- `VerifySign` uses the same accept test as `VerifyCommit` (both are translated from the source on every run) -/
theorem mstAccepts_eq (t total : Int) : mstAccepts t total = verifyCommitAccepts t total := rfl

/-- power of the validators whose address is in `seen`: a sum over the SET, so nobody can be counted twice -/
def seenPower (vals : List Val) (seen : List (List UInt8)) : Int :=
  powerWhere vals (vals.map (fun v => seen.contains v.addr))

theorem powerWhere_bounds (vals : List Val) (bs : List Bool) (hp : ∀ v ∈ vals, 0 ≤ v.power) :
    0 ≤ powerWhere vals bs ∧ powerWhere vals bs ≤ sumPowers vals := by
  induction vals generalizing bs with
  | nil => cases bs <;> simp [powerWhere, sumPowers]
  | cons v vs ih =>
    have hv := hp v List.mem_cons_self
    have hp' : ∀ w ∈ vs, 0 ≤ w.power := fun w hw => hp w (List.mem_cons_of_mem _ hw)
    have hs := sumPowers_nonneg vs hp'
    rw [sumPowers_cons]
    cases bs with
    | nil => simp only [powerWhere]; omega
    | cons b bs => have := ih bs hp'; simp only [powerWhere]; split <;> omega

theorem mask_notin (vs : List Val) (a : List UInt8) (seen : List (List UInt8)) (h : a ∉ vs.map (·.addr)) :
    vs.map (fun v => (a :: seen).contains v.addr) = vs.map (fun v => seen.contains v.addr) := by
  apply List.map_congr_left
  intro v hv
  have hne : v.addr ≠ a := fun e => h (e ▸ List.mem_map_of_mem (f := (·.addr)) hv)
  simp [List.contains_cons, hne]

theorem seenPower_add (vs : List Val) (a : List UInt8) (seen : List (List UInt8)) (val : Val)
    (hnd : (vs.map (·.addr)).Nodup) (hf : findByAddr vs a = some val) (ha : a ∉ seen) :
    powerWhere vs (vs.map (fun v => (a :: seen).contains v.addr)) =
      powerWhere vs (vs.map (fun v => seen.contains v.addr)) + val.power := by
  induction vs with
  | nil => simp [findByAddr] at hf
  | cons v vs ih =>
    simp only [List.map_cons, List.nodup_cons] at hnd
    unfold findByAddr at hf
    simp only [List.find?_cons] at hf
    by_cases hva : v.addr = a
    · simp only [hva, decide_true] at hf
      simp only [Option.some.injEq] at hf
      subst hf
      have hnotin : a ∉ vs.map (·.addr) := hva ▸ hnd.1
      have hc : seen.contains v.addr = false := by simpa [hva] using ha
      have hm := mask_notin vs a seen hnotin
      have hhead : (a :: seen).contains v.addr = true := by simp [List.contains_cons, hva]
      simp only [List.map_cons, powerWhere]
      rw [hm, hhead, hc]
      simp only [if_true, Bool.false_eq_true, if_false]
      omega
    · simp only [hva, decide_false] at hf
      have := ih hnd.2 hf
      have hc : (a :: seen).contains v.addr = seen.contains v.addr := by simp [List.contains_cons, hva]
      simp only [List.map_cons, powerWhere, hc, this]
      omega

/-- the signature loop: whatever it accepts is backed by a set of addresses, each with a genuine signature in the list -/
theorem mstLoop_ok (vals : List Val) (all : List (List UInt8 × MSig)) (hno : NoOverflow vals) (hnd : (vals.map (·.addr)).Nodup)
    (sigs : List (List UInt8 × MSig)) (seen : List (List UInt8)) (acc : Int)
    (hsub : ∀ e ∈ sigs, e ∈ all) (hacc : acc = seenPower vals seen)
    (hseen : ∀ a ∈ seen, ∃ val, findByAddr vals a = some val ∧ (a, MSig.good val.key) ∈ all)
    (hok : mstLoop vals (totalPower vals) sigs seen acc = .ok ()) :
    ∃ seen', (∀ a ∈ seen', ∃ val, findByAddr vals a = some val ∧ (a, MSig.good val.key) ∈ all) ∧
      mstAccepts (seenPower vals seen') (totalPower vals) = true := by
  induction sigs generalizing seen acc with
  | nil => simp [mstLoop] at hok
  | cons e rest ih =>
    obtain ⟨a, sg⟩ := e
    have hrest : ∀ e ∈ rest, e ∈ all := fun e he => hsub e (List.mem_cons_of_mem _ he)
    simp only [mstLoop] at hok
    split at hok; · cases hok
    rename_i hcont
    have ha : a ∉ seen := by simpa using hcont
    split at hok; · cases hok
    rename_i val hf
    split at hok
    · cases hok
    · rename_i k
      split at hok
      · rename_i hk
        have hmem : (a, MSig.good val.key) ∈ all := hk ▸ hsub _ List.mem_cons_self
        have hadd : seenPower vals (a :: seen) = seenPower vals seen + val.power := seenPower_add vals a seen val hnd hf ha
        have hb := powerWhere_bounds vals (vals.map (fun v => (a :: seen).contains v.addr)) hno.1
        have hb0 := powerWhere_bounds vals (vals.map (fun v => seen.contains v.addr)) hno.1
        have hw : wrapI64 (acc + val.power) = seenPower vals (a :: seen) := by
          rw [hadd, hacc]
          have h2 := hno.2
          have : 0 ≤ seenPower vals seen + val.power ∧ seenPower vals seen + val.power < two62 := by
            unfold seenPower at hadd ⊢; rw [← hadd]; omega
          unfold two62 at this; unfold wrapI64; omega
        have hseen' : ∀ x ∈ a :: seen, ∃ val, findByAddr vals x = some val ∧ (x, MSig.good val.key) ∈ all := by
          intro x hx
          rcases List.mem_cons.1 hx with rfl | hx
          · exact ⟨val, hf, hmem⟩
          · exact hseen x hx
        rw [hw] at hok
        split at hok
        · rename_i hacc'
          exact ⟨a :: seen, hseen', hacc'⟩
        · exact ih (a :: seen) _ hrest rfl hseen' hok
      · exact ih seen acc hrest hacc hseen hok
    · exact ih seen acc hrest hacc hseen hok

/-- SOUNDNESS of `VerifySign` (validator set with distinct addresses, non-negative powers, total below 2^62): an accepted
multi-sign transaction carries genuine signatures (over exactly this request) of a SET of validators that holds strictly
more than two thirds of the total power; the power is summed over the set, so no signer counts twice -/
theorem mst_sound (vals : List Val) (sigs : List (List UInt8 × MSig)) (hno : NoOverflow vals)
    (hnd : (vals.map (·.addr)).Nodup) (hok : verifySign (some vals) sigs = .ok ()) :
    ∃ signers : List (List UInt8), (∀ a ∈ signers, ∃ val, findByAddr vals a = some val ∧ (a, MSig.good val.key) ∈ sigs) ∧
      3 * seenPower vals signers > 2 * sumPowers vals := by
  unfold verifySign at hok
  simp only at hok
  split at hok; · cases hok
  obtain ⟨seen', hs, hacc⟩ := mstLoop_ok vals sigs hno hnd sigs [] 0 (fun e he => he)
    (by simp [seenPower, powerWhere_none]) (fun a ha => by simp at ha) hok
  refine ⟨seen', hs, ?_⟩
  rw [mstAccepts_eq, totalPower_eq vals hno] at hacc
  exact (verifyCommitAccepts_iff _ _ (sumPowers_nonneg vals hno.1) hno.2).1 hacc

/-- a nil or empty validator set accepts nothing -/
theorem mst_needs_validators (sigs : List (List UInt8 × MSig)) :
    verifySign none sigs = .error .empty ∧ verifySign (some []) sigs = .error .empty := ⟨rfl, rfl⟩

/-! non-vacuity: three of four equal validators sign (accepted); two do not suffice; the same genuine signature twice is refused -/
def mverdict (e : Except MErr Unit) : Option MErr := match e with | .ok _ => none | .error x => some x
example : mverdict (verifySign (some (exVals 4)) [([0], .good 0), ([1], .bad 7), ([1], .good 1), ([3], .good 3)]) = none := by decide
example : mverdict (verifySign (some (exVals 4)) [([0], .good 0), ([1], .good 1)]) = some .power := by decide
example : mverdict (verifySign (some (exVals 4)) [([0], .good 0), ([0], .good 0), ([1], .good 1), ([2], .good 2)]) = some .dup := by decide
example : mverdict (verifySign (some (exVals 4)) [([0], .good 0), ([1], .good 0), ([2], .other 2), ([3], .good 3)]) = some .power := by decide
example : ((exVals 4).map (·.addr)).Nodup := by decide


/-! ### `VerifyCommitAny`, full statement (after fix ddc1c92) -/

theorem find_addr (vals : List Val) (a : List UInt8) (val : Val) (h : findByAddr vals a = some val) : val.addr = a := by
  unfold findByAddr at h
  have := List.find?_some h
  simpa using this

theorem find_self (vals : List Val) (v : Val) (hnd : (vals.map (·.addr)).Nodup) (hv : v ∈ vals) :
    findByAddr vals v.addr = some v := by
  obtain ⟨pre, rest, rfl⟩ := List.append_of_mem hv
  apply find_mid
  intro w hw hEq
  simp only [List.map_append, List.map_cons] at hnd
  exact (List.nodup_append.1 hnd).2.2 w.addr (List.mem_map_of_mem (f := (·.addr)) hw) v.addr (by simp) hEq

theorem powerWhere_map_mono (vs : List Val) (f g : Val → Bool) (hp : ∀ v ∈ vs, 0 ≤ v.power)
    (h : ∀ v ∈ vs, f v = true → g v = true) : powerWhere vs (vs.map f) ≤ powerWhere vs (vs.map g) := by
  induction vs with
  | nil => simp [powerWhere]
  | cons v vs ih =>
    have hv := hp v List.mem_cons_self
    have := ih (fun w hw => hp w (List.mem_cons_of_mem _ hw)) (fun w hw => h w (List.mem_cons_of_mem _ hw))
    have h0 := h v List.mem_cons_self
    simp only [List.map_cons, powerWhere]
    cases hf : f v with
    | false => cases g v <;> simp <;> omega
    | true => simp [h0 hf]; omega

theorem signerPower_eq (verify : Verify) (chain : List UInt8) (bid : BlockID) (h : Nat) (r : Int) (vals : List Val)
    (ps : List (Option Vote)) :
    signerPower verify chain bid h r vals ps = powerWhere vals (vals.map (fun val => hasSlotFor verify chain bid h r val ps)) := by
  unfold signerPower
  induction vals with
  | nil => simp [powerWhere]
  | cons v vs ih => simp only [List.map_cons, List.sum_cons, powerWhere, ih]

/-- the loop: what it tallies is the power of a set of addresses, each belonging to a validator with a verifying slot -/
theorem tallyLoopAny_ok (verify : Verify) (chain : List UInt8) (bid : BlockID) (h : Nat) (r : Int) (vals : List Val)
    (all : List (Option Vote)) (hno : NoOverflow vals) (hnd : (vals.map (·.addr)).Nodup)
    (ps : List (Option Vote)) (seen cnt : List (List UInt8)) (acc t : Int)
    (hsub : ∀ o ∈ ps, o ∈ all) (hacc : acc = seenPower vals cnt) (hcs : ∀ a ∈ cnt, a ∈ seen)
    (hcnt : ∀ a ∈ cnt, ∃ val, findByAddr vals a = some val ∧ hasSlotFor verify chain bid h r val all = true)
    (hok : tallyLoopAny verify chain bid h r vals ps seen acc = .ok t) :
    ∃ cnt', (∀ a ∈ cnt', ∃ val, findByAddr vals a = some val ∧ hasSlotFor verify chain bid h r val all = true) ∧
      t = seenPower vals cnt' := by
  induction ps generalizing seen cnt acc with
  | nil => simp only [tallyLoopAny, Except.ok.injEq] at hok; exact ⟨cnt, hcnt, by rw [← hok, hacc]⟩
  | cons o ps ih =>
    have hrest : ∀ o ∈ ps, o ∈ all := fun o ho => hsub o (List.mem_cons_of_mem _ ho)
    cases o with
    | none => simp only [tallyLoopAny] at hok; exact ih seen cnt acc hrest hacc hcs hcnt hok
    | some v =>
      simp only [tallyLoopAny] at hok
      split at hok; · cases hok
      split at hok; · cases hok
      split at hok; · cases hok
      rename_i h1 h2 h3
      split at hok
      · exact ih seen cnt acc hrest hacc hcs hcnt hok
      · rename_i val hf
        split at hok
        · exact ih seen cnt acc hrest hacc hcs hcnt hok
        · rename_i hns
          have hnotin : v.addr ∉ seen := by simpa using hns
          split at hok; · cases hok
          rename_i hver
          have hcs' : ∀ a ∈ cnt, a ∈ v.addr :: seen := fun a ha => List.mem_cons_of_mem _ (hcs a ha)
          split at hok
          · exact ih (v.addr :: seen) cnt acc hrest hacc hcs' hcnt hok
          · rename_i hb
            have hb' : bid = v.bid := by simpa using hb
            have hva : val.addr = v.addr := find_addr vals v.addr val hf
            have hslot : hasSlotFor verify chain bid h r val all = true := by
              unfold hasSlotFor
              rw [List.any_eq_true]
              refine ⟨some v, hsub _ List.mem_cons_self, ?_⟩
              have hv' : verify val.key (msgOf chain v) v.sig = true := by simpa using hver
              simp only [Bool.and_eq_true, decide_eq_true_eq]
              exact ⟨⟨⟨⟨⟨hva.symm, hb'⟩, by simpa using h1⟩, by simpa using h2⟩, by simpa using h3⟩, hv'⟩
            have hncnt : v.addr ∉ cnt := fun hin => hnotin (hcs _ hin)
            have hadd := seenPower_add vals v.addr cnt val hnd hf hncnt
            have hbd := powerWhere_bounds vals (vals.map (fun w => (v.addr :: cnt).contains w.addr)) hno.1
            have hbd0 := powerWhere_bounds vals (vals.map (fun w => cnt.contains w.addr)) hno.1
            have hw : wrapI64 (acc + val.power) = seenPower vals (v.addr :: cnt) := by
              have h2' := hno.2
              have e : seenPower vals (v.addr :: cnt) = seenPower vals cnt + val.power := hadd
              rw [e, hacc]
              have : 0 ≤ seenPower vals cnt + val.power ∧ seenPower vals cnt + val.power < two62 := by
                unfold seenPower at e ⊢; rw [← e]; omega
              unfold two62 at this; unfold wrapI64; omega
            rw [hw] at hok
            refine ih (v.addr :: seen) (v.addr :: cnt) _ hrest rfl ?_ ?_ hok
            · intro a ha
              rcases List.mem_cons.1 ha with rfl | ha
              · exact List.mem_cons_self
              · exact List.mem_cons_of_mem _ (hcs a ha)
            · intro a ha
              rcases List.mem_cons.1 ha with rfl | ha
              · exact ⟨val, hf, hslot⟩
              · exact hcnt a ha

/-- THE FULL STATEMENT HOLDS (after fix ddc1c92) -/
theorem C03_verifyCommitAny : C03_verifyCommitAny_statement := by
  intro verify vals chain bid h c hno hnd hok
  unfold verifyCommitAny at hok
  split at hok; · cases hok
  split at hok; · cases hok
  split at hok; · cases hok
  rename_i t ht
  split at hok
  · rename_i hacc
    obtain ⟨cnt, hc, htc⟩ := tallyLoopAny_ok verify chain bid h (Model.Commit.round c) vals c.precommits hno hnd c.precommits [] [] 0 t
      (fun o ho => ho) (by simp [seenPower, powerWhere_none]) (fun a ha => by simp at ha) (fun a ha => by simp at ha) ht
    rw [totalPower_eq vals hno] at hacc
    have h23 := (verifyCommitAccepts_iff t (sumPowers vals) (sumPowers_nonneg vals hno.1) hno.2).1 hacc
    have hle : seenPower vals cnt ≤ signerPower verify chain bid h (Model.Commit.round c) vals c.precommits := by
      rw [signerPower_eq]
      unfold seenPower
      apply powerWhere_map_mono vals _ _ hno.1
      intro v hv hin
      have hmem : v.addr ∈ cnt := by simpa using hin
      obtain ⟨val, hf, hs⟩ := hc _ hmem
      rw [find_self vals v hnd hv] at hf
      simp only [Option.some.injEq] at hf
      rw [hf]; exact hs
    omega
  · cases hok

end Props.C03
