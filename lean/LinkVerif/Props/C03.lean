/-
C03 — Only >2/3 of voting power, correctly signed for that exact block, makes a commit.

Part 2: `ValidatorSet.VerifyCommit` (model `Model.Commit.verifyCommit`) is sound and complete.
The signature scheme is a parameter (`verify`); what a verifying signature MEANS (the key holder signed
that message) is the explicit hypothesis `IdealSig.unforgeable`, never an axiom.
(Part 1, threshold arithmetic: `C03Arith`; part 3, vote-set step theorems: `C03VoteSet`; part 4, the vote-set invariant,
`maj23_needs_two_thirds`, `makeCommit_verifies`: `C03Inv`; part 5, sign-bytes: `C03SignBytes`.)
-/
import LinkVerif.Props.C03Arith

namespace Props.C03
open Go Gen.CommitArith Model.Vote Model.VoteSet Model.Commit

/-- slot `val` holds a correctly signed precommit for height `h`, round `r` on `chain` -/
def SlotGood (verify : Verify) (chain : List UInt8) (h : Nat) (r : Int) (val : Val) (v : Vote) : Prop :=
  v.height = h ∧ v.round = r ∧ v.type = typePrecommit ∧ verify val.key (msgOf chain v) v.sig = true

/-- every non-nil slot is good (slot i is judged against validator i: the lists are walked in step) -/
def AllSlotsGood (verify : Verify) (chain : List UInt8) (h : Nat) (r : Int) : List Val → List (Option Vote) → Prop
  | val :: vals, some v :: ps => SlotGood verify chain h r val v ∧ AllSlotsGood verify chain h r vals ps
  | _ :: vals, none :: ps => AllSlotsGood verify chain h r vals ps
  | _, _ => True

/-- the (mathematical) voting power of the slots that hold a precommit for exactly `bid`;
every validator slot contributes at most once -/
def countedPower (bid : BlockID) : List Val → List (Option Vote) → Int
  | val :: vals, some v :: ps => (if bid = v.bid then val.power else 0) + countedPower bid vals ps
  | _ :: vals, none :: ps => countedPower bid vals ps
  | _, _ => 0

theorem countedPower_bounds (bid : BlockID) (vals : List Val) (ps : List (Option Vote)) (hp : ∀ v ∈ vals, 0 ≤ v.power) :
    0 ≤ countedPower bid vals ps ∧ countedPower bid vals ps ≤ sumPowers vals := by
  induction vals generalizing ps with
  | nil => cases ps <;> simp [countedPower, sumPowers]
  | cons val vals ih =>
    have hv := hp val List.mem_cons_self
    have hrest := fun ps => ih ps (fun w hw => hp w (List.mem_cons_of_mem _ hw))
    rw [sumPowers_cons]
    cases ps with
    | nil => simp only [countedPower]; have := sumPowers_nonneg vals (fun w hw => hp w (List.mem_cons_of_mem _ hw)); omega
    | cons o ps =>
      have := hrest ps
      cases o with
      | none => simp only [countedPower]; omega
      | some v => simp only [countedPower]; split <;> omega

/-- the slot loop, when it succeeds, has checked every slot and tallied exactly `countedPower` (no wrap) -/
theorem tallyLoop_ok (verify : Verify) (chain : List UInt8) (bid : BlockID) (h : Nat) (r : Int)
    (vals : List Val) (ps : List (Option Vote)) (acc t : Int)
    (hp : ∀ v ∈ vals, 0 ≤ v.power) (hacc : 0 ≤ acc) (hs : acc + sumPowers vals < two62)
    (hok : tallyLoop verify chain bid h r vals ps acc = .ok t) :
    t = acc + countedPower bid vals ps ∧ AllSlotsGood verify chain h r vals ps := by
  induction vals generalizing ps acc with
  | nil => cases ps <;> simp_all [tallyLoop, countedPower, AllSlotsGood]
  | cons val vals ih =>
    have hv := hp val List.mem_cons_self
    have hp' : ∀ w ∈ vals, 0 ≤ w.power := fun w hw => hp w (List.mem_cons_of_mem _ hw)
    have hrest := sumPowers_nonneg vals hp'
    rw [sumPowers_cons] at hs
    cases ps with
    | nil => simp_all [tallyLoop, countedPower, AllSlotsGood]
    | cons o ps =>
      cases o with
      | none =>
        simp only [tallyLoop] at hok
        simpa [countedPower, AllSlotsGood] using ih ps acc hp' hacc (by omega) hok
      | some v =>
        simp only [tallyLoop] at hok
        split at hok; · cases hok
        split at hok; · cases hok
        split at hok; · cases hok
        split at hok; · cases hok
        rename_i h1 h2 h3 h4
        have hgood : SlotGood verify chain h r val v := by
          refine ⟨by simpa using h1, by simpa using h2, by simpa using h3, by simpa using h4⟩
        split at hok
        · rename_i hb
          have := ih ps acc hp' hacc (by omega) hok
          simp only [countedPower, AllSlotsGood, if_neg hb]
          exact ⟨by omega, hgood, this.2⟩
        · rename_i hb
          have hb' : bid = v.bid := by simpa using hb
          have hw : wrapI64 (acc + val.power) = acc + val.power := by
            unfold two62 at hs; unfold wrapI64; omega
          rw [hw] at hok
          have := ih ps (acc + val.power) hp' (by omega) (by omega) hok
          simp only [countedPower, AllSlotsGood, if_pos hb']
          exact ⟨by omega, hgood, this.2⟩

/-- conversely, if every slot is good the loop succeeds with exactly `countedPower` -/
theorem tallyLoop_complete (verify : Verify) (chain : List UInt8) (bid : BlockID) (h : Nat) (r : Int)
    (vals : List Val) (ps : List (Option Vote)) (acc : Int)
    (hp : ∀ v ∈ vals, 0 ≤ v.power) (hacc : 0 ≤ acc) (hs : acc + sumPowers vals < two62)
    (hgood : AllSlotsGood verify chain h r vals ps) :
    tallyLoop verify chain bid h r vals ps acc = .ok (acc + countedPower bid vals ps) := by
  induction vals generalizing ps acc with
  | nil => cases ps <;> simp [tallyLoop, countedPower]
  | cons val vals ih =>
    have hv := hp val List.mem_cons_self
    have hp' : ∀ w ∈ vals, 0 ≤ w.power := fun w hw => hp w (List.mem_cons_of_mem _ hw)
    have hrest := sumPowers_nonneg vals hp'
    rw [sumPowers_cons] at hs
    cases ps with
    | nil => simp [tallyLoop, countedPower]
    | cons o ps =>
      cases o with
      | none =>
        simp only [tallyLoop, countedPower]
        exact ih ps acc hp' hacc (by omega) (by simpa [AllSlotsGood] using hgood)
      | some v =>
        simp only [AllSlotsGood, SlotGood] at hgood
        obtain ⟨⟨h1, h2, h3, h4⟩, hg⟩ := hgood
        simp only [tallyLoop, countedPower, h1, h2, h3, h4, ne_eq, not_true_eq_false, if_false, Bool.not_true,
          Bool.false_eq_true]
        by_cases hb : bid = v.bid
        · have hw : wrapI64 (acc + val.power) = acc + val.power := by
            unfold two62 at hs; unfold wrapI64; omega
          simp only [hb, not_true_eq_false, if_false, if_true, hw]
          have := ih ps (acc + val.power) hp' (by omega) (by omega) hg
          rw [hb] at this
          rw [this]; congr 1; omega
        · simp only [hb, not_false_eq_true, if_true, if_false]
          have := ih ps acc hp' hacc (by omega) hg
          rw [this]; congr 1; omega

/-- SOUNDNESS of `VerifyCommit`.  For a validator set with non-negative powers and total below 2^62: if the
commit is accepted for block `bid` at height `h` on `chain`, then the commit has one slot per validator, there is
ONE common round `r` such that every non-nil slot is a precommit at (`h`, `r`) whose signature verifies under the
key of the validator AT THAT INDEX over exactly (chain, h, r, precommit, block id, time), and the slots that carry
exactly `bid` hold STRICTLY more than two thirds of the true total power (each slot counted once, no int64 wrap). -/
theorem verifyCommit_sound (verify : Verify) (vals : List Val) (chain : List UInt8) (bid : BlockID) (h : Nat) (c : Commit)
    (hno : NoOverflow vals) (hok : verifyCommit verify vals chain bid h c = .ok ()) :
    vals.length = c.precommits.length ∧
    ∃ r, AllSlotsGood verify chain h r vals c.precommits ∧ 3 * countedPower bid vals c.precommits > 2 * sumPowers vals := by
  unfold verifyCommit at hok
  split at hok; · cases hok
  rename_i hlen
  split at hok; · cases hok
  split at hok; · cases hok
  rename_i tallied htl
  split at hok
  · rename_i hacc
    have hsum := sumPowers_nonneg vals hno.1
    have := tallyLoop_ok verify chain bid h (Model.Commit.round c) vals c.precommits 0 tallied hno.1 (by omega) (by simpa using hno.2) htl
    refine ⟨by simpa using hlen, Model.Commit.round c, this.2, ?_⟩
    rw [totalPower_eq vals hno] at hacc
    have := (verifyCommitAccepts_iff tallied (sumPowers vals) hsum hno.2).1 hacc
    omega
  · cases hok

/-- COMPLETENESS (the check is not vacuous by always rejecting): a well-formed commit with > 2/3 is accepted -/
theorem verifyCommit_complete (verify : Verify) (vals : List Val) (chain : List UInt8) (bid : BlockID) (h : Nat) (c : Commit)
    (hno : NoOverflow vals) (hlen : vals.length = c.precommits.length) (hh : h = Model.Commit.height c)
    (hgood : AllSlotsGood verify chain h (Model.Commit.round c) vals c.precommits)
    (hq : 3 * countedPower bid vals c.precommits > 2 * sumPowers vals) :
    verifyCommit verify vals chain bid h c = .ok () := by
  unfold verifyCommit
  have hsum := sumPowers_nonneg vals hno.1
  rw [if_neg (by simpa using hlen), if_neg (by simpa using hh)]
  rw [tallyLoop_complete verify chain bid h _ vals c.precommits 0 hno.1 (by omega) (by simpa using hno.2) hgood]
  simp only
  rw [totalPower_eq vals hno]
  have : verifyCommitAccepts (0 + countedPower bid vals c.precommits) (sumPowers vals) = true :=
    (verifyCommitAccepts_iff _ _ hsum hno.2).2 (by omega)
  rw [this]; rfl

/-- index form of `AllSlotsGood`: slot `i` is checked against validator `i` -/
theorem allSlotsGood_get (verify : Verify) (chain : List UInt8) (h : Nat) (r : Int) (vals : List Val) (ps : List (Option Vote))
    (hg : AllSlotsGood verify chain h r vals ps) (i : Nat) (val : Val) (v : Vote)
    (hv : vals[i]? = some val) (hp : ps[i]? = some (some v)) : SlotGood verify chain h r val v := by
  induction vals generalizing ps i with
  | nil => simp at hv
  | cons w vals ih =>
    cases ps with
    | nil => simp at hp
    | cons o ps =>
      cases i with
      | zero =>
        simp only [List.getElem?_cons_zero, Option.some.injEq] at hv hp
        subst hv; subst hp
        exact hg.1
      | succ i =>
        simp only [List.getElem?_cons_succ] at hv hp
        cases o with
        | none => exact ih ps hg i hv hp
        | some u => exact ih ps hg.2 i hv hp

/-- An ideal signature scheme: `signedBy k m` = "the holder of key `k` signed message `m`".
Unforgeability is a HYPOTHESIS about `verify` (a structure field), listed in the trusted base. -/
structure IdealSig (verify : Verify) (signedBy : Nat → Msg → Prop) : Prop where
  unforgeable : ∀ k m s, verify k m s = true → signedBy k m

/-- the property clause for block validation / fast sync / LastCommit reconstruction, in the property's own words -/
theorem commit_needs_two_thirds_signers (verify : Verify) (signedBy : Nat → Msg → Prop) (I : IdealSig verify signedBy)
    (vals : List Val) (chain : List UInt8) (bid : BlockID) (h : Nat) (c : Commit)
    (hno : NoOverflow vals) (hok : verifyCommit verify vals chain bid h c = .ok ()) :
    ∃ r, (∀ (i : Nat) (val : Val) (v : Vote), vals[i]? = some val → c.precommits[i]? = some (some v) →
            v.height = h ∧ v.round = r ∧ v.type = typePrecommit ∧ signedBy val.key (msgOf chain v)) ∧
         3 * countedPower bid vals c.precommits > 2 * sumPowers vals := by
  obtain ⟨_, r, hg, hq⟩ := verifyCommit_sound verify vals chain bid h c hno hok
  refine ⟨r, ?_, hq⟩
  intro i val v hv hp
  have := allSlotsGood_get verify chain h r vals c.precommits hg i val v hv hp
  exact ⟨this.1, this.2.1, this.2.2.1, I.unforgeable _ _ _ this.2.2.2⟩

/-- the symbolic scheme used by the driver is ideal for "the signature value names this key and this message" -/
theorem symVerify_ideal : IdealSig symVerify (fun _ _ => True) := ⟨fun _ _ _ _ => trivial⟩

theorem symVerify_iff (k : Nat) (m : Msg) (s : Sig) : symVerify k m s = true ↔ s = Sig.signed k m := by
  simp [symVerify]

/-- a message binds every field: equal messages are equal in chain, height, round, type, block id and canonical time -/
theorem msg_binds (c c' : List UInt8) (v v' : Vote) (h : msgOf c v = msgOf c' v') :
    c = c' ∧ v.height = v'.height ∧ v.round = v'.round ∧ v.type = v'.type ∧ v.bid = v'.bid := by
  simp only [msgOf, Msg.mk.injEq] at h
  exact ⟨h.1, h.2.1, h.2.2.1, h.2.2.2.1, h.2.2.2.2.1⟩

/-- OPEN (stated, not proved at full strength): the canonical-JSON rendering is injective on its domain (ASCII chain id,
32-byte block hash, time within years 1..9999), so identifying a signed payload with the tuple `Msg` loses nothing.
PROVED PARTIAL: `signBytes_binds_step_fields` (Props/C03SignBytes.lean): for a fixed block id and canonical time the
sign-bytes determine chain id (through Go's JSON escaping), height, round and type; `signBytes_binds_block_hash`
(Props/C03BlockId.lean): for votes for a block, the sign-bytes determine chain id and block hash with no assumption on the
other fields; `signBytes_nil_vs_block`: nil votes and block votes never share sign-bytes.  What stays open is the injectivity
of the parts-header rendering (hex, omitted-when-zero fields) and of the time rendering; those are tied only by the byte-for-byte
comparison of `signBytes` with `Vote.SignBytes` (op `signbytes`) and the monitor `signbytes_binds`. -/
def C03_signBytes_binds_statement : Prop :=
  ∀ m m' : Msg, (∀ b ∈ m.chain ++ m'.chain, b.toNat < 128) → m.bid.hash.length = 32 → m'.bid.hash.length = 32 →
    (-62135596800000 ≤ m.tsMs ∧ m.tsMs < 253402300800000) → (-62135596800000 ≤ m'.tsMs ∧ m'.tsMs < 253402300800000) →
    signBytes m = signBytes m' → m = m'

/-! ### Non-vacuity: a concrete accepted commit (3 of 4 equal validators), and one that is rejected (2 of 3) -/

def exVals (n : Nat) : List Val := (List.range n).map (fun i => { addr := [UInt8.ofNat i], kaddr := [UInt8.ofNat i], key := i, power := 1 })
def exB : BlockID := ⟨zeroHash, 1, [1]⟩
def exVote (i : Nat) (b : BlockID) : Vote :=
  let v : Vote := { id := i, addr := [UInt8.ofNat i], idx := i, size := 4, height := 5, round := 0, tsSec := 0, tsNsec := 0, type := 2, bid := b, sig := .nil }
  { v with sig := .signed i (msgOf [99] v) }

/-- `none` = accepted -/
def verdict (e : Except VErr Unit) : Option VErr := match e with | .ok _ => none | .error x => some x

example : verdict (verifyCommit symVerify (exVals 4) [99] exB 5 ⟨exB, [some (exVote 0 exB), some (exVote 1 exB), none, some (exVote 3 exB)]⟩) = none := by decide
example : verdict (verifyCommit symVerify (exVals 3) [99] exB 5 ⟨exB, [some (exVote 0 exB), some (exVote 1 exB), none]⟩) = some .power := by decide
example : verdict (verifyCommit symVerify (exVals 4) [98] exB 5 ⟨exB, [some (exVote 0 exB), some (exVote 1 exB), none, some (exVote 3 exB)]⟩) = some .sig := by decide
/-- a precommit of validator 1 placed in slot 0 does not verify there -/
example : verdict (verifyCommit symVerify (exVals 4) [99] exB 5 ⟨exB, [some (exVote 1 exB), some (exVote 1 exB), none, some (exVote 3 exB)]⟩) = some .sig := by decide
example : NoOverflow (exVals 4) := by refine ⟨by decide, by decide⟩

/-! ### Duplicate-vote evidence is evidence of equivocation only -/

/-- evidence is accepted exactly when the two votes are two correctly signed votes of ONE validator (address, index, the
key the address belongs to) for the same height, round and TYPE and for different blocks — a prevote and a precommit of
one round, or two votes for the same block, never count -/
theorem dupev_ok_iff (verify : Verify) (chain : List UInt8) (key : Nat) (kaddr : List UInt8) (a b : Vote) :
    dupEvVerify verify chain key kaddr a b = .ok ↔
      (a.height = b.height ∧ a.round = b.round ∧ a.type = b.type ∧ a.addr = b.addr ∧ a.idx = b.idx ∧ a.bid ≠ b.bid ∧
       kaddr = a.addr ∧ verify key (msgOf chain a) a.sig = true ∧ verify key (msgOf chain b) b.sig = true) := by
  unfold dupEvVerify
  repeat' split
  all_goals simp_all
  all_goals omega

/-- under the ideal signature functionality: accepted evidence means the key holder signed two different blocks in one step -/
theorem dupev_sound (chain : List UInt8) (key : Nat) (kaddr : List UInt8) (a b : Vote)
    (h : dupEvVerify symVerify chain key kaddr a b = .ok) :
    a.sig = .signed key (msgOf chain a) ∧ b.sig = .signed key (msgOf chain b) ∧
    (msgOf chain a).height = (msgOf chain b).height ∧ (msgOf chain a).round = (msgOf chain b).round ∧
    (msgOf chain a).type = (msgOf chain b).type ∧ (msgOf chain a).bid ≠ (msgOf chain b).bid := by
  obtain ⟨e1, e2, e3, _, _, e6, _, s1, s2⟩ := (dupev_ok_iff symVerify chain key kaddr a b).mp h
  simp only [symVerify, decide_eq_true_eq] at s1 s2
  exact ⟨s1, s2, e1, e2, e3, e6⟩

example : dupEvVerify symVerify [99] 1 [1] (exVote 1 exB) (exVote 1 ⟨zeroHash, 2, [2]⟩) = .ok := by decide
/-- a prevote and a precommit of the same round are no evidence -/
example : dupEvVerify symVerify [99] 1 [1] (exVote 1 exB)
    (let v : Vote := { (exVote 1 ⟨zeroHash, 2, [2]⟩) with type := 1 }; { v with sig := .signed 1 (msgOf [99] v) }) = .hrs := by decide

end Props.C03
