/-
C03 (part 4): the full vote-set invariant, proved for EVERY sequence of `addVote` / `setPeerMaj23` from `newVS`
(under the property's quantifier: non-negative powers, total below 2^62), and its corollaries
`maj23_needs_two_thirds` and `makeCommit_verifies`.
-/
import LinkVerif.Props.C03
import LinkVerif.Props.C03VoteSet

namespace Props.C03
open Go Gen.CommitArith Model.Vote Model.VoteSet Model.Commit

/-! ### power of the validators with a recorded vote -/

/-- power of the validators that have a vote recorded in a slice of vote slots (each validator at most once) -/
def powerOfSome : List Val → List (Option Vote) → Int
  | v :: vs, o :: os => (if o.isSome then v.power else 0) + powerOfSome vs os
  | _, _ => 0

theorem powerOfSome_bounds (vals : List Val) (os : List (Option Vote)) (hp : ∀ v ∈ vals, 0 ≤ v.power) :
    0 ≤ powerOfSome vals os ∧ powerOfSome vals os ≤ sumPowers vals := by
  induction vals generalizing os with
  | nil => cases os <;> simp [powerOfSome, sumPowers]
  | cons v vs ih =>
    have hv := hp v List.mem_cons_self
    have hp' : ∀ w ∈ vs, 0 ≤ w.power := fun w hw => hp w (List.mem_cons_of_mem _ hw)
    have hs := sumPowers_nonneg vs hp'
    rw [sumPowers_cons]
    cases os with
    | nil => simp only [powerOfSome]; omega
    | cons o os =>
      have := ih os hp'
      simp only [powerOfSome]; split <;> omega

theorem powerOfSome_replicate (vals : List Val) (n : Nat) : powerOfSome vals (List.replicate n none) = 0 := by
  induction vals generalizing n with
  | nil => cases n <;> simp [powerOfSome, List.replicate]
  | cons v vs ih =>
    cases n with
    | zero => simp [powerOfSome]
    | succ n => simp [powerOfSome, List.replicate, ih n]

/-- the tally only depends on WHICH slots are filled -/
theorem powerOfSome_congr (vals : List Val) (os os' : List (Option Vote))
    (h : os.map Option.isSome = os'.map Option.isSome) : powerOfSome vals os = powerOfSome vals os' := by
  induction vals generalizing os os' with
  | nil => cases os <;> cases os' <;> simp [powerOfSome]
  | cons v vs ih =>
    cases os with
    | nil => cases os' with
      | nil => rfl
      | cons _ _ => simp at h
    | cons o os => cases os' with
      | nil => simp at h
      | cons o' os' =>
        simp only [List.map_cons, List.cons.injEq] at h
        simp only [powerOfSome, h.1, ih os os' h.2]

/-- filling an empty slot adds exactly that validator's power -/
theorem powerOfSome_set_none (vals : List Val) (os : List (Option Vote)) (i : Nat) (x : Vote) (val : Val)
    (hv : vals[i]? = some val) (ho : os[i]? = some none) :
    powerOfSome vals (os.set i (some x)) = powerOfSome vals os + val.power := by
  induction vals generalizing os i with
  | nil => simp at hv
  | cons w vs ih =>
    cases os with
    | nil => simp at ho
    | cons o os =>
      cases i with
      | zero =>
        simp only [List.getElem?_cons_zero, Option.some.injEq] at hv ho
        subst hv; subst ho
        simp [powerOfSome]; omega
      | succ i =>
        simp only [List.getElem?_cons_succ] at hv ho
        simp only [List.set_cons_succ, powerOfSome, ih os i hv ho]; omega

/-- overwriting a filled slot changes no tally -/
theorem map_isSome_set_some (os : List (Option Vote)) (i : Nat) (x y : Vote) (ho : os[i]? = some (some y)) :
    (os.set i (some x)).map Option.isSome = os.map Option.isSome := by
  induction os generalizing i with
  | nil => simp
  | cons o os ih =>
    cases i with
    | zero => simp only [List.getElem?_cons_zero, Option.some.injEq] at ho; subst ho; simp
    | succ i => simp only [List.getElem?_cons_succ] at ho; simp [ih i ho]

theorem map_isSome_set (os : List (Option Vote)) (i : Nat) (x : Vote) :
    (os.set i (some x)).map Option.isSome = (os.map Option.isSome).set i true := by
  simp [List.map_set]

/-! ### overlay -/

theorem overlay_length (a b : List (Option Vote)) (h : a.length = b.length) : (overlay a b).length = a.length := by
  induction a generalizing b with
  | nil => cases b <;> simp [overlay]
  | cons x xs ih =>
    cases b with
    | nil => simp at h
    | cons y ys => simp only [overlay, List.length_cons]; rw [ih ys (by simpa using h)]

theorem overlay_get (a b : List (Option Vote)) (h : a.length = b.length) (i : Nat) :
    (overlay a b)[i]? = match b[i]? with | some (some x) => some (some x) | _ => a[i]? := by
  induction a generalizing b i with
  | nil => cases b with
    | nil => simp [overlay]
    | cons _ _ => simp at h
  | cons x xs ih =>
    cases b with
    | nil => simp at h
    | cons y ys =>
      cases i with
      | zero => cases y <;> simp [overlay]
      | succ i => simp only [overlay, List.getElem?_cons_succ]; exact ih ys (by simpa using h) i

theorem overlay_isSome (a b : List (Option Vote)) (h : a.length = b.length)
    (hsub : ∀ (i : Nat) (x : Vote), b[i]? = some (some x) → ∃ w, a[i]? = some (some w)) :
    (overlay a b).map Option.isSome = a.map Option.isSome := by
  induction a generalizing b with
  | nil => cases b <;> simp [overlay]
  | cons x xs ih =>
    cases b with
    | nil => simp at h
    | cons y ys =>
      have h0 := hsub 0
      have hrest : ∀ (i : Nat) (z : Vote), ys[i]? = some (some z) → ∃ w, xs[i]? = some (some w) := fun i z hz => by
        have := hsub (i + 1) z; simpa using this hz
      simp only [overlay, List.map_cons, ih ys (by simpa using h) hrest, List.cons.injEq, and_true]
      cases y with
      | none => rfl
      | some z =>
        obtain ⟨w, hw⟩ := h0 z (by simp)
        simp only [List.getElem?_cons_zero, Option.some.injEq] at hw
        subst hw; rfl

/-! ### The invariant -/

/-- `v` is a fully checked vote of validator `i` for this vote set: filed under its own index, right address, the set's
height, round and type, and a signature that verifies under the key of validator `i` over exactly this vote -/
def ValidAt (verify : Verify) (s : VS) (i : Nat) (v : Vote) : Prop :=
  v.idx = (i : Int) ∧ v.height = s.height ∧ v.round = s.round ∧ v.type = s.type ∧
  ∃ val, s.vals[i]? = some val ∧ v.addr = val.addr ∧ verify val.key (msgOf s.chain v) v.sig = true

/-- invariant of one `votesByBlock` entry (key `k`) -/
structure BVInv (verify : Verify) (s : VS) (k : BlockID) (bv : BlockVotes) : Prop where
  len : bv.votes.length = s.vals.length
  bits : bv.bits = bv.votes.map Option.isSome
  sum : bv.sum = powerOfSome s.vals bv.votes
  recorded : ∀ (i : Nat) (v : Vote), bv.votes[i]? = some (some v) →
    v.bid = k ∧ ValidAt verify s i v ∧ ∃ w, s.votes[i]? = some (some w)

/-- THE VOTE-SET INVARIANT: every tally is the power of the distinct validators with a recorded vote; every recorded
vote is fully checked and filed under its own index (and block id); the bit arrays mirror the vote slices; a reported
majority block has reached the quorum and its voters' canonical votes are for that block -/
structure VoteSetInv (verify : Verify) (s : VS) : Prop where
  lenV : s.votes.length = s.vals.length
  bitsV : s.bits = s.votes.map Option.isSome
  sumV : s.sum = powerOfSome s.vals s.votes
  validV : ∀ (i : Nat) (v : Vote), s.votes[i]? = some (some v) → ValidAt verify s i v
  blocks : ∀ (k : BlockID) (bv : BlockVotes), (k, bv) ∈ s.byBlock → BVInv verify s k bv
  maj : ∀ b, s.maj23 = some b → ∃ bv, lookup s.byBlock b = some bv ∧ quorum (totalPower s.vals) ≤ bv.sum ∧
    ∀ (i : Nat) (x : Vote), bv.votes[i]? = some (some x) → ∃ w, s.votes[i]? = some (some w) ∧ w.bid = b

/-- the fields that no operation changes -/
def SameCfg (s s' : VS) : Prop :=
  s'.vals = s.vals ∧ s'.height = s.height ∧ s'.round = s.round ∧ s'.type = s.type ∧ s'.chain = s.chain

theorem ValidAt_frame (verify : Verify) (s s' : VS) (h : SameCfg s s') (i : Nat) (v : Vote)
    (hv : ValidAt verify s i v) : ValidAt verify s' i v := by
  obtain ⟨h1, h2, h3, h4, h5⟩ := h
  unfold ValidAt at hv ⊢
  rw [h1, h2, h3, h4, h5]; exact hv

theorem BVInv_frame (verify : Verify) (s s' : VS) (h : SameCfg s s')
    (hvotes : ∀ (i : Nat) (w : Vote), s.votes[i]? = some (some w) → ∃ w', s'.votes[i]? = some (some w'))
    (k : BlockID) (bv : BlockVotes) (hb : BVInv verify s k bv) : BVInv verify s' k bv := by
  refine ⟨by rw [h.1]; exact hb.len, hb.bits, by rw [h.1]; exact hb.sum, ?_⟩
  intro i v hv
  obtain ⟨e, hval, w, hw⟩ := hb.recorded i v hv
  exact ⟨e, ValidAt_frame verify s s' h i v hval, hvotes i w hw⟩

theorem lookup_mem (bb : List (BlockID × BlockVotes)) (k : BlockID) (bv : BlockVotes) (h : lookup bb k = some bv) :
    (k, bv) ∈ bb := by
  induction bb with
  | nil => simp [lookup] at h
  | cons e rest ih =>
    obtain ⟨k', bv'⟩ := e
    simp only [lookup] at h
    split at h
    · rename_i hk; simp only [Option.some.injEq] at h; subst h; subst hk; exact List.mem_cons_self
    · exact List.mem_cons_of_mem _ (ih h)

theorem mem_upsert (bb : List (BlockID × BlockVotes)) (k : BlockID) (x : BlockVotes) (e : BlockID × BlockVotes)
    (h : e ∈ upsert bb k x) : e = (k, x) ∨ e ∈ bb := by
  induction bb with
  | nil => simp [upsert] at h; exact Or.inl h
  | cons f rest ih =>
    obtain ⟨k', bv'⟩ := f
    simp only [upsert] at h
    split at h
    · rcases List.mem_cons.1 h with h | h
      · exact Or.inl h
      · exact Or.inr (List.mem_cons_of_mem _ h)
    · rcases List.mem_cons.1 h with h | h
      · exact Or.inr (h ▸ List.mem_cons_self)
      · rcases ih h with h | h
        · exact Or.inl h
        · exact Or.inr (List.mem_cons_of_mem _ h)

theorem lookup_upsert_ne (bb : List (BlockID × BlockVotes)) (k b : BlockID) (x : BlockVotes) (hne : k ≠ b) :
    lookup (upsert bb k x) b = lookup bb b := by
  induction bb with
  | nil => simp [upsert, lookup, hne]
  | cons f rest ih =>
    obtain ⟨k', bv'⟩ := f
    simp only [upsert]
    split
    · rename_i hk; subst hk; simp [lookup, hne]
    · simp only [lookup, ih]

/-! ### `addVerifiedVote` taken apart -/

/-- first vote of validator `i`: fill the slot, add the power to the round total -/
def fillSlot (s : VS) (i : Nat) (v : Vote) (p : Int) : VS :=
  { s with votes := s.votes.set i (some v), bits := s.bits.set i true, sum := wrapI64 (s.sum + p) }

/-- conflicting vote for the decided block: it becomes the validator's canonical vote -/
def replaceSlot (s : VS) (i : Nat) (v : Vote) : VS :=
  { s with votes := s.votes.set i (some v), bits := s.bits.set i true }

/-- the three outcomes of the first half of `addVerifiedVote` -/
def Stage1 (s : VS) (v : Vote) (i : Nat) (p : Int) (s1 : VS) (conf : Option Vote) : Prop :=
  (s.votes[i]?.getD none = none ∧ s1 = fillSlot s i v p ∧ conf = none) ∨
  (∃ ex, s.votes[i]?.getD none = some ex ∧ ex.bid ≠ v.bid ∧ conf = some ex ∧
     ((s.maj23 = some v.bid ∧ s1 = replaceSlot s i v) ∨ (s.maj23 ≠ some v.bid ∧ s1 = s)))

theorem addVerifiedVote_decompose (s s' : VS) (v : Vote) (i : Nat) (p : Int) (a : Bool) (c : Option Vote)
    (h : addVerifiedVote s v i p = some (s', a, c)) :
    ∃ s1 conf, Stage1 s v i p s1 conf ∧ c = conf ∧
      ((s' = s1 ∧ a = false ∧ conf.isSome = true) ∨
       (∃ bv, (lookup s1.byBlock v.bid = some bv ∨
               (lookup s1.byBlock v.bid = none ∧ conf = none ∧ bv = newBlockVotes false s.vals.length)) ∧
              s' = tally s1 v i p bv ∧ a = true)) := by
  unfold addVerifiedVote at h
  simp only [List.getD_eq_getElem?_getD] at h
  split at h
  · cases h
  · rename_i s1 conf hst
    have hS : Stage1 s v i p s1 conf := by
      split at hst
      · rename_i ex hex
        split at hst
        · cases hst
        · rename_i hne
          split at hst
          · rename_i hm
            simp only [Option.some.injEq, Prod.mk.injEq] at hst
            exact Or.inr ⟨ex, hex, hne, hst.2.symm, Or.inl ⟨hm, hst.1.symm⟩⟩
          · rename_i hm
            simp only [Option.some.injEq, Prod.mk.injEq] at hst
            exact Or.inr ⟨ex, hex, hne, hst.2.symm, Or.inr ⟨hm, hst.1.symm⟩⟩
      · rename_i hex
        simp only [Option.some.injEq, Prod.mk.injEq] at hst
        exact Or.inl ⟨hex, hst.1.symm, hst.2.symm⟩
    refine ⟨s1, conf, hS, ?_⟩
    split at h
    · rename_i bv hl
      split at h
      · rename_i hc
        simp only [Option.some.injEq, Prod.mk.injEq] at h
        simp only [Bool.and_eq_true] at hc
        exact ⟨h.2.2.symm, Or.inl ⟨h.1.symm, h.2.1.symm, hc.1⟩⟩
      · simp only [Option.some.injEq, Prod.mk.injEq] at h
        exact ⟨h.2.2.symm, Or.inr ⟨bv, Or.inl hl, h.1.symm, h.2.1.symm⟩⟩
    · rename_i hl
      split at h
      · rename_i hc
        simp only [Option.some.injEq, Prod.mk.injEq] at h
        exact ⟨h.2.2.symm, Or.inl ⟨h.1.symm, h.2.1.symm, hc⟩⟩
      · rename_i hc
        simp only [Option.some.injEq, Prod.mk.injEq] at h
        have hcn : conf = none := by cases conf <;> simp_all
        exact ⟨h.2.2.symm, Or.inr ⟨_, Or.inr ⟨hl, hcn, rfl⟩, h.1.symm, h.2.1.symm⟩⟩

theorem get_set_some (os : List (Option Vote)) (i j : Nat) (x : Vote) (hi : i < os.length) :
    (os.set i (some x))[j]? = if i = j then some (some x) else os[j]? := by
  simp [List.getElem?_set, hi]

theorem slot_lt (verify : Verify) (s : VS) (hI : VoteSetInv verify s) (i : Nat) (val : Val) (hval : s.vals[i]? = some val) :
    i < s.votes.length := by
  rw [hI.lenV]
  exact (List.getElem?_eq_some_iff.1 hval).1

/-- what the second half of `addVerifiedVote` needs from the first -/
structure Stage1Post (verify : Verify) (s s1 : VS) (v : Vote) (i : Nat) : Prop where
  inv : VoteSetInv verify s1
  cfg : SameCfg s s1
  maj : s1.maj23 = s.maj23
  bb : s1.byBlock = s.byBlock
  filled : ∃ w, s1.votes[i]? = some (some w)
  decided : s1.maj23 = some v.bid → s1.votes[i]? = some (some v)

theorem fillSlot_inv (verify : Verify) (s : VS) (v : Vote) (i : Nat) (val : Val)
    (hno : NoOverflow s.vals) (hI : VoteSetInv verify s) (hval : s.vals[i]? = some val) (hv : ValidAt verify s i v)
    (hnone : s.votes[i]?.getD none = none) : Stage1Post verify s (fillSlot s i v val.power) v i := by
  have hi := slot_lt verify s hI i val hval
  have hcfg : SameCfg s (fillSlot s i v val.power) := ⟨rfl, rfl, rfl, rfl, rfl⟩
  have hslot : s.votes[i]? = some none := by
    have := List.getElem?_eq_getElem hi
    rw [this] at hnone ⊢
    simp only [Option.getD_some] at hnone
    rw [hnone]
  have hget := fun j => get_set_some s.votes i j v hi
  have hkeep : ∀ (j : Nat) (w : Vote), s.votes[j]? = some (some w) → ∃ w', (fillSlot s i v val.power).votes[j]? = some (some w') := by
    intro j w hw
    show ∃ w', (s.votes.set i (some v))[j]? = some (some w')
    rw [hget j]; split
    · exact ⟨v, rfl⟩
    · exact ⟨w, hw⟩
  have hpow := powerOfSome_set_none s.vals s.votes i v val hval hslot
  have hb := powerOfSome_bounds s.vals (s.votes.set i (some v)) hno.1
  have hb0 := powerOfSome_bounds s.vals s.votes hno.1
  refine ⟨⟨?_, ?_, ?_, ?_, ?_, ?_⟩, hcfg, rfl, rfl, ⟨v, ?_⟩, fun _ => ?_⟩
  · show (s.votes.set i (some v)).length = s.vals.length
    rw [List.length_set]; exact hI.lenV
  · show s.bits.set i true = (s.votes.set i (some v)).map Option.isSome
    rw [map_isSome_set, hI.bitsV]
  · show wrapI64 (s.sum + val.power) = powerOfSome s.vals (s.votes.set i (some v))
    have h2 := hno.2
    have hp := hno.1 val (List.mem_of_getElem? hval)
    rw [hpow, ← hI.sumV] at hb ⊢
    rw [← hI.sumV] at hb0
    unfold two62 at h2; unfold wrapI64; omega
  · intro j w hw
    have hw' : (s.votes.set i (some v))[j]? = some (some w) := hw
    rw [hget j] at hw'
    apply ValidAt_frame verify s _ hcfg
    split at hw'
    · rename_i hij; subst hij
      simp only [Option.some.injEq] at hw'; subst hw'; exact hv
    · exact hI.validV j w hw'
  · intro k bv hm
    exact BVInv_frame verify s _ hcfg hkeep k bv (hI.blocks k bv hm)
  · intro b hb'
    obtain ⟨bv, hl, hq, hvotes⟩ := hI.maj b hb'
    refine ⟨bv, hl, hq, ?_⟩
    intro j x hx
    obtain ⟨w, hw, hwb⟩ := hvotes j x hx
    show ∃ w, (s.votes.set i (some v))[j]? = some (some w) ∧ w.bid = b
    rw [hget j]; split
    · rename_i hij; subst hij; rw [hslot] at hw; cases hw
    · exact ⟨w, hw, hwb⟩
  · show (s.votes.set i (some v))[i]? = some (some v)
    rw [hget i]; simp
  · show (s.votes.set i (some v))[i]? = some (some v)
    rw [hget i]; simp

theorem replaceSlot_inv (verify : Verify) (s : VS) (v ex : Vote) (i : Nat) (val : Val)
    (hno : NoOverflow s.vals) (hI : VoteSetInv verify s) (hval : s.vals[i]? = some val) (hv : ValidAt verify s i v)
    (hex : s.votes[i]?.getD none = some ex) (hm : s.maj23 = some v.bid) : Stage1Post verify s (replaceSlot s i v) v i := by
  have hi := slot_lt verify s hI i val hval
  have hcfg : SameCfg s (replaceSlot s i v) := ⟨rfl, rfl, rfl, rfl, rfl⟩
  have hslot : s.votes[i]? = some (some ex) := by
    have := List.getElem?_eq_getElem hi
    rw [this] at hex ⊢
    simp only [Option.getD_some] at hex
    rw [hex]
  have hget := fun j => get_set_some s.votes i j v hi
  have hkeep : ∀ (j : Nat) (w : Vote), s.votes[j]? = some (some w) → ∃ w', (replaceSlot s i v).votes[j]? = some (some w') := by
    intro j w hw
    show ∃ w', (s.votes.set i (some v))[j]? = some (some w')
    rw [hget j]; split
    · exact ⟨v, rfl⟩
    · exact ⟨w, hw⟩
  have hsome := map_isSome_set_some s.votes i v ex hslot
  refine ⟨⟨?_, ?_, ?_, ?_, ?_, ?_⟩, hcfg, rfl, rfl, ⟨v, ?_⟩, fun _ => ?_⟩
  · show (s.votes.set i (some v)).length = s.vals.length
    rw [List.length_set]; exact hI.lenV
  · show s.bits.set i true = (s.votes.set i (some v)).map Option.isSome
    rw [map_isSome_set, hI.bitsV]
  · show s.sum = powerOfSome s.vals (s.votes.set i (some v))
    rw [powerOfSome_congr s.vals _ _ hsome]; exact hI.sumV
  · intro j w hw
    have hw' : (s.votes.set i (some v))[j]? = some (some w) := hw
    rw [hget j] at hw'
    apply ValidAt_frame verify s _ hcfg
    split at hw'
    · rename_i hij; subst hij
      simp only [Option.some.injEq] at hw'; subst hw'; exact hv
    · exact hI.validV j w hw'
  · intro k bv hmem
    exact BVInv_frame verify s _ hcfg hkeep k bv (hI.blocks k bv hmem)
  · intro b hb'
    have hbv : b = v.bid := by
      have : s.maj23 = some b := hb'
      rw [hm] at this; exact (Option.some.inj this).symm
    obtain ⟨bv, hl, hq, hvotes⟩ := hI.maj b hb'
    refine ⟨bv, hl, hq, ?_⟩
    intro j x hx
    obtain ⟨w, hw, hwb⟩ := hvotes j x hx
    show ∃ w, (s.votes.set i (some v))[j]? = some (some w) ∧ w.bid = b
    rw [hget j]; split
    · exact ⟨v, rfl, hbv.symm⟩
    · exact ⟨w, hw, hwb⟩
  · show (s.votes.set i (some v))[i]? = some (some v)
    rw [hget i]; simp
  · show (s.votes.set i (some v))[i]? = some (some v)
    rw [hget i]; simp

theorem stage1_inv (verify : Verify) (s s1 : VS) (v : Vote) (i : Nat) (val : Val) (conf : Option Vote)
    (hno : NoOverflow s.vals) (hI : VoteSetInv verify s) (hval : s.vals[i]? = some val) (hv : ValidAt verify s i v)
    (hS : Stage1 s v i val.power s1 conf) : Stage1Post verify s s1 v i := by
  rcases hS with ⟨hnone, rfl, _⟩ | ⟨ex, hex, _, _, ⟨hm, rfl⟩ | ⟨hm, rfl⟩⟩
  · exact fillSlot_inv verify s v i val hno hI hval hv hnone
  · exact replaceSlot_inv verify s v ex i val hno hI hval hv hex hm
  · have hi := slot_lt verify s1 hI i val hval
    refine ⟨hI, ⟨rfl, rfl, rfl, rfl, rfl⟩, rfl, rfl, ⟨ex, ?_⟩, fun h => absurd h hm⟩
    have := List.getElem?_eq_getElem hi
    rw [this] at hex ⊢
    simp only [Option.getD_some] at hex
    rw [hex]

/-! ### the second half: the block's tally and the quorum crossing -/

theorem newBlockVotes_inv (verify : Verify) (s : VS) (k : BlockID) (pm : Bool) : BVInv verify s k (newBlockVotes pm s.vals.length) := by
  refine ⟨by simp [newBlockVotes], by simp [newBlockVotes], by simp [newBlockVotes, powerOfSome_replicate], ?_⟩
  intro i v hv
  simp [newBlockVotes, List.getElem?_replicate] at hv

/-- `blockVotes.addVerifiedVote` keeps the entry's invariant, never lowers its tally, and records at most the new vote -/
theorem bvAdd_inv (verify : Verify) (s : VS) (v : Vote) (i : Nat) (val : Val) (bv : BlockVotes)
    (hno : NoOverflow s.vals) (hval : s.vals[i]? = some val) (hv : ValidAt verify s i v)
    (hfilled : ∃ w, s.votes[i]? = some (some w)) (hb : BVInv verify s v.bid bv) :
    BVInv verify s v.bid (bv.add v i val.power) ∧ bv.sum ≤ (bv.add v i val.power).sum ∧
    (bv.add v i val.power).peerMaj23 = bv.peerMaj23 ∧
    ∀ (j : Nat) (x : Vote), (bv.add v i val.power).votes[j]? = some (some x) → (j = i ∧ x = v) ∨ bv.votes[j]? = some (some x) := by
  unfold BlockVotes.add
  simp only [List.getD_eq_getElem?_getD]
  split
  · exact ⟨hb, Int.le_refl _, rfl, fun j x hx => Or.inr hx⟩
  · rename_i hnone
    have hi : i < bv.votes.length := by rw [hb.len]; exact (List.getElem?_eq_some_iff.1 hval).1
    have hslot : bv.votes[i]? = some none := by
      have := List.getElem?_eq_getElem hi
      rw [this] at hnone ⊢
      simp only [Option.getD_some] at hnone
      rw [hnone]
    have hget := fun j => get_set_some bv.votes i j v hi
    have hpow := powerOfSome_set_none s.vals bv.votes i v val hval hslot
    have hbd := powerOfSome_bounds s.vals (bv.votes.set i (some v)) hno.1
    have hbd0 := powerOfSome_bounds s.vals bv.votes hno.1
    have hp := hno.1 val (List.mem_of_getElem? hval)
    have h2 := hno.2
    have hw : wrapI64 (bv.sum + val.power) = bv.sum + val.power := by
      rw [hpow, ← hb.sum] at hbd
      rw [← hb.sum] at hbd0
      unfold two62 at h2; unfold wrapI64; omega
    refine ⟨⟨?_, ?_, ?_, ?_⟩, ?_, rfl, ?_⟩
    · show (bv.votes.set i (some v)).length = s.vals.length
      rw [List.length_set]; exact hb.len
    · show bv.bits.set i true = (bv.votes.set i (some v)).map Option.isSome
      rw [map_isSome_set, hb.bits]
    · show wrapI64 (bv.sum + val.power) = powerOfSome s.vals (bv.votes.set i (some v))
      rw [hw, hpow, hb.sum]
    · intro j x hx
      have hx' : (bv.votes.set i (some v))[j]? = some (some x) := hx
      rw [hget j] at hx'
      split at hx'
      · rename_i hij; subst hij
        simp only [Option.some.injEq] at hx'; subst hx'
        exact ⟨rfl, hv, hfilled⟩
      · exact hb.recorded j x hx'
    · show bv.sum ≤ wrapI64 (bv.sum + val.power)
      rw [hw]; omega
    · intro j x hx
      have hx' : (bv.votes.set i (some v))[j]? = some (some x) := hx
      rw [hget j] at hx'
      split at hx'
      · rename_i hij; subst hij
        simp only [Option.some.injEq] at hx'; subst hx'
        exact Or.inl ⟨rfl, rfl⟩
      · exact Or.inr hx'

/-- `votesByBlock[k] = bv'` -/
def withBlock (s : VS) (k : BlockID) (bv' : BlockVotes) : VS := { s with byBlock := upsert s.byBlock k bv' }

/-- the first quorum: remember the block id and copy its votes over the canonical ones -/
def decideOn (s : VS) (b : BlockID) (bvv : List (Option Vote)) : VS := { s with maj23 := some b, votes := overlay s.votes bvv }

theorem tally_eq (s : VS) (v : Vote) (i : Nat) (p : Int) (bv : BlockVotes) :
    tally s v i p bv =
      if (crossedQuorum bv.sum (quorum (totalPower s.vals)) (bv.add v i p).sum && s.maj23.isNone) = true
      then decideOn (withBlock s v.bid (bv.add v i p)) v.bid (bv.add v i p).votes
      else withBlock s v.bid (bv.add v i p) := by
  unfold tally withBlock decideOn
  simp only

/-- storing the updated entry of the vote's block keeps the invariant -/
theorem withBlock_inv (verify : Verify) (s : VS) (k : BlockID) (bv bv' : BlockVotes)
    (hI : VoteSetInv verify s) (hb' : BVInv verify s k bv')
    (hold : lookup s.byBlock k = some bv ∨ (lookup s.byBlock k = none ∧ s.maj23 ≠ some k))
    (hmono : bv.sum ≤ bv'.sum)
    (hnew : s.maj23 = some k → ∀ (j : Nat) (x : Vote), bv'.votes[j]? = some (some x) → ∃ w, s.votes[j]? = some (some w) ∧ w.bid = k) :
    VoteSetInv verify (withBlock s k bv') := by
  have hcfg : SameCfg s (withBlock s k bv') := ⟨rfl, rfl, rfl, rfl, rfl⟩
  refine ⟨hI.lenV, hI.bitsV, hI.sumV, fun j w hw => ValidAt_frame verify s _ hcfg j w (hI.validV j w hw), ?_, ?_⟩
  · intro k' bv'' hm
    have hm' : (k', bv'') ∈ upsert s.byBlock k bv' := hm
    rcases mem_upsert _ _ _ _ hm' with h | h
    · simp only [Prod.mk.injEq] at h
      rw [h.1, h.2]
      exact BVInv_frame verify s _ hcfg (fun j w hw => ⟨w, hw⟩) k bv' hb'
    · exact BVInv_frame verify s _ hcfg (fun j w hw => ⟨w, hw⟩) k' bv'' (hI.blocks k' bv'' h)
  · intro b hb
    have hb0 : s.maj23 = some b := hb
    obtain ⟨bv0, hl, hq, hvotes⟩ := hI.maj b hb0
    show ∃ bvx, lookup (upsert s.byBlock k bv') b = some bvx ∧ quorum (totalPower s.vals) ≤ bvx.sum ∧
      ∀ (j : Nat) (x : Vote), bvx.votes[j]? = some (some x) → ∃ w, s.votes[j]? = some (some w) ∧ w.bid = b
    by_cases hkb : k = b
    · subst hkb
      rw [lookup_upsert_self]
      rcases hold with hold | hold
      · rw [hold] at hl
        simp only [Option.some.injEq] at hl; subst hl
        exact ⟨bv', rfl, by omega, hnew hb0⟩
      · exact absurd hb0 hold.2
    · rw [lookup_upsert_ne _ _ _ _ hkb]
      exact ⟨bv0, hl, hq, hvotes⟩

/-- the first quorum crossing keeps the invariant: the copied votes are checked votes for the decided block -/
theorem decideOn_inv (verify : Verify) (s : VS) (b : BlockID) (bv' : BlockVotes) (hno : NoOverflow s.vals)
    (hI : VoteSetInv verify s) (hl : lookup s.byBlock b = some bv') (hq : quorum (totalPower s.vals) ≤ bv'.sum) :
    VoteSetInv verify (decideOn s b bv'.votes) := by
  have hcfg : SameCfg s (decideOn s b bv'.votes) := ⟨rfl, rfl, rfl, rfl, rfl⟩
  have hb := hI.blocks b bv' (lookup_mem _ _ _ hl)
  have hlen : s.votes.length = bv'.votes.length := by rw [hI.lenV, hb.len]
  have hsub : ∀ (j : Nat) (x : Vote), bv'.votes[j]? = some (some x) → ∃ w, s.votes[j]? = some (some w) :=
    fun j x hx => (hb.recorded j x hx).2.2
  have hiso := overlay_isSome s.votes bv'.votes hlen hsub
  have hget := overlay_get s.votes bv'.votes hlen
  have hkeep : ∀ (j : Nat) (w : Vote), s.votes[j]? = some (some w) → ∃ w', (decideOn s b bv'.votes).votes[j]? = some (some w') := by
    intro j w hw
    show ∃ w', (overlay s.votes bv'.votes)[j]? = some (some w')
    rw [hget j]; split
    · exact ⟨_, rfl⟩
    · exact ⟨w, hw⟩
  refine ⟨?_, ?_, ?_, ?_, ?_, ?_⟩
  · show (overlay s.votes bv'.votes).length = s.vals.length
    rw [overlay_length _ _ hlen]; exact hI.lenV
  · show s.bits = (overlay s.votes bv'.votes).map Option.isSome
    rw [hiso]; exact hI.bitsV
  · show s.sum = powerOfSome s.vals (overlay s.votes bv'.votes)
    rw [powerOfSome_congr s.vals _ _ hiso]; exact hI.sumV
  · intro j w hw
    have hw' : (overlay s.votes bv'.votes)[j]? = some (some w) := hw
    rw [hget j] at hw'
    apply ValidAt_frame verify s _ hcfg
    split at hw'
    · rename_i x hx
      simp only [Option.some.injEq] at hw'; subst hw'
      exact (hb.recorded j x hx).2.1
    · exact hI.validV j w hw'
  · intro k bv hm
    exact BVInv_frame verify s _ hcfg hkeep k bv (hI.blocks k bv hm)
  · intro b' hb'
    have : b = b' := Option.some.inj hb'
    subst this
    refine ⟨bv', hl, hq, ?_⟩
    intro j x hx
    show ∃ w, (overlay s.votes bv'.votes)[j]? = some (some w) ∧ w.bid = b
    rw [hget j, hx]
    exact ⟨x, rfl, (hb.recorded j x hx).1⟩

/-- the second half of `addVerifiedVote` keeps the invariant -/
theorem tally_inv (verify : Verify) (s : VS) (v : Vote) (i : Nat) (val : Val) (bv : BlockVotes)
    (hno : NoOverflow s.vals) (hI : VoteSetInv verify s) (hval : s.vals[i]? = some val) (hv : ValidAt verify s i v)
    (hfilled : ∃ w, s.votes[i]? = some (some w)) (hdec : s.maj23 = some v.bid → s.votes[i]? = some (some v))
    (hbv : lookup s.byBlock v.bid = some bv ∨ (lookup s.byBlock v.bid = none ∧ bv = newBlockVotes false s.vals.length)) :
    VoteSetInv verify (tally s v i val.power bv) := by
  have hb : BVInv verify s v.bid bv := by
    rcases hbv with h | ⟨_, h⟩
    · exact hI.blocks _ _ (lookup_mem _ _ _ h)
    · rw [h]; exact newBlockVotes_inv verify s v.bid false
  obtain ⟨hb', hmono, _, hrec⟩ := bvAdd_inv verify s v i val bv hno hval hv hfilled hb
  have hold : lookup s.byBlock v.bid = some bv ∨ (lookup s.byBlock v.bid = none ∧ s.maj23 ≠ some v.bid) := by
    rcases hbv with h | ⟨h, _⟩
    · exact Or.inl h
    · refine Or.inr ⟨h, fun hm => ?_⟩
      obtain ⟨bv0, hl0, _⟩ := hI.maj _ hm
      rw [h] at hl0; cases hl0
  have hnew : s.maj23 = some v.bid → ∀ (j : Nat) (x : Vote), (bv.add v i val.power).votes[j]? = some (some x) →
      ∃ w, s.votes[j]? = some (some w) ∧ w.bid = v.bid := by
    intro hm j x hx
    rcases hrec j x hx with ⟨hj, _⟩ | hx'
    · subst hj; exact ⟨v, hdec hm, rfl⟩
    · obtain ⟨bv0, hl0, _, hvotes⟩ := hI.maj _ hm
      rcases hbv with h | ⟨h, _⟩
      · rw [h] at hl0; simp only [Option.some.injEq] at hl0; subst hl0
        exact hvotes j x hx'
      · rw [h] at hl0; cases hl0
  have hI2 := withBlock_inv verify s v.bid bv (bv.add v i val.power) hI hb' hold hmono hnew
  rw [tally_eq]
  split
  · rename_i hc
    simp only [Bool.and_eq_true, crossedQuorum_iff] at hc
    exact decideOn_inv verify (withBlock s v.bid (bv.add v i val.power)) v.bid (bv.add v i val.power) hno hI2
      (lookup_upsert_self _ _ _) hc.1.2
  · exact hI2

/-- `addVerifiedVote` keeps the invariant -/
theorem addVerifiedVote_inv (verify : Verify) (s s' : VS) (v : Vote) (i : Nat) (val : Val) (a : Bool) (c : Option Vote)
    (hno : NoOverflow s.vals) (hI : VoteSetInv verify s) (hval : s.vals[i]? = some val) (hv : ValidAt verify s i v)
    (h : addVerifiedVote s v i val.power = some (s', a, c)) : VoteSetInv verify s' := by
  obtain ⟨s1, conf, hS, _, hrest⟩ := addVerifiedVote_decompose s s' v i val.power a c h
  have hP := stage1_inv verify s s1 v i val conf hno hI hval hv hS
  rcases hrest with ⟨rfl, _, _⟩ | ⟨bv, hbv, rfl, _⟩
  · exact hP.inv
  · have hvals : s1.vals = s.vals := hP.cfg.1
    apply tally_inv verify s1 v i val bv (by rw [hvals]; exact hno) hP.inv (by rw [hvals]; exact hval)
      (ValidAt_frame verify s s1 hP.cfg i v hv) hP.filled hP.decided
    rcases hbv with h | ⟨h, _, h'⟩
    · exact Or.inl h
    · exact Or.inr ⟨h, by rw [hvals]; exact h'⟩

/-- `addVote` keeps the invariant (whatever the vote) -/
theorem addVote_inv (verify : Verify) (s : VS) (v : Vote) (r : AddRes) (hno : NoOverflow s.vals)
    (hI : VoteSetInv verify s) (h : addVote verify s v = some r) : VoteSetInv verify r.st := by
  rcases addVote_cases verify s v r h with h1 | ⟨i, val, a, c, hval, hi, haddr, hh, hr, ht, hver, _, havv, _⟩
  · rw [h1.1]; exact hI
  · exact addVerifiedVote_inv verify s r.st v i val a c hno hI hval ⟨hi.symm, hh, hr, ht, val, hval, haddr, hver⟩ havv

theorem inv_peers (verify : Verify) (s : VS) (p : List (List UInt8 × BlockID)) (hI : VoteSetInv verify s) :
    VoteSetInv verify { s with peers := p } :=
  ⟨hI.lenV, hI.bitsV, hI.sumV, hI.validV,
   fun k bv hm => BVInv_frame verify s { s with peers := p } ⟨rfl, rfl, rfl, rfl, rfl⟩ (fun j w hw => ⟨w, hw⟩) k bv (hI.blocks k bv hm), hI.maj⟩

/-- `SetPeerMaj23` keeps the invariant -/
theorem setPeerMaj23_inv (verify : Verify) (s : VS) (peer : List UInt8) (bid : BlockID)
    (hI : VoteSetInv verify s) : VoteSetInv verify (setPeerMaj23 s peer bid).1 := by
  unfold setPeerMaj23
  split
  · exact hI
  · simp only
    split
    · rename_i bv hl
      have hl' : lookup s.byBlock bid = some bv := hl
      split
      · exact inv_peers verify s _ hI
      · have hb := hI.blocks bid bv (lookup_mem _ _ _ hl')
        have := withBlock_inv verify s bid bv { bv with peerMaj23 := true } hI ⟨hb.len, hb.bits, hb.sum, hb.recorded⟩
          (Or.inl hl') (Int.le_refl _) (fun hm j x hx => by
            obtain ⟨bv0, hl0, _, hvotes⟩ := hI.maj _ hm
            rw [hl'] at hl0; simp only [Option.some.injEq] at hl0; subst hl0
            exact hvotes j x hx)
        exact inv_peers verify _ _ this
    · rename_i hl
      have hl' : lookup s.byBlock bid = none := hl
      have hne : s.maj23 ≠ some bid := fun hm => by
        obtain ⟨bv0, hl0, _⟩ := hI.maj _ hm
        rw [hl'] at hl0; cases hl0
      have := withBlock_inv verify s bid (newBlockVotes true s.vals.length) (newBlockVotes true s.vals.length) hI
        (newBlockVotes_inv verify s bid true) (Or.inr ⟨hl', hne⟩) (Int.le_refl _) (fun hm => absurd hm hne)
      exact inv_peers verify _ _ this

/-- a fresh vote set satisfies the invariant -/
theorem newVS_inv (verify : Verify) (chain : List UInt8) (h : Nat) (r : Int) (t : Nat) (vals : List Val) (s : VS)
    (hs : newVS chain h r t vals = some s) : VoteSetInv verify s ∧ s.vals = vals := by
  unfold newVS at hs
  split at hs
  · cases hs
  · simp only [Option.some.injEq] at hs
    subst hs
    refine ⟨⟨by simp, by simp, by simp [powerOfSome_replicate], ?_, ?_, ?_⟩, rfl⟩
    · intro i v hv; simp [List.getElem?_replicate] at hv
    · intro k bv hm; simp at hm
    · intro b hb; simp at hb

theorem step_vals (verify : Verify) (s s' : VS) (h : Step verify s s') : s'.vals = s.vals := by
  cases h with
  | vote v r hr =>
    rcases addVote_cases verify s v r hr with h1 | ⟨i, val, a, c, _, _, _, _, _, _, _, _, havv, _⟩
    · rw [h1.1]
    · obtain ⟨s1, conf, hS, _, hrest⟩ := addVerifiedVote_decompose s r.st v i val.power a c havv
      have h1 : s1.vals = s.vals := by
        rcases hS with ⟨_, rfl, _⟩ | ⟨ex, _, _, _, ⟨_, rfl⟩ | ⟨_, rfl⟩⟩ <;> rfl
      rcases hrest with ⟨h', _, _⟩ | ⟨bv, _, h', _⟩
      · rw [h', h1]
      · rw [h', tally_vals, h1]
  | peer p bid => exact (peer_claim_inert s p bid).2.2.2.2

theorem step_inv (verify : Verify) (s s' : VS) (hno : NoOverflow s.vals) (hI : VoteSetInv verify s)
    (h : Step verify s s') : VoteSetInv verify s' := by
  cases h with
  | vote v r hr => exact addVote_inv verify s v r hno hI hr
  | peer p bid => exact setPeerMaj23_inv verify s p bid hI

theorem run_inv (verify : Verify) (s s' : VS) (hno : NoOverflow s.vals) (hI : VoteSetInv verify s)
    (h : Run verify s s') : VoteSetInv verify s' ∧ s'.vals = s.vals := by
  induction h with
  | refl => exact ⟨hI, rfl⟩
  | tail t u _ hstep ih =>
    refine ⟨step_inv verify t u (by rw [ih.2]; exact hno) ih.1 hstep, ?_⟩
    rw [step_vals verify t u hstep, ih.2]

/-- FULL STATEMENT (proved): the invariant holds in a fresh vote set and is preserved by every sequence of votes
(accepted or rejected, well-formed or not) and peer claims -/
def C03_voteset_invariant_statement : Prop :=
  (∀ (verify : Verify) (chain : List UInt8) (h : Nat) (r : Int) (t : Nat) (vals : List Val) (s : VS),
      newVS chain h r t vals = some s → VoteSetInv verify s) ∧
  (∀ (verify : Verify) (s s' : VS), NoOverflow s.vals → VoteSetInv verify s → Run verify s s' → VoteSetInv verify s')

theorem C03_voteset_invariant : C03_voteset_invariant_statement :=
  ⟨fun verify chain h r t vals s hs => (newVS_inv verify chain h r t vals s hs).1,
   fun verify s s' hno hI hrun => (run_inv verify s s' hno hI hrun).1⟩

/-- every state reachable from `NewVoteSet` satisfies the invariant -/
theorem reachable_inv (verify : Verify) (chain : List UInt8) (h : Nat) (r : Int) (t : Nat) (vals : List Val) (s0 s : VS)
    (hno : NoOverflow vals) (h0 : newVS chain h r t vals = some s0) (hrun : Run verify s0 s) :
    VoteSetInv verify s ∧ s.vals = vals := by
  obtain ⟨hI, hv⟩ := newVS_inv verify chain h r t vals s0 h0
  have := run_inv verify s0 s (by rw [hv]; exact hno) hI hrun
  exact ⟨this.1, by rw [this.2, hv]⟩

/-! ### Corollaries -/

theorem powerOfSome_all_none (vals : List Val) (os : List (Option Vote))
    (h : ∀ (j : Nat) (x : Vote), os[j]? ≠ some (some x)) : powerOfSome vals os = 0 := by
  induction vals generalizing os with
  | nil => cases os <;> simp [powerOfSome]
  | cons v vs ih =>
    cases os with
    | nil => simp [powerOfSome]
    | cons o os =>
      have hrest : ∀ (j : Nat) (x : Vote), os[j]? ≠ some (some x) := fun j x hx => h (j + 1) x (by simpa using hx)
      cases o with
      | none => simp [powerOfSome, ih os hrest]
      | some x => exact absurd (by simp) (h 0 x)

/-- the canonical votes for `b` weigh at least as much as the block's own tally, if every voter of the block has a
canonical vote for `b` -/
theorem powerOfSome_le_counted (b : BlockID) (vals : List Val) (bvv votes : List (Option Vote))
    (hp : ∀ v ∈ vals, 0 ≤ v.power)
    (h : ∀ (j : Nat) (x : Vote), bvv[j]? = some (some x) → ∃ w, votes[j]? = some (some w) ∧ w.bid = b) :
    powerOfSome vals bvv ≤ countedPower b vals votes := by
  induction vals generalizing bvv votes with
  | nil => cases bvv <;> cases votes <;> simp [powerOfSome, countedPower]
  | cons val vals ih =>
    have hv := hp val List.mem_cons_self
    have hp' : ∀ w ∈ vals, 0 ≤ w.power := fun w hw => hp w (List.mem_cons_of_mem _ hw)
    cases bvv with
    | nil => simp only [powerOfSome]; exact (countedPower_bounds b (val :: vals) votes hp).1
    | cons o os =>
      have h0 := h 0
      cases votes with
      | nil =>
        have hnone : ∀ (j : Nat) (x : Vote), (o :: os)[j]? ≠ some (some x) := fun j x hx => by
          obtain ⟨w, hw, _⟩ := h j x hx; simp at hw
        rw [powerOfSome_all_none _ _ hnone]
        simp [countedPower]
      | cons w ws =>
        have hrest : ∀ (j : Nat) (x : Vote), os[j]? = some (some x) → ∃ w', ws[j]? = some (some w') ∧ w'.bid = b :=
          fun j x hx => by have := h (j + 1) x; simpa using this hx
        have := ih os ws hp' hrest
        cases o with
        | none =>
          have e1 : powerOfSome (val :: vals) (none :: os) = powerOfSome vals os := by simp [powerOfSome]
          rw [e1]
          cases w with
          | none =>
            have e2 : countedPower b (val :: vals) (none :: ws) = countedPower b vals ws := rfl
            rw [e2]; exact this
          | some y =>
            have e2 : countedPower b (val :: vals) (some y :: ws) = (if b = y.bid then val.power else 0) + countedPower b vals ws := rfl
            rw [e2]; split <;> omega
        | some x =>
          obtain ⟨y, hy, hyb⟩ := h0 x (by simp)
          simp only [List.getElem?_cons_zero, Option.some.injEq] at hy
          subst hy
          have e1 : powerOfSome (val :: vals) (some x :: os) = val.power + powerOfSome vals os := by simp [powerOfSome]
          have e2 : countedPower b (val :: vals) (some y :: ws) = (if b = y.bid then val.power else 0) + countedPower b vals ws := rfl
          rw [e1, e2, if_pos hyb.symm]
          omega

/-- A REPORTED MAJORITY HAS MORE THAN TWO THIRDS, from distinct validators, each with a recorded, fully checked vote for
exactly that block id; and the canonical votes (what `MakeCommit` copies) for that block weigh at least as much -/
theorem maj23_needs_two_thirds (verify : Verify) (s : VS) (hno : NoOverflow s.vals) (hI : VoteSetInv verify s)
    (b : BlockID) (h : twoThirdsMajority s = some b) :
    ∃ bv, lookup s.byBlock b = some bv ∧
      (∀ (i : Nat) (x : Vote), bv.votes[i]? = some (some x) → x.bid = b ∧ ValidAt verify s i x) ∧
      3 * powerOfSome s.vals bv.votes > 2 * sumPowers s.vals ∧
      3 * countedPower b s.vals s.votes > 2 * sumPowers s.vals := by
  obtain ⟨bv, hl, hq, hvotes⟩ := hI.maj b h
  have hb := hI.blocks b bv (lookup_mem _ _ _ hl)
  have h23 := maj23_quorum_means_two_thirds s.vals bv.sum hno hq
  have hle := powerOfSome_le_counted b s.vals bv.votes s.votes hno.1 hvotes
  rw [hb.sum] at h23
  refine ⟨bv, hl, fun i x hx => ⟨(hb.recorded i x hx).1, (hb.recorded i x hx).2.1⟩, h23, by omega⟩

/-- … for every state reachable from `NewVoteSet` by any sequence of votes and peer claims -/
theorem maj23_needs_two_thirds_reachable (verify : Verify) (chain : List UInt8) (h : Nat) (r : Int) (t : Nat)
    (vals : List Val) (s0 s : VS) (hno : NoOverflow vals) (h0 : newVS chain h r t vals = some s0) (hrun : Run verify s0 s)
    (b : BlockID) (hm : twoThirdsMajority s = some b) :
    3 * countedPower b vals s.votes > 2 * sumPowers vals := by
  obtain ⟨hI, hv⟩ := reachable_inv verify chain h r t vals s0 s hno h0 hrun
  have := (maj23_needs_two_thirds verify s (by rw [hv]; exact hno) hI b hm)
  obtain ⟨_, _, _, _, h4⟩ := this
  rw [hv] at h4; exact h4

theorem allSlotsGood_of_pointwise (verify : Verify) (chain : List UInt8) (h : Nat) (r : Int) (vals : List Val)
    (ps : List (Option Vote))
    (hg : ∀ (i : Nat) (val : Val) (v : Vote), vals[i]? = some val → ps[i]? = some (some v) → SlotGood verify chain h r val v) :
    AllSlotsGood verify chain h r vals ps := by
  induction vals generalizing ps with
  | nil => cases ps <;> simp [AllSlotsGood]
  | cons val vals ih =>
    cases ps with
    | nil => simp [AllSlotsGood]
    | cons o ps =>
      have hrest := ih ps (fun i val' v hv hp => hg (i + 1) val' v (by simpa using hv) (by simpa using hp))
      cases o with
      | none => simpa [AllSlotsGood] using hrest
      | some v => exact ⟨hg 0 val v (by simp) (by simp), hrest⟩

theorem firstSome_none_counted (b : BlockID) (vals : List Val) (ps : List (Option Vote)) (h : firstSome ps = none) :
    countedPower b vals ps = 0 := by
  induction ps generalizing vals with
  | nil => cases vals <;> simp [countedPower]
  | cons o ps ih =>
    cases o with
    | some v => simp [firstSome] at h
    | none =>
      cases vals with
      | nil => simp [countedPower]
      | cons val vals => simp only [countedPower]; exact ih vals (by simpa [firstSome] using h)

theorem firstSome_mem (ps : List (Option Vote)) (v : Vote) (h : firstSome ps = some v) : ∃ i : Nat, ps[i]? = some (some v) := by
  induction ps with
  | nil => simp [firstSome] at h
  | cons o ps ih =>
    cases o with
    | some w => simp only [firstSome, Option.some.injEq] at h; subst h; exact ⟨0, by simp⟩
    | none =>
      obtain ⟨i, hi⟩ := ih (by simpa [firstSome] using h)
      exact ⟨i + 1, by simpa using hi⟩

/-- `MakeCommit` OF A PRECOMMIT VOTE SET WITH A MAJORITY PASSES `VerifyCommit` for the same validator set, chain, height
and the majority block: live consensus and block validation / fast sync agree on what a commit is -/
theorem makeCommit_verifies (verify : Verify) (s : VS) (c : Commit) (hno : NoOverflow s.vals) (hI : VoteSetInv verify s)
    (h : makeCommit s = some c) : verifyCommit verify s.vals s.chain c.bid s.height c = .ok () := by
  unfold makeCommit at h
  split at h; · cases h
  rename_i htype
  split at h; · cases h
  rename_i b hm
  simp only [Option.some.injEq] at h
  subst h
  have htype' : s.type = typePrecommit := by simpa using htype
  obtain ⟨_, _, _, _, hq⟩ := maj23_needs_two_thirds verify s hno hI b hm
  have hsum := sumPowers_nonneg s.vals hno.1
  -- there is a first precommit, and it is a checked vote of this set
  have hfirst : ∃ v, firstSome s.votes = some v := by
    cases hf : firstSome s.votes with
    | some v => exact ⟨v, rfl⟩
    | none => rw [firstSome_none_counted b s.vals s.votes hf] at hq; omega
  obtain ⟨v0, hf⟩ := hfirst
  obtain ⟨i0, hi0⟩ := firstSome_mem s.votes v0 hf
  have hv0 := hI.validV i0 v0 hi0
  apply verifyCommit_complete verify s.vals s.chain b s.height _ hno
  · exact hI.lenV.symm
  · show s.height = Model.Commit.height ⟨b, s.votes⟩
    unfold Model.Commit.height; simp only [hf]; exact hv0.2.1.symm
  · have hr : Model.Commit.round ⟨b, s.votes⟩ = s.round := by
      unfold Model.Commit.round; simp only [hf]; exact hv0.2.2.1
    rw [hr]
    apply allSlotsGood_of_pointwise
    intro i val v hval hp
    obtain ⟨_, hh, hrr, ht, val', hval', _, hver⟩ := hI.validV i v hp
    rw [hval] at hval'; simp only [Option.some.injEq] at hval'; subst hval'
    exact ⟨hh, hrr, by rw [ht, htype'], hver⟩
  · exact hq

/-- … for every precommit vote set reachable from `NewVoteSet` -/
theorem makeCommit_verifies_reachable (verify : Verify) (chain : List UInt8) (h : Nat) (r : Int)
    (vals : List Val) (s0 s : VS) (c : Commit) (hno : NoOverflow vals) (h0 : newVS chain h r typePrecommit vals = some s0)
    (hrun : Run verify s0 s) (hc : makeCommit s = some c) :
    verifyCommit verify s.vals s.chain c.bid s.height c = .ok () := by
  obtain ⟨hI, hv⟩ := reachable_inv verify chain h r typePrecommit vals s0 s hno h0 hrun
  exact makeCommit_verifies verify s c (by rw [hv]; exact hno) hI hc

/-! ### The two `PanicSanity` sites of `addVote` are unreachable (for every state and every vote) -/

theorem addVerifiedVote_ne_none (s : VS) (v : Vote) (i : Nat) (p : Int) (hg : getVote s i v.bid = none) :
    addVerifiedVote s v i p ≠ none := by
  intro h
  unfold addVerifiedVote at h
  unfold getVote at hg
  simp only at h hg
  split at h
  · rename_i hst
    split at hst
    · rename_i ex hex
      rw [hex] at hg
      simp only at hg
      split at hst
      · rename_i hb
        rw [if_pos hb] at hg; cases hg
      · split at hst <;> cases hst
    · cases hst
  · split at h
    · split at h <;> cases h
    · split at h <;> cases h

/-- `AddVote` NEVER PANICS on a non-nil vote: "addVerifiedVote does not expect duplicate votes" is excluded by the
duplicate test, "Expected to add non-conflicting vote" by the structure of `addVerifiedVote` -/
theorem addVote_no_panic (verify : Verify) (s : VS) (v : Vote) : addVote verify s v ≠ none := by
  intro h
  unfold addVote at h
  split at h; · cases h
  split at h; · cases h
  split at h; · cases h
  split at h; · cases h
  simp only at h
  split at h; · cases h
  split at h; · cases h
  split at h
  · split at h <;> cases h
  rename_i hget
  split at h; · cases h
  split at h; · cases h
  split at h
  · rename_i havv
    exact addVerifiedVote_ne_none s v _ _ hget havv
  · cases h
  · rename_i s' added havv
    split at h
    · cases h
    · rename_i hadd
      obtain ⟨s1, conf, _, hc, hrest⟩ := addVerifiedVote_decompose s s' v _ _ added none havv
      rcases hrest with ⟨_, _, hs⟩ | ⟨_, _, _, ha⟩
      · rw [← hc] at hs; cases hs
      · exact hadd ha

/-! ### Non-vacuity: the hypotheses are satisfiable and the conclusions are reached on a concrete run -/

/-- three of four equal validators precommit `nvB`, validator 0 also equivocates: a commit is made and it verifies -/
def nvFinal : Option VS := runVotes (newVS [99] 5 0 2 nvVals) [nvVote 0 nvB, nvVote 0 nvB2, nvVote 1 nvB, nvVote 2 nvB]

example : NoOverflow nvVals := ⟨by decide, by decide⟩
example : (nvFinal.map twoThirdsMajority) = some (some nvB) := by decide
example : ((nvFinal.bind makeCommit).map (fun c => verdict (verifyCommit symVerify nvVals [99] c.bid 5 c))) = some none := by decide
example : ((nvFinal.map (fun s => decide (3 * countedPower nvB nvVals s.votes > 2 * sumPowers nvVals)))) = some true := by decide
/-- a `Run` exists: one accepted vote from the fresh set -/
example : ∃ s0 s, newVS [99] 5 0 2 nvVals = some s0 ∧ Run symVerify s0 s ∧ s.sum = 1 := by
  refine ⟨_, _, rfl, Run.tail _ _ _ (Run.refl _) (Step.vote _ (nvVote 0 nvB) _ rfl), by decide⟩

end Props.C03
