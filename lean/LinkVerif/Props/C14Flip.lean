import LinkVerif.Props.C14

/-!
# C14 — a changed byte at ANY offset of the log (raw global offset, no structure given)
-/
namespace Props.C14
open Model.Wal

theorem be32_rd32 (w : Bytes) (hw : w.length = 4) : be32 (rd32 w) = w := by
  match w, hw with
  | [a, b, cc, d], _ =>
    have ha := a.toNat_lt
    have hb := b.toNat_lt
    have hc := cc.toNat_lt
    have hd := d.toNat_lt
    have e1 : (a.toNat * 16777216 + b.toNat * 65536 + cc.toNat * 256 + d.toNat) / 16777216 % 256 = a.toNat := by omega
    have e2 : (a.toNat * 16777216 + b.toNat * 65536 + cc.toNat * 256 + d.toNat) / 65536 % 256 = b.toNat := by omega
    have e3 : (a.toNat * 16777216 + b.toNat * 65536 + cc.toNat * 256 + d.toNat) / 256 % 256 = cc.toNat := by omega
    have e4 : (a.toNat * 16777216 + b.toNat * 65536 + cc.toNat * 256 + d.toNat) % 256 = d.toNat := by omega
    simp only [be32, rd32, e1, e2, e3, e4, UInt8.ofNat_toNat]

theorem rd32_lt (w : Bytes) (hw : w.length = 4) : rd32 w < 4294967296 := by
  match w, hw with
  | [a, b, cc, d], _ =>
    have ha := a.toNat_lt
    have hb := b.toNat_lt
    have hc := cc.toNat_lt
    have hd := d.toNat_lt
    simp only [rd32]; omega

theorem set_append_ne_left {α : Type} (s t : List α) (i : Nat) (x : α) (h : s.set i x ++ t ≠ s ++ t) : s.set i x ≠ s :=
  fun e => h (by rw [e])

/-- **one `Decode` on a record with one changed byte** (any of its offsets): never a message; `corrupt` when the byte
is in the checksum field (no assumption) or in the payload (`DetectsSingleByte`); for the length field the explicit
non-collision hypothesis `hcol` is needed -/
theorem decode1_damaged_frame (c : Codec) (hb : Bounded c) (hdet : DetectsSingleByte c) (t : Tail) (p : Bytes)
    (hv : Valid c p) (R : Bytes)
    (hcol : ∀ n, n ≠ p.length → c.crc ((p ++ R).take n) ≠ c.crc p)
    (k : Nat) (b : UInt8) (hk : k < (frame c p).length) (hne : (frame c p).set k b ≠ frame c p) :
    ((decode1 c t ((frame c p).set k b ++ R)).1).isMsg = false ∧
    ((k < 4 ∨ 8 ≤ k) → decode1 c t ((frame c p).set k b ++ R) = (Res.corrupt, R)) := by
  rw [frame_length] at hk
  have hF : frame c p = be32 (c.crc p) ++ (be32 p.length ++ p) := by simp [frame]
  by_cases h4 : k < 4
  · -- checksum field
    have hs : (frame c p).set k b = rawRecord ((be32 (c.crc p)).set k b) (be32 p.length) p := by
      rw [hF, List.set_append_left _ _ (by rw [be32_length]; exact h4)]; rfl
    have hw : ((be32 (c.crc p)).set k b).length = 4 := by simp [be32_length]
    have hwne : (be32 (c.crc p)).set k b ≠ be32 (c.crc p) := by
      apply set_append_ne_left _ (be32 p.length ++ p)
      intro e; apply hne; rw [hF, List.set_append_left _ _ (by rw [be32_length]; exact h4)]; exact e
    have hrd : rd32 ((be32 (c.crc p)).set k b) ≠ c.crc p := by
      intro e
      apply hwne
      rw [← be32_rd32 _ hw, e]
    have := flip_crc_field c hb t p hv _ hw hrd R
    rw [hs, this]
    exact ⟨rfl, fun _ => rfl⟩
  · by_cases h8 : k < 8
    · -- length field
      have hs : (frame c p).set k b = rawRecord (be32 (c.crc p)) ((be32 p.length).set (k - 4) b) p := by
        rw [hF, List.set_append_right _ _ (by rw [be32_length]; omega), be32_length,
          List.set_append_left _ _ (by rw [be32_length]; omega)]; rfl
      have hw : ((be32 p.length).set (k - 4) b).length = 4 := by simp [be32_length]
      have hwne : (be32 p.length).set (k - 4) b ≠ be32 p.length := by
        intro e; apply hne; rw [hs, e]; simp [hF, rawRecord]
      have hn : rd32 ((be32 p.length).set (k - 4) b) ≠ p.length := by
        intro e
        apply hwne
        rw [← be32_rd32 _ hw, e]
      have hlen := flip_len_field c hb t p (rd32 ((be32 p.length).set (k - 4) b)) (rd32_lt _ hw) R (hcol _ hn)
      rw [be32_rd32 _ hw] at hlen
      rw [hs]
      exact ⟨hlen, fun h => by omega⟩
    · -- payload
      have hs : (frame c p).set k b = rawRecord (be32 (c.crc p)) (be32 p.length) (p.set (k - 8) b) := by
        rw [hF, List.set_append_right _ _ (by rw [be32_length]; omega), be32_length,
          List.set_append_right _ _ (by rw [be32_length]; omega), be32_length]
        have : k - 4 - 4 = k - 8 := by omega
        rw [this]; rfl
      have hpne : p.set (k - 8) b ≠ p := by
        intro e; apply hne; rw [hs, e]; simp [hF, rawRecord]
      have hi : k - 8 < p.length := by omega
      have hch : SingleByteChange p (p.set (k - 8) b) := by
        refine ⟨k - 8, b, hi, rfl, ?_⟩
        intro e
        apply hpne
        rw [e, List.set_getElem_self]
      have := flip_payload c hb hdet t p _ hv hch R
      rw [hs, this]
      exact ⟨rfl, fun _ => rfl⟩

/-- **Explicit hypothesis for length-field damage** (cannot be a theorem about a 32-bit checksum): reading a record of
the log with any other length never reproduces that record's checksum -/
def NoLenCollision (c : Codec) (ps : List Bytes) : Prop :=
  ∀ pre p post, ps = pre ++ p :: post → ∀ n, n ≠ p.length → c.crc ((p ++ frames c post).take n) ≠ c.crc p

theorem noLenCollision_tail (c : Codec) (p : Bytes) (ps : List Bytes) (h : NoLenCollision c (p :: ps)) :
    NoLenCollision c ps :=
  fun pre q post e => h (p :: pre) q post (by rw [e]; rfl)

/-- **flip_any_offset** (fuel form) -/
theorem flip_any_offset_fuel (c : Codec) (hb : Bounded c) (hdet : DetectsSingleByte c) (t : Tail) :
    ∀ (ps : List Bytes), (∀ p ∈ ps, Valid c p) → NoLenCollision c ps →
    ∀ (off : Nat) (b : UInt8) (f : Nat), off < (frames c ps).length → (frames c ps).set off b ≠ frames c ps →
      (frames c ps).length < f →
      ∃ j e, j < ps.length ∧ e.isMsg = false ∧
        decodeAllF c t f ((frames c ps).set off b) = (ps.take j, e) ∧
        bytesOf c ps j ≤ off ∧ off < bytesOf c ps (j + 1) ∧
        ((off - bytesOf c ps j < 4 ∨ 8 ≤ off - bytesOf c ps j) → e = Res.corrupt) := by
  intro ps
  induction ps with
  | nil => intro _ _ off b f ho; simp [frames] at ho
  | cons p ps ih =>
    intro hv hcol off b f ho hne hf
    have hvp : Valid c p := hv p (by simp)
    have hvs : ∀ q ∈ ps, Valid c q := fun q hq => hv q (by simp [hq])
    cases f with
    | zero => omega
    | succ f =>
      rw [frames_cons] at ho hne hf ⊢
      have hFl := frame_length c p
      by_cases hin : off < (frame c p).length
      · -- the changed byte is in the first record
        rw [List.set_append_left _ _ hin] at hne ⊢
        have hne' : (frame c p).set off b ≠ frame c p := set_append_ne_left _ _ _ _ hne
        have hd := decode1_damaged_frame c hb hdet t p hvp (frames c ps)
          (fun n hn => hcol [] p ps rfl n hn) off b hin hne'
        generalize hres : decode1 c t ((frame c p).set off b ++ frames c ps) = res at hd
        obtain ⟨e, rest'⟩ := res
        refine ⟨0, e, by simp, hd.1, ?_, by simp [bytesOf, frames], ?_, ?_⟩
        · rw [decodeAllF_stop c t f _ rest' e hres hd.1]; simp
        · simp [bytesOf, frames]; omega
        · intro hk
          have : bytesOf c (p :: ps) 0 = 0 := by simp [bytesOf, frames]
          rw [this] at hk
          have := hd.2 (by omega)
          simp at this
          exact this.1
      · -- the first record is intact
        have hge : (frame c p).length ≤ off := Nat.le_of_not_lt hin
        rw [List.set_append_right _ _ hge] at hne ⊢
        have hne' : (frames c ps).set (off - (frame c p).length) b ≠ frames c ps := fun e => hne (by rw [e])
        rw [List.length_append] at ho hf
        obtain ⟨j, e, hj, he, hdec, hlo, hhi, hcor⟩ := ih hvs (noLenCollision_tail c p ps hcol)
          (off - (frame c p).length) b f (by omega) hne' (by omega)
        refine ⟨j + 1, e, by simp only [List.length_cons]; omega, he, ?_, ?_, ?_, ?_⟩
        · rw [decodeAllF_msg c t f _ p _ (decode1_frame c hb t p _ hvp), hdec, List.take_succ_cons]
        · rw [bytesOf_cons_succ']; omega
        · rw [bytesOf_cons_succ']; omega
        · intro hk
          rw [bytesOf_cons_succ'] at hk
          apply hcor
          omega
where
  bytesOf_cons_succ' {c : Codec} {p : Bytes} {ps : List Bytes} {j : Nat} :
      bytesOf c (p :: ps) (j + 1) = (frame c p).length + bytesOf c ps j := by
    simp [bytesOf, frames_cons]

/-- **flip_any_offset**: a log of valid records in which the byte at ANY offset `off` was replaced by a different value.
With `j` the record that contains `off`: the reader replays exactly the `j` records before it, in order, and then stops
with a terminal that is not a message — `corrupt` when the byte lies in a checksum field (no assumption) or a payload
(`DetectsSingleByte`), `corrupt` / "length exceeded" / "failed to read data" when it lies in a length field
(`NoLenCollision`).  In particular nothing after the damage and nothing that was not written is ever returned. -/
theorem flip_any_offset (c : Codec) (hb : Bounded c) (hdet : DetectsSingleByte c) (t : Tail)
    (ps : List Bytes) (hv : ∀ p ∈ ps, Valid c p) (hcol : NoLenCollision c ps)
    (off : Nat) (b : UInt8) (ho : off < (frames c ps).length) (hne : (frames c ps).set off b ≠ frames c ps) :
    ∃ j e, j < ps.length ∧ e.isMsg = false ∧
      decodeAll c t ((frames c ps).set off b) = (ps.take j, e) ∧
      bytesOf c ps j ≤ off ∧ off < bytesOf c ps (j + 1) ∧
      ((off - bytesOf c ps j < 4 ∨ 8 ≤ off - bytesOf c ps j) → e = Res.corrupt) := by
  have := flip_any_offset_fuel c hb hdet t ps hv hcol off b (((frames c ps).set off b).length + 1) ho hne (by simp)
  exact this

/-- **never_unwritten_flipped**: whatever single byte of the log is changed, every message read back was written -/
theorem never_unwritten_flipped (c : Codec) (hb : Bounded c) (hdet : DetectsSingleByte c) (t : Tail)
    (ps : List Bytes) (hv : ∀ p ∈ ps, Valid c p) (hcol : NoLenCollision c ps)
    (off : Nat) (b : UInt8) (ho : off < (frames c ps).length) (hne : (frames c ps).set off b ≠ frames c ps) :
    ∀ m ∈ (decodeAll c t ((frames c ps).set off b)).1, m ∈ ps := by
  obtain ⟨j, e, _, _, h, _⟩ := flip_any_offset c hb hdet t ps hv hcol off b ho hne
  rw [h]
  exact fun m hm => List.mem_of_mem_take hm

set_option maxRecDepth 100000 in
/-- instances of the conclusion with the real CRC-32C on a three-record log (record 1 occupies offsets 10..18):
a changed checksum byte, length byte (to 2, and to an oversized value) and payload byte -/
example :
    let s := frames toyCodec [[0xEE, 1], [7], [0xEE, 2]]
    decodeAll toyCodec Tail.eof (s.set 10 0x55) = ([[0xEE, 1]], Res.corrupt) ∧
    decodeAll toyCodec Tail.eof (s.set 17 2) = ([[0xEE, 1]], Res.corrupt) ∧
    decodeAll toyCodec Tail.eof (s.set 14 0xFF) = ([[0xEE, 1]], Res.errBig) ∧
    decodeAll toyCodec Tail.eof (s.set 18 8) = ([[0xEE, 1]], Res.corrupt) ∧
    decodeAll toyCodec Tail.eof s = ([[0xEE, 1], [7], [0xEE, 2]], Res.eof) := by
  decide

end Props.C14
