/-
C03 (part 3): the vote set (`Model.VoteSet`, mirror of `types/vote_set.go`).
Step theorems that hold for ANY state and ANY vote, hence along any sequence of `addVote`/`setPeerMaj23`:
  * a two-thirds majority, once reported, never changes (`maj23_stable_*`, `maj23_stable_run`);
  * a majority is reported only at a step where that block's tally crosses the quorum (`maj23_set_only_at_quorum`);
  * votes rejected for index / address / size / step / signature / non-deterministic signature, and duplicates,
    leave the state untouched (`rejected_unchanged`);
  * a conflicting vote is surfaced as evidence naming both votes of the same validator for different blocks
    (`conflict_is_evidence`), and a peer's claim never changes a tally or the majority (`peer_claim_inert`);
  * quorum intersection: two block ids with more than 2/3 each share validators with more than 1/3
    (`quorum_intersection`), so non-equivocating validators cannot produce two majorities (`at_most_one_maj23_honest`).
-/
import LinkVerif.Props.C03Arith

namespace Props.C03
open Go Gen.CommitArith Model.Vote Model.VoteSet

theorem lookup_upsert_self (bb : List (BlockID × BlockVotes)) (k : BlockID) (bv : BlockVotes) :
    lookup (upsert bb k bv) k = some bv := by
  induction bb with
  | nil => simp [upsert, lookup]
  | cons e rest ih =>
    obtain ⟨k', bv'⟩ := e
    simp only [upsert]
    split
    · simp [lookup]
    · rename_i hne; simp [lookup, hne, ih]

theorem tally_maj23_keep (s : VS) (v : Vote) (i : Nat) (p : Int) (bv : BlockVotes) (b : BlockID)
    (hb : s.maj23 = some b) : (tally s v i p bv).maj23 = some b := by
  unfold tally
  simp [hb]

theorem tally_vals (s : VS) (v : Vote) (i : Nat) (p : Int) (bv : BlockVotes) : (tally s v i p bv).vals = s.vals := by
  unfold tally; simp only; split <;> rfl

/-- when `tally` sets the majority it is for the vote's block and that block's tally has reached the quorum -/
theorem tally_maj23_set (s : VS) (v : Vote) (i : Nat) (p : Int) (bv : BlockVotes) (b : BlockID)
    (hn : s.maj23 = none) (hs : (tally s v i p bv).maj23 = some b) :
    b = v.bid ∧ ∃ bv', lookup (tally s v i p bv).byBlock b = some bv' ∧ bv.sum < quorum (totalPower s.vals) ∧
      quorum (totalPower s.vals) ≤ bv'.sum := by
  unfold tally at hs ⊢
  simp only at hs ⊢
  split at hs
  · rename_i hc
    rw [if_pos hc]
    simp only [Option.some.injEq] at hs
    subst hs
    simp only [Bool.and_eq_true, crossedQuorum_iff] at hc
    exact ⟨rfl, _, lookup_upsert_self _ _ _, hc.1.1, hc.1.2⟩
  · simp [hn] at hs

theorem addVerifiedVote_maj23_keep (s s' : VS) (v : Vote) (i : Nat) (p : Int) (a : Bool) (c : Option Vote) (b : BlockID)
    (h : addVerifiedVote s v i p = some (s', a, c)) (hb : s.maj23 = some b) : s'.maj23 = some b := by
  unfold addVerifiedVote at h
  simp only at h
  split at h
  · cases h
  · rename_i s1 conf hst
    have h1 : s1.maj23 = some b := by
      split at hst
      · split at hst
        · cases hst
        · split at hst <;> (simp only [Option.some.injEq, Prod.mk.injEq] at hst; rw [← hst.1]; exact hb)
      · simp only [Option.some.injEq, Prod.mk.injEq] at hst; rw [← hst.1]; exact hb
    split at h
    · split at h
      · simp only [Option.some.injEq, Prod.mk.injEq] at h; rw [← h.1]; exact h1
      · simp only [Option.some.injEq, Prod.mk.injEq] at h; rw [← h.1]; exact tally_maj23_keep _ _ _ _ _ _ h1
    · split at h
      · simp only [Option.some.injEq, Prod.mk.injEq] at h; rw [← h.1]; exact h1
      · simp only [Option.some.injEq, Prod.mk.injEq] at h; rw [← h.1]; exact tally_maj23_keep _ _ _ _ _ _ h1

/-- the step relation of a vote set: one accepted-or-rejected vote, or one peer claim -/
inductive Step (verify : Verify) : VS → VS → Prop
  | vote (s : VS) (v : Vote) (r : AddRes) : addVote verify s v = some r → Step verify s r.st
  | peer (s : VS) (peer : List UInt8) (bid : BlockID) : Step verify s (setPeerMaj23 s peer bid).1

/-- finite runs: any sequence of votes and peer claims -/
inductive Run (verify : Verify) : VS → VS → Prop
  | refl (s : VS) : Run verify s s
  | tail (s t u : VS) : Run verify s t → Step verify t u → Run verify s u

/-- every state change of `addVote` goes through `addVerifiedVote` -/
theorem addVote_cases (verify : Verify) (s : VS) (v : Vote) (r : AddRes) (h : addVote verify s v = some r) :
    (r.st = s ∧ r.added = false ∧ (r.err = .index ∨ r.err = .address ∨ r.err = .size ∨ r.err = .step ∨ r.err = .nondet ∨ r.err = .sig ∨ r.err = .none)) ∨
    (∃ (i : Nat) (val : Val) (a : Bool) (c : Option Vote), s.vals[i]? = some val ∧ (i : Int) = v.idx ∧ v.addr = val.addr ∧ v.height = s.height ∧ v.round = s.round ∧ v.type = s.type ∧
        verify val.key (msgOf s.chain v) v.sig = true ∧ getVote s i v.bid = none ∧
        addVerifiedVote s v i val.power = some (r.st, a, c) ∧ r.added = a ∧
        ((c = none ∧ a = true ∧ r.err = .none) ∨ (∃ cv, c = some cv ∧ r.err = .conflict cv v))) := by
  unfold addVote at h
  split at h; · left; cases h; simp
  split at h; · left; cases h; simp
  split at h; · left; cases h; simp
  split at h; · left; cases h; simp
  rename_i hidx _ _ hstep
  simp only at h
  split at h; · left; cases h; simp
  rename_i val hval
  split at h; · left; cases h; simp
  rename_i haddr
  split at h
  · split at h <;> (left; cases h; simp)
  rename_i hget
  split at h; · left; cases h; simp
  split at h; · left; cases h; simp
  rename_i hver
  right
  have hi : ((v.idx.toNat : Nat) : Int) = v.idx := by omega
  have hstep' : v.height = s.height ∧ v.round = s.round ∧ v.type = s.type := by
    simp only [not_or, Decidable.not_not] at hstep; exact hstep
  have hver' : verify val.key (msgOf s.chain v) v.sig = true := by simpa using hver
  have haddr' : v.addr = val.addr := by simpa using haddr
  split at h
  · cases h
  · rename_i s' added c havv
    cases h
    exact ⟨_, val, added, some c, hval, hi, haddr', hstep'.1, hstep'.2.1, hstep'.2.2, hver', hget, havv, rfl, Or.inr ⟨c, rfl, rfl⟩⟩
  · rename_i s' added havv
    split at h
    · rename_i hadd
      cases h
      exact ⟨_, val, added, none, hval, hi, haddr', hstep'.1, hstep'.2.1, hstep'.2.2, hver', hget, havv, by simp [hadd], Or.inl ⟨rfl, hadd, rfl⟩⟩
    · cases h

/-- REJECTED VOTES LEAVE THE STATE UNCHANGED: wrong index / address / size / height-round-type / signature,
a second signature for the same slot and block, and exact duplicates -/
theorem rejected_unchanged (verify : Verify) (s : VS) (v : Vote) (r : AddRes) (h : addVote verify s v = some r)
    (hrej : r.err = .index ∨ r.err = .address ∨ r.err = .size ∨ r.err = .step ∨ r.err = .nondet ∨ r.err = .sig ∨
            (r.err = .none ∧ r.added = false)) : r.st = s := by
  rcases addVote_cases verify s v r h with h1 | ⟨i, val, a, c, _, _, _, _, _, _, _, _, _, hadd, hres⟩
  · exact h1.1
  · exfalso
    rcases hres with ⟨_, ha, he⟩ | ⟨cv, _, he⟩
    · rw [he] at hrej; rw [hadd, ha] at hrej; simp at hrej
    · rw [he] at hrej; simp at hrej

/-- only votes that pass every check reach the tallies: right index and address, the set's height, round and
type, and a signature that verifies under the key of the validator at that index over exactly this vote -/
theorem counted_vote_is_valid (verify : Verify) (s : VS) (v : Vote) (r : AddRes) (h : addVote verify s v = some r)
    (hch : r.st ≠ s) :
    ∃ (i : Nat) (val : Val), s.vals[i]? = some val ∧ (i : Int) = v.idx ∧ v.addr = val.addr ∧ v.height = s.height ∧ v.round = s.round ∧
      v.type = s.type ∧ verify val.key (msgOf s.chain v) v.sig = true := by
  rcases addVote_cases verify s v r h with h1 | ⟨i, val, _, _, h1, h2, h3, h4, h5, h6, h7, _⟩
  · exact absurd h1.1 hch
  · exact ⟨i, val, h1, h2, h3, h4, h5, h6, h7⟩

/-- A MAJORITY NEVER CHANGES once reported (vote step) -/
theorem maj23_stable_vote (verify : Verify) (s : VS) (v : Vote) (r : AddRes) (b : BlockID)
    (h : addVote verify s v = some r) (hb : s.maj23 = some b) : r.st.maj23 = some b := by
  rcases addVote_cases verify s v r h with h1 | ⟨i, val, a, c, _, _, _, _, _, _, _, _, havv, _⟩
  · rw [h1.1]; exact hb
  · exact addVerifiedVote_maj23_keep s r.st v i val.power a c b havv hb

/-- a peer's claim changes neither the majority, nor the round total, nor the canonical votes (it only starts tracking a block id) -/
theorem peer_claim_inert (s : VS) (peer : List UInt8) (bid : BlockID) :
    (setPeerMaj23 s peer bid).1.maj23 = s.maj23 ∧ (setPeerMaj23 s peer bid).1.sum = s.sum ∧
    (setPeerMaj23 s peer bid).1.votes = s.votes ∧ (setPeerMaj23 s peer bid).1.bits = s.bits ∧
    (setPeerMaj23 s peer bid).1.vals = s.vals := by
  unfold setPeerMaj23
  split
  · simp
  · simp only
    split
    · split <;> simp
    · simp

theorem maj23_stable_step (verify : Verify) (s s' : VS) (b : BlockID) (h : Step verify s s') (hb : s.maj23 = some b) :
    s'.maj23 = some b := by
  cases h with
  | vote v r hr => exact maj23_stable_vote verify s v r b hr hb
  | peer p bid => rw [(peer_claim_inert s p bid).1]; exact hb

/-- … along ANY sequence of votes and peer claims: "a vote set reports a two-thirds majority for at most one block id" -/
theorem maj23_stable_run (verify : Verify) (s s' : VS) (b : BlockID) (h : Run verify s s')
    (hb : s.maj23 = some b) : s'.maj23 = some b := by
  induction h with
  | refl => exact hb
  | tail t u _ hstep ih => exact maj23_stable_step verify _ _ b hstep ih

theorem addVerifiedVote_maj23_set (s s' : VS) (v : Vote) (i : Nat) (p : Int) (a : Bool) (c : Option Vote) (b : BlockID)
    (h : addVerifiedVote s v i p = some (s', a, c)) (hn : s.maj23 = none) (hs : s'.maj23 = some b) :
    b = v.bid ∧ ∃ bv', lookup s'.byBlock b = some bv' ∧ quorum (totalPower s.vals) ≤ bv'.sum := by
  unfold addVerifiedVote at h
  simp only at h
  split at h
  · cases h
  · rename_i s1 conf hst
    have h1 : s1.maj23 = none ∧ s1.vals = s.vals := by
      split at hst
      · split at hst
        · cases hst
        · split at hst <;> (simp only [Option.some.injEq, Prod.mk.injEq] at hst; rw [← hst.1]; exact ⟨hn, rfl⟩)
      · simp only [Option.some.injEq, Prod.mk.injEq] at hst; rw [← hst.1]; exact ⟨hn, rfl⟩
    split at h
    · split at h
      · simp only [Option.some.injEq, Prod.mk.injEq] at h; rw [← h.1, h1.1] at hs; cases hs
      · simp only [Option.some.injEq, Prod.mk.injEq] at h
        rw [← h.1] at hs ⊢
        obtain ⟨e, bv', hl, _, hq⟩ := tally_maj23_set _ _ _ _ _ _ h1.1 hs
        rw [h1.2] at hq
        exact ⟨e, bv', hl, hq⟩
    · split at h
      · simp only [Option.some.injEq, Prod.mk.injEq] at h; rw [← h.1, h1.1] at hs; cases hs
      · simp only [Option.some.injEq, Prod.mk.injEq] at h
        rw [← h.1] at hs ⊢
        obtain ⟨e, bv', hl, _, hq⟩ := tally_maj23_set _ _ _ _ _ _ h1.1 hs
        rw [h1.2] at hq
        exact ⟨e, bv', hl, hq⟩

/-- A MAJORITY IS REPORTED ONLY AT A QUORUM: the step that sets it is an accepted, fully checked vote for that very
block, and after it the block's tally is at least `quorum total`, i.e. (by `quorum_iff`) strictly more than 2/3 -/
theorem maj23_set_only_at_quorum (verify : Verify) (s : VS) (v : Vote) (r : AddRes) (b : BlockID)
    (h : addVote verify s v = some r) (hn : s.maj23 = none) (hs : r.st.maj23 = some b) :
    b = v.bid ∧ ∃ bv, lookup r.st.byBlock b = some bv ∧ quorum (totalPower s.vals) ≤ bv.sum := by
  rcases addVote_cases verify s v r h with h1 | ⟨i, val, a, c, _, _, _, _, _, _, _, _, havv, _⟩
  · rw [h1.1, hn] at hs; cases hs
  · exact addVerifiedVote_maj23_set s r.st v i val.power a c b havv hn hs

theorem maj23_quorum_means_two_thirds (vals : List Val) (sum : Int) (hno : NoOverflow vals)
    (hq : quorum (totalPower vals) ≤ sum) : 3 * sum > 2 * sumPowers vals := by
  rw [totalPower_eq vals hno] at hq
  exact (quorum_iff sum (sumPowers vals) (sumPowers_nonneg vals hno.1) hno.2).1 hq

/-- CONFLICTS SURFACE AS EVIDENCE: the error carries the validator's earlier vote and the new one; both are votes
of the same index, for different block ids -/
theorem conflict_is_evidence (verify : Verify) (s : VS) (v : Vote) (r : AddRes) (a b : Vote)
    (h : addVote verify s v = some r) (he : r.err = .conflict a b) :
    b = v ∧ a.bid ≠ v.bid ∧ ∃ i : Nat, (i : Int) = v.idx ∧ s.votes.getD i none = some a := by
  rcases addVote_cases verify s v r h with h1 | ⟨i, val, ad, c, _, hi, _, _, _, _, _, _, havv, _, hres⟩
  · rcases h1.2.2 with h' | h' | h' | h' | h' | h' | h' <;> (rw [h'] at he; cases he)
  · rcases hres with ⟨_, _, he'⟩ | ⟨cv, hc, he'⟩
    · rw [he'] at he; cases he
    · rw [he'] at he
      simp only [AddErr.conflict.injEq] at he
      obtain ⟨rfl, rfl⟩ := he
      refine ⟨rfl, ?_, i, hi, ?_⟩
      all_goals
        unfold addVerifiedVote at havv
        simp only at havv
        split at havv
        · cases havv
        · rename_i s1 conf hst
          have hconf : conf = c := by
            split at havv
            · split at havv <;> (simp only [Option.some.injEq, Prod.mk.injEq] at havv; exact havv.2.2)
            · split at havv <;> (simp only [Option.some.injEq, Prod.mk.injEq] at havv; exact havv.2.2)
          rw [hc] at hconf
          split at hst
          · rename_i ex hex
            split at hst
            · cases hst
            · rename_i hne
              have : ex = cv := by
                split at hst <;> (simp only [Option.some.injEq, Prod.mk.injEq] at hst; rw [hconf] at hst; exact Option.some.inj hst.2)
              subst this
              first | exact hne | exact hex
          · simp only [Option.some.injEq, Prod.mk.injEq] at hst
            rw [hconf] at hst; cases hst.2

/-! ### Quorum intersection -/

/-- power of the validators marked in a Boolean list -/
def powerWhere : List Val → List Bool → Int
  | v :: vs, b :: bs => (if b then v.power else 0) + powerWhere vs bs
  | _, _ => 0

def andBits : List Bool → List Bool → List Bool
  | a :: as, b :: bs => (a && b) :: andBits as bs
  | _, _ => []

theorem powerWhere_inter (vals : List Val) (x y : List Bool) (hp : ∀ v ∈ vals, 0 ≤ v.power) :
    powerWhere vals x + powerWhere vals y ≤ sumPowers vals + powerWhere vals (andBits x y) := by
  induction vals generalizing x y with
  | nil => simp [powerWhere, sumPowers]
  | cons v vs ih =>
    have hv := hp v List.mem_cons_self
    have hp' : ∀ w ∈ vs, 0 ≤ w.power := fun w hw => hp w (List.mem_cons_of_mem _ hw)
    have hs := sumPowers_nonneg vs hp'
    rw [sumPowers_cons]
    cases x with
    | nil =>
      cases y with
      | nil => simp only [powerWhere, andBits]; omega
      | cons b bs =>
        have := ih [] bs hp'
        simp only [powerWhere, andBits] at this ⊢
        split <;> omega
    | cons a as =>
      cases y with
      | nil =>
        have := ih as [] hp'
        cases as <;> simp only [powerWhere, andBits] at this ⊢ <;> split <;> omega
      | cons b bs =>
        have := ih as bs hp'
        simp only [powerWhere, andBits]
        cases a <;> cases b <;> simp <;> omega

/-- QUORUM INTERSECTION: if the voters of two block ids each hold more than 2/3, the validators that voted for
BOTH hold more than 1/3 of the total -/
theorem quorum_intersection (vals : List Val) (x y : List Bool) (hp : ∀ v ∈ vals, 0 ≤ v.power)
    (hx : 3 * powerWhere vals x > 2 * sumPowers vals) (hy : 3 * powerWhere vals y > 2 * sumPowers vals) :
    3 * powerWhere vals (andBits x y) > sumPowers vals := by
  have := powerWhere_inter vals x y hp
  omega

theorem powerWhere_none (vals : List Val) (z : List Bool) (hz : ∀ b ∈ z, b = false) : powerWhere vals z = 0 := by
  induction vals generalizing z with
  | nil => simp [powerWhere]
  | cons v vs ih =>
    cases z with
    | nil => simp [powerWhere]
    | cons b bs =>
      have hb := hz b List.mem_cons_self
      subst hb
      simp [powerWhere, ih bs (fun c hc => hz c (List.mem_cons_of_mem _ hc))]

/-- … so validators that do not equivocate (nobody voted for both) cannot give two block ids a majority -/
theorem at_most_one_maj23_honest (vals : List Val) (x y : List Bool) (hp : ∀ v ∈ vals, 0 ≤ v.power)
    (hdisj : ∀ b ∈ andBits x y, b = false)
    (hx : 3 * powerWhere vals x > 2 * sumPowers vals) (hy : 3 * powerWhere vals y > 2 * sumPowers vals) : False := by
  have h := quorum_intersection vals x y hp hx hy
  rw [powerWhere_none vals _ hdisj] at h
  have := sumPowers_nonneg vals hp
  omega

/-- … and with a Byzantine set `z` below one third, every validator in the intersection being Byzantine is impossible:
two majorities need an equivocator outside `z` -/
theorem two_majorities_need_honest_equivocator (vals : List Val) (x y z : List Bool) (hp : ∀ v ∈ vals, 0 ≤ v.power)
    (hz : 3 * powerWhere vals z < sumPowers vals)
    (hx : 3 * powerWhere vals x > 2 * sumPowers vals) (hy : 3 * powerWhere vals y > 2 * sumPowers vals) :
    powerWhere vals (andBits x y) > powerWhere vals z := by
  have h := quorum_intersection vals x y hp hx hy
  omega

/-! ### Non-vacuity -/

def nvVals : List Val := (List.range 4).map (fun i => { addr := [UInt8.ofNat i], kaddr := [UInt8.ofNat i], key := i, power := 1 })
def nvB : BlockID := ⟨zeroHash, 1, [1]⟩
def nvB2 : BlockID := ⟨zeroHash, 2, [2]⟩
def nvVote (i : Nat) (b : BlockID) : Vote :=
  let v : Vote := { id := i, addr := [UInt8.ofNat i], idx := i, size := 4, height := 5, round := 0, tsSec := 0, tsNsec := 0, type := 2, bid := b, sig := .nil }
  { v with sig := .signed i (msgOf [99] v) }

def runVotes (s : Option VS) (vs : List Vote) : Option VS :=
  vs.foldl (fun st v => st.bind (fun s => (addVote symVerify s v).map (·.st))) s

/-- three of four equal validators make the majority; a fourth vote for another block does not change it;
an equivocation of validator 0 is answered with evidence -/
example : ((runVotes (newVS [99] 5 0 2 nvVals) [nvVote 0 nvB, nvVote 1 nvB]).map (·.maj23)) = some none := by decide
example : ((runVotes (newVS [99] 5 0 2 nvVals) [nvVote 0 nvB, nvVote 1 nvB, nvVote 2 nvB]).map (·.maj23)) = some (some nvB) := by decide
example : ((runVotes (newVS [99] 5 0 2 nvVals) [nvVote 0 nvB, nvVote 1 nvB, nvVote 2 nvB, nvVote 3 nvB2]).map (·.maj23)) = some (some nvB) := by decide
example : (((runVotes (newVS [99] 5 0 2 nvVals) [nvVote 0 nvB]).bind (fun s => addVote symVerify s (nvVote 0 nvB2))).map (·.err))
    = some (.conflict (nvVote 0 nvB) (nvVote 0 nvB2)) := by decide
example : (((newVS [99] 5 0 2 nvVals).bind (fun s => addVote symVerify s { nvVote 0 nvB with round := 1 })).map (·.err)) = some .step := by decide

end Props.C03
