/-
C12 (helper for non-vacuity): a concrete injective, never-empty byte encoding of `Blk`, built from
self-delimiting (prefix) codes.  It is NOT the wire format of the node; it only shows that the
hypothesis "the block encoding is injective" of `perturb_changes_id` is satisfiable.
-/
import LinkVerif.Props.C12Block

namespace Props.C12
open Model.Merkle Model.BlockId

/-- `f` is a prefix code: a code word followed by anything determines the value and the rest -/
def Pre {α : Type} (f : α → Bytes) : Prop := ∀ (a b : α) (r s : Bytes), f a ++ r = f b ++ s → a = b ∧ r = s

theorem Pre.injective {α : Type} {f : α → Bytes} (h : Pre f) : Function.Injective f := by
  intro a b hab
  exact (h a b [] [] (by rw [hab])).1

theorem Pre.comap {α β : Type} {f : β → Bytes} (h : Pre f) (g : α → β) (hg : Function.Injective g) : Pre (fun a => f (g a)) := by
  intro a b r s hh
  obtain ⟨e, hr⟩ := h _ _ r s hh
  exact ⟨hg e, hr⟩

theorem Pre.pair {α β : Type} {f : α → Bytes} {g : β → Bytes} (hf : Pre f) (hg : Pre g) :
    Pre (fun p : α × β => f p.1 ++ g p.2) := by
  intro a b r s h
  simp only [List.append_assoc] at h
  obtain ⟨e₁, h'⟩ := hf _ _ _ _ h
  obtain ⟨e₂, hr⟩ := hg _ _ _ _ h'
  exact ⟨Prod.ext e₁ e₂, hr⟩

/-- unary natural numbers -/
def eNat (n : Nat) : Bytes := List.replicate n 1 ++ [0]

theorem pre_eNat : Pre eNat := by
  intro a
  induction a with
  | zero =>
    intro b r s h
    cases b with
    | zero => simpa [eNat] using h
    | succ b => simp [eNat, List.replicate_succ] at h
  | succ a ih =>
    intro b r s h
    cases b with
    | zero => simp [eNat, List.replicate_succ] at h
    | succ b =>
      simp only [eNat, List.replicate_succ, List.cons_append, List.cons.injEq, true_and] at h
      obtain ⟨e, hr⟩ := ih b r s (by simpa [eNat] using h)
      exact ⟨by omega, hr⟩

def eByte (x : UInt8) : Bytes := [x]

theorem pre_eByte : Pre eByte := by
  intro a b r s h
  simp only [eByte, List.cons_append, List.nil_append, List.cons.injEq] at h
  exact h

/-- length-prefixed list of prefix-coded items -/
def eList {α : Type} (f : α → Bytes) (l : List α) : Bytes := eNat l.length ++ (l.map f).flatten

theorem pre_items {α : Type} {f : α → Bytes} (hf : Pre f) :
    ∀ (a b : List α) (r s : Bytes), a.length = b.length → (a.map f).flatten ++ r = (b.map f).flatten ++ s → a = b ∧ r = s := by
  intro a
  induction a with
  | nil =>
    intro b r s hl h
    cases b with
    | nil => simpa using h
    | cons y ys => simp at hl
  | cons x xs ih =>
    intro b r s hl h
    cases b with
    | nil => simp at hl
    | cons y ys =>
      simp only [List.map_cons, List.flatten_cons, List.append_assoc] at h
      obtain ⟨e, h'⟩ := hf _ _ _ _ h
      obtain ⟨e', hr⟩ := ih ys r s (by simpa using hl) h'
      exact ⟨by rw [e, e'], hr⟩

theorem pre_eList {α : Type} {f : α → Bytes} (hf : Pre f) : Pre (eList f) := by
  intro a b r s h
  simp only [eList, List.append_assoc] at h
  obtain ⟨hl, h'⟩ := pre_eNat _ _ _ _ h
  exact pre_items hf a b r s hl h'

def eOpt {α : Type} (f : α → Bytes) : Option α → Bytes
  | none => [0]
  | some a => 1 :: f a

theorem pre_eOpt {α : Type} {f : α → Bytes} (hf : Pre f) : Pre (eOpt f) := by
  intro a b r s h
  cases a <;> cases b <;> simp [eOpt] at h
  · exact ⟨rfl, h⟩
  · obtain ⟨e, hr⟩ := hf _ _ _ _ h
    exact ⟨by rw [e], hr⟩

def eBytes : Bytes → Bytes := eList eByte
theorem pre_eBytes : Pre eBytes := pre_eList pre_eByte

/-! structures as nested tuples -/

abbrev BidT := Bytes × (Nat × (Nat × Bytes))
def bidT (v : BlockIDv) : BidT := (v.hash, (v.total.toNat, ((-v.total).toNat, v.phash)))

theorem bidT_inj : Function.Injective bidT := by
  intro a b h
  cases a; cases b
  simp only [bidT, Prod.mk.injEq] at h
  obtain ⟨h1, h2, h3, h4⟩ := h
  simp only [BlockIDv.mk.injEq]
  exact ⟨h1, by omega, h4⟩

def eBidT : BidT → Bytes := fun p => eBytes p.1 ++ (fun q : Nat × (Nat × Bytes) => eNat q.1 ++ (fun t : Nat × Bytes => eNat t.1 ++ eBytes t.2) q.2) p.2
theorem pre_eBidT : Pre eBidT := Pre.pair pre_eBytes (Pre.pair pre_eNat (Pre.pair pre_eNat pre_eBytes))

abbrev FvT := Nat × (Bytes × (Nat × BidT))
def dfltBid : BlockIDv := ⟨[], 0, []⟩
def fvT : FVal → FvT
  | .str b => (0, (b, (0, bidT dfltBid)))
  | .uint n => (1, ([], (n, bidT dfltBid)))
  | .bytes b => (2, (b, (0, bidT dfltBid)))
  | .blockID v => (3, ([], (0, bidT v)))

theorem fvT_inj : Function.Injective fvT := by
  intro a b h
  cases a <;> cases b <;> simp [fvT] at h
  · rw [h]
  · rw [h]
  · rw [h]
  · rw [bidT_inj h]

def eFvT : FvT → Bytes := fun p => eNat p.1 ++ (fun q : Bytes × (Nat × BidT) => eBytes q.1 ++ (fun t : Nat × BidT => eNat t.1 ++ eBidT t.2) q.2) p.2
theorem pre_eFvT : Pre eFvT := Pre.pair pre_eNat (Pre.pair pre_eBytes (Pre.pair pre_eNat pre_eBidT))

abbrev BlkT := List FVal × (Nat × (List Bytes × (List Bytes × (BlockIDv × List (Option Bytes)))))
def blkT (b : Blk) : BlkT := (b.hashed, (b.recover, (b.txs, (b.evidence, (b.commitBlockID, b.precommits)))))

theorem blkT_inj : Function.Injective blkT := by
  intro a b h
  cases a; cases b
  simp only [blkT, Prod.mk.injEq] at h
  obtain ⟨h1, h2, h3, h4, h5, h6⟩ := h
  subst h1 h2 h3 h4 h5 h6
  rfl

def eBlkT : BlkT → Bytes := fun p =>
  eList (fun v => eFvT (fvT v)) p.1 ++ (fun q : Nat × (List Bytes × (List Bytes × (BlockIDv × List (Option Bytes)))) =>
    eNat q.1 ++ (fun t : List Bytes × (List Bytes × (BlockIDv × List (Option Bytes))) =>
      eList eBytes t.1 ++ (fun u : List Bytes × (BlockIDv × List (Option Bytes)) =>
        eList eBytes u.1 ++ (fun w : BlockIDv × List (Option Bytes) =>
          (fun v => eBidT (bidT v)) w.1 ++ eList (eOpt eBytes) w.2) u.2) t.2) q.2) p.2

theorem pre_eBlkT : Pre eBlkT :=
  Pre.pair (pre_eList (Pre.comap pre_eFvT fvT fvT_inj))
    (Pre.pair pre_eNat (Pre.pair (pre_eList pre_eBytes) (Pre.pair (pre_eList pre_eBytes)
      (Pre.pair (Pre.comap pre_eBidT bidT bidT_inj) (pre_eList (pre_eOpt pre_eBytes))))))

/-- the toy block encoding -/
def toySer (b : Blk) : Bytes := eBlkT (blkT b)

theorem toySer_injective : Function.Injective toySer :=
  (Pre.comap pre_eBlkT blkT blkT_inj).injective

theorem toySer_ne (b : Blk) : toySer b ≠ [] := by
  simp [toySer, eBlkT, eList, eNat]

/-- ALL hypotheses of `perturb_changes_id` hold together: free-term digests + the toy encoding -/
def freeScheme : Scheme FD where
  H2 := FD.node
  KV := FD.pair
  FH := FD.field
  LH := FD.part
  ser := toySer
  inj2 := by intro a b c d h; cases h; exact ⟨rfl, rfl⟩
  kv_inj := by intro k v k' v' h; cases h; exact ⟨rfl, rfl⟩
  fh_inj := by intro a b h; cases h; rfl
  lh_inj := by intro a b h; cases h; rfl
  ser_inj := toySer_injective
  ser_ne := toySer_ne

/-- non-vacuity of `perturb_changes_id`: an instance -/
example (b₁ b₂ : Blk) (h : b₁ ≠ b₂) :
    blockHash freeScheme b₁ ≠ blockHash freeScheme b₂ ∨ partsHeader freeScheme 64 b₁ ≠ partsHeader freeScheme 64 b₂ :=
  perturb_changes_id FD freeScheme 64 (by decide) b₁ b₂ h

/-- `Recover` is serialised but not hashed: two well-formed blocks that differ only there have the same
block hash (this is why the signed identity is the PAIR of block hash and part-set header).  The same
input replays on the real code: the `Recover` perturbation of every generated block keeps `Block.Hash()`
and changes `MakePartSet().Header()` (harness monitor `perturb_changes_id`). -/
theorem C12_hash_alone_counterexample : ¬ C12_hash_alone_statement := by
  intro h
  let b : Blk := ⟨List.replicate 17 (.uint 0), 0, [], [], ⟨[], 0, []⟩, []⟩
  exact h FD freeScheme b { b with recover := 1 } (by unfold Blk.WF; decide) (by unfold Blk.WF; decide) (by decide) rfl

end Props.C12
