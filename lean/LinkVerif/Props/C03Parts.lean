/-
C03 (part 7): the sign-bytes also bind the PARTS HASH of the block id (`signBytes_binds_parts_hash`): upper-case hex is
injective and self-delimiting (`hexUpper_cancel`), and in the rendering of a block id with a non-zero hash and a non-empty
parts hash the two hex strings come in sequence (`blockIDJSON_flat_parts`).  Still open of `C03_signBytes_binds_statement`:
the parts total, the empty-vs-present parts hash distinction and the time rendering.
-/
import LinkVerif.Props.C03BlockId
namespace Props.C03
open Model.Vote

theorem hexUp_inj : ∀ a b : Fin 16, hexUp a.val = hexUp b.val → a = b := by decide
theorem hexUp_ne_quote : ∀ a : Fin 16, hexUp a.val ≠ '"' := by decide

theorem hexUpper_cons (x : UInt8) (xs : List UInt8) :
    hexUpper (x :: xs) = hexUp (x.toNat / 16) :: hexUp (x.toNat % 16) :: hexUpper xs := rfl

/-- upper-case hex (the parts hash) is injective and cannot run past the closing quote -/
theorem hexUpper_cancel (a b : List UInt8) (r r' : List Char)
    (h : hexUpper a ++ '"' :: r = hexUpper b ++ '"' :: r') : a = b ∧ r = r' := by
  induction a generalizing b with
  | nil =>
    cases b with
    | nil => simpa [hexUpper] using h
    | cons y ys =>
      rw [hexUpper_cons] at h
      simp only [hexUpper, List.foldr_nil, List.nil_append, List.cons_append, List.cons.injEq] at h
      exact absurd h.1.symm (hexUp_ne_quote ⟨y.toNat / 16, byte_hi_lt y⟩)
  | cons x xs ih =>
    cases b with
    | nil =>
      rw [hexUpper_cons] at h
      simp only [hexUpper, List.foldr_nil, List.nil_append, List.cons_append, List.cons.injEq] at h
      exact absurd h.1 (hexUp_ne_quote ⟨x.toNat / 16, byte_hi_lt x⟩)
    | cons y ys =>
      rw [hexUpper_cons, hexUpper_cons] at h
      simp only [List.cons_append, List.cons.injEq] at h
      obtain ⟨h1, h2, h3⟩ := h
      have e1 := hexUp_inj ⟨x.toNat / 16, byte_hi_lt x⟩ ⟨y.toNat / 16, byte_hi_lt y⟩ h1
      have e2 := hexUp_inj ⟨x.toNat % 16, Nat.mod_lt _ (by decide)⟩ ⟨y.toNat % 16, Nat.mod_lt _ (by decide)⟩ h2
      simp only [Fin.mk.injEq] at e1 e2
      have exy : x = y := by
        apply UInt8.toNat_inj.mp
        omega
      obtain ⟨et, er⟩ := ih ys h3
      exact ⟨by rw [exy, et], er⟩

/-- block id with a non-zero hash and a non-empty parts hash: both hex strings in sequence -/
theorem blockIDJSON_flat_parts (b : BlockID) (hb : b.hash ≠ zeroHash) (hp : b.phash ≠ []) :
    ∃ tail, blockIDJSON b = "{\"hash\":\"0x".toList ++ (hexLower b.hash ++ '"' ::
      (",\"parts\":{\"hash\":\"".toList ++ (hexUpper b.phash ++ '"' :: tail))) := by
  by_cases ht : b.total = 0
  · exact ⟨['}', '}'], by simp [blockIDJSON, partsJSON, obj, field, q, str, List.intercalate, hb, hp, ht]⟩
  · exact ⟨",\"total\":\"".toList ++ ((toString b.total).toList ++ ['"', '}', '}']),
      by simp [blockIDJSON, partsJSON, obj, field, q, str, List.intercalate, hb, hp, ht]⟩

/-- PARTIAL of `C03_signBytes_binds_statement` (proved): for ASCII chain ids and votes for a block with a parts hash, equal
sign-bytes force the same chain, block hash AND parts hash, with no assumption on any other field. -/
theorem signBytes_binds_parts_hash (m m' : Msg) (hc : ∀ b ∈ m.chain, b.toNat < 128) (hc' : ∀ b ∈ m'.chain, b.toNat < 128)
    (hb : m.bid.hash ≠ zeroHash) (hb' : m'.bid.hash ≠ zeroHash) (hp : m.bid.phash ≠ []) (hp' : m'.bid.phash ≠ [])
    (h : signBytes m = signBytes m') :
    m.chain = m'.chain ∧ m.bid.hash = m'.bid.hash ∧ m.bid.phash = m'.bid.phash := by
  rw [signBytes_flat, signBytes_flat] at h
  have h1 := List.append_cancel_left h
  obtain ⟨echain, h2⟩ := jsonEsc_cancel m.chain m'.chain hc hc' _ _ h1
  have h3 := List.append_cancel_left (List.cons.inj h2).2
  obtain ⟨t, e⟩ := blockIDJSON_flat_parts m.bid hb hp
  obtain ⟨t', e'⟩ := blockIDJSON_flat_parts m'.bid hb' hp'
  rw [e, e'] at h3
  simp only [List.append_assoc, List.cons_append] at h3
  obtain ⟨eh, h4⟩ := hexLower_cancel _ _ _ _ (List.append_cancel_left h3)
  obtain ⟨ep, _⟩ := hexUpper_cancel _ _ _ _ (List.append_cancel_left h4)
  exact ⟨echain, eh, ep⟩

example : signBytes bhA ≠ signBytes { bhA with bid := ⟨bhA.bid.hash, 1, [10]⟩ } := by
  intro h
  have := (signBytes_binds_parts_hash _ _ (by decide) (by decide) (by decide) (by decide) (by decide) (by decide) h).2.2
  revert this; decide

end Props.C03
