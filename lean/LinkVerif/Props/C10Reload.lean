/-
C10: commit + reopen recovers the tree.  `expand` is the full resolution of a database-resident (collapsed) node:
hash references are looked up in the node database and decoded with the executable decoder (trie.resolveHash +
decodeNode, applied everywhere instead of on demand).  If the database holds every node of `n` under its hash
(`Stored`, what Commit establishes when no two stored encodings collide), expanding the committed root gives back `n`:
a reopened trie is the same tree, so every later operation and every later root is the same as without the reload.
-/
import LinkVerif.Props.C10Sane

namespace Props.C10
open Model.Trie

def expand (H : Bytes → Bytes) (db : Bytes → Option Bytes) : Nat → CNode → Option Node
  | 0, _ => none
  | _ + 1, .nil => some .nil
  | _ + 1, .value v => some (.value v)
  | f + 1, .hash h =>
    match db h with
    | some buf =>
      match decodeExec buf with
      | .ok n => expand H db f n
      | _ => none
    | none => none
  | f + 1, .short k c => (expand H db f c).map (.short k)
  | f + 1, .full c =>
    if (List.finRange 17).all (fun i => (expand H db f (c i)).isSome) then
      some (.full fun i => (expand H db f (c i)).getD .nil)
    else none

/-- the database resolves the hash of every short/full node of the tree to its encoding -/
def Stored (H : Bytes → Bytes) (db : Bytes → Option Bytes) : Node → Prop
  | .nil => True
  | .value _ => True
  | .short k c => db (H (enc H (.short k c))) = some (enc H (.short k c)) ∧ Stored H db c
  | .full c => db (H (enc H (.full c))) = some (enc H (.full c)) ∧ ∀ i, Stored H db (c i)

/-- fuel that suffices: two steps per level (reference + node) -/
def height : Node → Nat
  | .nil => 1
  | .value _ => 1
  | .short _ c => height c + 2
  | .full c => 2 + ((List.finRange 17).map fun i => height (c i)).sum

theorem mem_le_sum : ∀ (l : List Nat) (x : Nat), x ∈ l → x ≤ l.sum
  | [], _, h => by cases h
  | a :: l, x, h => by
    simp only [List.sum_cons]
    rcases List.mem_cons.mp h with rfl | h'
    · omega
    · have := mem_le_sum l x h'; omega

theorem height_child_le (c : Nib → Node) (i : Nib) : height (c i) ≤ ((List.finRange 17).map fun i => height (c i)).sum :=
  mem_le_sum _ _ (List.mem_map.mpr ⟨i, List.mem_finRange i, rfl⟩)

theorem stored_lookup (H : Bytes → Bytes) (db : Bytes → Option Bytes) : ∀ (c : Node), WF c → c.isValue = false →
    Stored H db c → db (H (enc H c)) = some (enc H c)
  | .nil, h, _, _ => absurd h (by simp [WF])
  | .value _, _, h, _ => by simp [Node.isValue] at h
  | .short _ _, _, _, hs => hs.1
  | .full _, _, _, hs => hs.1

/-- resolving the reference to a child -/
theorem expand_ref (H : Bytes → Bytes) (h32 : H32 H) (db : Bytes → Option Bytes) (c : Node)
    (ih : ∀ fuel, height c ≤ fuel → expand H db fuel (collapse H c) = some c)
    (hw : WF c) (hv : c.isValue = false) (hs : Sane H c) (hst : Stored H db c) (f : Nat) (hf : height c + 1 ≤ f) :
    expand H db f (refOf H c) = some c := by
  unfold refOf
  by_cases hsmall : (enc H c).length < 32
  · simp only [hsmall, if_true]; exact ih f (by omega)
  · simp only [hsmall, if_false]
    cases f with
    | zero => omega
    | succ f' =>
      have e1 := stored_lookup H db c hw hv hst
      have e2 := decodeExec_enc H h32 c hw hv hs
      generalize enc H c = e at e1 e2 ⊢
      simp only [expand, e1, e2]
      exact ih f' (by omega)

/-- COMMIT + REOPEN: full resolution of the committed form gives back the tree -/
theorem expand_collapse (H : Bytes → Bytes) (h32 : H32 H) (db : Bytes → Option Bytes) :
    ∀ (n : Node) (v : Bool), Pos v n → Sane H n → Stored H db n →
      ∀ fuel, height n ≤ fuel → expand H db fuel (collapse H n) = some n := by
  intro n
  induction n with
  | nil =>
    intro _ _ _ _ fuel hf
    cases fuel with
    | zero => simp [height] at hf
    | succ f => simp [collapse, expand]
  | value w =>
    intro _ _ _ _ fuel hf
    cases fuel with
    | zero => simp [height] at hf
    | succ f => simp [collapse, expand]
  | short k c ihc =>
    intro _ hp hs hst fuel hf
    rcases hp with h | ⟨hw, _⟩
    · simp [Node.isNil] at h
    · obtain ⟨_, hcs, hwc⟩ := hw
      cases fuel with
      | zero => simp [height] at hf
      | succ f =>
        simp only [height] at hf
        have ih := ihc c.isValue (Or.inr ⟨hwc, rfl⟩) hs.2 hst.2
        by_cases hv : c.isValue = true
        · have hcol : collapse H (.short k c) = .short k (collapse H c) := by simp [collapse, hv]
          rw [hcol]
          simp only [expand, ih f (by omega)]
          rfl
        · have hv' : c.isValue = false := by cases h : c.isValue <;> simp_all
          rw [collapse_short_ref H k c hv']
          simp only [expand, expand_ref H h32 db c ih hwc hv' hs.2 hst.2 f (by omega)]
          rfl
  | full c ihc =>
    intro _ hp hs hst fuel hf
    rcases hp with h | ⟨hw, _⟩
    · simp [Node.isNil] at h
    · obtain ⟨hall, _⟩ := hw
      cases fuel with
      | zero => simp [height] at hf
      | succ f =>
        simp only [height] at hf
        have hchild : ∀ i, expand H db f (fullFn H c i) = some (c i) := by
          intro i
          have hle := height_child_le c i
          rcases hall i with h0 | ⟨hwi, hvi⟩
          · have e : c i = .nil := isNil_eq h0
            have : fullFn H c i = .nil := by
              simp only [fullFn]; split <;> simp [e, collapse, refOf_nil]
            rw [this, e]
            cases f with
            | zero => omega
            | succ f' => simp [expand]
          · have ih := ihc i (c i).isValue (Or.inr ⟨hwi, rfl⟩) (hs.2 i) (hst.2 i)
            by_cases hi : i = term
            · simp only [fullFn, hi, if_true]
              rw [hi] at ih hle
              exact ih f (by omega)
            · simp only [fullFn, hi, if_false]
              have hv' : (c i).isValue = false := by
                cases h : (c i).isValue
                · rfl
                · exact absurd (hvi.mp h) hi
              exact expand_ref H h32 db (c i) ih hwi hv' (hs.2 i) (hst.2 i) f (by omega)
        rw [collapse_full]
        simp only [expand, hchild]
        simp

/-- reopening: resolve the root hash, then everything below it -/
def reload (H : Bytes → Bytes) (db : Bytes → Option Bytes) (fuel : Nat) (rootHash : Bytes) : Option Node :=
  expand H db fuel (.hash rootHash)

/-- FULL STATEMENT: a non-empty normal-form trie whose nodes are all in the database is recovered from its root hash
alone — commit followed by reopen is the identity on trees, hence on every later lookup, update and root -/
def C10_reload_statement : Prop :=
  ∀ (H : Bytes → Bytes), H32 H → ∀ (db : Bytes → Option Bytes) (n : Node), Pos false n → n.isNil = false → Sane H n →
    Stored H db n → reload H db (height n + 1) (root H n) = some n

theorem C10_reload : C10_reload_statement := by
  intro H h32 db n hn hne hs hst
  rcases hn with h | ⟨hw, hv⟩
  · rw [h] at hne; cases hne
  · unfold reload root
    have e1 := stored_lookup H db n hw hv hst
    have e2 := decodeExec_enc H h32 n hw hv hs
    generalize enc H n = e at e1 e2 ⊢
    simp only [expand, e1, e2]
    exact expand_collapse H h32 db n false (Or.inr ⟨hw, hv⟩) hs hst (height n) (Nat.le_refl _)

end Props.C10
