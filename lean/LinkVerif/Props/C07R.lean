import LinkVerif.Model.LedgerR
import LinkVerif.Props.C07
import LinkVerif.Props.C06R

/-!
# C07R — every spendable unit is spent at most once, for histories whose forced blocks are executed as the real
`Process` executes them (`Model.LedgerR.forceBlockR`: a value-underfunded account transfer stays in the block with a failed
receipt and its nonce is CONSUMED)

* `keyimage_once_R`: no key image is ever committed twice along any sequence of submissions, mempool blocks, forced blocks
  (receipt-accurate) and restarts;
* `account_tx_once_R`: an account transaction that a committed block EXECUTED OR FAILED is never valid again and never
  fails again — in every later state of every run it is neither `txValid` nor `vmFailsR`, so every block holding it is
  execution-invalid (`execBlockR_stale_none`);
* `nonce_monotone_R`, `execBlockR_acct_no_repeat` (no block holds the same account transaction twice, executed or failed).
Core Lean only; add-only.
-/
namespace Props.C07R
open Model.Ledger
open Props.C06 (execTx_spentImgs execTx_nonce admitTx_frame recsOf block_eq)
open Props.C06R (execBlock_sub_R execBlockRS_some forceBlockR_eq)
open Props.C07 (Op restart imgsOf imgsOf_cons_uin imgsOf_cons_acct txValid_uin txValid_acct_nonce nodup_snoc getn_setN
  execTx_nonce_mono execTx_nonce_length nonce_step init_nonce_length)

/-! ## what a failed receipt does -/

theorem vmFailsR_acct {s : St} {t : TxRec} (h : vmFailsR s t = true) : t.kind ≠ .uin ∧ getn s.nonce t.from_ = t.nonce := by
  unfold vmFailsR at h
  simp only [Bool.and_eq_true, Bool.or_eq_true, decide_eq_true_eq, beq_iff_eq] at h
  refine ⟨?_, h.1.2⟩
  rcases h.1.1 with h1 | h1 <;> rw [h1] <;> decide

theorem failTx_nonce_mono {s : St} {t : TxRec} (h : vmFailsR s t = true) (j : Nat) : getn s.nonce j ≤ getn (failTx s t).nonce j := by
  show getn s.nonce j ≤ getn (setN s.nonce t.from_ (t.nonce + 1)) j
  rw [getn_setN]
  split
  · rename_i hc; rw [← hc.1, (vmFailsR_acct h).2]; exact Nat.le_succ _
  · exact Nat.le_refl _

theorem failTx_nonce_length (s : St) (t : TxRec) : (failTx s t).nonce.length = s.nonce.length := by
  show (setN s.nonce t.from_ (t.nonce + 1)).length = _
  simp [setN]

theorem failTx_nonce_step {s : St} {t : TxRec} (hlt : t.from_ < s.nonce.length) : getn (failTx s t).nonce t.from_ = t.nonce + 1 := by
  show getn (setN s.nonce t.from_ (t.nonce + 1)) t.from_ = _
  rw [getn_setN, if_pos ⟨rfl, hlt⟩]

/-- the step lemma of the receipt-accurate execution -/
theorem execBlockR_cons {s s' : St} {seen : List Nat} {t : TxRec} {rest : List TxRec} (he : execBlockR s seen (t :: rest) = some s') :
    (txValid s seen t = true ∧ execBlockR (execTx s t) (if t.kind = .uin then t.spends :: seen else seen) rest = some s') ∨
    (txValid s seen t = false ∧ vmFailsR s t = true ∧ execBlockR (failTx s t) seen rest = some s') := by
  unfold execBlockR at he
  split at he
  · rename_i hv; exact Or.inl ⟨hv, he⟩
  · rename_i hv
    split at he
    · rename_i hf; exact Or.inr ⟨by simpa using hv, hf, he⟩
    · cases he

/-! ## key images -/

theorem execBlockR_spentImgs {s s' : St} {seen : List Nat} {recs : List TxRec} (he : execBlockR s seen recs = some s') :
    s'.spentImgs = s.spentImgs ++ imgsOf recs := by
  induction recs generalizing s seen with
  | nil => simp only [execBlockR, Option.some.injEq] at he; subst he; simp [imgsOf]
  | cons t rest ih =>
    rcases execBlockR_cons he with ⟨_, he'⟩ | ⟨_, hf, he'⟩
    · rw [ih he', execTx_spentImgs]
      by_cases hk : t.kind = .uin
      · rw [if_pos hk, imgsOf_cons_uin rest hk]; simp
      · rw [if_neg hk, imgsOf_cons_acct rest hk]
    · rw [ih he', imgsOf_cons_acct rest (vmFailsR_acct hf).1]; rfl

theorem execBlockR_spent_nodup {s s' : St} {seen : List Nat} {recs : List TxRec} (hnd : s.spentImgs.Nodup)
    (hseen : ∀ x ∈ seen, x ∈ s.spentImgs) (he : execBlockR s seen recs = some s') : s'.spentImgs.Nodup := by
  induction recs generalizing s seen with
  | nil => simp only [execBlockR, Option.some.injEq] at he; subst he; exact hnd
  | cons t rest ih =>
    rcases execBlockR_cons he with ⟨hv, he'⟩ | ⟨_, _, he'⟩
    · by_cases hk : t.kind = .uin
      · rw [if_pos hk] at he'
        have hfresh := ((txValid_uin hk).mp hv).1
        apply ih _ _ he'
        · rw [execTx_spentImgs, if_pos hk]; exact nodup_snoc hnd hfresh
        · intro x hx
          rw [execTx_spentImgs, if_pos hk]
          rcases List.mem_cons.mp hx with rfl | hx'
          · simp
          · exact List.mem_append_left _ (hseen x hx')
      · rw [if_neg hk] at he'
        apply ih _ _ he'
        · rw [execTx_spentImgs, if_neg hk]; exact hnd
        · rw [execTx_spentImgs, if_neg hk]; exact hseen
    · exact ih (s := failTx s t) hnd hseen he'

/-- no image of a block the real execution accepts was committed before, and no two transactions of it share one -/
theorem execBlockR_images_fresh {s s' : St} {recs : List TxRec} (hnd : s.spentImgs.Nodup)
    (he : execBlockR s [] recs = some s') : (s.spentImgs ++ imgsOf recs).Nodup := by
  rw [← execBlockR_spentImgs he]
  exact execBlockR_spent_nodup hnd (fun x hx => absurd hx (List.not_mem_nil)) he

/-! ## nonces -/

theorem execBlockR_nonce_mono {s s' : St} {seen : List Nat} {recs : List TxRec} (he : execBlockR s seen recs = some s')
    (j : Nat) : getn s.nonce j ≤ getn s'.nonce j := by
  induction recs generalizing s seen with
  | nil => simp only [execBlockR, Option.some.injEq] at he; subst he; exact Nat.le_refl _
  | cons t rest ih =>
    rcases execBlockR_cons he with ⟨hv, he'⟩ | ⟨_, hf, he'⟩
    · exact Nat.le_trans (execTx_nonce_mono hv j) (ih he')
    · exact Nat.le_trans (failTx_nonce_mono hf j) (ih he')

theorem execBlockR_nonce_length {s s' : St} {seen : List Nat} {recs : List TxRec} (he : execBlockR s seen recs = some s') :
    s'.nonce.length = s.nonce.length := by
  induction recs generalizing s seen with
  | nil => simp only [execBlockR, Option.some.injEq] at he; subst he; rfl
  | cons t rest ih =>
    rcases execBlockR_cons he with ⟨_, he'⟩ | ⟨_, _, he'⟩
    · rw [ih he', execTx_nonce_length]
    · rw [ih he', failTx_nonce_length]

/-- after a block that EXECUTED OR FAILED the account transaction `t`, the sender's committed nonce is above `t.nonce` -/
theorem execBlockR_mem_nonce {s s' : St} {seen : List Nat} {recs : List TxRec} {t : TxRec}
    (he : execBlockR s seen recs = some s') (ht : t ∈ recs) (hk : t.kind ≠ .uin) (hlt : t.from_ < s.nonce.length) :
    t.nonce < getn s'.nonce t.from_ := by
  induction recs generalizing s seen with
  | nil => simp at ht
  | cons u rest ih =>
    rcases execBlockR_cons he with ⟨_, he'⟩ | ⟨_, _, he'⟩
    · rcases List.mem_cons.mp ht with rfl | ht'
      · have h1 := (nonce_step (s := s) hk hlt).1
        have h2 := execBlockR_nonce_mono he' t.from_
        omega
      · exact ih he' ht' (by rw [execTx_nonce_length]; exact hlt)
    · rcases List.mem_cons.mp ht with rfl | ht'
      · have h1 := failTx_nonce_step (s := s) (t := t) hlt
        have h2 := execBlockR_nonce_mono he' t.from_
        omega
      · exact ih he' ht' (by rw [failTx_nonce_length]; exact hlt)

/-- an account transaction whose nonce is below the committed one neither executes nor fails: it makes the block invalid -/
theorem nonce_low_dead {s : St} {seen : List Nat} {t : TxRec} (hk : t.kind ≠ .uin) (h : t.nonce < getn s.nonce t.from_) :
    txValid s seen t = false ∧ vmFailsR s t = false := by
  refine ⟨Props.C07.nonce_low_invalid hk h, ?_⟩
  cases hf : vmFailsR s t with
  | false => rfl
  | true => have := (vmFailsR_acct hf).2; omega

/-- a block holding a transaction that neither executes nor fails anywhere from here on is execution-invalid; used with
`nonce_low_dead` and nonce monotonicity -/
theorem execBlockR_stale_none {s : St} {seen : List Nat} {recs : List TxRec} {t : TxRec} (ht : t ∈ recs) (hk : t.kind ≠ .uin)
    (h : t.nonce < getn s.nonce t.from_) : execBlockR s seen recs = none := by
  cases he : execBlockR s seen recs with
  | none => rfl
  | some s' =>
    exfalso
    induction recs generalizing s seen with
    | nil => simp at ht
    | cons u rest ih =>
      rcases execBlockR_cons he with ⟨hv, he'⟩ | ⟨hv, hf, he'⟩
      · rcases List.mem_cons.mp ht with rfl | ht'
        · rw [(nonce_low_dead (seen := seen) hk h).1] at hv; cases hv
        · exact ih ht' (Nat.lt_of_lt_of_le h (execTx_nonce_mono hv t.from_)) he'
      · rcases List.mem_cons.mp ht with rfl | ht'
        · rw [(nonce_low_dead (seen := seen) hk h).2] at hf; cases hf
        · exact ih ht' (Nat.lt_of_lt_of_le h (failTx_nonce_mono hf t.from_)) he'

/-- no block holds the same account transaction twice, whether it executes or fails the first time -/
theorem execBlockR_acct_no_repeat {s : St} {seen : List Nat} {t : TxRec} {rest : List TxRec} (hk : t.kind ≠ .uin)
    (hlt : t.from_ < s.nonce.length) (ht : t ∈ rest) : execBlockR s seen (t :: rest) = none := by
  cases he : execBlockR s seen (t :: rest) with
  | none => rfl
  | some s' =>
    exfalso
    rcases execBlockR_cons he with ⟨_, he'⟩ | ⟨_, _, he'⟩
    · have h1 : t.nonce < getn (execTx s t).nonce t.from_ := by rw [(nonce_step (s := s) hk hlt).1]; exact Nat.lt_succ_self _
      rw [execBlockR_stale_none ht hk h1] at he'; cases he'
    · have h1 : t.nonce < getn (failTx s t).nonce t.from_ := by rw [failTx_nonce_step hlt]; exact Nat.lt_succ_self _
      rw [execBlockR_stale_none ht hk h1] at he'; cases he'

/-! ## the operations of a node's life, forced blocks executed as the real `Process` executes them -/

/-- one operation, as the drivers (`Driver.C06`, `Driver.C07`) apply them since they use `forceBlockR` -/
def stepR (s : St) : Op → St
  | .submit t => (admitTx { s with txs := s.txs ++ [t] } s.txs.length t).2
  | .block => block s
  | .force ids => (forceBlockR s ids).1
  | .restart => restart s

def runR (s : St) : List Op → St
  | [] => s
  | op :: ops => runR (stepR s op) ops

theorem runR_induct (P : St → Prop) (hstep : ∀ s op, P s → P (stepR s op)) (s : St) (ops : List Op) (h : P s) :
    P (runR s ops) := by
  induction ops generalizing s with
  | nil => exact h
  | cons op ops ih => exact ih _ (hstep s op h)

/-- every operation either leaves the committed nonces and key images alone, or commits a block the real execution accepted -/
theorem stepR_cases (s : St) (op : Op) :
    ((stepR s op).nonce = s.nonce ∧ (stepR s op).spentImgs = s.spentImgs) ∨
    (∃ recs s', execBlockR s [] recs = some s' ∧ (stepR s op).nonce = s'.nonce ∧ (stepR s op).spentImgs = s'.spentImgs) := by
  cases op with
  | submit t =>
    left
    obtain ⟨_, _, _, _, h5, _, h7, _, _⟩ := admitTx_frame { s with txs := s.txs ++ [t] } s.txs.length t
    exact ⟨h5, h7⟩
  | restart => left; exact ⟨rfl, rfl⟩
  | block =>
    simp only [stepR, block_eq]
    cases he : execBlock s [] (recsOf s s.pending) with
    | none => left; exact ⟨rfl, rfl⟩
    | some s' => right; exact ⟨_, s', execBlock_sub_R he, rfl, rfl⟩
  | force ids =>
    simp only [stepR, forceBlockR_eq]
    cases he : execBlockRS s [] (recsOf s ids) with
    | none => left; exact ⟨rfl, rfl⟩
    | some p =>
      obtain ⟨s', sts⟩ := p
      cases hb : (recsOf s ids).any (fun t => t.broken.isSome) with
      | true => left; exact ⟨rfl, rfl⟩
      | false => right; exact ⟨_, s', execBlockRS_some he, rfl, rfl⟩

theorem stepR_spent_nodup (s : St) (op : Op) (h : s.spentImgs.Nodup) : (stepR s op).spentImgs.Nodup := by
  rcases stepR_cases s op with ⟨_, h2⟩ | ⟨recs, s', he, _, h2⟩
  · rw [h2]; exact h
  · rw [h2]; exact execBlockR_spent_nodup h (fun x hx => absurd hx (List.not_mem_nil)) he

/-- **C07R (confidential outputs)**: no key image is ever committed twice, forced blocks with failed receipts included -/
theorem keyimage_once_R (a w : Nat) (b tb : Int) (ops : List Op) : (runR (init a w b tb) ops).spentImgs.Nodup :=
  runR_induct (fun s => s.spentImgs.Nodup) stepR_spent_nodup _ ops List.nodup_nil

theorem stepR_spent_mono (s : St) (op : Op) {x : Nat} (h : x ∈ s.spentImgs) : x ∈ (stepR s op).spentImgs := by
  rcases stepR_cases s op with ⟨_, h2⟩ | ⟨recs, s', he, _, h2⟩
  · rw [h2]; exact h
  · rw [h2, execBlockR_spentImgs he]; exact List.mem_append_left _ h

theorem stepR_nonce_mono (s : St) (op : Op) (j : Nat) : getn s.nonce j ≤ getn (stepR s op).nonce j := by
  rcases stepR_cases s op with ⟨h1, _⟩ | ⟨recs, s', he, h1, _⟩
  · rw [h1]; exact Nat.le_refl _
  · rw [h1]; exact execBlockR_nonce_mono he j

/-- along any run every committed nonce is non-decreasing -/
theorem nonce_monotone_R (s : St) (ops : List Op) (j : Nat) : getn s.nonce j ≤ getn (runR s ops).nonce j := by
  induction ops generalizing s with
  | nil => exact Nat.le_refl _
  | cons op ops ih => exact Nat.le_trans (stepR_nonce_mono s op j) (ih _)

theorem stepR_nonce_length (s : St) (op : Op) : (stepR s op).nonce.length = s.nonce.length := by
  rcases stepR_cases s op with ⟨h1, _⟩ | ⟨recs, s', he, h1, _⟩
  · rw [h1]
  · rw [h1]; exact execBlockR_nonce_length he

theorem runR_nonce_length (s : St) (ops : List Op) : (runR s ops).nonce.length = s.nonce.length := by
  induction ops generalizing s with
  | nil => rfl
  | cons op ops ih => exact (ih _).trans (stepR_nonce_length s op)

/-- a committed key image is refused in every later block position of every run -/
theorem spent_refused_forever_R {s : St} {t : TxRec} (hk : t.kind = .uin) (h : t.spends ∈ s.spentImgs) (ops : List Op)
    (seen : List Nat) : txValid (runR s ops) seen t = false ∧ vmFailsR (runR s ops) t = false := by
  have hmem : t.spends ∈ (runR s ops).spentImgs := by
    induction ops generalizing s with
    | nil => exact h
    | cons op ops ih => exact ih (stepR_spent_mono s op h)
  refine ⟨Props.C07.spent_image_invalid hk hmem, ?_⟩
  cases hf : vmFailsR (runR s ops) t with
  | false => rfl
  | true => exact absurd hk (vmFailsR_acct hf).1

/-- **C07R (account transactions)**: once a committed block has EXECUTED OR FAILED an account transaction (receipt status 1
or 0), it is dead in every later state of every run: it neither executes nor fails again, and every block holding it is
execution-invalid -/
theorem account_tx_once_R {s s' : St} {recs : List TxRec} {t : TxRec} (he : execBlockR s [] recs = some s')
    (ht : t ∈ recs) (hk : t.kind ≠ .uin) (hlt : t.from_ < s.nonce.length) {s'' : St} (hs : s''.nonce = s'.nonce)
    (ops : List Op) (seen : List Nat) :
    txValid (runR s'' ops) seen t = false ∧ vmFailsR (runR s'' ops) t = false ∧
    ∀ blk, t ∈ blk → execBlockR (runR s'' ops) seen blk = none := by
  have hlow : t.nonce < getn (runR s'' ops).nonce t.from_ :=
    Nat.lt_of_lt_of_le (by rw [hs]; exact execBlockR_mem_nonce he ht hk hlt) (nonce_monotone_R s'' ops t.from_)
  exact ⟨(nonce_low_dead (seen := seen) hk hlow).1, (nonce_low_dead (seen := seen) hk hlow).2, fun blk hb => execBlockR_stale_none hb hk hlow⟩

/-- closed form along runs from genesis -/
theorem account_tx_once_run_R (a w : Nat) (b tb : Int) (ops₁ : List Op) {t : TxRec} (hk : t.kind ≠ .uin) (hlt : t.from_ < a)
    {recs : List TxRec} {s' : St} (he : execBlockR (runR (init a w b tb) ops₁) [] recs = some s') (ht : t ∈ recs)
    {s'' : St} (hs : s''.nonce = s'.nonce) (ops : List Op) (seen : List Nat) :
    txValid (runR s'' ops) seen t = false ∧ vmFailsR (runR s'' ops) t = false :=
  let h := account_tx_once_R he ht hk (by rw [runR_nonce_length, init_nonce_length]; exact hlt) hs ops seen
  ⟨h.1, h.2.1⟩

/-! ## the statement -/

/-- C07 for histories whose forced blocks are executed as the real `Process` executes them: (1) no key image is ever
committed twice; (2) an account transaction that a committed block executed OR failed is never valid again and never fails
again.  Along every sequence of operations from genesis, Byzantine forced blocks and restarts included. -/
def C07R_statement : Prop :=
  (∀ (a w : Nat) (b tb : Int) (ops : List Op), (runR (init a w b tb) ops).spentImgs.Nodup) ∧
  (∀ (a w : Nat) (b tb : Int) (ops₁ : List Op) (t : TxRec) (recs : List TxRec) (s' s'' : St), t.kind ≠ .uin → t.from_ < a →
    execBlockR (runR (init a w b tb) ops₁) [] recs = some s' → t ∈ recs → s''.nonce = s'.nonce →
    ∀ (ops : List Op) (seen : List Nat), txValid (runR s'' ops) seen t = false ∧ vmFailsR (runR s'' ops) t = false)

theorem C07R_holds : C07R_statement :=
  ⟨keyimage_once_R, fun a w b tb ops₁ _ _ _ _ hk hlt he ht hs ops seen =>
    account_tx_once_run_R a w b tb ops₁ hk hlt he ht hs ops seen⟩

/-- on histories without failing transactions in forced blocks the two step functions agree on what C07 observes -/
theorem stepR_eq_step_of_ok (s : St) (ids : List Nat) (h : (forceBlock s ids).2 = "ok") :
    stepR s (.force ids) = Props.C07.step s (.force ids) := (Props.C06R.forceBlock_ok_R h).1

/-! ## non-vacuity -/

def nv_under : TxRec := { kind := .xfer, from_ := 0, to := 1, amount := 2000000000, nonce := 0, gas := calGas 2000000000 }
def nv_next : TxRec := { kind := .xfer, from_ := 0, to := 1, amount := 5, nonce := 1, gas := calGas 5 }
def nv_s : St := init 2 1 100000000 1000

/-- the underfunded transfer is refused by the mempool, FAILS in a forced block (nonce 0 → 1, balances untouched), is dead
afterwards (forcing it again is execution-invalid, replaying it is refused as stale), and the sender's next nonce works -/
example :
    let s1 := runR nv_s [.submit nv_under, .force [0]]
    s1.nonce = [1, 0] ∧ s1.bal = [100000000, 100000000] ∧ s1.height = 1 ∧
    (forceBlockR s1 [0]).2.1 = "propose=panic" ∧ (admitTx s1 0 nv_under).1 = "nonce-low" ∧
    txValid s1 [] nv_under = false ∧ vmFailsR s1 nv_under = false ∧
    (runR s1 [.submit nv_next, .block]).nonce = [2, 0] := by decide

/-- the hypothesis of `account_tx_once_R` is met by that forced block -/
example : ∃ s', execBlockR (runR nv_s [.submit nv_under]) [] [nv_under] = some s' ∧ s'.nonce = [1, 0] :=
  ⟨_, rfl, by decide⟩

end Props.C07R
