/-
C10: soundness of proof verification against the root of a normal-form trie, for ANY content-addressed proof database,
under collision-freeness of `H` (hypothesis) and a decoder that inverts the honest encoder (hypothesis).
-/
import LinkVerif.Model.TrieProof
import LinkVerif.Props.C10Iter

namespace Props.C10
open Model.Trie

/-- what one decoded honest node tells the verifier about `key` -/
def StepOK (H : Bytes → Bytes) (s : Node) (key : List Nib) : Step → Prop
  | .found x => Model.Trie.get s key = some x
  | .absent => Model.Trie.get s key = none
  | .goto h rest => ∃ s', WF s' ∧ s'.isValue = false ∧ KeyAt false rest ∧ h = H (enc H s') ∧
      Model.Trie.get s key = Model.Trie.get s' rest
  | .panic => False

theorem enc_nil_short (H : Bytes → Bytes) : (enc H .nil).length < 32 := by simp [enc]

theorem cget_collapse (H : Bytes → Bytes) : ∀ (s : Node) (v : Bool) (key : List Nib), Pos v s → KeyAt v key →
    StepOK H s key (cget (collapse H s) key)
  | .nil, _, _, _, _ => by simp [collapse, cget, StepOK, Model.Trie.get]
  | .value w, _, _, _, _ => by simp [collapse, cget, StepOK, Model.Trie.get]
  | .short k c, v, key, hp, hk => by
    rcases hp with h | ⟨hw, hvn⟩
    · simp [Node.isNil] at h
    · have hv : v = false := by rw [← hvn]; rfl
      subst hv
      obtain ⟨hkk, _, hwc⟩ := hw
      simp only [collapse, cget]
      cases hst : strip k key with
      | none => simp [StepOK, get_short_bind, hst]
      | some r =>
        have e := strip_eq_some.mp hst
        have hr : KeyAt c.isValue r := suf_of_append hkk (by rw [← e]; exact hk.1)
        have hg : Model.Trie.get (.short k c) key = Model.Trie.get c r := by rw [get_short_bind, hst]; rfl
        simp only
        by_cases hc : (c.isValue || decide ((enc H c).length < 32)) = true
        · simp only [hc, if_true]
          have ih := cget_collapse H c c.isValue r (Or.inr ⟨hwc, rfl⟩) hr
          revert ih
          cases cget (collapse H c) r <;> simp only [StepOK, hg] <;> exact id
        · simp only [hc]
          simp only [Bool.or_eq_true, decide_eq_true_eq, not_or, Bool.not_eq_true] at hc
          simp only [Bool.false_eq_true, if_false, cget, StepOK]
          rw [hc.1] at hr
          exact ⟨c, hwc, hc.1, hr, rfl, hg⟩
  | .full c, v, key, hp, hk => by
    cases key with
    | nil =>
      exfalso
      have hv : v = true := hk.2.mp rfl
      rcases hp with h | ⟨_, h⟩
      · simp [Node.isNil] at h
      · rw [hv] at h; simp [Node.isValue] at h
    | cons i r =>
      have hv := false_of_keyAt_cons hk
      subst hv
      rcases hp with h | ⟨hw, _⟩
      · simp [Node.isNil] at h
      · obtain ⟨hall, _⟩ := hw
        have hpos : Pos (decide (i = term)) (c i) := by
          rcases hall i with h0 | ⟨hw', hv'⟩
          · exact Or.inl h0
          · exact Or.inr ⟨hw', isValue_eq_decide hv'⟩
        have hr := keyAt_of_cons hk
        simp only [collapse, cget]
        by_cases hc : (decide (i = term) || decide ((enc H (c i)).length < 32)) = true
        · simp only [hc, if_true]
          have ih := cget_collapse H (c i) _ r hpos hr
          revert ih
          cases cget (collapse H (c i)) r <;> simp only [StepOK, get_full_cons] <;> exact id
        · simp only [hc]
          simp only [Bool.or_eq_true, decide_eq_true_eq, not_or] at hc
          simp only [Bool.false_eq_true, if_false, cget, StepOK, get_full_cons]
          rcases hall i with h0 | ⟨hw', hv'⟩
          · exfalso; rw [isNil_eq h0] at hc; exact hc.2 (enc_nil_short H)
          · have hiv : (c i).isValue = false := by
              cases h : (c i).isValue
              · rfl
              · exact absurd (hv'.mp h) hc.1
            have : decide (i = term) = false := by simp [hc.1]
            rw [this] at hr
            exact ⟨c i, hw', hiv, hr, rfl, rfl⟩

/-- PROOF SOUNDNESS.  `H` collision-free, `decode` inverts the honest encoder, `db` ANY content-addressed database
(in particular: the honest proof with any nodes altered, dropped, added, re-inserted under the hash of the altered bytes).
Whatever `VerifyProof` answers for the root of a normal-form trie `s` without reporting an error is the truth about `s`;
it never panics on such a database. -/
theorem verify_sound (H : Bytes → Bytes) (Hinj : Function.Injective H) (decode : Bytes → Dec CNode)
    (hdec : ∀ s, WF s → decode (enc H s) = .ok (collapse H s))
    (db : Bytes → Option Bytes) (hdb : ∀ h b, db h = some b → H b = h) :
    ∀ (fuel : Nat) (s : Node) (key : List Nib), WF s → s.isValue = false → KeyAt false key →
      (∀ x, verify H decode db fuel (H (enc H s)) key = .value x → Model.Trie.get s key = some x) ∧
      (verify H decode db fuel (H (enc H s)) key = .absent → Model.Trie.get s key = none) ∧
      verify H decode db fuel (H (enc H s)) key ≠ .panic
  | 0, _, _, _, _, _ => by simp [verify]
  | f + 1, s, key, hw, hv, hk => by
    simp only [verify]
    cases hdbq : db (H (enc H s)) with
    | none => simp
    | some buf =>
      have hb : buf = enc H s := Hinj (hdb _ _ hdbq)
      subst hb
      simp only [hdec s hw]
      have hstep := cget_collapse H s false key (Or.inr ⟨hw, hv⟩) hk
      revert hstep
      cases cget (collapse H s) key with
      | found x => simp only [StepOK]; intro h; simp [h]
      | absent => simp only [StepOK]; intro h; simp [h]
      | panic => simp [StepOK]
      | goto h rest =>
        simp only [StepOK]
        rintro ⟨s', hw', hv', hk', rfl, hg⟩
        rw [hg]
        exact verify_sound H Hinj decode hdec db hdb f s' rest hw' hv' hk'

theorem dbOf_content_addressed (H : Bytes → Bytes) (nodes : List Bytes) :
    ∀ h b, dbOf H nodes h = some b → H b = h := by
  intro h b hf
  have := List.find?_some hf
  simpa using this

end Props.C10
