/-
C12 (part 5): `perturb_changes_id` as ONE theorem over the whole block.

A block is modelled by its identity-relevant content (`Blk`): the values of the 17 header fields that
`Header.Hash` hashes, `Header.Recover`, the ordered encoded transactions, the evidence list, the
`LastCommit.BlockID` and the precommit slots.  The identity validators sign is
`BlockID = (Block.Hash, MakePartSet(partSize).Header())`.

Every cryptographic / codec law is a FIELD of `Scheme` (a hypothesis, never an axiom):
  * `inj2`   : `SimpleHashFromTwoHashes` injective in the pair of operands,
  * `kv_inj` : `merkle.KVPair.Hash` injective in (key, value hash),
  * `fh_inj` : the field hash (`aminoHasher`) injective,
  * `lh_inj` : the part hash (`Part.Hash`) injective,
  * `ser_inj`: `libs/ser` encoding of a block injective (C11's subject), `ser_ne`: never empty.
`Props.C12.freeScheme` (C12Code.lean) is a model of all of them at once (non-vacuity).
-/
import LinkVerif.Props.C12
import LinkVerif.Props.C12Header

namespace Props.C12
open Model.Merkle Model.PartSet Model.BlockId

/-- the identity-relevant content of a `types.Block` -/
structure Blk where
  /-- values of the 17 hashed header fields, in the order of `Model.BlockId.hashedFields` -/
  hashed : List FVal
  /-- `Header.Recover`: serialised, NOT in `Header.Hash` -/
  recover : Nat
  /-- `Data.Txs`: the encoded transactions in block order -/
  txs : List Bytes
  /-- `Evidence.Evidence`: the encoded evidence items in order -/
  evidence : List Bytes
  /-- `LastCommit.BlockID`: serialised, not covered by `Commit.Hash` -/
  commitBlockID : BlockIDv
  /-- `LastCommit.Precommits`: one slot per validator, `none` = absent vote -/
  precommits : List (Option Bytes)
deriving DecidableEq, Repr

/-- well-formed: one value per hashed field -/
def Blk.WF (b : Blk) : Prop := b.hashed.length = hashedFields.length

/-- the functions block identity is built from, with their assumed laws -/
structure Scheme (D : Type) [Inhabited D] where
  H2 : D → D → D
  KV : Bytes → D → D
  FH : FVal → D
  LH : Bytes → D
  ser : Blk → Bytes
  inj2 : Inj2 H2
  kv_inj : ∀ k v k' v', KV k v = KV k' v' → k = k' ∧ v = v'
  fh_inj : Function.Injective FH
  lh_inj : Function.Injective LH
  ser_inj : Function.Injective ser
  ser_ne : ∀ b, ser b ≠ []

/-- `Block.Hash()` = `Header.Hash()` -/
def blockHash {D : Type} [Inhabited D] (S : Scheme D) (b : Blk) : D := headerHashG S.H2 S.KV S.FH b.hashed

/-- `Block.MakePartSet(partSize).Header()` -/
def partsHeader {D : Type} [Inhabited D] (S : Scheme D) (partSize : Int) (b : Blk) : Except Panic (Header D) :=
  match newFromData S.H2 S.LH (S.ser b) partSize with
  | .ok ps => .ok ps.header
  | .error e => .error e

/-- for a positive part size the part set of a block always exists -/
theorem partsHeader_ok {D : Type} [Inhabited D] (S : Scheme D) (partSize : Int) (hsz : 0 < partSize) (b : Blk) :
    ∃ ps, newFromData S.H2 S.LH (S.ser b) partSize = .ok ps ∧ partsHeader S partSize b = .ok ps.header := by
  unfold partsHeader newFromData
  rw [if_neg (by omega), if_neg (by omega), if_neg (S.ser_ne b)]
  exact ⟨_, rfl, rfl⟩

/-- header half: different hashed field values ⇒ different block hash -/
theorem hashed_change_changes_hash {D : Type} [Inhabited D] (S : Scheme D) (b₁ b₂ : Blk) (w₁ : b₁.WF) (w₂ : b₂.WF)
    (hne : b₁.hashed ≠ b₂.hashed) : blockHash S b₁ ≠ blockHash S b₂ := by
  intro h
  exact hne (header_hash_commits S.H2 S.inj2 S.KV S.kv_inj S.FH S.fh_inj _ _ w₁ w₂ h)

/-- parts half: different blocks ⇒ different part-set header (at the same positive part size) -/
theorem block_change_changes_parts {D : Type} [Inhabited D] (S : Scheme D) (partSize : Int) (hsz : 0 < partSize)
    (b₁ b₂ : Blk) (hne : b₁ ≠ b₂) : partsHeader S partSize b₁ ≠ partsHeader S partSize b₂ := by
  obtain ⟨ps₁, h₁, e₁⟩ := partsHeader_ok S partSize hsz b₁
  obtain ⟨ps₂, h₂, e₂⟩ := partsHeader_ok S partSize hsz b₂
  rw [e₁, e₂]
  intro h
  simp only [Except.ok.injEq] at h
  exact hne (S.ser_inj (partset_header_commits S.H2 S.LH S.inj2 S.lh_inj _ _ partSize ps₁ ps₂ h₁ h₂ h))

/-- FULL STATEMENT (C12, identity clause): two different blocks never have the same signed identity:
the block hash or the part-set header differs. -/
def C12_perturb_statement : Prop :=
  ∀ (D : Type) [Inhabited D] (S : Scheme D) (partSize : Int), 0 < partSize →
    ∀ (b₁ b₂ : Blk), b₁ ≠ b₂ →
      blockHash S b₁ ≠ blockHash S b₂ ∨ partsHeader S partSize b₁ ≠ partsHeader S partSize b₂

/-- **perturb_changes_id** -/
theorem perturb_changes_id : C12_perturb_statement := by
  intro D _ S partSize hsz b₁ b₂ hne
  exact Or.inr (block_change_changes_parts S partSize hsz b₁ b₂ hne)

/-! ## single-field perturbations, and which half of the identity notices them -/

/-- a single-field change of header / data / evidence / last commit (list-valued fields: any other list,
which covers changed content, changed order, insertion and removal) -/
inductive Perturb where
  | hashedField (i : Nat) (v : FVal)          -- one of the 17 hashed header fields
  | recover (r : Nat)
  | txs (l : List Bytes)
  | evidence (l : List Bytes)
  | commitBlockID (v : BlockIDv)
  | precommits (l : List (Option Bytes))

def Perturb.apply : Perturb → Blk → Blk
  | .hashedField i v, b => { b with hashed := b.hashed.set i v }
  | .recover r, b => { b with recover := r }
  | .txs l, b => { b with txs := l }
  | .evidence l, b => { b with evidence := l }
  | .commitBlockID v, b => { b with commitBlockID := v }
  | .precommits l, b => { b with precommits := l }

/-- the perturbation touches a hashed header field -/
def Perturb.isHashed : Perturb → Bool
  | .hashedField _ _ => true
  | _ => false

theorem Perturb.apply_wf (p : Perturb) (b : Blk) (w : b.WF) : (p.apply b).WF := by
  cases p <;> simp [Perturb.apply, Blk.WF] at * <;> exact w

/-- every effective single-field perturbation changes the signed identity; one that touches a hashed
header field changes the BLOCK HASH itself, every other one leaves the block hash as it is and is
noticed by the part-set header only. -/
theorem single_field_perturbation {D : Type} [Inhabited D] (S : Scheme D) (partSize : Int) (hsz : 0 < partSize)
    (b : Blk) (w : b.WF) (p : Perturb) (heff : p.apply b ≠ b) :
    partsHeader S partSize (p.apply b) ≠ partsHeader S partSize b ∧
    (p.isHashed = true → blockHash S (p.apply b) ≠ blockHash S b) ∧
    (p.isHashed = false → blockHash S (p.apply b) = blockHash S b) := by
  refine ⟨block_change_changes_parts S partSize hsz _ _ heff, ?_, ?_⟩
  · intro hh
    apply hashed_change_changes_hash S _ _ (p.apply_wf b w) w
    intro he
    apply heff
    cases p <;> simp [Perturb.isHashed] at hh
    simp only [Perturb.apply] at he ⊢
    rw [he]
  · intro hh
    cases p <;> simp [Perturb.isHashed] at hh <;> rfl

/-- FULL STATEMENT (stronger than C12 asks, and FALSE): the block hash ALONE commits to every field. -/
def C12_hash_alone_statement : Prop :=
  ∀ (D : Type) [Inhabited D] (S : Scheme D) (b₁ b₂ : Blk), b₁.WF → b₂.WF → b₁ ≠ b₂ → blockHash S b₁ ≠ blockHash S b₂

/-! ## what ValidateBasic adds: in a VALID block the block hash alone commits to the transactions -/

/-- position of `NumTxs` and `DataHash` in `hashedFields` -/
theorem numTxs_dataHash_positions :
    hashedFields[4]? = some ("NumTxs", .uint) ∧ hashedFields[11]? = some ("DataHash", .bytes) := by decide

/-- the two `ValidateBasic` conditions on the data: `NumTxs = len(Txs)` and `DataHash = Txs.Hash()`,
for a transaction hash `TH` and a digest-to-bytes coding `E` -/
def DataValid {D : Type} [Inhabited D] (H2 : D → D → D) (TH : Bytes → D) (E : D → Bytes) (b : Blk) : Prop :=
  b.hashed[4]? = some (.uint b.txs.length) ∧ b.hashed[11]? = some (.bytes (E (root H2 (b.txs.map TH))))

/-- two valid blocks with the same block hash carry the same ordered transaction list: the count is
committed by `NumTxs`, which closes the missing leaf/inner domain separation of the tree
(`C12_root_injective_counterexample`). -/
theorem valid_block_hash_commits_txs {D : Type} [Inhabited D] (S : Scheme D) (TH : Bytes → D) (hTH : Function.Injective TH)
    (E : D → Bytes) (hE : Function.Injective E) (b₁ b₂ : Blk) (w₁ : b₁.WF) (w₂ : b₂.WF)
    (v₁ : DataValid S.H2 TH E b₁) (v₂ : DataValid S.H2 TH E b₂)
    (h : blockHash S b₁ = blockHash S b₂) : b₁.txs = b₂.txs := by
  have hh : b₁.hashed = b₂.hashed := header_hash_commits S.H2 S.inj2 S.KV S.kv_inj S.FH S.fh_inj _ _ w₁ w₂ h
  obtain ⟨n₁, d₁⟩ := v₁
  obtain ⟨n₂, d₂⟩ := v₂
  rw [hh] at n₁ d₁
  have hlen : b₁.txs.length = b₂.txs.length := by
    have := n₁.symm.trans n₂
    simp only [Option.some.injEq, FVal.uint.injEq] at this
    exact this
  have hroot : root S.H2 (b₁.txs.map TH) = root S.H2 (b₂.txs.map TH) := by
    have := d₁.symm.trans d₂
    simp only [Option.some.injEq, FVal.bytes.injEq] at this
    exact hE this
  have hm := root_inj_same_length S.H2 S.inj2 b₁.txs.length _ _ (by simp) (by simp [hlen]) hroot
  exact map_inj_of_injective TH hTH _ _ hm

/-! ## non-vacuity: all laws of `Scheme` hold together on free terms -/

/-- free digests -/
inductive FD where
  | nil
  | field (v : FVal)
  | pair (k : Bytes) (v : FD)
  | node (l r : FD)
  | part (b : Bytes)

instance : Inhabited FD := ⟨.nil⟩

end Props.C12
