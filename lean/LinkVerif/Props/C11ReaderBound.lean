/-
C11: on a LIMITED stream every buffer size handed to make([]byte, ·) is at most the limit the caller passed, hence
(limit ≤ maxAlloc) no reader entry point panics.  Invariant proof through every decoder of the model.
-/
import LinkVerif.Model.Ser
import LinkVerif.Props.C11NoPanic

namespace Props.C11
open Model.Rlp Model.Ser

/-- the stream is limited, and everything that can size a buffer is within `L`: the remaining limit, the sizes of the open
    lists, a cached header size, and what has been requested so far -/
def Inv (L : Nat) (s : Stream) : Prop :=
  s.unlimited = false ∧ s.rest.length + s.phantom ≤ L ∧ s.alloc ≤ L ∧ (∀ e ∈ s.stack, e.2 ≤ L) ∧
    (s.kind ≠ none → s.kinderr = none → s.size ≤ L)

theorem inv_kind_none {L : Nat} {s : Stream} (h : Inv L s) : Inv L { s with kind := none } := by
  obtain ⟨h1, h2, h3, h4, _⟩ := h
  exact ⟨h1, h2, h3, h4, by simp⟩

theorem willRead_inv (L n : Nat) (s : Stream) (h : Inv L s) : Inv L (willRead n s).2 ∧ (willRead n s).2.kind = none := by
  obtain ⟨h1, h2, h3, h4, _⟩ := h
  unfold willRead
  cases hs : s.stack with
  | nil =>
    simp only
    split
    · exact ⟨⟨h1, h2, h3, by simp [hs], by simp⟩, rfl⟩
    · refine ⟨⟨h1, ?_, h3, by simp [hs], by simp⟩, rfl⟩
      simp only; omega
  | cons x up =>
    obtain ⟨p, z⟩ := x
    have hz : z ≤ L := h4 (p, z) (by simp [hs])
    have hup : ∀ e ∈ up, e.2 ≤ L := fun e he => h4 e (by simp [hs, he])
    simp only
    split
    · exact ⟨⟨h1, h2, h3, by simpa [hs] using h4, by simp⟩, rfl⟩
    · split
      · refine ⟨⟨h1, h2, h3, ?_, by simp⟩, rfl⟩
        intro e he; simp at he; rcases he with rfl | he
        · exact hz
        · exact hup e he
      · refine ⟨⟨h1, ?_, h3, ?_, by simp⟩, rfl⟩
        · simp only; omega
        · intro e he; simp at he; rcases he with rfl | he
          · exact hz
          · exact hup e he

theorem readByte_inv (L : Nat) (s : Stream) (h : Inv L s) : Inv L (readByte s).2 ∧ (readByte s).2.kind = none := by
  have hw := willRead_inv L 1 s h
  unfold readByte
  split
  · next e s' heq => rw [heq] at hw; exact hw
  · next s' heq =>
    rw [heq] at hw
    simp only at hw
    obtain ⟨⟨h1, h2, h3, h4, h5⟩, hk⟩ := hw
    split
    · next b r hr =>
      refine ⟨⟨h1, ?_, h3, h4, fun hc => absurd hk hc⟩, hk⟩
      simp only at h2 ⊢; rw [hr] at h2; simp at h2; omega
    · exact ⟨⟨h1, h2, h3, h4, h5⟩, hk⟩

theorem readFull_inv (L n : Nat) (s : Stream) (h : Inv L s) : Inv L (readFull n s).2 ∧ (readFull n s).2.kind = none := by
  have hw := willRead_inv L n s h
  unfold readFull
  split
  · next e s' heq => rw [heq] at hw; exact hw
  · next s' heq =>
    rw [heq] at hw
    simp only at hw
    obtain ⟨⟨h1, h2, h3, h4, h5⟩, hk⟩ := hw
    split
    · refine ⟨⟨h1, ?_, h3, h4, fun hc => absurd hk hc⟩, hk⟩
      simp only [List.length_nil]; omega
    · refine ⟨⟨h1, ?_, h3, h4, fun hc => absurd hk hc⟩, hk⟩
      simp only [List.length_drop]; omega

theorem readUintSz_inv (L sz : Nat) (s : Stream) (h : Inv L s) (hk : s.kind = none) :
    Inv L (readUintSz sz s).2 ∧ (readUintSz sz s).2.kind = none := by
  unfold readUintSz
  split
  · exact ⟨inv_kind_none h, rfl⟩
  · have := readByte_inv L s h
    split
    · next heq => rw [heq] at this; exact this
    · next heq => rw [heq] at this; exact this
  · have := readFull_inv L sz s h
    split
    · next heq => rw [heq] at this; exact this
    · next heq => rw [heq] at this; split <;> exact this

theorem inv_byteval {L : Nat} {s : Stream} (b : UInt8) (h : Inv L s) : Inv L { s with byteval := b } := h

theorem readKind_inv (L : Nat) (s : Stream) (h : Inv L s) : Inv L (readKind s).2 ∧ (readKind s).2.kind = none := by
  have hb := readByte_inv L s h
  unfold readKind
  split
  · next e s' heq => rw [heq] at hb; simp only; exact hb
  · next b s' heq =>
    rw [heq] at hb
    simp only
    have hg : Inv L { s' with byteval := 0 } := inv_byteval 0 hb.1
    have hk0 : ({ s' with byteval := 0 } : Stream).kind = none := hb.2
    split
    · exact ⟨inv_byteval b hg, hk0⟩
    · split
      · exact ⟨hg, hk0⟩
      · split
        · have := readUintSz_inv L (b.toNat - 0xB7) _ hg hk0
          split
          · next heq2 => rw [heq2] at this; exact this
          · next heq2 => rw [heq2] at this; exact this
        · split
          · exact ⟨hg, hk0⟩
          · have := readUintSz_inv L (b.toNat - 0xF7) _ hg hk0
            split
            · next heq2 => rw [heq2] at this; exact this
            · next heq2 => rw [heq2] at this; exact this

/-- the size checks of Stream.Kind: an accepted size is within `L` -/
theorem limitErr_le (L sz : Nat) (s : Stream) (h : Inv L s) (hn : limitErr s sz = none) : sz ≤ L := by
  obtain ⟨h1, h2, _, h4, _⟩ := h
  unfold limitErr at hn
  split at hn
  · unfold over at hn
    rw [h1] at hn
    simp at hn
    omega
  · next pos size up hs =>
    have := h4 (pos, size) (by simp [hs])
    simp at hn this
    omega

theorem kindOf_inv (L : Nat) (s : Stream) (h : Inv L s) :
    Inv L (kindOf s).2 ∧ ((kindOf s).1.2.2 = none → (kindOf s).1.2.1 ≤ L) := by
  unfold kindOf
  split
  · next k hk =>
    refine ⟨h, ?_⟩
    intro he
    exact h.2.2.2.2 (by simp [hk]) he
  · next hk =>
    have h0 : Inv L { s with kinderr := none } := by
      obtain ⟨h1, h2, h3, h4, _⟩ := h
      exact ⟨h1, h2, h3, h4, by simp [hk]⟩
    simp only
    split
    · exact ⟨h0, by simp⟩
    · have hr := readKind_inv L { s with kinderr := none } h0
      obtain ⟨⟨h1, h2, h3, h4, _⟩, _⟩ := hr
      have hle : ∀ e, (match (readKind { s with kinderr := none }).1.2.2 with
            | some e => some e
            | none => limitErr (readKind { s with kinderr := none }).2 (readKind { s with kinderr := none }).1.2.1) = e →
          e = none → (readKind { s with kinderr := none }).1.2.1 ≤ L := by
        intro e he hn
        subst hn
        split at he
        · cases he
        · exact limitErr_le L _ _ (readKind_inv L _ h0).1 he
      refine ⟨⟨h1, h2, h3, h4, ?_⟩, ?_⟩
      · intro _ hn; exact hle _ rfl hn
      · intro hn; exact hle _ rfl hn

theorem sBytes_inv (L : Nat) (s : Stream) (h : Inv L s) : Inv L (sBytes s).2 := by
  have hk := kindOf_inv L s h
  unfold sBytes
  split
  · next heq => rw [heq] at hk; exact hk.1
  · next heq => rw [heq] at hk; exact inv_kind_none hk.1
  · next sz s' heq =>
    rw [heq] at hk
    simp only at hk
    have hsz : sz ≤ L := hk.2 trivial
    have h' : Inv L { s' with alloc := max s'.alloc sz } := by
      obtain ⟨h1, h2, h3, h4, h5⟩ := hk.1
      exact ⟨h1, h2, by simp only; exact Nat.max_le.mpr ⟨h3, hsz⟩, h4, h5⟩
    have hr := readFull_inv L sz _ h'
    split
    · next heq2 => rw [heq2] at hr; exact hr.1
    · next heq2 => rw [heq2] at hr; split <;> exact hr.1
  · next heq => rw [heq] at hk; exact hk.1

theorem sUint_inv (L mb : Nat) (s : Stream) (h : Inv L s) : Inv L (sUint mb s).2 := by
  have hk := kindOf_inv L s h
  unfold sUint
  split
  · next heq => rw [heq] at hk; exact hk.1
  · next heq =>
    rw [heq] at hk
    split
    · exact hk.1
    · exact inv_kind_none hk.1
  · next sz s' heq =>
    rw [heq] at hk
    split
    · exact hk.1
    · -- readUintSz needs a rearmed stream only in its size-0 branch, which rearms itself
      have : Inv L (readUintSz sz s').2 := by
        unfold readUintSz
        split
        · exact inv_kind_none hk.1
        · have := readByte_inv L s' hk.1
          split
          · next heq => rw [heq] at this; exact this.1
          · next heq => rw [heq] at this; exact this.1
        · have := readFull_inv L sz s' hk.1
          split
          · next heq => rw [heq] at this; exact this.1
          · next heq => rw [heq] at this; split <;> exact this.1
      split
      · next heq2 => rw [heq2] at this; exact this
      · next heq2 => rw [heq2] at this; exact this
      · next heq2 => rw [heq2] at this; split <;> exact this
  · next heq => rw [heq] at hk; exact hk.1

theorem sList_inv (L : Nat) (s : Stream) (h : Inv L s) : Inv L (sList s).2 := by
  have hk := kindOf_inv L s h
  unfold sList
  split
  · next heq => rw [heq] at hk; exact hk.1
  · next sz s' heq =>
    rw [heq] at hk
    simp only at hk
    obtain ⟨⟨h1, h2, h3, h4, _⟩, hsz⟩ := hk
    refine ⟨h1, h2, h3, ?_, by simp⟩
    intro e he
    simp at he
    rcases he with rfl | he
    · exact hsz trivial
    · exact h4 e he
  · next heq => rw [heq] at hk; exact hk.1

theorem sListEnd_inv (L : Nat) (s : Stream) (h : Inv L s) : Inv L (sListEnd s).2 := by
  unfold sListEnd
  split
  · exact h
  · next pos size up hs =>
    split
    · exact h
    · obtain ⟨h1, h2, h3, h4, _⟩ := h
      refine ⟨h1, h2, h3, ?_, by simp⟩
      intro e he
      simp only at he
      cases up with
      | nil => simp at he
      | cons x r =>
        obtain ⟨p, z⟩ := x
        simp at he
        rcases he with rfl | he
        · exact h4 (p, z) (by simp [hs])
        · exact h4 e (by simp [hs, he])

def InvR (L : Nat) (r : DecR) : Prop := Inv L r.2.2

theorem decBytesLike_inv (L : Nat) (s : Stream) (h : Inv L s) : InvR L (decBytesLike s) := by
  have hb := sBytes_inv L s h
  unfold decBytesLike InvR
  split
  · next heq => rw [heq] at hb; exact hb
  · next heq => rw [heq] at hb; exact hb

theorem decInt_inv (L bits : Nat) (s : Stream) (h : Inv L s) : InvR L (decInt bits s) := by
  have hb := sBytes_inv L s h
  unfold decInt InvR
  split
  · next heq => rw [heq] at hb; exact hb
  · next heq => rw [heq] at hb; split <;> exact hb

theorem decBigPtr_inv (L : Nat) (s : Stream) (h : Inv L s) : InvR L (decBigPtr s) := by
  have hb := sBytes_inv L s h
  unfold decBigPtr InvR
  split
  · next heq => rw [heq] at hb; exact hb
  · next heq => rw [heq] at hb; split <;> exact hb

theorem decBigVal_inv (L : Nat) (s : Stream) (h : Inv L s) : InvR L (decBigVal s) := by
  have hb := sBytes_inv L s h
  unfold decBigVal InvR
  split
  · next heq => rw [heq] at hb; exact hb
  · next heq => rw [heq] at hb; split <;> exact hb

theorem decByteArr_inv (L n : Nat) (s : Stream) (h : Inv L s) : InvR L (decByteArr n s) := by
  have hk := kindOf_inv L s h
  unfold decByteArr InvR
  simp only
  split
  · next heq => rw [heq] at hk; exact hk.1
  · next heq =>
    rw [heq] at hk
    split
    · exact hk.1
    · split
      · exact hk.1
      · split
        · exact hk.1
        · exact inv_kind_none hk.1
  · next sz s' heq =>
    rw [heq] at hk
    split
    · exact hk.1
    · split
      · exact hk.1
      · have hr := readFull_inv L n s' hk.1
        split
        · next heq2 => rw [heq2] at hr; exact hr.1
        · next heq2 => rw [heq2] at hr; exact hr.1
        · next heq2 => rw [heq2] at hr; split <;> exact hr.1
  · next heq => rw [heq] at hk; exact hk.1

theorem intOr0_snd2 (r : DecR) : (intOr0 r).2 = r.2.2 := by
  unfold intOr0; split <;> rfl

theorem decTime_inv (L : Nat) (s : Stream) (h : Inv L s) : InvR L (decTime s) := by
  have hl := sList_inv L s h
  unfold decTime InvR
  simp only
  split
  · next heq => rw [heq] at hl; exact hl
  · next n s' heq =>
    rw [heq] at hl
    have h1 := decInt_inv L 64 s' hl
    have g1 : Inv L (intOr0 (decInt 64 s')).2 := by rw [intOr0_snd2]; exact h1
    have h2 := decInt_inv L 32 _ g1
    have g2 : Inv L (intOr0 (decInt 32 (intOr0 (decInt 64 s')).2)).2 := by rw [intOr0_snd2]; exact h2
    split
    · exact g2
    · exact sListEnd_inv L _ g2

theorem decMapEntries_inv (L : Nat) : ∀ (cnt : Nat) (acc : List (Bytes × Val)) (s : Stream), Inv L s →
    Inv L (decMapEntries cnt acc s).2
  | 0, acc, s, h => by simpa [decMapEntries] using h
  | cnt + 1, acc, s, h => by
    have hk := decByteArr_inv L 20 s h
    unfold decMapEntries
    split
    · next heq => rw [heq] at hk; exact hk
    · next k s1 heq =>
      rw [heq] at hk
      have hv := decBigPtr_inv L s1 hk
      split
      · next heq2 => rw [heq2] at hv; exact hv
      · next v s2 heq2 =>
        rw [heq2] at hv
        exact decMapEntries_inv L cnt _ s2 hv

theorem decMap_inv (L : Nat) (s : Stream) (h : Inv L s) : InvR L (decMap s) := by
  have hl := sList_inv L s h
  unfold decMap InvR
  simp only
  split
  · next heq => rw [heq] at hl; exact hl
  · next sz s1 heq =>
    rw [heq] at hl
    split
    · exact sListEnd_inv L s1 hl
    · have hi := decInt_inv L 64 s1 hl
      split
      · next len s2 heq2 =>
        rw [heq2] at hi
        split
        · exact hi
        · have hm := decMapEntries_inv L len.toNat [] s2 hi
          split
          · next heq3 => rw [heq3] at hm; exact hm
          · next kvs s3 heq3 =>
            rw [heq3] at hm
            exact sListEnd_inv L s3 hm
      · next heq2 => rw [heq2] at hi; exact hi

theorem readN_inv (L : Nat) : ∀ (n : Nat) (s : Stream), Inv L s → Inv L (readN n s).2
  | 0, s, h => by simpa [readN] using h
  | n + 1, s, h => by
    have hb := readByte_inv L s h
    unfold readN
    split
    · next heq => rw [heq] at hb; exact hb.1
    · next b s1 heq =>
      rw [heq] at hb
      have hr := readN_inv L n s1 hb.1
      split
      · next heq2 => rw [heq2] at hr; exact hr
      · next heq2 => rw [heq2] at hr; exact hr

theorem decElems_inv (L : Nat) (dec : Stream → DecR) (hd : ∀ s, Inv L s → InvR L (dec s)) :
    ∀ (n : Nat) (acc : List Val) (s : Stream), Inv L s → InvR L (decElems dec n acc s)
  | 0, acc, s, h => by simpa [decElems, InvR] using h
  | n + 1, acc, s, h => by
    have hx := hd s h
    unfold decElems
    split
    · next heq => rw [heq] at hx; exact hx
    · next heq => rw [heq] at hx; exact hx
    · next v s1 heq => rw [heq] at hx; exact decElems_inv L dec hd n _ s1 hx

theorem decArrElems_inv (L : Nat) (dec : Stream → DecR) (zero : Val) (hd : ∀ s, Inv L s → InvR L (dec s)) :
    ∀ (n : Nat) (acc : List Val) (s : Stream), Inv L s → InvR L (decArrElems dec zero n acc s)
  | 0, acc, s, h => by simpa [decArrElems, InvR] using h
  | n + 1, acc, s, h => by
    have hx := hd s h
    unfold decArrElems
    split
    · next heq => rw [heq] at hx; exact hx
    · next heq => rw [heq] at hx; exact hx
    · next v s1 heq => rw [heq] at hx; exact decArrElems_inv L dec zero hd n _ s1 hx

theorem decFields_inv (L : Nat) (dec : Ty → Stream → DecR) (zero : Ty → Val) (hd : ∀ t s, Inv L s → InvR L (dec t s)) :
    ∀ (ts : List Ty) (acc : List Val) (s : Stream), Inv L s → InvR L (decFields dec zero ts acc s)
  | [], acc, s, h => by simpa [decFields, InvR] using h
  | t :: ts, acc, s, h => by
    have hx := hd t s h
    unfold decFields
    split
    · next heq => rw [heq] at hx; exact hx
    · next heq => rw [heq] at hx; exact hx
    · next v s1 heq => rw [heq] at hx; exact decFields_inv L dec zero hd ts _ s1 hx

/-- every decoder keeps the invariant: on a limited stream nothing ever sizes a buffer beyond the limit -/
theorem decV_inv (L : Nat) (env : Env) : ∀ (f : Nat) (t : Ty) (s : Stream), Inv L s → InvR L (decV env f t s)
  | 0, t, s, h => by simpa [decV, InvR] using h
  | f + 1, t, s, h => by
    have ih := decV_inv L env f
    cases t with
    | uint bits =>
      have hu := sUint_inv L bits s h
      simp only [decV]
      split
      · next heq => rw [heq] at hu; exact hu
      · next heq => rw [heq] at hu; exact hu
    | int bits => simp only [decV]; exact decInt_inv L bits s h
    | bool =>
      have hu := sUint_inv L 8 s h
      simp only [decV]
      split
      · next heq => rw [heq] at hu; exact hu
      · next heq => rw [heq] at hu; exact hu
      · next heq => rw [heq] at hu; exact hu
      · next heq => rw [heq] at hu; exact hu
    | bigptr => simp only [decV]; exact decBigPtr_inv L s h
    | bigval => simp only [decV]; exact decBigVal_inv L s h
    | bytes => simp only [decV]; exact decBytesLike_inv L s h
    | string => simp only [decV]; exact decBytesLike_inv L s h
    | bytearr n => simp only [decV]; exact decByteArr_inv L n s h
    | time => simp only [decV]; exact decTime_inv L s h
    | map20 => simp only [decV]; exact decMap_inv L s h
    | slice e =>
      have hl := sList_inv L s h
      simp only [decV]
      split
      · next heq => rw [heq] at hl; exact hl
      · next sz s1 heq =>
        rw [heq] at hl
        split
        · exact sListEnd_inv L s1 hl
        · have he := decElems_inv L (decV env f e) (ih e) (s1.rest.length + 2) [] s1 hl
          split
          · next heq2 => rw [heq2] at he; exact he
          · next v s2 heq2 => rw [heq2] at he; exact sListEnd_inv L s2 he
    | arr n e =>
      have hl := sList_inv L s h
      simp only [decV]
      split
      · next heq => rw [heq] at hl; exact hl
      · next sz s1 heq =>
        rw [heq] at hl
        have he := decArrElems_inv L (decV env f e) (zeroV env 64 e) (ih e) n [] s1 hl
        split
        · next heq2 => rw [heq2] at he; exact he
        · next v s2 heq2 => rw [heq2] at he; exact sListEnd_inv L s2 he
    | struct fs =>
      have hl := sList_inv L s h
      simp only [decV]
      split
      · next heq => rw [heq] at hl; exact hl
      · next sz s1 heq =>
        rw [heq] at hl
        split
        · exact sListEnd_inv L s1 hl
        · have he := decFields_inv L (decV env f) (zeroV env 64) ih fs [] s1 hl
          split
          · next heq2 => rw [heq2] at he; exact he
          · next v s2 heq2 => rw [heq2] at he; exact sListEnd_inv L s2 he
    | ptr e =>
      have hk := kindOf_inv L s h
      simp only [decV]
      split
      · next heq => rw [heq] at hk; exact inv_kind_none hk.1
      · next k sz s1 heq =>
        rw [heq] at hk
        split
        · exact inv_kind_none hk.1
        · have he := ih e s1 hk.1
          split
          · next heq2 => rw [heq2] at he; exact he
          · next heq2 => rw [heq2] at he; exact he
    | cptr a e =>
      have he := ih e s h
      simp only [decV]
      split
      · next heq => rw [heq] at he; exact he
      · next heq => rw [heq] at he; exact he
    | cval a e =>
      have he := ih e s h
      simp only [decV]
      split
      · next heq => rw [heq] at he; exact he
      · next heq => rw [heq] at he; exact he
    | iface impl =>
      simp only [decV]
      split
      · exact h
      · have hb := readByte_inv L s h
        split
        · next heq => rw [heq] at hb; exact hb.1
        · next b0 s1 heq =>
          rw [heq] at hb
          split
          · exact hb.1
          · have hn := readN_inv L 6 s1 hb.1
            split
            · next heq2 => rw [heq2] at hn; exact hn
            · next bs s2 heq2 =>
              rw [heq2] at hn
              split
              · exact hn
              · split
                · exact hn
                · split
                  · exact hn
                  · next id _ => exact ih (.ref id) s2 hn
    | ref id =>
      simp only [decV]
      split
      · next t' _ => exact ih t' s h
      · exact h
    | split a d => simp only [decV]; exact ih d s h
    | unsupported => simp only [decV]; exact h

/-! ### the reader entry points with a limit -/

/-- DecodeReader[WithType](r, …, n), n > 0: every buffer requested is at most `n` -/
theorem reader_alloc_le_limit (env : Env) (t : Ty) (pre : Bool) (n : Nat) (b : Bytes) :
    (decodeReader env t pre (.some n) b).2 ≤ n := by
  unfold decodeReader
  simp only
  have hs : Inv n (if n ≤ b.length then ({ rest := b.take n } : Stream) else { rest := b, phantom := n - b.length }) := by
    split
    · exact ⟨rfl, by simp; omega, by simp, by simp, by simp⟩
    · exact ⟨rfl, by simp; omega, by simp, by simp, by simp⟩
  generalize (if n ≤ b.length then ({ rest := b.take n } : Stream) else { rest := b, phantom := n - b.length }) = s0 at hs
  cases pre with
  | false =>
    simp only [Bool.false_eq_true, if_false]
    have hd := decV_inv n env (2 * b.length + 200) t s0 hs
    split
    · next heq => rw [heq] at hd; exact hd.2.2.1
    · next heq => rw [heq] at hd; exact hd.2.2.1
  | true =>
    simp only [if_true]
    have hn := readN_inv n 7 s0 hs
    rcases hrn : readN 7 s0 with ⟨r, s1⟩
    rw [hrn] at hn
    cases r with
    | error e => simp only; exact hn.2.2.1
    | ok v =>
      simp only
      have hd := decV_inv n env (2 * b.length + 200) t s1 hn
      split
      · next heq => rw [heq] at hd; exact hd.2.2.1
      · next heq => rw [heq] at hd; exact hd.2.2.1

/-- hence, with a limit the runtime can allocate at all, no reader entry point panics -/
theorem reader_no_panic_limited (env : Env) (t : Ty) (pre : Bool) (n : Nat) (b : Bytes) (hn : n ≤ maxAlloc) :
    (decodeReader env t pre (.some n) b).1 ≠ .error .panic := by
  unfold decodeReader
  simp only
  have hs : Inv n (if n ≤ b.length then ({ rest := b.take n } : Stream) else { rest := b, phantom := n - b.length }) := by
    split
    · exact ⟨rfl, by simp; omega, by simp, by simp, by simp⟩
    · exact ⟨rfl, by simp; omega, by simp, by simp, by simp⟩
  have hg : Good (if n ≤ b.length then ({ rest := b.take n } : Stream) else { rest := b, phantom := n - b.length }) := by
    split <;> simp [Good]
  generalize (if n ≤ b.length then ({ rest := b.take n } : Stream) else { rest := b, phantom := n - b.length }) = s0 at hs hg
  cases pre with
  | false =>
    simp only [Bool.false_eq_true, if_false]
    have hd := decV_inv n env (2 * b.length + 200) t s0 hs
    have hp := decV_np env (2 * b.length + 200) t s0 hg
    split
    · next v e s1 heq =>
      rw [heq] at hd hp
      have : ¬ (s1.alloc > maxAlloc) := by have := hd.2.2.1; simp only at this; omega
      simp only [this, if_false]
      intro hc; injection hc with hc; exact hp.1 (by rw [hc])
    · next v s1 heq =>
      rw [heq] at hd
      have : ¬ (s1.alloc > maxAlloc) := by have := hd.2.2.1; simp only at this; omega
      simp [this]
  | true =>
    simp only [if_true]
    have hn7 := readN_inv n 7 s0 hs
    have hp7 := readN_np 7 s0 hg
    rcases hrn : readN 7 s0 with ⟨r, s1⟩
    rw [hrn] at hn7 hp7
    cases r with
    | error e =>
      simp only
      intro hc; injection hc with hc
      exact hp7.1 e rfl hc
    | ok v =>
      simp only
      have hd := decV_inv n env (2 * b.length + 200) t s1 hn7
      have hp := decV_np env (2 * b.length + 200) t s1 hp7.2
      split
      · next v e s2 heq =>
        rw [heq] at hd hp
        have : ¬ (s2.alloc > maxAlloc) := by have := hd.2.2.1; simp only at this; omega
        simp only [this, if_false]
        intro hc; injection hc with hc; exact hp.1 (by rw [hc])
      · next v s2 heq =>
        rw [heq] at hd
        have : ¬ (s2.alloc > maxAlloc) := by have := hd.2.2.1; simp only at this; omega
        simp [this]

/-! non-vacuity: the limits the node passes (libs/p2p/conn: 1 MiB; handshake: 10 KiB) are below maxAlloc -/
example : (1048576 : Nat) ≤ maxAlloc := by decide

end Props.C11
