/-
C03 (part 7): fast sync.  `Model.Commit.fsLoop` is the single-peer semantics of `blockchain/reactor.go` poolRoutine +
`blockchain/pool.go`, tied by a differential run against the REAL reactor (harness/c03/fsync*.go).  The theorem: every height
the node applies has a commit that `verifyCommit` accepts for the id of the block AS RECEIVED, under the validator set in force
at that height — hence (`verifyCommit_sound`) signed by more than two thirds of that set for exactly that block.
(Chain linkage between consecutive applied blocks is the application's `CheckBlock`, not modelled here.)
-/
import LinkVerif.Props.C03

namespace Props.C03
open Go Model.Vote Model.VoteSet Model.Commit

/-- height `h + i` (the `i`-th entry of the list) was applied with a commit the rule accepts -/
def FsAccepted (verify : Verify) (chain : List UInt8) (h : Nat) (x : FsH) : Prop :=
  ∃ c, x.commit = some c ∧ verifyCommit verify x.vals chain x.bid h c = .ok ()

theorem verifyCommit_ok_eq (e : Except VErr Unit) (u : Unit) (h : e = .ok u) : e = .ok () := by cases u; exact h

/-- FAST SYNC APPLIES A PREFIX OF ACCEPTED COMMITS: if the loop (started at height `h` with `hs`) reports `applied = a`, then
every entry below height `a + 1` is available and carries an accepted commit -/
theorem fastsync_prefix_sound (verify : Verify) (chain : List UInt8) (complete : Bool) (h : Nat) (hs : List FsH) (a : Nat) (st : FsStop)
    (hh : 1 ≤ h) (hr : fsLoop verify chain complete h hs = (a, st)) :
    h - 1 ≤ a ∧ ∀ (i : Nat) (x : FsH), hs[i]? = some x → h + i ≤ a → x.avail = true ∧ FsAccepted verify chain (h + i) x := by
  induction hs generalizing h with
  | nil =>
    simp only [fsLoop, Prod.mk.injEq] at hr
    exact ⟨by omega, fun i x hx => by simp at hx⟩
  | cons x rest ih =>
    cases rest with
    | nil =>
      simp only [fsLoop, Prod.mk.injEq] at hr
      refine ⟨by omega, fun i y hy hle => ?_⟩
      cases i with
      | zero => omega
      | succ i => simp at hy
    | cons y rest =>
      simp only [fsLoop] at hr
      split at hr
      · simp only [Prod.mk.injEq] at hr
        refine ⟨by omega, fun i z hz hle => ?_⟩; omega
      · rename_i hav
        split at hr
        · simp only [Prod.mk.injEq] at hr
          refine ⟨by omega, fun i z hz hle => ?_⟩; omega
        · rename_i c hc
          split at hr
          · rename_i u hv
            obtain ⟨hle, hall⟩ := ih (h + 1) (by omega) hr
            refine ⟨by omega, fun i z hz hia => ?_⟩
            cases i with
            | zero =>
              simp only [List.getElem?_cons_zero, Option.some.injEq] at hz
              subst hz
              have hx : x.avail = true := by
                simp only [Bool.or_eq_true, Bool.not_eq_true', not_or, Bool.not_eq_false] at hav
                exact hav.1
              exact ⟨hx, c, hc, by simpa using verifyCommit_ok_eq _ u hv⟩
            | succ i =>
              simp only [List.getElem?_cons_succ] at hz
              have := hall i z hz (by omega)
              have e : h + 1 + i = h + (i + 1) := by omega
              rw [e] at this; exact this
          · simp only [Prod.mk.injEq] at hr
            refine ⟨by omega, fun i z hz hle => ?_⟩; omega

/-- … therefore every applied height was signed by > 2/3 of the set in force at that height for exactly the received block -/
theorem fastsync_applied_needs_two_thirds (verify : Verify) (chain : List UInt8) (complete : Bool) (hs : List FsH) (a : Nat) (st : FsStop)
    (hr : fsLoop verify chain complete 1 hs = (a, st)) (i : Nat) (x : FsH) (hx : hs[i]? = some x) (hi : 1 + i ≤ a)
    (hno : NoOverflow x.vals) :
    ∃ c r, x.commit = some c ∧ AllSlotsGood verify chain (1 + i) r x.vals c.precommits ∧
      3 * countedPower x.bid x.vals c.precommits > 2 * sumPowers x.vals := by
  obtain ⟨_, hall⟩ := fastsync_prefix_sound verify chain complete 1 hs a st (by omega) hr
  obtain ⟨_, c, hc, hok⟩ := hall i x hx hi
  obtain ⟨_, r, hg, hq⟩ := verifyCommit_sound verify x.vals chain x.bid (1 + i) c hno hok
  exact ⟨c, r, hc, hg, hq⟩

/-! non-vacuity: three heights served, the commit for height 2 is one vote short: height 1 is applied, height 2 is not -/
def fsGood (h : Nat) : Commit := ⟨exB, [some { exVote 0 exB with height := h, sig := .signed 0 (msgOf [99] { exVote 0 exB with height := h }) },
  some { exVote 1 exB with height := h, sig := .signed 1 (msgOf [99] { exVote 1 exB with height := h }) },
  some { exVote 2 exB with height := h, sig := .signed 2 (msgOf [99] { exVote 2 exB with height := h }) }, none]⟩
def fsShort (h : Nat) : Commit := ⟨exB, (fsGood h).precommits.take 2 ++ [none, none]⟩

example : fsLoop symVerify [99] true 1 [⟨exVals 4, exB, true, some (fsGood 1)⟩, ⟨exVals 4, exB, true, some (fsShort 2)⟩, ⟨exVals 4, exB, true, none⟩]
    = (1, FsStop.badCommit) := by decide
example : fsLoop symVerify [99] true 1 [⟨exVals 4, exB, true, some (fsGood 1)⟩, ⟨exVals 4, exB, true, some (fsGood 2)⟩, ⟨exVals 4, exB, true, none⟩]
    = (2, FsStop.caughtUp) := by decide
/-- a nil LastCommit is refused like any other invalid commit (fix f5d5bad; before it the node halted) -/
example : fsLoop symVerify [99] true 1 [⟨exVals 4, exB, true, none⟩, ⟨exVals 4, exB, true, none⟩] = (0, FsStop.badCommit) := by decide

end Props.C03
