/-
C10: proof soundness / completeness for the EXECUTABLE verifier (`verifyExec` = VerifyProof with `decodeNode`), without any
hypothesis about the decoder (round trip `decode_enc` is a theorem), and with collision-freeness only where it is used:
between the byte strings in the proof database and the honest node encodings on the way to the key.
(`Function.Injective H` together with 32-byte outputs is unsatisfiable — pigeonhole — so the executable statements use
this relative form, which `Function.Injective H` implies.)
-/
import LinkVerif.Props.C10Decode

namespace Props.C10
open Model.Trie

/-- no database entry collides with a different honest node encoding on the way to `key` -/
def NoColl (H : Bytes → Bytes) (db : Bytes → Option Bytes) (s : Node) (key : List Nib) : Prop :=
  ∀ h b t, db h = some b → t ∈ path s key → H b = H (enc H t) → b = enc H t

theorem noColl_of_injective (H : Bytes → Bytes) (Hinj : Function.Injective H) (db : Bytes → Option Bytes) (s : Node)
    (key : List Nib) : NoColl H db s key := fun _ _ _ _ _ e => Hinj e

theorem path_nonvalue : ∀ (s : Node) (key : List Nib) (t : Node), t ∈ path s key → t.isValue = false
  | _, [], _, h => by simp [path] at h
  | .nil, _ :: _, _, h => by simp [path] at h
  | .value _, _ :: _, _, h => by simp [path] at h
  | .short k c, a :: as, t, h => by
    simp only [path, List.mem_cons] at h
    rcases h with rfl | h
    · rfl
    · cases hst : strip k (a :: as) with
      | none => rw [hst] at h; simp at h
      | some r => rw [hst] at h; exact path_nonvalue c r t h
  | .full c, i :: r, t, h => by
    simp only [path, List.mem_cons] at h
    rcases h with rfl | h
    · rfl
    · exact path_nonvalue (c i) r t h

theorem sane_path (H : Bytes → Bytes) : ∀ (s : Node) (key : List Nib) (t : Node), t ∈ path s key → Sane H s → Sane H t
  | _, [], _, h, _ => by simp [path] at h
  | .nil, _ :: _, _, h, _ => by simp [path] at h
  | .value _, _ :: _, _, h, _ => by simp [path] at h
  | .short k c, a :: as, t, h, hs => by
    simp only [path, List.mem_cons] at h
    rcases h with rfl | h
    · exact hs
    · cases hst : strip k (a :: as) with
      | none => rw [hst] at h; simp at h
      | some r => rw [hst] at h; exact sane_path H c r t h hs.2
  | .full c, i :: r, t, h, hs => by
    simp only [path, List.mem_cons] at h
    rcases h with rfl | h
    · exact hs
    · exact sane_path H (c i) r t h (hs.2 i)

/-- the executable decoder inverts the encoder on every normal-form short/full node -/
theorem decodeExec_enc (H : Bytes → Bytes) (h32 : H32 H) (s : Node) (hw : WF s) (hv : s.isValue = false)
    (hs : Sane H s) : decodeExec (enc H s) = .ok (collapse H s) := by
  unfold decodeExec
  have := decode_enc H h32 s hw hv hs ((enc H s).length + 1) [] (by omega)
  rwa [List.append_nil] at this

/-- the node encoding is injective up to `collapse` (no hash assumption): equal bytes decode to the same node -/
theorem enc_injective_collapse (H : Bytes → Bytes) (h32 : H32 H) (a b : Node) (ha : WF a) (hb : WF b)
    (hva : a.isValue = false) (hvb : b.isValue = false) (hsa : Sane H a) (hsb : Sane H b)
    (h : enc H a = enc H b) : collapse H a = collapse H b := by
  have h1 := decodeExec_enc H h32 a ha hva hsa
  have h2 := decodeExec_enc H h32 b hb hvb hsb
  rw [h, h2] at h1
  exact (Dec.ok.inj h1).symm

theorem verifyExec_sound (H : Bytes → Bytes) (h32 : H32 H) (db : Bytes → Option Bytes)
    (hdb : ∀ h b, db h = some b → H b = h) :
    ∀ (fuel : Nat) (s : Node) (key : List Nib), WF s → s.isValue = false → KeyAt false key → Sane H s →
      NoColl H db s key →
      (∀ x, verifyExec H db fuel (H (enc H s)) key = .value x → Model.Trie.get s key = some x) ∧
      (verifyExec H db fuel (H (enc H s)) key = .absent → Model.Trie.get s key = none) ∧
      verifyExec H db fuel (H (enc H s)) key ≠ .panic
  | 0, _, _, _, _, _, _, _ => by simp [verifyExec, verify]
  | f + 1, s, key, hw, hv, hk, hs, hcoll => by
    simp only [verifyExec, verify]
    cases hdbq : db (H (enc H s)) with
    | none => simp
    | some buf =>
      have hb : buf = enc H s := hcoll _ buf s hdbq (self_mem_path hw hv hk) (hdb _ _ hdbq)
      subst hb
      simp only [decodeExec_enc H h32 s hw hv hs]
      have hstep := cget_collapse2 H s false key (Or.inr ⟨hw, hv⟩) hk
      revert hstep
      cases cget (collapse H s) key with
      | found x => simp only [StepOK2]; intro h; simp [h]
      | absent => simp only [StepOK2]; intro h; simp [h]
      | panic => simp [StepOK2]
      | goto h rest =>
        simp only [StepOK2]
        rintro ⟨s', hw', hv', hk', rfl, hg, _, hsub, _⟩
        rw [hg]
        have hs' : s' ∈ path s key := hsub s' (self_mem_path hw' hv' hk')
        exact verifyExec_sound H h32 db hdb f s' rest hw' hv' hk' (sane_path H s key s' hs' hs)
          (fun h b t hd ht => hcoll h b t hd (hsub t ht))

theorem dbOf_mem_rel (H : Bytes → Bytes) (nodes : List Bytes) (b : Bytes) (hb : b ∈ nodes)
    (hc : ∀ x ∈ nodes, H x = H b → x = b) : dbOf H nodes (H b) = some b := by
  unfold dbOf
  cases hf : nodes.find? (fun x => H x == H b) with
  | none =>
    have := List.find?_eq_none.mp hf b hb
    simp at this
  | some x =>
    have h1 := List.find?_some hf
    have h2 := List.mem_of_find?_eq_some hf
    simp only [beq_iff_eq] at h1
    rw [hc x h2 h1]

theorem verifyExec_complete_aux (H : Bytes → Bytes) (h32 : H32 H) (nodes : List Bytes) :
    ∀ (fuel : Nat) (s : Node) (key : List Nib), WF s → s.isValue = false → KeyAt false key → key.length < fuel →
      Sane H s → (∀ x ∈ nodes, ∀ t ∈ path s key, H x = H (enc H t) → x = enc H t) →
      enc H s ∈ nodes → (∀ t ∈ path s key, 32 ≤ (enc H t).length → enc H t ∈ nodes) →
      verifyExec H (dbOf H nodes) fuel (H (enc H s)) key =
        (match Model.Trie.get s key with | some x => VRes.value x | none => VRes.absent)
  | 0, _, _, _, _, _, hf, _, _, _, _ => by omega
  | f + 1, s, key, hw, hv, hk, hf, hs, hcoll, hin, hall => by
    have hself := self_mem_path hw hv hk
    simp only [verifyExec, verify, dbOf_mem_rel H nodes _ hin (fun x hx => hcoll x hx s hself),
      decodeExec_enc H h32 s hw hv hs]
    have hstep := cget_collapse2 H s false key (Or.inr ⟨hw, hv⟩) hk
    revert hstep
    cases cget (collapse H s) key with
    | found x => simp only [StepOK2]; intro h; simp [h]
    | absent => simp only [StepOK2]; intro h; simp [h]
    | panic => simp [StepOK2]
    | goto h rest =>
      simp only [StepOK2]
      rintro ⟨s', hw', hv', hk', rfl, hg, h32', hsub, hlen⟩
      rw [hg]
      have hs' : s' ∈ path s key := hsub s' (self_mem_path hw' hv' hk')
      exact verifyExec_complete_aux H h32 nodes f s' rest hw' hv' hk' (by omega) (sane_path H s key s' hs' hs)
        (fun x hx t ht => hcoll x hx t (hsub t ht)) (hall s' hs' h32') (fun t ht h => hall t (hsub t ht) h)

end Props.C10
