/-
C03 (part 1): the threshold arithmetic regenerated from the Go source (`Gen.CommitArith`, `Gen.ValSetArith`)
means "strictly more than two thirds" and does not wrap, as long as the total voting power is below 2^62.
These theorems are about the T1 translations, i.e. about what the code says NOW.
-/
import LinkVerif.Model.Commit

namespace Props.C03
open Go Gen.ValSetArith Gen.CommitArith Model.Vote

def two62 : Int := 4611686018427387904

/-- the true (mathematical) sum of the voting powers -/
def sumPowers (vals : List Val) : Int := (vals.map (·.power)).sum

/-- the quantifier of the property: non-negative powers, total below 2^62 -/
def NoOverflow (vals : List Val) : Prop := (∀ v ∈ vals, 0 ≤ v.power) ∧ sumPowers vals < two62

theorem safeAddClip_small (a b : Int) (ha : 0 ≤ a) (hb : 0 ≤ b) (h : a + b < two62) : safeAddClip a b = a + b := by
  unfold two62 at h
  unfold safeAddClip safeAdd wrapI64 minI64 maxI64
  simp only [Bool.and_eq_true, decide_eq_true_eq]
  repeat' split
  all_goals first | omega | simp_all
  all_goals omega

theorem sumPowers_cons (v : Val) (vs : List Val) : sumPowers (v :: vs) = v.power + sumPowers vs := by
  simp [sumPowers]

theorem sumPowers_nonneg (vals : List Val) (h : ∀ v ∈ vals, 0 ≤ v.power) : 0 ≤ sumPowers vals := by
  induction vals with
  | nil => simp [sumPowers]
  | cons v vs ih =>
    rw [sumPowers_cons]
    have := h v List.mem_cons_self
    have := ih (fun w hw => h w (List.mem_cons_of_mem _ hw))
    omega

theorem foldl_total (vals : List Val) (acc : Int) (hacc : 0 ≤ acc) (hp : ∀ v ∈ vals, 0 ≤ v.power)
    (hs : acc + sumPowers vals < two62) :
    vals.foldl (fun acc v => safeAddClip acc v.power) acc = acc + sumPowers vals := by
  induction vals generalizing acc with
  | nil => simp [sumPowers]
  | cons v vs ih =>
    have hv := hp v List.mem_cons_self
    have hrest := sumPowers_nonneg vs (fun w hw => hp w (List.mem_cons_of_mem _ hw))
    rw [sumPowers_cons] at hs ⊢
    simp only [List.foldl_cons]
    rw [safeAddClip_small acc v.power hacc hv (by omega)]
    rw [ih (acc + v.power) (by omega) (fun w hw => hp w (List.mem_cons_of_mem _ hw)) (by omega)]
    omega

/-- `TotalVotingPower` is the true sum (no clipping) under the property's quantifier -/
theorem totalPower_eq (vals : List Val) (h : NoOverflow vals) : totalPower vals = sumPowers vals := by
  unfold totalPower
  rw [foldl_total vals 0 (by omega) h.1 (by simpa using h.2)]
  omega

theorem two_thirds_floor (total : Int) (h0 : 0 ≤ total) (h : total < two62) :
    wrapI64 (Int.tdiv (wrapI64 (total * 2)) 3) = total * 2 / 3 := by
  unfold two62 at h
  have h1 : wrapI64 (total * 2) = total * 2 := by unfold wrapI64; omega
  rw [h1, Int.tdiv_eq_ediv_of_nonneg (by omega)]
  unfold wrapI64; omega

/-- `VerifyCommit`'s accept test is "strictly more than two thirds of the total", without overflow -/
theorem verifyCommitAccepts_iff (tallied total : Int) (h0 : 0 ≤ total) (h : total < two62) :
    verifyCommitAccepts tallied total = true ↔ 3 * tallied > 2 * total := by
  unfold verifyCommitAccepts
  rw [two_thirds_floor total h0 h]
  simp only [decide_eq_true_eq]
  omega

/-- `HasTwoThirdsAny` uses the same threshold -/
theorem hasTwoThirdsAny_iff (sum total : Int) (h0 : 0 ≤ total) (h : total < two62) :
    hasTwoThirdsAny sum total = true ↔ 3 * sum > 2 * total := by
  unfold hasTwoThirdsAny
  rw [two_thirds_floor total h0 h]
  simp only [decide_eq_true_eq]
  omega

/-- the quorum of `addVerifiedVote` is `floor(2*total/3) + 1`, without overflow -/
theorem quorum_eq (total : Int) (h0 : 0 ≤ total) (h : total < two62) : quorum total = total * 2 / 3 + 1 := by
  unfold quorum
  rw [two_thirds_floor total h0 h]
  unfold two62 at h
  unfold wrapI64; omega

/-- threshold lemma for Go's integer division: `sum > total*2/3 ↔ sum ≥ total*2/3 + 1 ↔ 3*sum > 2*total`;
so the live quorum (`≥ quorum`) and the two `>` tests (`VerifyCommit`, `HasTwoThirdsAny`) agree for every total -/
theorem quorum_iff (sum total : Int) (h0 : 0 ≤ total) (h : total < two62) :
    quorum total ≤ sum ↔ 3 * sum > 2 * total := by
  rw [quorum_eq total h0 h]; omega

theorem quorum_agrees (sum total : Int) (h0 : 0 ≤ total) (h : total < two62) :
    (quorum total ≤ sum ↔ verifyCommitAccepts sum total = true) ∧
    (quorum total ≤ sum ↔ hasTwoThirdsAny sum total = true) := by
  rw [quorum_iff sum total h0 h, verifyCommitAccepts_iff sum total h0 h, hasTwoThirdsAny_iff sum total h0 h]
  exact ⟨Iff.rfl, Iff.rfl⟩

/-- `crossedQuorum` fires exactly when the block's tally moves from below the quorum to at least the quorum -/
theorem crossedQuorum_iff (o q n : Int) : crossedQuorum o q n = true ↔ o < q ∧ q ≤ n := by
  unfold crossedQuorum; simp

/-- the two structural facts of `VerifyCommit` that the model relies on still hold in the source (T2) -/
theorem verifyCommit_loop_facts : sigCheckedAgainstIndex = true ∧ tallyGuardedByBlockID = true := by decide

/-- WITHOUT the bound the accept test is not a two-thirds test: with total = MaxInt64 (what `TotalVotingPower`
clips to) `total*2` wraps to -2 and one unit of power is "more than two thirds" (why the quantifier says < 2^62) -/
theorem verifyCommitAccepts_overflow_witness : verifyCommitAccepts 1 maxI64 = true ∧ ¬ (3 * (1 : Int) > 2 * maxI64) := by decide

example : verifyCommitAccepts 3 4 = true ∧ verifyCommitAccepts 2 3 = false ∧ quorum 4 = 3 ∧ quorum 3 = 3 := by decide

end Props.C03
